// H3 — the integer/bit arithmetic under the queues and the transit buffer, on the real code (C01, C02, C03):
//   quill::detail::is_power_of_two / max_power_of_two<T> / next_power_of_two<T>  (MathUtilities.h)
//   BoundedSPSCQueueImpl<uint8_t|uint16_t|uint32_t|size_t> constructor (_capacity, _mask, _bytes_per_batch, bytes allocated)
//   UnboundedSPSCQueue constructor, _handle_full_queue doubling, shrink
//   TransitEventBuffer constructor, _mask, free-running positions driven through the 2^64 wrap
//
//   h3_math gen <seed> <section: math|bounded|unbounded|transit> <quick|thorough>
//   h3_math replay <file>         (the op part of the same lines)
//   h3_math f32                   (finding F32 in a forked child: write into the queue a request > 2^62 produced)
//
// Output: "op => observation" lines (recomputed by `driver mathutil trace`), "ORACLE <what> …" lines from references written
// independently of the code under test (popcount, count-leading-zeros, std::deque), a final STATS line.
#include "quill/backend/TransitEventBuffer.h"
#include "quill/core/BoundedSPSCQueue.h"
#include "quill/core/MathUtilities.h"
#include "quill/core/UnboundedSPSCQueue.h"

#include <csignal>
#include <cstring>
#include <deque>
#include <fstream>
#include <iostream>
#include <memory>
#include <sstream>
#include <string>
#include <sys/wait.h>
#include <unistd.h>
#include <vector>

using namespace quill::detail;
static uint64_t g_oracle = 0, g_lines = 0;
static uint64_t g_kind[16] = {0};

struct Rng
{
  uint64_t s;
  explicit Rng(uint64_t seed) : s(seed * 0x9E3779B97F4A7C15ull + 777767ull) {}
  uint64_t next() { s ^= s << 13; s ^= s >> 7; s ^= s << 17; return s; }
  uint64_t below(uint64_t n) { return n ? next() % n : 0; }
  // a value with a random bit length, often right at a power of two
  uint64_t shaped(unsigned w)
  {
    unsigned const k = static_cast<unsigned>(below(w + 1));
    uint64_t const top = (k >= 64) ? ~0ull : ((1ull << k) - 1);
    uint64_t v = next() & top;
    switch (below(6))
    {
    case 0: v = (k >= 64) ? 0 : (1ull << k); break;
    case 1: v = (k >= 64) ? ~0ull : (1ull << k) - 1; break;
    case 2: v = (k >= 64) ? 1 : (1ull << k) + 1; break;
    default: break;
    }
    if (w < 64) { v &= (1ull << w) - 1; }
    return v;
  }
};

static void oracle(std::string const& what)
{
  ++g_oracle;
  std::cout << "ORACLE " << what << "\n";
}

// ---- independent references -----------------------------------------------------------------------------------------
static bool ref_is_pow2(uint64_t n) { return __builtin_popcountll(n) == 1; }
static uint64_t ref_bit_ceil(uint64_t n) // smallest power of two >= n, n <= 2^63
{
  if (n <= 1) { return 1; }
  return 1ull << (64 - __builtin_clzll(n - 1));
}

// ---- MathUtilities ---------------------------------------------------------------------------------------------------
static void do_ip2(uint64_t n)
{
  bool const r = is_power_of_two(n);
  std::cout << "ip2 " << n << " => " << (r ? 1 : 0) << "\n";
  ++g_lines; ++g_kind[0];
  if (r != ref_is_pow2(n)) { oracle("is-power-of-two-wrong n=" + std::to_string(n)); }
}

template <typename T>
static uint64_t np2_of(uint64_t n) { return static_cast<uint64_t>(next_power_of_two<T>(static_cast<T>(n))); }

static void do_mp2(unsigned w)
{
  uint64_t r = 0;
  switch (w)
  {
  case 8: r = max_power_of_two<uint8_t>(); break;
  case 16: r = max_power_of_two<uint16_t>(); break;
  case 32: r = max_power_of_two<uint32_t>(); break;
  default: r = max_power_of_two<uint64_t>(); break;
  }
  std::cout << "mp2 " << w << " => " << r << "\n";
  ++g_lines;
  if (r != (1ull << (w - 1))) { oracle("max-power-of-two-wrong w=" + std::to_string(w)); }
}

static void do_np2(unsigned w, uint64_t n)
{
  uint64_t r = 0;
  switch (w)
  {
  case 8: r = np2_of<uint8_t>(n); break;
  case 16: r = np2_of<uint16_t>(n); break;
  case 32: r = np2_of<uint32_t>(n); break;
  default: r = np2_of<uint64_t>(n); break;
  }
  std::cout << "np2 " << w << " " << n << " => " << r << "\n";
  ++g_lines; ++g_kind[1];
  uint64_t const top = 1ull << (w - 1);
  std::string const at = " w=" + std::to_string(w) + " n=" + std::to_string(n) + " result=" + std::to_string(r);
  if (!ref_is_pow2(r)) { oracle("next-power-of-two-not-a-power" + at); }
  else if (n <= top && r < n) { oracle("next-power-of-two-below-request" + at); }
  else if (n <= top && r != ref_bit_ceil(n)) { oracle("next-power-of-two-not-least" + at); }
  else if (n > top && r != top) { oracle("next-power-of-two-saturation" + at); }
}

template <typename T>
static int64_t np2s_of(int64_t n) { return static_cast<int64_t>(next_power_of_two<T>(static_cast<T>(n))); }

static void do_np2s(unsigned w, int64_t n)
{
  int64_t r = 0;
  switch (w)
  {
  case 8: r = np2s_of<int8_t>(n); break;
  case 16: r = np2s_of<int16_t>(n); break;
  case 32: r = np2s_of<int32_t>(n); break;
  default: r = np2s_of<int64_t>(n); break;
  }
  std::cout << "np2s " << w << " " << n << " => " << r << "\n";
  ++g_lines; ++g_kind[2];
  int64_t const top = static_cast<int64_t>(1ull << (w - 2));
  std::string const at = " w=" + std::to_string(w) + " n=" + std::to_string(n) + " result=" + std::to_string(r);
  if (n >= 0 && n <= top && (r < n || static_cast<uint64_t>(r) != ref_bit_ceil(static_cast<uint64_t>(n))))
  {
    oracle("next-power-of-two-signed-not-least" + at);
  }
  else if (n > top && r != top) { oracle("next-power-of-two-signed-saturation" + at); }
}

// ---- BoundedSPSCQueueImpl<T> constructor -----------------------------------------------------------------------------
template <typename T>
static void bctor_t(unsigned w, uint64_t req, uint64_t pct)
{
  std::cout << "bctor " << w << " " << req << " " << pct << " => ";
  std::cout.flush();   // a sanitizer abort inside the constructor must leave the op visible
  ++g_lines; ++g_kind[3];
  try
  {
    BoundedSPSCQueueImpl<T> q{static_cast<T>(req), quill::HugePagesPolicy::Never, static_cast<T>(pct)};
    uint64_t const cap = static_cast<uint64_t>(q._capacity), mask = static_cast<uint64_t>(q._mask);
    uint64_t const batch = static_cast<uint64_t>(q._bytes_per_batch);
    size_t total = 0;
    std::memcpy(&total, q._storage - sizeof(size_t), sizeof(total));
    uint64_t const alloc = static_cast<uint64_t>(total) - 2u * sizeof(size_t) - quill::detail::QUILL_CACHE_LINE_ALIGNED;
    std::cout << "cap=" << cap << " mask=" << mask << " batch=" << batch << " alloc=" << alloc
              << " apicap=" << static_cast<uint64_t>(q.capacity()) << "\n";
    std::string const at = " w=" + std::to_string(w) + " request=" + std::to_string(req) + " capacity=" + std::to_string(cap) +
      " mask=" + std::to_string(mask) + " bytes-allocated=" + std::to_string(alloc);
    if (!ref_is_pow2(cap)) { oracle("bounded-capacity-not-a-power-of-two" + at); }
    else if (mask != cap - 1) { oracle("bounded-mask-is-not-capacity-minus-one" + at); }
    else if (cap >= (1ull << 63) || alloc != 2 * cap)
    {
      // the queue grants reservations of up to `capacity` contiguous bytes at offsets below `capacity`: needs 2*capacity bytes
      oracle(std::string{"bounded-storage-smaller-than-twice-capacity class="} + ((w == 64 && req > (1ull << 62)) ? "size_t-request-above-2pow62" : "other") + at);
    }
    else if (req <= (1ull << (w - 1)) && cap < req) { oracle("bounded-capacity-below-request" + at); }
  }
  catch (quill::QuillError const& e)
  {
    std::cout << "throw\n";
  }
}

static void do_bctor(unsigned w, uint64_t req, uint64_t pct)
{
  switch (w)
  {
  case 8: bctor_t<uint8_t>(w, req, pct); break;
  case 16: bctor_t<uint16_t>(w, req, pct); break;
  case 32: bctor_t<uint32_t>(w, req, pct); break;
  default: bctor_t<size_t>(w, req, pct); break;
  }
}

// ---- UnboundedSPSCQueue ----------------------------------------------------------------------------------------------
struct URunner
{
  std::unique_ptr<UnboundedSPSCQueue> q;
  uint64_t maxc{0};
  void init(uint64_t initc, uint64_t maxcap)
  {
    maxc = maxcap;
    q = std::make_unique<UnboundedSPSCQueue>(static_cast<size_t>(initc), static_cast<size_t>(maxcap));
    std::cout << "uq " << initc << " " << maxcap << " => cap=" << q->producer_capacity() << "\n";
    ++g_lines; ++g_kind[4];
    if (!ref_is_pow2(q->producer_capacity()) || q->producer_capacity() < initc)
    {
      oracle("unbounded-initial-capacity-wrong request=" + std::to_string(initc) + " capacity=" + std::to_string(q->producer_capacity()));
    }
  }
  void pw(uint64_t n)
  {
    uint64_t const before = q->producer_capacity();
    std::cout.flush();
    std::string res;
    try
    {
      std::byte* p = q->prepare_write(static_cast<size_t>(n));
      res = p ? "grant" : "null";
    }
    catch (quill::QuillError const&)
    {
      res = "throw";
    }
    uint64_t const after = q->producer_capacity();
    std::cout << "upw " << n << " => " << res << " cap=" << after << "\n";
    ++g_lines; ++g_kind[5];
    std::string const at = " record=" + std::to_string(n) + " capacity-before=" + std::to_string(before) +
      " capacity-after=" + std::to_string(after) + " max=" + std::to_string(maxc);
    if (after != before)
    {
      if (after > maxc) { oracle("unbounded-allocated-beyond-max" + at); }
      else if (after < n) { oracle("unbounded-grown-node-too-small" + at); }
      else if (!ref_is_pow2(after) || after % before != 0 || !ref_is_pow2(after / before) || after < 2 * before) { oracle("unbounded-growth-not-a-doubling" + at); }
      else if (after / 2 >= n && after / 2 > before) { oracle("unbounded-growth-not-least" + at); }
    }
    if (res == "grant" && after < n) { oracle("unbounded-grant-larger-than-node" + at); }
    if ((res == "throw") != (n > maxc && n > before)) { oracle("unbounded-throw-iff-record-above-max" + at); }
  }
  void shrink(uint64_t c)
  {
    uint64_t const before = q->producer_capacity();
    q->shrink(static_cast<size_t>(c));
    uint64_t const after = q->producer_capacity();
    std::cout << "ushrink " << c << " => cap=" << after << "\n";
    ++g_lines; ++g_kind[6];
    std::string const at = " target=" + std::to_string(c) + " capacity-before=" + std::to_string(before) + " capacity-after=" + std::to_string(after);
    if (c <= before / 2 && before >= 2)
    {
      if (after > before / 2 || after < c || !ref_is_pow2(after) || after != ref_bit_ceil(c)) { oracle("unbounded-shrink-wrong-capacity" + at); }
    }
    else if (c > before / 2 && after != before) { oracle("unbounded-shrink-when-target-above-half" + at); }
  }
};

// ---- TransitEventBuffer ----------------------------------------------------------------------------------------------
struct TRunner
{
  std::unique_ptr<TransitEventBuffer> b;
  std::deque<uint64_t> ref;
  std::string tag;
  void init(uint64_t req)
  {
    b = std::make_unique<TransitEventBuffer>(static_cast<size_t>(req));
    ref.clear();
    tag = std::to_string(req);
    std::cout << "tb " << req << " => cap=" << b->_capacity << " mask=" << b->_mask << " init=" << b->_initial_capacity << "\n";
    ++g_lines; ++g_kind[7];
    if (!ref_is_pow2(b->_capacity) || b->_mask != b->_capacity - 1 || b->_capacity < req)
    {
      oracle("transit-ctor-wrong request=" + std::to_string(req) + " capacity=" + std::to_string(b->_capacity) + " mask=" + std::to_string(b->_mask));
    }
  }
  void observe(std::string const& op)
  {
    auto* f = b->front();
    std::cout << op << " => front=";
    if (f) { std::cout << f->timestamp; } else { std::cout << "-"; }
    std::cout << " size=" << b->size() << " cap=" << b->capacity() << " mask=" << b->_mask << " empty=" << (b->empty() ? 1 : 0)
              << " r=" << b->_reader_pos << " w=" << b->_writer_pos << "\n";
    ++g_lines; ++g_kind[8];
    if ((f != nullptr) != !ref.empty() || (f && f->timestamp != ref.front()) || b->size() != ref.size() || b->empty() != ref.empty())
    {
      oracle("transit-not-fifo request=" + tag + " expected-front=" + std::to_string(ref.empty() ? 0 : ref.front()) +
             " expected-size=" + std::to_string(ref.size()) + " r=" + std::to_string(b->_reader_pos) + " w=" + std::to_string(b->_writer_pos));
    }
  }
  void push(uint64_t v)
  {
    std::cout << "# next: tpush " << v << std::endl;   // flushed: visible if the real code aborts inside the operation
    TransitEvent* te = b->back();
    te->timestamp = v;
    b->push_back();
    ref.push_back(v);
    observe("tpush " + std::to_string(v));
  }
  void pop()
  {
    if (b->front()) { b->pop_front(); ref.pop_front(); }
    observe("tpop");
  }
  void setpos(uint64_t p)
  {
    if (b->empty()) { b->_reader_pos = static_cast<size_t>(p); b->_writer_pos = static_cast<size_t>(p); }
    observe("tsetpos " + std::to_string(p));
  }
};

struct Session
{
  URunner u;
  TRunner t;
  void op(std::vector<std::string> const& w)
  {
    auto U = [&](size_t i) { return std::stoull(w.at(i)); };
    if (w[0] == "ip2") { do_ip2(U(1)); }
    else if (w[0] == "mp2") { do_mp2(static_cast<unsigned>(U(1))); }
    else if (w[0] == "np2") { do_np2(static_cast<unsigned>(U(1)), U(2)); }
    else if (w[0] == "np2s") { do_np2s(static_cast<unsigned>(U(1)), std::stoll(w.at(2))); }
    else if (w[0] == "bctor") { do_bctor(static_cast<unsigned>(U(1)), U(2), U(3)); }
    else if (w[0] == "uq") { u.init(U(1), U(2)); }
    else if (w[0] == "upw" && u.q) { u.pw(U(1)); }
    else if (w[0] == "ushrink" && u.q) { u.shrink(U(1)); }
    else if (w[0] == "tb") { t.init(U(1)); }
    else if (w[0] == "tpush" && t.b) { t.push(U(1)); }
    else if (w[0] == "tpop" && t.b) { t.pop(); }
    else if (w[0] == "treq" && t.b) { t.b->request_shrink(); t.observe("treq"); }
    else if (w[0] == "ttry" && t.b) { t.b->try_shrink(); t.observe("ttry"); }
    else if (w[0] == "tsetpos" && t.b) { t.setpos(U(1)); }
  }
};

static std::vector<uint64_t> boundaries(unsigned w)
{
  std::vector<uint64_t> v{0, 1, 2, 3};
  uint64_t const maxv = (w >= 64) ? ~0ull : ((1ull << w) - 1);
  for (unsigned k = 1; k < w; ++k)
  {
    uint64_t const p = 1ull << k;
    v.push_back(p - 1); v.push_back(p); v.push_back(p + 1);
  }
  v.push_back(maxv); v.push_back(maxv - 1); v.push_back(maxv / 2); v.push_back(maxv / 2 + 1); v.push_back(maxv / 2 + 2);
  return v;
}

static void gen_math(Rng& rng, bool thorough)
{
  for (unsigned w : {8u, 16u, 32u, 64u}) { do_mp2(w); }
  // exhaustive for the 8- and 16-bit types, unsigned and signed
  for (uint64_t n = 0; n < 256; ++n) { do_np2(8, n); }
  for (int64_t n = -128; n < 128; ++n) { do_np2s(8, n); }
  for (uint64_t n = 0; n < 65536; ++n) { do_np2(16, n); }
  for (int64_t n = -32768; n < 32768; ++n) { do_np2s(16, n); }
  for (uint64_t n = 0; n < 70000; ++n) { if (n < 4200 || ref_is_pow2(n) || ref_is_pow2(n + 1) || ref_is_pow2(n - 1) || thorough) { do_ip2(n); } }
  unsigned const nrand = thorough ? 60000 : 2500;
  for (unsigned w : {32u, 64u})
  {
    for (uint64_t n : boundaries(w)) { do_np2(w, n); do_ip2(n); }
    for (unsigned i = 0; i < nrand; ++i) { do_np2(w, rng.shaped(w)); }
    // signed: non-negative boundaries, the negative boundaries, random
    int64_t const smin = (w == 32) ? INT32_MIN : INT64_MIN, smax = (w == 32) ? INT32_MAX : INT64_MAX;
    for (uint64_t n : boundaries(w - 1)) { do_np2s(w, static_cast<int64_t>(n)); }
    for (int64_t n : {smin, smin + 1, static_cast<int64_t>(-1), static_cast<int64_t>(-2), smax, smax - 1, smax / 2, smax / 2 + 1, smax / 2 + 2, smin / 2, smin / 2 - 1})
    {
      do_np2s(w, n);
    }
    for (unsigned i = 0; i < nrand / 2; ++i)
    {
      uint64_t const v = rng.shaped(w);
      do_np2s(w, (w == 32) ? static_cast<int64_t>(static_cast<int32_t>(static_cast<uint32_t>(v))) : static_cast<int64_t>(v));
    }
  }
  for (unsigned i = 0; i < nrand; ++i) { do_ip2(rng.shaped(64)); }
}

static void gen_bounded(Rng& rng, bool thorough)
{
  uint64_t const pcts[] = {5, 0, 100, 50};
  for (uint64_t n = 0; n < 256; ++n) { for (uint64_t p : pcts) { do_bctor(8, n, p); } }
  if (thorough) { for (uint64_t n = 0; n < 65536; ++n) { do_bctor(16, n, pcts[n % 4]); } }
  else
  {
    for (uint64_t n : boundaries(16)) { do_bctor(16, n, 5); }
    for (unsigned i = 0; i < 400; ++i) { do_bctor(16, rng.shaped(16), pcts[rng.below(4)]); }
  }
  uint64_t const lim = 1ull << (thorough ? 26 : 22);
  for (unsigned w : {32u, 64u})
  {
    for (uint64_t n : boundaries(w)) { if (n <= lim) { do_bctor(w, n, 5); } }
    for (unsigned i = 0; i < (thorough ? 300u : 40u); ++i) { do_bctor(w, rng.shaped(20), pcts[rng.below(4)]); }
  }
  // size_t requests near the top: 2^62 needs 2^63 bytes (the allocator refuses: QuillError); above 2^62 the capacity is 2^63
  for (uint64_t n : {(1ull << 62), (1ull << 62) + 1, (1ull << 63) - 1, (1ull << 63), (1ull << 63) + 1, ~0ull - 1, ~0ull}) { do_bctor(64, n, 5); }
}

static void gen_unbounded(Rng& rng, bool thorough)
{
  unsigned const traces = thorough ? 600 : 60;
  for (unsigned t = 0; t < traces; ++t)
  {
    URunner u;
    uint64_t const inits[] = {0, 1, 2, 3, 5, 64, 100, 127, 128, 129, 1000, 1024, 4096, 5000};
    uint64_t const initc = (rng.below(4) == 0) ? rng.shaped(13) : inits[rng.below(14)];
    uint64_t maxc = 1ull << (10 + rng.below(12));
    if (rng.below(4) == 0) { maxc = maxc + rng.below(maxc); }   // not a power of two
    if (rng.below(12) == 0) { maxc = ~0ull; }
    u.init(initc, maxc);
    for (unsigned i = 0; i < 14; ++i)
    {
      uint64_t const cap = u.q->producer_capacity();
      uint64_t const x = rng.below(100);
      if (x < 60)
      {
        uint64_t n = 0;
        switch (rng.below(8))
        {
        case 0: n = cap; break;
        case 1: n = cap + 1; break;
        case 2: n = 2 * cap; break;
        case 3: n = 2 * cap + 1; break;
        case 4: n = maxc; break;
        case 5: n = maxc + 1; break;
        case 6: n = maxc / 2 + 1; break;
        default: n = rng.shaped(23); break;
        }
        if (n > (1ull << 23) && n <= maxc) { n = rng.shaped(20); }     // keep real allocations small
        u.pw(n);
      }
      else
      {
        uint64_t c = 0;
        switch (rng.below(6))
        {
        case 0: c = cap / 2; break;
        case 1: c = cap / 2 + 1; break;
        case 2: c = cap / 4 + 1; break;
        case 3: c = 0; break;
        case 4: c = cap; break;
        default: c = rng.shaped(14); break;
        }
        u.shrink(c);
      }
    }
  }
}

static void gen_transit(Rng& rng, bool thorough)
{
  unsigned const traces = thorough ? 800 : 80, nops = thorough ? 220 : 140;
  uint64_t val = 1;
  for (unsigned t = 0; t < traces; ++t)
  {
    TRunner r;
    uint64_t const reqs[] = {0, 1, 2, 3, 4, 5, 7, 8, 9, 16, 100, 128};
    r.init(rng.below(5) == 0 ? rng.shaped(9) : reqs[rng.below(12)]);
    // most traces start shortly before the 2^64 wrap of the free-running positions (or the 2^32 / 2^63 boundaries)
    switch (rng.below(5))
    {
    case 0: break;
    case 1: r.setpos((1ull << 32) - 1 - rng.below(6)); break;
    case 2: r.setpos((1ull << 63) - 1 - rng.below(6)); break;
    default: r.setpos(~0ull - rng.below(24)); break;
    }
    unsigned bias = 60;
    for (unsigned i = 0; i < nops; ++i)
    {
      if (rng.below(25) == 0) { bias = static_cast<unsigned>(rng.below(3)) * 35 + 15; }
      uint64_t const x = rng.below(100);
      if (x < bias) { r.push(val++); }
      else if (x < 92) { r.pop(); }
      else if (x < 95) { r.b->request_shrink(); r.observe("treq"); }
      else if (x < 98) { r.b->try_shrink(); r.observe("ttry"); }
      else { r.setpos(~0ull - rng.below(8)); }
    }
    while (r.b->front()) { r.pop(); }
  }
}

static int finish()
{
  std::cout << "STATS lines=" << g_lines << " ip2=" << g_kind[0] << " np2=" << g_kind[1] << " np2s=" << g_kind[2] << " bctor=" << g_kind[3]
            << " uq=" << g_kind[4] << " upw=" << g_kind[5] << " ushrink=" << g_kind[6] << " tb=" << g_kind[7] << " tops=" << g_kind[8]
            << " oracle_violations=" << g_oracle << "\n";
  return g_oracle ? 3 : 0;
}

int main(int argc, char** argv)
{
  std::ios::sync_with_stdio(false);
  std::string const mode = argc >= 2 ? argv[1] : "";
  if (mode == "gen" && argc >= 5)
  {
    Rng rng(std::stoull(argv[2]));
    std::string const sec = argv[3];
    bool const thorough = std::string{argv[4]} == "thorough";
    if (sec == "math") { gen_math(rng, thorough); }
    else if (sec == "bounded") { gen_bounded(rng, thorough); }
    else if (sec == "unbounded") { gen_unbounded(rng, thorough); }
    else if (sec == "transit") { gen_transit(rng, thorough); }
    return finish();
  }
  if (mode == "replay" && argc >= 3)
  {
    std::ifstream in(argv[2]);
    std::string line;
    Session s;
    while (std::getline(in, line))
    {
      auto const arrow = line.find(" => ");
      if (arrow != std::string::npos) { line = line.substr(0, arrow); }
      std::istringstream is(line);
      std::vector<std::string> w;
      std::string tok;
      while (is >> tok) { w.push_back(tok); }
      if (w.empty() || w[0][0] == '#') { continue; }
      s.op(w);
    }
    return finish();
  }
  if (mode == "f32")
  {
    // what the wrapped allocation means for a user: construct with a request above 2^62, reserve 1 MiB (granted: the capacity
    // is 2^63), write the record. Done in a child process because the write leaves the mapping.
    std::cout.flush();
    pid_t const pid = fork();
    if (pid == 0)
    {
      BoundedSPSCQueueImpl<size_t> q{~static_cast<size_t>(0)};
      std::byte* p = q.prepare_write(1u << 20);
      if (!p) { _exit(7); }
      std::memset(p, 0x5a, 1u << 20);
      q.finish_and_commit_write(1u << 20);
      _exit(0);
    }
    int st = 0;
    waitpid(pid, &st, 0);
    std::cout << "f32 request=" << ~static_cast<size_t>(0) << " reserve=1048576 => "
              << (WIFSIGNALED(st) ? "child-killed-by-signal=" + std::to_string(WTERMSIG(st)) : "child-exit=" + std::to_string(WEXITSTATUS(st))) << "\n";
    return 0;
  }
  if (mode == "hang")
  {
    // observations (not property violations): the doubling loop of UnboundedSPSCQueue::_handle_full_queue in a child process with
    // a 2 s alarm. A: a record above 2^63 bytes on an ordinary node. B: a refused reservation on a node of capacity 2^63
    // (only constructible on a tree without the F32 repair; positions are advanced with finish_write, nothing is written).
    for (int c = 0; c < 2; ++c)
    {
      std::cout.flush();
      pid_t const pid = fork();
      if (pid == 0)
      {
        alarm(2);
        try
        {
          if (c == 0)
          {
            UnboundedSPSCQueue q{1024, ~static_cast<size_t>(0)};
            std::byte* p = q.prepare_write((static_cast<size_t>(1) << 63) + 1);
            _exit(p ? 10 : 11);
          }
          UnboundedSPSCQueue q{~static_cast<size_t>(0), ~static_cast<size_t>(0)};
          if (q.producer_capacity() != (static_cast<size_t>(1) << 63)) { _exit(12); }
          q.finish_write(static_cast<size_t>(1) << 63);   // the node is full (positions only)
          std::byte* p = q.prepare_write(1);
          _exit(p ? 10 : 11);
        }
        catch (quill::QuillError const&)
        {
          _exit(13);
        }
      }
      int st = 0;
      waitpid(pid, &st, 0);
      std::cout << (c == 0 ? "hang A node=1024 max=SIZE_MAX prepare_write(2^63+1)" : "hang B node=2^63 (request SIZE_MAX) full, prepare_write(1)") << " => ";
      if (WIFSIGNALED(st)) { std::cout << "no-return-within-2s child-killed-by-signal=" << WTERMSIG(st) << "\n"; }
      else
      {
        int const e = WEXITSTATUS(st);
        std::cout << (e == 10 ? "returned-grant" : e == 11 ? "returned-null" : e == 12 ? "node-capacity-not-2^63" : e == 13 ? "QuillError" : "exit") << " code=" << e << "\n";
      }
    }
    return 0;
  }
  std::cerr << "usage: h3_math gen <seed> <math|bounded|unbounded|transit> <quick|thorough> | replay <file> | f32 | hang\n";
  return 2;
}
