// H3 — the by-name sink registry (C17) on the real code.
//
//   h3_sinkreg gen <seed> <nrandom> <maxops> <exhaustive-len> <findAt> <insertAt>
//   h3_sinkreg replay <file> <findAt> <insertAt>
//
// Drives the REAL quill::detail::SinkManager singleton — through Frontend::create_or_get_sink<T> / Frontend::get_sink,
// the way applications reach it, and SinkManager::cleanup_unused_sinks(), the call the backend makes right after it
// erased a logger — with op sequences over 2–4 names:
//
//   cg <name>    create_or_get_sink<CountSink>(name); every returned shared_ptr is kept (several owners per object)
//   get <name>   get_sink(name)
//   drop <id>    the harness releases every shared_ptr it holds to object <id> (the last owner lets go)
//   cleanup      cleanup_unused_sinks()
//
// After every op it prints `op => observation`: the object returned (serial number of its construction, counted by the
// Sink subclass), whether an object was constructed, the exception kind, the sweep's return value, and the `_sinks`
// vector dumped as `name:<id>` (alive) / `name:x` (expired) (-fno-access-control). `<findAt> <insertAt>`
// (lower|upper, from the extraction) are only echoed on the `init` line for the Lean driver `sinkreg`.
//
// ORACLE lines: the property itself, checked on the real outputs against the harness's own book-keeping (which objects
// it still owns under which name) — two live objects for one name; get fails while a live object exists; create_or_get
// returns an object different from the live one / constructs one although one is alive; the vector is unsorted; a live
// object is missing from the vector; the sweep removes anything but the expired entries; the registry keeps an object alive.
#include <algorithm>
#include <cstdint>
#include <cstdio>
#include <cstdlib>
#include <fstream>
#include <iostream>
#include <map>
#include <memory>
#include <sstream>
#include <string>
#include <vector>

#include "quill/Frontend.h"
#include "quill/core/QuillError.h"
#include "quill/core/SinkManager.h"
#include "quill/sinks/Sink.h"

using namespace quill;

static int g_ctor = 0, g_dtor = 0;
static uint64_t g_oracle = 0;
static std::map<std::string, uint64_t> g_stats;

struct CountSink : Sink
{
  int serial;
  CountSink() : serial(++g_ctor) {}
  ~CountSink() override { ++g_dtor; }
  void write_log(MacroMetadata const*, uint64_t, std::string_view, std::string_view, std::string const&, std::string_view,
                 LogLevel, std::string_view, std::string_view, std::vector<std::pair<std::string, std::string>> const*,
                 std::string_view, std::string_view) override
  {
  }
  void flush_sink() override {}
};

struct Rng
{
  uint64_t s;
  explicit Rng(uint64_t seed) : s(seed * 0x9E3779B97F4A7C15ull + 0xC17517ull) {}
  uint64_t next()
  {
    uint64_t z = (s += 0x9E3779B97F4A7C15ull);
    z = (z ^ (z >> 30)) * 0xBF58476D1CE4E5B9ull;
    z = (z ^ (z >> 27)) * 0x94D049BB133111EBull;
    return z ^ (z >> 31);
  }
  uint64_t below(uint64_t n) { return n ? next() % n : 0; }
  bool chance(unsigned pct) { return below(100) < pct; }
};

// names in std::string order (the driver maps a name to its rank in this table); prefixes of each other on purpose
static std::vector<std::string> const NAMES = {"a", "ab", "b", "ba"};

struct DumpEntry
{
  std::string name;
  int id; // 0 = expired
};

struct Case
{
  std::string id;
  std::string params;
  std::map<int, std::vector<std::shared_ptr<Sink>>> held; // object -> the owners the harness plays
  std::map<int, std::string> name_of;
  uint64_t nops{0};
  bool failed{false};

  detail::SinkManager& sm() { return detail::SinkManager::instance(); }

  std::vector<DumpEntry> dump()
  {
    std::vector<DumpEntry> out;
    for (auto const& e : sm()._sinks)
    {
      std::shared_ptr<Sink> sp = e.sink_ptr.lock();
      out.push_back(DumpEntry{e.sink_id, sp ? static_cast<CountSink*>(sp.get())->serial : 0});
    }
    return out;
  }
  static std::string show(std::vector<DumpEntry> const& d)
  {
    if (d.empty()) { return "-"; }
    std::string o;
    for (size_t i = 0; i < d.size(); ++i)
    {
      if (i) { o.push_back(','); }
      o += d[i].name + ":" + (d[i].id ? std::to_string(d[i].id) : std::string{"x"});
    }
    return o;
  }
  void oracle(std::string const& what)
  {
    ++g_oracle;
    failed = true;
    std::cout << "ORACLE " << what << " case=" << id << '\n';
  }
  std::vector<int> live_of(std::string const& n) const
  {
    std::vector<int> v;
    for (auto const& kv : held)
    {
      if (name_of.at(kv.first) == n) { v.push_back(kv.first); }
    }
    return v;
  }
  /** invariants of the registry against the harness's own book-keeping */
  void check_list(std::vector<DumpEntry> const& d)
  {
    for (size_t i = 1; i < d.size(); ++i)
    {
      if (d[i].name < d[i - 1].name)
      {
        oracle("unsorted list=" + show(d));
        break;
      }
    }
    for (auto const& n : NAMES)
    {
      auto lv = live_of(n);
      if (lv.size() > 1)
      {
        std::string ids;
        for (int k : lv) { ids += (ids.empty() ? "" : ",") + std::to_string(k); }
        oracle("two-live name=" + n + " ids=" + ids + " list=" + show(d));
      }
    }
    for (auto const& kv : held)
    {
      long cnt = std::count_if(d.begin(), d.end(), [&](DumpEntry const& e) { return e.id == kv.first; });
      if (cnt != 1) { oracle("live-object-not-registered-once id=" + std::to_string(kv.first) + " times=" + std::to_string(cnt) + " list=" + show(d)); }
    }
    for (auto const& e : d)
    {
      if (e.id && !held.count(e.id)) { oracle("registry-keeps-object-alive id=" + std::to_string(e.id) + " list=" + show(d)); }
      if (e.id && held.count(e.id) && name_of.at(e.id) != e.name) { oracle("object-under-wrong-name id=" + std::to_string(e.id) + " list=" + show(d)); }
    }
    // statistics: an expired entry coexisting with a live entry of the same name
    bool coexist = false;
    for (auto const& e : d)
    {
      if (e.id == 0 && !live_of(e.name).empty()) { coexist = true; }
    }
    if (coexist) { ++g_stats["ops_with_expired_and_live_entry_of_one_name"]; }
    g_stats["max_entries"] = std::max<uint64_t>(g_stats["max_entries"], d.size());
  }

  void begin(std::string const& cid, std::string const& par, unsigned nnames)
  {
    id = cid;
    params = par;
    held.clear();
    name_of.clear();
    failed = false;
    sm().cleanup_unused_sinks();
    if (!sm()._sinks.empty())
    {
      oracle("registry-not-empty-after-releasing-everything list=" + show(dump()));
      sm()._sinks.clear();
    }
    g_ctor = 0;
    g_dtor = 0;
    std::string names;
    for (unsigned i = 0; i < nnames && i < NAMES.size(); ++i) { names += (i ? "," : "") + NAMES[i]; }
    std::cout << "init " << id << ' ' << params << ' ' << names << '\n';
    ++g_stats["cases"];
  }

  void cg(std::string const& n)
  {
    auto before = live_of(n);
    int const c0 = g_ctor;
    std::cout << "cg " << n << std::flush;
    std::shared_ptr<Sink> sp;
    std::string err;
    try { sp = Frontend::create_or_get_sink<CountSink>(n); }
    catch (QuillError const&) { err = "QuillError"; }
    catch (std::exception const&) { err = "std"; }
    int const got = sp ? static_cast<CountSink*>(sp.get())->serial : 0;
    int const made = g_ctor - c0;
    if (sp)
    {
      held[got].push_back(sp);
      if (!name_of.count(got)) { name_of[got] = n; }
    }
    auto d = dump();
    if (!err.empty()) { std::cout << " => err=" << err << " list=" << show(d) << '\n'; }
    else { std::cout << " => id=" << got << " new=" << made << " list=" << show(d) << '\n'; }
    ++nops;
    ++g_stats["ops"];
    ++g_stats[made ? "cg_constructed" : "cg_existing"];
    if (!err.empty() || !sp) { oracle("cg-failed name=" + n + " err=" + err); }
    else if (!before.empty())
    {
      if (std::find(before.begin(), before.end(), got) == before.end())
      {
        oracle("cg-returns-object-different-from-the-live-one name=" + n + " live=" + std::to_string(before.back()) + " got=" + std::to_string(got));
      }
      if (made != 0) { oracle("cg-constructs-although-a-live-object-exists name=" + n + " live=" + std::to_string(before.back()) + " constructed=" + std::to_string(made)); }
    }
    else if (made != 1 || got != g_ctor) { oracle("cg-not-a-fresh-object name=" + n + " got=" + std::to_string(got) + " constructed=" + std::to_string(made)); }
    check_list(d);
  }

  void get(std::string const& n)
  {
    auto before = live_of(n);
    std::cout << "get " << n << std::flush;
    std::shared_ptr<Sink> sp;
    std::string err;
    try { sp = Frontend::get_sink(n); }
    catch (QuillError const&) { err = "QuillError"; }
    catch (std::exception const&) { err = "std"; }
    int const got = sp ? static_cast<CountSink*>(sp.get())->serial : 0;
    if (sp && held.count(got)) { held[got].push_back(sp); }
    auto d = dump();
    if (!err.empty()) { std::cout << " => err=" << err << " list=" << show(d) << '\n'; }
    else { std::cout << " => id=" << got << " list=" << show(d) << '\n'; }
    ++nops;
    ++g_stats["ops"];
    ++g_stats[err.empty() ? "get_found" : "get_threw"];
    if (!before.empty())
    {
      if (!err.empty() || !sp) { oracle("get-fails-while-a-live-object-exists name=" + n + " live=" + std::to_string(before.back()) + " err=" + err); }
      else if (std::find(before.begin(), before.end(), got) == before.end())
      {
        oracle("get-returns-object-different-from-the-live-one name=" + n + " live=" + std::to_string(before.back()) + " got=" + std::to_string(got));
      }
    }
    else
    {
      if (err != "QuillError") { oracle("get-without-live-object-does-not-throw-QuillError name=" + n + " got=" + std::to_string(got) + " err=" + err); }
    }
    check_list(d);
  }

  void drop(int k)
  {
    std::cout << "drop " << k << std::flush;
    int const d0 = g_dtor;
    bool const had = held.count(k) != 0;
    held.erase(k);
    auto d = dump();
    std::cout << " => ok list=" << show(d) << '\n';
    ++nops;
    ++g_stats["ops"];
    ++g_stats[had ? "drops" : "drops_of_nothing"];
    if (had && g_dtor - d0 != 1) { oracle("released-object-not-destroyed id=" + std::to_string(k) + " destroyed=" + std::to_string(g_dtor - d0)); }
    check_list(d);
  }

  void cleanup()
  {
    auto before = dump();
    std::cout << "cleanup" << std::flush;
    uint32_t const n = sm().cleanup_unused_sinks();
    auto d = dump();
    std::cout << " => removed=" << n << " list=" << show(d) << '\n';
    ++nops;
    ++g_stats["ops"];
    ++g_stats["cleanups"];
    g_stats["entries_swept"] += n;
    std::vector<DumpEntry> want;
    for (auto const& e : before)
    {
      if (e.id) { want.push_back(e); }
    }
    bool same = want.size() == d.size();
    for (size_t i = 0; same && i < d.size(); ++i) { same = want[i].name == d[i].name && want[i].id == d[i].id; }
    if (!same || n != before.size() - want.size())
    {
      oracle("sweep-does-not-remove-exactly-the-expired-entries before=" + show(before) + " after=" + show(d) + " returned=" + std::to_string(n));
    }
    check_list(d);
  }

  int newest_live(std::string const& n) const
  {
    auto lv = live_of(n);
    return lv.empty() ? 0 : lv.back();
  }

  void end()
  {
    held.clear();
    sm().cleanup_unused_sinks();
  }
};

static std::vector<std::string> split_ws(std::string const& s)
{
  std::vector<std::string> o;
  std::istringstream is(s);
  std::string w;
  while (is >> w) { o.push_back(w); }
  return o;
}

// symbolic ops of the generators: 'c' cg, 'g' get, 'd' drop the newest live object of the name, 'D' drop an object
// released earlier, 's' sweep
struct Sym
{
  char k;
  unsigned name;
};
static void apply(Case& c, Sym s)
{
  switch (s.k)
  {
  case 'c': c.cg(NAMES[s.name]); break;
  case 'g': c.get(NAMES[s.name]); break;
  case 'd': c.drop(c.newest_live(NAMES[s.name])); break;
  case 'D': c.drop(static_cast<int>(s.name)); break;
  default: c.cleanup();
  }
}

static void run_directed(Case& c, std::string const& par)
{
  // the remove / re-create window for every name position: neighbours alive, expired, or absent
  unsigned k = 0;
  for (unsigned n = 0; n < 4; ++n)
  {
    for (unsigned ctx = 0; ctx < 4; ++ctx)
    {
      c.begin("d" + std::to_string(k++), par, 4);
      if (ctx & 1)
      {
        for (unsigned m = 0; m < 4; ++m)
        {
          if (m != n) { apply(c, {'c', m}); }
        }
      }
      if (ctx & 2)
      {
        for (unsigned m = 0; m < 4; ++m)
        {
          if (m != n && (m % 2 == 0)) { apply(c, {'d', m}); }
        }
      }
      apply(c, {'c', n});
      apply(c, {'c', n});
      apply(c, {'g', n});
      apply(c, {'d', n});
      apply(c, {'g', n});
      apply(c, {'c', n}); // re-created before any sweep: expired + live entry of one name
      apply(c, {'c', n});
      apply(c, {'g', n});
      apply(c, {'d', n});
      apply(c, {'c', n}); // two expired entries + a live one
      apply(c, {'g', n});
      apply(c, {'c', n});
      apply(c, {'s', 0});
      apply(c, {'g', n});
      apply(c, {'c', n});
      c.end();
    }
  }
}

static void run_exhaustive(Case& c, std::string const& par, unsigned maxlen)
{
  // every sequence up to maxlen over two names: cg / get / drop-the-live-one per name, sweep
  std::vector<Sym> const alpha = {{'c', 0}, {'c', 1}, {'g', 0}, {'g', 1}, {'d', 0}, {'d', 1}, {'s', 0}};
  uint64_t k = 0;
  std::vector<size_t> idx;
  for (unsigned len = 1; len <= maxlen; ++len)
  {
    idx.assign(len, 0);
    for (;;)
    {
      // a sequence that does not start with a creation only repeats a shorter one's suffix on an empty registry
      if (alpha[idx[0]].k == 'c')
      {
        c.begin("x" + std::to_string(k++), par, 2);
        for (size_t i : idx) { apply(c, alpha[i]); }
        c.end();
        ++g_stats["gen_exhaustive"];
      }
      size_t j = 0;
      while (j < len && ++idx[j] == alpha.size())
      {
        idx[j] = 0;
        ++j;
      }
      if (j == len) { break; }
    }
  }
}

static void run_random(Case& c, std::string const& par, uint64_t seed, unsigned ncases, unsigned maxops)
{
  Rng r(seed);
  for (unsigned k = 0; k < ncases; ++k)
  {
    unsigned const nn = 3 + static_cast<unsigned>(r.below(2));
    c.begin("r" + std::to_string(k), par, nn);
    unsigned const len = 6 + static_cast<unsigned>(r.below(maxops > 6 ? maxops - 5 : 1));
    unsigned focus = static_cast<unsigned>(r.below(nn)); // the name whose remove/re-create cycles dominate this case
    for (unsigned i = 0; i < len; ++i)
    {
      unsigned const n = r.chance(60) ? focus : static_cast<unsigned>(r.below(nn));
      unsigned const w = static_cast<unsigned>(r.below(100));
      bool const live = c.newest_live(NAMES[n]) != 0;
      if (w < 38) { apply(c, {'c', n}); }
      else if (w < 58) { apply(c, {'g', n}); }
      else if (w < 84)
      {
        if (live)
        {
          apply(c, {'d', n});
          // the window of the property: re-create (and look up again) before the next sweep
          if (r.chance(70)) { apply(c, {'c', n}); }
          if (r.chance(50)) { apply(c, {r.chance(50) ? 'c' : 'g', n}); }
        }
        else if (r.chance(30) && g_ctor > 0) { apply(c, {'D', 1 + static_cast<unsigned>(r.below(static_cast<uint64_t>(g_ctor)))}); }
        else { apply(c, {'c', n}); }
      }
      else if (w < 94) { apply(c, {'s', 0}); }
      else { focus = static_cast<unsigned>(r.below(nn)); }
    }
    c.end();
    ++g_stats["gen_random"];
  }
}

static int run_replay(Case& c, std::string const& file, std::string const& par)
{
  std::ifstream in(file);
  std::string line;
  bool started = false;
  unsigned k = 0;
  while (std::getline(in, line))
  {
    auto const arrow = line.find(" =>");
    if (arrow != std::string::npos) { line = line.substr(0, arrow); }
    auto w = split_ws(line);
    if (w.empty() || w[0][0] == '#' || w[0] == "ORACLE" || w[0] == "STATS") { continue; }
    if (w[0] == "init")
    {
      if (started) { c.end(); }
      c.begin(w.size() >= 2 ? w[1] : "replay" + std::to_string(k++), par, 4);
      started = true;
      continue;
    }
    if (!started)
    {
      c.begin("replay" + std::to_string(k++), par, 4);
      started = true;
    }
    if (w[0] == "cg" && w.size() >= 2) { c.cg(w[1]); }
    else if (w[0] == "get" && w.size() >= 2) { c.get(w[1]); }
    else if (w[0] == "drop" && w.size() >= 2) { c.drop(std::atoi(w[1].c_str())); }
    else if (w[0] == "cleanup") { c.cleanup(); }
  }
  if (started) { c.end(); }
  return 0;
}

int main(int argc, char** argv)
{
  std::ios::sync_with_stdio(false);
  std::string const mode = argc >= 2 ? argv[1] : "";
  Case c;
  if (mode == "gen" && argc >= 8)
  {
    std::string const par = std::string(argv[6]) + " " + argv[7];
    run_directed(c, par);
    run_exhaustive(c, par, static_cast<unsigned>(std::atoi(argv[5])));
    run_random(c, par, std::stoull(argv[2]), static_cast<unsigned>(std::atoi(argv[3])), static_cast<unsigned>(std::atoi(argv[4])));
  }
  else if (mode == "replay" && argc >= 5) { run_replay(c, argv[2], std::string(argv[3]) + " " + argv[4]); }
  else
  {
    std::cerr << "usage: h3_sinkreg gen <seed> <nrandom> <maxops> <exhaustive-len> <findAt> <insertAt> | replay <file> <findAt> <insertAt>\n";
    return 2;
  }
  std::cout << "STATS";
  for (auto const& kv : g_stats) { std::cout << ' ' << kv.first << '=' << kv.second; }
  std::cout << " oracle_hits=" << g_oracle << '\n';
  std::cout.flush();
  return g_oracle ? 3 : 0;
}
