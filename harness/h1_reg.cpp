// H1 — thread-context registration (C20/C03) and the failure counter (C08) of the real
// quill::detail::ThreadContextManager / ThreadContext / BackendWorker under the N-thread atomic shim (vshim_reg.h).
//
//   h1_reg gen <seed> <p1-schedules> <p2-schedules>     directed + generated schedules of both protocols
//   h1_reg replay <file>                                one schedule (lines: proto P1|P2 / n <threads> / k <incs…> / sched t:c …)
//
// P1: threads 0..n-1 each call the real ThreadContextManager::register_thread_context with their own (real) ThreadContext;
//     thread n is the backend calling the real BackendWorker::_update_active_thread_contexts_cache in a loop.
// P2: thread j calls ThreadContext::increment_failure_counter k_j times on context j; thread n is the backend calling the
//     real BackendWorker::_check_failure_counter (→ get_and_reset_failure_counter, → error notifier) in a loop.
// Every atomic access (every iteration of the spinlock's test loop included) is a scheduling point; a step is
// `step t=<thread> c=<stale choice> => <access> | <state>`; the same lines are replayed by `driver reg trace`.
// After the scheduled prefix every registering / incrementing thread is run to completion, the backend finishes the call in
// progress and makes one more whole call with newest-value loads; then the property is checked on the real objects:
//   ORACLE registered-not-cached …   a registered context is missing from the backend's cache after that update   (P1)
//   ORACLE list-data-race …          an access of _thread_contexts not ordered after the previous one              (P1)
//   ORACLE counter-mismatch …        reported + residual != increments (after any step), or residual != 0 at the end (P2)
#include <algorithm>
#include <any>
#include <array>
#include <atomic>
#include <bitset>
#include <cassert>
#include <cctype>
#include <cerrno>
#include <charconv>
#include <chrono>
#include <cinttypes>
#include <climits>
#include <cmath>
#include <condition_variable>
#include <csignal>
#include <cstdarg>
#include <cstddef>
#include <cstdint>
#include <cstdio>
#include <cstdlib>
#include <cstring>
#include <ctime>
#include <cwchar>
#include <deque>
#include <exception>
#include <filesystem>
#include <forward_list>
#include <fstream>
#include <functional>
#include <future>
#include <initializer_list>
#include <iomanip>
#include <iosfwd>
#include <iostream>
#include <iterator>
#include <limits>
#include <list>
#include <locale>
#include <map>
#include <memory>
#include <mutex>
#include <new>
#include <numeric>
#include <optional>
#include <ostream>
#include <queue>
#include <random>
#include <ratio>
#include <set>
#include <shared_mutex>
#include <sstream>
#include <stack>
#include <stdexcept>
#include <string>
#include <string_view>
#include <system_error>
#include <thread>
#include <tuple>
#include <type_traits>
#include <typeinfo>
#include <unordered_map>
#include <unordered_set>
#include <utility>
#include <variant>
#include <vector>

#include "vshim_reg.h"
namespace std
{
template <class T>
using verif_atomic = vmt::atomic<T>;
}
#define atomic verif_atomic
#include "quill/backend/BackendWorker.h"
#undef atomic

using vmt::world;
namespace qd = quill::detail;

// the lock's flag member is reached by the name the extraction found in the current core/Spinlock.h (the build passes
// -DH_SPIN_FLAG=<name>, tools/extractors/spin.py): a rename of the private member changes nothing here
#ifndef H_SPIN_FLAG
#define H_SPIN_FLAG _flag
#endif

struct Rng
{
  uint64_t s;
  explicit Rng(uint64_t seed) : s(seed * 0x9E3779B97F4A7C15ull + 88172645463325252ull) { next(); next(); }
  uint64_t next() { s ^= s << 13; s ^= s >> 7; s ^= s << 17; return s; }
  uint64_t below(uint64_t n) { return n ? next() % n : 0; }
};

struct Step { int t; int c; };
// a directed command: run thread t for `n` steps; n < 0: until its current call completes (registration / all increments
// / the backend call in progress)
struct Cmd { int t; int n; int c; };

struct Totals
{
  uint64_t cases{0}, steps{0}, stale{0}, spins{0}, failed_xchg{0}, rebuilds{0}, skipped_updates{0}, oracle{0}, faults{0};
  uint64_t p2_reports{0}, p2_zero_returns{0}, p2_window{0}, nontrivial{0};
  std::map<std::string, std::string> orders;
  void see(std::string const& what, int mo)
  {
    std::string const nm = vmt::order_name(mo);
    auto it = orders.find(what);
    if (it == orders.end()) { orders[what] = nm; }
    else if (it->second != nm) { it->second = "mixed"; }
  }
};

static Totals g_tot;

static std::string join(std::vector<int> const& v)
{
  std::string s;
  for (size_t i = 0; i < v.size(); ++i) { s += (i ? "," : "") + std::to_string(v[i]); }
  return s;
}

static std::string join64(std::vector<uint64_t> const& v)
{
  std::string s;
  for (size_t i = 0; i < v.size(); ++i) { s += (i ? "," : "") + std::to_string(v[i]); }
  return s;
}

static qd::BackendWorker& backend()
{
  static qd::BackendWorker bw;
  return bw;
}

static qd::ThreadContextManager& fresh_manager()
{
  // the manager is a singleton the BackendWorker holds by reference: re-create it in place for every schedule
  qd::ThreadContextManager& m = qd::ThreadContextManager::instance();
  m.~ThreadContextManager();
  new (&m) qd::ThreadContextManager();
  return m;
}

struct Case
{
  std::string id;
  int proto;                  // 1 or 2
  int n;                      // frontend threads
  std::vector<int> k;         // P2: increments per context
  std::vector<Step> prefix;   // scheduled prefix (explicit steps) …
  std::vector<Cmd> cmds;      // … or directed commands (executed first when present)
};

// ------------------------------------------------------------------------------------------------------------------
// one schedule
// ------------------------------------------------------------------------------------------------------------------
struct Runner
{
  Case const& cs;
  qd::ThreadContextManager& mgr;
  qd::BackendWorker& bw;
  std::vector<std::shared_ptr<qd::ThreadContext>> ctx;
  std::unique_ptr<vmt::Sched> sched;
  vmt::PlainCell list_cell;
  int B;                                 // backend thread id
  long calls_done{0};                    // completed backend calls (updates / counter passes)
  long stop_after{-1};
  long b_steps_in_call{0};
  std::vector<uint64_t> incs_done;       // P2: completed increments per context
  std::vector<uint64_t> reported;        // P2: sum reported through the notifier per context
  uint64_t step_report{0};               // P2: value passed to the notifier during the current step
  int step_report_ctx{-1};
  std::vector<Step> executed;
  bool oracle_hit{false};
  uint64_t stale{0}, spins{0}, failed{0}, rebuilds{0};
  int lock_loc{-1}, flag_loc{-1};
  std::vector<int> ctr_loc;
  uint64_t total_steps{0};

  Runner(Case const& c) : cs(c), mgr(fresh_manager()), bw(backend()), B(c.n)
  {
    bw._active_thread_contexts_cache.clear();
    bw._options.transit_event_buffer_initial_capacity = 2;
    incs_done.assign(static_cast<size_t>(cs.n), 0);
    reported.assign(static_cast<size_t>(cs.n), 0);
    for (int j = 0; j < cs.n; ++j)
    {
      auto p = std::make_shared<qd::ThreadContext>(quill::QueueType::BoundedDropping, 64u, 0u, quill::HugePagesPolicy::Never);
      p->_thread_id = "ctx" + std::to_string(j);
      ctx.push_back(p);
      ctr_loc.push_back(p->_failure_counter.id());
    }
    lock_loc = mgr._spinlock.H_SPIN_FLAG.id();
    flag_loc = mgr._new_thread_context_flag.id();
    if (cs.proto == 2)
    {
      for (auto& p : ctx) { bw._active_thread_contexts_cache.push_back(p.get()); }
    }
    sched = std::make_unique<vmt::Sched>(cs.n + 1);
    for (int j = 0; j < cs.n; ++j)
    {
      if (cs.proto == 1)
      {
        sched->spawn(j, [this, j] { mgr.register_thread_context(ctx[static_cast<size_t>(j)]); });
      }
      else
      {
        sched->spawn(j, [this, j] {
          for (int i = 0; i < cs.k[static_cast<size_t>(j)]; ++i)
          {
            ctx[static_cast<size_t>(j)]->increment_failure_counter();
            ++incs_done[static_cast<size_t>(j)];
          }
        });
      }
    }
    if (cs.proto == 1)
    {
      sched->spawn(B, [this] {
        for (;;)
        {
          bw._update_active_thread_contexts_cache();
          ++calls_done;
          if (stop_after >= 0 && calls_done >= stop_after) { break; }
        }
      });
    }
    else
    {
      sched->spawn(B, [this] {
        std::function<void(std::string const&)> notifier = [this](std::string const& msg) {
          // "<time> Quill INFO: Dropped <n> log messages from thread ctx<j>"
          size_t const a = msg.find("Dropped ");
          size_t const b = msg.find("thread ctx");
          if (a == std::string::npos || b == std::string::npos) { world().faults.push_back("unparsed-notification " + msg); return; }
          uint64_t const v = std::stoull(msg.substr(a + 8));
          int const j = std::stoi(msg.substr(b + 10));
          reported[static_cast<size_t>(j)] += v;
          step_report = v;
          step_report_ctx = j;
        };
        for (;;)
        {
          bw._check_failure_counter(notifier);
          ++calls_done;
          if (stop_after >= 0 && calls_done >= stop_after) { break; }
        }
      });
    }
  }

  std::string loc_name(int loc) const
  {
    if (loc == lock_loc) { return "lock"; }
    if (loc == flag_loc) { return "flag"; }
    for (size_t j = 0; j < ctr_loc.size(); ++j)
    {
      if (ctr_loc[j] == loc) { return "ctr" + std::to_string(j); }
    }
    return "other" + std::to_string(loc);
  }

  std::vector<int> ids_of_list() const
  {
    std::vector<int> r;
    for (auto const& sp : mgr._thread_contexts)
    {
      for (int j = 0; j < cs.n; ++j) { if (ctx[static_cast<size_t>(j)].get() == sp.get()) { r.push_back(j); } }
    }
    return r;
  }
  std::vector<int> ids_of_cache() const
  {
    std::vector<int> r;
    for (auto* p : bw._active_thread_contexts_cache)
    {
      for (int j = 0; j < cs.n; ++j) { if (ctx[static_cast<size_t>(j)].get() == p) { r.push_back(j); } }
    }
    return r;
  }

  void oracle(std::string const& what)
  {
    oracle_hit = true;
    ++g_tot.oracle;
    std::cout << "ORACLE " << what << " case=" << cs.id << "\n";
  }

  bool all_frontends_done() const
  {
    for (int j = 0; j < cs.n; ++j) { if (!sched->done(j)) { return false; } }
    return true;
  }

  void do_step(int t, int c)
  {
    if (sched->done(t)) { return; }
    if (++total_steps > 5000)
    {
      std::cout << "ORACLE livelock case=" << cs.id << "\n";
      std::cout.flush();
      std::_Exit(4);
    }
    size_t const list_before = mgr._thread_contexts.size();
    std::vector<int> const cache_before = cs.proto == 1 ? ids_of_cache() : std::vector<int>{};
    long const calls_before = calls_done;
    step_report = 0;
    step_report_ctx = -1;
    sched->step(t, c);
    executed.push_back(Step{t, c});
    ++g_tot.steps;
    std::string acc;
    bool got_lock = false;
    for (auto const& a : world().log)
    {
      std::string const ln = loc_name(a.loc);
      bool const is_ctr = ln.rfind("ctr", 0) == 0;
      std::string what = is_ctr ? "ctr" : ln;
      if (a.kind == 'L')
      {
        acc += std::string{"L "} + ln + " i=" + std::to_string(a.idx) + " r=" + std::to_string(a.rd);
        if (a.idx != a.newest) { ++stale; }
        if (ln == "lock" && a.rd == 1) { ++spins; }
        what += ln == "lock" ? "_test" : "_load";
      }
      else if (a.kind == 'S')
      {
        acc += std::string{"S "} + ln + " w=" + std::to_string(a.wr);
        what += ln == "flag" ? (a.wr ? "_set" : "_reset") : (ln == "lock" ? "_unlock" : "_store");
      }
      else
      {
        acc += std::string{"X "} + ln + " r=" + std::to_string(a.rd) + " w=" + std::to_string(a.wr);
        if (ln == "lock" && a.rd == 1) { ++failed; }
        if (ln == "lock" && a.rd == 0) { got_lock = true; }
        what += is_ctr ? (a.wr == 0 ? "_xchg" : "_inc") : (ln == "lock" ? "_xchg" : "_rmw");
      }
      g_tot.see(what, a.order);
    }
    if (world().log.size() != 1) { acc += " accesses=" + std::to_string(world().log.size()); }
    std::vector<std::string> late;
    std::cout << "step t=" << t << " c=" << c << " => " << acc << " |";
    if (cs.proto == 1)
    {
      // plain accesses of the guarded list made during this step, checked against the stepping thread's view
      if (mgr._thread_contexts.size() != list_before)
      {
        world().cur = t;
        list_cell.access("push");
        world().cur = -1;
      }
      std::vector<int> const cache_now = ids_of_cache();
      if (t == B && (got_lock || (cache_now != cache_before && !cache_now.empty())))
      {
        world().cur = t;
        list_cell.access("copy");
        world().cur = -1;
        ++rebuilds;
      }
      std::vector<int> ret;
      for (int j = 0; j < cs.n; ++j) { if (sched->done(j)) { ret.push_back(j); } }
      std::cout << " list=" << join(ids_of_list()) << " cache=" << join(cache_now) << " ret=" << join(ret)
                << " upd=" << calls_done;
    }
    else
    {
      if (step_report_ctx >= 0) { std::cout << " rep=" << step_report_ctx << ":" << step_report; ++g_tot.p2_reports; }
      std::cout << " incs=" << join64(incs_done) << " reps=" << join64(reported) << " pass=" << calls_done;
      for (int j = 0; j < cs.n; ++j)
      {
        uint64_t const resid = static_cast<uint64_t>(ctx[static_cast<size_t>(j)]->_failure_counter.newest());
        if (reported[static_cast<size_t>(j)] + resid != incs_done[static_cast<size_t>(j)])
        {
          late.push_back("counter-mismatch ctx=" + std::to_string(j) + " reported=" + std::to_string(reported[static_cast<size_t>(j)]) +
                         " residual=" + std::to_string(resid) + " increments=" + std::to_string(incs_done[static_cast<size_t>(j)]) +
                         " (after step " + std::to_string(executed.size()) + ")");
        }
      }
    }
    std::cout << std::endl; // flushed: the lines of the current schedule must survive a sanitizer abort
    for (auto const& m : late) { oracle(m); }
    if (t == B) { b_steps_in_call = calls_done != calls_before ? 0 : b_steps_in_call + 1; }
    for (auto const& f : world().faults)
    {
      ++g_tot.faults;
      oracle((f.rfind("data-race", 0) == 0 ? "list-" : "fault ") + f);
    }
    world().faults.clear();
  }

  void run_cmd(Cmd const& cmd)
  {
    if (cmd.n >= 0)
    {
      for (int i = 0; i < cmd.n && !sched->done(cmd.t); ++i) { do_step(cmd.t, cmd.c); }
      return;
    }
    if (cmd.t == B)
    {
      long const target = calls_done + 1;
      int guard = 0;
      // the backend may spin on the lock held by a parked registering thread: give up after a few iterations
      while (calls_done < target && guard++ < 40) { do_step(B, cmd.c); }
    }
    else
    {
      int guard = 0;
      while (!sched->done(cmd.t) && guard++ < 40) { do_step(cmd.t, cmd.c); }
    }
  }

  void run()
  {
    ++g_tot.cases;
    std::cout << "case " << cs.id << " proto=P" << cs.proto << " n=" << cs.n;
    if (cs.proto == 2) { std::cout << " k=" << join(cs.k); }
    std::cout << "\n";
    for (auto const& c : cs.cmds) { run_cmd(c); }
    for (auto const& s : cs.prefix)
    {
      if (s.t >= 0 && s.t <= B) { do_step(s.t, s.c); }
    }
    size_t const prefix_len = executed.size();
    // completion: everybody in turn (newest-value loads) until the registering / incrementing threads are done
    while (!all_frontends_done())
    {
      for (int t = 0; t <= B; ++t)
      {
        if (t < B ? !sched->done(t) : true) { do_step(t, 0); }
        if (all_frontends_done()) { break; }
      }
    }
    // the backend finishes the call in progress and makes one more whole call with newest-value loads
    stop_after = calls_done + (b_steps_in_call == 0 ? 1 : 2);
    while (!sched->done(B)) { do_step(B, 0); }
    if (cs.proto == 1)
    {
      std::vector<int> const l = ids_of_list(), c = ids_of_cache();
      std::cout << "end => list=" << join(l) << " cache=" << join(c) << " flag=" << (mgr._new_thread_context_flag.newest() ? 1 : 0) << "\n";
      for (int j = 0; j < cs.n; ++j)
      {
        bool const in_list = std::find(l.begin(), l.end(), j) != l.end();
        bool const in_cache = std::find(c.begin(), c.end(), j) != c.end();
        if (!in_list) { oracle("returned-not-in-list ctx=" + std::to_string(j)); }
        else if (!in_cache)
        {
          oracle("registered-not-cached ctx=" + std::to_string(j) + " flag=" +
                 std::to_string(mgr._new_thread_context_flag.newest() ? 1 : 0) + " (after the registration returned and one more whole cache update)");
        }
      }
      g_tot.rebuilds += rebuilds;
    }
    else
    {
      std::vector<uint64_t> resid;
      for (int j = 0; j < cs.n; ++j) { resid.push_back(static_cast<uint64_t>(ctx[static_cast<size_t>(j)]->_failure_counter.newest())); }
      std::cout << "end => incs=" << join64(incs_done) << " reps=" << join64(reported) << " resid=" << join64(resid) << "\n";
      for (int j = 0; j < cs.n; ++j)
      {
        if (resid[static_cast<size_t>(j)] != 0 || reported[static_cast<size_t>(j)] != incs_done[static_cast<size_t>(j)])
        {
          oracle("counter-mismatch ctx=" + std::to_string(j) + " reported=" + std::to_string(reported[static_cast<size_t>(j)]) +
                 " residual=" + std::to_string(resid[static_cast<size_t>(j)]) + " increments=" +
                 std::to_string(incs_done[static_cast<size_t>(j)]) + " (after a final whole pass)");
        }
      }
    }
    g_tot.stale += stale;
    g_tot.spins += spins;
    g_tot.failed_xchg += failed;
    if (stale > 0 && (cs.proto == 2 || spins + failed > 0)) { ++g_tot.nontrivial; }
    if (oracle_hit)
    {
      std::cout << "REPLAY case=" << cs.id << " proto=P" << cs.proto << " n=" << cs.n;
      if (cs.proto == 2) { std::cout << " k=" << join(cs.k); }
      std::cout << " sched=";
      for (size_t i = 0; i < prefix_len; ++i) { std::cout << (i ? " " : "") << executed[i].t << ":" << executed[i].c; }
      std::cout << "\n";
    }
    sched.reset();
    if (cs.proto == 2) { bw._active_thread_contexts_cache.clear(); }
  }
};

static void run_case(Case const& c)
{
  Runner r(c);
  r.run();
}

// ------------------------------------------------------------------------------------------------------------------
// schedules
// ------------------------------------------------------------------------------------------------------------------
static std::vector<Case> directed()
{
  std::vector<Case> v;
  // P1: a whole backend update inserted after each prefix of thread 0's registration (one and two registering threads)
  for (int n = 1; n <= 2; ++n)
  {
    for (int k = 0; k <= 6; ++k)
    {
      Case c{"dir_p1_n" + std::to_string(n) + "_upd_after_" + std::to_string(k), 1, n, {}, {}, {}};
      c.cmds = {{0, k, 0}, {n, -1, 0}, {0, -1, 0}};
      if (n == 2) { c.cmds.push_back({1, -1, 0}); }
      v.push_back(c);
    }
  }
  // P1: the backend reads the flag set by thread 0, resets it; thread 1 registers entirely; the backend goes on to copy
  for (int cut = 1; cut <= 5; ++cut)
  {
    Case c{"dir_p1_second_registers_inside_update_" + std::to_string(cut), 1, 2, {}, {}, {}};
    c.cmds = {{0, -1, 0}, {2, cut, 0}, {1, -1, 0}, {2, -1, 0}};
    v.push_back(c);
  }
  // P1: thread 1 one step at a time inside an update that thread 0 triggered, all cut points of both
  for (int a = 0; a <= 5; ++a)
  {
    for (int b = 1; b <= 5; ++b)
    {
      Case c{"dir_p1_cross_" + std::to_string(a) + "_" + std::to_string(b), 1, 2, {}, {}, {}};
      c.cmds = {{0, -1, 0}, {1, a, 0}, {2, b, 0}, {1, -1, 0}};
      v.push_back(c);
    }
  }
  // P1: stale flag loads: the backend polls with an old view while thread 0 registers
  for (int st = 1; st <= 2; ++st)
  {
    Case c{"dir_p1_stale_flag_" + std::to_string(st), 1, 1, {}, {}, {}};
    c.cmds = {{0, -1, 0}, {1, 1, st}, {1, -1, st}};
    v.push_back(c);
  }
  // P2: an increment between the backend's test load and its reset, at every position
  for (int pre = 1; pre <= 3; ++pre)
  {
    for (int mid = 1; mid <= 2; ++mid)
    {
      Case c{"dir_p2_inc_in_window_" + std::to_string(pre) + "_" + std::to_string(mid), 2, 1, {pre + mid + 1}, {}, {}};
      c.cmds = {{0, pre, 0}, {1, 1, 0}, {0, mid, 0}, {1, 1, 0}};
      v.push_back(c);
    }
  }
  // P2: stale test load returns 0 although the counter is non-zero; two contexts
  {
    Case c{"dir_p2_stale_zero", 2, 2, {2, 3}, {}, {}};
    c.cmds = {{0, 2, 0}, {1, 1, 0}, {2, 1, 2}, {2, 1, 1}, {1, -1, 0}, {2, 3, 0}};
    v.push_back(c);
  }
  return v;
}

static Case random_case(Rng& rng, int proto, unsigned idx, std::string const& seed)
{
  Case c;
  c.proto = proto;
  c.n = 1 + static_cast<int>(rng.below(proto == 1 ? 3 : 2));
  c.id = std::string{"gen_p"} + std::to_string(proto) + "_s" + seed + "_" + std::to_string(idx);
  if (proto == 2)
  {
    for (int j = 0; j < c.n; ++j) { c.k.push_back(1 + static_cast<int>(rng.below(4))); }
  }
  int const B = c.n;
  unsigned const len = 4 + static_cast<unsigned>(rng.below(proto == 1 ? 36 : 24));
  int const mode = static_cast<int>(rng.below(3)); // 0 uniform, 1 backend-heavy, 2 bursts
  int burst_t = static_cast<int>(rng.below(static_cast<uint64_t>(c.n + 1)));
  for (unsigned i = 0; i < len; ++i)
  {
    int t;
    if (mode == 0) { t = static_cast<int>(rng.below(static_cast<uint64_t>(c.n + 1))); }
    else if (mode == 1) { t = rng.below(2) ? B : static_cast<int>(rng.below(static_cast<uint64_t>(c.n))); }
    else
    {
      if (rng.below(4) == 0) { burst_t = static_cast<int>(rng.below(static_cast<uint64_t>(c.n + 1))); }
      t = burst_t;
    }
    int const st = rng.below(10) < 7 ? 0 : 1 + static_cast<int>(rng.below(3));
    c.prefix.push_back(Step{t, st});
  }
  return c;
}

static bool parse_replay(char const* path, Case& c)
{
  std::ifstream in(path);
  if (!in) { return false; }
  c.id = "replay";
  c.proto = 1;
  c.n = 1;
  std::string line;
  while (std::getline(in, line))
  {
    if (line.empty() || line[0] == '#') { continue; }
    std::istringstream ss(line);
    std::string w;
    ss >> w;
    if (w == "proto") { std::string p; ss >> p; c.proto = p == "P2" ? 2 : 1; }
    else if (w == "n") { ss >> c.n; }
    else if (w == "k") { int x; while (ss >> x) { c.k.push_back(x); } }
    else if (w == "sched")
    {
      std::string tok;
      while (ss >> tok)
      {
        size_t const p = tok.find(':');
        if (p == std::string::npos) { continue; }
        c.prefix.push_back(Step{std::stoi(tok.substr(0, p)), std::stoi(tok.substr(p + 1))});
      }
    }
  }
  if (c.proto == 2) { while (static_cast<int>(c.k.size()) < c.n) { c.k.push_back(1); } }
  return c.n >= 1 && c.n <= 8;
}

int main(int argc, char** argv)
{
  std::ios::sync_with_stdio(false);
  if (argc >= 3 && std::string{argv[1]} == "replay")
  {
    Case c;
    if (!parse_replay(argv[2], c)) { std::cerr << "cannot read " << argv[2] << "\n"; return 2; }
    run_case(c);
  }
  else if (argc >= 5 && std::string{argv[1]} == "gen")
  {
    Rng rng(std::stoull(argv[2]));
    unsigned const n1 = std::stoul(argv[3]), n2 = std::stoul(argv[4]);
    for (auto const& c : directed())
    {
      if ((c.proto == 1 && n1 > 0) || (c.proto == 2 && n2 > 0)) { run_case(c); }
    }
    for (unsigned i = 0; i < n1; ++i) { run_case(random_case(rng, 1, i, argv[2])); }
    for (unsigned i = 0; i < n2; ++i) { run_case(random_case(rng, 2, i, argv[2])); }
  }
  else
  {
    std::cerr << "usage: h1_reg gen <seed> <p1-schedules> <p2-schedules> | h1_reg replay <file>\n";
    return 2;
  }
  std::cout << "ORDERS-SEEN";
  for (auto const& kv : g_tot.orders) { std::cout << " " << kv.first << "=" << kv.second; }
  std::cout << "\n";
  std::cout << "STATS cases=" << g_tot.cases << " steps=" << g_tot.steps << " stale_loads=" << g_tot.stale
            << " lock_spins=" << g_tot.spins << " failed_exchanges=" << g_tot.failed_xchg << " cache_rebuilds=" << g_tot.rebuilds
            << " notifier_reports=" << g_tot.p2_reports << " nontrivial=" << g_tot.nontrivial << " faults=" << g_tot.faults
            << " oracle_violations=" << g_tot.oracle << "\n";
  return g_tot.oracle ? 3 : 0;
}
