// H3 — C18: the real quill::detail::BacktraceStorage driven by generated store / process / set_capacity
// histories, and a single-threaded end-to-end path (real Logger + LOG_* macros + ManualBackendWorker + recording
// sink) for the backtrace decisions of BackendWorker::_process_transit_event.
//
//   h3_backtrace gen <seed> <ring-cases> <e2e-cases> <exhaustive-len> <P1..P6> <levels>
//   h3_backtrace replay <file> <P1..P6> <levels>
//
// <P1..P6> <levels> are the extracted parameters; the harness only echoes them on the `init` lines so that the
// Lean driver evaluates the model with the structure read from the same tree.
//
// Output: `init <id> ring|e2e …` then one `op => observation` line per call on the real code:
//   ring : cap N => ok | st X => ok | pr => x1,x2,…   (ids handed to the callback, `-` = none)
//   e2e  : ib L cap Level | lg L Level id | ld L Level id (LOG_DYNAMIC) | bt L id | fb L   => ok
//          lgx / btx = the same call made by a short-lived thread that exits before the backend polls
//          poll => L:Level:id,…,E   (write_log calls on the recording sink / "init_backtrace first" errors, in order)
// plus `ORACLE …` lines where the property itself fails on the real code (independent reference: a deque trimmed
// at every push; documented severity order), and a final `STATS` line.
#include <algorithm>
#include <cstdint>
#include <cstdio>
#include <cstdlib>
#include <deque>
#include <fstream>
#include <iostream>
#include <map>
#include <memory>
#include <sstream>
#include <string>
#include <string_view>
#include <thread>
#include <vector>

#include "quill/Backend.h"
#include "quill/Frontend.h"
#include "quill/LogMacros.h"
#include "quill/Logger.h"
#include "quill/backend/BacktraceStorage.h"
#include "quill/sinks/Sink.h"

using quill::LogLevel;

static uint64_t g_oracle = 0;
static std::map<std::string, uint64_t> g_stats;
static std::string g_params; // "P1 .. P6"
static std::string g_levels;

struct Rng
{
  uint64_t s;
  explicit Rng(uint64_t seed) : s(seed * 0x9E3779B97F4A7C15ull + 0x7654321ull) {}
  uint64_t next()
  {
    s ^= s << 13;
    s ^= s >> 7;
    s ^= s << 17;
    return s;
  }
  uint64_t below(uint64_t n) { return n ? next() % n : 0; }
  bool chance(unsigned pct) { return below(100) < pct; }
};

static std::string join_ids(std::vector<uint64_t> const& v)
{
  if (v.empty()) { return "-"; }
  std::string s;
  for (size_t i = 0; i < v.size(); ++i) { s += (i ? "," : "") + std::to_string(v[i]); }
  return s;
}

static std::string join(std::vector<std::string> const& v)
{
  if (v.empty()) { return "-"; }
  std::string s;
  for (size_t i = 0; i < v.size(); ++i) { s += (i ? "," : "") + v[i]; }
  return s;
}

static std::vector<std::string> split_ws(std::string const& line)
{
  std::istringstream is(line);
  std::vector<std::string> w;
  std::string t;
  while (is >> t) { w.push_back(t); }
  return w;
}

static void emit(std::string const& s)
{
  std::cout << s << "\n";
  std::cout.flush();
}

// the op text is printed (and flushed) *before* the call on the real code, the observation after it: when a
// sanitizer aborts the process, the last line names the call that died
static void begin_op(std::string const& s)
{
  std::cout << s << " ";
  std::cout.flush();
}

static void end_op(std::string const& obs)
{
  std::cout << "=> " << obs << "\n";
  std::cout.flush();
}

// ------------------------------------------------------------------------------------------------
// ring level
// ------------------------------------------------------------------------------------------------
struct RingRunner
{
  quill::detail::BacktraceStorage bs; // the real one
  std::string id;
  // independent reference: everything stored since the last flush-or-resize, trimmed to the capacity at each push
  std::deque<uint64_t> ref;
  uint32_t ref_cap{0};
  uint64_t line{0};
  uint64_t stored_since{0};

  explicit RingRunner(std::string trace_id) : id(std::move(trace_id))
  {
    emit("init " + id + " ring " + g_params);
  }

  void oracle(std::string const& what)
  {
    ++g_oracle;
    emit("ORACLE " + what + " trace=" + id + " after-line=" + std::to_string(line));
  }

  static std::string msg_of(uint64_t x) { return "m" + std::to_string(x * 7 + 3); }
  static std::string tid_of(uint64_t x) { return "t" + std::to_string(x % 5); }
  static std::string tname_of(uint64_t x) { return "thread-name-long-enough-to-leave-the-sso-buffer-" + std::to_string(x % 3); }

  void cap(uint32_t c)
  {
    begin_op("cap " + std::to_string(c));
    bs.set_capacity(c);
    if (c != ref_cap)
    {
      ref_cap = c;
      ref.clear();
      stored_since = 0;
      ++g_stats["ring_resizes"];
    }
    else { ++g_stats["ring_same_capacity"]; }
    ++line;
    end_op("ok");
  }

  void st(uint64_t x)
  {
    begin_op("st " + std::to_string(x));
    quill::detail::TransitEvent te;
    te.timestamp = x;
    std::string const m = msg_of(x);
    te.formatted_msg->append(m.data(), m.data() + m.size());
    std::string const tid = tid_of(x), tn = tname_of(x);
    bs.store(std::move(te), std::string_view{tid}, std::string_view{tn});
    ref.push_back(x);
    while (ref.size() > ref_cap) { ref.pop_front(); }
    ++stored_since;
    ++g_stats["ring_stores"];
    if (ref_cap == 0) { ++g_stats["ring_stores_cap0"]; }
    ++line;
    end_op("ok");
  }

  void pr()
  {
    begin_op("pr");
    std::vector<uint64_t> got;
    bool intact = true;
    bs.process(
      [&](quill::detail::TransitEvent const& te, std::string_view tid, std::string_view tn)
      {
        got.push_back(te.timestamp);
        std::string const m = te.formatted_msg ? std::string{te.formatted_msg->data(), te.formatted_msg->size()} : "<null>";
        if (m != msg_of(te.timestamp) || std::string{tid} != tid_of(te.timestamp) || std::string{tn} != tname_of(te.timestamp))
        {
          intact = false;
        }
      });
    ++line;
    end_op(join_ids(got));
    std::vector<uint64_t> want(ref.begin(), ref.end());
    if (got != want)
    {
      oracle("replay-differs expected=[" + join_ids(want) + "] got=[" + join_ids(got) + "] capacity=" +
             std::to_string(ref_cap) + " stored-since-last-flush-or-resize=" + std::to_string(stored_since));
    }
    if (!intact) { oracle("replayed-event-not-intact (message / thread id / thread name differ from what was stored)"); }
    ++g_stats["ring_flushes"];
    if (!want.empty()) { ++g_stats["ring_flushes_nonempty"]; }
    if (ref_cap >= 1 && stored_since > ref_cap) { ++g_stats["ring_flushes_wrapped"]; }
    ref.clear();
    stored_since = 0;
  }
};

static uint32_t pick_cap(Rng& rng)
{
  if (rng.chance(80)) { return static_cast<uint32_t>(rng.below(7)); } // 0..6
  uint32_t const big[] = {7, 8, 16, 17, 64, 100, 1000};
  return big[rng.below(7)];
}

static void gen_ring_case(Rng& rng, std::string const& id, unsigned budget)
{
  RingRunner r(id);
  uint64_t next = 1;
  uint32_t cap = 0;
  if (rng.chance(90))
  {
    cap = pick_cap(rng);
    r.cap(cap);
  } // else: stores before any set_capacity (the constructor's capacity 0)
  unsigned used = 0;
  while (used < budget)
  {
    // burst length relative to the capacity
    uint64_t n = 0;
    switch (rng.below(10))
    {
    case 0: n = 0; break;
    case 1: n = 1; break;
    case 2: n = cap ? cap - 1 : 0; break;
    case 3: n = cap; break;
    case 4: n = cap + 1; break;
    case 5: n = 2 * cap; break;
    case 6: n = 2 * cap + 1; break;
    case 7: n = 3 * cap + 2; break;
    case 8: n = cap + rng.below(cap + 2); break;
    default: n = rng.below(3 * cap + 4); break;
    }
    if (n > 220) { n = 200 + rng.below(20); }
    uint64_t const resize_at = rng.chance(15) ? rng.below(n + 1) : n + 1;
    for (uint64_t i = 0; i < n; ++i)
    {
      if (i == resize_at)
      {
        uint32_t c2 = cap;
        switch (rng.below(5))
        {
        case 0: c2 = cap; break; // same capacity: no-op
        case 1: c2 = cap + 1; break;
        case 2: c2 = cap ? cap - 1 : 1; break;
        case 3: c2 = 0; break;
        default: c2 = pick_cap(rng); break;
        }
        cap = c2;
        r.cap(cap);
        ++used;
      }
      r.st(next++);
      ++used;
    }
    r.pr();
    ++used;
    if (rng.chance(20))
    {
      r.pr(); // flush of an empty store
      ++used;
    }
    if (rng.chance(20))
    {
      cap = rng.chance(30) ? cap : pick_cap(rng);
      r.cap(cap);
      ++used;
    }
  }
}

// every history `cap c ; {st,pr}^len` for c in 0..4 and len <= maxlen (small-scope exhaustive)
static void exhaustive_ring(unsigned maxlen)
{
  for (unsigned len = 0; len <= maxlen; ++len)
  {
    for (uint32_t c = 0; c <= 4; ++c)
    {
      for (uint64_t bits = 0; bits < (1ull << len); ++bits)
      {
        if (len > 0 && ((bits >> (len - 1)) & 1) == 0) { continue; } // histories end with a flush
        RingRunner r("x" + std::to_string(c) + "l" + std::to_string(len) + "b" + std::to_string(bits));
        r.cap(c);
        uint64_t next = 1;
        for (unsigned i = 0; i < len; ++i)
        {
          if ((bits >> i) & 1) { r.pr(); }
          else { r.st(next++); }
        }
        ++g_stats["ring_exhaustive_cases"];
      }
    }
  }
}

// ------------------------------------------------------------------------------------------------
// end to end
// ------------------------------------------------------------------------------------------------
static char const* const SEV[] = {"TraceL3", "TraceL2", "TraceL1", "Debug", "Info", "Notice", "Warning", "Error", "Critical"};
static int sev_index(std::string const& n)
{
  for (int i = 0; i < 9; ++i)
  {
    if (n == SEV[i]) { return i; }
  }
  return -1;
}

static char const* level_name(LogLevel l)
{
  switch (l)
  {
  case LogLevel::TraceL3: return "TraceL3";
  case LogLevel::TraceL2: return "TraceL2";
  case LogLevel::TraceL1: return "TraceL1";
  case LogLevel::Debug: return "Debug";
  case LogLevel::Info: return "Info";
  case LogLevel::Notice: return "Notice";
  case LogLevel::Warning: return "Warning";
  case LogLevel::Error: return "Error";
  case LogLevel::Critical: return "Critical";
  case LogLevel::Backtrace: return "Backtrace";
  case LogLevel::None: return "None";
  case LogLevel::Dynamic: return "Dynamic";
  }
  return "?";
}

static bool level_of(std::string const& n, LogLevel& out)
{
  static std::pair<char const*, LogLevel> const T[] = {
    {"TraceL3", LogLevel::TraceL3}, {"TraceL2", LogLevel::TraceL2}, {"TraceL1", LogLevel::TraceL1},
    {"Debug", LogLevel::Debug},     {"Info", LogLevel::Info},       {"Notice", LogLevel::Notice},
    {"Warning", LogLevel::Warning}, {"Error", LogLevel::Error},     {"Critical", LogLevel::Critical},
    {"Backtrace", LogLevel::Backtrace}, {"None", LogLevel::None}};
  for (auto const& p : T)
  {
    if (n == p.first)
    {
      out = p.second;
      return true;
    }
  }
  return false;
}

static std::vector<std::string> g_events; // sink writes and notifier errors, in order, since the last poll
static std::string g_case_prefix;
static std::map<std::string, std::string> g_expect_tid; // "L:id" -> id of the thread that made the call
static std::string g_tid_problem;

struct RecSink : quill::Sink
{
  void write_log(quill::MacroMetadata const*, uint64_t, std::string_view thread_id, std::string_view,
                 std::string const&, std::string_view logger_name, LogLevel log_level, std::string_view,
                 std::string_view, std::vector<std::pair<std::string, std::string>> const*,
                 std::string_view log_message, std::string_view) override
  {
    std::string ln{logger_name};
    if (ln.rfind(g_case_prefix, 0) == 0) { ln = ln.substr(g_case_prefix.size()); }
    else { ln = "stale:" + ln; }
    g_events.push_back(ln + ":" + level_name(log_level) + ":" + std::string{log_message});
    auto it = g_expect_tid.find(ln + ":" + std::string{log_message});
    if (it != g_expect_tid.end() && it->second != std::string{thread_id} && g_tid_problem.empty())
    {
      g_tid_problem = ln + ":" + std::string{log_message} + " logged by thread " + it->second + " written with thread id " + std::string{thread_id};
    }
  }
  void flush_sink() override {}
};

static quill::ManualBackendWorker* g_mw = nullptr;
static std::shared_ptr<quill::Sink> g_sink;

static void e2e_setup()
{
  if (g_mw) { return; }
  g_mw = quill::Backend::acquire_manual_backend_worker();
  quill::BackendOptions bo;
  bo.error_notifier = [](std::string const& s)
  {
    if (s.find("init_backtrace") != std::string::npos) { g_events.push_back("E"); }
    else { g_events.push_back("E?" + s.substr(0, 40)); }
  };
  g_mw->init(bo);
  g_sink = quill::Frontend::create_or_get_sink<RecSink>("h3_rec");
}

struct RefLogger
{
  bool inited{false};
  uint32_t cap{0};
  std::deque<uint64_t> q;
  uint64_t stored_since{0};
};

struct E2E
{
  std::string id;
  std::map<std::string, quill::Logger*> loggers;
  std::map<std::string, RefLogger> ref;
  std::map<std::string, int> flush_level; // severity index, 9 = never (None); set at the init_backtrace *call*
  std::vector<std::vector<std::string>> pending; // ops enqueued since the last poll
  uint64_t line{0};

  explicit E2E(std::string trace_id) : id(std::move(trace_id))
  {
    e2e_setup();
    g_case_prefix = id + "/";
    g_events.clear();
    g_expect_tid.clear();
    g_tid_problem.clear();
    emit("init " + id + " e2e " + g_params + " " + g_levels);
  }

  ~E2E()
  {
    for (auto& kv : loggers) { quill::Frontend::remove_logger(kv.second); }
    g_mw->poll();
    g_mw->poll_one(); // lets the backend drop the removed loggers
    g_events.clear();
  }

  void oracle(std::string const& what)
  {
    ++g_oracle;
    emit("ORACLE " + what + " trace=" + id + " after-line=" + std::to_string(line));
  }

  quill::Logger* logger(std::string const& name)
  {
    auto it = loggers.find(name);
    if (it != loggers.end()) { return it->second; }
    quill::Logger* l = quill::Frontend::create_or_get_logger(g_case_prefix + name, g_sink,
                                                             quill::PatternFormatterOptions{"%(message)"},
                                                             quill::ClockSourceType::System);
    l->set_log_level(LogLevel::TraceL3);
    loggers[name] = l;
    flush_level[name] = 9;
    return l;
  }

  bool op(std::vector<std::string> const& w)
  {
    if (w.empty()) { return true; }
    std::string text;
    for (size_t i = 0; i < w.size(); ++i) { text += (i ? " " : "") + w[i]; }
    if (w[0] == "poll" && w.size() == 1)
    {
      poll();
      return true;
    }
    {
      // validate before printing anything
      LogLevel lv;
      bool const ok = (w[0] == "ib" && w.size() == 4 && level_of(w[3], lv)) ||
        ((w[0] == "lg" || w[0] == "ld" || w[0] == "lgx") && w.size() == 4 && level_of(w[2], lv) && sev_index(w[2]) >= 0) ||
        ((w[0] == "bt" || w[0] == "btx") && w.size() == 3) || (w[0] == "fb" && w.size() == 2);
      if (!ok) { return false; }
    }
    begin_op(text);
    if (w[0] == "ib" && w.size() == 4)
    {
      LogLevel lv;
      if (!level_of(w[3], lv)) { return false; }
      if (!pending.empty()) { ++g_stats["e2e_reinit_with_pending_statements"]; }
      logger(w[1])->init_backtrace(static_cast<uint32_t>(std::stoul(w[2])), lv);
      int const si = sev_index(w[3]);
      flush_level[w[1]] = si >= 0 ? si : 9;
      ++g_stats["e2e_init_backtrace"];
    }
    else if (w[0] == "lgx" && w.size() == 4)
    {
      // the statement is made by a short-lived thread that has exited before the backend sees it
      LogLevel lv;
      level_of(w[2], lv);
      quill::Logger* l = logger(w[1]);
      uint64_t const x = std::stoull(w[3]);
      std::string tid;
      std::thread t([&] { tid = std::to_string(quill::detail::get_thread_id()); LOG_DYNAMIC(l, lv, "{}", x); });
      t.join();
      g_expect_tid[w[1] + ":" + w[3]] = tid;
      ++g_stats["e2e_statements"];
      ++g_stats["e2e_calls_from_short_lived_threads"];
    }
    else if (w[0] == "btx" && w.size() == 3)
    {
      quill::Logger* l = logger(w[1]);
      uint64_t const x = std::stoull(w[2]);
      std::string tid;
      std::thread t([&] { tid = std::to_string(quill::detail::get_thread_id()); LOG_BACKTRACE(l, "{}", x); });
      t.join();
      g_expect_tid[w[1] + ":" + w[2]] = tid;
      ++g_stats["e2e_backtrace_statements"];
      ++g_stats["e2e_calls_from_short_lived_threads"];
    }
    else if ((w[0] == "lg" || w[0] == "ld") && w.size() == 4)
    {
      LogLevel lv;
      if (!level_of(w[2], lv) || sev_index(w[2]) < 0) { return false; }
      quill::Logger* l = logger(w[1]);
      uint64_t const x = std::stoull(w[3]);
      g_expect_tid[w[1] + ":" + w[3]] = std::to_string(quill::detail::get_thread_id());
      if (w[0] == "ld") { LOG_DYNAMIC(l, lv, "{}", x); }
      else
      {
        switch (lv)
        {
        case LogLevel::TraceL3: LOG_TRACE_L3(l, "{}", x); break;
        case LogLevel::TraceL2: LOG_TRACE_L2(l, "{}", x); break;
        case LogLevel::TraceL1: LOG_TRACE_L1(l, "{}", x); break;
        case LogLevel::Debug: LOG_DEBUG(l, "{}", x); break;
        case LogLevel::Info: LOG_INFO(l, "{}", x); break;
        case LogLevel::Notice: LOG_NOTICE(l, "{}", x); break;
        case LogLevel::Warning: LOG_WARNING(l, "{}", x); break;
        case LogLevel::Error: LOG_ERROR(l, "{}", x); break;
        case LogLevel::Critical: LOG_CRITICAL(l, "{}", x); break;
        default: return false;
        }
      }
      ++g_stats["e2e_statements"];
    }
    else if (w[0] == "bt" && w.size() == 3)
    {
      quill::Logger* l = logger(w[1]);
      uint64_t const x = std::stoull(w[2]);
      g_expect_tid[w[1] + ":" + w[2]] = std::to_string(quill::detail::get_thread_id());
      LOG_BACKTRACE(l, "{}", x);
      ++g_stats["e2e_backtrace_statements"];
    }
    else if (w[0] == "fb" && w.size() == 2)
    {
      logger(w[1])->flush_backtrace();
      ++g_stats["e2e_flush_backtrace"];
    }
    else { return false; }
    pending.push_back(w);
    ++line;
    end_op("ok");
    return true;
  }

  void replay_ref(std::string const& lg, RefLogger& r, std::vector<std::string>& want)
  {
    for (uint64_t x : r.q) { want.push_back(lg + ":Backtrace:" + std::to_string(x)); }
    ++g_stats["e2e_flushes"];
    if (!r.q.empty()) { ++g_stats["e2e_flushes_nonempty"]; }
    if (r.cap >= 1 && r.stored_since > r.cap) { ++g_stats["e2e_flushes_wrapped"]; }
    r.q.clear();
    r.stored_since = 0;
  }

  void poll()
  {
    begin_op("poll");
    g_mw->poll();
    ++line;
    end_op(join(g_events));
    // the property, from the reference rings and the documented severity order
    std::vector<std::string> want;
    for (auto const& w : pending)
    {
      std::string const& lg = w[1];
      RefLogger& r = ref[lg];
      if (w[0] == "ib")
      {
        uint32_t const c = static_cast<uint32_t>(std::stoul(w[2]));
        if (!r.inited || c != r.cap)
        {
          r.cap = c;
          r.q.clear();
          r.stored_since = 0;
        }
        r.inited = true;
      }
      else if (w[0] == "bt" || w[0] == "btx")
      {
        if (!r.inited)
        {
          want.push_back("E");
          ++g_stats["e2e_backtrace_before_init"];
        }
        else
        {
          r.q.push_back(std::stoull(w[2]));
          while (r.q.size() > r.cap) { r.q.pop_front(); }
          ++r.stored_since;
        }
      }
      else if (w[0] == "fb")
      {
        if (r.inited) { replay_ref(lg, r, want); }
      }
      else
      {
        want.push_back(lg + ":" + w[2] + ":" + w[3]);
        int const si = sev_index(w[2]);
        if (si >= flush_level[lg])
        {
          ++g_stats["e2e_statements_at_or_above_flush_level"];
          if (r.inited) { replay_ref(lg, r, want); }
        }
      }
    }
    if (want != g_events)
    {
      oracle("sink-sequence-differs expected=[" + join(want) + "] got=[" + join(g_events) + "]");
    }
    if (!g_tid_problem.empty())
    {
      oracle("thread-id-of-a-written-statement-differs " + g_tid_problem);
      g_tid_problem.clear();
    }
    g_events.clear();
    pending.clear();
    ++g_stats["e2e_polls"];
  }
};

static std::string const& pick_level_near(Rng& rng, int flush)
{
  static std::string names[9];
  if (names[0].empty())
  {
    for (int i = 0; i < 9; ++i) { names[i] = SEV[i]; }
  }
  int i;
  if (flush < 9 && rng.chance(60))
  {
    int const d = static_cast<int>(rng.below(3)) - 1; // flush-1, flush, flush+1
    i = std::min(8, std::max(0, flush + d));
  }
  else { i = static_cast<int>(rng.below(9)); }
  return names[i];
}

static void gen_e2e_case(Rng& rng, std::string const& id, unsigned budget)
{
  E2E e(id);
  uint64_t next = 1;
  bool const poll_each = rng.chance(35);
  bool const two = rng.chance(45);
  std::map<std::string, uint32_t> cap;
  std::map<std::string, int> fl;
  auto lgname = [&]() -> std::string { return (two && rng.chance(40)) ? "B" : "A"; };
  auto do_ib = [&](std::string const& lg, bool allow_pending)
  {
    if (!allow_pending) { e.op({"poll"}); }
    uint32_t c = pick_cap(rng);
    if (c > 20) { c = 17; }
    if (cap.count(lg) && rng.chance(30)) { c = cap[lg]; } // re-init with the same capacity keeps the stored events
    int f;
    switch (rng.below(4))
    {
    case 0: f = 9; break;                                  // None: explicit flush only
    case 1: f = 7; break;                                  // Error
    default: f = static_cast<int>(rng.below(9)); break;
    }
    cap[lg] = c;
    fl[lg] = f;
    e.op({"ib", lg, std::to_string(c), f == 9 ? "None" : SEV[f]});
    if (!allow_pending || rng.chance(50)) { e.op({"poll"}); }
  };
  if (rng.chance(12))
  {
    // malformed prefix: backtrace / flush before init_backtrace
    e.op({"bt", "A", std::to_string(next++)});
    if (rng.chance(50)) { e.op({"fb", "A"}); }
    if (rng.chance(50)) { e.op({"lg", "A", "Critical", std::to_string(next++)}); }
  }
  do_ib("A", false);
  if (two && rng.chance(80)) { do_ib("B", false); }
  unsigned used = 0;
  while (used < budget)
  {
    std::string const lg = lgname();
    unsigned const k = static_cast<unsigned>(rng.below(100));
    if (k < 45)
    {
      // burst of backtrace statements relative to the capacity
      uint32_t const c = cap.count(lg) ? cap[lg] : 2;
      uint64_t n;
      switch (rng.below(6))
      {
      case 0: n = 1; break;
      case 1: n = c; break;
      case 2: n = c + 1; break;
      case 3: n = 2 * c + 1; break;
      case 4: n = c ? c - 1 : 1; break;
      default: n = rng.below(2 * c + 3); break;
      }
      n = std::min<uint64_t>(n, 40);
      for (uint64_t i = 0; i < n; ++i)
      {
        e.op({rng.chance(12) ? "btx" : "bt", (two && rng.chance(15)) ? lgname() : lg, std::to_string(next++)});
        ++used;
        if (poll_each) { e.op({"poll"}); }
      }
    }
    else if (k < 75)
    {
      unsigned const how = static_cast<unsigned>(rng.below(100));
      e.op({how < 20 ? "ld" : (how < 30 ? "lgx" : "lg"), lg, pick_level_near(rng, fl.count(lg) ? fl[lg] : 9), std::to_string(next++)});
      ++used;
    }
    else if (k < 85)
    {
      e.op({"fb", lg});
      ++used;
      if (rng.chance(25)) { e.op({"fb", lg}); }
    }
    else if (k < 92)
    {
      do_ib(lg, rng.chance(30));
      ++used;
    }
    else { e.op({"poll"}); }
    if (poll_each) { e.op({"poll"}); }
  }
  e.op({"poll"});
  for (auto const& kv : cap)
  {
    e.op({"fb", kv.first});
  }
  e.op({"poll"});
}

// every (statement level, flush level) pair against a wrapped ring of capacity 2
static void e2e_trigger_table()
{
  for (int f = 0; f <= 9; ++f)
  {
    for (int s = 0; s < 9; ++s)
    {
      E2E e(std::string{"tb_"} + (f == 9 ? "None" : SEV[f]) + "_" + SEV[s]);
      e.op({"ib", "A", "2", f == 9 ? "None" : SEV[f]});
      e.op({"poll"});
      e.op({"bt", "A", "1"});
      e.op({"bt", "A", "2"});
      e.op({"bt", "A", "3"});
      e.op({(s + f) % 2 ? "ld" : "lg", "A", SEV[s], "4"});
      e.op({"poll"});
      e.op({"bt", "A", "5"});
      e.op({"fb", "A"});
      e.op({"poll"});
      ++g_stats["e2e_trigger_table_cases"];
    }
  }
}

static void print_tail()
{
  std::string s = "STATS";
  for (auto const& kv : g_stats) { s += " " + kv.first + "=" + std::to_string(kv.second); }
  s += " oracle_violations=" + std::to_string(g_oracle);
  emit(s);
}

int main(int argc, char** argv)
{
  std::ios::sync_with_stdio(false);
  if (argc >= 13 && std::string{argv[1]} == "gen")
  {
    uint64_t const seed = std::stoull(argv[2]);
    unsigned const nring = static_cast<unsigned>(std::stoul(argv[3]));
    unsigned const ne2e = static_cast<unsigned>(std::stoul(argv[4]));
    unsigned const exh = static_cast<unsigned>(std::stoul(argv[5]));
    for (int i = 6; i < 12; ++i) { g_params += (i > 6 ? " " : "") + std::string{argv[i]}; }
    g_levels = argv[12];
    Rng rng(seed);
    exhaustive_ring(exh);
    for (unsigned t = 0; t < nring; ++t)
    {
      gen_ring_case(rng, "s" + std::to_string(seed) + "r" + std::to_string(t), 30 + static_cast<unsigned>(rng.below(120)));
      ++g_stats["ring_generated_cases"];
    }
    e2e_trigger_table();
    for (unsigned t = 0; t < ne2e; ++t)
    {
      gen_e2e_case(rng, "s" + std::to_string(seed) + "e" + std::to_string(t), 20 + static_cast<unsigned>(rng.below(60)));
      ++g_stats["e2e_generated_cases"];
    }
    print_tail();
    return g_oracle ? 3 : 0;
  }
  if (argc >= 10 && std::string{argv[1]} == "replay")
  {
    for (int i = 3; i < 9; ++i) { g_params += (i > 3 ? " " : "") + std::string{argv[i]}; }
    g_levels = argv[9];
    std::ifstream in(argv[2]);
    std::string ln;
    std::unique_ptr<RingRunner> ring;
    std::unique_ptr<E2E> e2e;
    while (std::getline(in, ln))
    {
      auto const arrow = ln.find(" => ");
      if (arrow != std::string::npos) { ln = ln.substr(0, arrow); }
      auto w = split_ws(ln);
      if (w.empty() || w[0][0] == '#' || w[0] == "ORACLE" || w[0] == "STATS") { continue; }
      if (w[0] == "init" && w.size() >= 3)
      {
        ring.reset();
        e2e.reset();
        if (w[2] == "ring") { ring = std::make_unique<RingRunner>(w[1]); }
        else { e2e = std::make_unique<E2E>(w[1]); }
        continue;
      }
      bool ok = false;
      if (ring)
      {
        if (w[0] == "cap" && w.size() == 2) { ring->cap(static_cast<uint32_t>(std::stoul(w[1]))); ok = true; }
        else if (w[0] == "st" && w.size() == 2) { ring->st(std::stoull(w[1])); ok = true; }
        else if (w[0] == "pr" && w.size() == 1) { ring->pr(); ok = true; }
      }
      else if (e2e) { ok = e2e->op(w); }
      if (!ok) { emit("# bad replay line: " + ln); }
    }
    e2e.reset();
    print_tail();
    return g_oracle ? 3 : 0;
  }
  std::cerr << "usage: h3_backtrace gen <seed> <ring-cases> <e2e-cases> <exhaustive-len> <P1..P6> <levels> | replay <file> <P1..P6> <levels>\n";
  return 2;
}
