// N-thread replacement for std::atomic + cooperative scheduler (registration / failure-counter bundle, h1_reg.cpp).
//
// Same view semantics as vshim.h (DESIGN.md §3.1, H1), generalised from two actors to any number of threads:
//  * every location keeps its whole store history (modification order = execution order);
//  * every thread has a view: per location the newest store it has observed or that happens-before its next action.
//    A load may return any store not older than the view entry (coherence), the schedule chooses how far back
//    (`choice`: 0 = newest, k = k stores older, clipped to the legal range);
//  * a release store publishes the writer's whole view with the value; an acquire load that reads it joins that view
//    (synchronises-with); relaxed accesses transfer the value only; a read-modify-write always reads the newest store and
//    continues the release sequence of the store it read (its message carries that store's view as well);
//  * plain (non-atomic) data is a `PlainCell`: an access by a thread whose view does not contain the newest version is a
//    data race (reported as a fault);
//  * the run-time std::memory_order of every access is recorded.
//
// Scheduling: the code under test runs in real std::threads that pass a baton (exactly one runs; ASan-friendly). A thread
// parks *before* each atomic access; one scheduler step = resume the thread, it performs the pending access and runs on
// to just before its next access (or to its end). Accesses made while no cooperative thread runs (`cur < 0`: set-up,
// final checks) read the newest value, happen-before everything, and are not scheduling points.
#pragma once
#include <atomic>
#include <condition_variable>
#include <cstdint>
#include <cstdio>
#include <cstdlib>
#include <functional>
#include <map>
#include <memory>
#include <mutex>
#include <string>
#include <thread>
#include <type_traits>
#include <vector>

namespace vmt
{
using View = std::map<int, uint32_t>; // location id -> newest index known

inline void join_into(View& a, View const& b)
{
  for (auto const& kv : b)
  {
    auto it = a.find(kv.first);
    if (it == a.end()) { a.insert(kv); }
    else if (it->second < kv.second) { it->second = kv.second; }
  }
}

struct Access
{
  int thread;
  int loc;
  char kind;        // 'L' load, 'S' store, 'X' read-modify-write
  int order;        // std::memory_order numeric value
  uint64_t rd;      // value read (L, X)
  uint64_t wr;      // value written (S, X)
  uint32_t idx;     // history index read (L) / written (S, X)
  uint32_t newest;  // newest index of the location before the access
};

struct World
{
  int cur{-1};                // running cooperative thread (-1: none)
  int choice{0};              // stale choice for the loads of the current step
  std::vector<View> tview;    // per cooperative thread
  std::vector<Access> log;    // accesses of the current step
  std::vector<std::string> faults;
  int next_loc{0};
  std::function<void(int /*loc*/, char /*kind*/)> park; // called before every access of a cooperative thread

  void reset(int nthreads)
  {
    cur = -1;
    choice = 0;
    tview.assign(static_cast<size_t>(nthreads), View{});
    log.clear();
    faults.clear();
  }
};

inline World& world()
{
  static World w;
  return w;
}

inline bool is_acq(std::memory_order mo)
{
  return mo == std::memory_order_acquire || mo == std::memory_order_acq_rel ||
    mo == std::memory_order_seq_cst || mo == std::memory_order_consume;
}
inline bool is_rel(std::memory_order mo)
{
  return mo == std::memory_order_release || mo == std::memory_order_acq_rel || mo == std::memory_order_seq_cst;
}
inline char const* order_name(int mo)
{
  switch (static_cast<std::memory_order>(mo))
  {
  case std::memory_order_relaxed: return "relaxed";
  case std::memory_order_consume: return "consume";
  case std::memory_order_acquire: return "acquire";
  case std::memory_order_release: return "release";
  case std::memory_order_acq_rel: return "acq_rel";
  case std::memory_order_seq_cst: return "seq_cst";
  }
  return "?";
}

template <typename T>
uint64_t to_u64(T v)
{
  if constexpr (std::is_pointer_v<T>) { return reinterpret_cast<uint64_t>(v); }
  else { return static_cast<uint64_t>(v); }
}

/** plain data guarded by some synchronisation of the code under test */
struct PlainCell
{
  int id;
  uint32_t version{0};
  PlainCell() : id(world().next_loc++) {}
  /** read-and-update access by the running cooperative thread; false = data race */
  bool access(char const* what)
  {
    World& w = world();
    if (w.cur < 0) { return true; }
    View& v = w.tview[static_cast<size_t>(w.cur)];
    uint32_t const known = v.count(id) ? v[id] : 0;
    bool const ok = known == version;
    if (!ok)
    {
      w.faults.push_back(std::string{"data-race "} + what + " thread=" + std::to_string(w.cur) + " sees-version=" +
                         std::to_string(known) + " newest=" + std::to_string(version));
    }
    ++version;
    v[id] = version;
    return ok;
  }
};

template <typename T>
class atomic
{
public:
  struct Msg
  {
    T v;
    int writer;
    View view; // published view (release store / continued release sequence); empty otherwise
  };

  atomic() noexcept : atomic(T{}) {}
  atomic(T v) noexcept : _id(world().next_loc++) { _hist.push_back(Msg{v, -1, {}}); }
  atomic(atomic const&) = delete;
  atomic& operator=(atomic const&) = delete;
  ~atomic() { _dead = true; }

  void store(T v, std::memory_order mo = std::memory_order_seq_cst) noexcept
  {
    World& w = world();
    check_alive("store");
    if (w.cur < 0)
    {
      _hist.push_back(Msg{v, -1, {}});
      _base = static_cast<uint32_t>(_hist.size() - 1);
      return;
    }
    w.park(_id, 'S');
    int const a = w.cur;
    View& tv = w.tview[static_cast<size_t>(a)];
    uint32_t const newest = static_cast<uint32_t>(_hist.size() - 1);
    uint32_t const idx = newest + 1;
    tv[_id] = idx;
    _hist.push_back(Msg{v, a, is_rel(mo) ? tv : View{}});
    w.log.push_back(Access{a, _id, 'S', static_cast<int>(mo), 0, to_u64(v), idx, newest});
  }

  T load(std::memory_order mo = std::memory_order_seq_cst) const noexcept
  {
    World& w = world();
    check_alive("load");
    if (w.cur < 0) { return _hist.back().v; }
    w.park(_id, 'L');
    int const a = w.cur;
    View& tv = w.tview[static_cast<size_t>(a)];
    uint32_t floor_idx = tv.count(_id) ? tv[_id] : 0;
    if (floor_idx < _base) { floor_idx = _base; }
    uint32_t const newest = static_cast<uint32_t>(_hist.size() - 1);
    uint32_t const back = static_cast<uint32_t>(w.choice < 0 ? 0 : w.choice);
    uint32_t idx = newest >= back ? newest - back : 0;
    if (idx < floor_idx) { idx = floor_idx; }
    Msg const& m = _hist[idx];
    tv[_id] = idx;
    if (is_acq(mo)) { join_into(tv, m.view); }
    w.log.push_back(Access{a, _id, 'L', static_cast<int>(mo), to_u64(m.v), 0, idx, newest});
    return m.v;
  }

  operator T() const noexcept { return load(); }
  T operator=(T v) noexcept
  {
    store(v);
    return v;
  }

  template <typename F>
  T rmw(F f, std::memory_order mo) noexcept
  {
    World& w = world();
    check_alive("rmw");
    T const old = _hist.back().v;
    if (w.cur < 0)
    {
      _hist.push_back(Msg{f(old), -1, {}});
      _base = static_cast<uint32_t>(_hist.size() - 1);
      return old;
    }
    w.park(_id, 'X');
    // re-read after the park: other threads ran in between
    Msg const m = _hist.back();
    int const a = w.cur;
    View& tv = w.tview[static_cast<size_t>(a)];
    uint32_t const newest = static_cast<uint32_t>(_hist.size() - 1);
    uint32_t const idx = newest + 1;
    if (is_acq(mo)) { join_into(tv, m.view); }
    tv[_id] = idx;
    View pub = m.view; // a read-modify-write continues the release sequence of the store it read
    if (is_rel(mo)) { join_into(pub, tv); }
    T const nv = f(m.v);
    _hist.push_back(Msg{nv, a, pub});
    w.log.push_back(Access{a, _id, 'X', static_cast<int>(mo), to_u64(m.v), to_u64(nv), idx, newest});
    return m.v;
  }

  T exchange(T v, std::memory_order mo = std::memory_order_seq_cst) noexcept
  {
    return rmw([v](T) { return v; }, mo);
  }
  T fetch_add(T d, std::memory_order mo = std::memory_order_seq_cst) noexcept
  {
    return rmw([d](T o) { return static_cast<T>(o + d); }, mo);
  }
  T fetch_sub(T d, std::memory_order mo = std::memory_order_seq_cst) noexcept
  {
    return rmw([d](T o) { return static_cast<T>(o - d); }, mo);
  }
  T operator++() noexcept { return static_cast<T>(fetch_add(T(1)) + T(1)); }
  T operator++(int) noexcept { return fetch_add(T(1)); }
  T operator--() noexcept { return static_cast<T>(fetch_sub(T(1)) - T(1)); }
  T operator--(int) noexcept { return fetch_sub(T(1)); }
  T operator+=(T d) noexcept { return static_cast<T>(fetch_add(d) + d); }
  T operator-=(T d) noexcept { return static_cast<T>(fetch_sub(d) - d); }
  bool compare_exchange_strong(T& expected, T desired, std::memory_order ok = std::memory_order_seq_cst,
                               std::memory_order = std::memory_order_seq_cst) noexcept
  {
    // reads the newest store in both outcomes (a failed compare-exchange is modelled as a newest-value load)
    bool hit = false;
    T const e = expected;
    T const old = rmw([&](T o) { hit = (o == e); return hit ? desired : o; }, ok);
    if (!hit) { expected = old; }
    return hit;
  }
  bool compare_exchange_weak(T& expected, T desired, std::memory_order ok = std::memory_order_seq_cst,
                             std::memory_order fail = std::memory_order_seq_cst) noexcept
  {
    return compare_exchange_strong(expected, desired, ok, fail);
  }
  bool is_lock_free() const noexcept { return true; }

  int id() const noexcept { return _id; }
  size_t history_size() const noexcept { return _hist.size(); }
  T newest() const noexcept { return _hist.back().v; }

private:
  void check_alive(char const* what) const
  {
    if (_dead) { world().faults.push_back(std::string{"access-after-destroy "} + what + " loc=" + std::to_string(_id)); }
  }

  std::vector<Msg> _hist;
  uint32_t _base{0}; // newest set-up store: visible to every thread
  int _id{0};
  bool _dead{false};
};

/** cooperative threads passing a baton */
class Sched
{
public:
  struct Task
  {
    std::thread th;
    bool done{false};
    int pend_loc{-1};   // location of the access the task is parked at
    char pend_kind{0};
    uint64_t steps{0};
  };

  explicit Sched(int n)
  {
    world().reset(n);
    world().park = [this](int loc, char kind) { park(loc, kind); };
    _tasks.resize(static_cast<size_t>(n));
  }
  ~Sched()
  {
    for (auto& t : _tasks)
    {
      if (t.th.joinable()) { t.th.join(); }
    }
    world().cur = -1;
    world().park = nullptr;
  }

  /** create task k and run it up to (not including) its first atomic access */
  void spawn(int k, std::function<void()> body)
  {
    Task& t = _tasks[static_cast<size_t>(k)];
    t.th = std::thread(
      [this, k, body]
      {
        wait_turn(k);
        body();
        std::unique_lock<std::mutex> lk(_m);
        _tasks[static_cast<size_t>(k)].done = true;
        _tasks[static_cast<size_t>(k)].pend_loc = -1;
        _turn = -1;
        world().cur = -1;
        _cv.notify_all();
      });
    run(k, 0);
  }

  /** one step of task k: perform its pending access (stale choice `choice` if it is a load), run to the next one */
  void step(int k, int choice)
  {
    world().log.clear();
    ++_tasks[static_cast<size_t>(k)].steps;
    run(k, choice);
  }

  bool done(int k) const { return _tasks[static_cast<size_t>(k)].done; }
  int pending_loc(int k) const { return _tasks[static_cast<size_t>(k)].pend_loc; }
  char pending_kind(int k) const { return _tasks[static_cast<size_t>(k)].pend_kind; }
  int size() const { return static_cast<int>(_tasks.size()); }

private:
  void run(int k, int choice)
  {
    std::unique_lock<std::mutex> lk(_m);
    world().choice = choice;
    world().cur = k;
    _turn = k;
    _cv.notify_all();
    _cv.wait(lk, [this] { return _turn == -1; });
  }
  void wait_turn(int k)
  {
    std::unique_lock<std::mutex> lk(_m);
    _cv.wait(lk, [this, k] { return _turn == k; });
  }
  void park(int loc, char kind)
  {
    std::unique_lock<std::mutex> lk(_m);
    int const k = _turn;
    Task& t = _tasks[static_cast<size_t>(k)];
    t.pend_loc = loc;
    t.pend_kind = kind;
    _turn = -1;
    world().cur = -1;
    _cv.notify_all();
    _cv.wait(lk, [this, k] { return _turn == k; });
    // resumed: world().cur and world().choice were set by run()
  }

  std::mutex _m;
  std::condition_variable _cv;
  int _turn{-1};
  std::vector<Task> _tasks;
};
} // namespace vmt
