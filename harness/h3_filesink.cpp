// H3 — the write / flush protocol of the real stream sinks (C06, the sink's half: "those sinks have been flushed, so it can
// be read from the destination").
//
//   h3_filesink gen <seed> <cases> <maxops> <scratch-dir> <plainSetsDirty> <hookSetsDirty> <flushTestsFlag> <flushResetsFlag>
//   h3_filesink replay <file> <scratch-dir> <4 flags>
//
// Drives the REAL quill::FileSink, JsonFileSink, RotatingFileSink (size check armed, limit never reached) and StreamSink (on a
// FILE* the harness opened) in a scratch directory, in the configurations
//   hook=0  no FileEventNotifier callback          hook=1  before_write that rewrites the text (prefix + upper case: size changes)
//   hook=2  before_write + before_open / after_open / before_close / after_close callbacks
//   fsync=0|1 (FileSinkConfig::set_fsync_enabled)   wbuf=65536 (default) | 4096 (set_write_buffer_size)
// with op sequences
//   w <k> <size>   write_log of statement k (size bytes before the callback)      fl   flush_sink()      rp   run_periodic_tasks()
// After every flush_sink() the path is opened through a SECOND descriptor (open/read) and read completely:
//   fl => bytes=<n> ids=<k.k.k|->
// `w` prints the size after the callback's transformation (`t=`, an input of the Lean driver `filesink`); the four flags
// (structure of write_log / flush_sink as extracted) are only echoed on the `init` line for the driver.
//
// ORACLE lines (independent of the model): after flush_sink() returned the file must hold exactly the (transformed)
// statements written so far, in order, each once; between flushes anything from the last flushed content to everything
// written is legal (the stdio buffer may drain by itself), byte-wise a prefix of everything written.
// For the JSON sink the text of a line is learnt from a probe JsonFileSink with a capturing before_write callback, so that
// the layout of the JSON line (C19's subject) is not duplicated here.
#include <algorithm>
#include <cctype>
#include <cstdint>
#include <cstdio>
#include <cstdlib>
#include <cstring>
#include <fstream>
#include <iostream>
#include <map>
#include <memory>
#include <optional>
#include <sstream>
#include <string>
#include <vector>
#include <fcntl.h>
#include <sys/stat.h>
#include <unistd.h>

#include "quill/sinks/FileSink.h"
#include "quill/sinks/JsonSink.h"
#include "quill/sinks/RotatingFileSink.h"
#include "quill/sinks/StreamSink.h"

using namespace quill;

static uint64_t g_oracle = 0;
static std::map<std::string, uint64_t> g_stats;

struct Rng
{
  uint64_t s;
  explicit Rng(uint64_t seed) : s(seed * 0x9E3779B97F4A7C15ull + 0xC06F11Eull) {}
  uint64_t next()
  {
    uint64_t z = (s += 0x9E3779B97F4A7C15ull);
    z = (z ^ (z >> 30)) * 0xBF58476D1CE4E5B9ull;
    z = (z ^ (z >> 27)) * 0x94D049BB133111EBull;
    return z ^ (z >> 31);
  }
  uint64_t below(uint64_t n) { return n ? next() % n : 0; }
  bool chance(unsigned pct) { return below(100) < pct; }
};

static std::string transform(std::string_view m)
{
  std::string o = "[r]";
  for (char c : m) { o.push_back((c >= 'a' && c <= 'z') ? static_cast<char>(c - 32) : c); }
  return o;
}

static std::string read_all(std::string const& path)
{
  std::string out;
  int fd = ::open(path.c_str(), O_RDONLY);
  if (fd < 0) { return out; }
  char buf[65536];
  for (;;)
  {
    ssize_t n = ::read(fd, buf, sizeof buf);
    if (n <= 0) { break; }
    out.append(buf, static_cast<size_t>(n));
  }
  ::close(fd);
  return out;
}

/** statement ids found in file content: `S<k>:` (text sinks) or `"timestamp":"<k>"` (JSON sink), any letter case */
static std::vector<uint64_t> ids_in(std::string const& data, bool json)
{
  std::vector<uint64_t> ids;
  std::string up = data;
  for (auto& c : up) { c = static_cast<char>(std::toupper(static_cast<unsigned char>(c))); }
  if (json)
  {
    std::string const key = "\"TIMESTAMP\":\"";
    for (size_t p = up.find(key); p != std::string::npos; p = up.find(key, p + 1))
    {
      ids.push_back(std::strtoull(up.c_str() + p + key.size(), nullptr, 10));
    }
  }
  else
  {
    for (size_t p = 0; p + 2 < up.size(); ++p)
    {
      if (up[p] == 'S' && std::isdigit(static_cast<unsigned char>(up[p + 1])) && (p == 0 || up[p - 1] == '\n' || up[p - 1] == ']'))
      {
        size_t q = p + 1;
        while (q < up.size() && std::isdigit(static_cast<unsigned char>(up[q]))) { ++q; }
        if (q < up.size() && up[q] == ':') { ids.push_back(std::strtoull(up.c_str() + p + 1, nullptr, 10)); }
      }
    }
  }
  return ids;
}
static std::string show_ids(std::vector<uint64_t> const& v)
{
  if (v.empty()) { return "-"; }
  std::string o;
  for (size_t i = 0; i < v.size(); ++i) { o += (i ? "." : "") + std::to_string(v[i]); }
  return o;
}

static MacroMetadata const g_md{"h3_filesink.cpp:1", "fn", "stmt {id} {pad}", nullptr, LogLevel::Info, MacroMetadata::Event::Log};

struct Case
{
  std::string id, kind, flags, dir, path;
  int hook{0}, fsync{0};
  size_t wbuf{65536};
  std::shared_ptr<StreamSink> sink;
  FILE* own_file{nullptr};
  std::unique_ptr<JsonFileSink> probe;
  std::string captured;
  std::string all_written;    // every (transformed) statement handed to write_log so far
  std::vector<uint64_t> written_ids;
  size_t flushed_len{0};      // file length observed after the last flush
  uint64_t cb_events{0};
  bool failed{false};

  void oracle(std::string const& what)
  {
    ++g_oracle;
    failed = true;
    std::cout << "ORACLE " << what << " case=" << id << " kind=" << kind << " hook=" << hook << '\n';
  }

  bool begin(std::string const& cid, std::string const& k, int h, int fs_, size_t wb, std::string const& d, std::string const& fl)
  {
    end();
    id = cid;
    kind = k;
    hook = h;
    fsync = fs_;
    wbuf = wb;
    dir = d;
    flags = fl;
    all_written.clear();
    written_ids.clear();
    flushed_len = 0;
    failed = false;
    path = dir + "/fs_" + std::to_string(getpid()) + "_" + cid + (kind == "json" ? ".json" : ".log");
    std::remove(path.c_str());
    FileEventNotifier fen;
    if (hook >= 1) { fen.before_write = [](std::string_view m) { return transform(m); }; }
    if (hook >= 2)
    {
      fen.before_open = [this](fs::path const&) { ++cb_events; };
      fen.after_open = [this](fs::path const&, FILE*) { ++cb_events; };
      fen.before_close = [this](fs::path const&, FILE*) { ++cb_events; };
      fen.after_close = [this](fs::path const&) { ++cb_events; };
    }
    std::cout << "init " << id << ' ' << kind << " hook=" << hook << " fsync=" << fsync << " wbuf=" << wbuf << ' ' << flags << '\n';
    ++g_stats["cases"];
    ++g_stats["cases_kind_" + kind];
    ++g_stats["cases_hook_" + std::to_string(hook)];
    try
    {
      if (kind == "stream")
      {
        own_file = std::fopen(path.c_str(), "w");
        if (!own_file) { return false; }
        if (wbuf != 65536) { std::setvbuf(own_file, nullptr, _IOFBF, wbuf); }
        sink = std::make_shared<StreamSink>(fs::path{path}, own_file, std::nullopt, fen);
      }
      else if (kind == "rot")
      {
        RotatingFileSinkConfig cfg;
        cfg.set_open_mode('w');
        cfg.set_filename_append_option(FilenameAppendOption::None);
        cfg.set_fsync_enabled(fsync != 0);
        cfg.set_write_buffer_size(wbuf);
        cfg.set_rotation_max_file_size(64u * 1024u * 1024u); // the size test runs on every write, the limit is never reached
        sink = std::make_shared<RotatingFileSink>(fs::path{path}, cfg, fen);
      }
      else
      {
        FileSinkConfig cfg;
        cfg.set_open_mode('w');
        cfg.set_filename_append_option(FilenameAppendOption::None);
        cfg.set_fsync_enabled(fsync != 0);
        cfg.set_write_buffer_size(wbuf);
        if (kind == "json")
        {
          sink = std::make_shared<JsonFileSink>(fs::path{path}, cfg, fen);
          FileSinkConfig pcfg;
          pcfg.set_open_mode('w');
          pcfg.set_filename_append_option(FilenameAppendOption::None);
          FileEventNotifier pf;
          pf.before_write = [this](std::string_view m)
          {
            captured.assign(m.data(), m.size());
            return std::string{m};
          };
          probe = std::make_unique<JsonFileSink>(fs::path{path + ".probe"}, pcfg, pf);
        }
        else { sink = std::make_shared<FileSink>(fs::path{path}, cfg, fen); }
      }
    }
    catch (std::exception const& e)
    {
      std::cout << "# cannot construct the sink: " << e.what() << '\n';
      return false;
    }
    return true;
  }

  void check_between()
  {
    std::string const data = read_all(path);
    if (data.size() < flushed_len || data.size() > all_written.size() || all_written.compare(0, data.size(), data) != 0)
    {
      oracle("content-outside-the-legal-range file_bytes=" + std::to_string(data.size()) + " flushed_before=" + std::to_string(flushed_len) +
             " written=" + std::to_string(all_written.size()));
    }
    if (data.size() > flushed_len) { ++g_stats["stdio_buffer_drained_by_itself"]; }
  }

  void write(uint64_t k, size_t size)
  {
    if (!sink) { return; }
    std::string line;
    std::vector<std::pair<std::string, std::string>> named;
    std::string text;
    if (kind == "json")
    {
      named.emplace_back("id", std::to_string(k));
      std::string pad;
      for (size_t i = 0; i < size; ++i) { pad.push_back(static_cast<char>('a' + (i + k) % 26)); }
      named.emplace_back("pad", pad);
      captured.clear();
      probe->write_log(&g_md, k, "7", "t", "1", "lg", LogLevel::Info, "INFO", "I", &named, "", "");
      line = captured;
    }
    else
    {
      text = "S" + std::to_string(k) + ":";
      while (text.size() + 1 < size) { text.push_back(static_cast<char>('a' + (text.size() + k) % 26)); }
      text.push_back('\n');
      line = text;
    }
    std::string const expect = hook ? transform(line) : line;
    std::cout << "w " << k << ' ' << size << " t=" << expect.size() << std::flush;
    std::string err;
    try
    {
      if (kind == "json") { sink->write_log(&g_md, k, "7", "t", "1", "lg", LogLevel::Info, "INFO", "I", &named, "", ""); }
      else { sink->write_log(nullptr, k, "7", "t", "1", "lg", LogLevel::Info, "INFO", "I", nullptr, text, text); }
    }
    catch (std::exception const& e) { err = e.what(); }
    std::cout << " => " << (err.empty() ? "ok" : "err") << '\n';
    ++g_stats["writes"];
    if (!err.empty())
    {
      oracle("write-threw k=" + std::to_string(k) + " what=" + err);
      return;
    }
    all_written += expect;
    written_ids.push_back(k);
    check_between();
  }

  void flush()
  {
    if (!sink) { return; }
    std::cout << "fl" << std::flush;
    std::string err;
    try { sink->flush_sink(); }
    catch (std::exception const& e) { err = e.what(); }
    std::string const data = read_all(path);
    auto const ids = ids_in(data, kind == "json");
    std::cout << " => bytes=" << data.size() << " ids=" << show_ids(ids) << '\n';
    ++g_stats["flushes"];
    if (all_written.size() == flushed_len) { ++g_stats["flushes_with_nothing_new"]; }
    if (!err.empty()) { oracle("flush-threw what=" + err); }
    if (data != all_written)
    {
      // which statements cannot be read although flush_sink() returned
      std::string missing;
      for (uint64_t k : written_ids)
      {
        if (std::find(ids.begin(), ids.end(), k) == ids.end()) { missing += (missing.empty() ? "" : ".") + std::to_string(k); }
      }
      oracle("flush-returned-but-not-readable file_bytes=" + std::to_string(data.size()) + " written_bytes=" + std::to_string(all_written.size()) +
             " ids_in_file=" + show_ids(ids) + " ids_written=" + show_ids(written_ids) + " missing=" + (missing.empty() ? "-" : missing));
    }
    flushed_len = data.size();
  }

  void periodic()
  {
    if (!sink) { return; }
    std::cout << "rp" << std::flush;
    sink->run_periodic_tasks();
    std::cout << " => ok\n";
    ++g_stats["periodic"];
    check_between();
  }

  void end()
  {
    if (!sink) { return; }
    sink.reset();
    probe.reset();
    if (own_file)
    {
      std::fclose(own_file);
      own_file = nullptr;
    }
    // after the sink is gone everything must be in the file in any case
    if (!failed && read_all(path) != all_written) { oracle("content-after-close-differs written=" + std::to_string(all_written.size())); }
    std::remove(path.c_str());
    std::remove((path + ".probe").c_str());
  }
};

static char const* KINDS[] = {"file", "json", "rot", "stream"};

static void run_gen(uint64_t seed, unsigned ncases, unsigned maxops, std::string const& dir, std::string const& flags)
{
  Case c;
  unsigned cid = 0;
  // directed: every sink class x callback configuration x fsync, a fixed life with idle, repeated and late flushes
  for (auto const* k : KINDS)
  {
    for (int h = 0; h < 3; ++h)
    {
      for (int f = 0; f < 2; ++f)
      {
        if (std::string{k} == "stream" && f) { continue; }
        if (!c.begin("d" + std::to_string(cid++), k, h, f, (h + f) % 2 ? 4096 : 65536, dir, flags)) { continue; }
        uint64_t n = 0;
        c.flush();
        c.write(++n, 40);
        c.flush();
        c.write(++n, 25);
        c.write(++n, 90);
        c.periodic();
        c.flush();
        c.flush();
        c.write(++n, 5000); // larger than the small stdio buffer
        c.write(++n, 12);
        c.flush();
        c.end();
      }
    }
  }
  Rng r(seed);
  for (unsigned i = 0; i < ncases; ++i)
  {
    std::string const k = KINDS[r.below(4)];
    int const h = static_cast<int>(r.below(3));
    int const f = k == "stream" ? 0 : static_cast<int>(r.below(2));
    size_t const wb = r.chance(40) ? 4096 : 65536;
    if (!c.begin("r" + std::to_string(i), k, h, f, wb, dir, flags)) { continue; }
    unsigned const len = 4 + static_cast<unsigned>(r.below(maxops > 4 ? maxops - 3 : 1));
    uint64_t n = 0;
    size_t pending = 0;
    for (unsigned j = 0; j < len; ++j)
    {
      unsigned const w = static_cast<unsigned>(r.below(100));
      if (w < 58)
      {
        size_t sz;
        unsigned const s = static_cast<unsigned>(r.below(10));
        if (s < 6) { sz = 8 + r.below(200); }
        else if (s < 8) { sz = 200 + r.below(1500); }
        else
        {
          // relative to the stdio buffer: fill it to one below / exactly / one above its size
          size_t const room = wb > pending % wb ? wb - pending % wb : wb;
          sz = std::max<size_t>(8, room + r.below(3) - 1);
          if (sz > 70000) { sz = 70000; }
        }
        c.write(++n, sz);
        pending += sz;
        if (r.chance(35))
        {
          c.flush();
          pending = 0;
        }
      }
      else if (w < 88)
      {
        c.flush();
        pending = 0;
        if (r.chance(25)) { c.flush(); }
      }
      else { c.periodic(); }
    }
    c.flush();
    c.end();
    ++g_stats["gen_random"];
  }
  c.end();
}

static std::vector<std::string> split_ws(std::string const& s)
{
  std::vector<std::string> o;
  std::istringstream is(s);
  std::string w;
  while (is >> w) { o.push_back(w); }
  return o;
}
static std::string kv(std::vector<std::string> const& w, std::string const& k, std::string const& dflt)
{
  for (auto const& x : w)
  {
    if (x.rfind(k + "=", 0) == 0) { return x.substr(k.size() + 1); }
  }
  return dflt;
}

static void run_replay(std::string const& file, std::string const& dir, std::string const& flags)
{
  std::ifstream in(file);
  std::string line;
  Case c;
  unsigned k = 0;
  bool started = false;
  while (std::getline(in, line))
  {
    auto const arrow = line.find(" =>");
    if (arrow != std::string::npos) { line = line.substr(0, arrow); }
    auto w = split_ws(line);
    if (w.empty() || w[0][0] == '#' || w[0] == "ORACLE" || w[0] == "STATS") { continue; }
    if (w[0] == "init" && w.size() >= 3)
    {
      std::string kind = w[2];
      if (kind != "file" && kind != "json" && kind != "rot" && kind != "stream") { kind = "file"; }
      started = c.begin(w[1], kind, std::atoi(kv(w, "hook", "0").c_str()), std::atoi(kv(w, "fsync", "0").c_str()),
                        static_cast<size_t>(std::strtoull(kv(w, "wbuf", "65536").c_str(), nullptr, 10)), dir, flags);
      continue;
    }
    if (!started) { started = c.begin("replay" + std::to_string(k++), "file", 1, 0, 65536, dir, flags); }
    if (w[0] == "w" && w.size() >= 3) { c.write(std::strtoull(w[1].c_str(), nullptr, 10), static_cast<size_t>(std::strtoull(w[2].c_str(), nullptr, 10))); }
    else if (w[0] == "fl") { c.flush(); }
    else if (w[0] == "rp") { c.periodic(); }
  }
  c.end();
}

int main(int argc, char** argv)
{
  std::ios::sync_with_stdio(false);
  std::string const mode = argc >= 2 ? argv[1] : "";
  auto flags_from = [&](int i) { return std::string(argv[i]) + " " + argv[i + 1] + " " + argv[i + 2] + " " + argv[i + 3]; };
  if (mode == "gen" && argc >= 10) { run_gen(std::stoull(argv[2]), static_cast<unsigned>(std::atoi(argv[3])), static_cast<unsigned>(std::atoi(argv[4])), argv[5], flags_from(6)); }
  else if (mode == "replay" && argc >= 8) { run_replay(argv[2], argv[3], flags_from(4)); }
  else
  {
    std::cerr << "usage: h3_filesink gen <seed> <cases> <maxops> <dir> <4 flags> | replay <file> <dir> <4 flags>\n";
    return 2;
  }
  std::cout << "STATS";
  for (auto const& kv2 : g_stats) { std::cout << ' ' << kv2.first << '=' << kv2.second; }
  std::cout << " oracle_hits=" << g_oracle << '\n';
  std::cout.flush();
  return g_oracle ? 3 : 0;
}
