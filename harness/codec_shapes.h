// Shared by h3_codec.cpp (C04) and h5_alloc.cpp (C11): compile-time argument shapes over the REAL quill codecs.
// For every C++ type T used as a log argument:  Sh<T>::shape()   static shape in the line protocol
//                                                Sh<T>::gen()     generated value (extremes, NaN/inf, embedded NUL, empty,
//                                                                 unterminated arrays, non-printable bytes, null C string)
//                                                Sh<T>::val()     canonical description of the value (no addresses)
//                                                Sh<T>::expect()  the documented value as something fmt can format (oracle side)
//                                                Sh<T>::scribble()overwrite the memory the value owns (deep-copy test)
//                    and for every decoded type U: Vw<U>::val()    canonical description of what decode_arg returned
#pragma once
#include "quill/Backend.h"
#include "quill/Frontend.h"
#include "quill/LogMacros.h"
#include "quill/Logger.h"
#include "quill/sinks/Sink.h"
#include "quill/DeferredFormatCodec.h"
#include "quill/DirectFormatCodec.h"
#include "quill/StringRef.h"
#include "quill/std/Array.h"
#include "quill/std/Chrono.h"
#include "quill/std/Deque.h"
#include "quill/std/FilesystemPath.h"
#include "quill/std/ForwardList.h"
#include "quill/std/List.h"
#include "quill/std/Map.h"
#include "quill/std/Optional.h"
#include "quill/std/Pair.h"
#include "quill/std/Set.h"
#include "quill/std/Tuple.h"
#include "quill/std/UnorderedMap.h"
#include "quill/std/UnorderedSet.h"
#include "quill/std/Vector.h"

#include <algorithm>
#include <array>
#include <atomic>
#include <chrono>
#include <cmath>
#include <cstdint>
#include <cstring>
#include <deque>
#include <forward_list>
#include <limits>
#include <list>
#include <map>
#include <memory>
#include <optional>
#include <set>
#include <string>
#include <string_view>
#include <tuple>
#include <unordered_map>
#include <unordered_set>
#include <vector>
#include <sys/syscall.h>
#include <unistd.h>

namespace cs
{
struct Rng
{
  uint64_t s;
  // the seed is hashed: consecutive seeds must not give shifted copies of one stream
  explicit Rng(uint64_t seed) : s(0)
  {
    uint64_t z = (seed + 0x632BE59BD9B4E019ull) * 0xD1342543DE82EF95ull;
    z = (z ^ (z >> 32)) * 0xDABA0B6EB09322E3ull;
    z = (z ^ (z >> 29)) * 0xBF58476D1CE4E5B9ull;
    s = z ^ (z >> 32);
  }
  uint64_t next()
  {
    uint64_t z = (s += 0x9E3779B97F4A7C15ull);
    z = (z ^ (z >> 30)) * 0xBF58476D1CE4E5B9ull;
    z = (z ^ (z >> 27)) * 0x94D049BB133111EBull;
    return z ^ (z >> 31);
  }
  uint32_t below(uint32_t n) { return n ? static_cast<uint32_t>(next() % n) : 0; }
  bool coin(uint32_t num = 1, uint32_t den = 2) { return below(den) < num; }
};

inline std::string hex(void const* p, size_t n)
{
  static char const* d = "0123456789abcdef";
  std::string r;
  r.reserve(n * 2);
  auto b = static_cast<unsigned char const*>(p);
  for (size_t i = 0; i < n; ++i)
  {
    r.push_back(d[b[i] >> 4]);
    r.push_back(d[b[i] & 15]);
  }
  return r;
}

/** memory behind generated C strings; scribbled and freed after the log call (ASan sees any late read) */
struct Arena
{
  std::vector<std::pair<char*, size_t>> blocks;
  char* alloc(size_t n)
  {
    char* p = static_cast<char*>(::malloc(n ? n : 1));
    blocks.emplace_back(p, n);
    return p;
  }
  size_t size_of(char const* p) const
  {
    for (auto& b : blocks)
      if (b.first == p) return b.second;
    return 0;
  }
  void scribble()
  {
    for (auto& b : blocks) std::memset(b.first, 'X', b.second);
  }
  void release()
  {
    for (auto& b : blocks) ::free(b.first);
    blocks.clear();
  }
  ~Arena() { release(); }
};

/** generation context */
struct Gen
{
  Rng& rng;
  Arena& arena;
  int depth{0};
  bool printable_only{false}; // unordered containers: elements must not contain the separators the oracle splits on
  bool no_null{false};
  bool ascii_classes{false}; // strings for the custom-predicate runs: alnum only / + | " % / + a control, tab or high byte
  long force_count{-1}; // >= 0: element count of the top-level sequence container(s) of the value (boundary cases)
};

/** random byte string: classes = empty, short ascii, with non-printable, with embedded NUL, long, boundary lengths */
inline std::string gen_bytes(Gen& g, bool allow_nul)
{
  static size_t const lens[] = {0, 1, 2, 3, 7, 8, 15, 16, 31, 63, 64, 255, 256, 300, 1000};
  if (g.ascii_classes)
  {
    // the rejected bytes of a message are (a) none, (b) printable ASCII only (| " %), (c) also a control / tab / high byte
    uint32_t k = g.rng.below(3);
    size_t len = 1 + g.rng.below(14);
    std::string r;
    for (size_t i = 0; i < len; ++i) r.push_back("abcdefghijklmnopqrstuvwxyzABCDEFGHIJKLMNOPQRSTUVWXYZ0123456789_ .,:"[g.rng.below(67)]);
    if (k >= 1)
      for (uint32_t j = 0, m = 1 + g.rng.below(3); j < m; ++j) r[g.rng.below(static_cast<uint32_t>(r.size()))] = "|\"%"[g.rng.below(3)];
    if (k == 2)
    {
      static unsigned char const ctl[] = {0x01, 0x09, 0x0d, 0x1b, 0x7f, 0x80, 0xe9, 0xff};
      r.insert(r.begin() + g.rng.below(static_cast<uint32_t>(r.size() + 1)), static_cast<char>(ctl[g.rng.below(sizeof(ctl))]));
    }
    return r;
  }
  uint32_t cls = g.rng.below(10);
  size_t n = cls == 0 ? 0 : (cls < 7 ? g.rng.below(12) : lens[g.rng.below(sizeof(lens) / sizeof(lens[0]))]);
  if (g.depth > 1 && n > 40) n = n % 40;
  std::string s;
  s.reserve(n);
  uint32_t mode = g.printable_only ? 0 : g.rng.below(4); // 0 alnum, 1 printable, 2 any non-NUL, 3 any
  for (size_t i = 0; i < n; ++i)
  {
    unsigned char c;
    switch (mode)
    {
    case 0: c = "abcdefghijklmnopqrstuvwxyzABCDEFGHIJKLMNOPQRSTUVWXYZ0123456789_"[g.rng.below(63)]; break;
    case 1: c = static_cast<unsigned char>(32 + g.rng.below(95)); break;
    case 2: c = static_cast<unsigned char>(1 + g.rng.below(255)); break;
    default: c = static_cast<unsigned char>(g.rng.below(256)); break;
    }
    if (!allow_nul && c == 0) c = 1;
    s.push_back(static_cast<char>(c));
  }
  return s;
}

// ------------------------------------------------------------------------------------------------------------------
// user types
// ------------------------------------------------------------------------------------------------------------------
enum class E8 : uint8_t
{
  A = 0,
  B = 7,
  C = 255
};
inline auto format_as(E8 e) { return static_cast<unsigned>(e); }
enum E32 : int32_t
{
  X = -5,
  Y = 0,
  Z = 100000
};
inline auto format_as(E32 e) { return static_cast<int>(e); }

/** hooks defined by each harness: h5 counts copies / formatter calls made by the calling thread inside its window */
void note_copy();
void note_format();

/** thread that ran the last formatter of each user type (C11) */
struct FmtTrace
{
  static std::atomic<long>& tid(int which)
  {
    static std::atomic<long> t[4];
    return t[which];
  }
  static std::atomic<long>& calls(int which)
  {
    static std::atomic<long> t[4];
    return t[which];
  }
  static void note(int which)
  {
    tid(which).store(static_cast<long>(::syscall(SYS_gettid)));
    calls(which).fetch_add(1);
    note_format();
  }
};

/** trivially copyable, default constructible, no padding: DeferredFormatCodec memcpy branch */
struct Pod
{
  int32_t a;
  uint32_t b;
  double c;
};
/** not trivially copyable (user copy ctor), plain integers only, alignof 8: placement-copy branch */
struct NonPod8
{
  uint64_t x{0};
  uint32_t y{0};
  uint32_t z{0};
  NonPod8() = default;
  NonPod8(uint64_t x_, uint32_t y_, uint32_t z_) : x(x_), y(y_), z(z_) {}
  NonPod8(NonPod8 const& o) : x(o.x), y(o.y), z(o.z) { note_copy(); }
  NonPod8(NonPod8&& o) noexcept : x(o.x), y(o.y), z(o.z) {}
  NonPod8& operator=(NonPod8 const&) = default;
};
/** alignof 16 */
struct alignas(16) NonPod16
{
  uint32_t v[4]{};
  NonPod16() = default;
  NonPod16(NonPod16 const& o)
  {
    std::memcpy(v, o.v, sizeof(v));
    note_copy();
  }
  NonPod16(NonPod16&& o) noexcept { std::memcpy(v, o.v, sizeof(v)); }
  NonPod16& operator=(NonPod16 const&) = default;
};
/** owns heap memory: copy constructor allocates (documented exclusion of C11), object bytes contain an address */
struct NonPodStr
{
  std::string s;
  int32_t k{0};
  NonPodStr() = default;
  NonPodStr(NonPodStr const& o) : s(o.s), k(o.k) { note_copy(); }
  NonPodStr(NonPodStr&& o) noexcept : s(std::move(o.s)), k(o.k) {}
  NonPodStr& operator=(NonPodStr const&) = default;
  NonPodStr& operator=(NonPodStr&&) = default;
};
/** formatted on the caller */
struct Direct
{
  std::string s;
  int32_t k{0};
};
} // namespace cs

template <>
struct fmtquill::formatter<cs::Pod>
{
  constexpr auto parse(format_parse_context& ctx) { return ctx.begin(); }
  auto format(cs::Pod const& p, format_context& ctx) const
  {
    cs::FmtTrace::note(0);
    return fmtquill::format_to(ctx.out(), "Pod({},{},{})", p.a, p.b, p.c);
  }
};
template <>
struct fmtquill::formatter<cs::NonPod8>
{
  constexpr auto parse(format_parse_context& ctx) { return ctx.begin(); }
  auto format(cs::NonPod8 const& p, format_context& ctx) const
  {
    cs::FmtTrace::note(1);
    return fmtquill::format_to(ctx.out(), "NP8({},{},{})", p.x, p.y, p.z);
  }
};
template <>
struct fmtquill::formatter<cs::NonPod16>
{
  constexpr auto parse(format_parse_context& ctx) { return ctx.begin(); }
  auto format(cs::NonPod16 const& p, format_context& ctx) const
  {
    cs::FmtTrace::note(1);
    return fmtquill::format_to(ctx.out(), "NP16({},{},{},{})", p.v[0], p.v[1], p.v[2], p.v[3]);
  }
};
template <>
struct fmtquill::formatter<cs::NonPodStr>
{
  constexpr auto parse(format_parse_context& ctx) { return ctx.begin(); }
  auto format(cs::NonPodStr const& p, format_context& ctx) const
  {
    cs::FmtTrace::note(2);
    return fmtquill::format_to(ctx.out(), "NPS({},{})", p.s, p.k);
  }
};
template <>
struct fmtquill::formatter<cs::Direct>
{
  constexpr auto parse(format_parse_context& ctx) { return ctx.begin(); }
  auto format(cs::Direct const& p, format_context& ctx) const
  {
    cs::FmtTrace::note(3);
    return fmtquill::format_to(ctx.out(), "Direct<{}|{}>", p.s, p.k);
  }
};
template <>
struct quill::Codec<cs::Pod> : quill::DeferredFormatCodec<cs::Pod>
{
};
template <>
struct quill::Codec<cs::NonPod8> : quill::DeferredFormatCodec<cs::NonPod8>
{
};
template <>
struct quill::Codec<cs::NonPod16> : quill::DeferredFormatCodec<cs::NonPod16>
{
};
template <>
struct quill::Codec<cs::NonPodStr> : quill::DeferredFormatCodec<cs::NonPodStr>
{
};
template <>
struct quill::Codec<cs::Direct> : quill::DirectFormatCodec<cs::Direct>
{
};

namespace cs
{
// ------------------------------------------------------------------------------------------------------------------
// Sh<T>
// ------------------------------------------------------------------------------------------------------------------
template <class T, class = void>
struct Sh;

template <class T>
using expect_t = decltype(Sh<T>::expect(std::declval<T const&>()));

/** arithmetic extremes */
template <class T>
T gen_arith(Gen& g)
{
  if constexpr (std::is_same_v<T, bool>)
  {
    return g.rng.coin();
  }
  else if constexpr (std::is_floating_point_v<T>)
  {
    switch (g.rng.below(12))
    {
    case 0: return std::numeric_limits<T>::quiet_NaN();
    case 1: return std::numeric_limits<T>::infinity();
    case 2: return -std::numeric_limits<T>::infinity();
    case 3: return std::numeric_limits<T>::max();
    case 4: return std::numeric_limits<T>::lowest();
    case 5: return std::numeric_limits<T>::min();
    case 6: return std::numeric_limits<T>::denorm_min();
    case 7: return static_cast<T>(-0.0);
    case 8: return static_cast<T>(0);
    default:
      return static_cast<T>(static_cast<double>(static_cast<int64_t>(g.rng.next() % 2000001) - 1000000) / 1000.0);
    }
  }
  else if constexpr (std::is_same_v<T, char>)
  {
    if (g.printable_only) return static_cast<char>('a' + g.rng.below(26));
    switch (g.rng.below(6))
    {
    case 0: return '\0';
    case 1: return '\t';
    case 2: return static_cast<char>(0x80 + g.rng.below(128));
    default: return static_cast<char>(32 + g.rng.below(95));
    }
  }
  else
  {
    switch (g.rng.below(8))
    {
    case 0: return std::numeric_limits<T>::max();
    case 1: return std::numeric_limits<T>::min();
    case 2: return static_cast<T>(0);
    case 3: return static_cast<T>(1);
    case 4: return static_cast<T>(-1);
    default: return static_cast<T>(g.rng.next());
    }
  }
}

template <class T>
struct Sh<T, std::enable_if_t<std::is_arithmetic_v<T>>>
{
  static constexpr bool hexable = true;
  static constexpr bool view_ok = !std::is_same_v<T, long double>; // padding bytes of the returned value are not preserved
  static constexpr bool unordered = false;
  static constexpr char kind = std::is_same_v<T, char> ? 'h' : 'i';
  static std::string shape() { return std::string("p") + kind + std::to_string(sizeof(T)) + "."; }
  static void gen(Gen& g, T& out)
  {
    if constexpr (std::is_same_v<T, long double>) std::memset(&out, 0, sizeof(out));
    out = gen_arith<T>(g);
  }
  static std::string val(T const& v) { return std::string("P") + kind + hex(&v, sizeof(T)) + "."; }
  static T expect(T const& v) { return v; }
  static void scribble(T& v) { std::memset(&v, 0x58, sizeof(T)); }
};

template <class T>
struct Sh<T, std::enable_if_t<std::is_enum_v<T>>>
{
  static constexpr bool hexable = true;
  static constexpr bool view_ok = true;
  static constexpr bool unordered = false;
  static std::string shape() { return "pn" + std::to_string(sizeof(T)) + "."; }
  static void gen(Gen& g, T& out)
  {
    if constexpr (std::is_same_v<T, E8>)
    {
      static E8 const vals[] = {E8::A, E8::B, E8::C};
      out = vals[g.rng.below(3)];
    }
    else
    {
      static E32 const vals[] = {X, Y, Z};
      out = vals[g.rng.below(3)];
    }
  }
  static std::string val(T const& v) { return "Pn" + hex(&v, sizeof(T)) + "."; }
  static T expect(T const& v) { return v; }
  static void scribble(T& v) { std::memset(&v, 0, sizeof(T)); }
};

template <>
struct Sh<void const*>
{
  static constexpr bool hexable = true; // generated, never dereferenced, seed-determined
  static constexpr bool view_ok = true;
  static constexpr bool unordered = false;
  static std::string shape() { return "pp8."; }
  static void gen(Gen& g, void const*& out)
  {
    out = g.rng.coin(1, 5) ? nullptr : reinterpret_cast<void const*>(static_cast<uintptr_t>(g.rng.next() & 0xffffffffffffull));
  }
  static std::string val(void const* const& v) { return "Pp" + hex(&v, sizeof(v)) + "."; }
  static void const* expect(void const* const& v) { return v; }
  static void scribble(void const*& v) { v = reinterpret_cast<void const*>(0x5858); }
};

/** C strings: the region behind the pointer may hold an earlier NUL and further bytes */
template <class P>
struct ShCStr
{
  static constexpr bool hexable = true;
  static constexpr bool view_ok = true;
  static constexpr bool unordered = false;
  static std::string shape() { return "z"; }
  static void gen(Gen& g, P& out)
  {
    if (!g.no_null && !g.printable_only && g.rng.coin(1, 8))
    {
      out = nullptr;
      return;
    }
    std::string s = gen_bytes(g, !g.printable_only && g.rng.coin(1, 4));
    char* p = g.arena.alloc(s.size() + 1);
    std::memcpy(p, s.data(), s.size());
    p[s.size()] = '\0';
    out = p;
  }
  // the arena block is the region; the final NUL is implicit
  static std::string val_with(Arena const& a, P const& v)
  {
    if (!v) return "Z-";
    size_t n = a.size_of(v);
    return "Z" + hex(v, n ? n - 1 : 0) + ".";
  }
  static std::string expect(P const& v) { return v ? std::string(v) : std::string(); }
  static void scribble(P&) {}
};
template <>
struct Sh<char const*> : ShCStr<char const*>
{
};
template <>
struct Sh<char*> : ShCStr<char*>
{
};

template <size_t N>
struct Sh<char[N]>
{
  static constexpr bool hexable = true;
  static constexpr bool view_ok = true;
  static constexpr bool unordered = false;
  static std::string shape() { return "a" + std::to_string(N) + "."; }
  static void gen(Gen& g, char (&out)[N])
  {
    // terminated at a random place, terminated at the last byte, unterminated, all NUL
    for (size_t i = 0; i < N; ++i)
      out[i] = g.printable_only ? static_cast<char>('a' + g.rng.below(26)) : static_cast<char>(1 + g.rng.below(255));
    switch (g.rng.below(5))
    {
    case 0: break; // no terminator in the array
    case 1: out[N - 1] = '\0'; break;
    case 2: std::memset(out, 0, N); break;
    case 3: out[0] = '\0'; break;
    default: out[g.rng.below(N)] = '\0'; break;
    }
  }
  static std::string val(char const (&v)[N]) { return "A" + hex(v, N) + "."; }
  static std::string expect(char const (&v)[N]) { return std::string(v, ::strnlen(v, N)); }
  static void scribble(char (&v)[N]) { std::memset(v, 'X', N); }
};

template <>
struct Sh<std::string>
{
  static constexpr bool hexable = true;
  static constexpr bool view_ok = true;
  static constexpr bool unordered = false;
  static std::string shape() { return "s"; }
  static void gen(Gen& g, std::string& out) { out = gen_bytes(g, true); }
  static std::string val(std::string const& v) { return "S" + hex(v.data(), v.size()) + "."; }
  static std::string expect(std::string const& v) { return v; }
  static void scribble(std::string& v)
  {
    for (auto& c : v) c = 'X';
  }
};

template <>
struct Sh<std::string_view>
{
  static constexpr bool hexable = true;
  static constexpr bool view_ok = true;
  static constexpr bool unordered = false;
  static std::string shape() { return "s"; }
  static void gen(Gen& g, std::string_view& out)
  {
    std::string s = gen_bytes(g, true);
    char* p = g.arena.alloc(s.size());
    std::memcpy(p, s.data(), s.size());
    out = std::string_view{p, s.size()};
  }
  static std::string val(std::string_view const& v) { return "S" + hex(v.data(), v.size()) + "."; }
  static std::string expect(std::string_view const& v) { return std::string(v); }
  static void scribble(std::string_view&) {}
};

// value description of an element that may be a C string needs the arena; thread it through a thread_local
inline Arena const*& cur_arena()
{
  static thread_local Arena const* a = nullptr;
  return a;
}
template <class T>
std::string val_of(T const& v)
{
  if constexpr (std::is_same_v<T, char const*> || std::is_same_v<T, char*>)
    return Sh<T>::val_with(*cur_arena(), v);
  else
    return Sh<T>::val(v);
}

inline size_t gen_count(Gen& g)
{
  static size_t const ns[] = {0, 0, 1, 1, 2, 3, 4, 5, 8, 13, 17};
  size_t n = ns[g.rng.below(sizeof(ns) / sizeof(ns[0]))];
  if (g.force_count >= 0 && g.depth == 0) return static_cast<size_t>(g.force_count);
  return g.depth > 1 ? n % 4 : n;
}

/** sequence containers with push_back */
template <class C, class T>
struct ShSeq
{
  static constexpr bool hexable = Sh<T>::hexable;
  static constexpr bool view_ok = Sh<T>::view_ok;
  static constexpr bool unordered = Sh<T>::unordered;
  static void gen(Gen& g, C& out)
  {
    size_t n = gen_count(g);
    ++g.depth;
    for (size_t i = 0; i < n; ++i)
    {
      T e;
      Sh<T>::gen(g, e);
      out.push_back(std::move(e));
    }
    --g.depth;
  }
  static std::string vals(C const& v)
  {
    std::string r;
    bool first = true;
    for (auto const& e : v)
    {
      if (!first) r += ",";
      first = false;
      r += val_of<T>(e);
    }
    return r;
  }
  static void scribble(C& v)
  {
    for (auto& e : v) Sh<T>::scribble(e);
  }
};
template <class T>
struct Sh<std::vector<T>> : ShSeq<std::vector<T>, T>
{
  static std::string shape() { return "q(" + Sh<T>::shape() + ")"; }
  static std::string val(std::vector<T> const& v) { return "Qvec(" + Sh<T>::shape() + ";" + ShSeq<std::vector<T>, T>::vals(v) + ")"; }
  static std::vector<expect_t<T>> expect(std::vector<T> const& v)
  {
    std::vector<expect_t<T>> r;
    for (auto const& e : v) r.push_back(Sh<T>::expect(e));
    return r;
  }
};
template <class T>
struct Sh<std::deque<T>> : ShSeq<std::deque<T>, T>
{
  static std::string shape() { return "q(" + Sh<T>::shape() + ")"; }
  static std::string val(std::deque<T> const& v) { return "Qdeq(" + Sh<T>::shape() + ";" + ShSeq<std::deque<T>, T>::vals(v) + ")"; }
  static std::deque<expect_t<T>> expect(std::deque<T> const& v)
  {
    std::deque<expect_t<T>> r;
    for (auto const& e : v) r.push_back(Sh<T>::expect(e));
    return r;
  }
};
template <class T>
struct Sh<std::list<T>> : ShSeq<std::list<T>, T>
{
  static std::string shape() { return "q(" + Sh<T>::shape() + ")"; }
  static std::string val(std::list<T> const& v) { return "Qlst(" + Sh<T>::shape() + ";" + ShSeq<std::list<T>, T>::vals(v) + ")"; }
  static std::list<expect_t<T>> expect(std::list<T> const& v)
  {
    std::list<expect_t<T>> r;
    for (auto const& e : v) r.push_back(Sh<T>::expect(e));
    return r;
  }
};
template <class T>
struct Sh<std::forward_list<T>>
{
  using C = std::forward_list<T>;
  static constexpr bool hexable = Sh<T>::hexable;
  static constexpr bool view_ok = Sh<T>::view_ok;
  static constexpr bool unordered = Sh<T>::unordered;
  static std::string shape() { return "q(" + Sh<T>::shape() + ")"; }
  static void gen(Gen& g, C& out)
  {
    std::vector<T> tmp;
    Sh<std::vector<T>>::gen(g, tmp);
    for (auto it = tmp.rbegin(); it != tmp.rend(); ++it) out.push_front(std::move(*it));
  }
  static std::string val(C const& v)
  {
    std::string r;
    bool first = true;
    for (auto const& e : v)
    {
      if (!first) r += ",";
      first = false;
      r += val_of<T>(e);
    }
    return "Qfwd(" + Sh<T>::shape() + ";" + r + ")";
  }
  static std::forward_list<expect_t<T>> expect(C const& v)
  {
    std::vector<expect_t<T>> tmp;
    for (auto const& e : v) tmp.push_back(Sh<T>::expect(e));
    std::forward_list<expect_t<T>> r;
    for (auto it = tmp.rbegin(); it != tmp.rend(); ++it) r.push_front(std::move(*it));
    return r;
  }
  static void scribble(C& v)
  {
    for (auto& e : v) Sh<T>::scribble(e);
  }
};

/** associative containers: keys are plain values or std::string (ordering of the decoded container = ordering of the source) */
template <class C, class K, bool Unordered>
struct ShSetLike
{
  static constexpr bool hexable = Sh<K>::hexable;
  static constexpr bool view_ok = Sh<K>::view_ok && !Unordered;
  static constexpr bool unordered = Unordered || Sh<K>::unordered;
  static void gen(Gen& g, C& out)
  {
    size_t n = gen_count(g);
    bool po = g.printable_only;
    if (Unordered) g.printable_only = true;
    ++g.depth;
    for (size_t i = 0; i < n; ++i)
    {
      K e;
      Sh<K>::gen(g, e);
      out.insert(std::move(e));
    }
    --g.depth;
    g.printable_only = po;
  }
  static std::string vals(C const& v)
  {
    std::string r;
    bool first = true;
    for (auto const& e : v)
    {
      if (!first) r += ",";
      first = false;
      r += val_of<K>(e);
    }
    return r;
  }
  static std::multiset<expect_t<K>> expect(C const& v)
  {
    std::multiset<expect_t<K>> r;
    for (auto const& e : v) r.insert(Sh<K>::expect(e));
    return r;
  }
  static void scribble(C&) {} // keys are const; the container is destroyed instead
};
template <class K>
struct Sh<std::set<K>> : ShSetLike<std::set<K>, K, false>
{
  static std::string shape() { return "q(" + Sh<K>::shape() + ")"; }
  static std::string val(std::set<K> const& v) { return "Qset(" + Sh<K>::shape() + ";" + ShSetLike<std::set<K>, K, false>::vals(v) + ")"; }
};
template <class K>
struct Sh<std::unordered_set<K>> : ShSetLike<std::unordered_set<K>, K, true>
{
  static std::string shape() { return "q(" + Sh<K>::shape() + ")"; }
  static std::string val(std::unordered_set<K> const& v)
  {
    return "Quset(" + Sh<K>::shape() + ";" + ShSetLike<std::unordered_set<K>, K, true>::vals(v) + ")";
  }
};

/** comparators other than std::less: the container iterates — and is encoded — in THEIR order */
struct ByLastDigit // user comparator on an arithmetic key: last decimal digit first, then the value
{
  bool operator()(int32_t a, int32_t b) const noexcept
  {
    int const da = static_cast<int>(((a % 10) + 10) % 10), db = static_cast<int>(((b % 10) + 10) % 10);
    return da != db ? da < db : a < b;
  }
};
struct SvDesc // stateless user comparator the rebound set<std::string_view, …> accepts: descending
{
  bool operator()(std::string_view a, std::string_view b) const noexcept { return a > b; }
};
struct CStrDesc // like the CStringComparator of the library's own tests, descending
{
  bool operator()(char const* a, char const* b) const noexcept { return std::strcmp(a, b) > 0; }
};
/** oracle side of an ordered container with a non-default order: the expected elements in the ITERATION order of the
    source, formatted by fmt as a set (`key_type` makes it one): what call-site formatting of the source prints */
template <class T>
struct SeqAsSet
{
  using key_type = T;
  using value_type = T;
  std::vector<T> v;
  auto begin() const { return v.begin(); }
  auto end() const { return v.end(); }
};
template <class C, class K, bool Multi>
struct ShOrderedSet
{
  static constexpr bool hexable = Sh<K>::hexable;
  static constexpr bool view_ok = Sh<K>::view_ok;
  static constexpr bool unordered = false;
  static std::string shape() { return "q(" + Sh<K>::shape() + ")"; }
  static void gen(Gen& g, C& out)
  {
    size_t n = gen_count(g);
    bool nn = g.no_null;
    g.no_null = true;
    ++g.depth;
    for (size_t i = 0; i < n; ++i)
    {
      K e;
      Sh<K>::gen(g, e);
      if constexpr (std::is_floating_point_v<K>)
        if (e != e) e = static_cast<K>(0); // NaN is not ordered by any comparator
      out.insert(e);
      if (Multi && g.rng.coin(1, 3)) out.insert(e);
    }
    --g.depth;
    g.no_null = nn;
  }
  static std::string val(C const& v)
  {
    std::string r;
    bool first = true;
    for (auto const& e : v)
    {
      if (!first) r += ",";
      first = false;
      r += val_of<K>(e);
    }
    return "Qset(" + Sh<K>::shape() + ";" + r + ")";
  }
  static SeqAsSet<expect_t<K>> expect(C const& v)
  {
    SeqAsSet<expect_t<K>> r;
    for (auto const& e : v) r.v.push_back(Sh<K>::expect(e));
    return r;
  }
  static void scribble(C&) {}
};
template <class K, class Cmp>
struct Sh<std::set<K, Cmp>, std::enable_if_t<!std::is_same_v<Cmp, std::less<K>>>> : ShOrderedSet<std::set<K, Cmp>, K, false>
{
};
template <class K, class Cmp>
struct Sh<std::multiset<K, Cmp>> : ShOrderedSet<std::multiset<K, Cmp>, K, true>
{
};

template <class C, class K, class V, bool Unordered>
struct ShMapLike
{
  static constexpr bool hexable = Sh<K>::hexable && Sh<V>::hexable;
  static constexpr bool view_ok = Sh<K>::view_ok && Sh<V>::view_ok && !Unordered;
  static constexpr bool unordered = Unordered || Sh<V>::unordered;
  static std::string eshape() { return "R(" + Sh<K>::shape() + "," + Sh<V>::shape() + ")"; }
  static void gen(Gen& g, C& out)
  {
    size_t n = gen_count(g);
    bool po = g.printable_only;
    if (Unordered) g.printable_only = true;
    ++g.depth;
    for (size_t i = 0; i < n; ++i)
    {
      K k;
      V v;
      Sh<K>::gen(g, k);
      Sh<V>::gen(g, v);
      out.emplace(std::move(k), std::move(v));
    }
    --g.depth;
    g.printable_only = po;
  }
  static std::string vals(C const& v)
  {
    std::string r;
    bool first = true;
    for (auto const& e : v)
    {
      if (!first) r += ",";
      first = false;
      r += "R(" + val_of<K>(e.first) + "," + val_of<V>(e.second) + ")";
    }
    return r;
  }
  static std::multimap<expect_t<K>, expect_t<V>> expect(C const& v)
  {
    std::multimap<expect_t<K>, expect_t<V>> r;
    for (auto const& e : v) r.emplace(Sh<K>::expect(e.first), Sh<V>::expect(e.second));
    return r;
  }
  static void scribble(C& v)
  {
    for (auto& e : v) Sh<V>::scribble(e.second);
  }
};
template <class K, class V>
struct Sh<std::map<K, V>> : ShMapLike<std::map<K, V>, K, V, false>
{
  using B = ShMapLike<std::map<K, V>, K, V, false>;
  static std::string shape() { return "q(" + B::eshape() + ")"; }
  static std::string val(std::map<K, V> const& v) { return "Qmap(" + B::eshape() + ";" + B::vals(v) + ")"; }
};
template <class K, class V>
struct Sh<std::unordered_map<K, V>> : ShMapLike<std::unordered_map<K, V>, K, V, true>
{
  using B = ShMapLike<std::unordered_map<K, V>, K, V, true>;
  static std::string shape() { return "q(" + B::eshape() + ")"; }
  static std::string val(std::unordered_map<K, V> const& v) { return "Qumap(" + B::eshape() + ";" + B::vals(v) + ")"; }
};

template <class T, size_t N>
struct Sh<std::array<T, N>>
{
  using C = std::array<T, N>;
  static constexpr bool hexable = Sh<T>::hexable;
  static constexpr bool view_ok = Sh<T>::view_ok;
  static constexpr bool unordered = Sh<T>::unordered;
  static std::string shape() { return "r" + std::to_string(N) + "(" + Sh<T>::shape() + ")"; }
  static void gen(Gen& g, C& out)
  {
    ++g.depth;
    for (auto& e : out) Sh<T>::gen(g, e);
    --g.depth;
  }
  static std::string val(C const& v)
  {
    std::string r;
    for (size_t i = 0; i < N; ++i) r += (i ? "," : "") + val_of<T>(v[i]);
    return "Qarr(" + Sh<T>::shape() + ";" + r + ")";
  }
  static std::array<expect_t<T>, N> expect(C const& v)
  {
    std::array<expect_t<T>, N> r;
    for (size_t i = 0; i < N; ++i) r[i] = Sh<T>::expect(v[i]);
    return r;
  }
  static void scribble(C& v)
  {
    for (auto& e : v) Sh<T>::scribble(e);
  }
};
template <class T, size_t N>
struct Sh<T[N], std::enable_if_t<!std::is_same_v<T, char>>>
{
  static constexpr bool hexable = Sh<T>::hexable;
  static constexpr bool view_ok = Sh<T>::view_ok;
  static constexpr bool unordered = Sh<T>::unordered;
  static std::string shape() { return "r" + std::to_string(N) + "(" + Sh<T>::shape() + ")"; }
  static void gen(Gen& g, T (&out)[N])
  {
    ++g.depth;
    for (auto& e : out) Sh<T>::gen(g, e);
    --g.depth;
  }
  static std::string val(T const (&v)[N])
  {
    std::string r;
    for (size_t i = 0; i < N; ++i) r += (i ? "," : "") + val_of<T>(v[i]);
    return "Qcarr(" + Sh<T>::shape() + ";" + r + ")";
  }
  static std::array<expect_t<T>, N> expect(T const (&v)[N])
  {
    std::array<expect_t<T>, N> r;
    for (size_t i = 0; i < N; ++i) r[i] = Sh<T>::expect(v[i]);
    return r;
  }
  static void scribble(T (&v)[N])
  {
    for (auto& e : v) Sh<T>::scribble(e);
  }
};

template <class T>
struct Sh<std::optional<T>>
{
  using C = std::optional<T>;
  static constexpr bool hexable = Sh<T>::hexable;
  static constexpr bool view_ok = Sh<T>::view_ok;
  static constexpr bool unordered = Sh<T>::unordered;
  static std::string shape() { return "o(" + Sh<T>::shape() + ")"; }
  static void gen(Gen& g, C& out)
  {
    if (g.rng.coin(1, 3))
    {
      out.reset();
      return;
    }
    T e;
    ++g.depth;
    Sh<T>::gen(g, e);
    --g.depth;
    out = std::move(e);
  }
  static std::string val(C const& v)
  {
    return "O(" + Sh<T>::shape() + ";" + (v.has_value() ? val_of<T>(*v) : std::string("-")) + ")";
  }
  static std::optional<expect_t<T>> expect(C const& v)
  {
    if (!v) return std::nullopt;
    return Sh<T>::expect(*v);
  }
  static void scribble(C& v)
  {
    if (v) Sh<T>::scribble(*v);
  }
};

template <class A, class B>
struct Sh<std::pair<A, B>>
{
  using C = std::pair<A, B>;
  static constexpr bool hexable = Sh<A>::hexable && Sh<B>::hexable;
  static constexpr bool view_ok = Sh<A>::view_ok && Sh<B>::view_ok;
  static constexpr bool unordered = Sh<A>::unordered || Sh<B>::unordered;
  static std::string shape() { return "R(" + Sh<A>::shape() + "," + Sh<B>::shape() + ")"; }
  static void gen(Gen& g, C& out)
  {
    ++g.depth;
    Sh<A>::gen(g, out.first);
    Sh<B>::gen(g, out.second);
    --g.depth;
  }
  static std::string val(C const& v) { return "R(" + val_of<A>(v.first) + "," + val_of<B>(v.second) + ")"; }
  static std::pair<expect_t<A>, expect_t<B>> expect(C const& v) { return {Sh<A>::expect(v.first), Sh<B>::expect(v.second)}; }
  static void scribble(C& v)
  {
    Sh<A>::scribble(v.first);
    Sh<B>::scribble(v.second);
  }
};

template <class... Ts>
struct Sh<std::tuple<Ts...>>
{
  using C = std::tuple<Ts...>;
  static constexpr bool hexable = (Sh<Ts>::hexable && ... && true);
  static constexpr bool view_ok = (Sh<Ts>::view_ok && ... && true);
  static constexpr bool unordered = (Sh<Ts>::unordered || ... || false);
  static std::string shape()
  {
    std::string r;
    bool first = true;
    ((r += (first ? "" : ",") + Sh<Ts>::shape(), first = false), ...);
    return "T(" + r + ")";
  }
  static void gen(Gen& g, C& out)
  {
    ++g.depth;
    std::apply([&](auto&... e) { (Sh<std::remove_cv_t<std::remove_reference_t<decltype(e)>>>::gen(g, e), ...); }, out);
    --g.depth;
  }
  static std::string val(C const& v)
  {
    std::string r;
    bool first = true;
    std::apply([&](auto const&... e) { ((r += (first ? "" : ",") + val_of<std::remove_cv_t<std::remove_reference_t<decltype(e)>>>(e), first = false), ...); }, v);
    return "T(" + r + ")";
  }
  static std::tuple<expect_t<Ts>...> expect(C const& v)
  {
    return std::apply([](auto const&... e) { return std::tuple<expect_t<Ts>...>{Sh<std::remove_cv_t<std::remove_reference_t<decltype(e)>>>::expect(e)...}; }, v);
  }
  static void scribble(C& v)
  {
    std::apply([](auto&... e) { (Sh<std::remove_cv_t<std::remove_reference_t<decltype(e)>>>::scribble(e), ...); }, v);
  }
};

/** deferred-format, memcpy branch */
template <class T>
struct ShPod
{
  static_assert(quill::DeferredFormatCodec<T>::use_memcpy, "expected the memcpy branch");
  static constexpr bool hexable = true;
  static constexpr bool view_ok = true;
  static constexpr bool unordered = false;
  static std::string shape() { return "d" + std::to_string(sizeof(T)) + "."; }
  static std::string val(T const& v) { return "D" + hex(&v, sizeof(T)) + "."; }
  static T expect(T const& v) { return v; }
  static void scribble(T& v) { std::memset(static_cast<void*>(&v), 0x58, sizeof(T)); }
};
template <>
struct Sh<Pod> : ShPod<Pod>
{
  static void gen(Gen& g, Pod& out)
  {
    out.a = gen_arith<int32_t>(g);
    out.b = gen_arith<uint32_t>(g);
    out.c = gen_arith<double>(g);
  }
};
template <>
struct Sh<std::chrono::nanoseconds> : ShPod<std::chrono::nanoseconds>
{
  static void gen(Gen& g, std::chrono::nanoseconds& out) { out = std::chrono::nanoseconds{static_cast<int64_t>(g.rng.next() % 4000000000000ull) - 2000000000000ll}; }
};
template <>
struct Sh<std::chrono::seconds> : ShPod<std::chrono::seconds>
{
  static void gen(Gen& g, std::chrono::seconds& out) { out = std::chrono::seconds{static_cast<int64_t>(g.rng.next() % 4000000000ull)}; }
};
using SysTime = std::chrono::time_point<std::chrono::system_clock, std::chrono::seconds>;
template <>
struct Sh<SysTime> : ShPod<SysTime>
{
  static void gen(Gen& g, SysTime& out) { out = SysTime{std::chrono::seconds{static_cast<int64_t>(g.rng.next() % 4000000000ull)}}; }
};

/** deferred-format, placement-copy branch, plain data */
template <class T>
struct ShNonPod
{
  static_assert(!quill::DeferredFormatCodec<T>::use_memcpy, "expected the placement-copy branch");
  static constexpr bool hexable = true;
  static constexpr bool view_ok = true;
  static constexpr bool unordered = false;
  static std::string shape() { return "n" + std::to_string(sizeof(T)) + ":" + std::to_string(alignof(T)) + "."; }
  static std::string val(T const& v) { return "N" + std::to_string(alignof(T)) + ":" + hex(&v, sizeof(T)) + "."; }
  static T expect(T const& v) { return v; }
  static void scribble(T& v) { std::memset(static_cast<void*>(&v), 0x58, sizeof(T)); }
};
template <>
struct Sh<NonPod8> : ShNonPod<NonPod8>
{
  static void gen(Gen& g, NonPod8& out) { out = NonPod8{g.rng.next(), gen_arith<uint32_t>(g), gen_arith<uint32_t>(g)}; }
};
template <>
struct Sh<NonPod16> : ShNonPod<NonPod16>
{
  static void gen(Gen& g, NonPod16& out)
  {
    for (auto& x : out.v) x = gen_arith<uint32_t>(g);
  }
};
template <>
struct Sh<NonPodStr>
{
  static_assert(!quill::DeferredFormatCodec<NonPodStr>::use_memcpy, "expected the placement-copy branch");
  static constexpr bool hexable = false; // the object holds an address
  static constexpr bool view_ok = false;
  static constexpr bool unordered = false;
  static std::string shape() { return "n" + std::to_string(sizeof(NonPodStr)) + ":" + std::to_string(alignof(NonPodStr)) + "."; }
  static void gen(Gen& g, NonPodStr& out)
  {
    out.s = gen_bytes(g, true);
    out.k = gen_arith<int32_t>(g);
  }
  static std::string val(NonPodStr const&) { return "N" + std::to_string(alignof(NonPodStr)) + ":~" + std::to_string(sizeof(NonPodStr)) + "."; }
  static NonPodStr expect(NonPodStr const& v) { return v; }
  static void scribble(NonPodStr& v)
  {
    for (auto& c : v.s) c = 'X';
    v.k = 0x58585858;
  }
};
template <>
struct Sh<Direct>
{
  static constexpr bool hexable = true;
  static constexpr bool view_ok = true;
  static constexpr bool unordered = false;
  static std::string shape() { return "f"; }
  static void gen(Gen& g, Direct& out)
  {
    out.s = gen_bytes(g, true);
    out.k = gen_arith<int32_t>(g);
  }
  static std::string val(Direct const& v)
  {
    std::string t = fmtquill::format("Direct<{}|{}>", v.s, v.k);
    return "F" + hex(t.data(), t.size()) + ".";
  }
  static Direct expect(Direct const& v) { return v; }
  static void scribble(Direct& v)
  {
    for (auto& c : v.s) c = 'X';
    v.k = 0x58585858;
  }
};
template <>
struct Sh<quill::utility::StringRef>
{
  using T = quill::utility::StringRef;
  static constexpr bool hexable = false; // a real address is encoded, by design
  static constexpr bool view_ok = true;
  static constexpr bool unordered = false;
  static std::string shape() { return "v"; }
  static std::string val(T const& v) { return "V~:" + std::to_string(v.get_string_view().size()) + "."; }
  static std::string expect(T const& v) { return std::string(v.get_string_view()); }
  static void scribble(T&) {}
};
template <>
struct Sh<quill::fs::path>
{
  using T = quill::fs::path;
  static constexpr bool hexable = true;
  static constexpr bool view_ok = true;
  static constexpr bool unordered = false;
  static std::string shape() { return "h"; }
  static void gen(Gen& g, T& out)
  {
    bool po = g.printable_only;
    g.printable_only = true;
    std::string a = gen_bytes(g, false), b = gen_bytes(g, false);
    g.printable_only = po;
    out = T{"/" + a + "/" + b + ".log"};
  }
  static std::string val(T const& v)
  {
    std::string s = v.string();
    return "H" + hex(s.data(), s.size()) + ".";
  }
  static T expect(T const& v) { return v; }
  static void scribble(T& v) { v = T{"XXXXXXXX"}; }
};

// ------------------------------------------------------------------------------------------------------------------
// Vw<U>: what decode_arg returned
// ------------------------------------------------------------------------------------------------------------------
template <class U, class = void>
struct Vw;
template <class U>
struct Vw<U, std::enable_if_t<std::is_arithmetic_v<U> || std::is_enum_v<U> || std::is_same_v<U, void const*>>>
{
  static std::string val(U const& v) { return "p" + hex(&v, sizeof(U)) + "."; }
};
template <>
struct Vw<char const*>
{
  static std::string val(char const* const& v) { return "t" + hex(v, std::strlen(v)) + "."; }
};
template <>
struct Vw<std::string_view>
{
  static std::string val(std::string_view const& v) { return "t" + hex(v.data(), v.size()) + "."; }
};
template <>
struct Vw<std::string>
{
  static std::string val(std::string const& v) { return "t" + hex(v.data(), v.size()) + "."; }
};
template <class It>
std::string vw_range(It b, It e)
{
  std::string r;
  bool first = true;
  for (; b != e; ++b)
  {
    if (!first) r += ",";
    first = false;
    r += Vw<std::decay_t<decltype(*b)>>::val(*b);
  }
  return "q(" + r + ")";
}
template <class T, class A>
struct Vw<std::vector<T, A>>
{
  static std::string val(std::vector<T, A> const& v) { return vw_range(v.begin(), v.end()); }
};
template <class T, class A>
struct Vw<std::deque<T, A>>
{
  static std::string val(std::deque<T, A> const& v) { return vw_range(v.begin(), v.end()); }
};
template <class T, class A>
struct Vw<std::list<T, A>>
{
  static std::string val(std::list<T, A> const& v) { return vw_range(v.begin(), v.end()); }
};
template <class T, class A>
struct Vw<std::forward_list<T, A>>
{
  static std::string val(std::forward_list<T, A> const& v) { return vw_range(v.begin(), v.end()); }
};
template <class T, class C, class A>
struct Vw<std::set<T, C, A>>
{
  static std::string val(std::set<T, C, A> const& v) { return vw_range(v.begin(), v.end()); }
};
template <class T, class C, class A>
struct Vw<std::multiset<T, C, A>>
{
  static std::string val(std::multiset<T, C, A> const& v) { return vw_range(v.begin(), v.end()); }
};
template <class T, class H, class E, class A>
struct Vw<std::unordered_set<T, H, E, A>>
{
  static std::string val(std::unordered_set<T, H, E, A> const&) { return "-"; }
};
template <class K, class V, class C, class A>
struct Vw<std::map<K, V, C, A>>
{
  static std::string val(std::map<K, V, C, A> const& v) { return vw_range(v.begin(), v.end()); }
};
template <class K, class V, class H, class E, class A>
struct Vw<std::unordered_map<K, V, H, E, A>>
{
  static std::string val(std::unordered_map<K, V, H, E, A> const&) { return "-"; }
};
template <class T, size_t N>
struct Vw<std::array<T, N>>
{
  static std::string val(std::array<T, N> const& v) { return vw_range(v.begin(), v.end()); }
};
template <class T>
struct Vw<std::optional<T>>
{
  static std::string val(std::optional<T> const& v) { return v ? "o(" + Vw<T>::val(*v) + ")" : std::string("o-"); }
};
template <class A, class B>
struct Vw<std::pair<A, B>>
{
  static std::string val(std::pair<A, B> const& v)
  {
    return "R(" + Vw<std::remove_cv_t<A>>::val(v.first) + "," + Vw<std::remove_cv_t<B>>::val(v.second) + ")";
  }
};
template <class... Ts>
struct Vw<std::tuple<Ts...>>
{
  static std::string val(std::tuple<Ts...> const& v)
  {
    std::string r;
    bool first = true;
    std::apply([&](auto const&... e) { ((r += (first ? "" : ",") + Vw<std::remove_cv_t<std::remove_reference_t<decltype(e)>>>::val(e), first = false), ...); }, v);
    return "T(" + r + ")";
  }
};
template <class U>
struct VwObj
{
  static std::string val(U const& v) { return "b" + hex(&v, sizeof(U)) + "."; }
};
template <>
struct Vw<Pod> : VwObj<Pod>
{
};
template <>
struct Vw<NonPod8> : VwObj<NonPod8>
{
};
template <>
struct Vw<NonPod16> : VwObj<NonPod16>
{
};
template <>
struct Vw<std::chrono::nanoseconds> : VwObj<std::chrono::nanoseconds>
{
};
template <>
struct Vw<std::chrono::seconds> : VwObj<std::chrono::seconds>
{
};
template <>
struct Vw<SysTime> : VwObj<SysTime>
{
};
template <>
struct Vw<NonPodStr>
{
  static std::string val(NonPodStr const&) { return "-"; }
};
template <>
struct Vw<quill::fs::path>
{
  static std::string val(quill::fs::path const& v)
  {
    std::string s = v.string();
    return "h" + hex(s.data(), s.size()) + ".";
  }
};

/** the value in a heap object, so that destroying it returns its memory (ASan) */
template <class T>
struct Holder
{
  T v;
};

/** recording sink: the formatted message exactly as the backend hands it over */
struct RecSink : quill::Sink
{
  std::vector<std::string> msgs;
  std::vector<std::string> statements;
  std::vector<std::string> named; // "key=value" of the named arguments, joined by 0x1f
  void write_log(quill::MacroMetadata const*, uint64_t, std::string_view, std::string_view, std::string const&,
                 std::string_view, quill::LogLevel, std::string_view, std::string_view,
                 std::vector<std::pair<std::string, std::string>> const* named_args, std::string_view msg, std::string_view stmt) override
  {
    msgs.emplace_back(msg);
    statements.emplace_back(stmt);
    std::string nv;
    if (named_args)
      for (auto const& kv : *named_args) nv += (nv.empty() ? "" : "\x1f") + kv.first + "=" + kv.second;
    named.emplace_back(std::move(nv));
  }
  void flush_sink() override {}
};

/** `check_printable_char` predicates: the library's default, one STRICTER inside printable ASCII, one LAXER outside it.
    The predicate is the user's input: the same function is given to BackendOptions and to the reference sanitiser. */
inline bool pred_default(unsigned char c) { return (c >= 0x20 && c <= 0x7e) || c == 0x0a; }
inline bool pred_strict(unsigned char c) { return pred_default(c) && c != '|' && c != '"' && c != '%'; }
inline bool pred_lax(unsigned char c) { return pred_default(c) || c == 0x09 || c >= 0x80; }
using RefPred = bool (*)(unsigned char);
inline RefPred& ref_pred()
{
  static RefPred p = pred_default;
  return p;
}
/** reference sanitiser of the oracle (independent of quill and of the Lean model): every byte the predicate rejects
    becomes \xHH, every other byte is kept */
inline std::string sanitize_ref(std::string const& s)
{
  std::string r;
  char buf[8];
  RefPred const ok = ref_pred();
  for (unsigned char c : s)
  {
    if (ok(c))
      r.push_back(static_cast<char>(c));
    else
    {
      std::snprintf(buf, sizeof(buf), "\\x%02X", c);
      r += buf;
    }
  }
  return r;
}
/** the predicate as a 256-bit table for the line protocol: bit `c % 8` of byte `c / 8` */
inline std::string pred_table(RefPred ok)
{
  unsigned char t[32] = {};
  for (int c = 0; c < 256; ++c)
    if (ok(static_cast<unsigned char>(c))) t[c / 8] = static_cast<unsigned char>(t[c / 8] | (1u << (c % 8)));
  return hex(t, sizeof(t));
}
} // namespace cs
