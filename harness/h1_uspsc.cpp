// H1 — the real quill::detail::UnboundedSPSCQueue under the atomic shim (C02; C09 for the unbounded queue).
//
//   h1_uspsc gen <seed> <traces> <ops-per-trace> <wStore> <wLoad> <rStore> <rLoad> <drain> <nextStore> <nextLoad> <rereads>
//   h1_uspsc replay <file> [the same 11 parameters, overriding the file's init line]
//
// Output: "init …" per trace, "op => observation" per API call, "ORACLE …" lines when the property itself fails
// on the real code, "ORDERS-SEEN …", "STATS …". See h1_spsc.cpp for the conventions.
#include <algorithm>
#include <atomic>
#include <cassert>
#include <cerrno>
#include <cstddef>
#include <cstdint>
#include <cstdio>
#include <cstdlib>
#include <cstring>
#include <deque>
#include <exception>
#include <fstream>
#include <functional>
#include <iostream>
#include <limits>
#include <map>
#include <memory>
#include <random>
#include <sstream>
#include <string>
#include <string_view>
#include <type_traits>
#include <vector>
#include <sys/mman.h>
#include <unistd.h>

#include "vshim.h"
namespace std
{
template <class T>
using verif_atomic = vshim::atomic<T>;
}
#define atomic verif_atomic
#include "quill/core/UnboundedSPSCQueue.h"
#undef atomic

using vshim::world;
using UQ = quill::detail::UnboundedSPSCQueue;

static uint64_t g_oracle_violations = 0;
static std::map<std::string, uint64_t> g_stats;
static std::string g_orders_seen[7] = {"-", "-", "-", "-", "-", "-", "-"}; // wStore wLoad rStore rLoad nextStore nextLoad(prepare_read) nextLoad(empty)

static uint8_t stamp(uint64_t node, uint64_t abs_pos) { return static_cast<uint8_t>((abs_pos * 131u + node * 17u + 7u) & 0xffu); }

struct Rng
{
  uint64_t s;
  explicit Rng(uint64_t seed) : s(seed * 0x9E3779B97F4A7C15ull + 0x7654321ull) {}
  uint64_t next()
  {
    s ^= s << 13;
    s ^= s >> 7;
    s ^= s << 17;
    return s;
  }
  uint64_t below(uint64_t n) { return n ? next() % n : 0; }
  bool chance(unsigned pct) { return below(100) < pct; }
};

struct NodeShadow
{
  void* ptr{nullptr};
  uint64_t cap{0};
  std::byte* base{nullptr};
  std::vector<uint64_t> wEpoch, rEpoch;
  uint64_t abs_w{0}, abs_r{0};
  int wpos_loc{-1}, rpos_loc{-1}, next_loc{-1};
  bool deleted{false};
};

struct Rec
{
  size_t node;
  uint64_t start;
  uint64_t n;
};

struct Runner
{
  std::unique_ptr<UQ> q;
  std::string id;
  uint64_t max_cap{0};
  std::vector<NodeShadow> nodes;
  std::deque<Rec> fifo;
  size_t pnode{0}, cnode{0};
  bool have_grant{false};
  uint64_t grant_n{0};
  std::byte* grant_ptr{nullptr};
  bool reading{false};
  uint64_t read_n{0};
  uint64_t line_no{0};
  bool consumer_committed{true}, producer_committed{true};

  std::vector<std::string> pending_oracles; // printed after the current op line is complete
  void oracle(std::string const& what)
  {
    ++g_oracle_violations;
    pending_oracles.push_back("ORACLE " + what + " trace=" + id + " after-line=" + std::to_string(line_no));
  }
  void flush_oracles()
  {
    for (auto const& o : pending_oracles) { std::cout << o << "\n"; }
    pending_oracles.clear();
  }

  size_t track_node(void* p)
  {
    for (size_t i = 0; i < nodes.size(); ++i)
    {
      if (!nodes[i].deleted && nodes[i].ptr == p) { return i; }
    }
    auto* n = static_cast<UQ::Node*>(p);
    NodeShadow s;
    s.ptr = p;
    s.cap = n->bounded_queue._capacity;
    s.base = n->bounded_queue._storage;
    s.wEpoch.assign(2 * s.cap, 0);
    s.rEpoch.assign(2 * s.cap, 0);
    s.wpos_loc = n->bounded_queue._atomic_writer_pos.id();
    s.rpos_loc = n->bounded_queue._atomic_reader_pos.id();
    s.next_loc = n->next.id();
    world().set_owner(s.wpos_loc, 0);
    world().set_owner(s.rpos_loc, 1);
    world().set_owner(s.next_loc, 0);
    // a node constructed by the producer: its initial memory is written at the producer's current epoch
    if (world().actor == 0) { std::fill(s.wEpoch.begin(), s.wEpoch.end(), world().epoch[0]); }
    nodes.push_back(std::move(s));
    return nodes.size() - 1;
  }

  void init(std::string const& trace_id, uint64_t cap, uint64_t maxc, std::string const par[11])
  {
    world().reset();
    id = trace_id;
    max_cap = maxc;
    nodes.clear();
    fifo.clear();
    have_grant = reading = false;
    consumer_committed = producer_committed = true;
    line_no = 0;
    q = std::make_unique<UQ>(cap, maxc);
    pnode = cnode = track_node(q->_producer);
    uint64_t const batch_pct = 5;
    std::cout << "init " << id << " " << nodes[0].cap << " " << maxc << " " << batch_pct;
    for (int i = 0; i < 11; ++i) { std::cout << " " << par[i]; }
    std::cout << "\n";
  }

  void note_orders()
  {
    for (auto const& a : world().log)
    {
      int slot = -1;
      for (auto const& n : nodes)
      {
        if (a.is_store && a.order == static_cast<int>(std::memory_order_seq_cst) && a.value == 0 &&
            (a.loc_id == n.wpos_loc || a.loc_id == n.rpos_loc))
        {
          continue; // the constructor's initialising stores of a node that is not yet published
        }
        if (a.loc_id == n.wpos_loc) { slot = a.is_store ? 0 : 1; }
        else if (a.loc_id == n.rpos_loc)
        {
          if (a.is_store) { slot = 2; }
          else if (a.actor == 0) { slot = 3; }
        }
        else if (a.loc_id == n.next_loc) { slot = a.is_store ? 4 : 5; }
      }
      if (slot == 5 && m_in_empty) { slot = 6; }
      if (slot >= 0)
      {
        std::string const nm = vshim::order_name(a.order);
        if (g_orders_seen[slot] == "-") { g_orders_seen[slot] = nm; }
        else if (g_orders_seen[slot] != nm) { g_orders_seen[slot] = "mixed"; }
      }
      if (!a.is_store && a.stale) { ++g_stats["stale_loads"]; }
    }
    for (auto const& f : world().faults) { oracle("shim-fault " + f); }
    world().faults.clear();
  }
  bool m_in_empty{false};

  std::string pub_obs(int loc) const
  {
    for (auto const& a : world().log)
    {
      if (a.is_store && a.loc_id == loc) { return "pub " + std::to_string(a.value); }
    }
    return "nopub";
  }

  // ---- producer ----------------------------------------------------------------------------------
  void prepare_write(uint64_t n, int k)
  {
    flush_oracles();
    ++line_no;
    world().begin_call(0, {k, 0, 0});
    std::byte* p = nullptr;
    bool threw = false;
    try
    {
      p = q->prepare_write(n);
    }
    catch (quill::QuillError const&)
    {
      threw = true;
    }
    size_t const before = pnode;
    if (q->_producer != nodes[pnode].ptr || nodes[pnode].deleted) { pnode = track_node(q->_producer); }
    note_orders();
    std::cout << "pw " << n << " " << k << " => ";
    if (threw)
    {
      std::cout << "throw\n";
      have_grant = false;
      ++g_stats["throws"];
      if (n <= max_cap) { oracle("throws-for-record-within-max n=" + std::to_string(n)); }
      return;
    }
    if (pnode != before)
    {
      std::cout << "grow " << nodes[pnode].cap << " ";
      ++g_stats["grows"];
      if (nodes[pnode].cap > max_cap) { oracle("allocated-beyond-max cap=" + std::to_string(nodes[pnode].cap)); }
      // C02 "when growing would exceed the maximum the reservation fails": a reservation that does not fit is answered
      // by a LARGER buffer or not at all (a buffer of the same or a smaller size is only ever created by shrink());
      // chaining same-size buffers is an unbounded backlog under another name
      uint64_t const old_cap = nodes[before].cap;
      if (nodes[pnode].cap <= old_cap)
      {
        oracle("grow-allocated-no-larger-buffer from=" + std::to_string(old_cap) + " to=" + std::to_string(nodes[pnode].cap) +
               " max=" + std::to_string(max_cap) + " n=" + std::to_string(n));
      }
      else if (2 * old_cap > max_cap)
      {
        oracle("allocated-although-growing-exceeds-max from=" + std::to_string(old_cap) + " to=" +
               std::to_string(nodes[pnode].cap) + " max=" + std::to_string(max_cap) + " n=" + std::to_string(n));
      }
    }
    if (!p)
    {
      std::cout << "null\n";
      have_grant = false;
      ++g_stats["denies"];
      if (n > max_cap) { oracle("no-error-for-record-over-max n=" + std::to_string(n)); }
      if (k == 0 && n <= max_cap && fifo.empty() && !reading && consumer_committed && producer_committed)
      {
        bool const pow2 = (max_cap & (max_cap - 1)) == 0;
        oracle(std::string{"unbounded-drained-refuses class="} + (pow2 ? "pow2-max" : "non-pow2-max") +
               " n=" + std::to_string(n) + " cap=" + std::to_string(nodes[pnode].cap) + " max=" + std::to_string(max_cap));
      }
      return;
    }
    NodeShadow& nd = nodes[pnode];
    uint64_t const off = static_cast<uint64_t>(p - nd.base);
    std::cout << "grant " << pnode << " " << off << "\n";
    ++g_stats["grants"];
    have_grant = true;
    grant_n = n;
    grant_ptr = p;
    if (off + n > 2 * nd.cap) { oracle("record-outside-storage off=" + std::to_string(off) + " n=" + std::to_string(n)); }
    if (n > nd.cap) { oracle("granted-more-than-capacity n=" + std::to_string(n)); }
  }

  void finish_write(uint64_t n)
  {
    flush_oracles();
    ++line_no;
    world().begin_call(0);
    NodeShadow& nd = nodes[pnode];
    if (have_grant && n == grant_n && n >= 1)
    {
      uint64_t const off = static_cast<uint64_t>(grant_ptr - nd.base);
      if (off + n <= 2 * nd.cap)
      {
        for (uint64_t j = 0; j < n; ++j)
        {
          uint64_t const c = off + j;
          if (nd.rEpoch[c] > world().view[0]) { oracle("race-write-vs-read node=" + std::to_string(pnode) + " cell=" + std::to_string(c)); }
          nd.wEpoch[c] = world().epoch[0];
          uint8_t b = stamp(pnode, nd.abs_w + j);
          if (j == 0) { b = static_cast<uint8_t>(n & 0xff); }
          if (j == 1) { b = static_cast<uint8_t>((n >> 8) & 0xff); }
          if (j == 2) { b = static_cast<uint8_t>((n >> 16) & 0xff); }
          grant_ptr[j] = static_cast<std::byte>(b);
        }
      }
      fifo.push_back(Rec{pnode, nd.abs_w, n});
      nd.abs_w += n;
    }
    q->finish_write(n);
    note_orders();
    have_grant = false;
    producer_committed = false;
    std::cout << "fw " << n << " => ok\n";
  }

  void commit_write()
  {
    flush_oracles();
    ++line_no;
    world().begin_call(0);
    q->commit_write();
    producer_committed = true;
    std::string const o = pub_obs(nodes[pnode].wpos_loc);
    note_orders();
    std::cout << "cw => " << o << "\n";
  }

  void shrink(uint64_t c)
  {
    flush_oracles();
    ++line_no;
    world().begin_call(0);
    size_t const before = pnode;
    q->shrink(c);
    if (q->_producer != nodes[pnode].ptr) { pnode = track_node(q->_producer); }
    note_orders();
    std::cout << "sh " << c << " => ";
    if (pnode != before)
    {
      std::cout << "shrunk " << nodes[pnode].cap << "\n";
      ++g_stats["shrinks"];
      if (nodes[pnode].cap >= nodes[before].cap) { oracle("shrink-did-not-reduce-capacity"); }
    }
    else { std::cout << "noshrink\n"; }
  }

  // ---- consumer ----------------------------------------------------------------------------------
  // one `prepare_read()` of the real queue with all its checks; appends the observation to `out`.
  // Returns true iff the call switched to the next node and found nothing there; in that case, when `follow` is set,
  // the trailing "null" is NOT appended (the caller looks again, as BackendWorker::_read_unbounded_frontend_queue does).
  bool read_core(std::string& out, bool follow)
  {
    size_t const before = cnode;
    auto const rr = q->prepare_read();
    bool switched = false;
    if (q->_consumer != nodes[cnode].ptr)
    {
      switched = true;
      nodes[cnode].deleted = true;
      // every byte the producer wrote into the retired node must happen-before the delete
      NodeShadow const& old = nodes[cnode];
      for (uint64_t c = 0; c < 2 * old.cap; ++c)
      {
        if (old.wEpoch[c] > world().view[1])
        {
          oracle("delete-races-with-producer-write node=" + std::to_string(cnode));
          break;
        }
      }
      cnode = track_node(q->_consumer);
    }
    note_orders();
    if (switched)
    {
      ++g_stats["switches"];
      out += "switch " + std::to_string(rr.previous_capacity) + " " + std::to_string(rr.new_capacity) + " ";
      if (!rr.allocation) { oracle("switch-not-reported-as-allocation"); }
      // anything still unread in the old node is lost
      if (!fifo.empty() && fifo.front().node == before)
      {
        oracle("records-abandoned-in-retired-node node=" + std::to_string(before) + " first-lost-start=" + std::to_string(fifo.front().start));
        while (!fifo.empty() && fifo.front().node == before) { fifo.pop_front(); }
      }
    }
    std::byte* p = rr.read_pos;
    if (!p)
    {
      reading = false;
      if (switched && follow) { return true; }
      out += "null";
      return switched;
    }
    NodeShadow& nd = nodes[cnode];
    uint64_t const off = static_cast<uint64_t>(p - nd.base);
    out += "read " + std::to_string(cnode) + " " + std::to_string(off);
    reading = true;
    if (fifo.empty())
    {
      oracle("read-offered-but-nothing-finished off=" + std::to_string(off));
      reading = false;
      read_n = 0;
      return false;
    }
    Rec const want = fifo.front();
    uint64_t n = 0;
    if (off + 3 <= 2 * nd.cap)
    {
      n = static_cast<uint64_t>(static_cast<uint8_t>(p[0]));
      if (want.n >= 2) { n |= (static_cast<uint64_t>(static_cast<uint8_t>(p[1])) << 8); }
      if (want.n >= 3) { n |= (static_cast<uint64_t>(static_cast<uint8_t>(p[2])) << 16); }
    }
    if (want.node != cnode) { oracle("fifo-node-mismatch reading-node=" + std::to_string(cnode) + " expected-node=" + std::to_string(want.node)); }
    if (n != want.n)
    {
      oracle("record-length-mismatch decoded=" + std::to_string(n) + " expected=" + std::to_string(want.n));
      n = want.n;
    }
    if (want.node == cnode && want.start != nd.abs_r) { oracle("fifo-position-mismatch"); }
    bool raced = false, torn = false;
    for (uint64_t j = 0; j < n && off + j < 2 * nd.cap; ++j)
    {
      uint64_t const c = off + j;
      if (nd.wEpoch[c] > world().view[1]) { raced = true; }
      nd.rEpoch[c] = world().epoch[1];
      if (j >= 3 && static_cast<uint8_t>(p[j]) != stamp(cnode, nd.abs_r + j)) { torn = true; }
    }
    if (raced) { oracle("race-read-vs-write node=" + std::to_string(cnode) + " off=" + std::to_string(off)); }
    if (torn) { oracle("payload-mismatch node=" + std::to_string(cnode) + " off=" + std::to_string(off)); }
    read_n = n;
    ++g_stats["reads"];
    return false;
  }

  void prepare_read(int k1, int k2, int k3, int k4)
  {
    flush_oracles();
    ++line_no;
    world().begin_call(1, {k1, k2, k3, k4});
    std::string out;
    read_core(out, false);
    std::cout << "pr " << k1 << " " << k2 << " " << k3 << " " << k4 << " => " << out << "\n";
  }

  // the backend's read of one unbounded frontend queue (BackendWorker::_read_unbounded_frontend_queue): prepare_read();
  // when it moved to the next buffer and found it empty, look again (`follow`, the repair of finding F25; follow = 0 is
  // the rule as found). Newest loads. Oracle (C05): with the repair the answer must not be "nothing" while a
  // committed record is unread.
  void read_pass(bool follow)
  {
    flush_oracles();
    ++line_no;
    std::string out;
    for (size_t guard = 0; guard < nodes.size() + 64; ++guard)
    {
      world().begin_call(1);
      if (!read_core(out, follow) || !follow) { break; }
    }
    ++g_stats["read_passes"];
    std::cout << "rp " << (follow ? 1 : 0) << " => " << out << "\n";
    if (follow && !reading && producer_committed && !fifo.empty())
    {
      oracle("read-pass-answers-nothing-with-committed-unread-record node=" + std::to_string(fifo.front().node) +
             " consumer-node=" + std::to_string(cnode));
    }
    if (!reading && !fifo.empty() && producer_committed) { ++g_stats["read_pass_null_with_pending"]; }
  }

  void finish_read(uint64_t n)
  {
    flush_oracles();
    ++line_no;
    world().begin_call(1);
    q->finish_read(n);
    note_orders();
    if (!fifo.empty() && reading && n == read_n)
    {
      fifo.pop_front();
      nodes[cnode].abs_r += n;
    }
    reading = false;
    consumer_committed = false;
    std::cout << "fr " << n << " => ok\n";
  }

  void commit_read()
  {
    flush_oracles();
    ++line_no;
    world().begin_call(1);
    q->commit_read();
    consumer_committed = true;
    std::string const o = pub_obs(nodes[cnode].rpos_loc);
    note_orders();
    std::cout << "cr => " << o << "\n";
  }

  void empty(int k1, int k2)
  {
    flush_oracles();
    ++line_no;
    world().begin_call(1, {k1, k2});
    m_in_empty = true;
    bool const e = q->empty();
    note_orders();
    m_in_empty = false;
    std::cout << "em " << k1 << " " << k2 << " => empty " << (e ? 1 : 0) << "\n";
  }

  // ---- generator ---------------------------------------------------------------------------------
  int stale_choice(Rng& rng) { return rng.chance(70) ? 0 : 1 + static_cast<int>(rng.below(3)); }

  void producer_step(Rng& rng)
  {
    if (have_grant)
    {
      finish_write(grant_n);
      if (rng.chance(90)) { commit_write(); }
      return;
    }
    NodeShadow const& nd = nodes[pnode];
    uint64_t const cap = nd.cap;
    if (producer_committed && rng.chance(6))
    {
      uint64_t const cs[] = {cap / 2, cap / 4, cap, cap / 2 + 1, 3, cap / 2 - 1};
      uint64_t c = cs[rng.below(6)];
      if (c < 4) { c = 4; }
      shrink(c);
      return;
    }
    uint64_t const used = nd.abs_w - (pnode == cnode ? nd.abs_r : 0);
    uint64_t const free_true = cap > used ? cap - used : 0;
    uint64_t n;
    switch (rng.below(12))
    {
    case 0: n = free_true; break;
    case 1: n = free_true + 1; break;
    case 2: n = cap; break;
    case 3: n = cap + 1; break;
    case 4: n = 2 * cap; break;
    case 5: n = max_cap; break;
    case 6: n = max_cap + 1; break;
    case 7: n = 2 * cap + 1; break;
    default: n = 3 + rng.below(std::max<uint64_t>(3, cap / 3)); break;
    }
    if (n < 3) { n = 3; }
    if (n > (1u << 22)) { n = 1u << 22; }
    if (!producer_committed && rng.chance(80)) { commit_write(); }
    prepare_write(n, stale_choice(rng));
  }

  void consumer_step(Rng& rng)
  {
    if (reading)
    {
      finish_read(read_n);
      if (rng.chance(85)) { commit_read(); }
      return;
    }
    if (rng.chance(8)) { empty(stale_choice(rng), stale_choice(rng)); return; }
    if (rng.chance(12)) { read_pass(true); return; }
    prepare_read(stale_choice(rng), stale_choice(rng), stale_choice(rng), stale_choice(rng));
  }

  // F25 window: a shrink leaves an empty node behind, the next record does not fit it and goes to a third node;
  // the read pass must follow the chain past the empty node
  void f25_block(Rng& rng)
  {
    if (have_grant || reading || !producer_committed) { return; }
    uint64_t const cap = nodes[pnode].cap;
    if (cap < 16) { return; }
    shrink(cap / 2);
    prepare_write(rng.chance(50) ? cap : cap / 2 + 1 + rng.below(cap / 2), 0);
    if (have_grant)
    {
      finish_write(grant_n);
      commit_write();
    }
    read_pass(true);
    if (reading)
    {
      finish_read(read_n);
      commit_read();
    }
  }

  void generate(Rng& rng, unsigned nops)
  {
    unsigned phase_len = 0;
    unsigned p_bias = 50;
    if (rng.chance(50)) { f25_block(rng); }
    for (unsigned i = 0; i < nops; ++i)
    {
      if (phase_len == 0)
      {
        phase_len = 5 + static_cast<unsigned>(rng.below(40));
        unsigned const r = static_cast<unsigned>(rng.below(4));
        p_bias = r == 0 ? 80 : r == 1 ? 20 : 50;
      }
      --phase_len;
      if (rng.chance(2)) { f25_block(rng); continue; }
      if (rng.chance(p_bias)) { producer_step(rng); }
      else { consumer_step(rng); }
    }
    if (have_grant) { finish_write(grant_n); }
    commit_write();
    for (int guard = 0, nulls = 0; guard < 100000 && nulls < 3; ++guard)
    {
      prepare_read(0, 0, 0, 0);
      if (!reading)
      {
        // a switch onto an empty node may be followed by further nodes
        if (fifo.empty()) { ++nulls; }
        else if (++nulls > static_cast<int>(nodes.size()) + 3) { break; }
        continue;
      }
      nulls = 0;
      finish_read(read_n);
      commit_read();
    }
    if (!fifo.empty()) { oracle("records-left-after-drain count=" + std::to_string(fifo.size())); }
    // drained probe (C09 for the unbounded queue)
    uint64_t const probes[] = {nodes[pnode].cap, max_cap, 3 + rng.below(nodes[pnode].cap)};
    for (uint64_t n : probes)
    {
      if (n > (1u << 22) || n < 3) { continue; }
      prepare_write(n, 0);
      if (have_grant)
      {
        finish_write(n);
        commit_write();
        prepare_read(0, 0, 0, 0);
        if (reading) { finish_read(read_n); commit_read(); }
        prepare_read(0, 0, 0, 0);
        if (reading) { finish_read(read_n); commit_read(); }
      }
    }
  }

  void replay_op(std::vector<std::string> const& w)
  {
    auto num = [&](size_t i) { return i < w.size() ? std::stoull(w[i]) : 0ull; };
    if (w[0] == "pw") { prepare_write(num(1), static_cast<int>(num(2))); }
    else if (w[0] == "fw") { if (have_grant) { finish_write(grant_n); } else { std::cout << "# skipped fw (no grant)\n"; } }
    else if (w[0] == "cw") { commit_write(); }
    else if (w[0] == "sh") { shrink(num(1)); }
    else if (w[0] == "pr") { prepare_read(static_cast<int>(num(1)), static_cast<int>(num(2)), static_cast<int>(num(3)), static_cast<int>(num(4))); }
    else if (w[0] == "fr") { if (reading) { finish_read(read_n); } else { std::cout << "# skipped fr (nothing offered)\n"; } }
    else if (w[0] == "cr") { commit_read(); }
    else if (w[0] == "em") { empty(static_cast<int>(num(1)), static_cast<int>(num(2))); }
    else if (w[0] == "rp") { read_pass(num(1) != 0); }
    else { std::cout << "BAD-REPLAY-OP " << w[0] << "\n"; }
  }
};

static std::vector<std::string> split_ws(std::string const& s)
{
  std::istringstream is(s);
  std::vector<std::string> out;
  std::string t;
  while (is >> t) { out.push_back(t); }
  return out;
}

static void print_tail()
{
  std::cout << "ORDERS-SEEN";
  for (auto const& o : g_orders_seen) { std::cout << " " << o; }
  std::cout << "\nSTATS";
  for (auto const& kv : g_stats) { std::cout << " " << kv.first << "=" << kv.second; }
  std::cout << " oracle_violations=" << g_oracle_violations << "\n";
}

int main(int argc, char** argv)
{
  std::ios::sync_with_stdio(false);
  if (argc >= 16 && std::string{argv[1]} == "gen")
  {
    uint64_t const seed = std::stoull(argv[2]);
    unsigned const traces = static_cast<unsigned>(std::stoul(argv[3]));
    unsigned const nops = static_cast<unsigned>(std::stoul(argv[4]));
    std::string par[11];
    for (int i = 0; i < 11; ++i) { par[i] = argv[5 + i]; }
    Rng rng(seed);
    for (unsigned t = 0; t < traces; ++t)
    {
      uint64_t const caps[] = {16, 32, 64, 128, 1024};
      uint64_t const cap = caps[rng.below(5)];
      uint64_t maxc;
      switch (rng.below(8))
      {
      case 0: maxc = cap; break;
      case 1: maxc = cap * 2; break;
      case 2: maxc = cap * 4; break;
      case 3: maxc = cap * 16; break;
      case 4: maxc = cap * 3; break;      // not a power of two (finding F10 class)
      case 5: maxc = cap * 4 - 1; break;  // not a power of two
      default: maxc = 1u << 20; break;
      }
      Runner r;
      r.init("u" + std::to_string(seed) + "t" + std::to_string(t), cap, maxc, par);
      r.generate(rng, nops);
      r.flush_oracles();
    }
    print_tail();
    return g_oracle_violations ? 3 : 0;
  }
  if (argc >= 3 && std::string{argv[1]} == "replay")
  {
    std::ifstream in(argv[2]);
    std::string line;
    std::unique_ptr<Runner> r;
    while (std::getline(in, line))
    {
      auto const arrow = line.find(" => ");
      if (arrow != std::string::npos) { line = line.substr(0, arrow); }
      auto w = split_ws(line);
      if (w.empty() || w[0][0] == '#') { continue; }
      if (w[0] == "init" && w.size() >= 16)
      {
        std::string par[11];
        for (int i = 0; i < 11; ++i) { par[i] = (argc >= 14) ? argv[3 + i] : w[5 + i]; }
        if (r) { r->flush_oracles(); }
        r = std::make_unique<Runner>();
        r->init(w[1], std::stoull(w[2]), std::stoull(w[3]), par);
        continue;
      }
      if (r) { r->replay_op(w); }
    }
    if (r) { r->flush_oracles(); }
    print_tail();
    return g_oracle_violations ? 3 : 0;
  }
  std::cerr << "usage: h1_uspsc gen <seed> <traces> <ops> <11 params> | replay <file> [11 params]\n";
  return 2;
}
