// N-thread variant of the atomic shim (vshim.h is the two-actor one used by the queue harnesses).
//
// Replacement for std::atomic under a view-based release/acquire + relaxed semantics with cooperative threads:
//  * every access by a scheduled thread is a *scheduling point*: the thread parks before the access and the
//    scheduler (the harness main thread) decides who moves next and, for a load, how stale the result is
//    (`choice` k = the k-th older store, clamped at the thread's coherence floor for that location);
//  * every location keeps its whole store history (modification order = the order in which the scheduler let the
//    stores happen); `view[t][loc]` is the index of the newest store of `loc` that thread t has observed or that
//    happens-before its next action; a load may return any store at or above that floor;
//  * a release store (and, continuing the release sequence, a read-modify-write on top of it) carries the writer's
//    vector clock and view; an acquire load / read-modify-write that reads such a store joins them — relaxed accesses
//    transfer the value only;
//  * read-modify-writes read the newest store (atomicity);
//  * `Plain` is a happens-before race detector for ordinary (non-atomic) data the harness observes;
//  * exactly one thread runs at a time (real std::threads passing a baton: sanitizer-friendly).
#pragma once
#include <atomic>
#include <condition_variable>
#include <cstdint>
#include <cstdio>
#include <cstdlib>
#include <functional>
#include <memory>
#include <mutex>
#include <string>
#include <thread>
#include <vector>

namespace vmt
{
constexpr int MAXT = 6;

struct VC
{
  uint32_t c[MAXT]{};
  void join(VC const& o)
  {
    for (int i = 0; i < MAXT; ++i) { if (o.c[i] > c[i]) { c[i] = o.c[i]; } }
  }
};

using View = std::vector<uint32_t>; // indexed by location id
inline void view_join(View& a, View const& b)
{
  if (b.size() > a.size()) { a.resize(b.size(), 0); }
  for (size_t i = 0; i < b.size(); ++i) { if (b[i] > a[i]) { a[i] = b[i]; } }
}

struct Msg
{
  bool has{false};
  VC vc;
  View view;
};

struct Access
{
  bool valid{false};
  int loc{-1};
  char kind{'?'};      // L load, S store, X exchange
  int order{0};        // std::memory_order numeric value
  uint64_t value{0};   // value read (L, X) or written (S)
  uint64_t written{0}; // X: value written
  uint32_t idx{0};     // index of the store read (L, X) or created (S)
  uint32_t newest{0};  // newest index at the time of a load
  uint32_t floor{0};   // the thread's floor before a load
};

struct World
{
  int nthreads{0};
  int cur{-1}; // running thread, -1 = the scheduler / set-up code
  VC vc[MAXT];
  View view[MAXT];
  bool finished[MAXT]{};
  bool started[MAXT]{};
  std::thread th[MAXT];
  std::mutex m;
  std::condition_variable cv;
  int baton{-1};
  int choice{0};
  Access last;                     // the access performed first after the last resume (if any)
  Access pending[MAXT];            // what each parked thread is about to do (kind/loc only)
  std::vector<std::string> events; // emitted by the harness code of the running thread during the step
  std::vector<std::string> faults;
  int next_loc_id{0};
  uint64_t steps{0}, stale_loads{0};

  void reset(int n)
  {
    nthreads = n;
    cur = -1;
    baton = -1;
    choice = 0;
    next_loc_id = 0;
    last = Access{};
    events.clear();
    faults.clear();
    for (int t = 0; t < MAXT; ++t)
    {
      vc[t] = VC{};
      vc[t].c[t] = 1;
      view[t].clear();
      finished[t] = started[t] = false;
      pending[t] = Access{};
    }
  }

  uint32_t& floor_of(int t, int loc)
  {
    if (view[t].size() <= static_cast<size_t>(loc)) { view[t].resize(static_cast<size_t>(loc) + 1, 0); }
    return view[t][static_cast<size_t>(loc)];
  }

  // ---- baton ------------------------------------------------------------------------------------
  void spawn(int t, std::function<void()> fn)
  {
    started[t] = true;
    th[t] = std::thread(
      [this, t, fn]()
      {
        {
          std::unique_lock<std::mutex> lk(m);
          cv.wait(lk, [&] { return baton == t; });
        }
        fn();
        std::unique_lock<std::mutex> lk(m);
        finished[t] = true;
        pending[t] = Access{};
        baton = -1;
        cv.notify_all();
      });
  }
  /** scheduler: let thread t perform its pending access (with stale choice k) and run to its next scheduling point */
  void step(int t, int k)
  {
    std::unique_lock<std::mutex> lk(m);
    last = Access{};
    events.clear();
    choice = k;
    cur = t;
    baton = t;
    ++steps;
    cv.notify_all();
    cv.wait(lk, [&] { return baton == -1; });
    cur = -1;
  }
  /** running thread: give the baton back and wait for the next turn */
  void park(Access const& about_to)
  {
    std::unique_lock<std::mutex> lk(m);
    int const me = cur;
    pending[me] = about_to;
    baton = -1;
    cv.notify_all();
    cv.wait(lk, [&] { return baton == me; });
    pending[me] = Access{};
  }
  void join_all()
  {
    for (int t = 0; t < MAXT; ++t)
    {
      if (started[t] && th[t].joinable()) { th[t].join(); }
      started[t] = false;
    }
  }
};

inline World& world()
{
  static World w;
  return w;
}

inline bool is_acq(std::memory_order mo)
{
  return mo == std::memory_order_acquire || mo == std::memory_order_acq_rel ||
    mo == std::memory_order_seq_cst || mo == std::memory_order_consume;
}
inline bool is_rel(std::memory_order mo)
{
  return mo == std::memory_order_release || mo == std::memory_order_acq_rel || mo == std::memory_order_seq_cst;
}
inline char const* order_name(int mo)
{
  switch (static_cast<std::memory_order>(mo))
  {
  case std::memory_order_relaxed: return "relaxed";
  case std::memory_order_consume: return "consume";
  case std::memory_order_acquire: return "acquire";
  case std::memory_order_release: return "release";
  case std::memory_order_acq_rel: return "acq_rel";
  case std::memory_order_seq_cst: return "seq_cst";
  }
  return "?";
}

/** ordinary data watched by the harness: happens-before race detection on the accesses it is told about */
struct Plain
{
  std::string name;
  int lw{-1};
  uint32_t lwc{0};
  uint32_t rd[MAXT]{};
  explicit Plain(std::string n) : name(std::move(n)) {}
  void read(int t)
  {
    World& w = world();
    if (t < 0) { return; }
    if (lw >= 0 && lw != t && w.vc[t].c[lw] < lwc)
    {
      w.faults.push_back("data-race read-after-write " + name + " reader=" + std::to_string(t) + " writer=" + std::to_string(lw));
    }
    rd[t] = w.vc[t].c[t];
  }
  void write(int t)
  {
    World& w = world();
    if (t < 0) { return; }
    if (lw >= 0 && lw != t && w.vc[t].c[lw] < lwc)
    {
      w.faults.push_back("data-race write-after-write " + name + " writer=" + std::to_string(t) + " previous=" + std::to_string(lw));
    }
    for (int u = 0; u < MAXT; ++u)
    {
      if (u != t && rd[u] > w.vc[t].c[u])
      {
        w.faults.push_back("data-race write-after-read " + name + " writer=" + std::to_string(t) + " reader=" + std::to_string(u));
      }
    }
    lw = t;
    lwc = w.vc[t].c[t];
  }
};

template <typename T>
class atomic
{
public:
  struct Store
  {
    T v;
    int writer;
    Msg msg;
  };

  atomic() noexcept : atomic(T{}) {}
  atomic(T v) noexcept
  {
    _id = world().next_loc_id++;
    _hist.push_back(Store{v, -1, Msg{}});
  }
  atomic(atomic const&) = delete;
  atomic& operator=(atomic const&) = delete;

  void store(T v, std::memory_order mo = std::memory_order_seq_cst) noexcept
  {
    World& w = world();
    int const t = w.cur;
    if (t < 0)
    {
      // set-up code (happens-before every thread): becomes part of the initial state
      _hist.back().v = v;
      return;
    }
    Access a;
    a.loc = _id;
    a.kind = 'S';
    w.park(a);
    uint32_t const idx = static_cast<uint32_t>(_hist.size());
    w.floor_of(t, _id) = idx;
    Store s{v, t, Msg{}};
    if (is_rel(mo))
    {
      s.msg.has = true;
      s.msg.vc = w.vc[t];
      s.msg.view = w.view[t];
    }
    _hist.push_back(std::move(s));
    ++w.vc[t].c[t];
    a.valid = true;
    a.order = static_cast<int>(mo);
    a.value = static_cast<uint64_t>(v);
    a.idx = idx;
    w.last = a;
  }

  T load(std::memory_order mo = std::memory_order_seq_cst) const noexcept
  {
    World& w = world();
    int const t = w.cur;
    if (t < 0) { return _hist.back().v; }
    Access a;
    a.loc = _id;
    a.kind = 'L';
    w.park(a);
    uint32_t const newest = static_cast<uint32_t>(_hist.size() - 1);
    uint32_t& fl = w.floor_of(t, _id);
    uint32_t const floor = fl;
    uint32_t k = static_cast<uint32_t>(w.choice < 0 ? 0 : w.choice);
    uint32_t idx = k > newest ? 0 : newest - k;
    if (idx < floor) { idx = floor; }
    Store const& s = _hist[idx];
    fl = idx;
    if (is_acq(mo) && s.msg.has)
    {
      w.vc[t].join(s.msg.vc);
      view_join(w.view[t], s.msg.view);
    }
    if (idx != newest) { ++w.stale_loads; }
    a.valid = true;
    a.order = static_cast<int>(mo);
    a.value = static_cast<uint64_t>(s.v);
    a.idx = idx;
    a.newest = newest;
    a.floor = floor;
    w.last = a;
    return s.v;
  }

  operator T() const noexcept { return load(); }
  T operator=(T v) noexcept
  {
    store(v);
    return v;
  }

  T exchange(T v, std::memory_order mo = std::memory_order_seq_cst) noexcept
  {
    World& w = world();
    int const t = w.cur;
    if (t < 0)
    {
      T const old = _hist.back().v;
      _hist.back().v = v;
      return old;
    }
    Access a;
    a.loc = _id;
    a.kind = 'X';
    w.park(a);
    uint32_t const idx = static_cast<uint32_t>(_hist.size());
    Store const prev = _hist.back(); // a read-modify-write reads the newest store
    if (is_acq(mo) && prev.msg.has)
    {
      w.vc[t].join(prev.msg.vc);
      view_join(w.view[t], prev.msg.view);
    }
    w.floor_of(t, _id) = idx;
    Store s{v, t, Msg{}};
    if (prev.msg.has) { s.msg = prev.msg; } // continues the release sequence
    if (is_rel(mo))
    {
      s.msg.has = true;
      s.msg.vc.join(w.vc[t]);
      view_join(s.msg.view, w.view[t]);
    }
    _hist.push_back(std::move(s));
    ++w.vc[t].c[t];
    a.valid = true;
    a.order = static_cast<int>(mo);
    a.value = static_cast<uint64_t>(prev.v);
    a.written = static_cast<uint64_t>(v);
    a.idx = idx;
    w.last = a;
    return prev.v;
  }

  int id() const noexcept { return _id; }
  size_t history_size() const noexcept { return _hist.size(); }
  T newest() const noexcept { return _hist.back().v; }

private:
  std::vector<Store> _hist;
  int _id{0};
};
} // namespace vmt
