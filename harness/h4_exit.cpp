// H4 — process-level crash-point runner for C07 (DESIGN.md §3.1, §5 C07).
//
//   h4_exit run <casefile> <scratchdir> <jobs>
//
// One child process per case (at most <jobs> at a time). The child drives the REAL library: real backend thread
// (`quill::Backend::start`, with or without the built-in signal handler), a real FileSink writing
// <scratchdir>/c<id>.log, the real LOG_ macros on the main thread and on extra threads, then stops / restarts /
// returns from main / exits / is hit by a signal at the scripted point. Before every such action it reports through a
// pipe how many log calls of each thread had COMPLETED. The parent waits for the child (kills it after the case's
// limit and reports `hang`), reads the file from outside and prints one canonical line per case plus `ORACLE …` lines
// where the property itself fails on the real outcome.
//
// case line:  case <id> clock=<sys|tsc> lvl=<info|warning> logger=<0|1> reraise=<0|1> timeout=<s> limit=<s>
//                  threads=<spec;…|-> script=<op,op,…>
//   threads:  f<n> logs n statements and ends (joined at W) | a<n> logs n, stays alive (parked) |
//             c<n> keeps logging (paced, at most n) until the process ends
//   script (main thread): H start with signal handler | S plain start | I init_signal_handler only (no backend) |
//             L<n> log n statements | F flush_log | Z<ms> sleep | W wait for the f/a threads (join the f ones) |
//             X Backend::stop() + scan of the file | Q report is_running / thread id / handler's backend id |
//             M report signal masks of the backend and main threads |
//             sig:<SIG>:<raise|kill|fault|abort> | tsig:<t>:<SIG> (thread t raises, main parks) | texit:<t> |
//             bsig:<SIG> (raised on the backend thread, from a sink) | ret | exit
//             ksig:<SIG>:<any|m|t<k>|b|none>  process-directed kill(getpid(), SIG) with several threads; the handled signals
//                 are first blocked in every thread but: none blocked (any: the kernel chooses) | the main thread (m) |
//                 extra thread k (t<k>) | the backend thread, which a sink makes unblock it (b) | nobody (none: stays pending)
//   threads:  n0 = a thread that never logs and never preallocates (alive, parked)
//   wait=<0|1> (optional, default 1): BackendOptions::wait_for_queues_to_empty_before_exit
//   timing a signal against the backend / against a stop() in another thread (GateSink, first sink of the logger):
//             Gw  hold the backend inside the next write_log until a signal handler has been entered (+30 ms)
//             Gs  hold the backend inside the next write_log until a stop has been requested, and then inside the
//                 final flush of BackendWorker::_exit (= after its last look at the queues) until a handler was entered
//             Bw / Bf  wait until the backend is held in write_log / in that final flush
//             tstop:<t>  thread t calls Backend::stop(); the script goes on once the stop has been requested
//             tsigx:<t>:<SIG>  thread t logs 2 more statements now and raises SIG as soon as a stop has been requested
//                 (by the X / ret / exit that follows)
#include "quill/Backend.h"
#include "quill/Frontend.h"
#include "quill/LogMacros.h"
#include "quill/Logger.h"
#include "quill/sinks/FileSink.h"

#include <atomic>
#include <chrono>
#include <csignal>
#include <cstdarg>
#include <cstdio>
#include <cstdlib>
#include <cstring>
#include <execinfo.h>
#include <fcntl.h>
#include <fstream>
#include <map>
#include <poll.h>
#include <sstream>
#include <string>
#include <sys/prctl.h>
#include <sys/syscall.h>
#include <sys/wait.h>
#include <thread>
#include <unistd.h>
#include <vector>

using Clock = std::chrono::steady_clock;

static std::vector<std::string> split(std::string const& s, char sep)
{
  std::vector<std::string> out;
  std::string cur;
  for (char c : s)
  {
    if (c == sep) { out.push_back(cur); cur.clear(); }
    else cur.push_back(c);
  }
  out.push_back(cur);
  return out;
}

struct SigName { char const* name; int num; };
static SigName const SIGS[] = {{"SIGSEGV", SIGSEGV}, {"SIGABRT", SIGABRT}, {"SIGFPE", SIGFPE}, {"SIGILL", SIGILL},
                               {"SIGINT", SIGINT},   {"SIGTERM", SIGTERM}, {"SIGALRM", SIGALRM}, {"SIGUSR1", SIGUSR1}};
static int sig_num(std::string const& n)
{
  for (auto const& s : SIGS) if (n == s.name) return s.num;
  return 0;
}
static std::string sig_name(int n)
{
  for (auto const& s : SIGS) if (n == s.num) return s.name;
  return "SIG" + std::to_string(n);
}

struct ThreadSpec { char mode; int n; };

struct Case
{
  std::string line;   // the spec as given (echoed)
  std::string id;
  bool tsc{false};
  bool warning{false};
  bool logger{true};
  bool reraise{true};
  bool wait{true};
  unsigned timeout{120};
  double limit{120};
  std::vector<ThreadSpec> threads;
  std::vector<std::string> script;
};

static bool parse_case(std::string const& line, Case& c)
{
  std::istringstream is(line);
  std::string w;
  is >> w;
  if (w != "case") return false;
  is >> c.id;
  c.line = line;
  while (is >> w)
  {
    auto eq = w.find('=');
    if (eq == std::string::npos) return false;
    std::string k = w.substr(0, eq), v = w.substr(eq + 1);
    if (k == "clock") c.tsc = (v == "tsc");
    else if (k == "lvl") c.warning = (v == "warning");
    else if (k == "logger") c.logger = (v == "1");
    else if (k == "reraise") c.reraise = (v == "1");
    else if (k == "wait") c.wait = (v == "1");
    else if (k == "timeout") c.timeout = static_cast<unsigned>(atoi(v.c_str()));
    else if (k == "limit") c.limit = atof(v.c_str());
    else if (k == "threads")
    {
      if (v != "-")
        for (auto const& t : split(v, ';'))
          if (!t.empty()) c.threads.push_back({t[0], atoi(t.c_str() + 1)});
    }
    else if (k == "script") c.script = split(v, ',');
    else return false;
  }
  return !c.script.empty();
}

// =====================================================================================================
// child
// =====================================================================================================
namespace child
{
static constexpr int MAXT = 8;
static std::atomic<int> done_cnt[MAXT];      // completed log calls per thread (0 = main)
static std::atomic<int> phase_done[MAXT];    // the thread has logged its programme
static std::atomic<int> go_sig[MAXT];        // tsig / texit order for thread t (-1 = exit)
static std::atomic<int> quiesce{0};           // `c` threads stop logging (before a path that runs static destructors)
static std::atomic<int> quiet[MAXT];          // … and have acknowledged
static std::atomic<int> arm_sig[MAXT];        // tsigx: log 2 more, then raise this signal once a stop has been requested
static std::atomic<int> armed_ack[MAXT];      // … the 2 statements are logged
static std::atomic<int> gate_hold_write{0};   // 1: until a handler was entered, 2: until a stop was requested
static std::atomic<int> gate_hold_flush{0};   // 1: hold the first flush_sink after a stop request until a handler was entered
static std::atomic<int> gate_state{0};        // 0 free, 1 held in write_log, 2 held in flush_sink
static std::atomic<int> gate_timeouts{0};
static std::atomic<int> mask_cmd[MAXT];       // ksig: block the handled signals on thread t
static std::atomic<int> mask_ack[MAXT];
static std::atomic<int> backend_unblocked{0}; // ksig:…:b — the backend thread has unblocked the signal
static int report_fd = -1;
static quill::Logger* logger = nullptr;
static std::string log_path;
static int nthreads = 1;

static void report(char const* fmt, ...)
{
  char buf[512];
  va_list ap;
  va_start(ap, fmt);
  int n = vsnprintf(buf, sizeof(buf), fmt, ap);
  va_end(ap);
  if (n > 0) { ssize_t r = write(report_fd, buf, static_cast<size_t>(n)); (void)r; }
}

static void snap(int k)
{
  std::string s = "SNAP " + std::to_string(k) + " c=";
  for (int t = 0; t < nthreads; ++t) s += (t ? "," : "") + std::to_string(done_cnt[t].load());
  s += "\n";
  ssize_t r = write(report_fd, s.data(), s.size());
  (void)r;
}

static void log_one(int t)
{
  int id = done_cnt[t].load(std::memory_order_relaxed);
  LOG_ERROR(logger, "T{} {}", t, id);
  done_cnt[t].store(id + 1, std::memory_order_release);   // the call has returned
}

/** a sink that raises a signal on the backend thread when it sees the trigger statement */
class RaiseSink : public quill::Sink
{
public:
  explicit RaiseSink(int sig, bool do_raise = true) : _sig(sig), _raise(do_raise) {}
  void write_log(quill::MacroMetadata const*, uint64_t, std::string_view, std::string_view, std::string const&,
                 std::string_view, quill::LogLevel, std::string_view, std::string_view,
                 std::vector<std::pair<std::string, std::string>> const*, std::string_view log_message,
                 std::string_view) override
  {
    if (log_message.find("TRIGGER") != std::string_view::npos)
    {
      sigset_t s;
      sigemptyset(&s);
      sigaddset(&s, _sig);
      pthread_sigmask(SIG_UNBLOCK, &s, nullptr);
      if (_raise) raise(_sig);
      else backend_unblocked.store(1);
    }
  }
  void flush_sink() override {}
private:
  int _sig;
  bool _raise;
};

/** records on which thread the handler ran: the producer thread of the handler's notice (reported through the pipe) */
class WhoSink : public quill::Sink
{
public:
  void write_log(quill::MacroMetadata const*, uint64_t, std::string_view thread_id, std::string_view, std::string const&,
                 std::string_view, quill::LogLevel, std::string_view, std::string_view,
                 std::vector<std::pair<std::string, std::string>> const*, std::string_view log_message, std::string_view) override
  {
    if (log_message.rfind("Received signal:", 0) == 0)
      report("WHO %.*s\n", static_cast<int>(thread_id.size()), thread_id.data());
  }
  void flush_sink() override {}
};

/** holds the backend thread at a chosen point (see Gw / Gs) so that a signal or a stop() provably happens while the
    backend is in the middle of its work; never holds for more than 10 s */
class GateSink : public quill::Sink
{
public:
  static bool handler_entered() { return quill::detail::SignalHandlerContext::instance().lock.load() != 0; }
  static void hold(int state, bool until_stop)
  {
    gate_state.store(state);
    auto t0 = Clock::now();
    for (;;)
    {
      bool open = until_stop ? !quill::Backend::is_running() : handler_entered();
      if (open) break;
      if (Clock::now() - t0 > std::chrono::seconds{10}) { gate_timeouts.fetch_add(1); break; }
      std::this_thread::sleep_for(std::chrono::microseconds{100});
    }
    // the handler needs a few microseconds from its entry to its decision / its log calls: give it 30 ms
    if (!until_stop) std::this_thread::sleep_for(std::chrono::milliseconds{30});
    gate_state.store(0);
  }
  void write_log(quill::MacroMetadata const*, uint64_t, std::string_view, std::string_view, std::string const&,
                 std::string_view, quill::LogLevel, std::string_view, std::string_view,
                 std::vector<std::pair<std::string, std::string>> const*, std::string_view, std::string_view) override
  {
    int h = gate_hold_write.exchange(0);
    if (h) hold(1, h == 2);
  }
  void flush_sink() override
  {
    if (gate_hold_flush.load() && gate_hold_write.load() == 0 && !quill::Backend::is_running())
    {
      gate_hold_flush.store(0);
      hold(2, false);
    }
  }
};

/** per-thread ids found in the file so far: sets m[t] = count if the thread's ids are exactly 0..count-1 in order */
static bool scan_file(std::vector<int>& m)
{
  m.assign(static_cast<size_t>(nthreads), 0);
  bool ok = true;
  std::ifstream in(log_path);
  std::string ln;
  while (std::getline(in, ln))
  {
    int t = -1, id = -1;
    if (sscanf(ln.c_str(), "T%d %d", &t, &id) == 2 && t >= 0 && t < nthreads)
    {
      if (id != m[static_cast<size_t>(t)]) ok = false;
      m[static_cast<size_t>(t)] = id + 1;
    }
  }
  return ok;
}

static uint64_t sigblk_of(long tid)
{
  std::ifstream in("/proc/self/task/" + std::to_string(tid) + "/status");
  std::string ln;
  while (std::getline(in, ln))
    if (ln.rfind("SigBlk:", 0) == 0) return strtoull(ln.c_str() + 7, nullptr, 16);
  return ~0ull;
}
static uint64_t handled_mask()
{
  uint64_t m = 0;
  for (int s : {SIGSEGV, SIGABRT, SIGFPE, SIGILL, SIGINT, SIGTERM}) m |= 1ull << (s - 1);
  return m;
}

static void do_fault(int sig)
{
  if (sig == SIGSEGV) { *reinterpret_cast<volatile int*>(0) = 1; }
  else if (sig == SIGFPE) { volatile int z = 0; volatile int a = 12345; volatile int r = a / z; (void)r; }
  else if (sig == SIGILL) { __builtin_trap(); }
  else if (sig == SIGABRT) { abort(); }
  else raise(sig);
}

static void block_handled()
{
  sigset_t st;
  sigemptyset(&st);
  for (int sgn : {SIGSEGV, SIGABRT, SIGFPE, SIGILL, SIGINT, SIGTERM}) sigaddset(&st, sgn);
  pthread_sigmask(SIG_BLOCK, &st, nullptr);
}

static void thread_main(int t, ThreadSpec spec)
{
  report("TID %d %ld\n", t, static_cast<long>(syscall(SYS_gettid)));
  if (spec.mode == 'n')
  {
    // never logs, never preallocates: no thread context, no queue
    phase_done[t].store(1);
    for (;;)
    {
      if (mask_cmd[t].load() && !mask_ack[t].load()) { block_handled(); mask_ack[t].store(1); }
      std::this_thread::sleep_for(std::chrono::microseconds{200});
    }
  }
  quill::Frontend::preallocate();
  if (spec.mode == 'c')
  {
    phase_done[t].store(1);
    for (int i = 0; i < spec.n && !quiesce.load(); ++i)
    {
      log_one(t);
      std::this_thread::sleep_for(std::chrono::microseconds{100});
    }
    quiet[t].store(1);
    for (;;)
    {
      if (mask_cmd[t].load() && !mask_ack[t].load()) { block_handled(); mask_ack[t].store(1); }
      std::this_thread::sleep_for(std::chrono::microseconds{200});
    }
  }
  for (int i = 0; i < spec.n; ++i) log_one(t);
  phase_done[t].store(1);
  if (spec.mode == 'f') return;
  // alive: parked until told to raise / exit (or for ever)
  for (;;)
  {
    int g = go_sig[t].load();
    if (g > 0) { raise(g); report("CONT %d\n", 1000 + t); go_sig[t].store(0); }
    else if (g == -2) { quill::Backend::stop(); report("TSTOPPED %d\n", t); go_sig[t].store(0); }
    else if (g < 0) { std::exit(0); }
    if (mask_cmd[t].load() && !mask_ack[t].load()) { block_handled(); mask_ack[t].store(1); }
    int a = arm_sig[t].load();
    if (a > 0)
    {
      log_one(t);
      log_one(t);
      armed_ack[t].store(1);
      while (quill::Backend::is_running()) std::this_thread::sleep_for(std::chrono::microseconds{50});
      raise(a);
      report("CONT %d\n", 1000 + t);
      arm_sig[t].store(0);
    }
    std::this_thread::sleep_for(std::chrono::microseconds{200});
  }
}

/** diagnostics only: an abort that is not the scripted signal leaves its stack on stderr (kept in the replay file).
    Scripts that start with the signal handler replace this for SIGABRT; the message of assert/terminate/malloc is
    on stderr in every case. */
static void on_unexpected_abort(int sig)
{
  static char const msg[] = "h4_exit: SIGABRT in the child, stack:\n";
  ssize_t r = write(2, msg, sizeof(msg) - 1);
  (void)r;
  void* frames[48];
  int n = backtrace(frames, 48);
  backtrace_symbols_fd(frames, n, 2);
  signal(sig, SIG_DFL);
  raise(sig);
}

/** a `tsigx` signal fires inside the stop / exit that follows it; once the handler's flush has been served that stop
    returns, and the thread that called it must not race the signalled thread to the end of the process */
static void park_if_armed()
{
  for (int t = 0; t < MAXT; ++t)
    if (arm_sig[t].load() > 0) for (;;) pause();
}

static int run(Case const& c, std::string const& scratch, int fd)
{
  report_fd = fd;
  atexit(park_if_armed);   // registered first = runs after the library's own exit handler
  prctl(PR_SET_PDEATHSIG, SIGKILL);
  setenv("LIBC_FATAL_STDERR_", "1", 1);   // glibc's own fatal messages (malloc checks) go to stderr, not /dev/tty
  signal(SIGABRT, on_unexpected_abort);
  log_path = scratch + "/c" + c.id + ".log";
  {
    // keep the library's own diagnostics out of the canonical output
    std::string ep = scratch + "/c" + c.id + ".err";
    int efd = open(ep.c_str(), O_WRONLY | O_CREAT | O_TRUNC, 0644);
    if (efd >= 0) { dup2(efd, 2); dup2(efd, 1); close(efd); }
  }
  nthreads = 1 + static_cast<int>(c.threads.size());
  quill::BackendOptions bo;
  bo.wait_for_queues_to_empty_before_exit = c.wait;
  quill::SignalHandlerOptions so;
  so.timeout_seconds = c.timeout;
  quill::detail::SignalHandlerContext::instance().should_reraise_signal.store(c.reraise);

  int bsig = 0;
  bool gated = false, who = false, braise = true;
  for (auto const& op : c.script)
  {
    if (op.rfind("bsig:", 0) == 0) bsig = sig_num(op.substr(5));
    if (op.rfind("ksig:", 0) == 0)
    {
      who = true;
      auto parts = split(op, ':');
      if (parts.size() > 2 && parts[2] == "b") { bsig = sig_num(parts[1]); braise = false; }
    }
    if (op == "Gw" || op == "Gs") gated = true;
  }

  if (c.logger)
  {
    quill::FileSinkConfig cfg;
    cfg.set_open_mode('w');
    cfg.set_filename_append_option(quill::FilenameAppendOption::None);
    std::vector<std::shared_ptr<quill::Sink>> sinks;
    if (gated) sinks.push_back(quill::Frontend::create_or_get_sink<GateSink>("gate_sink"));
    sinks.push_back(quill::Frontend::create_or_get_sink<quill::FileSink>(log_path, cfg));
    if (bsig) sinks.push_back(quill::Frontend::create_or_get_sink<RaiseSink>("raise_sink", bsig, braise));
    if (who) sinks.push_back(quill::Frontend::create_or_get_sink<WhoSink>("who_sink"));
    logger = quill::Frontend::create_or_get_logger(
      "root", std::move(sinks), quill::PatternFormatterOptions{"%(message)"},
      c.tsc ? quill::ClockSourceType::Tsc : quill::ClockSourceType::System);
    if (c.warning) logger->set_log_level(quill::LogLevel::Warning);
    quill::Frontend::preallocate();
  }

  std::vector<std::thread*> thr(c.threads.size(), nullptr);
  bool threads_started = false;
  auto start_threads = [&]()
  {
    if (threads_started) return;
    threads_started = true;
    for (size_t i = 0; i < c.threads.size(); ++i)
      thr[i] = new std::thread(thread_main, static_cast<int>(i) + 1, c.threads[i]);
  };

  // exit() destroys the library's singletons (LoggerManager, ThreadContextManager, the sinks) while other threads keep
  // running. A thread that is then still inside a quill call — a log statement, its first call (which registers its
  // context), or its own exit (which invalidates the context) — races with that destruction: undefined behaviour of
  // any exit() with such threads ([basic.start.term]), seen here as rare heap-corruption aborts / hangs under load
  // (`malloc_consolidate(): unaligned fastbin chunk` in ~FileSink <- ~LoggerManager with a late-scheduled thread).
  // So before every path that ends in exit() — return from main, exit(), exit from a thread, SIGINT/SIGTERM through
  // the handler — all extra threads are brought to rest: `f` threads have ended and are joined, `a` threads have
  // finished their statements (they stay alive, parked outside the library), `c` threads have stopped logging.
  // Crashes (death by signal, no destructors) and stop()/start() still happen with threads in mid-flight.
  auto wait_threads = [&]()
  {
    if (!threads_started) return;
    for (size_t i = 0; i < c.threads.size(); ++i)
      while (!phase_done[i + 1].load()) std::this_thread::sleep_for(std::chrono::microseconds{100});
    for (size_t i = 0; i < c.threads.size(); ++i)
      if (c.threads[i].mode == 'f' && thr[i] && thr[i]->joinable()) thr[i]->join();
  };
  auto quiesce_threads = [&]()
  {
    quiesce.store(1);
    wait_threads();
    for (size_t i = 0; i < c.threads.size(); ++i)
      if (c.threads[i].mode == 'c' && threads_started)
        while (!quiet[i + 1].load()) std::this_thread::sleep_for(std::chrono::microseconds{100});
  };
  auto graceful = [](int sg) { return sg == SIGINT || sg == SIGTERM; };

  report("TID 0 %ld\n", static_cast<long>(syscall(SYS_gettid)));
  int k = 0;
  for (auto const& op : c.script)
  {
    ++k;
    if (op == "H") { quill::Backend::start<quill::FrontendOptions>(bo, so); start_threads(); }
    else if (op == "S") { quill::Backend::start(bo); start_threads(); }
    else if (op == "I") { quill::detail::init_signal_handler<quill::FrontendOptions>(so.catchable_signals); }
    else if (op[0] == 'L') { int n = atoi(op.c_str() + 1); for (int i = 0; i < n; ++i) log_one(0); }
    else if (op == "F") { logger->flush_log(); }
    else if (op[0] == 'Z') { std::this_thread::sleep_for(std::chrono::milliseconds{atoi(op.c_str() + 1)}); }
    else if (op == "W") { wait_threads(); }
    else if (op == "X")
    {
      bool was_running = quill::Backend::is_running();
      snap(k);
      quill::Backend::stop();
      park_if_armed();
      std::vector<int> m;
      bool ok = scan_file(m);
      std::string s = "STOPSCAN " + std::to_string(k) + " m=";
      for (size_t t = 0; t < m.size(); ++t) s += (t ? "," : "") + std::to_string(m[t]);
      report("%s ok=%d running=%d\n", s.c_str(), ok ? 1 : 0, was_running ? 1 : 0);
    }
    else if (op == "Gw") { gate_hold_write.store(1); }
    else if (op == "Gs") { gate_hold_flush.store(1); gate_hold_write.store(2); }
    else if (op == "Bw" || op == "Bf")
    {
      int want = op == "Bw" ? 1 : 2;
      auto t0 = Clock::now();
      bool ok = true;
      while (gate_state.load() != want)
      {
        if (Clock::now() - t0 > std::chrono::seconds{5}) { ok = false; break; }
        std::this_thread::sleep_for(std::chrono::microseconds{100});
      }
      if (!ok) report("SYNCFAIL %d\n", k);
    }
    else if (op.rfind("tstop:", 0) == 0)
    {
      int t = atoi(op.c_str() + 6);
      snap(k);
      go_sig[t].store(-2);
      auto t0 = Clock::now();
      while (quill::Backend::is_running())
      {
        if (Clock::now() - t0 > std::chrono::seconds{5}) { report("SYNCFAIL %d\n", k); break; }
        std::this_thread::sleep_for(std::chrono::microseconds{50});
      }
    }
    else if (op.rfind("tsigx:", 0) == 0)
    {
      auto parts = split(op, ':');
      int t = atoi(parts[1].c_str());
      arm_sig[t].store(sig_num(parts[2]));
      auto t0 = Clock::now();
      while (!armed_ack[t].load())
      {
        if (Clock::now() - t0 > std::chrono::seconds{5}) { report("SYNCFAIL %d\n", k); break; }
        std::this_thread::sleep_for(std::chrono::microseconds{100});
      }
    }
    else if (op == "Q")
    {
      report("Q %d %d/%d/%d\n", k, quill::Backend::is_running() ? 1 : 0, quill::Backend::get_thread_id() != 0 ? 1 : 0,
             quill::detail::SignalHandlerContext::instance().backend_thread_id.load() != 0 ? 1 : 0);
    }
    else if (op == "M")
    {
      uint32_t bt = quill::Backend::get_thread_id();
      uint64_t hm = handled_mask();
      uint64_t bb = bt ? sigblk_of(static_cast<long>(bt)) : 0;
      uint64_t mb = sigblk_of(static_cast<long>(syscall(SYS_gettid)));
      report("M %d %d/%d\n", k, (bt && (bb & hm) == hm) ? 1 : 0, (mb & hm) == 0 ? 1 : 0);
    }
    else if (op.rfind("sig:", 0) == 0)
    {
      auto parts = split(op, ':');
      int sg = sig_num(parts[1]);
      std::string how = parts.size() > 2 ? parts[2] : "raise";
      if (graceful(sg)) quiesce_threads();
      snap(k);
      if (how == "raise") raise(sg);
      else if (how == "kill") { kill(getpid(), sg); std::this_thread::sleep_for(std::chrono::milliseconds{20}); }
      else do_fault(sg);
      report("CONT %d\n", k);   // the handler returned and the program goes on
    }
    else if (op.rfind("ksig:", 0) == 0)
    {
      auto parts = split(op, ':');
      int sg = sig_num(parts[1]);
      std::string spec = parts.size() > 2 ? parts[2] : "any";
      if (graceful(sg)) quiesce_threads();
      wait_threads();
      if (spec == "b")
      {
        LOG_ERROR(logger, "TRIGGER");
        auto t0 = Clock::now();
        while (!backend_unblocked.load())
        {
          if (Clock::now() - t0 > std::chrono::seconds{5}) { report("SYNCFAIL %d\n", k); break; }
          std::this_thread::sleep_for(std::chrono::microseconds{100});
        }
      }
      int keep = (spec.size() > 1 && spec[0] == 't') ? atoi(spec.c_str() + 1) : -1;   // the only thread left unblocked
      if (spec != "any")
      {
        for (size_t i = 0; i < c.threads.size(); ++i)
        {
          if (static_cast<int>(i) + 1 == keep || c.threads[i].mode == 'f') continue;
          mask_cmd[i + 1].store(1);
          auto t0 = Clock::now();
          while (!mask_ack[i + 1].load())
          {
            if (Clock::now() - t0 > std::chrono::seconds{5}) { report("SYNCFAIL %d\n", k); break; }
            std::this_thread::sleep_for(std::chrono::microseconds{100});
          }
        }
        if (spec != "m") block_handled();
      }
      snap(k);
      kill(getpid(), sg);
      // delivered to this thread: the handler has run before kill() returns; to another one: give it time to end the process
      std::this_thread::sleep_for(std::chrono::milliseconds{spec == "none" ? 200 : 3000});
      report("CONT %d\n", k);
    }
    else if (op.rfind("tsig:", 0) == 0)
    {
      auto parts = split(op, ':');
      int t = atoi(parts[1].c_str());
      if (graceful(sig_num(parts[2]))) quiesce_threads();
      snap(k);
      go_sig[t].store(sig_num(parts[2]));
      while (go_sig[t].load() != 0) std::this_thread::sleep_for(std::chrono::microseconds{200});   // parked unless the raise returns
    }
    else if (op.rfind("dsig:", 0) == 0)
    {
      // two threads raise (different) signals at about the same time: one is the first entrant, the other parks
      auto parts = split(op, ':');
      int t = atoi(parts[1].c_str());
      int st = sig_num(parts[2]), sm = sig_num(parts[3]);
      int delay_us = parts.size() > 4 ? atoi(parts[4].c_str()) : 0;
      if (graceful(st) || graceful(sm)) quiesce_threads();
      snap(k);
      go_sig[t].store(st);
      auto until = Clock::now() + std::chrono::microseconds{delay_us};
      while (Clock::now() < until) {}
      raise(sm);
      report("CONT %d\n", k);
    }
    else if (op.rfind("texit:", 0) == 0)
    {
      int t = atoi(op.c_str() + 6);
      quiesce_threads();
      snap(k);
      go_sig[t].store(-1);
      for (;;) pause();
    }
    else if (op.rfind("bsig:", 0) == 0)
    {
      snap(k);
      LOG_ERROR(logger, "TRIGGER");
      // the backend thread raises while writing this statement; wait for the process to end
      std::this_thread::sleep_for(std::chrono::seconds{2});
      report("CONT %d\n", k);
    }
    else if (op == "park") { for (;;) pause(); }
    else if (op == "ret") { quiesce_threads(); snap(k); report("END %d\n", k); return 0; }
    else if (op == "exit") { quiesce_threads(); snap(k); report("END %d\n", k); std::exit(0); }
  }
  quiesce_threads();
  snap(k + 1);
  report("END %d\n", k + 1);
  return 0;
}
} // namespace child

// =====================================================================================================
// parent
// =====================================================================================================
struct Result
{
  std::string status;
  std::string pipe_text;
};

struct Running
{
  size_t idx;
  pid_t pid;
  int fd;
  Clock::time_point t0;
  std::string buf;
  bool killed{false};
};

static std::vector<int> ints(std::string const& s)
{
  std::vector<int> out;
  if (s.empty()) return out;
  for (auto const& x : split(s, ',')) out.push_back(atoi(x.c_str()));
  return out;
}
static std::string join(std::vector<int> const& v)
{
  std::string s;
  for (size_t i = 0; i < v.size(); ++i) s += (i ? "," : "") + std::to_string(v[i]);
  return v.empty() ? "-" : s;
}

int main(int argc, char** argv)
{
  if (argc < 5 || std::string(argv[1]) != "run")
  {
    fprintf(stderr, "usage: h4_exit run <casefile> <scratchdir> <jobs>\n");
    return 2;
  }
  std::string scratch = argv[3];
  size_t jobs = static_cast<size_t>(atoi(argv[4]));
  if (jobs < 1) jobs = 1;
  std::vector<Case> cases;
  {
    std::ifstream in(argv[2]);
    std::string ln;
    while (std::getline(in, ln))
    {
      if (ln.empty() || ln[0] == '#') continue;
      Case c;
      if (parse_case(ln, c)) cases.push_back(c);
      else printf("BAD-CASE %s\n", ln.c_str());
    }
  }
  std::vector<Result> results(cases.size());
  std::vector<Running> running;
  size_t next = 0;
  int n_hung = 0;
  fflush(stdout);
  while (next < cases.size() || !running.empty())
  {
    while (next < cases.size() && running.size() < jobs)
    {
      int p[2];
      if (pipe(p) != 0) { perror("pipe"); return 2; }
      fflush(stdout);
      pid_t pid = fork();
      if (pid < 0) { perror("fork"); return 2; }
      if (pid == 0)
      {
        close(p[0]);
        for (auto const& r : running) close(r.fd);
        return child::run(cases[next], scratch, p[1]);   // `ret` = a real return from main
      }
      close(p[1]);
      fcntl(p[0], F_SETFL, O_NONBLOCK);
      running.push_back({next, pid, p[0], Clock::now(), "", false});
      ++next;
    }
    std::vector<pollfd> pf;
    for (auto const& r : running) pf.push_back({r.fd, POLLIN, 0});
    poll(pf.data(), pf.size(), 20);
    for (size_t i = 0; i < running.size();)
    {
      Running& r = running[i];
      char buf[4096];
      ssize_t n;
      while ((n = read(r.fd, buf, sizeof(buf))) > 0) r.buf.append(buf, static_cast<size_t>(n));
      int st = 0;
      pid_t w = waitpid(r.pid, &st, WNOHANG);
      if (w == r.pid)
      {
        while ((n = read(r.fd, buf, sizeof(buf))) > 0) r.buf.append(buf, static_cast<size_t>(n));
        close(r.fd);
        Result& res = results[r.idx];
        if (r.killed) res.status = "hang";
        else if (WIFSIGNALED(st)) res.status = "sig:" + sig_name(WTERMSIG(st));
        else res.status = "exit:" + std::to_string(WEXITSTATUS(st));
        res.pipe_text = r.buf;
        running.erase(running.begin() + static_cast<long>(i));
        continue;
      }
      double el = std::chrono::duration<double>(Clock::now() - r.t0).count();
      // once two cases have hung the verdict is settled: do not spend the full limit on every further one
      double lim = (n_hung >= 2 && cases[r.idx].limit > 10) ? 10 : cases[r.idx].limit;
      if (!r.killed && el > lim)
      {
        kill(r.pid, SIGKILL);
        r.killed = true;
        ++n_hung;
      }
      ++i;
    }
  }

  // ---- analysis, in case order -----------------------------------------------------------------
  size_t n_oracle = 0;
  for (size_t ci = 0; ci < cases.size(); ++ci)
  {
    Case const& c = cases[ci];
    Result const& r = results[ci];
    size_t nt = 1 + c.threads.size();
    std::vector<std::string> oracle;
    // pipe records
    std::vector<int> last_snap;
    std::map<int, std::vector<int>> snaps;
    std::string stopscans = "-", q, mask;
    bool stops_ok = true, saw_end = false, sync_ok = true;
    int cont = 0;
    std::map<long, int> tid_of;   // kernel thread id -> thread index
    long who_tid = -1;
    for (auto const& ln : split(r.pipe_text, '\n'))
    {
      std::istringstream is(ln);
      std::string w;
      int k = 0;
      is >> w >> k;
      if (w == "SNAP") { std::string v; is >> v; last_snap = ints(v.substr(2)); snaps[k] = last_snap; }
      else if (w == "STOPSCAN")
      {
        std::string v, okf, runf;
        is >> v >> okf >> runf;
        std::vector<int> m = ints(v.substr(2));
        std::vector<int> const& sn = snaps[k];
        bool ok = (okf == "ok=1") && m.size() == sn.size();
        // a stop() of a running backend must have written everything completed before it was called; a redundant
        // stop() has no backend thread to write anything (order and uniqueness are still checked)
        // (with wait_for_queues_to_empty_before_exit off stop() promises no completeness: order and uniqueness only)
        for (size_t t = 0; ok && c.wait && runf == "running=1" && t < m.size(); ++t) ok = m[t] >= sn[t];
        if (!ok)
        {
          stops_ok = false;
          oracle.push_back("stop-lost-statements op=" + std::to_string(k) + " completed=" + join(sn) + " in-file-when-stop-returned=" + join(m));
        }
        stopscans = stops_ok ? "ok" : "bad";
      }
      else if (w == "Q") { std::string v; is >> v; q += (q.empty() ? "" : ";") + v; }
      else if (w == "M") { std::string v; is >> v; mask += (mask.empty() ? "" : ";") + v; }
      else if (w == "CONT") ++cont;
      else if (w == "SYNCFAIL") sync_ok = false;
      else if (w == "TID") { long tid = 0; is >> tid; tid_of[tid] = k; }
      else if (w == "WHO") { who_tid = k; }
      else if (w == "END") saw_end = true;
    }
    // the file, read from outside
    std::vector<std::vector<int>> ids(nt);
    std::vector<long> last_line(nt, -1);
    int n_info = 0, n_crit = 0, junk = 0, nsig = 0;
    long first_notice = -1, crit_line = -1, lineno = 0;
    {
      std::ifstream in(scratch + "/c" + c.id + ".log");
      std::string ln;
      while (std::getline(in, ln))
      {
        int t = -1, id = -1, sn = 0;
        char const* p;
        if (sscanf(ln.c_str(), "T%d %d", &t, &id) == 2 && t >= 0 && static_cast<size_t>(t) < nt)
        {
          ids[static_cast<size_t>(t)].push_back(id);
          last_line[static_cast<size_t>(t)] = lineno;
        }
        else if (ln.rfind("Received signal:", 0) == 0 && (p = strstr(ln.c_str(), "(signum: ")) && sscanf(p, "(signum: %d)", &sn) == 1)
        {
          ++n_info;
          nsig = sn;
          if (first_notice < 0) first_notice = lineno;
        }
        else if (ln.rfind("Program terminated unexpectedly due to signal:", 0) == 0 && (p = strstr(ln.c_str(), "(signum: ")) &&
                 sscanf(p, "(signum: %d)", &sn) == 1)
        {
          ++n_crit;
          nsig = sn;
          crit_line = lineno;
          if (first_notice < 0) first_notice = lineno;
        }
        else if (ln != "TRIGGER") ++junk;
        ++lineno;
      }
    }
    // R1: each thread's lines are exactly 0..m-1 in order
    std::vector<int> found(nt, 0);
    bool order_ok = junk == 0;
    for (size_t t = 0; t < nt; ++t)
    {
      found[t] = static_cast<int>(ids[t].size());
      for (size_t i = 0; i < ids[t].size(); ++i)
        if (ids[t][i] != static_cast<int>(i)) order_ok = false;
    }
    if (!order_ok)
    {
      std::string d;
      for (size_t t = 0; t < nt; ++t)
      {
        d += " T" + std::to_string(t) + "=";
        for (size_t i = 0; i < ids[t].size() && i < 40; ++i) d += (i ? "," : "") + std::to_string(ids[t][i]);
      }
      oracle.push_back("not-once-in-thread-order junk=" + std::to_string(junk) + d);
    }
    // what ended the script
    std::string term = c.script.back();
    int sig_thread = -1, sg = 0;
    bool is_sig = false, raise_on_backend = false, is_dsig = false, is_ksig = false, ksig_none = false, receiver_never_logged = false;
    int who = -1;
    int d_thread = 0, d_sig_t = 0, d_sig_m = 0;
    for (auto const& op : c.script)
    {
      auto parts = split(op, ':');
      if (parts[0] == "dsig")
      {
        is_sig = true; is_dsig = true;
        d_thread = atoi(parts[1].c_str()); d_sig_t = sig_num(parts[2]); d_sig_m = sig_num(parts[3]);
      }
      if (parts[0] == "sig") { is_sig = true; sig_thread = 0; sg = sig_num(parts[1]); }
      else if (parts[0] == "tsig" || parts[0] == "tsigx") { is_sig = true; sig_thread = atoi(parts[1].c_str()); sg = sig_num(parts[2]); }
      else if (parts[0] == "bsig") { is_sig = true; raise_on_backend = true; sg = sig_num(parts[1]); }
      else if (parts[0] == "ksig")
      {
        // process-directed: the receiving thread is the producer of the notice (WhoSink); without a notice it is the
        // thread the masks leave (t<k>, m), the main thread when the kernel chooses (Linux tries it first), the backend (b)
        std::string spec = parts.size() > 2 ? parts[2] : "any";
        sg = sig_num(parts[1]);
        is_ksig = true;
        if (spec == "none") { ksig_none = true; continue; }
        is_sig = true;
        if (spec == "b") { raise_on_backend = true; continue; }
        sig_thread = (spec.size() > 1 && spec[0] == 't') ? atoi(spec.c_str() + 1) : 0;
        if (who_tid >= 0 && tid_of.count(who_tid)) who = tid_of[who_tid];
        if (who >= 0 && spec != "any" && who != sig_thread)
          oracle.push_back("handler-ran-on-a-thread-that-blocks-the-signal thread=" + std::to_string(who) + " expected=" + std::to_string(sig_thread));
        if (who >= 0) sig_thread = who;
        // the property speaks about a thread that has logged before: the main thread (it owns the logger and has
        // preallocated) and f/a/c threads with at least one statement; an `n` thread is outside the premise
        if (sig_thread > 0)
        {
          ThreadSpec const& ts = c.threads[static_cast<size_t>(sig_thread) - 1];
          if (ts.mode == 'n' || ts.n == 0) receiver_never_logged = true;
        }
      }
    }
    // premise of the signal half of the property: the backend of the current cycle was started with the handler and is
    // running, the thread is a frontend thread with the logger, re-raise on, first signal of the process
    bool handler_cycle = false, backend_up = false, handler_installed = false;
    int nsigops = 0;
    for (auto const& op : c.script)
    {
      if (op == "H") { if (!backend_up) { handler_cycle = true; backend_up = true; handler_installed = true; } }
      else if (op == "S") { if (!backend_up) { handler_cycle = false; backend_up = true; } }
      else if (op == "I") handler_installed = true;
      else if (op == "X") { backend_up = false; handler_cycle = false; }
      else if (op.rfind("sig:", 0) == 0 || op.rfind("tsig:", 0) == 0 || op.rfind("bsig:", 0) == 0 || op.rfind("dsig:", 0) == 0 ||
               op.rfind("tsigx:", 0) == 0 || op.rfind("ksig:", 0) == 0) { ++nsigops; break; }
    }
    if (is_dsig)
    {
      // which of the two was the first entrant is the schedule's choice: read it off the notice (or the wait status)
      int first = nsig ? nsig : (r.status == "sig:" + sig_name(d_sig_t) ? d_sig_t : d_sig_m);
      if (first != d_sig_t && first != d_sig_m) oracle.push_back("notice-for-a-signal-nobody-raised signum=" + std::to_string(first));
      sg = (first == d_sig_t) ? d_sig_t : d_sig_m;
      sig_thread = (first == d_sig_t) ? d_thread : 0;
      if (n_info > 1 || n_crit > 1) oracle.push_back("later-entrant-logged info=" + std::to_string(n_info) + " critical=" + std::to_string(n_crit));
    }
    bool graceful = (sg == SIGINT || sg == SIGTERM);
    // (a `tsigx` signal fires inside the stop / exit that follows it: the script ends with that operation)
    bool armed_sig = false;
    for (auto const& op : c.script) if (op.rfind("tsigx:", 0) == 0) armed_sig = true;
    bool premise = is_sig && !raise_on_backend && handler_cycle && backend_up && c.logger && c.reraise && nsigops == 1 &&
      (c.script.back().find("sig:") != std::string::npos || armed_sig) && sync_ok && !receiver_never_logged;
    std::string after_last = "-";
    if (r.status == "hang") oracle.push_back("process-did-not-end (killed after the limit of " + std::to_string(static_cast<int>(c.limit)) + " s)");
    if (premise)
    {
      std::string want = graceful ? "exit:0" : "sig:" + sig_name(sg);
      if (r.status != want && r.status != "hang") oracle.push_back("wait-status " + r.status + " expected " + want);
      size_t st = static_cast<size_t>(sig_thread);
      int comp = st < last_snap.size() ? last_snap[st] : 0;
      if (found[st] < comp)
        oracle.push_back("signal-lost-statements thread=" + std::to_string(sig_thread) + " completed=" + std::to_string(comp) +
                         " in-file=" + std::to_string(found[st]));
      int want_info = c.warning ? 0 : 1, want_crit = graceful ? 0 : 1;
      if (n_info != want_info || n_crit != want_crit)
        oracle.push_back("notice-count info=" + std::to_string(n_info) + " critical=" + std::to_string(n_crit) + " expected " +
                         std::to_string(want_info) + "/" + std::to_string(want_crit));
      if (n_info + n_crit > 0)
      {
        bool al = first_notice > last_line[st] && (n_crit == 0 || n_info == 0 || crit_line > first_notice) && nsig == sg;
        after_last = al ? "1" : "0";
        if (!al) oracle.push_back("notice-not-after-the-thread's-last-statement-or-wrong-signal line=" + std::to_string(first_notice) +
                                  " last-statement-line=" + std::to_string(last_line[st]) + " signum=" + std::to_string(nsig));
      }
    }
    else if (is_sig && handler_installed && c.reraise && !raise_on_backend && !receiver_never_logged && !(handler_cycle && backend_up && !c.logger))
    {
      // a handled signal outside a handler cycle (backend stopped / never started / started without the handler):
      // the process must still end by the signal, or successfully for SIGINT/SIGTERM
      std::string want = graceful ? "exit:0" : "sig:" + sig_name(sg);
      if (r.status != want && r.status != "hang") oracle.push_back("wait-status " + r.status + " expected " + want);
    }
    if (!sync_ok) oracle.push_back("harness-could-not-time-the-case (gate or stop request not reached within 5 s)");
    bool normal_end = (term == "ret" || term == "exit" || term.rfind("texit:", 0) == 0) && !is_sig;
    if (normal_end)
    {
      if (r.status != "exit:0" && r.status != "hang") oracle.push_back("wait-status " + r.status + " expected exit:0");
      if (!saw_end && term.rfind("texit:", 0) != 0) oracle.push_back("script-did-not-reach-its-end");
    }
    // R3: completeness at the end for every path that ends through exit(): everything completed before is in the file
    if ((normal_end || (is_sig && graceful && handler_installed && !raise_on_backend && (c.logger || !handler_cycle))) &&
        (r.status == "exit:0") && c.wait)
    {
      for (size_t t = 0; t < nt && t < last_snap.size(); ++t)
        if (found[t] < last_snap[t])
          oracle.push_back("exit-lost-statements thread=" + std::to_string(t) + " completed=" + std::to_string(last_snap[t]) +
                           " in-file=" + std::to_string(found[t]));
    }
    // R5: after every start the backend runs, after every stop it does not (Q follows the op in generated scripts)
    {
      std::vector<std::string> qs = q.empty() ? std::vector<std::string>{} : split(q, ';');
      size_t qi = 0;
      std::string prev;
      for (auto const& op : c.script)
      {
        if (op == "Q" && qi < qs.size())
        {
          bool runs = qs[qi][0] == '1';
          if ((prev == "H" || prev == "S") && !runs) oracle.push_back("backend-not-running-after-start (Q#" + std::to_string(qi + 1) + ")");
          if (prev == "X" && runs) oracle.push_back("backend-running-after-stop (Q#" + std::to_string(qi + 1) + ")");
          ++qi;
        }
        prev = op;
      }
    }
    printf("%s => status=%s snap=%s found=%s order=%s notices=%d/%d nsig=%s after_last=%s stopscans=%s q=%s mask=%s cont=%d sync=%s who=%s\n",
           c.line.c_str(), r.status.c_str(), join(last_snap).c_str(), join(found).c_str(), order_ok ? "ok" : "bad", n_info, n_crit,
           nsig ? sig_name(nsig).c_str() : "-", after_last.c_str(), stopscans.c_str(), q.empty() ? "-" : q.c_str(),
           mask.empty() ? "-" : mask.c_str(), cont, sync_ok ? "ok" : "fail",
           !is_ksig ? "-" : ksig_none ? "none" : raise_on_backend ? "b" : who >= 0 ? std::to_string(who).c_str() : "?");
    for (auto const& o : oracle)
    {
      printf("ORACLE case=%s %s\n", c.id.c_str(), o.c_str());
      ++n_oracle;
    }
    if (!oracle.empty())
    {
      // what the child wrote to stderr (the library's own allocation notices left out), for the replay file
      std::ifstream ein(scratch + "/c" + c.id + ".err");
      std::string ln, all;
      while (std::getline(ein, ln))
        if (ln.find("Allocated a new SPSC queue") == std::string::npos && all.size() < 3000) all += ln + " | ";
      if (!all.empty()) printf("STDERR case=%s %s\n", c.id.c_str(), all.c_str());
    }
  }
  printf("STATS cases=%zu oracle=%zu\n", cases.size(), n_oracle);
  return n_oracle ? 3 : 0;
}
