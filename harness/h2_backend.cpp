// H2 — deterministic end-to-end scheduler: the real Frontend / Logger / macros and the real BackendWorker
// (through ManualBackendWorker) driven by a script of operations. Exactly one thread runs at any time:
// frontend actors are real std::threads that are handed a baton; they park inside the interposed
// nanosleep / clock_nanosleep / sched_yield (blocking-queue retry, flush_log / remove_logger_blocking waits) and
// at QUILL_VERIF_YIELD(6) (after the timestamp was read) when armed. Backend hook sites 1..5 run injected
// frontend operations synchronously. Time is virtual (clock_gettime interposed).
//
//   h2_backend <script>            (compiled with -DH2_VARIANT=0..3: BoundedBlocking, BoundedDropping,
//                                   UnboundedBlocking, UnboundedDropping; -DH2_QCAP, -DH2_QMAX)
// Output: one "op => observation" line per script line; see tools/props/backend.py for the grammar.
#include <atomic>
#include <cassert>
#include <condition_variable>
#include <cstdint>
#include <cstdio>
#include <cstring>
#include <fstream>
#include <functional>
#include <iostream>
#include <map>
#include <memory>
#include <mutex>
#include <sstream>
#include <string>
#include <thread>
#include <vector>
#include <sched.h>
#include <sys/syscall.h>
#include <time.h>
#include <unistd.h>

#include "quill/Backend.h"
#include "quill/Frontend.h"
#include "quill/LogMacros.h"
#include "quill/Logger.h"
#include "quill/filters/Filter.h"
#include "quill/sinks/Sink.h"

#ifndef H2_VARIANT
  #define H2_VARIANT 0
#endif
#ifndef H2_QCAP
  #define H2_QCAP 512
#endif
#ifndef H2_QMAX
  #define H2_QMAX 4096
#endif

struct H2FrontendOptions
{
#if H2_VARIANT == 0
  static constexpr quill::QueueType queue_type = quill::QueueType::BoundedBlocking;
#elif H2_VARIANT == 1
  static constexpr quill::QueueType queue_type = quill::QueueType::BoundedDropping;
#elif H2_VARIANT == 2
  static constexpr quill::QueueType queue_type = quill::QueueType::UnboundedBlocking;
#else
  static constexpr quill::QueueType queue_type = quill::QueueType::UnboundedDropping;
#endif
  static constexpr size_t initial_queue_capacity = H2_QCAP;
  static constexpr uint32_t blocking_queue_retry_interval_ns = 800;
  static constexpr size_t unbounded_queue_max_capacity = H2_QMAX;
  static constexpr quill::HugePagesPolicy huge_pages_policy = quill::HugePagesPolicy::Never;
};
#ifdef H2_MIXED
  #include "h2_mixed_types.h" // two frontends in one process: FE / LoggerT dispatch by logger name (harness/h2_mixed.cpp)
#else
using FE = quill::FrontendImpl<H2FrontendOptions>;
using LoggerT = quill::LoggerImpl<H2FrontendOptions>;
#endif

// ------------------------------------------------------------------------------------------------
// virtual time and parking
// ------------------------------------------------------------------------------------------------
static std::atomic<long long> g_vnow{1700000000LL * 1000000000LL};
static long long const T0 = 1700000000LL * 1000000000LL;

struct Actor;
static thread_local Actor* tl_actor = nullptr;

struct Actor
{
  enum State { IDLE, RUNNING, PARKED, DONE_JOB, QUIT };
  int id;
  std::mutex m;
  std::condition_variable cv;
  State st{IDLE};
  std::function<void()> job;
  std::string park_reason;
  bool stall_armed{false};
  uint64_t last_writer_bytes{0};
  int in_call_logger{-1}; // logger (gid) of the public call this actor is parked in
  std::string result; // filled by the job
  std::thread th;
  bool alive{true};

  explicit Actor(int i) : id(i)
  {
    th = std::thread(
      [this]
      {
        tl_actor = this;
        for (;;)
        {
          std::function<void()> j;
          {
            std::unique_lock<std::mutex> l{m};
            cv.wait(l, [&] { return st == RUNNING || st == QUIT; });
            if (st == QUIT) { return; }
            j = std::move(job);
            job = nullptr;
          }
          j();
          {
            std::lock_guard<std::mutex> l{m};
            st = DONE_JOB;
          }
          cv.notify_all();
        }
      });
  }

  // called on the actor thread
  void park(char const* why)
  {
    std::unique_lock<std::mutex> l{m};
    park_reason = why;
    st = PARKED;
    cv.notify_all();
    cv.wait(l, [&] { return st == RUNNING; });
  }

  // called on the scheduler thread: run until the job is done or the actor parks
  State drive(std::function<void()> j)
  {
    {
      std::lock_guard<std::mutex> l{m};
      if (j) { job = std::move(j); }
      st = RUNNING;
    }
    cv.notify_all();
    std::unique_lock<std::mutex> l{m};
    cv.wait(l, [&] { return st == PARKED || st == DONE_JOB; });
    State const r = st;
    if (st == DONE_JOB) { st = IDLE; }
    return r;
  }

  void quit()
  {
    {
      std::lock_guard<std::mutex> l{m};
      st = QUIT;
    }
    cv.notify_all();
    th.join();
    alive = false;
  }
};

static long long g_auto_tick = 0; // added per clock read of the scheduler thread (used while draining at exit)
static bool g_in_poll = false;
static void hook(int site);
extern "C" int clock_gettime(clockid_t, struct timespec* ts)
{
  if (!tl_actor && g_auto_tick) { g_vnow += g_auto_tick; }
  if (!tl_actor && g_in_poll) { hook(7); } // site 7.k: the k-th clock read of the backend inside this poll
  long long const v = g_vnow.load();
  ts->tv_sec = v / 1000000000LL;
  ts->tv_nsec = v % 1000000000LL;
  return 0;
}
extern "C" int nanosleep(const struct timespec*, struct timespec*)
{
  if (tl_actor) { tl_actor->park("sleep"); }
  return 0;
}
extern "C" int clock_nanosleep(clockid_t, int, const struct timespec*, struct timespec*)
{
  if (tl_actor) { tl_actor->park("sleep"); }
  return 0;
}
extern "C" int sched_yield(void)
{
  if (tl_actor) { tl_actor->park("yield"); }
  return 0;
}

// ------------------------------------------------------------------------------------------------
// recording sinks, filters, notifier
// ------------------------------------------------------------------------------------------------
static std::vector<std::string> g_events; // events of the current op
static long parse_id(std::string_view msg)
{
  // message payload starts with "m<id>|"
  if (msg.size() < 2 || msg[0] != 'm') { return -1; }
  long v = 0;
  size_t i = 1;
  while (i < msg.size() && msg[i] >= '0' && msg[i] <= '9') { v = v * 10 + (msg[i] - '0'); ++i; }
  return v;
}

static void forget_sink(int sid);

// w2_faults: what a faulting sink call throws — 0: std::exception with text, 1: std::exception whose what() is "", 2: not a std::exception
[[noreturn]] static void throw_kind(int kind, char const* text)
{
  if (kind == 1) { throw std::runtime_error(""); }
  if (kind == 2) { throw 42; }
  throw std::runtime_error(text);
}
static void parse_throws(std::string const& v, std::vector<int>& calls, std::map<int, int>& kinds); // "2,5e,7n"

struct RecSink : quill::Sink
{
  int sid;
  std::vector<int> wthrow, fthrow; // 1-based call numbers that throw
  std::map<int, int> wkind, fkind;  // call number -> kind (absent: 0)
  int wcalls{0}, fcalls{0};
  explicit RecSink(int s) : sid(s) {}
  // a sink with its own (override) pattern; an invalid one makes the backend's PatternFormatter constructor throw at first use
  RecSink(int s, quill::PatternFormatterOptions const& override_pattern) : quill::Sink(override_pattern), sid(s) {}
  ~RecSink() override
  {
    g_events.push_back("sinkdtor:" + std::to_string(sid));
    forget_sink(sid);
    // site 9: a sink destructor is user code that may take long; when it runs inside the backend's logger clean-up the
    // frontends keep going meanwhile (and the LoggerManager lock is held)
    hook(9);
  }
  void write_log(quill::MacroMetadata const*, uint64_t ts, std::string_view, std::string_view, std::string const&,
                 std::string_view, quill::LogLevel lvl, std::string_view, std::string_view,
                 std::vector<std::pair<std::string, std::string>> const* named, std::string_view msg, std::string_view) override
  {
    ++wcalls;
    for (int k : wthrow)
    {
      if (k == wcalls)
      {
        g_events.push_back("wthrow:" + std::to_string(sid) + ":" + std::to_string(parse_id(msg)));
        throw_kind(wkind.count(k) ? wkind[k] : 0, "sink write failure");
      }
    }
    std::string e = "w:" + std::to_string(sid) + ":";
    long const id = parse_id(msg);
    if (id >= 0) { e += std::to_string(id); }
    else { e += "E" + std::to_string(msg.size()); } // error text / internal message
    e += ":" + std::to_string(static_cast<int>(lvl)) + ":" + std::to_string(static_cast<long long>(ts) - T0);
    if (named && !named->empty()) { e += ":na" + std::to_string(named->size()); }
    g_events.push_back(e);
  }
  void flush_sink() override
  {
    ++fcalls;
    for (int k : fthrow)
    {
      if (k == fcalls)
      {
        g_events.push_back("fthrow:" + std::to_string(sid));
        throw_kind(fkind.count(k) ? fkind[k] : 0, "sink flush failure");
      }
    }
    g_events.push_back("fl:" + std::to_string(sid));
  }
};

struct ModFilter : quill::Filter
{
  int m, r;
  ModFilter(std::string const& name, int mm, int rr) : quill::Filter(name), m(mm), r(rr) {}
  bool filter(quill::MacroMetadata const*, uint64_t, std::string_view, std::string_view, std::string_view,
              quill::LogLevel, std::string_view msg, std::string_view) noexcept override
  {
    long const id = parse_id(msg);
    return !(id >= 0 && m > 0 && (id % m) == r);
  }
};

static std::string canon_notifier(std::string const& s)
{
  auto find_num_after = [&](char const* key) -> std::string
  {
    auto p = s.find(key);
    if (p == std::string::npos) { return "?"; }
    p += std::strlen(key);
    std::string n;
    while (p < s.size() && s[p] >= '0' && s[p] <= '9') { n += s[p++]; }
    return n;
  };
  if (s.empty()) { return "n:empty"; }                                           // e.what() of an exception without text
  if (s == "Caught unhandled exception.") { return "n:unhandled"; }              // the catch-all handlers
  if (s.find("Invalid format pattern") != std::string::npos) { return "n:patfail"; } // PatternFormatter constructor
  if (s.find("udt decode failure") != std::string::npos) { return "n:dfail"; }
  if (s.find("notifier failure") != std::string::npos) { return "n:nfail"; }
  if (s.find("Dropped") != std::string::npos) { return "n:dropped:" + find_num_after("Dropped ") + ":tid" + find_num_after("from thread "); }
  if (s.find("blocking occurrences") != std::string::npos) { return "n:blocked:" + find_num_after("Experienced ") + ":tid" + find_num_after("on thread "); }
  if (s.find("Allocated a new SPSC queue") != std::string::npos) { return "n:alloc:" + find_num_after("capacity of ") + ":" + find_num_after("(previously "); }
  if (s.find("sink write failure") != std::string::npos) { return "n:wfail"; }
  if (s.find("sink flush failure") != std::string::npos) { return "n:ffail"; }
  if (s.find("init_backtrace") != std::string::npos) { return "n:nobt"; }
  if (s.find("Could not format") != std::string::npos) { return "n:fmterr"; }
  return "n:other:" + std::to_string(s.size());
}

// ------------------------------------------------------------------------------------------------
// world
// ------------------------------------------------------------------------------------------------
static quill::ManualBackendWorker* g_mw = nullptr;
static std::map<int, std::unique_ptr<Actor>> g_actors;
static std::map<int, uint32_t> g_actor_tid;     // actor -> quill thread id (for canonical notifier text)
static std::map<int, std::shared_ptr<RecSink>> g_sinks_keepalive; // dropped when the script says so
static std::map<int, RecSink*> g_sinks;
// sinks the application built itself (std::make_shared) and hands to create_or_get_logger directly: the SinkManager
// registry never sees them (sink line flag unreg=1)
static std::map<int, std::weak_ptr<RecSink>> g_unreg;
static std::shared_ptr<quill::Sink> lookup_sink(int sid)
{
  auto it = g_unreg.find(sid);
  if (it != g_unreg.end()) { return it->second.lock(); }
  return FE::get_sink("s" + std::to_string(sid));
}
static void forget_sink(int sid) { g_sinks.erase(sid); }
static std::map<int, LoggerT*> g_loggers;
static std::map<int, std::vector<int>> g_logger_sinks;
static long g_next_id = 0;
static std::map<int, bool> g_actor_has_ctx; // actor has executed a queue-writing call (its context exists)
static thread_local int g_evals = 0; // argument evaluations on the calling thread
static std::map<std::string, std::string> g_inject; // "site.k" -> op
static std::map<int, int> g_site_count;
static bool g_in_hook = false;
static int g_hook_site = 0; // the site whose injected operations are running

static std::vector<std::string> split(std::string const& s, char sep = ' ')
{
  std::vector<std::string> out;
  std::string cur;
  for (char c : s)
  {
    if (c == sep)
    {
      if (!cur.empty() || sep != ' ') { out.push_back(cur); }
      cur.clear();
    }
    else { cur += c; }
  }
  if (!cur.empty() || sep != ' ') { out.push_back(cur); }
  return out;
}

static std::string tid_canon(std::string e)
{
  // replace tid<quill thread id> by a<actor>
  auto p = e.find(":tid");
  if (p == std::string::npos) { return e; }
  std::string const num = e.substr(p + 4);
  for (auto const& kv : g_actor_tid)
  {
    if (std::to_string(kv.second) == num) { return e.substr(0, p) + ":a" + std::to_string(kv.first); }
  }
  return e.substr(0, p) + ":a?";
}

static std::string take_events()
{
  std::string out;
  for (auto& e : g_events)
  {
    if (!out.empty()) { out += " "; }
    out += tid_canon(e);
  }
  g_events.clear();
  return out;
}

static std::string payload(long id, size_t len)
{
  std::string s = "m" + std::to_string(id) + "|";
  if (s.size() < len) { s.append(len - s.size(), 'x'); }
  return s;
}

static std::string exec_op(std::vector<std::string> const& w);

static void hook(int site)
{
  if (site == 6)
  {
    if (tl_actor && tl_actor->stall_armed)
    {
      tl_actor->stall_armed = false;
      tl_actor->park("stall");
    }
    return;
  }
  if (tl_actor || g_in_hook) { return; }
  int const k = ++g_site_count[site];
  auto it = g_inject.find(std::to_string(site) + "." + std::to_string(k));
  if (it == g_inject.end()) { return; }
  g_in_hook = true;
  g_hook_site = site;
  for (auto const& one : split(it->second, ','))
  {
    auto w = split(one, '_');
    if (w.empty()) { continue; }
    std::string const r = exec_op(w);
    g_events.push_back("[@" + std::to_string(site) + "." + std::to_string(k) + " " + one + " -> " + r + "]");
  }
  g_in_hook = false;
  g_hook_site = 0;
}

// w2_faults: faults of the backend's read pass ------------------------------------------------------
// a user-defined type whose codec (same bytes as a std::string) can be armed to throw when the backend decodes it
struct Boom
{
  std::string payload;
};
static std::vector<int> g_dthrow; // 1-based numbers of the decode calls (of Boom arguments) that throw
static int g_dcalls = 0;
static bool g_alloc_notice_throws = false; // the error notifier throws on the next "Allocated a new SPSC queue" notice
template <>
struct quill::Codec<Boom>
{
  static size_t compute_encoded_size(quill::detail::SizeCacheVector& c, Boom const& b) noexcept
  {
    return quill::Codec<std::string>::compute_encoded_size(c, b.payload);
  }
  static void encode(std::byte*& buffer, quill::detail::SizeCacheVector const& c, uint32_t& idx, Boom const& b) noexcept
  {
    quill::Codec<std::string>::encode(buffer, c, idx, b.payload);
  }
  static std::string_view decode_arg(std::byte*& buffer) { return quill::Codec<std::string>::decode_arg(buffer); }
  static void decode_and_store_arg(std::byte*& buffer, quill::DynamicFormatArgStore* args_store)
  {
    ++g_dcalls;
    for (int k : g_dthrow)
    {
      if (k == g_dcalls)
      {
        g_events.push_back("dthrow:" + std::to_string(g_dcalls));
        throw std::runtime_error("udt decode failure");
      }
    }
    std::string_view const a = decode_arg(buffer);
    args_store->push_back(fmtquill::string_view{a.data(), a.size()});
  }
};

static void parse_throws(std::string const& v, std::vector<int>& calls, std::map<int, int>& kinds)
{
  std::string cur;
  auto flush = [&]
  {
    if (cur.empty()) { return; }
    int kind = 0;
    if (cur.back() == 'e') { kind = 1; cur.pop_back(); }
    else if (cur.back() == 'n') { kind = 2; cur.pop_back(); }
    if (!cur.empty()) { int const k = std::stoi(cur); calls.push_back(k); if (kind) { kinds[k] = kind; } }
    cur.clear();
  };
  for (char c : v) { if (c == ',') { flush(); } else { cur += c; } }
  flush();
}

// the statement macros used by the actors ----------------------------------------------------------
#define H2_ARG(id, len) (++g_evals, payload(id, len))

static bool do_log_dynamic_ret(LoggerT* lg, quill::LogLevel lvl, long id, size_t len, bool& called)
{
  // the body of QUILL_DYNAMIC_LOGGER_CALL, keeping the return value of log_statement (C08)
  called = false;
  if (lg->should_log_statement(lvl))
  {
    called = true;
    QUILL_DEFINE_MACRO_METADATA(QUILL_FUNCTION_NAME, "{}", nullptr, quill::LogLevel::Dynamic);
    return lg->template log_statement<false, true>(lvl, &macro_metadata, H2_ARG(id, len));
  }
  return false;
}

static void do_log_named(LoggerT* lg, long id, size_t len)
{
  LOG_INFO(lg, "{pay}", H2_ARG(id, len));
}

static void do_log_udt(LoggerT* lg, long id, size_t len)
{
  LOG_INFO(lg, "{}", Boom{H2_ARG(id, len)});
}

static void do_log_static(LoggerT* lg, int lvl, long id, size_t len)
{
  switch (lvl)
  {
  case 0: LOG_TRACE_L3(lg, "{}", H2_ARG(id, len)); break;
  case 1: LOG_TRACE_L2(lg, "{}", H2_ARG(id, len)); break;
  case 2: LOG_TRACE_L1(lg, "{}", H2_ARG(id, len)); break;
  case 3: LOG_DEBUG(lg, "{}", H2_ARG(id, len)); break;
  case 4: LOG_INFO(lg, "{}", H2_ARG(id, len)); break;
  case 5: LOG_NOTICE(lg, "{}", H2_ARG(id, len)); break;
  case 6: LOG_WARNING(lg, "{}", H2_ARG(id, len)); break;
  case 7: LOG_ERROR(lg, "{}", H2_ARG(id, len)); break;
  default: LOG_CRITICAL(lg, "{}", H2_ARG(id, len)); break;
  }
}

static uint64_t writer_bytes()
{
  // total bytes ever finished by the calling thread's queue; 0 while the thread has no context yet
  // (asking for the context would register it, which must be left to the log call itself)
  auto* tc = quill::detail::LoggerBase::thread_context;
  if (!tc) { return 0; }
#ifdef H2_MIXED
  if (tc->has_unbounded_queue_type()) { return h2_unbounded_writer_bytes(tc); } // cumulative over the nodes of the chain
#endif
#if H2_VARIANT <= 1
  return tc->get_spsc_queue_union().bounded_spsc_queue._writer_pos;
#else
  // unbounded: the producer's buffer changes on growth / shrink; a new buffer starts at position 0, so the bytes finished
  // since the last look are the new buffer's position (plus nothing in the old one: a call writes one record, into one buffer)
  static thread_local void const* last_node = nullptr;
  static thread_local uint64_t base = 0;       // bytes finished in buffers the producer has left
  static thread_local uint64_t last_pos = 0;   // position in `last_node` at the last look
  auto* node = tc->get_spsc_queue_union().unbounded_spsc_queue._producer;
  uint64_t const pos = node->bounded_queue._writer_pos;
  if (node != last_node)
  {
    base += last_pos;
    last_node = node;
  }
  last_pos = pos;
  return base + pos;
#endif
}

static std::string finish_actor(Actor& a, Actor::State st)
{
  if (st == Actor::PARKED) { return "parked:" + a.park_reason; }
  std::string r = a.result;
  a.result.clear();
  return r;
}

static Actor* actor_of(std::string const& s)
{
  int const id = std::stoi(s);
  auto it = g_actors.find(id);
  if (it == g_actors.end() || !it->second->alive) { return nullptr; }
  return it->second.get();
}

static std::string exec_op(std::vector<std::string> const& w)
{
  std::string const& op = w[0];
  auto need_idle = [&](Actor* a) { return a && a->st == Actor::IDLE; };
  if (op == "K")
  {
    g_vnow += std::stoll(w[1]);
    return "ok";
  }
  if (op == "T")
  {
    int const id = std::stoi(w[1]);
    if (w[2] == "start")
    {
      if (g_actors.count(id) && g_actors[id]->alive) { return "noop"; }
      g_actors[id] = std::make_unique<Actor>(id);
      Actor& a = *g_actors[id];
      a.drive([&a] { a.result = "ok"; g_actor_tid[a.id] = quill::detail::get_thread_id(); });
      a.result.clear();
      return "ok";
    }
    Actor* a = actor_of(w[1]);
    if (!need_idle(a)) { return "noop"; }
    a->quit();
    return "ok";
  }
  if (op == "R")
  {
    Actor* a = actor_of(w[1]);
    if (!a || a->st != Actor::PARKED) { return "noop"; }
    auto const str = a->drive(nullptr);
    if (str != Actor::PARKED) { a->in_call_logger = -1; }
    return finish_actor(*a, str);
  }
  if (op == "ST")
  {
    Actor* a = actor_of(w[1]);
    if (!need_idle(a)) { return "noop"; }
    a->stall_armed = true;
    return "ok";
  }
  if (op == "L" || op == "LS" || op == "LB" || op == "LN" || op == "LU")
  {
    Actor* a = actor_of(w[1]);
    int const g = std::stoi(w[2]);
    if (!need_idle(a) || !g_loggers.count(g) || !g_loggers[g]) { return "noop"; }
    LoggerT* lg = g_loggers[g];
    int const lvl = op == "LB" ? 9 : (op == "LN" || op == "LU") ? 4 : std::stoi(w[3]);
    size_t const len = std::stoul((op == "LB" || op == "LN" || op == "LU") ? w[3] : w[4]);
    long const id = g_next_id++;
    auto st = a->drive(
      [=]
      {
        int const ev0 = g_evals;
        uint64_t const b0 = a->last_writer_bytes;
        std::string r;
        try
        {
        if (op == "L")
        {
          bool called = false;
          bool const ret = do_log_dynamic_ret(lg, static_cast<quill::LogLevel>(lvl), id, len, called);
          r = std::string{"id="} + std::to_string(id) + (called ? (ret ? " ret=1" : " ret=0") : " skip");
        }
        else if (op == "LS")
        {
          do_log_static(lg, lvl, id, len);
          r = "id=" + std::to_string(id);
        }
        else if (op == "LN")
        {
          do_log_named(lg, id, len);
          r = "id=" + std::to_string(id);
        }
        else if (op == "LU")
        {
          do_log_udt(lg, id, len);
          r = "id=" + std::to_string(id);
        }
        else
        {
          LOG_BACKTRACE(lg, "{}", H2_ARG(id, len));
          r = "id=" + std::to_string(id);
        }
        }
        catch (quill::QuillError const&)
        {
          // a record larger than the unbounded queue's maximum capacity is rejected with an error
          r = "id=" + std::to_string(id) + " threw";
        }
        uint64_t const b1 = writer_bytes();
        a->last_writer_bytes = b1;
        if (quill::detail::LoggerBase::thread_context) { g_actor_has_ctx[a->id] = true; }
        r += " ev=" + std::to_string(g_evals - ev0);
        r += " bytes=" + std::to_string(b1 - b0);
        a->result = r;
      });
    if (st == Actor::PARKED)
    {
      a->in_call_logger = g;
      return "id=" + std::to_string(id) + " parked:" + a->park_reason;
    }
    return finish_actor(*a, st);
  }
  if (op == "IB" || op == "FB" || op == "F" || op == "RB" || op == "RL")
  {
    Actor* a = actor_of(w[1]);
    int const g = std::stoi(w[2]);
    if (!need_idle(a) || !g_loggers.count(g) || !g_loggers[g]) { return "noop"; }
    LoggerT* lg = g_loggers[g];
    if (op == "RB" || op == "RL")
    {
      // contract of remove_logger: no call through that logger is pending
      for (auto const& kv : g_actors)
      {
        if (kv.second->alive && kv.second->st == Actor::PARKED && kv.second->in_call_logger == g) { return "noop"; }
      }
    }
    std::function<void()> j;
    if (op == "IB")
    {
      uint32_t const cap = static_cast<uint32_t>(std::stoul(w[3]));
      int const fl = std::stoi(w[4]);
      j = [=] { lg->init_backtrace(cap, static_cast<quill::LogLevel>(fl)); a->last_writer_bytes = writer_bytes(); a->result = "done"; };
    }
    else if (op == "FB") { j = [=] { lg->flush_backtrace(); a->last_writer_bytes = writer_bytes(); a->result = "done"; }; }
    else if (op == "F") { j = [=] { lg->flush_log(); a->last_writer_bytes = writer_bytes(); a->result = "done"; }; }
    else if (op == "RB")
    {
      g_loggers[g] = nullptr;
      j = [=] { FE::remove_logger_blocking(lg); a->last_writer_bytes = writer_bytes(); a->result = "done"; };
    }
    else
    {
      g_loggers[g] = nullptr;
      j = [=] { FE::remove_logger(lg); a->result = "done"; };
    }
    auto const stc = a->drive(j);
    if (stc == Actor::PARKED) { a->in_call_logger = g; }
    return finish_actor(*a, stc);
  }
  if (op == "CL")
  {
    // inside the logger clean-up (site 9) the LoggerManager lock is held: create_or_get_logger would spin on it
    if (g_hook_site == 9) { return "noop"; }
    Actor* a = actor_of(w[1]);
    int const g = std::stoi(w[2]);
    if (!need_idle(a)) { return "noop"; }
    std::vector<std::shared_ptr<quill::Sink>> sinks;
    std::vector<int> sids;
    for (auto const& s : split(w[3], ','))
    {
      int const sid = std::stoi(s);
      std::shared_ptr<quill::Sink> sp;
      try { sp = lookup_sink(sid); } catch (...) { return "noop"; }
      if (!sp) { return "noop"; }
      sinks.push_back(sp);
      sids.push_back(sid);
    }
    // while a call through this logger name is parked (in particular a remove_logger_blocking that has not yet
    // invalidated it) the name is left alone: the handle obtained now could be erased under our feet
    for (auto const& kv : g_actors)
    {
      if (kv.second->alive && kv.second->st == Actor::PARKED && kv.second->in_call_logger == g) { return "noop"; }
    }
    // creating a logger whose name still belongs to a removed-but-not-yet-erased logger is outside the contract
    // (create_or_get_logger asserts on it): only after remove_logger_blocking returned / the backend cleaned up
    if (auto* existing = quill::detail::LoggerManager::instance()._find_logger("g" + std::to_string(g)))
    {
      if (!existing->is_valid_logger()) { return "noop"; }
    }
    LoggerT* out = nullptr;
    a->drive(
      [&, g]
      {
        out = FE::create_or_get_logger("g" + std::to_string(g), std::move(sinks),
                                       quill::PatternFormatterOptions{"%(message)"}, quill::ClockSourceType::System);
        a->result = "ok";
      });
    a->result.clear();
    // create_or_get returns the existing logger (possibly an invalidated one not yet cleaned up)
    // create_or_get returns the existing logger of that name — possibly one already marked invalid and waiting to
    // be erased by the backend; such a handle must not be used (and would dangle), so it is not kept
    bool const valid = out->is_valid_logger();
    g_loggers[g] = valid ? out : nullptr;
    g_logger_sinks[g] = sids;
    return std::string{"ok valid="} + (valid ? "1" : "0") + " nsinks=" + std::to_string(out->get_sinks().size());
  }
  if (op == "SH" || op == "QC")
  {
#if H2_VARIANT >= 2
    Actor* a = actor_of(w[1]);
    if (!need_idle(a)) { return "noop"; }
    size_t cap = 0;
    bool has_ctx = false;
    size_t const want = op == "SH" ? std::stoul(w[2]) : 0;
    a->drive(
      [&, a]
      {
        // asking for the context would register it: a thread that has not reached a queue-writing call yet is left alone
        has_ctx = quill::detail::LoggerBase::thread_context != nullptr;
        if (has_ctx)
        {
          if (op == "SH") { FE::shrink_thread_local_queue(want); }
          cap = FE::get_thread_local_queue_capacity();
          a->last_writer_bytes = writer_bytes();
        }
        a->result = "ok";
      });
    a->result.clear();
    if (!has_ctx) { return "noop"; }
    return "cap=" + std::to_string(cap);
#else
    return "noop";
#endif
  }
  if (op == "DT")
  {
    // w2_faults: the k-th decode (counted from the start of the life) of a user-defined-type argument throws
    g_dthrow.push_back(std::stoi(w[1]));
    return "ok";
  }
  if (op == "NA")
  {
    // w2_faults: the error notifier throws on the next allocation notice of an unbounded queue
    g_alloc_notice_throws = true;
    return "ok";
  }
  if (op == "SL")
  {
    int const g = std::stoi(w[1]);
    if (!g_loggers.count(g) || !g_loggers[g]) { return "noop"; }
    g_loggers[g]->set_log_level(static_cast<quill::LogLevel>(std::stoi(w[2])));
    return "ok";
  }
  if (op == "SS")
  {
    int const s = std::stoi(w[1]);
    if (!g_sinks.count(s)) { return "noop"; }
    g_sinks[s]->set_log_level_filter(static_cast<quill::LogLevel>(std::stoi(w[2])));
    return "ok";
  }
  if (op == "DS")
  {
    // the user drops its own reference to a sink
    int const s = std::stoi(w[1]);
    g_sinks_keepalive.erase(s);
    return "ok";
  }
  if (op == "P")
  {
    if (g_in_hook || !g_mw) { return "noop"; }
    g_inject.clear();
    g_site_count.clear();
    for (size_t i = 1; i < w.size(); ++i)
    {
      // @site.k=op_with_underscores[,op…]
      if (w[i].size() > 1 && w[i][0] == '@')
      {
        auto eq = w[i].find('=');
        if (eq != std::string::npos) { g_inject[w[i].substr(1, eq - 1)] = w[i].substr(eq + 1); }
      }
    }
    g_in_poll = true;
    // an exception that escapes _poll(): ManualBackendWorker::poll_one hands it to the caller, the backend thread's run loop
    // catches it around _poll() and reports it — either way this poll is over
    try { g_mw->poll_one(); }
    catch (std::exception const& e) { g_events.push_back("x:" + canon_notifier(e.what()).substr(2)); }
    catch (...) { g_events.push_back("x:unhandled"); }
    g_in_poll = false;
    g_in_hook = false;
    g_hook_site = 0;
    g_inject.clear();
    return "ev";
  }
  if (op == "X")
  {
    if (g_in_hook || !g_mw) { return "noop"; }
    g_inject.clear();
    g_site_count.clear();
    // what ~ManualBackendWorker does (the worker is a member of the BackendManager singleton)
    // real time passes while the drain loop spins; statements younger than now - grace become eligible
    g_auto_tick = 1000;
    g_in_poll = true;
    g_dthrow.clear(); // read-pass faults are not armed during the exit drain (an exception there ends the backend thread)
    g_alloc_notice_throws = false;
    quill::detail::BackendManager::instance()._backend_worker._exit();
    g_in_poll = false;
    g_auto_tick = 0;
    g_mw = nullptr;
    return "ev";
  }
  if (op == "Q")
  {
    size_t cnt = 0;
    quill::detail::ThreadContextManager::instance().for_each_thread_context([&](quill::detail::ThreadContext*) { ++cnt; });
    return "contexts=" + std::to_string(cnt) + " loggers=" + std::to_string(FE::get_number_of_loggers());
  }
  return "bad-op";
}

int main(int argc, char** argv)
{
  if (argc < 2)
  {
    std::cerr << "usage: h2_backend <script>\n";
    return 2;
  }
  std::ios::sync_with_stdio(false);
  std::ifstream in(argv[1]);
  std::string line;
  quill::BackendOptions bo;
  bo.error_notifier = [](std::string const& s)
  {
    std::string const c = canon_notifier(s);
    g_events.push_back(c);
    if (c.rfind("n:alloc", 0) == 0 && g_alloc_notice_throws)
    {
      g_alloc_notice_throws = false;
      throw std::runtime_error("notifier failure");
    }
    // site 8.k: inside the k-th drop / blocked report of this poll (the frontend keeps running meanwhile)
    if (!tl_actor && g_in_poll && (c.rfind("n:dropped", 0) == 0 || c.rfind("n:blocked", 0) == 0)) { hook(8); }
  };
  bo.sink_min_flush_interval = std::chrono::milliseconds{0};
  bool started = false;
  quill::detail::verif_yield_hook = hook;
  while (std::getline(in, line))
  {
    auto const arrow = line.find(" => ");
    if (arrow != std::string::npos) { line = line.substr(0, arrow); }
    auto w = split(line);
    if (w.empty() || w[0][0] == '#') { continue; }
    if (w[0] == "cfg")
    {
      for (size_t i = 1; i < w.size(); ++i)
      {
        auto kv = split(w[i], '=');
        if (kv.size() != 2) { continue; }
        long long const v = std::stoll(kv[1]);
        if (kv[0] == "grace") { bo.log_timestamp_ordering_grace_period = std::chrono::microseconds{v}; }
        else if (kv[0] == "soft") { bo.transit_events_soft_limit = static_cast<size_t>(v); }
        else if (kv[0] == "hard") { bo.transit_events_hard_limit = static_cast<size_t>(v); }
        else if (kv[0] == "tcap") { bo.transit_event_buffer_initial_capacity = static_cast<uint32_t>(v); }
        else if (kv[0] == "flushint") { bo.sink_min_flush_interval = std::chrono::milliseconds{v}; }
        else if (kv[0] == "waitexit") { bo.wait_for_queues_to_empty_before_exit = v != 0; }
      }
      std::cout << line << " => variant=" << H2_VARIANT << " qcap=" << H2_QCAP << " qmax=" << H2_QMAX << "\n";
      continue;
    }
    if (w[0] == "sink")
    {
      int const sid = std::stoi(w[1]);
      std::string pat;
      bool unreg = false;
      for (size_t i = 2; i < w.size(); ++i)
      {
        if (w[i].rfind("pat=", 0) == 0) { pat = w[i].substr(4); }
        if (w[i] == "unreg=1") { unreg = true; }
      }
      // pat=bad: an override pattern with an unknown attribute (the backend's PatternFormatter constructor throws);
      // pat=ok: a valid override pattern; unreg=1: built with make_shared, never in the SinkManager registry
      std::shared_ptr<RecSink> sp;
      if (unreg)
      {
        sp = pat.empty() ? std::make_shared<RecSink>(sid)
                         : std::make_shared<RecSink>(sid, quill::PatternFormatterOptions{pat == "bad" ? "%(mesage)" : "%(message)"});
        g_unreg[sid] = sp;
      }
      else if (pat.empty())
      {
        sp = std::static_pointer_cast<RecSink>(FE::create_or_get_sink<RecSink>("s" + std::to_string(sid), sid));
      }
      else
      {
        sp = std::static_pointer_cast<RecSink>(FE::create_or_get_sink<RecSink>(
          "s" + std::to_string(sid), sid, quill::PatternFormatterOptions{pat == "bad" ? "%(mesage)" : "%(message)"}));
      }
      g_sinks[sid] = sp.get();
      g_sinks_keepalive[sid] = sp;
      for (size_t i = 2; i < w.size(); ++i)
      {
        auto kv = split(w[i], '=');
        if (kv.size() != 2) { continue; }
        if (kv[0] == "lvl") { sp->set_log_level_filter(static_cast<quill::LogLevel>(std::stoi(kv[1]))); }
        else if (kv[0] == "filt")
        {
          auto mr = split(kv[1], ':');
          if (mr.size() == 2 && std::stoi(mr[0]) > 0)
          {
            sp->add_filter(std::make_unique<ModFilter>("f" + std::to_string(sid), std::stoi(mr[0]), std::stoi(mr[1])));
          }
        }
        else if (kv[0] == "wthrow") { parse_throws(kv[1], sp->wthrow, sp->wkind); }
        else if (kv[0] == "fthrow") { parse_throws(kv[1], sp->fthrow, sp->fkind); }
      }
      std::cout << line << " => ok\n";
      continue;
    }
    if (w[0] == "logger")
    {
      int const g = std::stoi(w[1]);
      std::vector<std::shared_ptr<quill::Sink>> sinks;
      std::vector<int> sids;
      int lvl = 4;
      for (size_t i = 2; i < w.size(); ++i)
      {
        auto kv = split(w[i], '=');
        if (kv.size() != 2) { continue; }
        if (kv[0] == "sinks")
        {
          for (auto const& s : split(kv[1], ','))
          {
            sinks.push_back(lookup_sink(std::stoi(s)));
            sids.push_back(std::stoi(s));
          }
        }
        else if (kv[0] == "lvl") { lvl = std::stoi(kv[1]); }
      }
      auto* lg = FE::create_or_get_logger("g" + std::to_string(g), std::move(sinks),
                                          quill::PatternFormatterOptions{"%(message)"}, quill::ClockSourceType::System);
      lg->set_log_level(static_cast<quill::LogLevel>(lvl));
      g_loggers[g] = lg;
      g_logger_sinks[g] = sids;
      std::cout << line << " => ok\n";
      continue;
    }
    if (w[0] == "start")
    {
      g_mw = quill::Backend::acquire_manual_backend_worker();
      g_mw->init(bo);
      started = true;
      // calibration of the encoded size: one actor, two payload lengths, a private logger, then drain
      {
        Actor cal(1000);
        uint64_t b[3] = {0, 0, 0};
        auto sp = FE::create_or_get_sink<RecSink>("s999", 999);
        auto* lg = FE::create_or_get_logger("zz_calib", sp, quill::PatternFormatterOptions{"%(message)"}, quill::ClockSourceType::System);
        cal.drive(
          [&]
          {
            bool c = false;
            (void)do_log_dynamic_ret(lg, quill::LogLevel::Info, 900000, 10, c);
            b[0] = writer_bytes();
            do_log_static(lg, 4, 900001, 10);
            b[1] = writer_bytes() - b[0];
            do_log_static(lg, 4, 900002, 30);
            b[2] = writer_bytes() - b[0] - b[1];
          });
        g_vnow += 1000000000LL;
        for (int i = 0; i < 8; ++i) { g_mw->poll_one(); }
        cal.quit();
        FE::remove_logger(lg);
        sp.reset();
        for (int i = 0; i < 8; ++i) { g_mw->poll_one(); }
        g_events.clear();
        for (auto& kv : g_sinks) { kv.second->wcalls = 0; kv.second->fcalls = 0; }
        std::cout << "start => dyn10=" << b[0] << " static10=" << b[1] << " static30=" << b[2]
                  << " now=" << (g_vnow.load() - T0) << "\n";
      }
      continue;
    }
    if (!started)
    {
      std::cout << line << " => not-started\n";
      continue;
    }
    g_events.clear();
    std::string const r = exec_op(w);
    std::string const ev = take_events();
    std::cout << line << " => " << r;
    if (!ev.empty()) { std::cout << " | " << ev; }
    std::cout << "\n";
    std::cout.flush(); // keep the trace up to the failing operation if the real code aborts
  }
  // orderly end: stop actors that are idle; parked actors are resumed while polling until they finish
  for (int guard = 0; guard < 10000; ++guard)
  {
    bool any = false;
    for (auto& kv : g_actors)
    {
      if (kv.second->alive && kv.second->st == Actor::PARKED)
      {
        any = true;
        kv.second->drive(nullptr);
      }
    }
    if (!any) { break; }
    if (g_mw) { g_vnow += 1000000; g_mw->poll_one(); }
    else { break; }
  }
  for (auto& kv : g_actors)
  {
    if (kv.second->alive && kv.second->st != Actor::PARKED) { kv.second->quit(); }
  }
  g_events.clear();
  std::cout.flush();
  _exit(0); // parked actors (if the backend is gone) cannot be joined; leave without static destructors
}
