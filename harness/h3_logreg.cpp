// H3 — the by-name logger registry (C17) on the real code.
//
//   h3_logreg gen <seed> <nrandom> <maxops> <exhaustive-len> <findAt> <insertAt>
//   h3_logreg replay <file> <findAt> <insertAt>
//
// Drives the REAL quill::detail::LoggerManager singleton with op sequences over up to 8 names:
//
//   cg <name>       create_or_get_logger<CountLogger>(name, no sinks, …). CONTRACT GUARD: when the reference registry
//                   says the name belongs to a removed logger that the clean-up has not erased yet, the call is NOT made
//                   (outside the contract: the real function returns the dying object / trips
//                   assert(is_valid_logger()) in this non-NDEBUG build) and the observation is `guard`
//   get <name>      get_logger(name)
//   rm <name>       remove_logger(p) for the valid logger p the harness holds under that name (`none` when there is none)
//   cleanup <bits>  cleanup_invalidated_loggers(cb); cb() answers the bits in call order ('1' = queues empty, '0' = not
//                   empty; '1' once exhausted; `-` = no bits)
//   all             get_all_loggers()
//   count           get_number_of_loggers()
//
// After every op it prints `op => observation`. Object ids = ordinal of the construction (the Logger subclass counts
// its constructors); no addresses. `<findAt> <insertAt>` (lower|upper, from the extraction) are only echoed on the
// `init` line for the Lean driver `logreg`.
//
// ORACLE lines: the property itself, checked on the real outputs against a LINEAR-SEARCH reference registry (a
// std::list in creation order, searched front to back by name — no sorted vector, no binary search): the answer of
// every cg / get / rm / cleanup / all / count, and additionally after EVERY op all names of the case are looked up
// again (get_logger(name) must be the reference's valid object of that name or null), get_number_of_loggers and
// get_all_loggers (as a set, and in name order) are compared. After the first ORACLE line of a case the rest of the
// case is skipped (the registry is in an unspecified state).
#include <algorithm>
#include <cstdint>
#include <cstdio>
#include <cstdlib>
#include <fstream>
#include <iostream>
#include <list>
#include <map>
#include <memory>
#include <sstream>
#include <string>
#include <vector>

#include "quill/Logger.h"
#include "quill/core/FrontendOptions.h"
#include "quill/core/LoggerManager.h"
#include "quill/core/PatternFormatterOptions.h"

using namespace quill;

static int g_ctor = 0;
static uint64_t g_oracle = 0;
static std::map<std::string, uint64_t> g_stats;

struct CountLogger : LoggerImpl<FrontendOptions>
{
  int serial;
  CountLogger(std::string n, std::vector<std::shared_ptr<Sink>> s, PatternFormatterOptions p, ClockSourceType c, UserClockSource* u)
    : LoggerImpl<FrontendOptions>(static_cast<std::string&&>(n), static_cast<std::vector<std::shared_ptr<Sink>>&&>(s),
                                  static_cast<PatternFormatterOptions&&>(p), c, u),
      serial(++g_ctor)
  {
  }
};

struct Rng
{
  uint64_t s;
  // the seed is hashed first: consecutive seeds must not give the same stream shifted by one draw
  explicit Rng(uint64_t seed) : s(seed ^ 0xC1710961ull)
  {
    s = next() ^ (seed << 32);
    s = next();
  }
  uint64_t next()
  {
    uint64_t z = (s += 0x9E3779B97F4A7C15ull);
    z = (z ^ (z >> 30)) * 0xBF58476D1CE4E5B9ull;
    z = (z ^ (z >> 27)) * 0x94D049BB133111EBull;
    return z ^ (z >> 31);
  }
  uint64_t below(uint64_t n) { return n ? next() % n : 0; }
  bool chance(unsigned pct) { return below(100) < pct; }
};

// names in std::string order (the driver maps a name to its rank in the table of the init line)
static std::vector<std::string> const NAMES = {"a", "ab", "audit", "b", "metrics", "net", "root", "z"};
static std::vector<unsigned> const FOUR = {2, 4, 5, 6}; // audit, metrics, net, root

struct Ref
{
  std::string name;
  int serial;
  detail::LoggerBase* ptr;
  bool valid;
};

static std::string join_ints(std::vector<int> const& v)
{
  if (v.empty()) { return "-"; }
  std::string o;
  for (size_t i = 0; i < v.size(); ++i) { o += (i ? "," : "") + std::to_string(v[i]); }
  return o;
}
static std::string join_strs(std::vector<std::string> const& v)
{
  if (v.empty()) { return "-"; }
  std::string o;
  for (size_t i = 0; i < v.size(); ++i) { o += (i ? "," : "") + v[i]; }
  return o;
}

struct Case
{
  std::string id;
  std::vector<std::string> names; // the names of this case, sorted
  std::list<Ref> ref;             // reference registry: creation order, linear search
  bool ref_flag{false};
  bool failed{false};
  bool partial_erase{false}; // a clean-up erased an entry that sorted before >= 2 remaining ones

  detail::LoggerManager& lm() { return detail::LoggerManager::instance(); }

  Ref* ref_find(std::string const& n)
  {
    for (auto& r : ref)
    {
      if (r.name == n) { return &r; }
    }
    return nullptr;
  }
  int ref_valid(std::string const& n)
  {
    Ref* r = ref_find(n);
    return r && r->valid ? r->serial : 0;
  }
  std::string dump()
  {
    std::string o;
    for (auto const& e : lm()._loggers)
    {
      o += (o.empty() ? "" : ",") + e->get_logger_name() + ":" +
        (e->is_valid_logger() ? std::to_string(static_cast<CountLogger*>(e.get())->serial) : std::string{"x"});
    }
    return o.empty() ? "-" : o;
  }
  void oracle(std::string const& what)
  {
    ++g_oracle;
    failed = true;
    std::cout << "ORACLE " << what << " vector=" << dump() << " case=" << id << '\n';
  }
  static int serial_of(detail::LoggerBase* p) { return p ? static_cast<CountLogger*>(p)->serial : 0; }

  /** after every op: every name of the case is looked up again; size; get_all_loggers */
  void recheck()
  {
    if (failed) { return; }
    for (auto const& n : names)
    {
      int const want = ref_valid(n);
      int const got = serial_of(lm().get_logger(n));
      ++g_stats["recheck_lookups"];
      if (partial_erase) { ++g_stats["recheck_lookups_after_partial_erase"]; }
      if (got != want)
      {
        oracle(std::string(want ? (got ? "get-returns-another-object" : "get-misses-a-valid-logger") : "get-finds-a-logger-that-is-not-valid") +
               " name=" + n + " want=" + (want ? std::to_string(want) : "none") + " got=" + (got ? std::to_string(got) : "none"));
        return;
      }
    }
    if (lm().get_number_of_loggers() != ref.size())
    {
      oracle("number-of-loggers want=" + std::to_string(ref.size()) + " got=" + std::to_string(lm().get_number_of_loggers()));
      return;
    }
    std::vector<int> got;
    for (auto* p : lm().get_all_loggers()) { got.push_back(serial_of(p)); }
    std::vector<int> want; // reference: valid loggers, names compared pairwise (selection, not a sorted search structure)
    for (auto const& n : names)
    {
      if (int k = ref_valid(n)) { want.push_back(k); }
    }
    if (got != want)
    {
      auto gs = got, ws = want;
      std::sort(gs.begin(), gs.end());
      std::sort(ws.begin(), ws.end());
      oracle(std::string(gs == ws ? "all-loggers-not-in-name-order" : "all-loggers-wrong-set") + " want=" + join_ints(want) + " got=" + join_ints(got));
    }
  }

  void begin(std::string const& cid, std::string const& par, std::vector<std::string> const& ns)
  {
    id = cid;
    names = ns;
    ref.clear();
    ref_flag = false;
    failed = false;
    partial_erase = false;
    lm()._loggers.clear();
    lm()._has_invalidated_loggers.store(false);
    g_ctor = 0;
    std::cout << "init " << id << ' ' << par << ' ' << join_strs(names) << '\n';
    ++g_stats["cases"];
  }

  void cg(std::string const& n)
  {
    if (failed) { return; }
    Ref* r = ref_find(n);
    ++g_stats["ops"];
    if (r && !r->valid)
    {
      std::cout << "cg " << n << " => guard\n";
      ++g_stats["cg_guarded"];
      recheck();
      return;
    }
    int const c0 = g_ctor;
    std::cout << "cg " << n << std::flush;
    detail::LoggerBase* p = lm().create_or_get_logger<CountLogger>(n, std::vector<std::shared_ptr<Sink>>{}, PatternFormatterOptions{},
                                                                 ClockSourceType::System, nullptr);
    int const got = serial_of(p);
    int const made = g_ctor - c0;
    std::cout << " => id=" << got << " new=" << made << '\n';
    ++g_stats[made ? "cg_constructed" : "cg_existing"];
    if (partial_erase) { ++g_stats["lookups_after_partial_erase"]; }
    if (!p) { oracle("cg-returns-null name=" + n); }
    else if (r)
    {
      if (got != r->serial) { oracle("cg-returns-object-different-from-the-valid-one name=" + n + " valid=" + std::to_string(r->serial) + " got=" + std::to_string(got)); }
      else if (made != 0) { oracle("cg-constructs-although-a-valid-logger-exists name=" + n + " constructed=" + std::to_string(made)); }
    }
    else
    {
      if (made != 1 || got != g_ctor) { oracle("cg-not-a-fresh-object name=" + n + " got=" + std::to_string(got) + " constructed=" + std::to_string(made)); }
      ref.push_back(Ref{n, got, p, true});
    }
    recheck();
  }

  void get(std::string const& n)
  {
    if (failed) { return; }
    int const want = ref_valid(n);
    std::cout << "get " << n << std::flush;
    int const got = serial_of(lm().get_logger(n));
    std::cout << " => " << (got ? "id=" + std::to_string(got) : std::string{"none"}) << '\n';
    ++g_stats["ops"];
    ++g_stats[got ? "get_found" : "get_null"];
    if (partial_erase) { ++g_stats["lookups_after_partial_erase"]; }
    if (got != want)
    {
      oracle(std::string(want ? (got ? "get-returns-another-object" : "get-misses-a-valid-logger") : "get-finds-a-logger-that-is-not-valid") +
             " name=" + n + " want=" + (want ? std::to_string(want) : "none") + " got=" + (got ? std::to_string(got) : "none"));
    }
    recheck();
  }

  void rm(std::string const& n)
  {
    if (failed) { return; }
    Ref* r = ref_find(n);
    ++g_stats["ops"];
    if (r && r->valid)
    {
      std::cout << "rm " << n << std::flush;
      lm().remove_logger(r->ptr);
      r->valid = false;
      ref_flag = true;
      std::cout << " => ok\n";
      ++g_stats["removes"];
      if (!lm().has_invalidated_loggers()) { oracle("remove-does-not-raise-the-flag name=" + n); }
    }
    else
    {
      std::cout << "rm " << n << " => none\n";
      ++g_stats["removes_of_nothing"];
    }
    recheck();
  }

  void cleanup(std::string const& bits)
  {
    if (failed) { return; }
    std::string const b = bits == "-" ? std::string{} : bits;
    // expected, from the reference: invalid loggers taken name by name in ascending order
    std::vector<std::string> want_removed, want_kept_invalid;
    size_t want_calls = 0;
    bool want_flag = false;
    if (ref_flag)
    {
      std::vector<std::string> inv;
      for (auto const& r : ref)
      {
        if (!r.valid) { inv.push_back(r.name); }
      }
      std::sort(inv.begin(), inv.end());
      for (auto const& n : inv)
      {
        bool const empty = want_calls < b.size() ? b[want_calls] != '0' : true;
        ++want_calls;
        if (empty) { want_removed.push_back(n); }
        else
        {
          want_kept_invalid.push_back(n);
          want_flag = true;
        }
      }
    }
    // does an erased entry sort before >= 2 entries that stay?
    bool partial = false;
    for (auto const& n : want_removed)
    {
      size_t behind = 0;
      for (auto const& r : ref)
      {
        if (r.name > n && std::find(want_removed.begin(), want_removed.end(), r.name) == want_removed.end()) { ++behind; }
      }
      if (behind >= 2) { partial = true; }
    }
    size_t calls = 0;
    std::cout << "cleanup " << (b.empty() ? "-" : b) << std::flush;
    std::vector<std::string> removed = lm().cleanup_invalidated_loggers(
      [&]
      {
        bool const empty = calls < b.size() ? b[calls] != '0' : true;
        ++calls;
        return empty;
      });
    bool const flag = lm().has_invalidated_loggers();
    size_t const n = lm().get_number_of_loggers();
    std::cout << " => removed=" << join_strs(removed) << " n=" << n << " flag=" << (flag ? 1 : 0) << '\n';
    ++g_stats["ops"];
    ++g_stats["cleanups"];
    g_stats["entries_erased"] += removed.size();
    if (partial)
    {
      partial_erase = true;
      ++g_stats["cleanups_erasing_before_two_remaining"];
    }
    if (!want_kept_invalid.empty()) { ++g_stats["cleanups_keeping_a_busy_logger"]; }
    // the reference forgets what was reported as removed
    for (auto const& rn : want_removed)
    {
      for (auto it = ref.begin(); it != ref.end(); ++it)
      {
        if (it->name == rn && !it->valid)
        {
          ref.erase(it);
          break;
        }
      }
    }
    ref_flag = want_flag;
    if (removed != want_removed)
    {
      auto a = removed, w = want_removed;
      std::sort(a.begin(), a.end());
      std::sort(w.begin(), w.end());
      oracle(std::string(a == w ? "cleanup-returns-the-names-out-of-order" : "cleanup-removes-other-loggers") + " want=" + join_strs(want_removed) +
             " got=" + join_strs(removed));
    }
    else if (calls != want_calls) { oracle("cleanup-calls-the-queue-check want=" + std::to_string(want_calls) + " got=" + std::to_string(calls)); }
    else if (flag != want_flag) { oracle("cleanup-flag want=" + std::to_string(want_flag) + " got=" + std::to_string(flag)); }
    else
    {
      // every reference object must still be owned by the vector (nothing else was destroyed)
      for (auto const& r : ref)
      {
        bool owned = false;
        for (auto const& e : lm()._loggers) { owned = owned || e.get() == r.ptr; }
        if (!owned)
        {
          oracle("cleanup-destroyed-a-logger-it-did-not-report name=" + r.name);
          break;
        }
      }
    }
    recheck();
  }

  void all()
  {
    if (failed) { return; }
    std::vector<int> got;
    for (auto* p : lm().get_all_loggers()) { got.push_back(serial_of(p)); }
    std::cout << "all => " << join_ints(got) << '\n';
    ++g_stats["ops"];
    recheck(); // compares get_all_loggers with the reference
  }

  void count()
  {
    if (failed) { return; }
    std::cout << "count => " << lm().get_number_of_loggers() << '\n';
    ++g_stats["ops"];
    recheck();
  }

  void end()
  {
    lm()._loggers.clear();
    lm()._has_invalidated_loggers.store(false);
    ref.clear();
  }
};

static std::vector<std::string> split_ws(std::string const& s)
{
  std::vector<std::string> o;
  std::istringstream is(s);
  std::string w;
  while (is >> w) { o.push_back(w); }
  return o;
}

static std::vector<std::string> names_of(std::vector<unsigned> const& ix)
{
  std::vector<std::string> o;
  for (unsigned i : ix) { o.push_back(NAMES[i]); }
  return o;
}

// ---- directed: the window of the property for every position of the removed logger in 3..5 loggers ----
static void run_directed(Case& c, std::string const& par)
{
  unsigned k = 0;
  for (unsigned total = 3; total <= 5; ++total)
  {
    for (unsigned victim = 0; victim < total; ++victim)
    {
      for (unsigned busy = 0; busy < 2; ++busy)
      {
        std::vector<std::string> ns(NAMES.begin() + 1, NAMES.begin() + 1 + total);
        c.begin("d" + std::to_string(k++), par, ns);
        for (unsigned i = 0; i < total; ++i) { c.cg(ns[(i * 2 + 1) % total]); } // not in name order (total odd or not: a permutation when gcd=1, repeats otherwise)
        for (unsigned i = 0; i < total; ++i) { c.cg(ns[i]); }
        c.rm(ns[victim]);
        c.get(ns[victim]);
        c.cg(ns[victim]); // guard
        if (busy)
        {
          c.cleanup("0");
          c.get(ns[victim]);
          c.cg(ns[victim]); // still guarded
        }
        c.cleanup("-");
        for (auto const& n : ns) { c.get(n); }
        for (auto const& n : ns) { c.cg(n); } // the victim is re-created, everything else must be the old object
        c.all();
        c.count();
        c.end();
        ++g_stats["gen_directed"];
      }
    }
  }
}

// ---- exhaustive over four names ----
// (1) every sequence of length <= min(maxlen, 4) over the full alphabet {cg, get, rm} x 4 names + {cleanup -, cleanup 0}
//     that starts with a creation;
// (2) every sequence of exactly `maxlen` STATE-CHANGING ops (cg of an absent name, rm of a valid name, `cleanup -` /
//     `cleanup 0` when the flag is raised): the ops that change nothing are covered by the look-up of every name
//     after every op. All prefixes are checked on the way.
struct Sym
{
  char k; // c g r s(weep -) S(weep 0)
  unsigned name;
};
static void apply(Case& c, std::vector<std::string> const& ns, Sym s)
{
  switch (s.k)
  {
  case 'c': c.cg(ns[s.name]); break;
  case 'g': c.get(ns[s.name]); break;
  case 'r': c.rm(ns[s.name]); break;
  case 's': c.cleanup("-"); break;
  default: c.cleanup("0");
  }
}

static uint64_t g_xk = 0;
static void effective_dfs(Case& c, std::string const& par, std::vector<std::string> const& ns, std::vector<Sym>& seq,
                          std::vector<int>& st /*0 absent 1 valid 2 invalid*/, bool flag, unsigned maxlen)
{
  if (seq.size() == maxlen)
  {
    c.begin("e" + std::to_string(g_xk++), par, ns);
    for (auto s : seq) { apply(c, ns, s); }
    c.end();
    ++g_stats["gen_exhaustive_effective"];
    return;
  }
  for (unsigned n = 0; n < ns.size(); ++n)
  {
    if (st[n] == 0)
    {
      st[n] = 1;
      seq.push_back({'c', n});
      effective_dfs(c, par, ns, seq, st, flag, maxlen);
      seq.pop_back();
      st[n] = 0;
    }
    else if (st[n] == 1)
    {
      st[n] = 2;
      seq.push_back({'r', n});
      effective_dfs(c, par, ns, seq, st, true, maxlen);
      seq.pop_back();
      st[n] = 1;
    }
  }
  if (flag)
  {
    // all answers "empty": every invalid entry goes
    std::vector<int> st2 = st;
    for (auto& x : st2) { x = x == 2 ? 0 : x; }
    seq.push_back({'s', 0});
    effective_dfs(c, par, ns, seq, st2, false, maxlen);
    seq.pop_back();
    // first answer "not empty": the first invalid entry (in name order) stays, the others go
    bool first = true, any = false;
    st2 = st;
    for (auto& x : st2)
    {
      if (x == 2)
      {
        if (first) { first = false; any = true; }
        else { x = 0; }
      }
    }
    if (any)
    {
      seq.push_back({'S', 0});
      effective_dfs(c, par, ns, seq, st2, true, maxlen);
      seq.pop_back();
    }
  }
}

static void run_exhaustive(Case& c, std::string const& par, unsigned maxlen)
{
  if (maxlen == 0) { return; }
  auto const ns = names_of(FOUR);
  std::vector<Sym> alpha;
  for (char k : {'c', 'g', 'r'})
  {
    for (unsigned n = 0; n < 4; ++n) { alpha.push_back({k, n}); }
  }
  alpha.push_back({'s', 0});
  alpha.push_back({'S', 0});
  std::vector<size_t> idx;
  for (unsigned len = 1; len <= std::min(maxlen, 4u); ++len)
  {
    idx.assign(len, 0);
    for (;;)
    {
      if (alpha[idx[0]].k == 'c')
      {
        c.begin("x" + std::to_string(g_xk++), par, ns);
        for (size_t i : idx) { apply(c, ns, alpha[i]); }
        c.end();
        ++g_stats["gen_exhaustive_full_alphabet"];
      }
      size_t j = 0;
      while (j < len && ++idx[j] == alpha.size())
      {
        idx[j] = 0;
        ++j;
      }
      if (j == len) { break; }
    }
  }
  std::vector<Sym> seq;
  std::vector<int> st(4, 0);
  effective_dfs(c, par, ns, seq, st, false, maxlen);
}

// ---- random, biased towards: >= 3 loggers, remove one that sorts before >= 2 that stay, clean up, look everything up ----
static void run_random(Case& c, std::string const& par, uint64_t seed, unsigned ncases, unsigned maxops)
{
  Rng r(seed);
  for (unsigned k = 0; k < ncases; ++k)
  {
    unsigned const nn = 4 + static_cast<unsigned>(r.below(5)); // 4..8 names
    std::vector<unsigned> ix;
    for (unsigned i = 0; i < NAMES.size(); ++i) { ix.push_back(i); }
    while (ix.size() > nn) { ix.erase(ix.begin() + static_cast<long>(r.below(ix.size()))); }
    auto const ns = names_of(ix);
    c.begin("r" + std::to_string(k), par, ns);
    unsigned const len = 8 + static_cast<unsigned>(r.below(maxops > 8 ? maxops - 7 : 1));
    unsigned done = 0;
    auto bits = [&](unsigned n)
    {
      std::string b;
      for (unsigned i = 0; i < n; ++i) { b.push_back(r.chance(25) ? '0' : '1'); }
      return b.empty() ? std::string{"-"} : b;
    };
    while (done < len && !c.failed)
    {
      unsigned const w = static_cast<unsigned>(r.below(100));
      std::vector<std::string> valid;
      for (auto const& n : ns)
      {
        if (c.ref_valid(n)) { valid.push_back(n); }
      }
      if (w < 30 && valid.size() >= 3)
      {
        // the directed window: remove a logger with >= 2 valid ones behind it, clean up, look everything up
        size_t const v = r.below(valid.size() - 2);
        c.rm(valid[v]);
        if (r.chance(30)) { c.get(valid[v]); }
        if (r.chance(25)) { c.cg(valid[v]); }
        if (r.chance(25)) { c.rm(valid[v + 1 + r.below(valid.size() - v - 1)]); }
        c.cleanup(r.chance(70) ? "-" : bits(1 + static_cast<unsigned>(r.below(3))));
        for (auto const& n : ns)
        {
          if (r.chance(70)) { r.chance(50) ? c.get(n) : c.cg(n); }
        }
        done += 4 + static_cast<unsigned>(ns.size());
      }
      else if (w < 60) { c.cg(ns[r.below(ns.size())]); ++done; }
      else if (w < 72) { c.get(ns[r.below(ns.size())]); ++done; }
      else if (w < 84) { c.rm(ns[r.below(ns.size())]); ++done; }
      else if (w < 94) { c.cleanup(bits(static_cast<unsigned>(r.below(4)))); ++done; }
      else if (w < 97) { c.all(); ++done; }
      else { c.count(); ++done; }
    }
    c.end();
    ++g_stats["gen_random"];
  }
}

static int run_replay(Case& c, std::string const& file, std::string const& par)
{
  std::ifstream in(file);
  std::string line;
  bool started = false;
  unsigned k = 0;
  while (std::getline(in, line))
  {
    auto const arrow = line.find(" =>");
    if (arrow != std::string::npos) { line = line.substr(0, arrow); }
    auto w = split_ws(line);
    if (w.empty() || w[0][0] == '#' || w[0] == "ORACLE" || w[0] == "STATS") { continue; }
    if (w[0] == "init")
    {
      if (started) { c.end(); }
      c.begin(w.size() >= 2 ? w[1] : "replay" + std::to_string(k++), par, NAMES);
      started = true;
      continue;
    }
    if (!started)
    {
      c.begin("replay" + std::to_string(k++), par, NAMES);
      started = true;
    }
    bool const known = w.size() >= 2 && std::find(NAMES.begin(), NAMES.end(), w[1]) != NAMES.end();
    if (w[0] == "cg" && known) { c.cg(w[1]); }
    else if (w[0] == "get" && known) { c.get(w[1]); }
    else if (w[0] == "rm" && known) { c.rm(w[1]); }
    else if (w[0] == "cleanup") { c.cleanup(w.size() >= 2 ? w[1] : "-"); }
    else if (w[0] == "all") { c.all(); }
    else if (w[0] == "count") { c.count(); }
  }
  if (started) { c.end(); }
  return 0;
}

int main(int argc, char** argv)
{
  std::ios::sync_with_stdio(false);
  std::string const mode = argc >= 2 ? argv[1] : "";
  Case c;
  if (mode == "gen" && argc >= 8)
  {
    std::string const par = std::string(argv[6]) + " " + argv[7];
    run_directed(c, par);
    run_exhaustive(c, par, static_cast<unsigned>(std::atoi(argv[5])));
    run_random(c, par, std::stoull(argv[2]), static_cast<unsigned>(std::atoi(argv[3])), static_cast<unsigned>(std::atoi(argv[4])));
  }
  else if (mode == "replay" && argc >= 5) { run_replay(c, argv[2], std::string(argv[3]) + " " + argv[4]); }
  else
  {
    std::cerr << "usage: h3_logreg gen <seed> <nrandom> <maxops> <exhaustive-len> <findAt> <insertAt> | replay <file> <findAt> <insertAt>\n";
    return 2;
  }
  std::cout << "STATS";
  for (auto const& kv : g_stats) { std::cout << ' ' << kv.first << '=' << kv.second; }
  std::cout << " oracle_hits=" << g_oracle << '\n';
  std::cout.flush();
  return g_oracle ? 3 : 0;
}
