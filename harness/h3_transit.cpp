// H3 — the real quill::detail::TransitEventBuffer driven by generated histories (C03, buffer growth / slot reuse / shrink).
//   h3_transit gen <seed> <traces> <ops>      |     h3_transit replay <file>
// Output: "init <id> <capacity>" then "op => front=<ts|-> size=<n> cap=<c> empty=<0|1>" per operation, plus ORACLE lines
// from an independent std::deque reference.
#include "quill/backend/TransitEventBuffer.h"
#include <deque>
#include <fstream>
#include <iostream>
#include <sstream>
#include <string>
#include <vector>

using quill::detail::TransitEventBuffer;
static uint64_t g_oracle = 0;

struct Rng
{
  uint64_t s;
  explicit Rng(uint64_t seed) : s(seed * 0x9E3779B97F4A7C15ull + 99991ull) {}
  uint64_t next() { s ^= s << 13; s ^= s >> 7; s ^= s << 17; return s; }
  uint64_t below(uint64_t n) { return n ? next() % n : 0; }
};

struct Runner
{
  std::unique_ptr<TransitEventBuffer> b;
  std::deque<uint64_t> ref;
  std::string id;
  uint64_t next_val{1};
  void init(std::string const& name, uint32_t cap)
  {
    id = name;
    b = std::make_unique<TransitEventBuffer>(cap);
    ref.clear();
    std::cout << "init " << id << " " << b->capacity() << "\n";
  }
  void observe(std::string const& op)
  {
    auto* f = b->front();
    std::cout << op << " => front=";
    if (f) { std::cout << f->timestamp; } else { std::cout << "-"; }
    std::cout << " size=" << b->size() << " cap=" << b->capacity() << " empty=" << (b->empty() ? 1 : 0) << "\n";
    if ((f != nullptr) != !ref.empty() || (f && f->timestamp != ref.front()) || b->size() != ref.size() || b->empty() != ref.empty())
    {
      ++g_oracle;
      std::cout << "ORACLE transit-not-fifo trace=" << id << " expected-front=" << (ref.empty() ? 0 : ref.front())
                << " expected-size=" << ref.size() << "\n";
    }
  }
  void push(uint64_t v)
  {
    quill::detail::TransitEvent* te = b->back();
    te->timestamp = v;
    b->push_back();
    ref.push_back(v);
    observe("push " + std::to_string(v));
  }
  void pop()
  {
    if (b->front()) { b->pop_front(); ref.pop_front(); }
    observe("pop");
  }
  void op(std::vector<std::string> const& w)
  {
    if (w[0] == "push") { push(std::stoull(w[1])); }
    else if (w[0] == "pop") { pop(); }
    else if (w[0] == "reqshrink") { b->request_shrink(); observe("reqshrink"); }
    else if (w[0] == "tryshrink") { b->try_shrink(); observe("tryshrink"); }
  }
};

int main(int argc, char** argv)
{
  std::ios::sync_with_stdio(false);
  if (argc >= 5 && std::string{argv[1]} == "gen")
  {
    Rng rng(std::stoull(argv[2]));
    unsigned const traces = std::stoul(argv[3]), nops = std::stoul(argv[4]);
    for (unsigned t = 0; t < traces; ++t)
    {
      Runner r;
      uint32_t const caps[] = {1, 2, 2, 4, 8, 16};
      r.init("t" + std::string{argv[2]} + "_" + std::to_string(t), caps[rng.below(6)]);
      unsigned bias = 60;
      for (unsigned i = 0; i < nops; ++i)
      {
        if (rng.below(25) == 0) { bias = static_cast<unsigned>(rng.below(3)) * 35 + 15; }
        uint64_t const x = rng.below(100);
        if (x < bias) { r.push(r.next_val++); }
        else if (x < 92) { r.pop(); }
        else if (x < 96) { r.op({"reqshrink"}); }
        else { r.op({"tryshrink"}); }
      }
      while (r.b->front()) { r.pop(); }
      r.op({"reqshrink"});
      r.op({"tryshrink"});
      r.push(r.next_val++);
      r.pop();
    }
    std::cout << "STATS oracle_violations=" << g_oracle << "\n";
    return g_oracle ? 3 : 0;
  }
  if (argc >= 3 && std::string{argv[1]} == "replay")
  {
    std::ifstream in(argv[2]);
    std::string line;
    Runner r;
    while (std::getline(in, line))
    {
      auto const arrow = line.find(" => ");
      if (arrow != std::string::npos) { line = line.substr(0, arrow); }
      std::istringstream is(line);
      std::vector<std::string> w;
      std::string tok;
      while (is >> tok) { w.push_back(tok); }
      if (w.empty() || w[0][0] == '#') { continue; }
      if (w[0] == "init" && w.size() >= 3) { r.init(w[1], static_cast<uint32_t>(std::stoul(w[2]))); continue; }
      if (r.b) { r.op(w); }
    }
    std::cout << "STATS oracle_violations=" << g_oracle << "\n";
    return g_oracle ? 3 : 0;
  }
  std::cerr << "usage: h3_transit gen <seed> <traces> <ops> | replay <file>\n";
  return 2;
}
