// H1 — the real quill::detail::BoundedSPSCQueueImpl<T> under the atomic shim (C01, C09 queue level).
//
// Generator mode:  h1_spsc gen <seed> <traces> <ops-per-trace> <wStore> <wLoad> <rStore> <rLoad> <drain>
// Replay mode:     h1_spsc replay <file>            (lines "init …" and bare ops, as printed by the driver's search)
//
// Output: one "init" line per trace, then "op => observation" per API call (the Lean driver replays exactly
// these), interleaved with "ORACLE …" lines whenever the property itself is seen to fail on the real code
// (payload mismatch, FIFO mismatch, happens-before race on a payload byte, record outside the storage,
// drained-queue refusal), and "ORDERS …" lines with the memory orders observed at run time.
#include <algorithm>
#include <atomic>
#include <cassert>
#include <cerrno>
#include <cstddef>
#include <cstdint>
#include <cstdio>
#include <cstdlib>
#include <cstring>
#include <deque>
#include <exception>
#include <fstream>
#include <functional>
#include <iostream>
#include <limits>
#include <map>
#include <memory>
#include <random>
#include <sstream>
#include <string>
#include <string_view>
#include <type_traits>
#include <vector>
#include <sys/mman.h>
#include <unistd.h>

#include "vshim.h"
namespace std
{
template <class T>
using verif_atomic = vshim::atomic<T>;
}
#define atomic verif_atomic
#include "quill/core/BoundedSPSCQueue.h"
#undef atomic

using vshim::world;

static uint64_t g_oracle_violations = 0;
static std::map<std::string, uint64_t> g_stats;
static std::string g_orders_seen[4] = {"-", "-", "-", "-"}; // wStore wLoad rStore rLoad

static uint8_t stamp(uint64_t abs_pos) { return static_cast<uint8_t>((abs_pos * 131u + 7u) & 0xffu); }

struct Rng
{
  uint64_t s;
  explicit Rng(uint64_t seed) : s(seed * 0x9E3779B97F4A7C15ull + 0x1234567ull) {}
  uint64_t next()
  {
    s ^= s << 13;
    s ^= s >> 7;
    s ^= s << 17;
    return s;
  }
  uint64_t below(uint64_t n) { return n ? next() % n : 0; }
  bool chance(unsigned pct) { return below(100) < pct; }
};

template <typename T>
struct Runner
{
  using Q = quill::detail::BoundedSPSCQueueImpl<T>;
  std::unique_ptr<Q> q;
  uint64_t cap{0};
  uint64_t M{0};
  uint64_t base_shift{0}; // positions start at this value (multiple of cap) to reach the integer wrap early
  std::byte* base{nullptr};
  std::string id;
  // shadow payload state
  std::vector<uint64_t> wEpoch, rEpoch;
  std::deque<std::pair<uint64_t, uint64_t>> fifo; // (abs start, n) of records finished by the producer
  uint64_t abs_w{0}, abs_r{0};
  // pending
  bool have_grant{false};
  uint64_t grant_n{0};
  std::byte* grant_ptr{nullptr};
  bool reading{false};
  uint64_t read_n{0};
  std::byte* read_ptr{nullptr};
  uint64_t line_no{0};
  int wpos_loc{-1}, rpos_loc{-1};
  bool last_denied{false};
  bool consumer_committed{true};  // commit_read was the consumer's last queue action after a finish_read
  bool producer_committed{true};  // commit_write followed the last finish_write

  std::vector<std::string> pending_oracles; // printed after the current op line is complete
  void oracle(std::string const& what)
  {
    ++g_oracle_violations;
    pending_oracles.push_back("ORACLE " + what + " trace=" + id + " after-line=" + std::to_string(line_no));
  }
  void flush_oracles()
  {
    for (auto const& o : pending_oracles) { std::cout << o << "\n"; }
    pending_oracles.clear();
  }

  void init(std::string const& trace_id, uint64_t capacity, unsigned percent, bool shift, std::string const orders[4], bool drain)
  {
    world().reset();
    id = trace_id;
    q = std::make_unique<Q>(static_cast<T>(capacity), quill::HugePagesPolicy::Never, static_cast<T>(percent));
    cap = static_cast<uint64_t>(q->_capacity);
    {
      uint64_t p2 = 1;
      while (p2 < capacity) { p2 <<= 1; }
      if (cap != p2 || static_cast<uint64_t>(q->capacity()) != p2)
      {
        oracle("capacity-not-least-power-of-two requested=" + std::to_string(capacity) + " got=" + std::to_string(cap));
      }
    }
    M = (sizeof(T) >= 8) ? 0 : (1ull << (8 * sizeof(T)));
    base = q->_storage;
    wpos_loc = q->_atomic_writer_pos.id();
    rpos_loc = q->_atomic_reader_pos.id();
    world().set_owner(wpos_loc, 0);
    world().set_owner(rpos_loc, 1);
    base_shift = 0;
    if (shift)
    {
      // start every position shortly before the integer wrap (a multiple of the capacity, so offsets agree)
      uint64_t const maxv = static_cast<uint64_t>(std::numeric_limits<T>::max());
      uint64_t const start = (maxv - cap * 2 + 1) & ~(cap - 1);
      base_shift = start;
      q->_writer_pos = static_cast<T>(start);
      q->_reader_pos = static_cast<T>(start);
      q->_reader_pos_cache = static_cast<T>(start);
      q->_writer_pos_cache = static_cast<T>(start);
      q->_atomic_writer_pos.store(static_cast<T>(start));
      q->_atomic_reader_pos.store(static_cast<T>(start));
    }
    wEpoch.assign(2 * cap, 0);
    rEpoch.assign(2 * cap, 0);
    fifo.clear();
    abs_w = abs_r = 0;
    have_grant = reading = false;
    consumer_committed = producer_committed = true;
    line_no = 0;
    uint64_t const batch = static_cast<uint64_t>(q->_bytes_per_batch);
    // M is printed as 0 for 64-bit (the driver then uses 2^64)
    std::cout << "init " << id << " " << cap << " " << batch << " " << (M ? std::to_string(M) : std::string{"18446744073709551616"})
              << " " << orders[0] << " " << orders[1] << " " << orders[2] << " " << orders[3] << " " << (drain ? 1 : 0) << "\n";
  }

  uint64_t unshift(uint64_t v) const
  {
    // position value as seen from a machine that started at 0
    if (M) { return (v + M - (base_shift % M)) % M; }
    return v - base_shift;
  }

  void note_orders()
  {
    for (auto const& a : world().log)
    {
      int slot = -1;
      if (a.loc_id == wpos_loc) { slot = a.is_store ? 0 : 1; }
      else if (a.loc_id == rpos_loc)
      {
        if (a.is_store) { slot = 2; }
        else if (a.actor == 0) { slot = 3; } // the producer's load; the consumer's own relaxed read-back is private
      }
      if (slot >= 0)
      {
        std::string const nm = vshim::order_name(a.order);
        if (g_orders_seen[slot] == "-") { g_orders_seen[slot] = nm; }
        else if (g_orders_seen[slot] != nm) { g_orders_seen[slot] = "mixed"; }
      }
      if (!a.is_store && a.stale) { ++g_stats["stale_loads"]; }
    }
    for (auto const& f : world().faults) { oracle("shim-fault " + f); }
    world().faults.clear();
  }

  std::string pub_obs(int loc) const
  {
    for (auto const& a : world().log)
    {
      if (a.is_store && a.loc_id == loc) { return "pub " + std::to_string(unshift(a.value)); }
    }
    return "nopub";
  }

  // ---- API calls -------------------------------------------------------------------------------
  void prepare_write(uint64_t n, int k)
  {
    flush_oracles();
    ++line_no;
    world().begin_call(0, {k});
    std::byte* p = q->prepare_write(static_cast<T>(n));
    note_orders();
    std::cout << "pw " << n << " " << k << " => ";
    if (!p)
    {
      std::cout << "null\n";
      have_grant = false;
      ++g_stats["denies"];
      // C09, queue level: everything written was consumed and both sides committed; the reload returned the
      // newest published position (k = 0); a request that fits the capacity must be granted.
      if (k == 0 && n <= cap && fifo.empty() && !reading && consumer_committed && producer_committed)
      {
        oracle("drained-queue-refuses n=" + std::to_string(n) + " cap=" + std::to_string(cap));
      }
      return;
    }
    uint64_t const off = static_cast<uint64_t>(p - base);
    std::cout << "grant " << off << "\n";
    ++g_stats["grants"];
    have_grant = true;
    grant_n = n;
    grant_ptr = p;
    if (off + n > 2 * cap) { oracle("record-outside-storage off=" + std::to_string(off) + " n=" + std::to_string(n)); }
    if (n > cap) { oracle("granted-more-than-capacity n=" + std::to_string(n)); }
  }

  void finish_write(uint64_t n)
  {
    flush_oracles();
    ++line_no;
    world().begin_call(0);
    if (have_grant && n == grant_n && n >= 1)
    {
      uint64_t const off = static_cast<uint64_t>(grant_ptr - base);
      if (off + n <= 2 * cap)
      {
        // payload stores (plain accesses by the producer)
        for (uint64_t j = 0; j < n; ++j)
        {
          uint64_t const c = off + j;
          if (rEpoch[c] > world().view[0])
          {
            oracle("race-write-vs-read cell=" + std::to_string(c));
          }
          // overwriting a byte of a record the consumer has not finished yet?
          wEpoch[c] = world().epoch[0];
          uint8_t b = stamp(abs_w + j);
          if (j == 0) { b = static_cast<uint8_t>(n & 0xff); }
          if (j == 1) { b = static_cast<uint8_t>((n >> 8) & 0xff); }
          grant_ptr[j] = static_cast<std::byte>(b);
        }
      }
      fifo.emplace_back(abs_w, n);
      abs_w += n;
    }
    q->finish_write(static_cast<T>(n));
    note_orders();
    have_grant = false;
    producer_committed = false;
    std::cout << "fw " << n << " => ok\n";
  }

  void commit_write()
  {
    flush_oracles();
    ++line_no;
    world().begin_call(0);
    q->commit_write();
    producer_committed = true;
    std::string const o = pub_obs(wpos_loc);
    note_orders();
    std::cout << "cw => " << o << "\n";
  }

  void prepare_read(int k)
  {
    flush_oracles();
    ++line_no;
    world().begin_call(1, {k});
    std::byte* p = q->prepare_read();
    note_orders();
    std::cout << "pr " << k << " => ";
    if (!p)
    {
      std::cout << "null\n";
      reading = false;
      return;
    }
    uint64_t const off = static_cast<uint64_t>(p - base);
    std::cout << "read " << off << "\n";
    reading = true;
    read_ptr = p;
    // decode the length from the bytes (plain loads by the consumer)
    if (fifo.empty())
    {
      oracle("read-offered-but-nothing-finished off=" + std::to_string(off));
      read_n = 0;
      reading = false;
      return;
    }
    auto const [start, want] = fifo.front();
    uint64_t n = 0;
    if (off + 2 <= 2 * cap)
    {
      n = static_cast<uint64_t>(static_cast<uint8_t>(p[0]));
      if (want >= 2) { n |= (static_cast<uint64_t>(static_cast<uint8_t>(p[1])) << 8); }
    }
    if (n != want)
    {
      oracle("record-length-mismatch decoded=" + std::to_string(n) + " expected=" + std::to_string(want) + " off=" + std::to_string(off));
      n = want; // keep the two sides in step so that later lines stay comparable
    }
    if (start != abs_r) { oracle("fifo-position-mismatch"); }
    if (off != (abs_r % cap)) { oracle("read-offset-mismatch off=" + std::to_string(off)); }
    bool raced = false, torn = false;
    for (uint64_t j = 0; j < n && off + j < 2 * cap; ++j)
    {
      uint64_t const c = off + j;
      if (wEpoch[c] > world().view[1]) { raced = true; }
      rEpoch[c] = world().epoch[1];
      if (j >= 2 && static_cast<uint8_t>(p[j]) != stamp(abs_r + j)) { torn = true; }
    }
    if (raced) { oracle("race-read-vs-write off=" + std::to_string(off) + " n=" + std::to_string(n)); }
    if (torn) { oracle("payload-mismatch off=" + std::to_string(off) + " n=" + std::to_string(n)); }
    read_n = n;
    ++g_stats["reads"];
  }

  void finish_read(uint64_t n)
  {
    flush_oracles();
    ++line_no;
    world().begin_call(1);
    q->finish_read(static_cast<T>(n));
    note_orders();
    if (!fifo.empty() && reading && n == read_n)
    {
      fifo.pop_front();
      abs_r += n;
    }
    reading = false;
    consumer_committed = false;
    std::cout << "fr " << n << " => ok\n";
  }

  void commit_read()
  {
    flush_oracles();
    ++line_no;
    world().begin_call(1);
    q->commit_read();
    consumer_committed = true;
    std::string const o = pub_obs(rpos_loc);
    if (o != "nopub") { ++g_stats["reader_publications"]; }
    note_orders();
    std::cout << "cr => " << o << "\n";
  }

  void empty(int k)
  {
    flush_oracles();
    ++line_no;
    world().begin_call(1, {k});
    bool const e = q->empty();
    note_orders();
    std::cout << "em " << k << " => empty " << (e ? 1 : 0) << "\n";
    if (e && k == 0 && !fifo.empty())
    {
      // with the newest value loaded, a committed record must be visible
    }
  }

  // C09 (queue level): the consumer has drained everything and committed its reads; the producer's next
  // reload returns the newest published position; every request up to the capacity must be granted.
  void probe_drained(Rng& rng)
  {
    if (have_grant || reading || !fifo.empty()) { return; }
    // make sure everything is committed and consumed
    commit_write();
    prepare_read(0);
    if (reading) { return; }
    commit_read();
    uint64_t const choices[] = {cap, cap - 1, cap / 2 + 1, 2 + rng.below(cap - 1)};
    uint64_t const n = choices[rng.below(4)];
    if (n < 2 || n > cap) { return; }
    ++g_stats["drained_probes"];
    prepare_write(n, 0); // a refusal here is reported by prepare_write's drained-queue oracle
    if (have_grant) { finish_write(n); commit_write(); }
  }

  // ---- generator -------------------------------------------------------------------------------
  void generate(Rng& rng, unsigned nops)
  {
    unsigned phase_len = 0;
    unsigned p_bias = 50;
    for (unsigned i = 0; i < nops; ++i)
    {
      if (phase_len == 0)
      {
        phase_len = 5 + static_cast<unsigned>(rng.below(40));
        unsigned const r = static_cast<unsigned>(rng.below(4));
        p_bias = r == 0 ? 85 : r == 1 ? 15 : 50;
      }
      --phase_len;
      if (rng.chance(p_bias)) { producer_step(rng); }
      else { consumer_step(rng); }
      if (rng.chance(2)) { probe_drained(rng); }
    }
    // drain
    if (have_grant) { finish_write(grant_n); }
    commit_write();
    for (int guard = 0; guard < 100000; ++guard)
    {
      prepare_read(0);
      if (!reading) { break; }
      finish_read(read_n);
      commit_read();
    }
    if (!fifo.empty()) { oracle("records-left-after-drain count=" + std::to_string(fifo.size())); }
    probe_drained(rng);
  }

  int stale_choice(Rng& rng) { return rng.chance(70) ? 0 : 1 + static_cast<int>(rng.below(3)); }

  void producer_step(Rng& rng)
  {
    if (have_grant)
    {
      finish_write(grant_n);
      if (rng.chance(85)) { commit_write(); }
      return;
    }
    uint64_t const max_n = M ? std::min<uint64_t>(M - 1, 2 * cap) : 2 * cap;
    uint64_t const used = abs_w - abs_r; // true occupancy; the producer's view may be staler
    uint64_t const free_true = cap > used ? cap - used : 0;
    uint64_t n;
    if (last_denied && rng.chance(75))
    {
      // after a refusal mostly let the consumer make room, or ask for something that truly fits
      last_denied = false;
      if (free_true < 2 || rng.chance(50)) { consumer_step(rng); return; }
      n = 2 + rng.below(free_true - 1);
      prepare_write(n, stale_choice(rng));
      last_denied = !have_grant;
      return;
    }
    switch (rng.below(9))
    {
    case 0: n = free_true; break;
    case 1: n = free_true + 1; break;
    case 2: n = cap; break;
    case 3: n = cap + 1; break;
    case 4: n = cap / 2; break;
    case 5: n = free_true > 2 ? free_true - 1 : 2; break;
    default: n = 2 + rng.below(std::max<uint64_t>(2, cap / 4)); break;
    }
    if (n < 2) { n = 2; }
    if (n > max_n) { n = max_n; }
    if (rng.chance(10)) { commit_write(); }
    prepare_write(n, stale_choice(rng));
    last_denied = !have_grant;
  }

  void consumer_step(Rng& rng)
  {
    if (reading)
    {
      finish_read(read_n);
      if (rng.chance(80)) { commit_read(); }
      return;
    }
    if (rng.chance(10)) { empty(stale_choice(rng)); return; }
    if (rng.chance(8)) { commit_read(); return; }
    prepare_read(stale_choice(rng));
  }

  // ---- replay ----------------------------------------------------------------------------------
  void replay_op(std::vector<std::string> const& w)
  {
    if (w[0] == "pw" && w.size() >= 3) { prepare_write(std::stoull(w[1]), std::stoi(w[2])); }
    else if (w[0] == "fw" && w.size() >= 2) { if (have_grant) { finish_write(grant_n); } else { std::cout << "# skipped fw (no grant)\n"; } }
    else if (w[0] == "cw") { commit_write(); }
    else if (w[0] == "pr" && w.size() >= 2) { prepare_read(std::stoi(w[1])); }
    else if (w[0] == "fr" && w.size() >= 2) { if (reading) { finish_read(read_n); } else { std::cout << "# skipped fr (nothing offered)\n"; } }
    else if (w[0] == "cr") { commit_read(); }
    else if (w[0] == "em" && w.size() >= 2) { empty(std::stoi(w[1])); }
    else { std::cout << "BAD-REPLAY-OP " << w[0] << "\n"; }
  }
};

static std::vector<std::string> split_ws(std::string const& s)
{
  std::istringstream is(s);
  std::vector<std::string> out;
  std::string t;
  while (is >> t) { out.push_back(t); }
  return out;
}

static void print_tail()
{
  std::cout << "ORDERS-SEEN " << g_orders_seen[0] << " " << g_orders_seen[1] << " " << g_orders_seen[2] << " "
            << g_orders_seen[3] << "\n";
  std::cout << "STATS";
  for (auto const& kv : g_stats) { std::cout << " " << kv.first << "=" << kv.second; }
  std::cout << " oracle_violations=" << g_oracle_violations << "\n";
}

// a request that is not a power of two is recorded in the trace id ("…q1500") so that a replay constructs the same queue
static std::string req_suffix(uint64_t rq) { return (rq & (rq - 1)) ? "q" + std::to_string(rq) : std::string{}; }
static uint64_t requested_of(std::string const& id, uint64_t cap)
{
  auto const k = id.rfind('q');
  if (k == std::string::npos || k + 1 >= id.size()) { return cap; }
  for (size_t j = k + 1; j < id.size(); ++j) { if (id[j] < '0' || id[j] > '9') { return cap; } }
  return std::stoull(id.substr(k + 1));
}

int main(int argc, char** argv)
{
  std::ios::sync_with_stdio(false);
  if (argc >= 2 && std::string{argv[1]} == "gen" && argc >= 10)
  {
    uint64_t const seed = std::stoull(argv[2]);
    unsigned const traces = static_cast<unsigned>(std::stoul(argv[3]));
    unsigned const nops = static_cast<unsigned>(std::stoul(argv[4]));
    std::string orders[4] = {argv[5], argv[6], argv[7], argv[8]};
    bool const drain = std::string{argv[9]} == "1";
    Rng rng(seed);
    unsigned const percents[] = {0, 5, 5, 25, 50, 100};
    for (unsigned t = 0; t < traces; ++t)
    {
      unsigned const pct = percents[rng.below(6)];
      bool const shift = rng.chance(40);
      std::string const tid = "s" + std::to_string(seed) + "t" + std::to_string(t);
      switch (rng.below(3))
      {
      case 0:
      {
        Runner<uint8_t> r;
        // requested capacities; the queue rounds a request up to a power of two (12 -> 16, 100 -> 128)
        uint64_t const caps[] = {8, 16, 32, 64, 128, 12, 24, 100};
        uint64_t const rq = caps[rng.below(8)];
        r.init(tid + "u8" + req_suffix(rq), rq, pct, shift, orders, drain);
        r.generate(rng, nops);
        r.flush_oracles();
        break;
      }
      case 1:
      {
        Runner<uint16_t> r;
        uint64_t const caps[] = {16, 64, 256, 1024, 4096, 32768, 100, 1500, 3000};
        uint64_t const rq = caps[rng.below(9)];
        r.init(tid + "u16" + req_suffix(rq), rq, pct, shift, orders, drain);
        r.generate(rng, nops);
        r.flush_oracles();
        break;
      }
      default:
      {
        Runner<size_t> r;
        uint64_t const caps[] = {16, 64, 128, 1024, 4096, 24, 100, 1500, 3000};
        uint64_t const rq = caps[rng.below(9)];
        r.init(tid + "u64" + req_suffix(rq), rq, pct, shift, orders, drain);
        r.generate(rng, nops);
        r.flush_oracles();
        break;
      }
      }
    }
    print_tail();
    return g_oracle_violations ? 3 : 0;
  }
  if (argc >= 3 && std::string{argv[1]} == "replay")
  {
    std::ifstream in(argv[2]);
    std::string line;
    std::unique_ptr<Runner<uint8_t>> r8;
    std::unique_ptr<Runner<size_t>> r64;
    while (std::getline(in, line))
    {
      auto const arrow = line.find(" => ");
      if (arrow != std::string::npos) { line = line.substr(0, arrow); }
      auto w = split_ws(line);
      if (w.empty() || w[0][0] == '#') { continue; }
      if (w[0] == "init" && w.size() >= 10)
      {
        // init id cap batch M wStore wLoad rStore rLoad drain ; batch is reproduced through percent = batch*100/cap
        uint64_t const cap = std::stoull(w[2]);
        uint64_t const batch = std::stoull(w[3]);
        unsigned const pct = static_cast<unsigned>((batch * 100 + cap - 1) / cap);
        std::string orders[4] = {w[5], w[6], w[7], w[8]};
        std::string drain = w[9];
        if (argc >= 8)
        {
          // parameters as extracted from the current tree override the ones recorded in the file
          for (int i = 0; i < 4; ++i) { orders[i] = argv[3 + i]; }
          drain = argv[7];
        }
        w[9] = drain;
        bool const small = w[4] == "256";
        if (r8) { r8->flush_oracles(); }
        if (r64) { r64->flush_oracles(); }
        r8.reset();
        r64.reset();
        uint64_t const rq = requested_of(w[1], cap);
        if (small) { r8 = std::make_unique<Runner<uint8_t>>(); r8->init(w[1], rq, pct, false, orders, w[9] == "1"); }
        else { r64 = std::make_unique<Runner<size_t>>(); r64->init(w[1], rq, pct, false, orders, w[9] == "1"); }
        continue;
      }
      if (r8) { r8->replay_op(w); }
      else if (r64) { r64->replay_op(w); }
    }
    if (r8) { r8->flush_oracles(); }
    if (r64) { r64->flush_oracles(); }
    print_tail();
    return g_oracle_violations ? 3 : 0;
  }
  std::cerr << "usage: h1_spsc gen <seed> <traces> <ops> <wStore> <wLoad> <rStore> <rLoad> <drain> | replay <file>\n";
  return 2;
}
