// H5 — allocation / formatter-thread witness for C11. No sanitizers in this binary.
// The executable interposes operator new/new[]/delete, malloc/calloc/realloc/free, posix_memalign/aligned_alloc/memalign
// and mmap (link-time interposition: the definitions below win over libc's) and counts calls made by the CALLING thread
// while a thread-local window is open — the window is opened immediately before a real LOG_* macro and closed
// immediately after. The backend (ManualBackendWorker::poll_one) runs on the main thread; log calls are made on worker
// threads, so the thread id recorded inside a user formatter tells which side formatted.
//
// Per case:  case <n> alloc <shape> reg=<0|1> ccap=<size-cache capacity> qcap=<queue capacity> qused=<bytes in use>
//                 qmax=<limit> dyn=<0|1> drained=<0|1: the backend drains the queue after this call> a=<value description>
//            => events=<ctx>,<cachegrow>,<queuegrow>,<temp>,<usercopy>,<format>,<paircopy> ccap=<after> qcap=<after>   (re-computed by the model)
//               new=… newarr=… malloc=… calloc=… realloc=… memalign=… mmap=… cached=<lengths cached> (raw measurement)
// ORACLE lines = the property itself failing on the real code. The expected number of allocations per kind is NOT computed
// here: `driver codec` carries the model's own state of each calling thread from its first call on (logCall, Queue.drain)
// and prints `ORACLE allocation-not-predicted …` when the measurement exceeds what the model predicts for the statement
// (steady state after a drain: record <= capacity => 0; twelve C strings + containers of non-strings => 0; …). The
// oracles below cover what needs no prediction (an allocation no modelled source explains, formatter threads).
//   h5_alloc gen <seed> <n>   |   h5_alloc replay <file>   (lines `seed <s> <n> [only <shape>]`)
#include "codec_shapes.h"

#include <condition_variable>
#include <cstdio>
#include <cstdlib>
#include <fstream>
#include <iostream>
#include <mutex>
#include <new>
#include <sstream>
#include <sys/mman.h>
#include <thread>

// ------------------------------------------------------------------------------------------------------------------
// interposers
// ------------------------------------------------------------------------------------------------------------------
extern "C"
{
  void* __libc_malloc(size_t);
  void* __libc_calloc(size_t, size_t);
  void* __libc_realloc(void*, size_t);
  void __libc_free(void*);
  void* __libc_memalign(size_t, size_t);
}
struct Counters
{
  long n_new, n_newarr, n_malloc, n_calloc, n_realloc, n_memalign, n_mmap, n_copy, n_fmt;
  long total_alloc() const { return n_new + n_newarr + n_malloc + n_calloc + n_realloc + n_memalign + n_mmap; }
};
static thread_local bool WINDOW = false;
static thread_local Counters CNT = {};
namespace cs
{
// hooks called by the instrumented user types of this harness
void note_copy()
{
  if (WINDOW) ++CNT.n_copy;
}
void note_format()
{
  if (WINDOW) ++CNT.n_fmt;
}
} // namespace cs

extern "C" void* malloc(size_t n)
{
  if (WINDOW) ++CNT.n_malloc;
  return __libc_malloc(n);
}
extern "C" void* calloc(size_t a, size_t b)
{
  if (WINDOW) ++CNT.n_calloc;
  return __libc_calloc(a, b);
}
extern "C" void* realloc(void* p, size_t n)
{
  if (WINDOW) ++CNT.n_realloc;
  return __libc_realloc(p, n);
}
extern "C" void free(void* p) { __libc_free(p); }
extern "C" void* memalign(size_t al, size_t n)
{
  if (WINDOW) ++CNT.n_memalign;
  return __libc_memalign(al, n);
}
extern "C" void* aligned_alloc(size_t al, size_t n)
{
  if (WINDOW) ++CNT.n_memalign;
  return __libc_memalign(al, n);
}
extern "C" int posix_memalign(void** out, size_t al, size_t n)
{
  if (WINDOW) ++CNT.n_memalign;
  void* p = __libc_memalign(al, n);
  if (!p) return 12;
  *out = p;
  return 0;
}
extern "C" void* mmap(void* addr, size_t len, int prot, int flags, int fd, off_t off)
{
  if (WINDOW) ++CNT.n_mmap;
  return reinterpret_cast<void*>(::syscall(SYS_mmap, addr, len, prot, flags, fd, off));
}
void* operator new(size_t n)
{
  if (WINDOW) ++CNT.n_new;
  void* p = __libc_malloc(n ? n : 1);
  if (!p) throw std::bad_alloc();
  return p;
}
void* operator new[](size_t n)
{
  if (WINDOW) ++CNT.n_newarr;
  void* p = __libc_malloc(n ? n : 1);
  if (!p) throw std::bad_alloc();
  return p;
}
void* operator new(size_t n, std::align_val_t al)
{
  if (WINDOW) ++CNT.n_new;
  void* p = __libc_memalign(static_cast<size_t>(al), n ? n : 1);
  if (!p) throw std::bad_alloc();
  return p;
}
void* operator new[](size_t n, std::align_val_t al)
{
  if (WINDOW) ++CNT.n_newarr;
  void* p = __libc_memalign(static_cast<size_t>(al), n ? n : 1);
  if (!p) throw std::bad_alloc();
  return p;
}
void* operator new(size_t n, std::nothrow_t const&) noexcept
{
  if (WINDOW) ++CNT.n_new;
  return __libc_malloc(n ? n : 1);
}
void* operator new[](size_t n, std::nothrow_t const&) noexcept
{
  if (WINDOW) ++CNT.n_newarr;
  return __libc_malloc(n ? n : 1);
}
void operator delete(void* p) noexcept { __libc_free(p); }
void operator delete[](void* p) noexcept { __libc_free(p); }
void operator delete(void* p, size_t) noexcept { __libc_free(p); }
void operator delete[](void* p, size_t) noexcept { __libc_free(p); }
void operator delete(void* p, std::align_val_t) noexcept { __libc_free(p); }
void operator delete[](void* p, std::align_val_t) noexcept { __libc_free(p); }
void operator delete(void* p, size_t, std::align_val_t) noexcept { __libc_free(p); }
void operator delete[](void* p, size_t, std::align_val_t) noexcept { __libc_free(p); }

using namespace cs;

// ------------------------------------------------------------------------------------------------------------------
// backend pump: main thread polls on request of the calling thread
// ------------------------------------------------------------------------------------------------------------------
struct Pump
{
  quill::ManualBackendWorker* mw{nullptr};
  RecSink* sink{nullptr};
  quill::Logger* lg{nullptr};
  std::mutex m;
  std::condition_variable cv;
  bool request{false}, done{false}, quit{false};
  size_t want_msgs{0};
  long backend_tid{0};

  void start()
  {
    backend_tid = static_cast<long>(::syscall(SYS_gettid));
    mw = quill::Backend::acquire_manual_backend_worker();
    quill::BackendOptions bo;
    bo.log_timestamp_ordering_grace_period = std::chrono::microseconds{0};
    bo.error_notifier = [](std::string const& s)
    {
      // the notifier also carries the informational "Allocated a new SPSC queue …" message
      if (s.find("Allocated a new SPSC queue") == std::string::npos) std::printf("ORACLE backend-error %s\n", hex(s.data(), s.size()).c_str());
    };
    mw->init(bo);
    auto s = quill::Frontend::create_or_get_sink<RecSink>("rec");
    sink = static_cast<RecSink*>(s.get());
    lg = quill::Frontend::create_or_get_logger(
      "root", s, quill::PatternFormatterOptions{"%(message)", "%H:%M:%S.%Qns", quill::Timezone::GmtTime, false});
    lg->set_log_level(quill::LogLevel::TraceL3);
    lg->init_backtrace(4, quill::LogLevel::None);
    for (int i = 0; i < 4; ++i) mw->poll_one();
  }
  /** main thread */
  void serve()
  {
    std::unique_lock<std::mutex> l{m};
    for (;;)
    {
      cv.wait(l, [&] { return request || quit; });
      if (quit && !request) return;
      request = false;
      size_t target = want_msgs;
      l.unlock();
      for (int i = 0; i < 8 && sink->msgs.size() < target; ++i) mw->poll_one();
      mw->poll_one();
      l.lock();
      done = true;
      cv.notify_all();
    }
  }
  /** calling thread: have the backend process what was logged (until the sink holds `target` messages) */
  void process(size_t target)
  {
    std::unique_lock<std::mutex> l{m};
    want_msgs = target;
    done = false;
    request = true;
    cv.notify_all();
    cv.wait(l, [&] { return done; });
  }
  void stop()
  {
    std::lock_guard<std::mutex> l{m};
    quit = true;
    cv.notify_all();
  }
};

static Pump PUMP;
static long CASE_NO = 0, N_ORACLE = 0, N_NONTRIVIAL = 0, N_PRED_ALLOC = 0, N_ZERO = 0;
static std::string ONLY;
static std::mutex OUT_M;
static std::map<std::string, long> FAM;
static bool want(char const* name) { return ONLY.empty() || ONLY == name; }
static void oracle(std::string const& what, std::string const& detail)
{
  ++N_ORACLE;
  std::printf("ORACLE %s case=%ld %s\n", what.c_str(), CASE_NO, detail.c_str());
}

template <class T>
constexpr bool is_deep = !std::is_same_v<T, quill::utility::StringRef>;
namespace cs
{
template <>
struct Holder<quill::utility::StringRef>
{
  quill::utility::StringRef v{std::string_view{}};
};
} // namespace cs

/** classification of a shape for the property's quantifier */
template <class T>
struct Cls
{
  static constexpr int paths = 0, nonpodstr = 0, nonpod = 0, direct = 0, deferred_pod = 0;
};
/** map families whose element holds a std::string (finding F16: the codec copies each element once per pass) */
template <class T>
struct MapTemp : std::false_type
{
};
template <>
struct MapTemp<std::map<std::string, int32_t>> : std::true_type
{
};
template <>
struct MapTemp<std::unordered_map<uint16_t, std::string>> : std::true_type
{
};
template <>
struct Cls<quill::fs::path>
{
  static constexpr int paths = 1, nonpodstr = 0, nonpod = 0, direct = 0, deferred_pod = 0;
};
template <>
struct Cls<NonPodStr>
{
  static constexpr int paths = 0, nonpodstr = 1, nonpod = 1, direct = 0, deferred_pod = 0;
};
template <>
struct Cls<NonPod8>
{
  static constexpr int paths = 0, nonpodstr = 0, nonpod = 1, direct = 0, deferred_pod = 0;
};
template <>
struct Cls<NonPod16>
{
  static constexpr int paths = 0, nonpodstr = 0, nonpod = 1, direct = 0, deferred_pod = 0;
};
template <>
struct Cls<Direct>
{
  static constexpr int paths = 0, nonpodstr = 0, nonpod = 0, direct = 1, deferred_pod = 0;
};
template <>
struct Cls<Pod>
{
  static constexpr int paths = 0, nonpodstr = 0, nonpod = 0, direct = 0, deferred_pod = 1;
};

template <class T>
void gen_value(Gen& g, T& out)
{
  if constexpr (std::is_same_v<T, quill::utility::StringRef>)
  {
    std::string s = gen_bytes(g, true);
    char* p = g.arena.alloc(s.size());
    std::memcpy(p, s.data(), s.size());
    out = quill::utility::StringRef{std::string_view{p, s.size()}};
  }
  else
  {
    Sh<T>::gen(g, out);
    // temporaries / copies of these two must leave the small-string buffer so that each one is one allocation
    if constexpr (std::is_same_v<T, quill::fs::path>) out = quill::fs::path{"/a/long/directory/name/beyond/sso" + out.string()};
    if constexpr (std::is_same_v<T, NonPodStr>) out.s.append(32, 'z');
    // every string of these maps leaves the small-string buffer: one copy of an element = exactly one allocation
    if constexpr (std::is_same_v<T, std::map<std::string, int32_t>>)
    {
      T r;
      for (auto const& e : out) r.emplace(e.first + "-key-beyond-the-sso-buffer", e.second);
      out = std::move(r);
    }
    if constexpr (std::is_same_v<T, std::unordered_map<uint16_t, std::string>>)
      for (auto& e : out) e.second += "-value-beyond-the-sso-buffer";
  }
}

struct QState
{
  bool reg;
  size_t ccap, qcap, qused, csize;
  void* node;
};
static QState qstate()
{
  QState s{};
  auto* tc = quill::detail::LoggerBase::thread_context;
  s.reg = tc != nullptr;
  if (!tc)
  {
    s.ccap = quill::detail::SizeCacheVector{}.capacity();
    s.qcap = quill::FrontendOptions::initial_queue_capacity;
    s.qused = 0;
    return s;
  }
  auto& q = tc->get_spsc_queue<quill::QueueType::UnboundedBlocking>();
  s.ccap = tc->get_conditional_arg_size_cache().capacity();
  s.csize = tc->get_conditional_arg_size_cache().size();
  s.qcap = q._producer->bounded_queue.capacity();
  s.qused = q._producer->bounded_queue._writer_pos - q._producer->bounded_queue._atomic_reader_pos.load();
  s.node = q._producer;
  return s;
}
static int log2_ratio(size_t after, size_t before)
{
  int k = 0;
  while (before && before < after)
  {
    before *= 2;
    ++k;
  }
  return k;
}

/** one measured log call on the current (calling) thread */
static long FORCE_COUNT = -1; // element count of the top-level sequence containers of the next generated value
template <class... Ts, class LogFn>
void alloc_case(Rng& rng, char const* name, char const* macro, bool dyn, std::string const& extra_desc, int extra_msgs, LogFn log,
                bool drain_after = true)
{
  std::lock_guard<std::mutex> lk{OUT_M};
  ++CASE_NO;
  auto hs = std::make_unique<std::tuple<Holder<Ts>...>>();
  Arena ar;
  cur_arena() = &ar;
  Gen g{rng, ar};
  g.force_count = FORCE_COUNT;
  std::apply([&](auto&... h) { (gen_value(g, h.v), ...); }, *hs);
  std::string desc;
  std::apply([&](auto&... h) { ((desc += (desc.empty() ? "" : ";") + val_of<std::remove_reference_t<decltype(h.v)>>(h.v)), ...); }, *hs);
  desc += extra_desc;
  if (desc.empty()) desc = "-";
  if (desc[0] == ';') desc.erase(0, 1);
  constexpr int n_paths = (Cls<Ts>::paths + ... + 0);
  constexpr int n_nonpodstr = (Cls<Ts>::nonpodstr + ... + 0);
  constexpr int n_nonpod = (Cls<Ts>::nonpod + ... + 0);
  constexpr int n_direct = (Cls<Ts>::direct + ... + 0);
  constexpr int n_defpod = (Cls<Ts>::deferred_pod + ... + 0);
  long caller_tid = static_cast<long>(::syscall(SYS_gettid));
  for (int i = 0; i < 4; ++i)
  {
    FmtTrace::tid(i).store(0);
    FmtTrace::calls(i).store(0);
  }
  QState q0 = qstate();
  size_t msgs0 = PUMP.sink->msgs.size();
  CNT = Counters{};
  WINDOW = true;
  std::apply([&](auto&... h) { log(h.v...); }, *hs);
  WINDOW = false;
  Counters c = CNT;
  QState q1 = qstate();
  long direct_calls_caller = FmtTrace::calls(3).load();
  long direct_tid = FmtTrace::tid(3).load();
  // measured event kinds
  int m_ctx = (!q0.reg && q1.reg) ? 1 : 0;
  int m_cache = log2_ratio(q1.ccap, q0.ccap);
  int m_queue = (q0.reg && q1.node != q0.node) ? 1 : 0;
  int m_temp = 2 * n_paths;    // structural: a path argument calls string() in both passes (each is one `new` here)
  int m_copy = static_cast<int>(c.n_copy);
  int m_fmt = static_cast<int>(c.n_fmt);
  constexpr bool maptemp = (MapTemp<Ts>::value || ... || false);
  // element copies of the map codecs are visible as allocations (one per copied std::string, all beyond SSO here)
  int m_pair = maptemp ? static_cast<int>(c.n_new) - m_queue - m_temp - n_nonpodstr : 0;
  std::printf("case %ld alloc %s reg=%d ccap=%zu qcap=%zu qused=%zu qmax=%zu dyn=%d drained=%d a=%s => events=%d,%d,%d,%d,%d,%d,%d ccap=%zu qcap=%zu "
              "new=%ld newarr=%ld malloc=%ld calloc=%ld realloc=%ld memalign=%ld mmap=%ld cached=%zu macro=%s\n",
              CASE_NO, name, q0.reg ? 1 : 0, q0.ccap, q0.qcap, q0.qused, static_cast<size_t>(quill::FrontendOptions::unbounded_queue_max_capacity),
              dyn ? 1 : 0, drain_after ? 1 : 0, desc.c_str(), m_ctx, m_cache, m_queue, m_temp, m_copy, m_fmt, m_pair, q1.ccap, q1.qcap, c.n_new, c.n_newarr,
              c.n_malloc, c.n_calloc, c.n_realloc, c.n_memalign, c.n_mmap, q1.csize, macro);
  FAM[macro]++;
  bool listed = (n_paths + n_nonpod + n_direct) == 0;
  // ---- the property on the real code ----
  // (1) steady state: registered, at most twelve cached lengths, the record fitted, listed types => no allocation at all
  if (q0.reg && listed && q1.csize <= 12 && m_queue == 0 && c.total_alloc() != 0)
    oracle("alloc-in-steady-state", std::string("shape=") + name + " macro=" + macro + " new=" + std::to_string(c.n_new) + " newarr=" +
                                      std::to_string(c.n_newarr) + " malloc=" + std::to_string(c.n_malloc) + " mmap=" + std::to_string(c.n_mmap) +
                                      " cached=" + std::to_string(q1.csize));
  // (2) every allocation is explained by one of the three sources (or by the documented exclusions)
  if (q0.reg)
  {
    long exp_new = m_queue /* the new node */ + m_temp + n_nonpodstr /* copy of a long std::string member */ + m_pair;
    long exp_newarr = m_cache;
    long exp_mmap = m_queue;
    if (c.n_new != exp_new || c.n_newarr != exp_newarr || c.n_mmap != exp_mmap || c.n_malloc || c.n_calloc || c.n_realloc || c.n_memalign)
      oracle("unexplained-allocation", std::string("shape=") + name + " macro=" + macro + " new=" + std::to_string(c.n_new) + "/" +
                                         std::to_string(exp_new) + " newarr=" + std::to_string(c.n_newarr) + "/" + std::to_string(exp_newarr) +
                                         " mmap=" + std::to_string(c.n_mmap) + "/" + std::to_string(exp_mmap) + " malloc=" +
                                         std::to_string(c.n_malloc + c.n_calloc + c.n_realloc + c.n_memalign));
  }
  else if (c.n_mmap < 1 || c.n_new < 1)
    oracle("first-call-without-context-allocation", name);
  // (3) no formatter on the caller except for direct-format types; those run there (twice: size and encode pass)
  if (m_fmt != 2 * n_direct) oracle("formatter-on-caller", std::string("shape=") + name + " calls=" + std::to_string(m_fmt) + " direct_args=" + std::to_string(n_direct));
  if (n_direct && direct_tid != caller_tid) oracle("direct-format-thread", std::string("shape=") + name);
  // keep everything alive until the backend has formatted (deferred copies are independent, StringRef is not)
  bool all_deep = (is_deep<Ts> && ... && true);
  if (all_deep)
  {
    std::apply([&](auto&... h) { (Sh<std::remove_reference_t<decltype(h.v)>>::scribble(h.v), ...); }, *hs);
    ar.scribble();
    hs.reset();
    ar.release();
  }
  bool predicted_alloc = m_ctx || m_cache || m_queue || m_temp || n_nonpodstr;
  if (predicted_alloc) ++N_PRED_ALLOC;
  if (c.total_alloc() == 0) ++N_ZERO;
  if (q1.csize > 0 || predicted_alloc || (n_nonpod + n_direct + n_defpod) > 0) ++N_NONTRIVIAL;
  if (!drain_after)
  {
    // the record stays in the queue: the next statement of this thread is measured on a queue that is not empty
    cur_arena() = nullptr;
    return;
  }
  PUMP.process(msgs0 + 1 + extra_msgs);
  // (4) deferred-format user types were formatted by the backend thread, and only there
  if (n_defpod && FmtTrace::tid(0).load() != PUMP.backend_tid) oracle("deferred-format-thread", std::string("shape=") + name + " pod");
  if ((n_nonpod - n_nonpodstr) > 0 && FmtTrace::tid(1).load() != PUMP.backend_tid) oracle("deferred-format-thread", std::string("shape=") + name + " nonpod");
  if (n_nonpodstr && FmtTrace::tid(2).load() != PUMP.backend_tid) oracle("deferred-format-thread", std::string("shape=") + name + " nonpod-str");
  if (n_direct && FmtTrace::calls(3).load() != direct_calls_caller) oracle("direct-format-formatted-again-on-backend", std::string("shape=") + name);
  if (extra_msgs >= 0 && PUMP.sink->msgs.size() < msgs0 + 1) oracle("sink-count", name);
  cur_arena() = nullptr;
}

using CS = char const*;
using S = std::string;
using SV = std::string_view;
template <class T>
using V = std::vector<T>;
template <class T>
using O = std::optional<T>;
using MapSI = std::map<S, int32_t>;
using MapID = std::map<int32_t, double>;
using UMap = std::unordered_map<uint16_t, S>;
using Arr4 = std::array<int32_t, 4>;
using ArrS3 = std::array<S, 3>;
using PairIS = std::pair<int32_t, S>;
using PairCC = std::pair<CS, CS>;
using T4 = std::tuple<int32_t, CS, S, double>;

#define ONE(T, NAME)                                                                                                   \
  if (want(NAME))                                                                                                      \
    for (int i_ = 0; i_ < n; ++i_)                                                                                     \
  alloc_case<T>(rng, NAME, "LOG_INFO", false, "", 0, [&](auto& v) { LOG_INFO(PUMP.lg, "v={} end", v); })

/** steady-state calls on one long-lived calling thread */
static void steady(Rng& rng, int n)
{
  if (ONLY.empty() || true)
  {
    // the thread's first call: context creation is the one allowed allocation
    alloc_case<int32_t>(rng, "first-call", "LOG_INFO", false, "", 0, [&](auto& v) { LOG_INFO(PUMP.lg, "first {}", v); });
  }
  ONE(bool, "bool");
  ONE(char, "char");
  ONE(int32_t, "i32");
  ONE(uint64_t, "u64");
  ONE(double, "f64");
  ONE(long double, "f80");
  ONE(E8, "enum8");
  ONE(void const*, "ptr");
  ONE(CS, "cstr");
  ONE(char*, "mcstr");
  ONE(char[8], "carr8");
  ONE(char[33], "carr33");
  ONE(S, "string");
  ONE(SV, "string_view");
  ONE(V<int32_t>, "vec<i32>");
  ONE(V<S>, "vec<string>");
  ONE(V<SV>, "vec<string_view>");
  ONE(V<CS>, "vec<cstr>");
  ONE(std::deque<double>, "deque<f64>");
  ONE(std::deque<S>, "deque<string>");
  ONE(std::list<uint8_t>, "list<u8>");
  ONE(std::forward_list<int32_t>, "fwd<i32>");
  ONE(std::forward_list<S>, "fwd<string>");
  ONE(std::set<int32_t>, "set<i32>");
  ONE(std::set<S>, "set<string>");
  ONE(std::unordered_set<uint32_t>, "uset<u32>");
  ONE(MapID, "map<i32,f64>");
  ONE(MapSI, "map<string,i32>");
  ONE(UMap, "umap<u16,string>");
  ONE(Arr4, "array<i32,4>");
  ONE(ArrS3, "array<string,3>");
  ONE(int16_t[3], "i16[3]");
  ONE(O<int32_t>, "opt<i32>");
  ONE(O<CS>, "opt<cstr>");
  ONE(O<S>, "opt<string>");
  ONE(PairIS, "pair<i32,string>");
  ONE(PairCC, "pair<cstr,cstr>");
  ONE(T4, "tuple4");
  ONE(std::chrono::nanoseconds, "chrono-ns");
  ONE(SysTime, "chrono-tp");
  ONE(Pod, "pod");
  ONE(V<Pod>, "vec<pod>");
  ONE(quill::utility::StringRef, "stringref");
  // documented exclusions: measured and compared with the model all the same
  ONE(NonPod8, "nonpod8");
  ONE(NonPod16, "nonpod16");
  ONE(NonPodStr, "nonpod-str");
  ONE(Direct, "direct");
  ONE(quill::fs::path, "path");

  if (want("m-mix"))
    for (int i_ = 0; i_ < n; ++i_)
      alloc_case<int32_t, CS, S, char[8], O<CS>, V<S>, Pod>(rng, "m-mix", "LOG_INFO", false, "", 0,
                                                          [&](auto&... v) { LOG_INFO(PUMP.lg, "{} {} {} {} {} {} {}", v...); });
  if (want("m-direct-deferred"))
    for (int i_ = 0; i_ < n; ++i_)
      alloc_case<Direct, Pod, NonPod8, Direct>(rng, "m-direct-deferred", "LOG_INFO", false, "", 0,
                                              [&](auto&... v) { LOG_INFO(PUMP.lg, "{} {} {} {}", v...); });
  if (want("m-12cstr"))
    for (int i_ = 0; i_ < n; ++i_)
      alloc_case<CS, CS, CS, CS, CS, CS, CS, CS, CS, CS, CS, CS>(rng, "m-12cstr", "LOG_INFO", false, "", 0,
                                                                [&](auto&... v) { LOG_INFO(PUMP.lg, "{}{}{}{}{}{}{}{}{}{}{}{}", v...); });

  // every macro family on (int32_t, char const*, std::string)
  if (want("macros"))
  {
#define FAM3(MACRO, DYN, EXTRA, XMSG, LOGEXPR)                                                                         \
  alloc_case<int32_t, CS, S>(rng, "macros", MACRO, DYN, EXTRA, XMSG, [&](auto& a, auto& b, auto& c) { LOGEXPR; })
    for (int i_ = 0; i_ < (n > 2 ? 2 : n); ++i_)
    {
      FAM3("LOG_TRACE_L3", false, "", 0, LOG_TRACE_L3(PUMP.lg, "x {} {} {}", a, b, c));
      FAM3("LOG_TRACE_L2", false, "", 0, LOG_TRACE_L2(PUMP.lg, "x {} {} {}", a, b, c));
      FAM3("LOG_TRACE_L1", false, "", 0, LOG_TRACE_L1(PUMP.lg, "x {} {} {}", a, b, c));
      FAM3("LOG_DEBUG", false, "", 0, LOG_DEBUG(PUMP.lg, "x {} {} {}", a, b, c));
      FAM3("LOG_INFO", false, "", 0, LOG_INFO(PUMP.lg, "x {} {} {}", a, b, c));
      FAM3("LOG_NOTICE", false, "", 0, LOG_NOTICE(PUMP.lg, "x {} {} {}", a, b, c));
      FAM3("LOG_WARNING", false, "", 0, LOG_WARNING(PUMP.lg, "x {} {} {}", a, b, c));
      FAM3("LOG_ERROR", false, "", 0, LOG_ERROR(PUMP.lg, "x {} {} {}", a, b, c));
      FAM3("LOG_CRITICAL", false, "", 0, LOG_CRITICAL(PUMP.lg, "x {} {} {}", a, b, c));
      FAM3("LOGV_INFO", false, "", 0, LOGV_INFO(PUMP.lg, "x", a, b, c));
      FAM3("LOGJ_INFO", false, "", 0, LOGJ_INFO(PUMP.lg, "x", a, b, c));
      FAM3("LOG_INFO_TAGS", false, "", 0, LOG_INFO_TAGS(PUMP.lg, TAGS("t1", "t2"), "x {} {} {}", a, b, c));
      FAM3("LOGV_INFO_TAGS", false, "", 0, LOGV_INFO_TAGS(PUMP.lg, TAGS("t1"), "x", a, b, c));
      FAM3("LOGJ_INFO_TAGS", false, "", 0, LOGJ_INFO_TAGS(PUMP.lg, TAGS("t1"), "x", a, b, c));
      FAM3("LOG_INFO_LIMIT", false, ";Pi0100000000000000.", 0, LOG_INFO_LIMIT(std::chrono::nanoseconds{0}, PUMP.lg, "x {} {} {}", a, b, c));
      FAM3("LOGV_INFO_LIMIT", false, ";Pi0100000000000000.", 0, LOGV_INFO_LIMIT(std::chrono::nanoseconds{0}, PUMP.lg, "x", a, b, c));
      FAM3("LOGJ_INFO_LIMIT", false, ";Pi0100000000000000.", 0, LOGJ_INFO_LIMIT(std::chrono::nanoseconds{0}, PUMP.lg, "x", a, b, c));
      FAM3("LOG_INFO_LIMIT_EVERY_N", false, "", 0, LOG_INFO_LIMIT_EVERY_N(1, PUMP.lg, "x {} {} {}", a, b, c));
      FAM3("LOGV_INFO_LIMIT_EVERY_N", false, "", 0, LOGV_INFO_LIMIT_EVERY_N(1, PUMP.lg, "x", a, b, c));
      FAM3("LOGJ_INFO_LIMIT_EVERY_N", false, "", 0, LOGJ_INFO_LIMIT_EVERY_N(1, PUMP.lg, "x", a, b, c));
      FAM3("LOG_DYNAMIC", true, "", 0, LOG_DYNAMIC(PUMP.lg, quill::LogLevel::Warning, "x {} {} {}", a, b, c));
      FAM3("LOG_DYNAMIC_TAGS", true, "", 0, LOG_DYNAMIC_TAGS(PUMP.lg, quill::LogLevel::Error, TAGS("t"), "x {} {} {}", a, b, c));
      FAM3("LOGV_DYNAMIC", true, "", 0, LOGV_DYNAMIC(PUMP.lg, quill::LogLevel::Info, "x", a, b, c));
      FAM3("LOGJ_DYNAMIC", true, "", 0, LOGJ_DYNAMIC(PUMP.lg, quill::LogLevel::Debug, "x", a, b, c));
      FAM3("LOG_RUNTIME_METADATA", true, ";Z662e637070.;Pi2a000000.;Z666e.", 0,
           LOG_RUNTIME_METADATA(PUMP.lg, quill::LogLevel::Info, "f.cpp", 42, "fn", "x {} {} {}", a, b, c));
      FAM3("LOG_BACKTRACE", false, "", -1, LOG_BACKTRACE(PUMP.lg, "x {} {} {}", a, b, c));
      FAM3("LOGV_BACKTRACE", false, "", -1, LOGV_BACKTRACE(PUMP.lg, "x", a, b, c));
      FAM3("LOGJ_BACKTRACE", false, "", -1, LOGJ_BACKTRACE(PUMP.lg, "x", a, b, c));
    }
#undef FAM3
  }
}

/** one measured `LOG_INFO(lg, "{}", std::string(len, 'q'))`. The value description would be up to 1.2 MB of hex: a
    std::string of `len` bytes is given by its length only (`S~len.`), which the model sizes identically. */
static void big_case(char const* name, size_t len, bool drain_after)
{
  std::string s(len, 'q');
  std::lock_guard<std::mutex> lk{OUT_M};
  ++CASE_NO;
  QState q0 = qstate();
  size_t msgs0 = PUMP.sink->msgs.size();
  CNT = Counters{};
  WINDOW = true;
  LOG_INFO(PUMP.lg, "{}", s);
  WINDOW = false;
  Counters c = CNT;
  QState q1 = qstate();
  int m_queue = (q1.node != q0.node) ? 1 : 0;
  std::printf("case %ld alloc %s reg=1 ccap=%zu qcap=%zu qused=%zu qmax=%zu dyn=0 drained=%d a=S~%zu. => events=0,0,%d,0,0,0,0 ccap=%zu qcap=%zu "
              "new=%ld newarr=%ld malloc=%ld calloc=%ld realloc=%ld memalign=%ld mmap=%ld cached=%zu macro=LOG_INFO\n",
              CASE_NO, name, q0.ccap, q0.qcap, q0.qused, static_cast<size_t>(quill::FrontendOptions::unbounded_queue_max_capacity),
              drain_after ? 1 : 0, len, m_queue, q1.ccap, q1.qcap, c.n_new, c.n_newarr, c.n_malloc, c.n_calloc, c.n_realloc, c.n_memalign,
              c.n_mmap, q1.csize);
  FAM["LOG_INFO"]++;
  if (c.n_new != m_queue || c.n_mmap != m_queue || c.n_newarr || c.n_malloc || c.n_calloc || c.n_realloc || c.n_memalign)
    oracle("unexplained-allocation", std::string("shape=") + name + " len=" + std::to_string(len));
  if (!m_queue && c.total_alloc()) oracle("alloc-in-steady-state", std::string("shape=") + name);
  if (m_queue) ++N_PRED_ALLOC;
  if (c.total_alloc() == 0) ++N_ZERO;
  ++N_NONTRIVIAL;
  if (drain_after) PUMP.process(msgs0 + 1);
}

/** a LOG_INFO with as many `{}` as arguments (the packs used below) */
template <class... Vs>
static void log_pack_fn(Vs&... v)
{
  constexpr size_t k = sizeof...(v);
  if constexpr (k == 1)
    LOG_INFO(PUMP.lg, "{}", v...);
  else if constexpr (k == 13)
    LOG_INFO(PUMP.lg, "{}{}{}{}{}{}{}{}{}{}{}{}{}", v...);
  else
    static_assert(k == 1 || k == 13, "add the format string");
}

/** the budget of the size cache (C11: "up to twelve variable-length C-string arguments per statement"), measured where
    it can be seen: on a FRESH thread whose size cache has never grown (the heap capacity sticks for the life of the
    thread), on the FIRST occurrence of the statement — the only earlier log call of the thread is a trivial one.
    `count` >= 0 fixes the element count of the statement's top-level sequence container. */
template <class... Ts>
static void budget_case(Rng& rng, char const* name, long count = -1)
{
  if (!want(name)) return;
  std::thread t(
    [&]
    {
      alloc_case<int32_t>(rng, "first-call", "LOG_INFO", false, "", 0, [&](auto& v) { LOG_INFO(PUMP.lg, "first {}", v); });
      FORCE_COUNT = count;
      alloc_case<Ts...>(rng, name, "LOG_INFO", false, "", 0, [&](auto&... v) { log_pack_fn(v...); });
      FORCE_COUNT = -1;
    });
  t.join();
}

using CS_ = char const*;
#define CS12 CS_, CS_, CS_, CS_, CS_, CS_, CS_, CS_, CS_, CS_, CS_, CS_
#define CS11 CS_, CS_, CS_, CS_, CS_, CS_, CS_, CS_, CS_, CS_, CS_
static void budget(Rng& rng)
{
  // twelve C strings next to a container / optional / pair of NON-string elements: must not need a thirteenth slot
  budget_case<CS12, std::list<int32_t>>(rng, "b-12cstr+list<i32>");
  budget_case<CS12, std::list<std::string>>(rng, "b-12cstr+list<string>");
  budget_case<CS12, std::vector<int32_t>>(rng, "b-12cstr+vec<i32>");
  budget_case<CS12, std::deque<double>>(rng, "b-12cstr+deque<f64>");
  budget_case<CS12, std::array<int32_t, 4>>(rng, "b-12cstr+array<i32,4>");
  budget_case<CS12, std::optional<int32_t>>(rng, "b-12cstr+opt<i32>");
  budget_case<CS12, std::pair<int32_t, double>>(rng, "b-12cstr+pair<i32,f64>");
  budget_case<CS12, std::set<int32_t>>(rng, "b-12cstr+set<i32>");
  budget_case<CS12, std::map<int32_t, double>>(rng, "b-12cstr+map<i32,f64>");
  budget_case<CS11, char[8], std::list<uint8_t>>(rng, "b-11cstr+carr8+list<u8>");
  // … whereas a forward_list takes a slot for its element count: the thirteenth (the model predicts one growth)
  budget_case<CS12, std::forward_list<int32_t>>(rng, "b-12cstr+fwd<i32>");
  // one container of C strings: a slot per element (and one more for a forward_list)
  budget_case<std::list<CS_>>(rng, "b-list<cstr>x12", 12);
  budget_case<std::list<CS_>>(rng, "b-list<cstr>x13", 13);
  budget_case<std::vector<CS_>>(rng, "b-vec<cstr>x12", 12);
  budget_case<std::deque<CS_>>(rng, "b-deque<cstr>x12", 12);
  budget_case<std::forward_list<CS_>>(rng, "b-fwd<cstr>x11", 11);
  budget_case<std::forward_list<CS_>>(rng, "b-fwd<cstr>x12", 12);
}
#undef CS12
#undef CS11

/** "a statement whose encoded size fits in the thread's current queue buffer performs no allocation", on the default
    (unbounded) queue in steady state: a fresh thread, its first call, `nsmall` small records EACH completely consumed
    by the backend (so the queue is empty, and far fewer bytes than the 5 % publish batch have been consumed since the
    reader position was last published on the batch rule alone), then ONE std::string record of `cap - k` encoded bytes.
    Whether that record must, or must not, allocate is the model's call (driver): it fits an EMPTY queue iff it does not
    exceed the capacity. `undrained` > 0: a filler record of that many encoded bytes is left in the queue first — then
    the free space is what counts. */
static void drained_case(Rng& rng, char const* name, int nsmall, long k, size_t undrained)
{
  if (!want(name)) return;
  std::thread t(
    [&]
    {
      alloc_case<int32_t>(rng, "first-call", "LOG_INFO", false, "", 0, [&](auto& v) { LOG_INFO(PUMP.lg, "first {}", v); });
      for (int i = 0; i < nsmall; ++i)
      {
        if (i % 2)
          alloc_case<char const*>(rng, name, "LOG_INFO", false, "", 0, [&](auto& v) { LOG_INFO(PUMP.lg, "small {}", v); });
        else
          alloc_case<int32_t>(rng, name, "LOG_INFO", false, "", 0, [&](auto& v) { LOG_INFO(PUMP.lg, "small {}", v); });
      }
      // header (timestamp + three pointers) + uint32 length prefix of the std::string
      size_t const overhead = sizeof(uint64_t) + 3 * sizeof(uintptr_t) + sizeof(uint32_t);
      long const cap = static_cast<long>(quill::FrontendOptions::initial_queue_capacity);
      if (undrained)
      {
        big_case(name, undrained - overhead, false);
        big_case(name, static_cast<size_t>(cap - static_cast<long>(undrained) - k - static_cast<long>(overhead)), true);
      }
      else
        big_case(name, static_cast<size_t>(cap - k - static_cast<long>(overhead)), true);
    });
  t.join();
}

static void drained(Rng& rng)
{
  // k = cap - record: 0 … just below / at / above the 5 % batch (6553 of 131072), far below; and records that do not fit
  static long const ks[] = {0, 1, 8, 64, 1000, 6552, 6553, 6554, 20000, -1, -64};
  for (long k : ks)
    for (int nsmall : {3, 60})
    {
      std::string name = "d-cap" + std::string(k < 0 ? "+" : "-") + std::to_string(k < 0 ? -k : k) + ".s" + std::to_string(nsmall);
      drained_case(rng, name.c_str(), nsmall, k, 0);
    }
  // the queue is NOT empty: 50000 bytes are still unread, the record fits the free space exactly / by one / not by one
  for (long k : {0L, 1L, -1L})
  {
    std::string name = "d-free" + std::string(k < 0 ? "+" : "-") + std::to_string(k < 0 ? -k : k) + ".undrained";
    drained_case(rng, name.c_str(), 2, k, 50000);
  }
}

/** a fresh thread: first call, then the boundary packs in the order that makes each growth happen exactly once */
static void fresh_thread(Rng& rng, bool big)
{
#define PACK(NAME, ...)                                                                                                \
  if (want(NAME)) alloc_case<__VA_ARGS__>(rng, NAME, "LOG_INFO", false, "", 0, [&](auto&... v) { log_pack(v...); })
  auto log_pack = [&](auto&... v)
  {
    // a format string with as many placeholders as arguments
    static constexpr char const* F[] = {"",
                                        "{}",
                                        "{}{}",
                                        "{}{}{}",
                                        "{}{}{}{}",
                                        "{}{}{}{}{}",
                                        "{}{}{}{}{}{}",
                                        "{}{}{}{}{}{}{}",
                                        "{}{}{}{}{}{}{}{}",
                                        "{}{}{}{}{}{}{}{}{}",
                                        "{}{}{}{}{}{}{}{}{}{}",
                                        "{}{}{}{}{}{}{}{}{}{}{}",
                                        "{}{}{}{}{}{}{}{}{}{}{}{}",
                                        "{}{}{}{}{}{}{}{}{}{}{}{}{}"};
    (void)F;
    constexpr size_t k = sizeof...(v);
    if constexpr (k == 1)
      LOG_INFO(PUMP.lg, "{}", v...);
    else if constexpr (k == 5)
      LOG_INFO(PUMP.lg, "{}{}{}{}{}", v...);
    else if constexpr (k == 12)
      LOG_INFO(PUMP.lg, "{}{}{}{}{}{}{}{}{}{}{}{}", v...);
    else if constexpr (k == 13)
      LOG_INFO(PUMP.lg, "{}{}{}{}{}{}{}{}{}{}{}{}{}", v...);
    else if constexpr (k == 25)
      LOG_INFO(PUMP.lg, "{}{}{}{}{}{}{}{}{}{}{}{}{}{}{}{}{}{}{}{}{}{}{}{}{}", v...);
  };
  alloc_case<int32_t>(rng, "first-call", "LOG_INFO", false, "", 0, [&](auto& v) { LOG_INFO(PUMP.lg, "first {}", v); });
  if (!big)
  {
    PACK("p-5cstr", CS, CS, CS, CS, CS);
    PACK("p-12cstr", CS, CS, CS, CS, CS, CS, CS, CS, CS, CS, CS, CS);
    PACK("p-13cstr", CS, CS, CS, CS, CS, CS, CS, CS, CS, CS, CS, CS, CS);
    PACK("p-13cstr", CS, CS, CS, CS, CS, CS, CS, CS, CS, CS, CS, CS, CS);
    PACK("p-25mixed", CS, char[8], CS, Direct, CS, CS, CS, CS, CS, CS, CS, CS, CS, CS, CS, CS, CS, CS, CS, CS, CS, CS, CS, CS, CS);
    PACK("p-25mixed", CS, char[8], CS, Direct, CS, CS, CS, CS, CS, CS, CS, CS, CS, CS, CS, CS, CS, CS, CS, CS, CS, CS, CS, CS, CS);
    PACK("p-12cstr", CS, CS, CS, CS, CS, CS, CS, CS, CS, CS, CS, CS);
  }
  else if (want("big"))
  {
    // records larger than the free space of the 128 KiB queue: growth to the next power of two that fits, once
    for (size_t len : {size_t{140000}, size_t{140000}, size_t{600000}, size_t{100}, size_t{600000}}) big_case("big", len, true);
  }
#undef PACK
}

static void run_all(uint64_t seed, int n)
{
  Rng rng(seed);
  {
    std::thread t([&] { steady(rng, n); });
    t.join();
  }
  for (int i = 0; i < (n > 4 ? 4 : n); ++i)
  {
    std::thread t([&] { fresh_thread(rng, false); });
    t.join();
  }
  {
    std::thread t([&] { fresh_thread(rng, true); });
    t.join();
  }
  // boundary scenarios, each on a fresh thread of its own (values differ per repetition, the boundaries do not)
  for (int i = 0; i < (n > 2 ? 2 : n); ++i) budget(rng);
  drained(rng);
}

int main(int argc, char** argv)
{
  std::setvbuf(stdout, nullptr, _IOFBF, 1 << 20);
  if (argc < 2) return 2;
  PUMP.start();
  std::printf("init codec N=%zu hdr=%zu lvl=%zu\n", quill::detail::SizeCacheVector{}.capacity(), sizeof(uint64_t) + 3 * sizeof(uintptr_t),
              sizeof(quill::LogLevel));
  std::thread driver(
    [&]
    {
      std::string mode = argv[1];
      if (mode == "gen" && argc >= 4)
        run_all(std::strtoull(argv[2], nullptr, 10), std::atoi(argv[3]));
      else if (mode == "replay" && argc >= 3)
      {
        std::ifstream in(argv[2]);
        std::string line;
        while (std::getline(in, line))
        {
          if (line.empty() || line[0] == '#') continue;
          std::istringstream ss(line);
          std::string w, kw;
          uint64_t seed;
          int n;
          ss >> w >> seed >> n;
          if (w != "seed") continue;
          ONLY.clear();
          if (ss >> kw && kw == "only") ss >> ONLY;
          run_all(seed, n);
        }
      }
      PUMP.stop();
    });
  PUMP.serve();
  driver.join();
  std::printf("STATS cases=%ld oracle_hits=%ld nontrivial=%ld predicted_to_allocate=%ld measured_zero_allocations=%ld\n", CASE_NO, N_ORACLE,
              N_NONTRIVIAL, N_PRED_ALLOC, N_ZERO);
  std::string fam;
  for (auto& kv : FAM) fam += " " + kv.first + "=" + std::to_string(kv.second);
  std::printf("STATS macro-families%s\n", fam.c_str());
  std::fflush(stdout);
  return N_ORACLE ? 3 : 0;
}
