// H3 — the real quill::detail::TimestampFormatter (StringFromTime cache inside) against libc (C13).
//
//   h3_time gen <seed> <cases-per-zone> <instants-per-case> <zone-list-file>
//   h3_time replay <file>          (a previous output of this program, or hand-written "case"/"t" lines)
//   h3_time zones <zone-list-file> (only the zone premise scan)
// environment: H3_PERIOD = local-time recalculation period extracted from the header (default 900)
//
// Output (the Lean driver `driver time trace` replays exactly these lines on the model):
//   ZONE <name> period=<P> transitions=<n> premise=<0|1> … unaligned=<k> [at=t1,t2,…]
//                                          zone premise of the local-time theorem: every change of (gmtoff,isdst,abbr) in
//                                          2001..2100 happens at a multiple of P seconds and every offset is a multiple of P
//   case <id> <G|L> <zone> <class> <pattern-hex|->
//   ctor => ok | err X | err excl | err once
//   t <ns> <gmtoff> <isdst> <abbr-hex> => <rendered-hex|->
//   ORACLE <what> case=… class=… …      the property itself fails on the real code (independent oracle:
//                                       gmtime_r/localtime_r + strftime per call + snprintf of the fraction)
//   DIST … / STATS …                    generator distribution
#include <algorithm>
#include <chrono>
#include <cstdint>
#include <cstdio>
#include <cstdlib>
#include <cstring>
#include <ctime>
#include <fstream>
#include <iostream>
#include <map>
#include <memory>
#include <sstream>
#include <string>
#include <vector>

#include "quill/backend/TimestampFormatter.h"

using quill::Timezone;
using quill::detail::TimestampFormatter;

static int64_t const T_MIN = 978307200LL;   // 2001-01-01T00:00:00Z
static int64_t const T_MAX = 4133980800LL;  // 2101-01-01T00:00:00Z
static int64_t const TEN9 = 1000000000LL;

static uint64_t g_oracle = 0;
static std::map<std::string, uint64_t> g_stats;

struct Rng
{
  uint64_t s;
  explicit Rng(uint64_t seed) : s(seed * 0x9E3779B97F4A7C15ull + 0x1234567ull)
  {
    for (int i = 0; i < 8; ++i) next();
  }
  uint64_t next()
  {
    s ^= s << 13;
    s ^= s >> 7;
    s ^= s << 17;
    return s;
  }
  uint64_t below(uint64_t n) { return n ? next() % n : 0; }
  bool chance(unsigned pct) { return below(100) < pct; }
  template <typename T>
  T const& pick(std::vector<T> const& v)
  {
    return v[below(v.size())];
  }
};

static std::string hex(std::string const& s)
{
  if (s.empty()) return "-";
  static char const* d = "0123456789abcdef";
  std::string o;
  for (unsigned char c : s)
  {
    o.push_back(d[c >> 4]);
    o.push_back(d[c & 15]);
  }
  return o;
}

static std::string unhex(std::string const& h)
{
  if (h == "-") return "";
  std::string o;
  for (size_t i = 0; i + 1 < h.size(); i += 2) o.push_back(static_cast<char>(std::stoi(h.substr(i, 2), nullptr, 16)));
  return o;
}

static std::string printable(std::string const& s)
{
  std::string o;
  for (unsigned char c : s) o += (c >= 32 && c < 127) ? std::string(1, static_cast<char>(c)) : "\\x" + hex(std::string(1, static_cast<char>(c)));
  return o;
}

// ------------------------------------------------------------------------------------------------
// zones
// ------------------------------------------------------------------------------------------------
struct ZInfo
{
  long off{0};
  int isdst{0};
  std::string abbr;
  bool operator==(ZInfo const& o) const { return off == o.off && isdst == o.isdst && abbr == o.abbr; }
  bool operator!=(ZInfo const& o) const { return !(*this == o); }
};

static void set_zone(std::string const& z)
{
  setenv("TZ", (":" + z).c_str(), 1);
  tzset();
}

static ZInfo zinfo_at(int64_t t)
{
  time_t tt = static_cast<time_t>(t);
  tm x{};
  localtime_r(&tt, &x);
  ZInfo z;
  z.off = x.tm_gmtoff;
  z.isdst = x.tm_isdst > 0 ? 1 : 0;
  z.abbr = x.tm_zone ? x.tm_zone : "";
  return z;
}

static int64_t g_period = 900; // local-time recalculation period of the header under test (extracted by the check)

struct ZoneScan
{
  std::string name;
  std::vector<int64_t> transitions; // first instant of each new (off,isdst,abbr)
  std::vector<int64_t> unaligned;   // transitions that are not on the recalculation grid (t % P != 0)
  bool offsets_aligned{true};       // every offset is a multiple of P
  long bad_off{0};
  bool premise() const { return unaligned.empty() && offsets_aligned; }
};

static std::map<std::string, ZoneScan> g_scans;

static ZoneScan const& scan_zone(std::string const& name)
{
  auto it = g_scans.find(name);
  if (it != g_scans.end()) return it->second;
  set_zone(name);
  ZoneScan zs;
  zs.name = name;
  int64_t const step = 6 * 3600;
  int64_t cur_t = T_MIN;
  ZInfo cur = zinfo_at(cur_t);
  auto check_off = [&](ZInfo const& z)
  {
    if (z.off % g_period != 0 && zs.offsets_aligned)
    {
      zs.offsets_aligned = false;
      zs.bad_off = z.off;
    }
  };
  check_off(cur);
  for (int64_t t = T_MIN + step; t <= T_MAX; t += step)
  {
    int64_t const sample = std::min<int64_t>(t, T_MAX - 1);
    ZInfo zi = zinfo_at(sample);
    while (zi != cur)
    {
      // bisect for the first instant in (cur_t, sample] whose info differs from `cur`
      int64_t lo = cur_t, hi = sample;
      while (hi - lo > 1)
      {
        int64_t mid = lo + (hi - lo) / 2;
        if (zinfo_at(mid) == cur) lo = mid;
        else hi = mid;
      }
      zs.transitions.push_back(hi);
      cur = zinfo_at(hi);
      cur_t = hi;
      check_off(cur);
      if (hi % g_period != 0) zs.unaligned.push_back(hi);
    }
    cur_t = sample;
  }
  std::cout << "ZONE " << name << " period=" << g_period << " transitions=" << zs.transitions.size() << " premise=" << (zs.premise() ? 1 : 0)
            << " offsets-aligned=" << (zs.offsets_aligned ? 1 : 0);
  if (!zs.offsets_aligned) std::cout << " bad-off=" << zs.bad_off;
  std::cout << " unaligned=" << zs.unaligned.size();
  if (!zs.unaligned.empty())
  {
    std::cout << " at=";
    for (size_t i = 0; i < zs.unaligned.size(); ++i) std::cout << (i ? "," : "") << zs.unaligned[i];
  }
  std::cout << "\n";
  return g_scans.emplace(name, zs).first->second;
}

// ------------------------------------------------------------------------------------------------
// the oracle's own reading of a pattern (independent of quill and of the Lean lexer)
// ------------------------------------------------------------------------------------------------
struct PatInfo
{
  int nfrac{0};
  int kinds{0};            // bit set of fractional kinds present
  size_t frac_pos{std::string::npos};
  int frac_width{0};
  bool has_x{false};       // a %X conversion
  bool uses_epoch{false};  // a %s conversion
};

static PatInfo read_pattern(std::string const& p)
{
  PatInfo r;
  size_t i = 0, n = p.size();
  while (i < n)
  {
    if (p[i] != '%')
    {
      ++i;
      continue;
    }
    if (i + 1 >= n) break;
    char c = p[i + 1];
    if (c == '%')
    {
      i += 2;
      continue;
    }
    if (c == 'Q' && i + 3 < n && p[i + 3] == 's' && (p[i + 2] == 'm' || p[i + 2] == 'u' || p[i + 2] == 'n'))
    {
      int w = p[i + 2] == 'm' ? 3 : (p[i + 2] == 'u' ? 6 : 9);
      if (r.nfrac == 0)
      {
        r.frac_pos = i;
        r.frac_width = w;
      }
      ++r.nfrac;
      r.kinds |= (w == 3 ? 1 : (w == 6 ? 2 : 4));
      i += 4;
      continue;
    }
    if ((c == 'E' || c == 'O') && i + 2 < n)
    {
      i += 3;
      continue;
    }
    if (c == 'X') r.has_x = true;
    if (c == 's') r.uses_epoch = true;
    i += 2;
  }
  return r;
}

static std::string libc_strftime(std::string const& f, tm const& x)
{
  if (f.empty()) return "";
  std::vector<char> b(4096);
  size_t n = strftime(b.data(), b.size(), f.c_str(), &x);
  return std::string(b.data(), n);
}

static std::string oracle_render(std::string const& p, PatInfo const& pi, bool local, int64_t ns)
{
  time_t secs = static_cast<time_t>(ns / TEN9);
  uint32_t frac = static_cast<uint32_t>(ns % TEN9);
  tm x{};
  if (local) localtime_r(&secs, &x);
  else gmtime_r(&secs, &x);
  if (pi.nfrac == 0) return libc_strftime(p, x);
  std::string left = p.substr(0, pi.frac_pos), right = p.substr(pi.frac_pos + 4);
  uint32_t v = pi.frac_width == 3 ? frac / 1000000u : (pi.frac_width == 6 ? frac / 1000u : frac);
  char fb[16];
  snprintf(fb, sizeof fb, "%0*u", pi.frac_width, v);
  return libc_strftime(left, x) + fb + libc_strftime(right, x);
}

// ------------------------------------------------------------------------------------------------
// one case on the real formatter
// ------------------------------------------------------------------------------------------------
struct Case
{
  std::string id;
  bool local{false};
  std::string zone;
  std::string cls;
  std::string pattern;
  std::vector<int64_t> ns;
};

static void run_case(Case const& c)
{
  set_zone(c.zone);
  std::cout << "case " << c.id << " " << (c.local ? "L" : "G") << " " << c.zone << " " << c.cls << " " << hex(c.pattern) << "\n";
  PatInfo const pi = read_pattern(c.pattern);
  bool const oracle_on = c.cls != "excluded";
  std::unique_ptr<TimestampFormatter> f;
  std::string ctor = "ok";
  try
  {
    f = std::make_unique<TimestampFormatter>(c.pattern, c.local ? Timezone::LocalTime : Timezone::GmtTime);
  }
  catch (std::exception const& e)
  {
    std::string w = e.what();
    if (w.find("mutually exclusive") != std::string::npos) ctor = "err excl";
    else if (w.find("only once") != std::string::npos) ctor = "err once";
    else if (w.find("%X") != std::string::npos) ctor = "err X";
    else ctor = "err other:" + hex(w);
  }
  std::cout << "ctor => " << ctor << "\n";
  ++g_stats["cases"];
  ++g_stats["class_" + c.cls];
  ++g_stats[c.local ? "mode_local" : "mode_gmt"];
  bool const expect_reject = pi.nfrac >= 2 || pi.has_x;
  bool ctor_flagged = false;
  if (oracle_on && expect_reject != (ctor != "ok"))
  {
    ++g_oracle;
    ctor_flagged = true;
    std::cout << "ORACLE " << (expect_reject ? "accepted-should-reject" : "rejected-should-accept") << " case=" << c.id
              << " class=" << c.cls << " zone=" << c.zone << " pattern=[" << printable(c.pattern) << "] ctor=[" << ctor
              << "] fractional-specifiers=" << pi.nfrac << " has-%X=" << (pi.has_x ? 1 : 0) << "\n";
  }
  if (ctor != "ok") ++g_stats["rejected"];
  for (int64_t ns : c.ns)
  {
    if (!f) break;
    time_t secs = static_cast<time_t>(ns / TEN9);
    if (pi.uses_epoch && c.local)
    {
      // the property's own exclusion: %s only where libc's %s is meaningful. libc prints mktime(tm); at a local time that
      // occurs twice without a change of tm_isdst (a zone moving its standard offset back, e.g. Libya 2012-11-10) that is
      // not the instant. Such instants are not given to the formatter for patterns that use %s.
      tm probe{};
      localtime_r(&secs, &probe);
      if (mktime(&probe) != secs)
      {
        ++g_stats["skipped_libc_epoch_not_the_instant"];
        std::cout << "# skipped " << ns << ": mktime(localtime(t)) != t in " << c.zone << ", libc's %s is not the instant here\n";
        continue;
      }
    }
    ZInfo zi;
    if (c.local) zi = zinfo_at(secs);
    else
    {
      zi.off = 0;
      zi.isdst = 0;
      zi.abbr = "GMT";
    }
    std::string_view sv = f->format_timestamp(std::chrono::nanoseconds{ns});
    std::string got(sv.data(), sv.size());
    std::cout << "t " << ns << " " << zi.off << " " << zi.isdst << " " << hex(zi.abbr) << " => " << hex(got) << "\n";
    ++g_stats["instants"];
    if (oracle_on && !ctor_flagged && !expect_reject)
    {
      std::string want = oracle_render(c.pattern, pi, c.local, ns);
      if (want != got)
      {
        ++g_oracle;
        // is the instant in a recalculation window that contains a zone transition off the grid (or is an offset off the grid)?
        std::string cause = "-";
        if (c.local)
        {
          ZoneScan const& zs = scan_zone(c.zone);
          set_zone(c.zone);
          if (!zs.offsets_aligned) cause = "offset-off-grid";
          for (int64_t tr : zs.unaligned)
            if (tr / g_period == static_cast<int64_t>(secs) / g_period) cause = "transition-off-grid@" + std::to_string(tr);
        }
        std::cout << "ORACLE wrong-text case=" << c.id << " class=" << c.cls << " cause=" << cause << " zone=" << c.zone << " mode=" << (c.local ? "L" : "G")
                  << " pattern=[" << printable(c.pattern) << "] ns=" << ns << " got=[" << printable(got) << "] strftime=["
                  << printable(want) << "]\n";
      }
    }
  }
}

// ------------------------------------------------------------------------------------------------
// generators
// ------------------------------------------------------------------------------------------------
static std::vector<std::string> const STATIC_CONVS = {"a", "A", "b", "B", "C", "d", "D", "e", "F", "g", "G", "h", "j", "m",
                                                       "n", "p", "P", "t", "u", "U", "V", "w", "W", "x", "y", "Y", "z", "Z"};
static std::vector<std::string> const STATIC_MODS = {"EC", "Ex", "Ey", "EY", "Od", "Oe", "Om", "Ou", "OU", "OV", "Ow", "OW", "Oy"};
static std::vector<std::string> const PATCHED = {"H", "M", "S", "I", "k", "l"};
static std::vector<std::string> const REWRITTEN = {"r", "R", "T"};
static std::vector<std::string> const F8 = {"c", "Ec", "EX", "OH", "OI", "OM", "OS"};
static std::vector<std::string> const FRACS = {"Qms", "Qus", "Qns"};
static std::vector<std::string> const EXT = {"-d", "_m", "^a", "^B", "#Z", "10Y", "_5j", "-e", "0e", "-y", "^p", "#b", "-j", "_C"};
static std::string const LITS = " -:/.,T_Z[]()|=+#@0179xHMSIklsrRTXQmuncEOpdY";
static std::string const BAD_AFTER_PCT = "HMSIklsrRTXQ";

struct Tok
{
  std::string text;
  bool pct{false};
  bool lit{false};
};

static std::string join(std::vector<Tok> const& v)
{
  std::string s;
  for (auto const& t : v) s += t.text;
  return s;
}

// make the token list respect "no bad letter directly after %%"
static void fix_adjacency(std::vector<Tok>& v)
{
  for (size_t i = 0; i + 1 < v.size(); ++i)
    if (v[i].pct && v[i + 1].lit && BAD_AFTER_PCT.find(v[i + 1].text[0]) != std::string::npos) v[i + 1].text = "-";
}

static std::vector<Tok> gen_supported(Rng& r, bool allow_epoch, bool want_frac)
{
  std::vector<Tok> v;
  size_t n = 1 + r.below(9);
  if (r.chance(5)) n = 0;
  for (size_t i = 0; i < n; ++i)
  {
    unsigned k = static_cast<unsigned>(r.below(100));
    Tok t;
    if (k < 35)
    {
      if (allow_epoch && r.chance(12)) t.text = "%s";
      else t.text = "%" + r.pick(PATCHED);
    }
    else if (k < 45) t.text = "%" + r.pick(REWRITTEN);
    else if (k < 68) t.text = "%" + r.pick(STATIC_CONVS);
    else if (k < 73) t.text = "%" + r.pick(STATIC_MODS);
    else if (k < 94)
    {
      t.text = std::string(1, LITS[r.below(LITS.size())]);
      t.lit = true;
    }
    else
    {
      t.text = "%%";
      t.pct = true;
    }
    v.push_back(t);
  }
  if (want_frac)
  {
    Tok t;
    t.text = "%" + r.pick(FRACS);
    size_t pos = r.chance(25) ? 0 : (r.chance(33) ? v.size() : r.below(v.size() + 1));
    v.insert(v.begin() + static_cast<long>(pos), t);
  }
  fix_adjacency(v);
  return v;
}

static void insert_at_random(Rng& r, std::vector<Tok>& v, std::vector<Tok> const& ins)
{
  size_t pos = r.below(v.size() + 1);
  v.insert(v.begin() + static_cast<long>(pos), ins.begin(), ins.end());
}

struct GenPattern
{
  std::string cls;
  std::string text;
};

static GenPattern gen_pattern(Rng& r, bool allow_epoch)
{
  unsigned k = static_cast<unsigned>(r.below(100));
  GenPattern g;
  if (k < 62)
  {
    g.cls = "sup";
    g.text = join(gen_supported(r, allow_epoch, r.chance(60)));
  }
  else if (k < 70)
  {
    g.cls = "f8";
    auto v = gen_supported(r, allow_epoch, r.chance(50));
    Tok t;
    t.text = "%" + r.pick(F8);
    insert_at_random(r, v, {t});
    fix_adjacency(v);
    g.text = join(v);
  }
  else if (k < 75)
  {
    g.cls = "pctpct"; // "%%" directly before r R T X Q?s
    auto v = gen_supported(r, allow_epoch, false);
    Tok a, b;
    a.text = "%%";
    static std::vector<std::string> const after = {"r", "R", "T", "X", "Qms", "Qus", "Qns"};
    b.text = r.pick(after);
    fix_adjacency(v);
    size_t pos = r.below(v.size() + 1);
    v.insert(v.begin() + static_cast<long>(pos), {a, b});
    g.text = join(v);
  }
  else if (k < 79)
  {
    g.cls = "dupfrac"; // the same fractional specifier twice
    auto v = gen_supported(r, allow_epoch, true);
    Tok t;
    for (auto const& x : v)
      if (x.text.size() == 4 && x.text[1] == 'Q') t = x;
    insert_at_random(r, v, {t});
    fix_adjacency(v);
    g.text = join(v);
  }
  else if (k < 83)
  {
    g.cls = "excl2"; // two different fractional specifiers
    auto v = gen_supported(r, allow_epoch, true);
    std::string have;
    for (auto const& x : v)
      if (x.text.size() == 4 && x.text[1] == 'Q') have = x.text;
    Tok t;
    do t.text = "%" + r.pick(FRACS);
    while (t.text == have);
    insert_at_random(r, v, {t});
    if (r.chance(20))
    {
      Tok u;
      u.text = "%" + r.pick(FRACS);
      insert_at_random(r, v, {u});
    }
    fix_adjacency(v);
    g.text = join(v);
  }
  else if (k < 87)
  {
    g.cls = "rejx";
    auto v = gen_supported(r, allow_epoch, r.chance(50));
    Tok t;
    t.text = "%X";
    insert_at_random(r, v, {t});
    fix_adjacency(v);
    g.text = join(v);
  }
  else if (k < 91)
  {
    g.cls = "excluded"; // outside the property's quantifier: "%%" directly before a patched modifier letter
    auto v = gen_supported(r, allow_epoch, r.chance(50));
    fix_adjacency(v);
    Tok a, b;
    a.text = "%%";
    b.text = std::string(1, "HMSIkl"[r.below(6)]);
    size_t pos = r.below(v.size() + 1);
    v.insert(v.begin() + static_cast<long>(pos), {a, b});
    g.text = join(v);
  }
  else if (k < 95)
  {
    g.cls = "ext"; // glibc flag / width extensions on day-level conversions: handed through to strftime
    auto v = gen_supported(r, allow_epoch, r.chance(50));
    Tok t;
    t.text = "%" + r.pick(EXT);
    insert_at_random(r, v, {t});
    fix_adjacency(v);
    g.text = join(v);
  }
  else
  {
    g.cls = "mal"; // malformed: stray '%', unknown conversions, truncated %Q
    static std::vector<std::string> const mal = {"%", "%Q", "%Qm", "%Qmx", "%q", "%J", "%H%", "%Qms%", "abc%", "%Y%Q", "%N%S"};
    g.text = r.pick(mal);
    if (r.chance(50)) g.text = join(gen_supported(r, false, false)) + g.text;
  }
  return g;
}

static int64_t clamp_t(int64_t t, int64_t lo)
{
  if (t < lo) return lo + (lo - t) % 86400;
  if (t >= T_MAX) return T_MAX - 1 - (t - T_MAX) % 86400;
  return t;
}

static std::vector<int64_t> gen_instants(Rng& r, size_t n, ZoneScan const& zs, bool local, int64_t lo)
{
  static std::vector<int64_t> const special = {T_MIN, T_MAX - 1, TEN9, 4107542399LL /*2100-02-28T23:59:59*/, 4107628799LL /*2100-03-01 -1*/,
                                               1078099199LL /*2004-02-29 -1*/, 1078185599LL, 1230768000LL /*2009-01-01*/,
                                               2147483647LL, 2147483648LL, 4102444800LL /*2100-01-01*/, 1136073600LL, 1609459200LL};
  static std::vector<int64_t> const jumps = {59, 60, 61, 899, 900, 901, 3599, 3600, 3601, 1799, 1800, 2700, 7200};
  static std::vector<int64_t> const big = {43199, 43200, 43201, 86399, 86400, 86401, 21600, 129600};
  static std::vector<int64_t> const fracs = {0, 1, 999, 1000, 999999, 1000000, 1000001, 123456789, 999999999, 500000000, 99999999, 100000000, 9};
  auto anchor = [&]() -> int64_t
  {
    int64_t day = 11323 + static_cast<int64_t>(r.below(36525));
    int64_t base = day * 86400;
    unsigned k = static_cast<unsigned>(r.below(100));
    std::string kind;
    int64_t a;
    if (local && !zs.unaligned.empty() && r.chance(35)) { a = r.pick(zs.unaligned); kind = "zone_transition_off_grid"; }
    else if (k < 12) { a = base; kind = "midnight_utc"; }
    else if (k < 24) { a = base + 43200; kind = "noon_utc"; }
    else if (k < 34) { a = base + 3600 * static_cast<int64_t>(r.below(24)); kind = "hour"; }
    else if (k < 46) { a = base + g_period * static_cast<int64_t>(r.below(86400 / g_period)); kind = "recalc_period"; }
    else if (k < 54) { a = base + 60 * static_cast<int64_t>(r.below(1440)); kind = "minute"; }
    else if (k < 62) { a = base + static_cast<int64_t>(r.below(86400)); kind = "second"; }
    else if (k < 80 && local && !zs.transitions.empty()) { a = r.pick(zs.transitions); kind = "zone_transition"; }
    else if (k < 90 && local)
    {
      // local midnight / noon / 13:00 (12-hour forms) of that day
      time_t tt = static_cast<time_t>(base);
      tm x{};
      localtime_r(&tt, &x);
      static int64_t const hh[] = {0, 43200, 46800, 3600};
      a = base - x.tm_gmtoff + hh[r.below(4)];
      kind = "local_midnight_noon_1pm";
    }
    else if (k < 90) { a = base + 3600 * (r.chance(50) ? 13 : 1); kind = "one_oclock"; }
    else { a = r.pick(special); kind = "special"; }
    ++g_stats["anchor_" + kind];
    return a;
  };
  // anchors in increasing order: the cache only moves forward, so a history that is to exercise recalculation and patching
  // must mostly advance; excursions into the past (fallback path) return afterwards
  size_t const nanch = 1 + n / 8;
  std::vector<int64_t> anchors;
  for (size_t i = 0; i < nanch; ++i) anchors.push_back(anchor());
  if (!r.chance(15)) std::sort(anchors.begin(), anchors.end());
  std::vector<int64_t> out;
  size_t ai = 0;
  int64_t cur = clamp_t(anchors[0] + static_cast<int64_t>(r.below(5)) - 2, lo);
  int64_t hi = cur, prev = cur;
  for (size_t i = 0; i < n; ++i)
  {
    if (i > 0)
    {
      if (i % 8 == 0 && ai + 1 < anchors.size())
      {
        cur = anchors[++ai] + static_cast<int64_t>(r.below(5)) - 2;
        ++g_stats["move_next_anchor"];
      }
      else
      {
        unsigned k = static_cast<unsigned>(r.below(100));
        if (k < 36) { cur = hi + 1; ++g_stats["move_plus1"]; }
        else if (k < 43) { cur = hi; ++g_stats["move_repeat"]; }
        else if (k < 57) { cur = hi + 2 + static_cast<int64_t>(r.below(119)); ++g_stats["move_fwd_small"]; }
        else if (k < 70) { cur = hi + r.pick(jumps); ++g_stats["move_fwd_jump"]; }
        else if (k < 76) { cur = hi + r.pick(big); ++g_stats["move_fwd_halfday"]; }
        else
        {
          // an instant before the newest one (the cache falls back to strftime), relative to the newest or to the previous instant
          int64_t const base = r.chance(50) ? hi : prev;
          unsigned b = static_cast<unsigned>(r.below(100));
          if (b < 40) { cur = base - 1; ++g_stats["move_minus1"]; }
          else if (b < 65) { cur = base - 2 - static_cast<int64_t>(r.below(119)); ++g_stats["move_back_small"]; }
          else if (b < 85) { cur = base - r.pick(jumps); ++g_stats["move_back_jump"]; }
          else if (b < 95) { cur = base - r.pick(big); ++g_stats["move_back_halfday"]; }
          else { cur = anchor(); ++g_stats["move_far"]; }
        }
      }
      cur = clamp_t(cur, lo);
    }
    int64_t frac = r.chance(70) ? r.pick(fracs) : static_cast<int64_t>(r.below(1000000000));
    out.push_back(cur * TEN9 + frac);
    prev = cur;
    hi = std::max(hi, cur);
  }
  return out;
}

static std::vector<std::string> read_lines(std::string const& path)
{
  std::vector<std::string> v;
  std::ifstream in(path);
  std::string ln;
  while (std::getline(in, ln))
  {
    while (!ln.empty() && (ln.back() == '\r' || ln.back() == ' ')) ln.pop_back();
    v.push_back(ln);
  }
  return v;
}

static void print_stats()
{
  std::cout << "STATS";
  for (auto const& kv : g_stats) std::cout << " " << kv.first << "=" << kv.second;
  std::cout << " oracle_failures=" << g_oracle << "\n";
}

int main(int argc, char** argv)
{
  std::ios::sync_with_stdio(false);
  if (char const* pe = std::getenv("H3_PERIOD")) g_period = std::max<int64_t>(1, std::strtoll(pe, nullptr, 10));
  if (argc >= 3 && std::string(argv[1]) == "zones")
  {
    for (auto const& z : read_lines(argv[2]))
      if (!z.empty()) scan_zone(z);
    return 0;
  }
  if (argc >= 6 && std::string(argv[1]) == "gen")
  {
    uint64_t seed = std::strtoull(argv[2], nullptr, 10);
    size_t per_zone = std::strtoull(argv[3], nullptr, 10);
    size_t ninst = std::strtoull(argv[4], nullptr, 10);
    std::vector<std::string> zones;
    for (auto const& z : read_lines(argv[5]))
      if (!z.empty()) zones.push_back(z);
    Rng r(seed);
    size_t id = 0;
    for (auto const& zone : zones)
    {
      ZoneScan const zs = scan_zone(zone);
      for (size_t i = 0; i < per_zone; ++i)
      {
        Case c;
        c.local = r.chance(60);
        c.zone = zone;
        bool const allow_epoch = c.local || zone == "UTC";
        GenPattern g = gen_pattern(r, allow_epoch);
        c.cls = g.cls;
        c.pattern = g.text;
        c.id = "s" + std::to_string(seed) + "_" + std::to_string(id++);
        PatInfo pi = read_pattern(c.pattern);
        set_zone(zone);
        c.ns = gen_instants(r, ninst, zs, c.local, pi.uses_epoch ? TEN9 : T_MIN);
        run_case(c);
      }
    }
    print_stats();
    return g_oracle ? 3 : 0;
  }
  if (argc >= 3 && std::string(argv[1]) == "replay")
  {
    Case c;
    bool have = false;
    for (auto const& ln : read_lines(argv[2]))
    {
      if (ln.empty() || ln[0] == '#') continue;
      std::istringstream is(ln);
      std::string w;
      is >> w;
      if (w == "case")
      {
        if (have) run_case(c);
        c = Case{};
        std::string mode, ph;
        is >> c.id >> mode >> c.zone >> c.cls >> ph;
        c.local = mode == "L";
        c.pattern = unhex(ph);
        have = true;
      }
      else if (w == "t" && have)
      {
        long long ns = 0;
        is >> ns;
        c.ns.push_back(ns);
      }
    }
    if (have) run_case(c);
    print_stats();
    return g_oracle ? 3 : 0;
  }
  std::cerr << "usage: h3_time gen <seed> <cases-per-zone> <instants> <zonefile> | replay <file> | zones <zonefile>\n";
  return 2;
}
