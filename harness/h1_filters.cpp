// H1 — the real quill::Sink filter machinery (add_filter / set_log_level_filter on frontend threads against
// apply_all_filters on the backend thread) compiled against the N-thread atomic shim (C16, concurrency part).
//
//   h1_filters gen <seed> <traces> <steps> [tag]   generated schedules (+ the directed windows first); tag prefixes the trace ids
//   h1_filters replay <file>                   re-run the traces described in <file> (init/prog/sched lines)
//
// Every atomic access of `_new_filter`, `_log_level` and of the Spinlock flag is a scheduling point; a thread spinning
// in Spinlock::lock() parks at every iteration, so real lock contention is schedulable. Thread 0 is the backend
// (poll(u): acquire-load of frontend u's queue tail; when a statement is visible, pop it and call the real
// apply_all_filters); threads 1..n are frontends running add_filter(F) / set_log_level_filter(l) / log(k, level)
// (log = plain slot write + release store of the tail: the SPSC queue's publication, which is what orders a frontend's
// earlier add_filter before the backend's evaluation of the statement).
//
// One line per scheduler step:   <thread> <what it did> => <observation>
// Oracle (states the property, not the implementation), for every evaluation of statement k:
//   DONE    = filters whose add_filter call had returned and that return happens-before the evaluation's begin
//   STARTED = filters whose add_filter call had begun before the evaluation ended
//   verdict must be  "level ok ∧ every filter in X accepts k"  for some DONE ⊆ X ⊆ STARTED, the level being one of the
//   values of `_log_level` not older than the newest set_log_level_filter that happens-before the evaluation.
// plus: no happens-before data race on _global_filters / _local_filters.
#include <algorithm>
#include <atomic>
#include <cctype>
#include <cstddef>
#include <cstdint>
#include <cstdio>
#include <cstdlib>
#include <exception>
#include <fstream>
#include <functional>
#include <iostream>
#include <map>
#include <memory>
#include <optional>
#include <sstream>
#include <string>
#include <string_view>
#include <utility>
#include <vector>

#include "vshim_mt.h"
namespace std
{
template <class T>
using verif_atomic = vmt::atomic<T>;
}
#define atomic verif_atomic
#include "quill/sinks/Sink.h"
#undef atomic

using vmt::world;

// the lock's flag member is reached by the name the extraction found in the current core/Spinlock.h (the build passes
// -DH_SPIN_FLAG=<name>, tools/extractors/spin.py): a rename of the private member changes nothing here
#ifndef H_SPIN_FLAG
#define H_SPIN_FLAG _flag
#endif

struct Rng
{
  uint64_t s;
  explicit Rng(uint64_t seed) : s(seed * 0x9E3779B97F4A7C15ull + 777767ull) { next(); next(); }
  uint64_t next() { s ^= s << 13; s ^= s >> 7; s ^= s << 17; return s; }
  uint64_t below(uint64_t n) { return n ? next() % n : 0; }
};

// ---- the sink, its filters ---------------------------------------------------------------------
static vmt::Plain* g_plain_global = nullptr;
static vmt::Plain* g_plain_local = nullptr;

/** filter id F = m*16 + r : rejects the statements with id % m == r */
inline bool accepts(int F, uint64_t k)
{
  uint64_t const m = static_cast<uint64_t>(F / 16), r = static_cast<uint64_t>(F % 16);
  return (m == 0 ? k : k % m) != r;
}

class ModFilter final : public quill::Filter
{
public:
  explicit ModFilter(int id) : quill::Filter("f" + std::to_string(id)), id(id) {}
  bool filter(quill::MacroMetadata const*, uint64_t log_timestamp, std::string_view, std::string_view,
              std::string_view, quill::LogLevel, std::string_view, std::string_view) noexcept override
  {
    // called through a pointer the backend took out of _local_filters
    if (g_plain_local) { g_plain_local->read(world().cur); }
    return accepts(id, log_timestamp);
  }
  std::string const& get_filter_name() const noexcept override
  {
    // called by add_filter's duplicate check on the elements of _global_filters
    if (g_plain_global && in_container) { g_plain_global->read(world().cur); }
    return quill::Filter::get_filter_name();
  }
  int id;
  bool in_container{false};
};

class TSink final : public quill::Sink
{
public:
  void write_log(quill::MacroMetadata const*, uint64_t, std::string_view, std::string_view, std::string const&,
                 std::string_view, quill::LogLevel, std::string_view, std::string_view,
                 std::vector<std::pair<std::string, std::string>> const*, std::string_view, std::string_view) override
  {
  }
  void flush_sink() override {}
};

// ---- trace description -------------------------------------------------------------------------
struct POp
{
  char kind; // a = add_filter(a), l = set_log_level_filter(a), g = log(id a, level b), p = poll(thread a)
  int a{0}, b{0};
};
struct TraceDesc
{
  std::string id;
  int nfront{1};
  int lvl0{0};
  std::vector<std::vector<POp>> prog; // prog[0] = backend
  std::vector<std::pair<int, int>> sched; // explicit (thread, stale choice); after it: round-robin, newest values
  int directed{0};                        // > 0: built-in directed window instead of `sched`
  uint64_t pct_seed{0};                   // != 0: priority schedule with `pct_depth` change points over `pct_steps` steps
  int pct_depth{0};
  unsigned pct_steps{0};
  unsigned pct_stale{0};
};

static std::string prog_text(std::vector<POp> const& p)
{
  std::string s;
  for (auto const& o : p)
  {
    s += ' ';
    switch (o.kind)
    {
    case 'a': s += "add:" + std::to_string(o.a); break;
    case 'l': s += "lvl:" + std::to_string(o.a); break;
    case 'g': s += "log:" + std::to_string(o.a) + ":" + std::to_string(o.b); break;
    case 'p': s += "poll:" + std::to_string(o.a); break;
    }
  }
  return s;
}

static std::string list_text(std::vector<int> const& v)
{
  if (v.empty()) { return "-"; }
  std::string s;
  for (size_t i = 0; i < v.size(); ++i) { s += (i ? "," : "") + std::to_string(v[i]); }
  return s;
}

// ---- one run -----------------------------------------------------------------------------------
struct Totals
{
  uint64_t traces{0}, steps{0}, evals{0}, accepted{0}, rejected_level{0}, rejected_filter{0}, adds{0}, contended{0},
    spins{0}, recopies{0}, stale{0}, eval_during_add{0}, eval_lock_wait{0}, optional_filters{0}, oracle{0}, nontrivial{0},
    lvl_sets{0};
  std::map<std::string, std::string> orders;
};

struct LevelStore
{
  int value;
  int setter;         // -1 initial
  uint32_t ret_epoch; // 0 = call not returned yet
};
struct AddRec
{
  int F;
  int thread;
  uint32_t ret_epoch; // 0 = not returned
};

struct Runner
{
  TraceDesc const& d;
  Totals& tot;
  std::ostream& out;
  TSink sink;
  vmt::Plain plain_global{"_global_filters"}, plain_local{"_local_filters"};
  std::vector<std::unique_ptr<vmt::atomic<uint32_t>>> qtail;
  std::vector<std::vector<std::pair<int, int>>> queue; // per frontend: (id, level)
  std::vector<uint32_t> head;
  std::vector<AddRec> adds;
  std::vector<LevelStore> lvls;
  std::vector<std::string> oracle_lines;
  std::vector<std::pair<int, int>> executed;
  std::map<int, std::string> locname;
  bool in_eval{false};
  bool trace_contended{false}, trace_recopy_after_first{false}, trace_stale{false};
  int trace_evals{0};

  Runner(TraceDesc const& d, Totals& tot, std::ostream& out) : d(d), tot(tot), out(out) {}

  std::vector<int> glob_ids()
  {
    std::vector<int> v;
    for (auto const& f : sink._global_filters)
    {
      auto* mf = static_cast<ModFilter*>(f.get());
      mf->in_container = true;
      v.push_back(mf->id);
    }
    return v;
  }
  std::vector<int> loc_ids()
  {
    std::vector<int> v;
    for (auto* f : sink._local_filters) { v.push_back(static_cast<ModFilter*>(f)->id); }
    return v;
  }
  static std::string tname(int t) { return t == 0 ? "B" : "A" + std::to_string(t); }

  void ev(std::string s) { world().events.push_back(std::move(s)); }

  void frontend(int t)
  {
    auto& w = world();
    auto const& prog = d.prog[static_cast<size_t>(t)];
    for (size_t i = 0; i < prog.size(); ++i)
    {
      if (i > 0)
      {
        vmt::Access b;
        b.kind = 'B';
        w.park(b);
      }
      POp const& o = prog[i];
      if (o.kind == 'a')
      {
        ev("begin add " + std::to_string(o.a));
        adds.push_back(AddRec{o.a, t, 0});
        size_t const slot = adds.size() - 1;
        ++tot.adds;
        try
        {
          sink.add_filter(std::make_unique<ModFilter>(o.a));
          adds[slot].ret_epoch = w.vc[t].c[t];
          ++w.vc[t].c[t];
          ev("ret");
        }
        catch (std::exception const&)
        {
          adds[slot].F = -1; // rejected (duplicate name): never installed
          ev("threw");
        }
      }
      else if (o.kind == 'l')
      {
        ev("begin lvl " + std::to_string(o.a));
        ++tot.lvl_sets;
        sink.set_log_level_filter(static_cast<quill::LogLevel>(o.a));
        // the store and the return are in the same scheduler step: record both (history order = order of these pushes)
        lvls.push_back(LevelStore{o.a, t, w.vc[t].c[t]});
        ++w.vc[t].c[t];
        ev("ret");
      }
      else if (o.kind == 'g')
      {
        ev("begin log " + std::to_string(o.a) + " " + std::to_string(o.b));
        auto& q = queue[static_cast<size_t>(t)];
        q.emplace_back(o.a, o.b);
        qtail[static_cast<size_t>(t)]->store(static_cast<uint32_t>(q.size()), std::memory_order_release);
        ev("ret");
      }
    }
  }

  void backend()
  {
    auto& w = world();
    auto const& prog = d.prog[0];
    for (size_t i = 0; i < prog.size(); ++i)
    {
      if (i > 0)
      {
        vmt::Access b;
        b.kind = 'B';
        w.park(b);
      }
      int const u = prog[i].a;
      ev("begin poll " + std::to_string(u));
      uint32_t const n = qtail[static_cast<size_t>(u)]->load(std::memory_order_acquire);
      if (n <= head[static_cast<size_t>(u)])
      {
        ev("empty");
        continue;
      }
      auto const st = queue[static_cast<size_t>(u)][head[static_cast<size_t>(u)]++];
      uint64_t const k = static_cast<uint64_t>(st.first);
      int const level = st.second;
      ev("pop " + std::to_string(st.first) + " " + std::to_string(level));
      // ---- oracle, part 1: what happens-before the begin of this evaluation
      std::vector<int> done;
      bool during_add = false;
      for (auto const& a : adds)
      {
        if (a.F < 0) { continue; }
        if (a.ret_epoch != 0 && w.vc[0].c[a.thread] >= a.ret_epoch) { done.push_back(a.F); }
        if (a.ret_epoch == 0) { during_add = true; }
      }
      size_t lvl_floor = 0;
      for (size_t j = 0; j < lvls.size(); ++j)
      {
        if (lvls[j].setter < 0 || (lvls[j].ret_epoch != 0 && w.vc[0].c[lvls[j].setter] >= lvls[j].ret_epoch)) { lvl_floor = j; }
      }
      in_eval = true;
      bool const verdict = sink.apply_all_filters(nullptr, k, std::string_view{}, std::string_view{}, std::string_view{},
                                                  static_cast<quill::LogLevel>(level), std::string_view{}, std::string_view{});
      in_eval = false;
      ev(std::string{"verdict="} + (verdict ? "1" : "0"));
      // ---- oracle, part 2
      std::vector<int> started;
      for (auto const& a : adds)
      {
        if (a.F >= 0) { started.push_back(a.F); }
        if (a.F >= 0 && a.ret_epoch == 0) { during_add = true; }
      }
      bool lvl_pass = false, lvl_fail = false;
      for (size_t j = lvl_floor; j < lvls.size(); ++j)
      {
        if (level >= lvls[j].value) { lvl_pass = true; } else { lvl_fail = true; }
      }
      int done_rejects = -1, started_rejects = -1;
      for (int F : done) { if (!accepts(F, k)) { done_rejects = F; } }
      for (int F : started) { if (!accepts(F, k)) { started_rejects = F; } }
      bool const can_true = lvl_pass && done_rejects < 0;
      bool const can_false = lvl_fail || started_rejects >= 0;
      ++tot.evals;
      ++trace_evals;
      if (during_add) { ++tot.eval_during_add; }
      tot.optional_filters += started.size() - done.size();
      if (verdict) { ++tot.accepted; }
      else if (!lvl_pass) { ++tot.rejected_level; }
      else { ++tot.rejected_filter; }
      if (verdict && !can_true)
      {
        std::string why = !lvl_pass ? "its level is below every sink level it may have been compared with"
                                    : "filter " + std::to_string(done_rejects) + " rejects it and that filter's add_filter had returned before (happens-before) the statement was evaluated";
        oracle_lines.push_back("ORACLE filter-verdict trace=" + d.id + " stmt=" + std::to_string(st.first) + " level=" + std::to_string(level) +
                               " verdict=1 done=" + list_text(done) + " started=" + list_text(started) + " local=" + list_text(loc_ids()) +
                               " : the statement was ACCEPTED although " + why);
      }
      if (!verdict && !can_false)
      {
        oracle_lines.push_back("ORACLE filter-verdict trace=" + d.id + " stmt=" + std::to_string(st.first) + " level=" + std::to_string(level) +
                               " verdict=0 done=" + list_text(done) + " started=" + list_text(started) + " local=" + list_text(loc_ids()) +
                               " : the statement was REJECTED although its level passes and no filter whose add_filter had begun rejects it");
      }
    }
  }

  bool matches(int t, char kind, int loc) const
  {
    auto const& p = world().pending[t];
    return p.kind == kind && (loc < 0 || p.loc == loc);
  }

  void do_step(int t, int k)
  {
    auto& w = world();
    std::vector<int> const g0 = glob_ids(), l0 = loc_ids();
    bool const was_spin_wait = w.pending[t].kind == 'L' && locname[w.pending[t].loc] == "lock";
    w.step(t, k);
    executed.emplace_back(t, k);
    ++tot.steps;
    vmt::Access const& a = w.last;
    std::string op = tname(t);
    std::string obs;
    if (a.valid)
    {
      std::string const& ln = locname[a.loc];
      std::string const key = ln.substr(0, 1) == "q" ? "q" : ln;
      std::string const what = key + (a.kind == 'L' ? ".load" : a.kind == 'X' ? ".xchg" : key == "newf" ? (a.value ? ".set" : ".reset") : ".store");
      std::string const nm = vmt::order_name(a.order);
      auto it = tot.orders.find(what);
      if (it == tot.orders.end()) { tot.orders[what] = nm; } else if (it->second != nm) { it->second = "mixed"; }
      if (a.kind == 'L')
      {
        op += " load " + ln + " " + std::to_string(a.idx);
        obs = "v=" + std::to_string(a.value);
        if (a.idx != a.newest) { ++tot.stale; trace_stale = true; }
        if (was_spin_wait) { ++tot.spins; if (a.value == 1) { trace_contended = true; ++tot.contended; if (t == 0) { ++tot.eval_lock_wait; } } }
      }
      else if (a.kind == 'X')
      {
        op += " xchg " + ln;
        obs = "old=" + std::to_string(a.value);
        if (a.value == 1) { trace_contended = true; ++tot.contended; }
      }
      else
      {
        op += " store " + ln + " " + std::to_string(a.value);
        if (ln == "newf" || ln == "lvl") { obs = "idx=" + std::to_string(a.idx); }
      }
    }
    else { op += " step"; }
    // plain data: what changed during this step was written by t
    std::vector<int> const g1 = glob_ids(), l1 = loc_ids();
    if (g1 != g0)
    {
      plain_global.write(t);
      obs += " glob=" + list_text(g1);
    }
    if (l1 != l0)
    {
      plain_local.write(t);
      if (!l1.empty()) { plain_global.read(t); ++tot.recopies; if (trace_evals > 0) { trace_recopy_after_first = true; } }
      obs += " loc=" + list_text(l1);
    }
    bool first = !a.valid;
    for (auto const& e : w.events)
    {
      if (first && e.rfind("begin ", 0) == 0)
      {
        op = tname(t) + " " + e;
        first = false;
        continue;
      }
      obs += " " + e;
    }
    if (obs.empty()) { obs = "ok"; }
    if (obs[0] == ' ') { obs.erase(0, 1); }
    out << op << " => " << obs << "\n";
    for (auto const& f : w.faults) { oracle_lines.push_back("ORACLE " + f + " trace=" + d.id + " step=" + std::to_string(executed.size())); }
    w.faults.clear();
    for (auto const& l : oracle_lines)
    {
      out << l << "\n";
      ++tot.oracle;
    }
    oracle_lines.clear();
  }

  bool alive(int t) const { return !world().finished[t]; }
  bool at_boundary(int t) const { return world().pending[t].kind == 'B' || world().finished[t]; }

  /** directed helpers: newest values only, bounded */
  void complete_op(int t, int bound = 60)
  {
    if (!alive(t)) { return; }
    do { do_step(t, 0); } while (--bound > 0 && !at_boundary(t));
  }
  bool run_until(int t, char kind, std::string const& loc, int bound = 40)
  {
    while (bound-- > 0 && alive(t))
    {
      auto const& p = world().pending[t];
      if (p.kind == kind && locname[p.loc] == loc) { return true; }
      do_step(t, 0);
    }
    return false;
  }

  /** priority schedule with a few change points (PCT): the highest-priority live thread runs; at a change point the
      running thread drops below everybody; a thread that observes the lock busy yields (drops) as well */
  void pct()
  {
    Rng rng(d.pct_seed);
    int const n = d.nfront + 1;
    std::vector<int> prio(static_cast<size_t>(n));
    for (int t = 0; t < n; ++t) { prio[static_cast<size_t>(t)] = 1000 + t; }
    for (int t = n - 1; t > 0; --t) { std::swap(prio[static_cast<size_t>(t)], prio[static_cast<size_t>(rng.below(static_cast<uint64_t>(t) + 1))]); }
    std::vector<unsigned> change;
    for (int i = 0; i < d.pct_depth; ++i) { change.push_back(static_cast<unsigned>(rng.below(d.pct_steps))); }
    int low = 999;
    for (unsigned i = 0; i < d.pct_steps; ++i)
    {
      int best = -1;
      for (int t = 0; t < n; ++t)
      {
        if (alive(t) && (best < 0 || prio[static_cast<size_t>(t)] > prio[static_cast<size_t>(best)])) { best = t; }
      }
      if (best < 0) { break; }
      int const k = rng.below(100) < d.pct_stale ? 1 + static_cast<int>(rng.below(3)) : 0;
      do_step(best, k);
      vmt::Access const& a = world().last;
      bool const busy = a.valid && locname[a.loc] == "lock" && (a.kind == 'L' || a.kind == 'X') && a.value == 1;
      if (busy || std::find(change.begin(), change.end(), i) != change.end()) { prio[static_cast<size_t>(best)] = low--; }
    }
  }

  void directed(int which)
  {
    switch (which)
    {
    case 1: // F1 installed and ordered before the statement; A2 is inside add_filter (flag set, lock held); backend evaluates
      complete_op(1); complete_op(1);
      run_until(2, 'S', "lock");
      complete_op(0, 12);
      break;
    case 2: // same, A2 parked right after it acquired the lock (flag still set from F1's add, never copied)
      complete_op(1); complete_op(1);
      run_until(2, 'S', "newf");
      complete_op(0, 12);
      break;
    case 3: // F1 copied by an earlier evaluation, F2 completed (flag set again), A3 holds the lock, backend evaluates
      complete_op(1); complete_op(1); complete_op(0);
      complete_op(2); complete_op(1);
      run_until(3, 'S', "newf");
      complete_op(0, 12);
      break;
    case 4: // backend inside its critical section (copy done, flag not yet reset) while A2 wants to add
      complete_op(1); complete_op(1);
      run_until(0, 'S', "newf");
      for (int i = 0; i < 4; ++i) { do_step(2, 0); }
      complete_op(0); complete_op(2); complete_op(2); complete_op(0); complete_op(0);
      break;
    case 5: // backend between its flag load and the lock while A2 completes a whole add_filter
      complete_op(1); complete_op(1);
      run_until(0, 'L', "lock");
      complete_op(2); complete_op(2);
      complete_op(0); complete_op(0);
      break;
    case 6: // A2 stopped between its first and second atomic access of add_filter; backend evaluates; A2 finishes, logs; backend again
      complete_op(1); complete_op(1);
      do_step(2, 0); do_step(2, 0);
      complete_op(0, 12);
      complete_op(2); complete_op(2); complete_op(0); complete_op(0);
      break;
    case 7: // stale loads on the backend: oldest legal value at every load of the first evaluation
      complete_op(1); complete_op(1); complete_op(2);
      for (int i = 0; i < 8 && !at_boundary(0); ++i) { do_step(0, 3); }
      break;
    case 8: // level change racing with the evaluation
      complete_op(1);
      do_step(2, 0);
      run_until(0, 'L', "lvl");
      complete_op(2);
      complete_op(0);
      break;
    default: break;
    }
  }

  void run()
  {
    auto& w = world();
    w.reset(d.nfront + 1);
    g_plain_global = &plain_global;
    g_plain_local = &plain_local;
    qtail.clear();
    // location ids: the sink was constructed before reset() → re-register its atomics in a fixed order
    sink._global_filters_lock.H_SPIN_FLAG._id = w.next_loc_id++;
    sink._new_filter._id = w.next_loc_id++;
    sink._log_level._id = w.next_loc_id++;
    locname[sink._global_filters_lock.H_SPIN_FLAG.id()] = "lock";
    locname[sink._new_filter.id()] = "newf";
    locname[sink._log_level.id()] = "lvl";
    queue.assign(static_cast<size_t>(d.nfront) + 1, {});
    head.assign(static_cast<size_t>(d.nfront) + 1, 0);
    qtail.push_back(nullptr);
    for (int t = 1; t <= d.nfront; ++t)
    {
      qtail.push_back(std::make_unique<vmt::atomic<uint32_t>>(0));
      locname[qtail.back()->id()] = "q" + std::to_string(t);
    }
    sink.set_log_level_filter(static_cast<quill::LogLevel>(d.lvl0)); // set-up: initial state
    lvls.push_back(LevelStore{d.lvl0, -1, 0});
    out << "init " << d.id << " n=" << d.nfront << " lvl0=" << d.lvl0 << "\n";
    for (size_t t = 0; t < d.prog.size(); ++t) { out << "prog " << t << prog_text(d.prog[t]) << "\n"; }
    w.spawn(0, [this] { backend(); });
    for (int t = 1; t <= d.nfront; ++t) { w.spawn(t, [this, t] { frontend(t); }); }
    if (d.directed > 0) { directed(d.directed); }
    if (d.pct_seed != 0) { pct(); }
    for (auto const& s : d.sched)
    {
      if (s.first >= 0 && s.first <= d.nfront && alive(s.first)) { do_step(s.first, s.second); }
    }
    // finish: round-robin, newest values
    int guard = 0;
    for (bool any = true; any;)
    {
      any = false;
      for (int t = 0; t <= d.nfront; ++t)
      {
        if (alive(t))
        {
          any = true;
          do_step(t, 0);
        }
      }
      if (++guard > 4000)
      {
        out << "ORACLE stuck trace=" << d.id << " : the threads do not terminate under a fair schedule\n";
        out.flush();
        std::_Exit(4);
      }
    }
    w.join_all();
    out << "sched";
    for (auto const& s : executed) { out << ' ' << s.first << '.' << s.second; }
    out << "\n";
    out << "end " << d.id << " evals=" << trace_evals << "\n";
    ++tot.traces;
    if (trace_evals > 0 && trace_contended && (trace_recopy_after_first || trace_stale)) { ++tot.nontrivial; }
    g_plain_global = g_plain_local = nullptr;
  }
};

// ---- generators --------------------------------------------------------------------------------
static int const FILTERS[] = {2 * 16 + 0, 2 * 16 + 1, 3 * 16 + 0, 3 * 16 + 1, 3 * 16 + 2, 4 * 16 + 1, 4 * 16 + 3, 5 * 16 + 2};

static TraceDesc directed_desc(int which)
{
  TraceDesc d;
  d.id = "dir" + std::to_string(which);
  d.directed = which;
  d.nfront = 3;
  d.lvl0 = 0;
  d.prog.resize(4);
  // F1 = 2*16+1 rejects odd ids; F2 = 3*16+0; F3 = 5*16+2
  switch (which)
  {
  case 3:
    d.prog[1] = {{'a', 33, 0}, {'g', 2, 4}, {'g', 7, 4}, {'g', 9, 4}};
    d.prog[2] = {{'a', 48, 0}, {'g', 3, 4}};
    d.prog[3] = {{'a', 82, 0}, {'g', 5, 4}};
    d.prog[0] = {{'p', 1, 0}, {'p', 1, 0}, {'p', 1, 0}, {'p', 2, 0}, {'p', 3, 0}, {'p', 1, 0}};
    break;
  case 4:
    d.prog[1] = {{'a', 33, 0}, {'g', 7, 4}};
    d.prog[2] = {{'a', 48, 0}, {'g', 6, 4}, {'g', 4, 4}};
    d.prog[3] = {};
    d.prog[0] = {{'p', 1, 0}, {'p', 2, 0}, {'p', 2, 0}, {'p', 2, 0}};
    break;
  case 8:
    d.prog[1] = {{'g', 4, 3}, {'g', 6, 5}};
    d.prog[2] = {{'l', 4, 0}, {'g', 8, 3}};
    d.prog[3] = {};
    d.prog[0] = {{'p', 1, 0}, {'p', 1, 0}, {'p', 2, 0}, {'p', 2, 0}};
    break;
  default:
    d.prog[1] = {{'a', 33, 0}, {'g', 7, 4}, {'g', 9, 4}, {'g', 4, 4}};
    d.prog[2] = {{'a', 48, 0}, {'g', 3, 4}, {'g', 5, 4}};
    d.prog[3] = {{'a', 82, 0}};
    d.prog[0] = {{'p', 1, 0}, {'p', 1, 0}, {'p', 2, 0}, {'p', 1, 0}, {'p', 2, 0}, {'p', 3, 0}};
    break;
  }
  return d;
}

static TraceDesc random_desc(Rng& rng, unsigned idx, unsigned steps)
{
  TraceDesc d;
  d.id = "r" + std::to_string(idx);
  d.nfront = 1 + static_cast<int>(rng.below(3));
  d.lvl0 = rng.below(5) == 0 ? 4 : 0;
  d.prog.resize(static_cast<size_t>(d.nfront) + 1);
  std::vector<int> pool(std::begin(FILTERS), std::end(FILTERS));
  int next_id = static_cast<int>(rng.below(6));
  std::vector<int> logs(static_cast<size_t>(d.nfront) + 1, 0);
  int total_logs = 0;
  for (int t = 1; t <= d.nfront; ++t)
  {
    unsigned const n = 2 + static_cast<unsigned>(rng.below(4));
    for (unsigned i = 0; i < n; ++i)
    {
      uint64_t const r = rng.below(100);
      if (r < 40 && !pool.empty())
      {
        size_t const j = static_cast<size_t>(rng.below(pool.size()));
        d.prog[static_cast<size_t>(t)].push_back({'a', pool[j], 0});
        pool.erase(pool.begin() + static_cast<long>(j));
      }
      else if (r < 52) { d.prog[static_cast<size_t>(t)].push_back({'l', static_cast<int>(rng.below(3)) * 2 + 1, 0}); }
      else
      {
        d.prog[static_cast<size_t>(t)].push_back({'g', next_id++, 3 + static_cast<int>(rng.below(3))});
        ++logs[static_cast<size_t>(t)];
        ++total_logs;
      }
    }
  }
  // backend: enough polls, biased to the threads that log
  int const polls = total_logs + 2 + static_cast<int>(rng.below(3));
  for (int i = 0; i < polls; ++i)
  {
    int u = 1 + static_cast<int>(rng.below(static_cast<uint64_t>(d.nfront)));
    for (int tries = 0; tries < 2 && logs[static_cast<size_t>(u)] == 0; ++tries) { u = 1 + static_cast<int>(rng.below(static_cast<uint64_t>(d.nfront))); }
    d.prog[0].push_back({'p', u, 0});
  }
  if (idx % 2 == 1)
  {
    d.pct_seed = rng.next() | 1;
    d.pct_depth = 1 + static_cast<int>(rng.below(3));
    d.pct_steps = steps + steps / 2;
    d.pct_stale = rng.below(3) == 0 ? 25 : 4;
    return d;
  }
  // schedule: sticky random walk over the threads
  unsigned const sticky = static_cast<unsigned>(rng.below(3)) * 40; // 0, 40, 80 %
  int cur = 1 + static_cast<int>(rng.below(static_cast<uint64_t>(d.nfront)));
  unsigned const stale_pct = rng.below(3) == 0 ? 35 : 8;
  for (unsigned i = 0; i < steps; ++i)
  {
    if (rng.below(100) >= sticky) { cur = static_cast<int>(rng.below(static_cast<uint64_t>(d.nfront) + 1)); }
    int const k = rng.below(100) < stale_pct ? 1 + static_cast<int>(rng.below(3)) : 0;
    d.sched.emplace_back(cur, k);
  }
  return d;
}

static bool parse_replay(std::string const& path, std::vector<TraceDesc>& out)
{
  std::ifstream f(path);
  if (!f) { return false; }
  std::string line;
  TraceDesc* cur = nullptr;
  while (std::getline(f, line))
  {
    std::istringstream is(line);
    std::string w;
    if (!(is >> w)) { continue; }
    if (w == "init")
    {
      out.emplace_back();
      cur = &out.back();
      is >> cur->id;
      std::string kv;
      while (is >> kv)
      {
        if (kv.rfind("n=", 0) == 0) { cur->nfront = std::stoi(kv.substr(2)); }
        if (kv.rfind("lvl0=", 0) == 0) { cur->lvl0 = std::stoi(kv.substr(5)); }
      }
      if (cur->nfront < 1 || cur->nfront >= vmt::MAXT) { return false; }
      cur->prog.assign(static_cast<size_t>(cur->nfront) + 1, {});
    }
    else if (w == "prog" && cur)
    {
      size_t t = 0;
      is >> t;
      if (t >= cur->prog.size()) { return false; }
      std::string o;
      while (is >> o)
      {
        std::replace(o.begin(), o.end(), ':', ' ');
        std::istringstream os(o);
        std::string kind;
        int a = 0, b = 0;
        os >> kind >> a >> b;
        char const c = kind == "add" ? 'a' : kind == "lvl" ? 'l' : kind == "log" ? 'g' : kind == "poll" ? 'p' : '?';
        if (c == '?') { return false; }
        cur->prog[t].push_back({c, a, b});
      }
    }
    else if (w == "sched" && cur)
    {
      std::string s;
      while (is >> s)
      {
        size_t const dot = s.find('.');
        if (dot == std::string::npos) { return false; }
        cur->sched.emplace_back(std::stoi(s.substr(0, dot)), std::stoi(s.substr(dot + 1)));
      }
    }
  }
  return !out.empty();
}

int main(int argc, char** argv)
{
  std::ios::sync_with_stdio(false);
  Totals tot;
  std::vector<TraceDesc> descs;
  if (argc >= 5 && std::string{argv[1]} == "gen")
  {
    Rng rng(std::stoull(argv[2]));
    unsigned const traces = static_cast<unsigned>(std::stoul(argv[3])), steps = static_cast<unsigned>(std::stoul(argv[4]));
    std::string const tag = argc >= 6 ? argv[5] : "";
    for (int w = 1; w <= 8; ++w) { descs.push_back(directed_desc(w)); }
    for (unsigned i = 0; i < traces; ++i) { descs.push_back(random_desc(rng, i, steps / 2 + static_cast<unsigned>(rng.below(steps / 2 + 1)))); }
    for (auto& d : descs) { d.id = tag + d.id; }
  }
  else if (argc >= 3 && std::string{argv[1]} == "replay")
  {
    if (!parse_replay(argv[2], descs)) { std::cerr << "cannot parse " << argv[2] << "\n"; return 2; }
  }
  else
  {
    std::cerr << "usage: h1_filters gen <seed> <traces> <steps> [tag] | h1_filters replay <file>\n";
    return 2;
  }
  for (auto const& d : descs)
  {
    Runner r(d, tot, std::cout);
    r.run();
  }
  std::cout << "ORDERS-SEEN";
  for (auto const& kv : tot.orders) { std::cout << ' ' << kv.first << '=' << kv.second; }
  std::cout << "\n";
  std::cout << "STATS traces=" << tot.traces << " nontrivial=" << tot.nontrivial << " steps=" << tot.steps << " evaluations=" << tot.evals
            << " accepted=" << tot.accepted << " rejected_by_level=" << tot.rejected_level << " rejected_by_filter=" << tot.rejected_filter
            << " add_filter_calls=" << tot.adds << " level_sets=" << tot.lvl_sets << " lock_busy_observations=" << tot.contended
            << " spin_loads=" << tot.spins << " backend_lock_waits=" << tot.eval_lock_wait << " recopies=" << tot.recopies
            << " stale_loads=" << tot.stale << " evals_during_an_add_filter=" << tot.eval_during_add
            << " optional_filters_total=" << tot.optional_filters << " oracle_violations=" << tot.oracle << "\n";
  return tot.oracle ? 3 : 0;
}
