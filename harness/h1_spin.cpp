// H1 — the real quill::detail::Spinlock / LockGuard under the atomic shim (C17, registry lock).
//   h1_spin gen <seed> <traces> <ops>
// Two actors take turns: lock() is only called when the lock is free (a spinning thread would never yield in a
// single-threaded scheduler; the failed-attempt path is a read-modify-write that changes nothing — see Spin/Model.lean),
// the protected datum is a plain variable whose accesses go through the happens-before race detector of the shim world.
#include <atomic>
#include <cstdint>
#include <cstdio>
#include <iostream>
#include <map>
#include <memory>
#include <string>
#include <vector>

#include "vshim.h"
namespace std
{
template <class T>
using verif_atomic = vshim::atomic<T>;
}
#define atomic verif_atomic
#include "quill/core/Spinlock.h"
#undef atomic

using vshim::world;

struct Rng
{
  uint64_t s;
  explicit Rng(uint64_t seed) : s(seed * 0x9E3779B97F4A7C15ull + 424243ull) {}
  uint64_t next() { s ^= s << 13; s ^= s >> 7; s ^= s << 17; return s; }
  uint64_t below(uint64_t n) { return n ? next() % n : 0; }
};

int main(int argc, char** argv)
{
  if (argc < 5 || std::string{argv[1]} != "gen") { std::cerr << "usage: h1_spin gen <seed> <traces> <ops>\n"; return 2; }
  Rng rng(std::stoull(argv[2]));
  unsigned const traces = std::stoul(argv[3]), nops = std::stoul(argv[4]);
  uint64_t oracle = 0, sections = 0, handovers = 0;
  std::string seen_xchg = "-", seen_store = "-", seen_load = "-";
  for (unsigned t = 0; t < traces; ++t)
  {
    world().reset();
    quill::detail::Spinlock lock;
    int holder = -1, last_holder = -1;
    // protected datum: last writer's epoch and actor
    uint64_t data_epoch[2] = {0, 0};
    bool use_guard = rng.below(2) == 0;
    std::vector<std::unique_ptr<quill::detail::LockGuard>> guards(2);
    for (unsigned i = 0; i < nops; ++i)
    {
      int const a = static_cast<int>(rng.below(2));
      if (holder == -1)
      {
        world().begin_call(a, {0, 0, 0});
        if (use_guard) { guards[a] = std::make_unique<quill::detail::LockGuard>(lock); } else { lock.lock(); }
        holder = a;
        ++sections;
        if (last_holder >= 0 && last_holder != a) { ++handovers; }
      }
      else if (a == holder)
      {
        if (rng.below(3) == 0)
        {
          world().begin_call(a);
          if (use_guard) { guards[a].reset(); } else { lock.unlock(); }
          last_holder = holder;
          holder = -1;
        }
        else
        {
          // access the protected datum: the other actor's last write must happen-before
          int const o = 1 - a;
          if (data_epoch[o] > world().view[a])
          {
            ++oracle;
            std::cout << "ORACLE spinlock-data-race trace=" << t << " op=" << i << " actor=" << a << "\n";
          }
          data_epoch[a] = world().epoch[a];
        }
      }
      for (auto const& r : world().log)
      {
        std::string const nm = vshim::order_name(r.order);
        std::string& slot = r.is_store ? (r.value == 1 ? seen_xchg : seen_store) : seen_load;
        if (slot == "-") { slot = nm; } else if (slot != nm) { slot = "mixed"; }
      }
      world().log.clear();
    }
  }
  std::cout << "ORDERS-SEEN xchg=" << seen_xchg << " unlock=" << seen_store << " test-load=" << seen_load << "\n";
  std::cout << "STATS traces=" << traces << " critical_sections=" << sections << " handovers=" << handovers
            << " oracle_violations=" << oracle << "\n";
  return oracle ? 3 : 0;
}
