// H3/H2 harness for property C12 (DESIGN.md §5 C12, Appendix B): drives the REAL quill::PatternFormatter, MacroMetadata and,
// single-threaded through ManualBackendWorker, the real multi-line dispatch and runtime-metadata split.
//
//   h3_pattern gen <seed> <nfmt> <nbe> [exh]     generated cases (exh: additionally all 2^16 attribute subsets, enum order)
//   h3_pattern replay <file>                     cases from a file (the part before " => " of each line is the input)
//
// Output, one line per case:   <case> => <observation>
//   fmt p=x.. tsp=x.. tsn=N time=x.. pre=-|N:x..,N:x..,… tid=x.. tname=x.. pid=x.. logger=x.. lvl=x.. lvls=x.. src=x.. fn=x.. tags=x..|- na=-|0|k:x..,x..;… msg=x..
//        => line x<hex> | error ctor-unterminated | error ctor-unknown x<name> | error ctor-other | error format
//   be p=x.. ml=0|1 kind=plain|named|rt msg=x.. file=x.. line=x.. fn=x.. logger=x.. lvl=x.. lvls=x.. src=x.. caller=x..
//        => ok src=x.. caller=x.. n=K x<stmt>… | lost
//   (for kind=rt src/caller in the input part are `-`; the observation carries what the sink saw)
//   fmt: one case = one freshly constructed PatternFormatter. `pre` lists the timestamps of the format() calls the
//   formatter handles BEFORE the observed call (decoy values for every other attribute), each with the time text the
//   reference gives for it; `pre=-` means the observed call is the very first one. Absent (older replay files): one
//   decoy call at tsn+1000000007. The time text of a call is a function of its timestamp alone, whatever came before
//   (timestamp 0 and repeated timestamps included) — reference: a fresh TimestampFormatter per text.
//   mb loggers=<name>:<ml>:x<pattern>,… sinks=-|<ml>:x<override pattern>,… attach=<s>.<s>,… calls=<logger>:x<msg>,…
//        => ok c0=s<k>:x<stmt>+x<stmt>/s<k>:… c1=… (per call: what each sink received, in the logger's sink order; `-` = nothing)
//   (mb: two or three fresh loggers — some with equal PatternFormatterOptions, so that the backend shares one formatter
//   between them, some not — with fresh recording sinks of which some carry an override pattern and some are attached to
//   two loggers; the calls are dispatched one by one in the given order. Logger names in the input part are informative:
//   a replay creates fresh ones.)
// The harness also judges the property itself with an independent reference (direct substitution using fmtquill::format
// on the single value with the single spec; std::string splitting) and prints `ORACLE <class> …` lines:
//   brace-literal  : a literal chunk of the pattern contains `{` or `}` and the line is not the direct substitution (F7)
//   substitution   : any other difference between the real line and the direct substitution
//   rejection      : reference rejects (unknown attribute / unterminated `%(`) but the constructor accepted, or vice versa
//   multiline      : statements handed to the sink differ from the reference split / strip rule
//   metadata       : file/line/function seen by the sink differ from what was logged
//   override       : a sink did not receive the substitution of the pattern that applies to it — its own override pattern
//                    if it has one, else its logger's (pieces split by the logger's multi-line flag)
// `NOTE …` lines record behaviour that is by design outside the property (counted in the evidence).
// All strings are hex (prefix x), absent = -.  Exit code 3 if any ORACLE line was printed, else 0.
#include "quill/Backend.h"
#include "quill/Frontend.h"
#include "quill/LogMacros.h"
#include "quill/Logger.h"
#include "quill/backend/PatternFormatter.h"
#include "quill/backend/TimestampFormatter.h"
#include "quill/sinks/Sink.h"

#include <algorithm>
#include <cstdint>
#include <cstdio>
#include <cstring>
#include <fstream>
#include <iostream>
#include <map>
#include <memory>
#include <optional>
#include <sstream>
#include <string>
#include <utility>
#include <vector>

using namespace quill;

// ------------------------------------------------------------------------------------------------
// helpers
// ------------------------------------------------------------------------------------------------
static unsigned g_oracle = 0;
static std::map<std::string, unsigned long> g_stats;

static std::string hex(std::string_view s)
{
  static char const* d = "0123456789abcdef";
  std::string o = "x";
  o.reserve(1 + 2 * s.size());
  for (unsigned char c : s)
  {
    o.push_back(d[c >> 4]);
    o.push_back(d[c & 15]);
  }
  return o;
}

static bool unhex(std::string const& t, std::string& out)
{
  out.clear();
  if (t.empty() || t[0] != 'x' || (t.size() % 2) != 1) { return false; }
  auto v = [](char c) -> int
  {
    if (c >= '0' && c <= '9') return c - '0';
    if (c >= 'a' && c <= 'f') return c - 'a' + 10;
    if (c >= 'A' && c <= 'F') return c - 'A' + 10;
    return -1;
  };
  for (size_t i = 1; i + 1 < t.size(); i += 2)
  {
    int a = v(t[i]), b = v(t[i + 1]);
    if (a < 0 || b < 0) { return false; }
    out.push_back(static_cast<char>(a * 16 + b));
  }
  return true;
}

struct Rng
{
  uint64_t s;
  // the state is a Weyl sequence: scramble the seed first so that nearby seeds do not give shifted copies of one stream
  explicit Rng(uint64_t seed) : s(seed + 0x1234567ull)
  {
    uint64_t const a = next();
    uint64_t const b = next();
    s = a ^ (b << 1) ^ (seed * 0xD1342543DE82EF95ull);
  }
  uint64_t next()
  {
    uint64_t z = (s += 0x9E3779B97F4A7C15ull);
    z = (z ^ (z >> 30)) * 0xBF58476D1CE4E5B9ull;
    z = (z ^ (z >> 27)) * 0x94D049BB133111EBull;
    return z ^ (z >> 31);
  }
  unsigned below(unsigned n) { return n == 0 ? 0 : static_cast<unsigned>(next() % n); }
  bool chance(unsigned pct) { return below(100) < pct; }
  template <typename T>
  T const& pick(std::vector<T> const& v) { return v[below(static_cast<unsigned>(v.size()))]; }
};

// ------------------------------------------------------------------------------------------------
// the reference (written independently of PatternFormatter.h): names, direct parse, direct substitution
// ------------------------------------------------------------------------------------------------
static char const* const REF_NAMES[16] = {"time",        "file_name",   "caller_function", "log_level",
                                          "log_level_short_code", "line_number", "logger",  "full_path",
                                          "thread_id",   "thread_name", "process_id",      "source_location",
                                          "short_source_location", "message",    "tags",    "named_args"};

struct FmtCase
{
  std::string pattern, tsp{"%H:%M:%S.%Qns"};
  uint64_t tsn{0};
  std::string time; // computed
  bool pre_given{false};
  std::vector<uint64_t> pre;          // timestamps of the calls made before the observed one (if pre_given)
  std::vector<std::string> pre_time;  // computed
  std::string tid, tname, pid, logger, lvl, lvls, src, fn;
  bool has_tags{false};
  std::string tags;
  int na_kind{0}; // 0 = nullptr, 1 = vector (possibly empty)
  std::vector<std::pair<std::string, std::string>> na;
  std::string msg;
};

// reference values of the sixteen attributes, derived from "path:line" with plain string functions
static std::vector<std::string> ref_values(FmtCase const& c)
{
  std::vector<std::string> v(16);
  size_t const colon = c.src.rfind(':');
  std::string const path = colon == std::string::npos ? c.src : c.src.substr(0, colon);
  std::string const line = colon == std::string::npos ? std::string{} : c.src.substr(colon + 1);
  size_t const slash = path.rfind('/');
  std::string const base = slash == std::string::npos ? path : path.substr(slash + 1);
  std::string named;
  for (size_t i = 0; i < c.na.size(); ++i)
  {
    if (i) { named += ", "; }
    named += c.na[i].first + ": " + c.na[i].second;
  }
  v[0] = c.time; v[1] = base; v[2] = c.fn; v[3] = c.lvl; v[4] = c.lvls; v[5] = line; v[6] = c.logger; v[7] = path;
  v[8] = c.tid; v[9] = c.tname; v[10] = c.pid; v[11] = c.src; v[12] = base + ":" + line; v[13] = c.msg;
  v[14] = c.has_tags ? c.tags : std::string{}; v[15] = named;
  return v;
}

struct RefItem
{
  bool is_lit;
  std::string text; // literal text or spec (without the colon)
  int attr{-1};
  bool has_spec{false};
};

enum class RefParse { Ok, Unterminated, Unknown };

static RefParse ref_parse(std::string const& p, std::vector<RefItem>& items, std::string& bad_name)
{
  items.clear();
  std::string lit;
  size_t i = 0;
  while (i < p.size())
  {
    if (p[i] == '%' && i + 1 < p.size() && p[i + 1] == '(')
    {
      size_t const close = p.find(')', i + 2);
      if (close == std::string::npos) { return RefParse::Unterminated; }
      std::string const body = p.substr(i + 2, close - (i + 2));
      size_t const colon = body.find(':');
      std::string const name = colon == std::string::npos ? body : body.substr(0, colon);
      int attr = -1;
      for (int k = 0; k < 16; ++k)
      {
        if (name == REF_NAMES[k]) { attr = k; }
      }
      if (attr < 0)
      {
        bad_name = name;
        return RefParse::Unknown;
      }
      if (!lit.empty())
      {
        items.push_back(RefItem{true, lit});
        lit.clear();
      }
      RefItem it{false, colon == std::string::npos ? std::string{} : body.substr(colon + 1), attr, colon != std::string::npos};
      items.push_back(it);
      i = close + 1;
    }
    else
    {
      lit.push_back(p[i]);
      ++i;
    }
  }
  if (!lit.empty()) { items.push_back(RefItem{true, lit}); }
  return RefParse::Ok;
}

// expected observation by direct substitution; `in_domain` false when the property does not speak about this pattern
static std::string ref_expected(FmtCase const& c, bool& in_domain, bool& brace_literal, std::string& why)
{
  in_domain = true;
  brace_literal = false;
  std::vector<RefItem> items;
  std::string bad;
  RefParse const r = ref_parse(c.pattern, items, bad);
  if (r == RefParse::Unterminated) { return "error ctor-unterminated"; }
  if (r == RefParse::Unknown) { return "error ctor-unknown " + hex(bad); }
  if (c.pattern.empty())
  {
    in_domain = false; // documented special case: an empty pattern means "no formatting", result is the empty string
    why = "empty-pattern";
    return "";
  }
  std::vector<std::string> const vals = ref_values(c);
  bool seen[16] = {};
  std::string out;
  bool fmt_error = false;
  for (auto const& it : items)
  {
    if (it.is_lit)
    {
      if (it.text.find('{') != std::string::npos || it.text.find('}') != std::string::npos) { brace_literal = true; }
      out += it.text;
      continue;
    }
    if (seen[it.attr])
    {
      in_domain = false; // "The same attribute cannot be used twice" — outside the property
      why = "duplicate-attribute";
    }
    seen[it.attr] = true;
    if (!it.has_spec) { out += vals[it.attr]; }
    else
    {
      if (it.text.find('{') != std::string::npos || it.text.find('}') != std::string::npos ||
          it.text.find("%(") != std::string::npos)
      {
        in_domain = false; // spec outside the fmt subset the property speaks about
        why = "odd-spec";
      }
      try
      {
        std::string const f = "{:" + it.text + "}";
        out += fmtquill::vformat(f, fmtquill::make_format_args(vals[it.attr]));
      }
      catch (std::exception const&)
      {
        fmt_error = true;
      }
    }
  }
  if (fmt_error) { return "error format"; }
  return "line " + hex(out + "\n");
}

// ------------------------------------------------------------------------------------------------
// fmt cases on the real PatternFormatter
// ------------------------------------------------------------------------------------------------
static std::string na_text(FmtCase const& c)
{
  if (c.na_kind == 0) { return "-"; }
  if (c.na.empty()) { return "0"; }
  std::string o = "k:";
  for (size_t i = 0; i < c.na.size(); ++i)
  {
    if (i) { o += ";"; }
    o += hex(c.na[i].first) + "," + hex(c.na[i].second);
  }
  return o;
}

static std::string pre_text(FmtCase const& c)
{
  if (c.pre.empty()) { return "-"; }
  std::string o;
  for (size_t i = 0; i < c.pre.size(); ++i)
  {
    if (i) { o += ","; }
    o += std::to_string(c.pre[i]) + ":" + hex(c.pre_time[i]);
  }
  return o;
}

// reference text of %(time): a fresh TimestampFormatter for every single text (no state shared with anything)
static std::string ref_time(std::string const& tsp, uint64_t ts)
{
  detail::TimestampFormatter tf{tsp, Timezone::GmtTime};
  return std::string{tf.format_timestamp(std::chrono::nanoseconds{ts})};
}

static std::string fmt_case_text(FmtCase const& c)
{
  std::string o = "fmt p=" + hex(c.pattern) + " tsp=" + hex(c.tsp) + " tsn=" + std::to_string(c.tsn) +
    " time=" + hex(c.time) + " pre=" + pre_text(c) + " tid=" + hex(c.tid) + " tname=" + hex(c.tname) + " pid=" + hex(c.pid) +
    " logger=" + hex(c.logger) + " lvl=" + hex(c.lvl) + " lvls=" + hex(c.lvls) + " src=" + hex(c.src) +
    " fn=" + hex(c.fn) + " tags=" + (c.has_tags ? hex(c.tags) : std::string{"-"}) + " na=" + na_text(c) +
    " msg=" + hex(c.msg);
  return o;
}

static void run_fmt(FmtCase& c)
{
  c.time = ref_time(c.tsp, c.tsn);
  bool const default_decoy = !c.pre_given;
  if (default_decoy)
  {
    c.pre = {c.tsn + 1000000007ull};
    c.pre_given = true;
  }
  c.pre_time.clear();
  for (uint64_t t : c.pre) { c.pre_time.push_back(ref_time(c.tsp, t)); }
  if (c.pre.empty()) { ++g_stats["first_call_observed"]; }
  if (c.pre.empty() && c.tsn == 0) { ++g_stats["first_call_observed_ts0"]; }
  if (!c.pre.empty() && c.pre.back() == c.tsn) { ++g_stats["same_ts_as_previous_call"]; }
  if (!default_decoy && !c.pre.empty() && c.pre.back() > c.tsn) { ++g_stats["ts_lower_than_previous_call"]; }
  std::string obs;
  std::unique_ptr<PatternFormatter> pf;
  try
  {
    pf = std::make_unique<PatternFormatter>(PatternFormatterOptions{c.pattern, c.tsp, Timezone::GmtTime, true});
  }
  catch (QuillError const& e)
  {
    std::string const w = e.what();
    std::string const pre = "Invalid format pattern, attribute with name \"";
    std::string const post = "\" is invalid";
    if (w == "Invalid format pattern") { obs = "error ctor-unterminated"; }
    else if (w.size() >= pre.size() + post.size() && w.compare(0, pre.size(), pre) == 0 &&
             w.compare(w.size() - post.size(), post.size(), post) == 0)
    {
      obs = "error ctor-unknown " + hex(w.substr(pre.size(), w.size() - pre.size() - post.size()));
    }
    else { obs = "error ctor-other"; }
  }
  catch (std::exception const&)
  {
    obs = "error ctor-other";
  }
  if (pf)
  {
    MacroMetadata const md{c.src.c_str(), c.fn.c_str(), "{}", c.has_tags ? c.tags.c_str() : nullptr,
                           LogLevel::Info, MacroMetadata::Event::Log};
    // earlier statements with other values: the formatter is reused for every statement of a logger
    for (uint64_t const pre_ts : c.pre)
    {
      try
      {
        std::string const decoy_src = "/decoy/dir/decoy_file.cc:9";
        MacroMetadata const dmd{decoy_src.c_str(), "decoy_fn", "{}", "decoy tags", LogLevel::Info, MacroMetadata::Event::Log};
        std::vector<std::pair<std::string, std::string>> dna{{"dk", "dv"}, {"dk2", "dv2"}};
        (void)pf->format(pre_ts, "decoy-tid", "decoy-thread-name", "decoy-pid", "decoy-logger",
                         "DECOYLEVEL", "DL", dmd, &dna, "decoy message that is longer than most of the real ones {} %(x)");
      }
      catch (std::exception const&)
      {
      }
    }
    try
    {
      std::string_view const sv = pf->format(c.tsn, c.tid, c.tname, c.pid, c.logger, c.lvl, c.lvls, md,
                                             c.na_kind == 0 ? nullptr : &c.na, c.msg);
      obs = "line " + hex(sv);
    }
    catch (std::exception const&)
    {
      obs = "error format";
    }
  }
  std::cout << fmt_case_text(c) << " => " << obs << "\n";
  bool in_domain = true, brace = false;
  std::string why;
  std::string const exp = ref_expected(c, in_domain, brace, why);
  if (!in_domain)
  {
    ++g_stats["out_of_property_" + why];
    if (why == "empty-pattern" && obs != "line x")
    {
      std::cout << "ORACLE substitution empty pattern must format to the empty string got=" << obs << "\n";
      ++g_oracle;
    }
    return;
  }
  bool const exp_ctor = exp.rfind("error ctor", 0) == 0;
  bool const got_ctor = obs.rfind("error ctor", 0) == 0;
  if (exp_ctor != got_ctor || (exp_ctor && exp != obs))
  {
    std::cout << "ORACLE rejection expected=" << exp << " got=" << obs << "\n";
    ++g_oracle;
    return;
  }
  if (exp != obs)
  {
    std::cout << "ORACLE " << (brace ? "brace-literal" : "substitution") << " expected=" << exp << " got=" << obs << "\n";
    ++g_oracle;
    ++g_stats[brace ? "oracle_brace_literal" : "oracle_substitution"];
  }
}

// ------------------------------------------------------------------------------------------------
// backend cases (multi-line dispatch, runtime metadata) through ManualBackendWorker and a recording sink
// ------------------------------------------------------------------------------------------------
struct Rec
{
  std::string statement, message, src, caller, logger, lvl, lvls;
  std::vector<std::pair<std::string, std::string>> na;
  bool has_na{false};
};

struct RecSink : Sink
{
  RecSink() = default;
  explicit RecSink(std::optional<PatternFormatterOptions> override_options) : Sink(std::move(override_options)) {}
  std::vector<Rec> recs;
  void write_log(MacroMetadata const* md, uint64_t, std::string_view, std::string_view, std::string const&,
                 std::string_view logger_name, LogLevel, std::string_view lvl, std::string_view lvls,
                 std::vector<std::pair<std::string, std::string>> const* named_args, std::string_view log_message,
                 std::string_view log_statement) override
  {
    Rec r;
    r.statement = std::string{log_statement};
    r.message = std::string{log_message};
    r.src = md->source_location();
    r.caller = md->caller_function();
    r.logger = std::string{logger_name};
    r.lvl = std::string{lvl};
    r.lvls = std::string{lvls};
    if (named_args)
    {
      r.has_na = true;
      r.na = *named_args;
    }
    recs.push_back(std::move(r));
  }
  void flush_sink() override {}
};

struct BeCase
{
  std::string pattern;
  bool ml{true};
  std::string kind; // plain | named | rt
  std::string msg, file, line, fn;
};

static ManualBackendWorker* g_mw = nullptr;
static std::shared_ptr<Sink> g_sink;
static RecSink* g_rec = nullptr;
static unsigned g_notified = 0;
static std::map<std::string, quill::Logger*> g_loggers;

static void backend_init()
{
  if (g_mw) { return; }
  g_mw = Backend::acquire_manual_backend_worker();
  BackendOptions bo;
  bo.error_notifier = [](std::string const&) { ++g_notified; };
  bo.check_printable_char = {};
  g_mw->init(bo);
  g_sink = Frontend::create_or_get_sink<RecSink>("rec");
  g_rec = static_cast<RecSink*>(g_sink.get());
}

static quill::Logger* logger_for(std::string const& pattern, bool ml, std::string& name)
{
  std::string const key = (ml ? "1" : "0") + pattern;
  auto it = g_loggers.find(key);
  if (it != g_loggers.end())
  {
    name = it->second->get_logger_name();
    return it->second;
  }
  name = "lg" + std::to_string(g_loggers.size());
  auto* lg = Frontend::create_or_get_logger(name, g_sink, PatternFormatterOptions{pattern, "%H:%M:%S.%Qns", Timezone::GmtTime, ml},
                                            ClockSourceType::System);
  g_loggers.emplace(key, lg);
  return lg;
}

// fixed, canonical call sites
#line 1000 "/virtual/h3/site.cpp"
static void site_plain(quill::Logger* lg, std::string const& m) { LOG_INFO(lg, "{}", m); }
static void site_named(quill::Logger* lg, std::string const& m) { LOG_WARNING(lg, "{key}", m); }
static void site_rt(quill::Logger* lg, std::string const& m, std::string const& file, std::string const& line, std::string const& fn)
{
  LOG_RUNTIME_METADATA(lg, quill::LogLevel::Error, file, line, fn, "{}", m);
}
#line 459 "h3_pattern.cpp"

static std::vector<std::string> ref_split(std::string const& msg_in, bool ml, bool named)
{
  // the property: option on -> msg.split('\n') with one trailing empty piece dropped; off -> at most one trailing newline removed
  std::string msg = msg_in;
  if (!ml || named)
  {
    if (!msg.empty() && msg.back() == '\n') { msg.pop_back(); }
    return {msg};
  }
  std::vector<std::string> parts;
  std::string cur;
  for (char ch : msg)
  {
    if (ch == '\n')
    {
      parts.push_back(cur);
      cur.clear();
    }
    else { cur.push_back(ch); }
  }
  parts.push_back(cur);
  if (parts.size() > 1 && parts.back().empty()) { parts.pop_back(); }
  return parts;
}

static void run_be(BeCase const& c)
{
  backend_init();
  std::string lname;
  quill::Logger* lg = logger_for(c.pattern, c.ml, lname);
  g_rec->recs.clear();
  unsigned const notified_before = g_notified;
  std::string src = "-", caller = "-", lvl, lvls;
  if (c.kind == "plain")
  {
    site_plain(lg, c.msg);
    src = "/virtual/h3/site.cpp:1000";
    caller = "site_plain";
    lvl = "INFO";
    lvls = "I";
  }
  else if (c.kind == "named")
  {
    site_named(lg, c.msg);
    src = "/virtual/h3/site.cpp:1001";
    caller = "site_named";
    lvl = "WARNING";
    lvls = "W";
  }
  else
  {
    site_rt(lg, c.msg, c.file, c.line, c.fn);
    lvl = "ERROR";
    lvls = "E";
  }
  for (int i = 0; i < 4; ++i) { g_mw->poll_one(); }
  std::ostringstream os;
  os << "be p=" << hex(c.pattern) << " ml=" << (c.ml ? 1 : 0) << " kind=" << c.kind << " msg=" << hex(c.msg)
     << " file=" << hex(c.file) << " line=" << hex(c.line) << " fn=" << hex(c.fn) << " logger=" << hex(lname)
     << " lvl=" << hex(lvl) << " lvls=" << hex(lvls) << " src=" << (src == "-" ? src : hex(src))
     << " caller=" << (caller == "-" ? caller : hex(caller)) << " => ";
  bool const lost = g_rec->recs.empty();
  if (lost) { os << "lost"; }
  else
  {
    os << "ok src=" << hex(g_rec->recs[0].src) << " caller=" << hex(g_rec->recs[0].caller) << " n=" << g_rec->recs.size();
    for (auto const& r : g_rec->recs) { os << " " << hex(r.statement); }
  }
  std::cout << os.str() << "\n";
  if (lost && g_notified == notified_before)
  {
    std::cout << "ORACLE multiline statement vanished without an error notification\n";
    ++g_oracle;
  }

  // ---- the property on the real output --------------------------------------------------------
  bool const named = c.kind == "named";
  FmtCase f;
  f.pattern = c.pattern;
  f.logger = lname;
  f.lvl = lvl;
  f.lvls = lvls;
  f.has_tags = false;
  if (named)
  {
    f.na_kind = 1;
    f.na.push_back({"key", c.msg});
  }
  if (c.kind == "rt")
  {
    f.src = c.file + ":" + c.line;
    f.fn = c.fn;
  }
  else
  {
    f.src = src;
    f.fn = caller;
  }
  if (!lost && (g_rec->recs[0].src != f.src || g_rec->recs[0].caller != f.fn || g_rec->recs[0].logger != lname ||
                g_rec->recs[0].lvl != lvl || g_rec->recs[0].lvls != lvls))
  {
    std::cout << "ORACLE metadata expected src=" << hex(f.src) << " caller=" << hex(f.fn) << " got src="
              << hex(g_rec->recs[0].src) << " caller=" << hex(g_rec->recs[0].caller) << " lvl=" << hex(g_rec->recs[0].lvl) << "\n";
    ++g_oracle;
  }
  std::vector<std::string> const parts = ref_split(c.msg, c.ml, named);
  if (named && c.ml && c.msg.find('\n') != std::string::npos && !(c.msg.find('\n') == c.msg.size() - 1))
  {
    std::cout << "NOTE named-args-not-split option on, message has inner newlines, statement has named arguments\n";
    ++g_stats["note_named_args_not_split"];
  }
  std::vector<std::string> expected;
  bool in_domain = true, brace = false, any_error = false;
  for (auto const& part : parts)
  {
    f.msg = part;
    bool dom = true, br = false;
    std::string why;
    std::string const e = ref_expected(f, dom, br, why);
    in_domain = in_domain && dom;
    brace = brace || br;
    if (e.rfind("line ", 0) == 0) { expected.push_back(e.substr(5)); }
    else { any_error = true; }
  }
  if (!in_domain) { return; }
  bool same = !any_error && !lost && expected.size() == g_rec->recs.size();
  if (same)
  {
    for (size_t i = 0; i < expected.size(); ++i)
    {
      if (expected[i] != hex(g_rec->recs[i].statement)) { same = false; }
    }
  }
  if (any_error && lost) { same = true; }
  if (!same)
  {
    std::cout << "ORACLE " << (brace ? "brace-literal" : "multiline") << " expected n=" << expected.size();
    for (auto const& e : expected) { std::cout << " " << e; }
    std::cout << (any_error ? " (reference: format error)" : "") << " got " << (lost ? std::string{"lost"} : "n=" + std::to_string(g_rec->recs.size())) << "\n";
    ++g_oracle;
    ++g_stats[brace ? "oracle_brace_literal" : "oracle_multiline"];
  }
}


// ------------------------------------------------------------------------------------------------
// multi-logger backend cases: formatter sharing between loggers, sink override patterns
// ------------------------------------------------------------------------------------------------
struct MbLogger
{
  std::string pattern;
  bool ml{true};
  std::vector<unsigned> sinks;
  std::string name; // assigned when run
};
struct MbSink
{
  bool has_override{false};
  std::string pattern;
  bool ml{true};
};
struct MbCase
{
  std::vector<MbLogger> loggers;
  std::vector<MbSink> sinks;
  std::vector<std::pair<unsigned, std::string>> calls;
};

static unsigned long g_mb_serial = 0;

static void run_mb(MbCase& c)
{
  backend_init();
  unsigned long const serial = g_mb_serial++;
  std::vector<std::shared_ptr<Sink>> sinks;
  std::vector<RecSink*> recs;
  for (size_t k = 0; k < c.sinks.size(); ++k)
  {
    std::optional<PatternFormatterOptions> ov;
    if (c.sinks[k].has_override) { ov = PatternFormatterOptions{c.sinks[k].pattern, "%H:%M:%S.%Qns", Timezone::GmtTime, c.sinks[k].ml}; }
    sinks.push_back(Frontend::create_or_get_sink<RecSink>("mbs" + std::to_string(serial) + "_" + std::to_string(k), ov));
    recs.push_back(static_cast<RecSink*>(sinks.back().get()));
  }
  std::vector<quill::Logger*> loggers;
  for (size_t i = 0; i < c.loggers.size(); ++i)
  {
    auto& l = c.loggers[i];
    // distinct, in-range sink indices
    std::vector<unsigned> att;
    for (unsigned k : l.sinks)
    {
      if (k < sinks.size() && std::find(att.begin(), att.end(), k) == att.end()) { att.push_back(k); }
    }
    l.sinks = att;
    std::vector<std::shared_ptr<Sink>> ls;
    for (unsigned k : l.sinks) { ls.push_back(sinks[k]); }
    l.name = "mbl" + std::to_string(serial) + "_" + std::to_string(i);
    loggers.push_back(Frontend::create_or_get_logger(l.name, ls, PatternFormatterOptions{l.pattern, "%H:%M:%S.%Qns", Timezone::GmtTime, l.ml},
                                                     ClockSourceType::System));
  }
  std::ostringstream os;
  os << "mb loggers=";
  for (size_t i = 0; i < c.loggers.size(); ++i)
  {
    os << (i ? "," : "") << c.loggers[i].name << ":" << (c.loggers[i].ml ? 1 : 0) << ":" << hex(c.loggers[i].pattern);
  }
  os << " sinks=";
  for (size_t k = 0; k < c.sinks.size(); ++k)
  {
    os << (k ? "," : "");
    if (c.sinks[k].has_override) { os << (c.sinks[k].ml ? 1 : 0) << ":" << hex(c.sinks[k].pattern); }
    else { os << "-"; }
  }
  os << " attach=";
  for (size_t i = 0; i < c.loggers.size(); ++i)
  {
    os << (i ? "," : "");
    for (size_t j = 0; j < c.loggers[i].sinks.size(); ++j) { os << (j ? "." : "") << c.loggers[i].sinks[j]; }
    if (c.loggers[i].sinks.empty()) { os << "-"; }
  }
  os << " calls=";
  {
    bool first = true;
    for (auto const& call : c.calls)
    {
      if (call.first >= c.loggers.size()) { continue; }
      os << (first ? "" : ",") << call.first << ":" << hex(call.second);
      first = false;
    }
    if (first) { os << "-"; }
  }
  os << " => ok";
  std::vector<std::string> oracle_lines;
  unsigned kcall = 0;
  std::vector<bool> first_used(c.loggers.size(), false);
  for (auto const& call : c.calls)
  {
    if (call.first >= c.loggers.size()) { continue; }
    MbLogger const& l = c.loggers[call.first];
    for (auto* r : recs) { r->recs.clear(); }
    site_plain(loggers[call.first], call.second);
    for (int i = 0; i < 4; ++i) { g_mw->poll_one(); }
    // distribution: a first use after another logger with equal options, with a sink that has an override
    if (!first_used[call.first])
    {
      bool shares = false, has_ov = false;
      for (size_t j = 0; j < c.loggers.size(); ++j)
      {
        if (j != call.first && first_used[j] && c.loggers[j].pattern == l.pattern && c.loggers[j].ml == l.ml) { shares = true; }
      }
      for (unsigned k : l.sinks) { has_ov = has_ov || c.sinks[k].has_override; }
      ++g_stats[shares ? "mb_first_use_shares_formatter" : "mb_first_use_creates_formatter"];
      if (shares && has_ov) { ++g_stats["mb_first_use_shares_formatter_and_has_override_sink"]; }
      first_used[call.first] = true;
    }
    os << " c" << kcall << "=";
    bool any = false;
    std::vector<unsigned> order = l.sinks;
    for (unsigned k = 0; k < recs.size(); ++k)
    {
      if (std::find(order.begin(), order.end(), k) == order.end() && !recs[k]->recs.empty()) { order.push_back(k); }
    }
    for (unsigned k : order)
    {
      bool const attached = std::find(l.sinks.begin(), l.sinks.end(), k) != l.sinks.end();
      if (recs[k]->recs.empty() && !attached) { continue; }
      os << (any ? "/" : "") << "s" << k << ":";
      any = true;
      for (size_t q = 0; q < recs[k]->recs.size(); ++q) { os << (q ? "+" : "") << hex(recs[k]->recs[q].statement); }
      // ---- the property: substitution of the pattern that applies to this sink ----
      std::string const& pat = (attached && c.sinks[k].has_override) ? c.sinks[k].pattern : l.pattern;
      std::vector<std::string> expected;
      bool in_domain = true, any_error = false;
      if (attached)
      {
        for (auto const& part : ref_split(call.second, l.ml, false))
        {
          FmtCase f;
          f.pattern = pat;
          f.logger = l.name;
          f.lvl = "INFO";
          f.lvls = "I";
          f.src = "/virtual/h3/site.cpp:1000";
          f.fn = "site_plain";
          f.msg = part;
          bool dom = true, br = false;
          std::string why;
          std::string const e = ref_expected(f, dom, br, why);
          in_domain = in_domain && dom && !br;
          if (e.rfind("line ", 0) == 0) { expected.push_back(e.substr(5)); }
          else { any_error = true; }
        }
      }
      if (!in_domain || any_error) { continue; }
      bool same = expected.size() == recs[k]->recs.size();
      for (size_t q = 0; same && q < expected.size(); ++q) { same = expected[q] == hex(recs[k]->recs[q].statement); }
      if (!same)
      {
        std::ostringstream o;
        o << "ORACLE override call=" << kcall << " logger=" << call.first << " sink=" << k
          << (attached ? (c.sinks[k].has_override ? " applies=sink-override" : " applies=logger-pattern") : " applies=nothing(sink-not-attached)")
          << " pattern=" << hex(pat) << " expected n=" << expected.size();
        for (auto const& e : expected) { o << " " << e; }
        o << " got n=" << recs[k]->recs.size();
        for (auto const& r : recs[k]->recs) { o << " " << hex(r.statement); }
        oracle_lines.push_back(o.str());
      }
    }
    if (!any) { os << "-"; }
    ++kcall;
  }
  std::cout << os.str() << "\n";
  for (auto const& o : oracle_lines)
  {
    std::cout << o << "\n";
    ++g_oracle;
    ++g_stats["oracle_override"];
  }
  for (auto* lg : loggers) { Frontend::remove_logger(lg); }
  for (int i = 0; i < 3; ++i) { g_mw->poll_one(); }
}

// ------------------------------------------------------------------------------------------------
// generators
// ------------------------------------------------------------------------------------------------
static std::string gen_ascii(Rng& r, unsigned len, char const* alphabet)
{
  size_t const n = std::strlen(alphabet);
  std::string s;
  for (unsigned i = 0; i < len; ++i) { s.push_back(alphabet[r.below(static_cast<unsigned>(n))]); }
  return s;
}

static std::string gen_value(Rng& r, bool allow_newline)
{
  unsigned const k = r.below(100);
  if (k < 14)
  {
    ++g_stats["value_empty"];
    return "";
  }
  if (k < 17)
  {
    ++g_stats["value_very_long"];
    unsigned const len = 400 + r.below(r.chance(30) ? 6000 : 300); // crosses the 512-byte inline buffer
    return gen_ascii(r, len, "abcdefghijklmnopqrstuvwxyz0123456789 _-");
  }
  if (k < 32)
  {
    ++g_stats["value_with_braces_or_percent"];
    static std::vector<std::string> const specials = {"{}", "{", "}", "{{", "}}", "{0}", "{:>5}", "%", "%%", "%(", "%(message)",
                                                      "%(x", "%d", "{name}", ")", "(", ":", "\\"};
    std::string s;
    unsigned const parts = 1 + r.below(4);
    for (unsigned i = 0; i < parts; ++i)
    {
      s += r.chance(50) ? r.pick(specials) : gen_ascii(r, r.below(5), "abcXYZ 09");
    }
    return s;
  }
  if (allow_newline && k < 38)
  {
    ++g_stats["value_with_newline"];
    return gen_ascii(r, r.below(6), "ab ") + "\n" + gen_ascii(r, r.below(6), "cd\n");
  }
  return gen_ascii(r, 1 + r.below(14), "abcdefghijklmnopqrstuvwxyzABCDEFGHIJKLMNOPQRSTUVWXYZ0123456789 _-./:[]()<>#@!?*+=,;'\"~|");
}

static std::string gen_literal(Rng& r)
{
  unsigned const k = r.below(100);
  std::string s;
  if (k < 15) { return ""; }
  if (k < 45) { s = r.pick(std::vector<std::string>{" ", " - ", " [", "] ", ":", "|", ", ", "\t", " LOG_", "  "}); }
  else
  {
    s = gen_ascii(r, 1 + r.below(8), "abcXYZ09 %%()()[]:;,.-_<>^*#=+!?'\"/\\|~@$&\n");
  }
  // never an accidental "%(" inside a literal
  for (size_t i = 0; i + 1 < s.size(); ++i)
  {
    if (s[i] == '%' && s[i + 1] == '(') { s[i + 1] = r.chance(50) ? ' ' : '%'; }
  }
  // after a replacement "%%(" may have become "%%%": fine. re-check once more
  for (size_t i = 0; i + 1 < s.size(); ++i)
  {
    if (s[i] == '%' && s[i + 1] == '(') { s[i + 1] = '.'; }
  }
  return s;
}

static std::string gen_brace_literal(Rng& r)
{
  static std::vector<std::string> const v = {"{", "}", "{{", "}}", "{}", "{x}", "{lit}", "{0}", "{15}", "{:>5}", "{{x}}",
                                             "a{b", "a}b", "{ }", "}{", "{{}}", "{14}", "{1}", "{_}", "{0:>4}"};
  return gen_literal(r) + r.pick(v) + (r.chance(50) ? gen_literal(r) : std::string{});
}

static std::string gen_spec(Rng& r, size_t value_len)
{
  std::string s;
  unsigned const k = r.below(100);
  if (k < 60)
  {
    if (r.chance(55))
    {
      if (r.chance(45))
      {
        static char const fills[] = "*0 .:%(<>^x#-_=+'~/1a";
        s.push_back(fills[r.below(sizeof(fills) - 1)]);
      }
      s.push_back("<>^"[r.below(3)]);
    }
    if (r.chance(75))
    {
      unsigned w;
      unsigned const m = r.below(10);
      if (m < 4) { w = static_cast<unsigned>(value_len) + r.below(3); if (w > 0 && r.chance(50)) { w -= 1; } }
      else if (m < 8) { w = 1 + r.below(40); }
      else if (m < 9) { w = 200 + r.below(500); }
      else { w = static_cast<unsigned>(value_len) + 1 + r.below(12); }
      if (w > 0) { s += std::to_string(w); }
    }
    if (r.chance(35))
    {
      unsigned p;
      unsigned const m = r.below(10);
      if (m < 5) { p = static_cast<unsigned>(value_len) + r.below(3); if (p > 0 && r.chance(60)) { p -= 1; } }
      else if (m < 9) { p = r.below(12); }
      else { p = 0; }
      s += "." + std::to_string(p);
    }
    ++g_stats["spec_in_subset"];
    return s;
  }
  if (k < 98)
  {
    ++g_stats["spec_simple_width"];
    return std::string{"<>^"[r.below(3)]} + std::to_string(1 + r.below(32));
  }
  // specs fmt rejects for strings, or outside the modelled subset
  ++g_stats["spec_odd"];
  static std::vector<std::string> const odd = {"d", "05", "+", "#", "x", "5d", "<05", " 5", "L", ".", ".x", "5.", "5<", "<<<", "s",
                                               "?", "10s", "99999999999", ".99999999999", "2147483648", "c", "-", "0", "<.", "e",
                                               "{<5", "}<5", "{}", "{0}", "x{<4", "70000"};
  return r.pick(odd);
}

static std::string gen_src(Rng& r)
{
  static std::vector<std::string> const dirs = {"", "/", "/a/b/", "src/", "./", "../x/", "/very/long/path/with/many/components/in/it/",
                                                "C:/proj/", "a:b/", "//", "/a//b/"};
  static std::vector<std::string> const bases = {"main.cpp", "f.cc", "x", "file.with.dots.hpp", "Makefile", "a b.cpp", ""};
  static std::vector<std::string> const lines = {"1", "42", "1000", "65535", "123456", "0", ""};
  return r.pick(dirs) + r.pick(bases) + ":" + r.pick(lines);
}

static void gen_common(Rng& r, FmtCase& c)
{
  static std::vector<std::string> const tsps = {"%H:%M:%S.%Qns", "%Y-%m-%d {%H}", "%d/%m/%Y %H-%M", "%H:%M:%S.%Qms"};
  c.tsp = r.chance(70) ? tsps[0] : r.pick(tsps);
  c.tsn = 1700000000ull * 1000000000ull + r.next() % (400ull * 86400ull * 1000000000ull);
  c.tid = r.chance(70) ? std::to_string(r.below(100000)) : gen_value(r, false);
  c.tname = gen_value(r, false);
  c.pid = r.chance(70) ? std::to_string(1 + r.below(65000)) : gen_value(r, false);
  c.logger = gen_value(r, false);
  static std::vector<std::string> const lv = {"TRACE_L3", "DEBUG", "INFO", "WARNING", "ERROR", "CRITICAL", "BACKTRACE", "", "{L}"};
  static std::vector<std::string> const ls = {"T3", "D", "I", "W", "E", "C", "BT", "", "%"};
  unsigned const li = r.below(static_cast<unsigned>(lv.size()));
  c.lvl = lv[li];
  c.lvls = ls[li];
  c.src = gen_src(r);
  c.fn = r.chance(80) ? gen_ascii(r, 1 + r.below(12), "abcdefghijklmnopqrstuvwxyz_:<>~") : gen_value(r, false);
  c.has_tags = r.chance(60);
  c.tags = c.has_tags ? (r.chance(50) ? " #net #io" : gen_value(r, false)) : "";
  unsigned const nk = r.below(10);
  c.na_kind = nk < 3 ? 0 : 1;
  c.na.clear();
  if (nk >= 5)
  {
    unsigned const n = 1 + r.below(3);
    for (unsigned i = 0; i < n; ++i) { c.na.push_back({gen_ascii(r, 1 + r.below(5), "abcxyz_"), gen_value(r, false)}); }
  }
  c.msg = gen_value(r, true);
}

static size_t value_len_of(FmtCase const& c, int attr)
{
  if (attr == 0) { return 18; }
  return ref_values(c)[static_cast<size_t>(attr)].size();
}

static std::string gen_field(Rng& r, FmtCase const& c, int attr, bool with_specs)
{
  std::string f = std::string{"%("} + REF_NAMES[attr];
  if (with_specs && r.chance(55)) { f += ":" + gen_spec(r, value_len_of(c, attr)); }
  f += ")";
  return f;
}

static void gen_wellformed_pattern(Rng& r, FmtCase& c, bool brace)
{
  std::vector<int> attrs(16);
  for (int i = 0; i < 16; ++i) { attrs[i] = i; }
  for (int i = 15; i > 0; --i) { std::swap(attrs[i], attrs[r.below(static_cast<unsigned>(i + 1))]); }
  unsigned k;
  unsigned const m = r.below(10);
  if (m < 1) { k = 0; }
  else if (m < 2) { k = 16; }
  else if (m < 3) { k = 15; }
  else if (m < 6) { k = 1 + r.below(4); }
  else { k = 1 + r.below(16); }
  ++g_stats["fields_" + std::to_string(k)];
  unsigned const brace_at = brace ? r.below(k + 1) : 9999;
  std::string p;
  for (unsigned i = 0; i <= k; ++i)
  {
    p += (i == brace_at) ? gen_brace_literal(r) : gen_literal(r);
    if (i < k) { p += gen_field(r, c, attrs[i], true); }
  }
  // a literal ending in '%' directly followed by a literal starting with '(' cannot arise: one literal per gap
  c.pattern = p;
}

static void gen_malformed_pattern(Rng& r, FmtCase& c)
{
  unsigned const k = r.below(9);
  std::string const a = gen_literal(r), b = gen_literal(r);
  int const x = static_cast<int>(r.below(16)), y = static_cast<int>(r.below(16));
  switch (k)
  {
  case 0: // unknown attribute
  {
    static std::vector<std::string> const bad = {"messag", "Message", "message ", " message", "", "msg", "log-level", "timestamp",
                                                 "file", "line", "level", "named_arg", "messagee", "time\n"};
    c.pattern = a + gen_field(r, c, x, true) + b + "%(" + r.pick(bad) + (r.chance(30) ? ":<5" : "") + ")" + gen_literal(r);
    ++g_stats["malformed_unknown_attribute"];
    break;
  }
  case 1: // unterminated
    c.pattern = a + gen_field(r, c, x, true) + b + "%(" + (r.chance(70) ? REF_NAMES[y] : "") + (r.chance(30) ? ":>7" : "");
    ++g_stats["malformed_unterminated"];
    break;
  case 2: // "%(" at the very end / alone
    c.pattern = r.chance(50) ? std::string{"%("} : a + "%(";
    ++g_stats["malformed_unterminated"];
    break;
  case 3: // duplicate attribute (documented as not allowed)
  {
    c.pattern = a + gen_field(r, c, x, true) + b + gen_field(r, c, y == x ? (y + 1) % 16 : y, true) + gen_literal(r) +
      gen_field(r, c, x, true) + gen_literal(r);
    ++g_stats["malformed_duplicate"];
    break;
  }
  case 4: // field text inside a spec / nested
    c.pattern = a + "%(" + REF_NAMES[x] + ":%(" + REF_NAMES[y] + ")" + b + (r.chance(50) ? ")" : "");
    ++g_stats["malformed_nested"];
    break;
  case 5: // empty spec, colon variants, early ')'
  {
    static std::vector<std::string> const tails = {":)", "::<9)", ":)>5)", ":<5:)", ":", ":<5"};
    c.pattern = a + "%(" + REF_NAMES[x] + r.pick(tails) + b;
    ++g_stats["malformed_colon_variants"];
    break;
  }
  case 6: // unknown first, then unterminated: which error wins
    c.pattern = a + "%(nope)" + b + "%(message";
    ++g_stats["malformed_two_errors"];
    break;
  case 7: // unterminated first (no ')' anywhere)
    c.pattern = a + "%(message" + b + "%(nope";
    ++g_stats["malformed_two_errors"];
    break;
  default: // '%' and '(' apart
    c.pattern = a + "% (message)" + b + "%" + gen_field(r, c, x, true) + "%%" + gen_field(r, c, y == x ? (y + 1) % 16 : y, false) + "%";
    ++g_stats["malformed_percent_noise"];
    break;
  }
}

// One formatter life seen call by call: a timestamp sequence s_0 … s_{n-1} (0 first, repeated, decreasing, …) through a
// pattern that has %(time); case k = fresh formatter, calls at s_0 … s_{k-1} (decoy values), observed call at s_k.
static void gen_time_seq_group(Rng& r)
{
  FmtCase c;
  gen_common(r, c);
  // pattern: %(time) with or without a spec, at a random position among 0..3 other fields
  {
    std::vector<int> others;
    for (int a = 1; a < 16; ++a) { others.push_back(a); }
    for (size_t i = others.size() - 1; i > 0; --i) { std::swap(others[i], others[r.below(static_cast<unsigned>(i + 1))]); }
    unsigned const k = r.below(4);
    unsigned const time_at = r.below(k + 1);
    std::string p;
    for (unsigned i = 0; i <= k; ++i)
    {
      p += gen_literal(r);
      if (i == time_at)
      {
        std::string f = "%(time";
        unsigned const m = r.below(10);
        if (m < 3) { ++g_stats["timeseq_time_without_spec"]; }
        else if (m < 6)
        {
          f += std::string{":"} + "<>^"[r.below(3)] + std::to_string(10 + r.below(20));
          ++g_stats["timeseq_time_with_width"];
        }
        else
        {
          f += ":" + gen_spec(r, 18);
          ++g_stats["timeseq_time_with_spec"];
        }
        p += f + ")" + gen_literal(r);
      }
      if (i < k) { p += gen_field(r, c, others[i], true); }
    }
    c.pattern = p;
  }
  uint64_t const t = c.tsn;
  uint64_t const t2 = t + (r.chance(50) ? 1 + r.below(999) : 1000000000ull * (1 + r.below(100000)));
  uint64_t const sec = 1000000000ull;
  std::vector<uint64_t> seq;
  unsigned const fam = r.below(12);
  switch (fam)
  {
  case 0: seq = {0}; break;
  case 1: seq = {0, 0}; break;
  case 2: seq = {0, 0, t, 0}; break;
  case 3: seq = {t, t, t2}; break;
  case 4: seq = {t, t}; break;
  case 5: seq = {t2, t, 0}; break;                       // decreasing
  case 6: seq = {0, 1, 0}; break;                        // same second, other nanosecond
  case 7: seq = {t, 0, t}; break;
  case 8: seq = {sec - 1, 0, sec}; break;                // around the first second of the epoch
  case 9: seq = {0, t, t, 0, 0}; break;
  case 10: seq = {3661 * sec, 0, 0}; break;
  default: seq = {t2, t2, t, t}; break;                  // repeated and decreasing
  }
  ++g_stats["timeseq_groups"];
  ++g_stats["timeseq_family_" + std::to_string(fam)];
  for (size_t k = 0; k < seq.size(); ++k)
  {
    FmtCase k_case = c;
    k_case.pre_given = true;
    k_case.pre.assign(seq.begin(), seq.begin() + static_cast<long>(k));
    k_case.tsn = seq[k];
    run_fmt(k_case);
    ++g_stats["timeseq_cases"];
  }
}

static void gen_fmt_cases(Rng& r, Rng& r2, unsigned n)
{
  for (unsigned i = 0; i < n; ++i)
  {
    // every 25th case: a timestamp-sequence group from its own stream (the main stream is not disturbed)
    if (i % 25 == 24) { gen_time_seq_group(r2); }
    FmtCase c;
    gen_common(r, c);
    unsigned const k = r.below(100);
    if (k < 12) { gen_malformed_pattern(r, c); }
    else if (k < 18)
    {
      gen_wellformed_pattern(r, c, true);
      ++g_stats["pattern_brace_literal"];
    }
    else
    {
      gen_wellformed_pattern(r, c, false);
      ++g_stats["pattern_wellformed"];
    }
    run_fmt(c);
  }
}

static void gen_exhaustive_subsets(Rng& r)
{
  // all 2^16 subsets of the attributes, enum order, with a spec on every third field
  FmtCase c;
  gen_common(r, c);
  for (unsigned mask = 0; mask < 65536; ++mask)
  {
    if ((mask & 1023) == 0) { gen_common(r, c); }
    std::string p = "<";
    unsigned nth = 0;
    for (int a = 0; a < 16; ++a)
    {
      if (mask & (1u << a))
      {
        p += std::string{"%("} + REF_NAMES[a] + ((nth % 3 == 2) ? ":>7.9" : "") + ")|";
        ++nth;
      }
    }
    p += ">";
    c.pattern = p;
    run_fmt(c);
    ++g_stats["exhaustive_subsets"];
  }
}

static std::vector<std::string> newline_arrangements()
{
  return {"", "\n", "\n\n", "\n\n\n", "a", "a\n", "a\n\n", "\na", "\n\na", "\na\n", "a\nb", "a\nb\n", "a\n\nb", "a\n\nb\n\n",
          "\n\na\n\nb\n\n", "line one\nline two\nline three", " \n ", "a\n \nb", "x{y}\nz", "%(message)\n%(logger)"};
}

static void gen_be_cases(Rng& r, unsigned n)
{
  static std::vector<std::string> const patterns = {
    "%(message)",
    "%(log_level:<9)|%(logger)|%(file_name):%(line_number) %(caller_function) - %(message) [%(named_args)]",
    "[%(short_source_location:>30)] %(log_level_short_code) %(message:^12) <%(full_path)> <%(source_location)>%(tags)",
    "%(logger:*<6)%%%(message)%",
    "",
    "%(message) {lit}",
    "{{%(message)}}",
  };
  auto const arr = newline_arrangements();
  unsigned made = 0;
  // every newline arrangement x both option values x the three kinds, on the first patterns
  for (size_t pi = 0; pi < patterns.size() && made < n; ++pi)
  {
    for (auto const& m : arr)
    {
      for (int ml = 0; ml < 2; ++ml)
      {
        for (int kind = 0; kind < 3; ++kind)
        {
          if (pi >= 4 && (kind != 0 || m.size() > 4)) { continue; }
          if (made >= n) { break; }
          BeCase c;
          c.pattern = patterns[pi];
          c.ml = ml == 1;
          c.kind = kind == 0 ? "plain" : kind == 1 ? "named" : "rt";
          c.msg = m;
          if (kind == 2)
          {
            c.file = r.pick(std::vector<std::string>{"/rt/dir/file.cpp", "rt.cpp", "", "C:/x/y.cc", "/a/b/"});
            c.line = r.pick(std::vector<std::string>{"7", "1234", "0", "65536"});
            c.fn = r.pick(std::vector<std::string>{"rt_function", "", "ns::f<int>"});
          }
          run_be(c);
          ++made;
          ++g_stats[std::string{"be_"} + c.kind + (c.ml ? "_ml1" : "_ml0")];
        }
      }
    }
  }
  // random messages
  while (made < n)
  {
    BeCase c;
    c.pattern = patterns[r.below(4)];
    c.ml = r.chance(50);
    unsigned const k = r.below(3);
    c.kind = k == 0 ? "plain" : k == 1 ? "named" : "rt";
    unsigned const parts = r.below(6);
    for (unsigned i = 0; i < parts; ++i)
    {
      c.msg += r.chance(40) ? std::string{"\n"} : (r.chance(10) ? gen_value(r, true) : gen_ascii(r, r.below(5), "ab \n"));
    }
    if (k == 2)
    {
      c.file = gen_src(r);
      c.file = c.file.substr(0, c.file.rfind(':'));
      c.line = std::to_string(r.below(100000));
      c.fn = gen_ascii(r, r.below(10), "abc_:");
    }
    run_be(c);
    ++made;
    ++g_stats[std::string{"be_"} + c.kind + (c.ml ? "_ml1" : "_ml0")];
  }
}


static void gen_mb_cases(Rng& r, unsigned n)
{
  static std::vector<std::string> const lpat = {"|%(logger)|%(message)", " %(log_level_short_code) %(message:<8)|",
                                                " [%(file_name):%(line_number)] %(message)", " %(message)"};
  static std::vector<std::string> const opat = {" OV>%(message)<", " OV %(logger:>10) %(log_level) %(message)",
                                                " OV[%(caller_function)] %(message:.^9)", " %(message)"};
  auto const arr = newline_arrangements();
  for (unsigned i = 0; i < n; ++i)
  {
    // the tag makes the options of this case different from those of every other case of the run: formatter sharing
    // happens (or not) between the loggers of the case only
    std::string const tag = "G" + std::to_string(i);
    MbCase c;
    unsigned const nl = 2 + r.below(2);
    unsigned const pool = 1 + r.below(2);
    unsigned const p0 = r.below(static_cast<unsigned>(lpat.size()));
    bool const vary_ml = r.chance(25);
    for (unsigned j = 0; j < nl; ++j)
    {
      MbLogger l;
      l.pattern = tag + lpat[(p0 + r.below(pool)) % lpat.size()];
      l.ml = vary_ml ? r.chance(50) : true;
      c.loggers.push_back(l);
    }
    unsigned const ns = 1 + r.below(4);
    for (unsigned k = 0; k < ns; ++k)
    {
      MbSink sk;
      sk.has_override = r.chance(55);
      if (sk.has_override)
      {
        sk.pattern = tag + r.pick(opat);
        sk.ml = r.chance(70);
      }
      c.sinks.push_back(sk);
    }
    for (auto& l : c.loggers)
    {
      unsigned const na = 1 + r.below(2);
      for (unsigned a = 0; a < na; ++a) { l.sinks.push_back(r.below(ns)); }
    }
    unsigned const ncalls = 3 + r.below(5);
    for (unsigned k = 0; k < ncalls; ++k)
    {
      std::string msg = r.chance(70) ? gen_ascii(r, 1 + r.below(10), "abcdefgh XYZ019") : r.pick(arr);
      c.calls.push_back({r.below(nl), msg});
    }
    run_mb(c);
    ++g_stats["mb_cases"];
    ++g_stats["mb_loggers_" + std::to_string(nl)];
  }
}

// ------------------------------------------------------------------------------------------------
// replay
// ------------------------------------------------------------------------------------------------
static std::map<std::string, std::string> kv_of(std::string const& line, std::string& head)
{
  std::map<std::string, std::string> kv;
  std::istringstream is(line);
  std::string tok;
  bool first = true;
  while (is >> tok)
  {
    if (first)
    {
      head = tok;
      first = false;
      continue;
    }
    auto const eq = tok.find('=');
    if (eq == std::string::npos) { continue; }
    kv[tok.substr(0, eq)] = tok.substr(eq + 1);
  }
  return kv;
}

static std::string get_hex(std::map<std::string, std::string> const& kv, char const* k)
{
  auto it = kv.find(k);
  std::string out;
  if (it == kv.end() || !unhex(it->second, out)) { return ""; }
  return out;
}

static int replay(char const* path)
{
  std::ifstream in(path);
  if (!in)
  {
    std::cerr << "cannot open " << path << "\n";
    return 2;
  }
  std::string line;
  while (std::getline(in, line))
  {
    auto const arrow = line.find(" => ");
    if (arrow != std::string::npos) { line = line.substr(0, arrow); }
    if (line.empty() || line[0] == '#') { continue; }
    std::string head;
    auto kv = kv_of(line, head);
    if (head == "fmt")
    {
      FmtCase c;
      c.pattern = get_hex(kv, "p");
      if (kv.count("tsp")) { c.tsp = get_hex(kv, "tsp"); }
      if (kv.count("tsn")) { c.tsn = std::stoull(kv["tsn"]); }
      if (kv.count("pre"))
      {
        // "-" = no earlier call; else N:x..,N:x.. (the texts are recomputed)
        c.pre_given = true;
        if (kv["pre"] != "-")
        {
          std::istringstream ps(kv["pre"]);
          std::string item;
          while (std::getline(ps, item, ','))
          {
            if (!item.empty() && item[0] >= '0' && item[0] <= '9') { c.pre.push_back(std::stoull(item.substr(0, item.find(':')))); }
          }
        }
      }
      c.tid = get_hex(kv, "tid");
      c.tname = get_hex(kv, "tname");
      c.pid = get_hex(kv, "pid");
      c.logger = get_hex(kv, "logger");
      c.lvl = get_hex(kv, "lvl");
      c.lvls = get_hex(kv, "lvls");
      c.src = kv.count("src") ? get_hex(kv, "src") : std::string{"file.cpp:1"};
      c.fn = get_hex(kv, "fn");
      c.has_tags = kv.count("tags") && kv["tags"] != "-";
      c.tags = c.has_tags ? get_hex(kv, "tags") : "";
      std::string const na = kv.count("na") ? kv["na"] : "-";
      c.na_kind = na == "-" ? 0 : 1;
      if (na.rfind("k:", 0) == 0)
      {
        std::istringstream ps(na.substr(2));
        std::string pair;
        while (std::getline(ps, pair, ';'))
        {
          auto const comma = pair.find(',');
          std::string k, v;
          if (comma != std::string::npos && unhex(pair.substr(0, comma), k) && unhex(pair.substr(comma + 1), v))
          {
            c.na.push_back({k, v});
          }
        }
      }
      c.msg = get_hex(kv, "msg");
      run_fmt(c);
    }
    else if (head == "be")
    {
      BeCase c;
      c.pattern = get_hex(kv, "p");
      c.ml = kv["ml"] != "0";
      c.kind = kv.count("kind") ? kv["kind"] : "plain";
      c.msg = get_hex(kv, "msg");
      c.file = get_hex(kv, "file");
      c.line = get_hex(kv, "line");
      c.fn = get_hex(kv, "fn");
      run_be(c);
    }
    else if (head == "mb")
    {
      MbCase c;
      auto split = [](std::string const& t, char sep)
      {
        std::vector<std::string> out;
        std::string cur;
        for (char ch : t)
        {
          if (ch == sep) { out.push_back(cur); cur.clear(); }
          else { cur.push_back(ch); }
        }
        out.push_back(cur);
        return out;
      };
      for (auto const& lt : split(kv["loggers"], ','))
      {
        auto const f = split(lt, ':'); // name:ml:xpattern
        if (f.size() < 3) { continue; }
        MbLogger l;
        l.ml = f[1] != "0";
        unhex(f[2], l.pattern);
        c.loggers.push_back(l);
      }
      for (auto const& stx : split(kv["sinks"], ','))
      {
        MbSink sk;
        auto const f = split(stx, ':');
        if (f.size() >= 2)
        {
          sk.has_override = true;
          sk.ml = f[0] != "0";
          unhex(f[1], sk.pattern);
        }
        c.sinks.push_back(sk);
      }
      {
        auto const at = split(kv["attach"], ',');
        for (size_t i = 0; i < at.size() && i < c.loggers.size(); ++i)
        {
          for (auto const& x : split(at[i], '.'))
          {
            if (!x.empty() && x[0] >= '0' && x[0] <= '9') { c.loggers[i].sinks.push_back(static_cast<unsigned>(std::stoul(x))); }
          }
        }
      }
      for (auto const& ct : split(kv["calls"], ','))
      {
        auto const f = split(ct, ':');
        if (f.size() < 2 || f[0].empty() || f[0][0] < '0' || f[0][0] > '9') { continue; }
        std::string m;
        unhex(f[1], m);
        c.calls.push_back({static_cast<unsigned>(std::stoul(f[0])), m});
      }
      run_mb(c);
    }
  }
  return 0;
}

static void print_stats()
{
  std::cout << "STATS";
  for (auto const& kv : g_stats) { std::cout << " " << kv.first << "=" << kv.second; }
  std::cout << " oracle_lines=" << g_oracle << "\n";
}

int main(int argc, char** argv)
{
  std::ios::sync_with_stdio(false);
  if (argc >= 5 && std::string{argv[1]} == "gen")
  {
    uint64_t const seed = std::stoull(argv[2]);
    unsigned const nfmt = static_cast<unsigned>(std::stoul(argv[3]));
    unsigned const nbe = static_cast<unsigned>(std::stoul(argv[4]));
    bool const exh = argc >= 6 && std::string{argv[5]} == "exh";
    Rng rng(seed);
    Rng rng2(seed * 0x2545F4914F6CDD1Dull + 0x74696d65ull);
    gen_fmt_cases(rng, rng2, nfmt);
    if (exh) { gen_exhaustive_subsets(rng); }
    gen_be_cases(rng, nbe);
    Rng rng3(seed * 0x9E3779B97F4A7C15ull + 0x6d62ull);
    gen_mb_cases(rng3, nbe / 8);
    print_stats();
    std::cout.flush();
    return g_oracle ? 3 : 0;
  }
  if (argc >= 3 && std::string{argv[1]} == "replay")
  {
    int const rc = replay(argv[2]);
    print_stats();
    std::cout.flush();
    if (rc != 0) { return rc; }
    return g_oracle ? 3 : 0;
  }
  std::cerr << "usage: h3_pattern gen <seed> <nfmt> <nbe> [exh] | replay <file>\n";
  return 2;
}
