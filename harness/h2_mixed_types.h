// Two frontends with different queue types in ONE process (included by h2_backend.cpp when H2_MIXED is defined, after
// H2FrontendOptions): frontend B = H2FrontendOptions (built with -DH2_VARIANT=1: BoundedDropping, H2_QCAP bytes) and
// frontend U = UnboundedBlocking with a small first node (H2_UCAP) — "the default quill::Frontend next to a custom dropping
// frontend", as CsvWriter<T, TFrontendOptions> does. The queue type is a property of the THREAD CONTEXT: a thread gets the
// queue of the frontend whose logger it used first, and LoggerBase::thread_context is one thread_local shared by every
// LoggerImpl<...>; so a thread must stay with one frontend (contract, checked below), and the loggers named g5..g9 belong
// to frontend U, all other names to frontend B.
//
// `FE` / `LoggerT` of the scheduler harness become thin dispatchers, so that the scheduler, the operations and the line
// protocol of h2_backend.cpp are reused unchanged.
#pragma once
#ifndef H2_UCAP
  #define H2_UCAP 512
#endif
#ifndef H2_UMAX
  #define H2_UMAX (1u << 20)
#endif

struct H2FrontendOptionsU
{
  static constexpr quill::QueueType queue_type = quill::QueueType::UnboundedBlocking;
  static constexpr size_t initial_queue_capacity = H2_UCAP;
  static constexpr uint32_t blocking_queue_retry_interval_ns = 800;
  static constexpr size_t unbounded_queue_max_capacity = H2_UMAX;
  static constexpr quill::HugePagesPolicy huge_pages_policy = quill::HugePagesPolicy::Never;
};

using FEB = quill::FrontendImpl<H2FrontendOptions>;
using LGB = quill::LoggerImpl<H2FrontendOptions>;
using FEU = quill::FrontendImpl<H2FrontendOptionsU>;
using LGU = quill::LoggerImpl<H2FrontendOptionsU>;

static inline bool h2_name_is_u(std::string const& n)
{
  return n.size() == 2 && n[0] == 'g' && n[1] >= '5' && n[1] <= '9';
}

// which frontend the calling thread belongs to: 0 = none yet, 1 = B, 2 = U
static thread_local int h2_thread_frontend = 0;
static inline void h2_claim_frontend(int fe)
{
  if (h2_thread_frontend == 0) { h2_thread_frontend = fe; }
  if (h2_thread_frontend != fe)
  {
    std::printf("HARNESS-CONTRACT a thread used loggers of both frontends\n");
    std::fflush(stdout);
    _exit(3);
  }
}

// total bytes ever written by the calling thread into its unbounded queue: the writer position of the producer's node plus
// the final positions of the nodes it left behind (a new node starts at 0)
static inline uint64_t h2_unbounded_writer_bytes(quill::detail::ThreadContext* tc)
{
  static thread_local void* node = nullptr;
  static thread_local uint64_t left_behind = 0, last_pos = 0;
  auto* prod = tc->get_spsc_queue_union().unbounded_spsc_queue._producer;
  if (static_cast<void*>(prod) != node)
  {
    left_behind += last_pos;
    node = prod;
  }
  last_pos = prod->bounded_queue._writer_pos;
  return left_behind + last_pos;
}

struct MixLogger
{
  LGB* b{nullptr};
  LGU* u{nullptr};

  quill::detail::LoggerBase* base() const
  {
    return u ? static_cast<quill::detail::LoggerBase*>(u) : static_cast<quill::detail::LoggerBase*>(b);
  }
  template <quill::LogLevel L>
  bool should_log_statement() const { return base()->template should_log_statement<L>(); }
  bool should_log_statement(quill::LogLevel l) const { return base()->should_log_statement(l); }

  template <bool IF, bool DYN, typename... Args>
  bool log_statement(quill::LogLevel lvl, quill::MacroMetadata const* md, Args&&... args)
  {
    h2_claim_frontend(u ? 2 : 1);
    if (u) { return u->template log_statement<IF, DYN>(lvl, md, static_cast<Args&&>(args)...); }
    return b->template log_statement<IF, DYN>(lvl, md, static_cast<Args&&>(args)...);
  }
  void init_backtrace(uint32_t cap, quill::LogLevel fl)
  {
    h2_claim_frontend(u ? 2 : 1);
    if (u) { u->init_backtrace(cap, fl); } else { b->init_backtrace(cap, fl); }
  }
  void flush_backtrace()
  {
    h2_claim_frontend(u ? 2 : 1);
    if (u) { u->flush_backtrace(); } else { b->flush_backtrace(); }
  }
  void flush_log()
  {
    h2_claim_frontend(u ? 2 : 1);
    if (u) { u->flush_log(); } else { b->flush_log(); }
  }
  bool is_valid_logger() const { return base()->is_valid_logger(); }
  std::vector<std::shared_ptr<quill::Sink>> const& get_sinks() const { return base()->get_sinks(); }
  void set_log_level(quill::LogLevel l) { base()->set_log_level(l); }
};

struct MixFE
{
  static MixLogger* wrap(LGB* b, LGU* u)
  {
    static std::map<quill::detail::LoggerBase*, std::unique_ptr<MixLogger>> wrappers; // never freed: a few per run
    quill::detail::LoggerBase* key = u ? static_cast<quill::detail::LoggerBase*>(u) : static_cast<quill::detail::LoggerBase*>(b);
    auto& w = wrappers[key];
    if (!w) { w = std::make_unique<MixLogger>(); }
    w->b = b;
    w->u = u;
    return w.get();
  }
  template <typename TSink, typename... Args>
  static std::shared_ptr<quill::Sink> create_or_get_sink(std::string const& name, Args&&... args)
  {
    return FEB::create_or_get_sink<TSink>(name, static_cast<Args&&>(args)...);
  }
  static std::shared_ptr<quill::Sink> get_sink(std::string const& name) { return FEB::get_sink(name); }

  template <typename S>
  static MixLogger* create_or_get_logger(std::string const& name, S sinks, quill::PatternFormatterOptions const& pfo,
                                         quill::ClockSourceType cs)
  {
    if (h2_name_is_u(name)) { return wrap(nullptr, FEU::create_or_get_logger(name, std::move(sinks), pfo, cs)); }
    return wrap(FEB::create_or_get_logger(name, std::move(sinks), pfo, cs), nullptr);
  }
  static void remove_logger(MixLogger* lg) { FEB::remove_logger(lg->base()); }
  static void remove_logger_blocking(MixLogger* lg)
  {
    h2_claim_frontend(lg->u ? 2 : 1);
    if (lg->u) { FEU::remove_logger_blocking(lg->u); } else { FEB::remove_logger_blocking(lg->b); }
  }
  static size_t get_number_of_loggers() { return FEB::get_number_of_loggers(); }
  static void shrink_thread_local_queue(size_t) {}
  static size_t get_thread_local_queue_capacity() { return 0; }
};

using FE = MixFE;
using LoggerT = MixLogger;
