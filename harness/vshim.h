// Replacement for std::atomic used to compile quill's *unmodified* queue headers under a
// release/acquire view semantics (DESIGN.md §3.1, H1).
//
//  * every location keeps its whole store history; a load by the other actor may return any store
//    that is not older than the newest one this actor has already observed (coherence), the choice
//    being made by the schedule (`World::choices`: 0 = newest legal value, k = k-th older distinct value);
//  * an acquire load that reads a release store joins the reader's view with the writer's epoch at the
//    store (synchronises-with); relaxed accesses transfer the value only;
//  * the run-time std::memory_order argument of every access is recorded (cross-check of the extraction);
//  * a destroyed atomic is poisoned and any later access is flagged (retired unbounded-queue nodes).
//
// Two actors only (0 = producer, 1 = consumer); -1 = construction (happens-before everything).
#pragma once
#include <atomic>
#include <cstdint>
#include <cstdio>
#include <cstdlib>
#include <string>
#include <vector>

namespace vshim
{
struct AccessRec
{
  int actor;
  int loc_id;
  bool is_store;
  int order;          // std::memory_order numeric value
  uint64_t value;
  bool stale;         // a load that did not return the newest store
};

struct World
{
  int actor{-1};
  std::vector<int> choices;   // stale choices for the loads of the current API call
  size_t choice_idx{0};
  uint64_t epoch[2]{1, 1};    // own epoch (bumped after each release store)
  uint64_t view[2]{0, 0};     // view[a]: newest epoch of the other actor that a has synchronised with
  std::vector<AccessRec> log; // accesses of the current API call
  std::vector<std::string> faults;
  int next_loc_id{0};
  uint64_t dead_accesses{0};
  std::vector<int> owner;     // owner[loc]: the single actor that stores to the location (-1 unknown); its own
                              // loads return the newest store and consume no schedule choice
  void set_owner(int loc, int a)
  {
    if (static_cast<size_t>(loc) >= owner.size()) { owner.resize(static_cast<size_t>(loc) + 1, -1); }
    owner[static_cast<size_t>(loc)] = a;
  }
  int owner_of(int loc) const { return static_cast<size_t>(loc) < owner.size() ? owner[static_cast<size_t>(loc)] : -1; }

  void begin_call(int a, std::vector<int> ch = {})
  {
    actor = a;
    choices = std::move(ch);
    choice_idx = 0;
    log.clear();
  }
  int next_choice() { return choice_idx < choices.size() ? choices[choice_idx++] : 0; }
  void reset()
  {
    actor = -1;
    epoch[0] = epoch[1] = 1;
    view[0] = view[1] = 0;
    log.clear();
    faults.clear();
    choices.clear();
    choice_idx = 0;
  }
};

inline World& world()
{
  static World w;
  return w;
}

inline bool is_acq(std::memory_order mo)
{
  return mo == std::memory_order_acquire || mo == std::memory_order_acq_rel ||
    mo == std::memory_order_seq_cst || mo == std::memory_order_consume;
}
inline bool is_rel(std::memory_order mo)
{
  return mo == std::memory_order_release || mo == std::memory_order_acq_rel || mo == std::memory_order_seq_cst;
}
inline char const* order_name(int mo)
{
  switch (static_cast<std::memory_order>(mo))
  {
  case std::memory_order_relaxed: return "relaxed";
  case std::memory_order_consume: return "consume";
  case std::memory_order_acquire: return "acquire";
  case std::memory_order_release: return "release";
  case std::memory_order_acq_rel: return "acq_rel";
  case std::memory_order_seq_cst: return "seq_cst";
  }
  return "?";
}

template <typename T>
uint64_t to_u64(T v)
{
  if constexpr (std::is_pointer_v<T>) { return reinterpret_cast<uint64_t>(v); }
  else { return static_cast<uint64_t>(v); }
}

template <typename T>
class atomic
{
public:
  struct Store
  {
    T v;
    int writer;
    uint64_t epoch; // writer's epoch at the store
    bool rel;
  };

  atomic() noexcept : atomic(T{}) {}
  atomic(T v) noexcept
  {
    _id = world().next_loc_id++;
    _hist.push_back(Store{v, -1, 0, true});
  }
  atomic(atomic const&) = delete;
  atomic& operator=(atomic const&) = delete;
  ~atomic()
  {
    World& w = world();
    int const a = w.actor;
    if (a >= 0)
    {
      int const o = 1 - a;
      if (_last_epoch[o] > w.view[a])
      {
        w.faults.push_back("destroy-races-with-access loc=" + std::to_string(_id) + " by-actor=" +
                           std::to_string(a));
      }
    }
    _dead = true;
  }

  void store(T v, std::memory_order mo = std::memory_order_seq_cst) noexcept
  {
    World& w = world();
    check_alive("store");
    int const a = w.actor;
    if (a < 0)
    {
      // construction-time store: part of the initial state
      _hist.push_back(Store{v, -1, 0, true});
      _seen[0] = _seen[1] = _hist.size() - 1;
      return;
    }
    bool const rel = is_rel(mo);
    _last_epoch[a] = w.epoch[a];
    _hist.push_back(Store{v, a, w.epoch[a], rel});
    if (rel) { ++w.epoch[a]; }
    _seen[a] = _hist.size() - 1;
    w.log.push_back(AccessRec{a, _id, true, static_cast<int>(mo), to_u64(v), false});
  }

  T load(std::memory_order mo = std::memory_order_seq_cst) const noexcept
  {
    World& w = world();
    check_alive("load");
    int const a = w.actor;
    if (a < 0) { return _hist.back().v; }
    if (w.owner_of(_id) == a)
    {
      // the writer reading its own location back: newest store, no choice consumed
      _seen[a] = _hist.size() - 1;
      _last_epoch[a] = w.epoch[a];
      w.log.push_back(AccessRec{a, _id, false, static_cast<int>(mo), to_u64(_hist.back().v), false});
      return _hist.back().v;
    }
    // legal stores: index >= _seen[a] (coherence) and not older than the newest store of the other actor that
    // happens-before this load (a store stamped with an epoch the reader has synchronised with);
    // collapse runs of equal values, newest first
    size_t floor_idx = _seen[a];
    for (size_t i = _hist.size(); i-- > floor_idx;)
    {
      if (_hist[i].writer >= 0 && _hist[i].writer != a && _hist[i].epoch <= w.view[a])
      {
        floor_idx = i;
        break;
      }
    }
    std::vector<size_t> legal; // index of the newest store of each distinct run
    for (size_t i = _hist.size(); i-- > floor_idx;)
    {
      if (legal.empty() || !(_hist[legal.back()].v == _hist[i].v)) { legal.push_back(i); }
    }
    size_t k = static_cast<size_t>(w.next_choice());
    if (k >= legal.size()) { k = legal.size() - 1; }
    size_t const idx = legal[k];
    Store const& s = _hist[idx];
    _seen[a] = idx;
    _last_epoch[a] = w.epoch[a];
    if (is_acq(mo) && s.rel && s.writer >= 0 && s.writer != a)
    {
      if (s.epoch > w.view[a]) { w.view[a] = s.epoch; }
    }
    w.log.push_back(AccessRec{a, _id, false, static_cast<int>(mo), to_u64(s.v), idx + 1 != _hist.size()});
    return s.v;
  }

  operator T() const noexcept { return load(); }
  T operator=(T v) noexcept
  {
    store(v);
    return v;
  }

  T exchange(T v, std::memory_order mo = std::memory_order_seq_cst) noexcept
  {
    // read-modify-write: always reads the newest store
    World& w = world();
    check_alive("exchange");
    int const a = w.actor;
    Store const s = _hist.back();
    if (a >= 0)
    {
      if (is_acq(mo) && s.rel && s.writer >= 0 && s.writer != a && s.epoch > w.view[a]) { w.view[a] = s.epoch; }
      bool const rel = is_rel(mo);
      _last_epoch[a] = w.epoch[a];
      _hist.push_back(Store{v, a, w.epoch[a], rel});
      if (rel) { ++w.epoch[a]; }
      _seen[0] = _seen[1] = _hist.size() - 1;
      w.log.push_back(AccessRec{a, _id, true, static_cast<int>(mo), to_u64(v), false});
    }
    else { _hist.push_back(Store{v, -1, 0, true}); }
    return s.v;
  }

  int id() const noexcept { return _id; }
  bool dead() const noexcept { return _dead; }
  size_t history_size() const noexcept { return _hist.size(); }

private:
  void check_alive(char const* what) const
  {
    if (_dead)
    {
      ++world().dead_accesses;
      world().faults.push_back(std::string{"access-after-destroy "} + what + " loc=" + std::to_string(_id));
    }
  }

  std::vector<Store> _hist;
  mutable size_t _seen[2]{0, 0};
  mutable uint64_t _last_epoch[2]{0, 0};
  int _id{0};
  bool _dead{false};
};
} // namespace vshim
