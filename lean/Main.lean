import QuillModel.Drivers.Spsc
/-! `driver <model> …` — correspondence drivers and model-side searches. Imports no Mathlib. -/
def main (args : List String) : IO UInt32 := do
  match args with
  | ["spsc"] => Drv.Spsc.runTrace
  | ["spsc-anypub"] => Drv.Spsc.runTrace true
  | "spsc-search" :: rest => Drv.Spsc.search rest
  | _ => IO.println "usage: driver <spsc|spsc-search …>"; return 2
