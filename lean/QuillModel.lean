-- Root of the `QuillModel` library: executable models of quill's cores, their proofs, and the
-- per-property theorem files (`QuillModel/Props/Cxx.lean`).
import QuillModel.Spsc.Model
import QuillModel.Spsc.Proofs
import QuillModel.Spsc.Api
import QuillModel.Spsc.Wrap
import QuillModel.Props.C01
import QuillModel.Drivers.Util
import QuillModel.Drivers.Spsc
import QuillModel.Props.C09
import QuillModel.Extracted
import QuillModel.Obligations.Queue
