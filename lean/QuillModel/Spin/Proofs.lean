import QuillModel.Spin.Model
namespace Spin

theorem init_inv (n : Nat) : SInv ({ nthreads := n } : St) := by
  refine { excl := ?_, lockedIff := ?_, holderSees := ?_, freeCarries := ?_, seenLe := ?_ } <;> simp

theorem step_inv (o : Orders) (ho : OrdersOK o) (s : St) (op : Op) (h : SInv s) (he : Enabled s op) :
    SInv (step o s op) := by
  obtain ⟨hacq, hrel⟩ := ho
  cases op with
  | attempt t =>
    simp only [step]
    by_cases hl : s.locked = true
    · simp only [hl, if_true]; exact h
    · have hl' : s.locked = false := by simpa using hl
      have hnone : ∀ u, s.inCS u = false := by
        intro u
        cases hu : s.inCS u with
        | false => rfl
        | true => exact absurd (h.lockedIff.mpr ⟨u, hu⟩) hl
      have hrv := h.freeCarries hl'
      simp only [hl', Bool.false_eq_true, if_false, hacq, if_true]
      refine { excl := ?_, lockedIff := ?_, holderSees := ?_, freeCarries := ?_, seenLe := ?_ }
      · intro a b ha hb
        simp only [upd] at ha hb
        by_cases h1 : a = t <;> by_cases h2 : b = t <;> simp_all
      · simp only [true_iff]; exact ⟨t, by simp [upd]⟩
      · intro a ha
        simp only [upd] at ha ⊢
        by_cases h1 : a = t
        · subst h1; simp only [if_true]; have := h.seenLe a; omega
        · simp [h1, hnone a] at ha
      · intro hh; simp at hh
      · intro a
        simp only [upd]
        by_cases h1 : a = t
        · subst h1; simp only [if_true]; have := h.seenLe a; omega
        · simp only [h1, if_false]; exact h.seenLe a
  | unlock t =>
    obtain ⟨_, hin⟩ := he
    simp only [step, hrel, if_true]
    have hother : ∀ u, u ≠ t → s.inCS u = false := by
      intro u hu
      cases hc : s.inCS u with
      | false => rfl
      | true => exact absurd (h.excl u t hc hin) hu
    refine { excl := ?_, lockedIff := ?_, holderSees := ?_, freeCarries := ?_, seenLe := h.seenLe }
    · intro a b ha hb
      simp only [upd] at ha hb
      by_cases h1 : a = t
      · simp [h1] at ha
      · simp only [h1, if_false] at ha; rw [hother a h1] at ha; simp at ha
    · constructor
      · intro hh; simp at hh
      · rintro ⟨a, ha⟩
        simp only [upd] at ha
        by_cases h1 : a = t
        · simp [h1] at ha
        · simp only [h1, if_false] at ha; rw [hother a h1] at ha; simp at ha
    · intro a ha
      simp only [upd] at ha
      by_cases h1 : a = t
      · simp [h1] at ha
      · simp only [h1, if_false] at ha; rw [hother a h1] at ha; simp at ha
    · intro _; exact h.holderSees t hin
  | access t =>
    obtain ⟨_, hin⟩ := he
    simp only [step]
    refine { excl := h.excl, lockedIff := h.lockedIff, holderSees := ?_, freeCarries := ?_, seenLe := ?_ }
    · intro a ha
      have : a = t := h.excl a t ha hin
      subst this; simp [upd]
    · intro hl
      have : s.locked = true := h.lockedIff.mpr ⟨t, hin⟩
      simp only [] at hl; rw [this] at hl; simp at hl
    · intro a
      simp only [upd]
      by_cases h1 : a = t
      · simp [h1]
      · simp only [h1, if_false]; have := h.seenLe a; omega

theorem reachable_inv (o : Orders) (ho : OrdersOK o) :
    ∀ (ops : List Op) (s : St), SInv s → Run o s ops → SInv (run o s ops)
  | [], _, h, _ => h
  | op :: ops, s, h, hr => reachable_inv o ho ops _ (step_inv o ho s op h hr.1) hr.2

end Spin
