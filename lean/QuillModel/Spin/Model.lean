import QuillModel.Spsc.Model
/-!
# `quill::detail::Spinlock` under the release/acquire view semantics

Anchors: `include/quill/core/Spinlock.h` — `lock()` (relaxed test loop, then `exchange(Locked, acquire)`), `unlock()`
(`store(Free, release)`), `LockGuard`. The lock protects the logger / sink / thread-context registries (C17).

The flag is one atomic location. An `exchange` is a read-modify-write: it reads the newest value in modification order,
so two threads can never both read `Free` without an `unlock` in between — mutual exclusion does not depend on the memory
orders. What depends on them is *visibility*: the protected data written in one critical section must happen-before the
next one. `data` is the ghost version number of the protected data, `seen t` the newest version that happens-before
thread `t`'s next action, `relView` the version carried by the release sequence of the newest store to the flag (a release
store heads a sequence that later read-modify-writes continue; a plain relaxed store carries nothing).
-/
namespace Spin
open Spsc (MO)

structure Orders where
  xchg : MO      -- `_flag.exchange(Locked, …)` in `lock()`
  unl : MO       -- `_flag.store(Free, …)` in `unlock()`
  deriving Repr, DecidableEq

def OrdersOK (o : Orders) : Prop := o.xchg.isAcq = true ∧ o.unl.isRel = true
instance (o : Orders) : Decidable (OrdersOK o) := by unfold OrdersOK; infer_instance

structure St where
  locked : Bool := false          -- newest value of the flag
  relView : Nat := 0
  data : Nat := 0
  seen : Nat → Nat := fun _ => 0
  inCS : Nat → Bool := fun _ => false
  nthreads : Nat

inductive Op
  | attempt (t : Nat)     -- one `exchange` of `lock()` (the relaxed test loop before it only delays)
  | unlock (t : Nat)
  | access (t : Nat)      -- read and update the protected data inside the critical section
  deriving Repr

def Enabled (s : St) : Op → Prop
  | .attempt t => t < s.nthreads ∧ s.inCS t = false
  | .unlock t => t < s.nthreads ∧ s.inCS t = true
  | .access t => t < s.nthreads ∧ s.inCS t = true

instance (s : St) (op : Op) : Decidable (Enabled s op) := by cases op <;> unfold Enabled <;> infer_instance

def upd {β} (f : Nat → β) (i : Nat) (v : β) : Nat → β := fun k => if k = i then v else f k

def step (o : Orders) (s : St) : Op → St
  | .attempt t =>
    if s.locked then s                                   -- read Locked, wrote Locked: nothing changes, nothing is acquired that matters
    else { s with locked := true, inCS := upd s.inCS t true,
                  seen := if o.xchg.isAcq then upd s.seen t (max (s.seen t) s.relView) else s.seen }
  | .unlock t => { s with locked := false, inCS := upd s.inCS t false,
                          relView := if o.unl.isRel then s.seen t else 0 }
  | .access t => { s with data := s.data + 1, seen := upd s.seen t (s.data + 1) }

/-- the access is race-free and sees the newest version of the protected data -/
def Safe (s : St) : Op → Prop
  | .access t => s.seen t = s.data
  | _ => True

instance (s : St) (op : Op) : Decidable (Safe s op) := by cases op <;> unfold Safe <;> infer_instance

structure SInv (s : St) : Prop where
  excl : ∀ t u, s.inCS t = true → s.inCS u = true → t = u
  lockedIff : s.locked = true ↔ ∃ t, s.inCS t = true
  holderSees : ∀ t, s.inCS t = true → s.seen t = s.data
  freeCarries : s.locked = false → s.relView = s.data
  seenLe : ∀ t, s.seen t ≤ s.data

def Run (o : Orders) : St → List Op → Prop
  | _, [] => True
  | s, op :: ops => Enabled s op ∧ Run o (step o s op) ops

def run (o : Orders) : St → List Op → St
  | s, [] => s
  | s, op :: ops => run o (step o s op) ops

def decRun (o : Orders) : (s : St) → (ops : List Op) → Decidable (Run o s ops)
  | _, [] => isTrue trivial
  | s, op :: ops =>
      match (inferInstance : Decidable (Enabled s op)), decRun o (step o s op) ops with
      | isTrue h1, isTrue h2 => isTrue ⟨h1, h2⟩
      | isFalse h1, _ => isFalse (fun h => h1 h.1)
      | _, isFalse h2 => isFalse (fun h => h2 h.2)
instance (o : Orders) (s : St) (ops : List Op) : Decidable (Run o s ops) := decRun o s ops

end Spin
