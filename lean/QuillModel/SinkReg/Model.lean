/-!
# The by-name sink registry (`quill::detail::SinkManager`, core/SinkManager.h)

`_sinks` is a `std::vector<SinkInfo>` of `(sink_id, weak_ptr<Sink>)` kept sorted by `sink_id`.

* `_find_sink(name)`: `std::lower_bound` with `elem.sink_id < name` (the FIRST entry of that name), then
  `search_it != end && search_it->sink_id == name` → `sink_ptr.lock()` (null when the entry has expired);
* `_insert_sink(name, sink)`: `_sinks.insert(std::lower_bound(…), {name, sink})` — IN FRONT of any entry of that name;
* `create_or_get_sink(name)`: `_find_sink`; when null: `make_shared`, `_insert_sink`;
* `get_sink(name)`: `_find_sink`; when null: throws `QuillError`;
* `cleanup_unused_sinks()`: erases every entry whose `weak_ptr` has expired, returns how many.

An entry expires when the last `shared_ptr` owner lets go (a logger erased by the backend, or the user's own handle).
The registry is swept only right after the backend erased a logger, so an expired entry can coexist with a live,
re-created entry of the same name (the user was the last owner, dropped the sink and re-created the name before the
next sweep). The model keeps such entries.

Names are `Nat` (the driver maps the harness's strings by their rank in `std::string` order), object identities are
`Nat` (serial number of the construction: the harness's sink subclass counts its constructors). `std::lower_bound` /
`std::upper_bound` on a range partitioned by the comparator return the length of the longest prefix satisfying it —
`takeWhile`; that the vector stays sorted (so that the binary search is this linear scan) is theorem
`C17_sinkreg_sorted`. `Params` says which bound each of the two private helpers uses (extracted; the theorems need
`lower` for both, the negative witnesses use `upper` for the insert).
-/
namespace SinkReg

inductive Bound where
  | lower | upper
deriving DecidableEq, Repr

structure Params where
  findAt : Bound := .lower
  insertAt : Bound := .lower
deriving DecidableEq, Repr

/-- what the theorems need of the extracted structure -/
def Params.OK (p : Params) : Prop := p.findAt = .lower ∧ p.insertAt = .lower

instance (p : Params) : Decidable p.OK := by unfold Params.OK; infer_instance

structure Entry where
  name : Nat
  id : Nat
  alive : Bool
deriving DecidableEq, Repr

structure St where
  entries : List Entry := []
  /-- serial number the next constructed sink gets -/
  next : Nat := 1
deriving DecidableEq, Repr

/-- `std::lower_bound(…, n, elem.sink_id < n)` / `std::upper_bound(…, n, n < elem.sink_id)` as a position -/
def bound (b : Bound) (l : List Entry) (n : Nat) : Nat :=
  match b with
  | .lower => (l.takeWhile (fun e => decide (e.name < n))).length
  | .upper => (l.takeWhile (fun e => decide (e.name ≤ n))).length

/-- `_find_sink`: the entry at the bound, if it carries the name, locked (`none` = null `shared_ptr`) -/
def find (p : Params) (s : St) (n : Nat) : Option Nat :=
  match s.entries[bound p.findAt s.entries n]? with
  | some e => if e.name = n ∧ e.alive = true then some e.id else none
  | none => none

/-- `vector::insert(begin() + k, x)` -/
def insertAt (l : List Entry) (k : Nat) (x : Entry) : List Entry := l.take k ++ x :: l.drop k

inductive Op where
  | createOrGet (n : Nat)
  | get (n : Nat)
  /-- the last owner of object `id` releases it -/
  | drop (id : Nat)
  | cleanup
deriving DecidableEq, Repr

inductive Obs where
  /-- the object returned -/
  | id (i : Nat)
  /-- `get_sink` threw `QuillError` -/
  | notFound
  | ok
  /-- return value of `cleanup_unused_sinks` -/
  | removed (k : Nat)
deriving DecidableEq, Repr

def kill (i : Nat) (e : Entry) : Entry := if e.id = i then { e with alive := false } else e

def step (p : Params) (s : St) : Op → St × Obs
  | .createOrGet n =>
    match find p s n with
    | some i => (s, .id i)
    | none =>
      ({ entries := insertAt s.entries (bound p.insertAt s.entries n) { name := n, id := s.next, alive := true },
         next := s.next + 1 }, .id s.next)
  | .get n =>
    match find p s n with
    | some i => (s, .id i)
    | none => (s, .notFound)
  | .drop i => ({ s with entries := s.entries.map (kill i) }, .ok)
  | .cleanup =>
    ({ s with entries := s.entries.filter (fun e => e.alive) }, .removed (s.entries.filter (fun e => !e.alive)).length)

def run (p : Params) (s : St) : List Op → St
  | [] => s
  | op :: ops => run p (step p s op).1 ops

def trace (p : Params) (s : St) : List Op → List Obs
  | [] => []
  | op :: ops => (step p s op).2 :: trace p (step p s op).1 ops

/-! ### specification-level reading of a state -/

/-- the alive entry of a name (the first one; `C17_sinkreg_one_alive_per_name`: there is at most one) -/
def aliveOf (s : St) (n : Nat) : Option Nat :=
  (s.entries.find? (fun e => e.name == n && e.alive)).map (·.id)

/-- the objects alive under a name -/
def aliveIds (s : St) (n : Nat) : List Nat :=
  (s.entries.filter (fun e => e.name == n && e.alive)).map (·.id)

theorem run_append (p : Params) (s : St) (a b : List Op) : run p s (a ++ b) = run p (run p s a) b := by
  induction a generalizing s with
  | nil => rfl
  | cons op ops ih => simp [run, ih]

end SinkReg
