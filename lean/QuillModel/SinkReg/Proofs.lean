import QuillModel.SinkReg.Model
/-!
Invariant of the registry and the step lemmas behind `Props/C17SinkReg.lean`.

`Rel a b` for every pair `a` before `b` in the vector: names ascend, a LATER entry of the same name is expired (within a
name only the first entry may be alive — it is the newest: `_insert_sink` puts a re-created sink in front), identities
differ. Together with "every identity is below the construction counter" this is inductive for lower/lower.
-/
namespace SinkReg

def Rel (a b : Entry) : Prop := a.name ≤ b.name ∧ (a.name = b.name → b.alive = false) ∧ a.id ≠ b.id

structure RInv (s : St) : Prop where
  pw : s.entries.Pairwise Rel
  lt : ∀ e ∈ s.entries, e.id < s.next

theorem rinv_init : RInv {} := ⟨List.Pairwise.nil, by simp⟩

/-! ### `lower_bound` = end of the `< n` prefix -/

theorem getElem?_takeWhile_length (p : Entry → Bool) (l : List Entry) :
    l[(l.takeWhile p).length]? = (l.dropWhile p).head? := by
  induction l with
  | nil => simp
  | cons x xs ih =>
    by_cases h : p x
    · simp [h, ih]
    · simp [h]

theorem take_takeWhile_length (q : Entry → Bool) (l : List Entry) : l.take (l.takeWhile q).length = l.takeWhile q := by
  induction l with
  | nil => simp
  | cons x xs ih => by_cases h : q x <;> simp [h, ih]

theorem drop_takeWhile_length (q : Entry → Bool) (l : List Entry) : l.drop (l.takeWhile q).length = l.dropWhile q := by
  induction l with
  | nil => simp
  | cons x xs ih => by_cases h : q x <;> simp [h, ih]

theorem of_mem_takeWhile (q : Entry → Bool) (l : List Entry) : ∀ e ∈ l.takeWhile q, q e = true := by
  induction l with
  | nil => simp
  | cons x xs ih =>
    by_cases h : q x
    · simp only [List.takeWhile_cons, h, if_true, List.mem_cons]
      rintro e (rfl | he)
      · exact h
      · exact ih e he
    · simp [h]

/-- the predicate of `aliveOf` -/
def isAliveOf (n : Nat) (e : Entry) : Bool := e.name == n && e.alive

theorem aliveOf_def (s : St) (n : Nat) : aliveOf s n = (s.entries.find? (isAliveOf n)).map (·.id) := rfl

/-- `_find_sink` on a vector satisfying the invariant finds the alive entry of the name, if there is one -/
theorem find_list (l : List Entry) (n : Nat) (h : l.Pairwise Rel) :
    (match (l.dropWhile (fun e => decide (e.name < n))).head? with
     | some e => if e.name = n ∧ e.alive = true then some e.id else none
     | none => none) = (l.find? (isAliveOf n)).map (·.id) := by
  induction l with
  | nil => simp
  | cons x xs ih =>
    have hx := List.pairwise_cons.1 h
    by_cases hlt : x.name < n
    · have hne : (x.name == n) = false := by simp; omega
      simp only [List.dropWhile_cons, hlt, decide_true, if_true, List.find?_cons, isAliveOf, hne, Bool.false_and]
      exact ih hx.2
    · simp only [List.dropWhile_cons, hlt, decide_false]
      by_cases ha : x.name = n ∧ x.alive = true
      · have : isAliveOf n x = true := by simp [isAliveOf, ha.1, ha.2]
        simp [ha, this]
      · have h1 : isAliveOf n x = false := by
          simp only [isAliveOf, Bool.and_eq_false_iff, beq_eq_false_iff_ne, ne_eq]
          by_cases e : x.name = n
          · right; simpa [e] using ha
          · left; exact e
        have h2 : xs.find? (isAliveOf n) = none := by
          rw [List.find?_eq_none]
          intro e he
          obtain ⟨r1, r2, _⟩ := hx.1 e he
          simp only [isAliveOf, Bool.and_eq_true, beq_iff_eq, not_and, Bool.not_eq_true]
          intro hn
          exact r2 (by omega)
        simp [ha, h1, h2]

theorem find_eq_aliveOf (p : Params) (hp : p.OK) (s : St) (hs : RInv s) (n : Nat) : find p s n = aliveOf s n := by
  unfold find bound
  rw [hp.1]
  simp only
  rw [getElem?_takeWhile_length]
  exact find_list s.entries n hs.pw

/-! ### at most one alive entry per name -/

theorem filter_alive_le_one (l : List Entry) (n : Nat) (h : l.Pairwise Rel) : (l.filter (isAliveOf n)).length ≤ 1 := by
  induction l with
  | nil => simp
  | cons x xs ih =>
    have hx := List.pairwise_cons.1 h
    by_cases hx1 : isAliveOf n x = true
    · have : xs.filter (isAliveOf n) = [] := by
        rw [List.filter_eq_nil_iff]
        intro e he
        obtain ⟨r1, r2, _⟩ := hx.1 e he
        simp only [isAliveOf, Bool.and_eq_true, beq_iff_eq] at hx1 ⊢
        intro ⟨h1, h2⟩
        have := r2 (by omega)
        simp [this] at h2
      simp [hx1, this]
    · simp only [List.filter_cons, hx1]
      exact ih hx.2

/-! ### insert at the lower bound -/

theorem mem_dropWhile_ge (l : List Entry) (n : Nat) (h : l.Pairwise Rel) :
    ∀ e ∈ l.dropWhile (fun e => decide (e.name < n)), n ≤ e.name := by
  induction l with
  | nil => simp
  | cons x xs ih =>
    have hx := List.pairwise_cons.1 h
    by_cases hlt : x.name < n
    · simp only [List.dropWhile_cons, hlt, decide_true, if_true]
      exact ih hx.2
    · simp only [List.dropWhile_cons, hlt, decide_false]
      intro e he
      simp only [Bool.false_eq_true, if_false, List.mem_cons] at he
      rcases he with rfl | he
      · omega
      · have := (hx.1 e he).1; omega

theorem insert_lower_eq (l : List Entry) (n : Nat) (x : Entry) :
    insertAt l (bound .lower l n) x =
      l.takeWhile (fun e => decide (e.name < n)) ++ x :: l.dropWhile (fun e => decide (e.name < n)) := by
  unfold insertAt bound
  simp only
  rw [take_takeWhile_length, drop_takeWhile_length]

theorem pairwise_insert_lower (l : List Entry) (n i : Nat) (h : l.Pairwise Rel)
    (hdead : ∀ e ∈ l, e.name = n → e.alive = false) (hid : ∀ e ∈ l, e.id < i) :
    (l.takeWhile (fun e => decide (e.name < n)) ++
      { name := n, id := i, alive := true } :: l.dropWhile (fun e => decide (e.name < n))).Pairwise Rel := by
  have hsplit := List.takeWhile_append_dropWhile (p := fun e : Entry => decide (e.name < n)) (l := l)
  have hpw : (l.takeWhile (fun e => decide (e.name < n)) ++ l.dropWhile (fun e => decide (e.name < n))).Pairwise Rel := by
    rw [hsplit]; exact h
  rw [List.pairwise_append] at hpw ⊢
  obtain ⟨h1, h2, h3⟩ := hpw
  have htw : ∀ e ∈ l.takeWhile (fun e => decide (e.name < n)), e.name < n ∧ e ∈ l := by
    intro e he
    exact ⟨by simpa using of_mem_takeWhile _ l e he, (List.takeWhile_sublist _).subset he⟩
  have hdw : ∀ e ∈ l.dropWhile (fun e => decide (e.name < n)), n ≤ e.name ∧ e ∈ l := by
    intro e he
    exact ⟨mem_dropWhile_ge l n h e he, (List.dropWhile_sublist _).subset he⟩
  refine ⟨h1, ?_, ?_⟩
  · rw [List.pairwise_cons]
    refine ⟨?_, h2⟩
    intro e he
    have ⟨hge, hmem⟩ := hdw e he
    refine ⟨hge, ?_, ?_⟩
    · intro hn; exact hdead e hmem hn.symm
    · have := hid e hmem; simp only [ne_eq]; omega
  · intro a ha b hb
    simp only [List.mem_cons] at hb
    rcases hb with rfl | hb
    · have ⟨hlt, hmem⟩ := htw a ha
      refine ⟨by simp only; omega, ?_, ?_⟩
      · intro hn; simp only at hn; omega
      · have := hid a hmem; simp only [ne_eq]; omega
    · exact h3 a ha b hb

/-! ### what one step does to the invariant and to `aliveOf` -/

theorem no_alive_of_none {l : List Entry} {n : Nat} (h : l.find? (isAliveOf n) = none) :
    ∀ e ∈ l, e.name = n → e.alive = false := by
  rw [List.find?_eq_none] at h
  intro e he hn
  have := h e he
  simpa [isAliveOf, hn] using this

theorem aliveOf_none_iff (s : St) (n : Nat) : aliveOf s n = none ↔ ∀ e ∈ s.entries, e.name = n → e.alive = false := by
  rw [aliveOf_def, Option.map_eq_none_iff]
  constructor
  · exact no_alive_of_none
  · intro h
    rw [List.find?_eq_none]
    intro e he
    simp only [isAliveOf, Bool.and_eq_true, beq_iff_eq, not_and, Bool.not_eq_true]
    exact h e he

/-- the state after a `create_or_get_sink` that found nothing -/
def created (s : St) (n : Nat) : St :=
  { entries := s.entries.takeWhile (fun e => decide (e.name < n)) ++
      { name := n, id := s.next, alive := true } :: s.entries.dropWhile (fun e => decide (e.name < n)),
    next := s.next + 1 }

theorem step_createOrGet (p : Params) (hp : p.OK) (s : St) (hs : RInv s) (n : Nat) :
    step p s (.createOrGet n) =
      match aliveOf s n with
      | some i => (s, .id i)
      | none => (created s n, .id s.next) := by
  simp only [step, find_eq_aliveOf p hp s hs n]
  cases aliveOf s n with
  | some i => rfl
  | none => simp only [hp.2, insert_lower_eq, created]

theorem step_get (p : Params) (hp : p.OK) (s : St) (hs : RInv s) (n : Nat) :
    step p s (.get n) = (s, match aliveOf s n with | some i => .id i | none => .notFound) := by
  simp only [step, find_eq_aliveOf p hp s hs n]
  cases aliveOf s n <;> rfl

theorem rinv_created (s : St) (hs : RInv s) (n : Nat) (hn : aliveOf s n = none) : RInv (created s n) := by
  refine ⟨pairwise_insert_lower s.entries n s.next hs.pw ((aliveOf_none_iff s n).1 hn) hs.lt, ?_⟩
  intro e he
  simp only [created, List.mem_append, List.mem_cons] at he ⊢
  rcases he with he | rfl | he
  · have := hs.lt e ((List.takeWhile_sublist _).subset he); omega
  · simp
  · have := hs.lt e ((List.dropWhile_sublist _).subset he); omega

theorem aliveOf_created (s : St) (n m : Nat) :
    aliveOf (created s n) m = if m = n then some s.next else aliveOf s m := by
  have hsplit := List.takeWhile_append_dropWhile (p := fun e : Entry => decide (e.name < n)) (l := s.entries)
  have hl : aliveOf s m = ((s.entries.takeWhile (fun e => decide (e.name < n)) ++
      s.entries.dropWhile (fun e => decide (e.name < n))).find? (isAliveOf m)).map (·.id) := by
    rw [hsplit]; rfl
  rw [hl]
  simp only [aliveOf_def, created, List.find?_append, List.find?_cons]
  by_cases hmn : m = n
  · subst hmn
    have : (s.entries.takeWhile (fun e => decide (e.name < m))).find? (isAliveOf m) = none := by
      rw [List.find?_eq_none]
      intro e he
      have := of_mem_takeWhile _ _ e he
      simp only [decide_eq_true_eq] at this
      simp only [isAliveOf, Bool.and_eq_true, beq_iff_eq, not_and, Bool.not_eq_true]
      intro h; omega
    simp [this, isAliveOf]
  · have : isAliveOf m { name := n, id := s.next, alive := true } = false := by
      simp [isAliveOf]; omega
    simp [this, hmn]

theorem kill_rel (i : Nat) (a b : Entry) (h : Rel a b) : Rel (kill i a) (kill i b) := by
  obtain ⟨h1, h2, h3⟩ := h
  unfold kill
  refine ⟨?_, ?_, ?_⟩
  · split <;> split <;> simpa using h1
  · intro hn
    have : a.name = b.name := by revert hn; split <;> split <;> simp
    split
    · rfl
    · exact h2 this
  · split <;> split <;> simpa using h3

theorem kill_id (i : Nat) (e : Entry) : (kill i e).id = e.id := by unfold kill; split <;> rfl
theorem kill_name (i : Nat) (e : Entry) : (kill i e).name = e.name := by unfold kill; split <;> rfl

theorem rinv_drop (s : St) (hs : RInv s) (i : Nat) : RInv { s with entries := s.entries.map (kill i) } := by
  refine ⟨List.Pairwise.map (kill i) (kill_rel i) hs.pw, ?_⟩
  intro e he
  simp only [List.mem_map] at he
  obtain ⟨a, ha, rfl⟩ := he
  rw [kill_id]; exact hs.lt a ha

theorem isAliveOf_kill (i m : Nat) (e : Entry) : isAliveOf m (kill i e) = (isAliveOf m e && decide (e.id ≠ i)) := by
  unfold kill isAliveOf
  by_cases h : e.id = i <;> simp [h]

theorem find_kill (l : List Entry) (h : l.Pairwise Rel) (i m : Nat) :
    ((l.map (kill i)).find? (isAliveOf m)).map (·.id) =
      if (l.find? (isAliveOf m)).map (·.id) = some i then none else (l.find? (isAliveOf m)).map (·.id) := by
  induction l with
  | nil => simp
  | cons x xs ih =>
    have hx := List.pairwise_cons.1 h
    by_cases hq : isAliveOf m x = true
    · by_cases hi : x.id = i
      · have h1 : isAliveOf m (kill i x) = false := by rw [isAliveOf_kill, hq]; simp [hi]
        have h2 : (xs.map (kill i)).find? (isAliveOf m) = none := by
          rw [List.find?_eq_none]
          intro e he
          simp only [List.mem_map] at he
          obtain ⟨a, ha, rfl⟩ := he
          obtain ⟨r1, r2, _⟩ := hx.1 a ha
          rw [isAliveOf_kill]
          simp only [isAliveOf, Bool.and_eq_true, beq_iff_eq] at hq ⊢
          intro hh
          have := r2 (by omega)
          simp [this] at hh
        simp [hq, h1, h2, hi]
      · have h1 : isAliveOf m (kill i x) = true := by rw [isAliveOf_kill, hq]; simp [hi]
        simp [hq, h1, hi, kill_id]
    · have h1 : isAliveOf m (kill i x) = false := by rw [isAliveOf_kill]; simp [hq]
      simp only [List.map_cons, List.find?_cons, h1, hq]
      exact ih hx.2

theorem aliveOf_drop (s : St) (hs : RInv s) (i m : Nat) :
    aliveOf { s with entries := s.entries.map (kill i) } m = if aliveOf s m = some i then none else aliveOf s m :=
  find_kill s.entries hs.pw i m

theorem rinv_cleanup (s : St) (hs : RInv s) : RInv { s with entries := s.entries.filter (fun e => e.alive) } := by
  refine ⟨List.Pairwise.filter _ hs.pw, ?_⟩
  intro e he
  exact hs.lt e (List.mem_filter.1 he).1

theorem aliveOf_cleanup (s : St) (m : Nat) :
    aliveOf { s with entries := s.entries.filter (fun e => e.alive) } m = aliveOf s m := by
  simp only [aliveOf_def, List.find?_filter]
  congr 2
  funext e
  simp only [isAliveOf]
  by_cases h : e.alive = true <;> by_cases h2 : e.name = m <;> simp [h, h2]

/-- the invariant is inductive -/
theorem rinv_step (p : Params) (hp : p.OK) (s : St) (hs : RInv s) (op : Op) : RInv (step p s op).1 := by
  cases op with
  | createOrGet n =>
    rw [step_createOrGet p hp s hs n]
    cases h : aliveOf s n with
    | some i => exact hs
    | none => exact rinv_created s hs n h
  | get n => rw [step_get p hp s hs n]; exact hs
  | drop i => exact rinv_drop s hs i
  | cleanup => exact rinv_cleanup s hs

theorem rinv_run (p : Params) (hp : p.OK) (ops : List Op) (s : St) (hs : RInv s) : RInv (run p s ops) := by
  induction ops generalizing s with
  | nil => exact hs
  | cons op ops ih => exact ih _ (rinv_step p hp s hs op)

end SinkReg
