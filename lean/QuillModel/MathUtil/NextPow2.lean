import QuillModel.MathUtil.Pow2
import QuillModel.Uspsc.Api
/-!
`next_power_of_two<T>` for every width `w ≥ 1` and every `n < 2^w`: power of two, `≥ n` and least below the
saturation point, exactly `2^(w-1)` from there on; the loop never wraps and makes fewer than `w` iterations;
equality with the unbounded-queue model's `Uspsc.nextPow2` on the non-saturating range; the signed instantiations.
-/
namespace MathUtil

theorem nextPow2W_sat {w n : Nat} (hw : 1 ≤ w) (h : 2 ^ (w - 1) ≤ n) : nextPow2W w n = 2 ^ (w - 1) := by
  simp only [nextPow2W, maxPow2_eq w hw, ge_iff_le, h, if_true]

/-- below (or at) the saturation point the result is the least power of two `≥ n` -/
theorem nextPow2W_isNext {w n : Nat} (hw : 1 ≤ w) (h : n ≤ 2 ^ (w - 1)) : IsNextPow2 n (nextPow2W w n) := by
  by_cases hs : 2 ^ (w - 1) ≤ n
  · have : n = 2 ^ (w - 1) := Nat.le_antisymm h hs
    rw [nextPow2W_sat hw hs, this]
    exact ⟨⟨_, rfl⟩, Nat.le_refl _, fun k hk => hk⟩
  · simp only [nextPow2W, maxPow2_eq w hw, ge_iff_le, hs, if_false]
    by_cases hp : isPow2 n = true
    · simp only [hp, if_true]
      exact ⟨(isPow2_iff n).mp hp, Nat.le_refl _, fun k hk => hk⟩
    · simp only [hp]
      obtain ⟨k, h1, h2, h3, -⟩ := npLoop_spec w n hw h w 0 (by omega) (Or.inl rfl)
      rw [Nat.pow_zero] at h1
      rw [if_neg (by simp), h1]
      exact isNextPow2_of_bracket h2 h3

theorem nextPow2W_pow2 {w : Nat} (hw : 1 ≤ w) (n : Nat) : ∃ k, k ≤ w - 1 ∧ nextPow2W w n = 2 ^ k := by
  by_cases hs : 2 ^ (w - 1) ≤ n
  · exact ⟨w - 1, Nat.le_refl _, nextPow2W_sat hw hs⟩
  · obtain ⟨⟨k, hk⟩, _, hm⟩ := nextPow2W_isNext hw (Nat.le_of_lt (Nat.lt_of_not_le hs))
    refine ⟨k, ?_, hk⟩
    have := hm (w - 1) (Nat.le_of_lt (Nat.lt_of_not_le hs))
    rw [hk] at this
    exact (Nat.pow_le_pow_iff_right (by decide)).mp this

theorem nextPow2W_zero {w : Nat} (hw : 1 ≤ w) : nextPow2W w 0 = 1 := by
  have h := nextPow2W_isNext hw (Nat.zero_le (2 ^ (w - 1)))
  have : IsNextPow2 0 1 := ⟨⟨0, rfl⟩, Nat.zero_le _, fun k _ => Nat.one_le_two_pow⟩
  exact isNextPow2_unique h this

/-- the result is smaller than the request exactly above the saturation point -/
theorem nextPow2W_lt_iff {w n : Nat} (hw : 1 ≤ w) : nextPow2W w n < n ↔ 2 ^ (w - 1) < n := by
  constructor
  · intro h
    apply Nat.lt_of_not_le
    intro hle
    exact Nat.not_lt.mpr (nextPow2W_isNext hw hle).2.1 h
  · intro h; rw [nextPow2W_sat hw (Nat.le_of_lt h)]; exact h

/-- the loop, when it runs, makes at most `w - 1` iterations and no shift leaves the `w` bits -/
theorem nextPow2W_loop_bound {w n : Nat} (hw : 1 ≤ w) (h : n ≤ 2 ^ (w - 1)) :
    npIters w w 1 n ≤ w - 1 ∧ 2 ^ npIters w w 1 n = npLoop w w 1 n ∧ npLoop w w 1 n < 2 ^ w := by
  obtain ⟨k, h1, _, _, h4, _, h6⟩ := npLoop_spec w n hw h w 0 (by omega) (Or.inl rfl)
  rw [Nat.pow_zero] at h1 h4
  refine ⟨by omega, by rw [h4, h1]; rfl, ?_⟩
  rw [h1]; exact Nat.pow_lt_pow_right (by decide) (by omega)

/-! ### the unbounded-queue model's `nextPow2` -/

theorem uspsc_go_spec (n : Nat) : ∀ (fuel i : Nat), n ≤ i + fuel → (i = 0 ∨ 2 ^ (i - 1) < n) →
    ∃ k, Uspsc.nextPow2.go n fuel (2 ^ i) = 2 ^ k ∧ n ≤ 2 ^ k ∧ (k = 0 ∨ 2 ^ (k - 1) < n) := by
  intro fuel
  induction fuel with
  | zero =>
    intro i hf hl
    refine ⟨i, rfl, ?_, hl⟩
    exact Nat.le_trans hf (by simpa using Nat.le_of_lt (Nat.lt_two_pow_self (n := i)))
  | succ fuel ih =>
    intro i hf hl
    by_cases hlt : 2 ^ i < n
    · obtain ⟨k, h1, h2, h3⟩ := ih (i + 1) (by omega) (Or.inr (by simpa using hlt))
      refine ⟨k, ?_, h2, h3⟩
      simp only [Uspsc.nextPow2.go, hlt, if_true]
      rw [← Nat.pow_succ]; exact h1
    · exact ⟨i, by simp only [Uspsc.nextPow2.go, hlt, if_false], Nat.le_of_not_lt hlt, hl⟩

theorem uspsc_nextPow2_isNext (n : Nat) : IsNextPow2 n (Uspsc.nextPow2 n) := by
  obtain ⟨k, h1, h2, h3⟩ := uspsc_go_spec n n 0 (by omega) (Or.inl rfl)
  rw [Nat.pow_zero] at h1
  have : Uspsc.nextPow2 n = 2 ^ k := h1
  rw [this]; exact isNextPow2_of_bracket h2 h3

/-- **the C02 model's `nextPow2` is the C++ function** wherever the latter does not saturate -/
theorem nextPow2W_eq_uspsc {w n : Nat} (hw : 1 ≤ w) (h : n ≤ 2 ^ (w - 1)) : nextPow2W w n = Uspsc.nextPow2 n :=
  isNextPow2_unique (nextPow2W_isNext hw h) (uspsc_nextPow2_isNext n)

/-! ### equivalent spellings of the saturation test and the loop test -/

/-- for an argument that is not a power of two, `while (result <= n)` and `while (result < n)` are the same loop: `result` is
    a power of two (or 0 after a wrapped shift) and therefore never equals `n` -/
theorem npLoopV_eq (w n : Nat) (hn : ¬ ∃ k, n = 2 ^ k) (le : Bool) :
    ∀ (fuel r : Nat), ((r = 0 ∧ n ≠ 0) ∨ ∃ i, r = 2 ^ i) → npLoopV le w fuel r n = npLoop w fuel r n := by
  intro fuel
  induction fuel with
  | zero => intro r _; rfl
  | succ f ih =>
    intro r hr
    have hne : r ≠ n := by
      rcases hr with ⟨h0, hn0⟩ | ⟨i, hi⟩
      · omega
      · intro h; exact hn ⟨i, h ▸ hi⟩
    have htest : (if le then r ≤ n else r < n) ↔ r < n := by
      cases le <;> simp <;> omega
    simp only [npLoopV, npLoop]
    by_cases hlt : r < n
    · rw [if_pos (htest.mpr hlt), if_pos hlt]
      apply ih
      rcases hr with ⟨h0, hn0⟩ | ⟨i, hi⟩
      · left; subst h0; exact ⟨by simp, hn0⟩
      · subst hi
        rw [Nat.shiftLeft_eq, Nat.pow_one, ← Nat.pow_succ]
        by_cases hiw : i + 1 < w
        · right; exact ⟨i + 1, Nat.mod_eq_of_lt (Nat.pow_lt_pow_right (by decide) hiw)⟩
        · left
          exact ⟨Nat.mod_eq_zero_of_dvd (Nat.pow_dvd_pow 2 (by omega)), Nat.ne_of_gt (Nat.lt_of_le_of_lt (Nat.zero_le _) hlt)⟩
    · rw [if_neg (fun h => hlt (htest.mp h)), if_neg hlt]

/-- **the spellings `n > max` / `n >= max` and `result <= n` / `result < n` give the same function** (the argument `max` is a
    power of two and returns through the early exit; the loop only runs for non-powers) -/
theorem nextPow2V_eq {w : Nat} (hw : 1 ≤ w) (strict le : Bool) (n : Nat) : nextPow2V strict le w n = nextPow2W w n := by
  simp only [nextPow2V, nextPow2W]
  by_cases hge : n ≥ maxPow2 w
  · rw [if_pos hge]
    cases strict
    · simp only [Bool.false_eq_true, if_false, if_pos hge]
    · simp only [if_true]
      by_cases hgt : n > maxPow2 w
      · rw [if_pos hgt]
      · have heq : n = maxPow2 w := by omega
        have hp : isPow2 n = true := (isPow2_iff n).mpr ⟨w - 1, by rw [heq, maxPow2_eq w hw]⟩
        rw [if_neg hgt, if_pos hp, heq]
  · have h1 : ¬ (if strict then n > maxPow2 w else n ≥ maxPow2 w) := by
      cases strict <;> simp <;> omega
    rw [if_neg h1, if_neg hge]
    by_cases hp : isPow2 n = true
    · rw [if_pos hp, if_pos hp]
    · rw [if_neg hp, if_neg hp]
      exact npLoopV_eq w n (fun h => hp ((isPow2_iff n).mpr h)) le w 1 (Or.inr ⟨0, rfl⟩)


/-! ### signed `T` -/

/-- a non-negative argument of a `w`-bit signed type is treated as an unsigned `(w-1)`-bit one -/
theorem nextPow2S_nonneg {w : Nat} (hw : 2 ≤ w) (hw64 : w ≤ 64) (n : Nat) (hn : n < 2 ^ (w - 1)) :
    nextPow2S w (n : Int) = (nextPow2W (w - 1) n : Nat) := by
  have hlt : (n : Int) < ((2 ^ 64 : Nat) : Int) := by
    have : 2 ^ (w - 1) ≤ 2 ^ 64 := Nat.pow_le_pow_right (by decide) (by omega)
    exact_mod_cast Nat.lt_of_lt_of_le hn this
  have hmod : ((n : Int) % ((2 ^ 64 : Nat) : Int)).toNat = n := by
    rw [Int.emod_eq_of_lt (Int.natCast_nonneg n) hlt]; rfl
  simp only [nextPow2S, nextPow2W, hmod, Int.toNat_natCast, ge_iff_le, Int.ofNat_le]
  split
  · rfl
  · split <;> rfl

/-- a negative argument yields `1`, except `INT64_MIN`, whose sign-extended image `2^63` passes
    `is_power_of_two` and is returned unchanged (a negative "power of two") -/
theorem nextPow2S_neg {w : Nat} (hw : 2 ≤ w) (hw64 : w ≤ 64) (n : Int) (hn : n < 0) (hlo : -(2 ^ (w - 1) : Nat) ≤ n) :
    nextPow2S w n = if n = -(2 ^ 63 : Nat) then n else 1 := by
  have hmax : ¬ (n ≥ ((maxPow2 (w - 1) : Nat) : Int)) := by
    have : (0 : Int) ≤ ((maxPow2 (w - 1) : Nat) : Int) := Int.natCast_nonneg _
    omega
  have hp : (2 : Nat) ^ (w - 1) ≤ 2 ^ 63 := Nat.pow_le_pow_right (by decide) (by omega)
  have hp' : ((2 ^ (w - 1) : Nat) : Int) ≤ ((2 ^ 63 : Nat) : Int) := by exact_mod_cast hp
  have hmod : (n % ((2 ^ 64 : Nat) : Int)) = n + ((2 ^ 64 : Nat) : Int) := by
    rw [← Int.add_emod_right]
    apply Int.emod_eq_of_lt
    · have : ((2 ^ 63 : Nat) : Int) ≤ ((2 ^ 64 : Nat) : Int) := by norm_cast
      omega
    · omega
  simp only [nextPow2S, hmax, if_false, hmod]
  have hto : n.toNat = 0 := Int.toNat_eq_zero.mpr (by omega)
  have hloop : npLoop (w - 1) (w - 1) 1 0 = 1 := by
    cases (w - 1) <;> simp [npLoop]
  by_cases he : n = -((2 ^ 63 : Nat) : Int)
  · subst he
    simp only [if_true]
    have : ((-((2 ^ 63 : Nat) : Int)) + ((2 ^ 64 : Nat) : Int)).toNat = 2 ^ 63 := by decide
    rw [this]
    have : isPow2 (2 ^ 63) = true := (isPow2_iff _).mpr ⟨63, rfl⟩
    simp [this]
  · simp only [he, if_false]
    have hnp : isPow2 (n + ((2 ^ 64 : Nat) : Int)).toNat = false := by
      apply Bool.eq_false_iff.mpr
      intro hc
      obtain ⟨k, hk⟩ := (isPow2_iff _).mp hc
      -- 2^63 < value < 2^64 is not a power of two
      have h1 : 2 ^ 63 < (n + ((2 ^ 64 : Nat) : Int)).toNat := by
        have : ((2 ^ 64 : Nat) : Int) = 2 * ((2 ^ 63 : Nat) : Int) := by norm_cast
        omega
      have h2 : (n + ((2 ^ 64 : Nat) : Int)).toNat < 2 ^ 64 := by omega
      rw [hk] at h1 h2
      have a := (Nat.pow_lt_pow_iff_right (by decide : 1 < 2)).mp h1
      have b := (Nat.pow_lt_pow_iff_right (by decide : 1 < 2)).mp h2
      omega
    rw [hnp, hto, hloop]; rfl

end MathUtil
