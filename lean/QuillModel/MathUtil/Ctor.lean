import QuillModel.MathUtil.NextPow2
import QuillModel.Uspsc.Capacity
import QuillModel.Spsc.Wrap
/-!
What the constructors make of a requested capacity: `_capacity`, `_mask`, the `2 * capacity` allocation
(`BoundedSPSCQueueImpl`), the doubling loop of `_handle_full_queue` and `shrink` (`UnboundedSPSCQueue`),
mask/size arithmetic on free-running `w`-bit positions (`TransitEventBuffer`, both queues).
-/
namespace MathUtil

/-! ### mask arithmetic -/

theorem mask_of_pow2 {w k : Nat} (hk : k < w) : (2 ^ k + 2 ^ w - 1) % 2 ^ w = 2 ^ k - 1 := by
  have h1 : 2 ^ k < 2 ^ w := Nat.pow_lt_pow_right (by decide) hk
  have h0 := Nat.two_pow_pos k
  have : 2 ^ k + 2 ^ w - 1 = (2 ^ k - 1) + 2 ^ w := by omega
  rw [this, Nat.add_mod_right]
  exact Nat.mod_eq_of_lt (by omega)

/-- `x & (cap - 1) = x % cap` for a power-of-two capacity -/
theorem slot_eq_mod (x k : Nat) : slot x (2 ^ k - 1) = x % 2 ^ k := Nat.and_two_pow_sub_one_eq_mod x k

/-- the masked index of a free-running `w`-bit counter does not notice the wrap of the counter at `2^w`,
    because the capacity divides `2^w` -/
theorem slot_wrap (x : Nat) {k w : Nat} (hk : k ≤ w) : slot (x % 2 ^ w) (2 ^ k - 1) = x % 2 ^ k := by
  rw [slot_eq_mod]; exact Nat.mod_mod_of_dvd x (Nat.pow_dvd_pow 2 hk)

/-- `size = writer - reader` in `w` bits is the true distance while that stays below `2^w` -/
theorem sizeW_eq (w wpos rpos : Nat) (hle : rpos ≤ wpos) (hlt : wpos - rpos < 2 ^ w) :
    sizeW w (wpos % 2 ^ w) (rpos % 2 ^ w) = wpos - rpos :=
  Spsc.subM_eq (2 ^ w) wpos rpos (Nat.two_pow_pos w) hle hlt

theorem incW_eq (w pos : Nat) : incW w (pos % 2 ^ w) = (pos + 1) % 2 ^ w := Spsc.add_modM _ _ _

/-- the emptiness test `_reader_pos == _writer_pos` on the wrapped counters is exact -/
theorem empty_eq (w wpos rpos : Nat) (hle : rpos ≤ wpos) (hlt : wpos - rpos < 2 ^ w) :
    wpos % 2 ^ w = rpos % 2 ^ w ↔ wpos = rpos :=
  Spsc.mod_eq_iff (2 ^ w) wpos rpos (Nat.two_pow_pos w) hle hlt

/-! ### `BoundedSPSCQueueImpl<T>` constructor -/

/-- **every request** yields a capacity `2^j` with `j ≤ w-1`, the matching mask, and the side conditions of
    `C01_reachable_safe` (`0 < cap`) and `C01_wrap` (`cap ∣ 2^w`, `cap < 2^w`) -/
theorem boundedCtor_ok {w : Nat} (hw : 1 ≤ w) (req pct : Nat) :
    ∃ j, j ≤ w - 1 ∧ (boundedCtor w req pct).capacity = 2 ^ j ∧ (boundedCtor w req pct).mask = 2 ^ j - 1 ∧
      0 < (boundedCtor w req pct).capacity ∧ (boundedCtor w req pct).capacity ∣ 2 ^ w ∧
      (boundedCtor w req pct).capacity < 2 ^ w ∧
      ∀ x, slot x (boundedCtor w req pct).mask = x % (boundedCtor w req pct).capacity := by
  obtain ⟨j, hj, hc⟩ := nextPow2W_pow2 hw req
  refine ⟨j, hj, hc, ?_, ?_, ?_, ?_, ?_⟩
  · simp only [boundedCtor, hc]; exact mask_of_pow2 (by omega)
  · simp only [boundedCtor, hc]; exact Nat.two_pow_pos j
  · simp only [boundedCtor, hc]; exact Nat.pow_dvd_pow 2 (by omega)
  · simp only [boundedCtor, hc]; exact Nat.pow_lt_pow_right (by decide) (by omega)
  · intro x
    simp only [boundedCtor, hc, mask_of_pow2 (show j < w by omega)]
    exact slot_eq_mod x j

/-- the request fits the capacity it got iff it is not above `max_power_of_two<T>()` -/
theorem boundedCtor_fits_iff {w : Nat} (hw : 1 ≤ w) (req pct : Nat) :
    req ≤ (boundedCtor w req pct).capacity ↔ req ≤ 2 ^ (w - 1) := by
  have := nextPow2W_lt_iff (w := w) (n := req) hw
  simp only [boundedCtor]
  omega

/-- the byte count handed to the allocator is `2 * capacity` iff the capacity is below `2^63` -/
theorem alloc_exact_iff (w req pct : Nat) :
    (boundedCtor w req pct).allocBytes = 2 * (boundedCtor w req pct).capacity ↔
      (boundedCtor w req pct).capacity < 2 ^ 63 := by
  simp only [boundedCtor]
  constructor
  · intro h
    have := Nat.mod_lt (2 * nextPow2W w req) (Nat.two_pow_pos 64)
    omega
  · intro h; exact Nat.mod_eq_of_lt (by omega)

/-- for every integer type narrower than 64 bits the allocation is always exact -/
theorem alloc_exact_narrow {w : Nat} (hw : 1 ≤ w) (hw63 : w ≤ 63) (req pct : Nat) :
    (boundedCtor w req pct).allocBytes = 2 * (boundedCtor w req pct).capacity := by
  rw [alloc_exact_iff]
  obtain ⟨j, hj, hc⟩ := nextPow2W_pow2 hw req
  simp only [boundedCtor, hc]
  exact Nat.pow_lt_pow_right (by decide) (by omega)

/-- `size_t` (`w = 64`): the allocation is exact iff the request is at most `2^62`; above that the capacity is
    `2^63` and `2ull * capacity` wraps to **0 bytes** -/
theorem alloc_exact_64_iff (req pct : Nat) :
    (boundedCtor 64 req pct).allocBytes = 2 * (boundedCtor 64 req pct).capacity ↔ req ≤ 2 ^ 62 := by
  rw [alloc_exact_iff]
  simp only [boundedCtor]
  constructor
  · intro h
    apply Nat.le_of_not_lt
    intro hgt
    by_cases hs : 2 ^ 63 ≤ req
    · rw [nextPow2W_sat (by decide) hs] at h; omega
    · obtain ⟨⟨k, hk⟩, hn, _⟩ := nextPow2W_isNext (w := 64) (by decide) (Nat.le_of_lt (Nat.lt_of_not_le hs))
      rw [hk] at h hn
      have h1 : k < 63 := (Nat.pow_lt_pow_iff_right (by decide : 1 < 2)).mp h
      have : 2 ^ k ≤ 2 ^ 62 := Nat.pow_le_pow_right (by decide) (by omega)
      omega
  · intro h
    have hn := nextPow2W_isNext (w := 64) (n := req) (by decide) (by omega)
    have := hn.2.2 62 h
    omega

theorem alloc_wraps_to_zero {req pct : Nat} (h : 2 ^ 62 < req) :
    (boundedCtor 64 req pct).capacity = 2 ^ 63 ∧ (boundedCtor 64 req pct).allocBytes = 0 := by
  have hc : nextPow2W 64 req = 2 ^ 63 := by
    by_cases hs : 2 ^ 63 ≤ req
    · exact nextPow2W_sat (by decide) hs
    · obtain ⟨j, hj, hj2⟩ := nextPow2W_pow2 (w := 64) (by decide) req
      have hn := (nextPow2W_isNext (w := 64) (n := req) (by decide) (by omega)).2.1
      rw [hj2] at hn ⊢
      have : 2 ^ 62 < 2 ^ j := by omega
      have := (Nat.pow_lt_pow_iff_right (by decide : 1 < 2)).mp this
      have : j = 63 := by omega
      rw [this]
  simp only [boundedCtor, hc]
  exact ⟨trivial, by decide⟩

/-- the batch threshold never exceeds the capacity for a percentage `≤ 100` (product not wrapped) -/
theorem batch_le_cap {w req pct : Nat} (hp : pct ≤ 100)
    (hnw : (boundedCtor w req pct).capacity * pct < 2 ^ prodWidth w) :
    (boundedCtor w req pct).bytesPerBatch ≤ (boundedCtor w req pct).capacity := by
  simp only [boundedCtor] at hnw ⊢
  rw [Nat.mod_eq_of_lt hnw]
  apply Nat.div_le_of_le_mul
  rw [Nat.mul_comm]
  exact Nat.mul_le_mul_right _ hp

/-! ### the repaired constructor (`_checked_capacity`): reject instead of wrapping -/

theorem half_max64 : (2 ^ 64 - 1) >>> 1 = 2 ^ 63 - 1 := by decide

/-- the constructor throws iff the rounded capacity is `2^63` or more -/
theorem ctorRejects_iff (w req : Nat) : ctorRejects true w req = true ↔ 2 ^ 63 ≤ nextPow2W w req := by
  simp only [ctorRejects, Bool.true_and, decide_eq_true_eq, half_max64]; omega

theorem ctorRejects_false (w req : Nat) : ctorRejects false w req = false := by simp [ctorRejects]

/-- only `size_t`-wide queues can be rejected, and exactly for requests above `2^62` -/
theorem ctorRejects_64_iff (req : Nat) : ctorRejects true 64 req = true ↔ 2 ^ 62 < req := by
  rw [ctorRejects_iff]
  constructor
  · intro h
    apply Nat.lt_of_not_le
    intro hle
    have := (nextPow2W_isNext (w := 64) (n := req) (by decide) (by omega)).2.2 62 hle
    omega
  · intro h
    have := (alloc_wraps_to_zero (pct := 0) h).1
    simp only [boundedCtor] at this
    omega

theorem ctorRejects_narrow {w : Nat} (hw : 1 ≤ w) (hw63 : w ≤ 63) (req : Nat) : ctorRejects true w req = false := by
  apply Bool.eq_false_iff.mpr
  intro h
  have h1 := (ctorRejects_iff w req).mp h
  obtain ⟨j, hj, hc⟩ := nextPow2W_pow2 hw req
  rw [hc] at h1
  have : j < 63 := by omega
  have := Nat.pow_lt_pow_right (a := 2) (by decide) this
  omega

/-- **every accepted request has exactly `2·capacity` bytes of storage** (any width) -/
theorem accepted_alloc_exact {w req pct : Nat} {c : BoundedCtor} (h : boundedCtorR true w req pct = some c) :
    c.allocBytes = 2 * c.capacity := by
  simp only [boundedCtorR] at h
  split at h
  · exact absurd h (by simp)
  · rename_i hr
    have hlt : nextPow2W w req < 2 ^ 63 := by
      apply Nat.lt_of_not_le
      intro hge
      exact hr ((ctorRejects_iff w req).mpr hge)
    simp only [Option.some.injEq] at h
    subst h
    exact (alloc_exact_iff w req pct).mpr hlt

theorem handleFullR_false (cap n maxCap : Nat) : handleFullR false cap n maxCap = handleFull cap n maxCap := by
  simp only [handleFullR, ctorRejects_false]
  split <;> simp_all

/-- with the repair no node of capacity `2^63` (or more) is ever built by `_handle_full_queue` -/
theorem handleFullR_alloc_lt {cap n maxCap c : Nat} (h : handleFullR true cap n maxCap = .alloc c) : c < 2 ^ 63 := by
  simp only [handleFullR] at h
  split at h
  · rename_i c' _
    split at h
    · exact absurd h (by simp)
    · rename_i hr
      injection h with h
      subst h
      apply Nat.lt_of_not_le
      intro hge
      -- `c'` was produced by `nextPow2W 64 _` inside `handleFull`, but all we need is the rejection test itself
      have : ctorRejects true 64 c' = true ↔ 2 ^ 63 ≤ nextPow2W 64 c' := ctorRejects_iff 64 c'
      by_cases hs : 2 ^ 63 ≤ c'
      · have : nextPow2W 64 c' = 2 ^ 63 := nextPow2W_sat (by decide) hs
        exact hr ((ctorRejects_iff 64 c').mpr (by omega))
      · omega
  · rename_i hx
    cases hh : handleFull cap n maxCap <;> simp_all

/-! ### `_handle_full_queue`: the doubling loop on 64-bit values -/

theorem hfLoop_zero (n : Nat) (hn : 0 < n) : ∀ fuel, hfLoop fuel 0 n = none := by
  intro fuel
  induction fuel with
  | zero => rfl
  | succ f ih => simp only [hfLoop, hn, if_true]; exact ih

/-- up to records of `2^63` bytes the 64-bit loop is the unbounded loop of the C02 model: no doubling wraps -/
theorem hfLoop_eq_dbl (n : Nat) (hn : n ≤ 2 ^ 63) :
    ∀ (fuel fuel' j : Nat), j ≤ 63 → 64 - j ≤ fuel → n ≤ 2 ^ j + fuel' →
      hfLoop fuel (2 ^ j) n = some (Uspsc.dbl fuel' (2 ^ j) n) := by
  intro fuel
  induction fuel with
  | zero => intro fuel' j hj hf; omega
  | succ f ih =>
    intro fuel' j hj hf hf'
    by_cases hlt : 2 ^ j < n
    · have hj63 : j < 63 := (Nat.pow_lt_pow_iff_right (by decide : 1 < 2)).mp (Nat.lt_of_lt_of_le hlt hn)
      have hnw : (2 ^ j * 2) % 2 ^ 64 = 2 ^ (j + 1) := by
        rw [← Nat.pow_succ]; exact Nat.mod_eq_of_lt (Nat.pow_lt_pow_right (by decide) (by omega))
      obtain ⟨g, rfl⟩ : ∃ g, fuel' = g + 1 := ⟨fuel' - 1, by omega⟩
      simp only [hfLoop, Uspsc.dbl, hlt, if_true, hnw]
      have := ih g (j + 1) (by omega) (by omega) (by rw [Nat.pow_succ]; have := Nat.two_pow_pos j; omega)
      rw [this, Nat.pow_succ]
    · simp only [hfLoop, hlt, if_false]
      cases fuel' <;> simp [Uspsc.dbl, hlt]

/-- capacities `2^j`, `j ≤ 62`, records up to `2^63` bytes: `_handle_full_queue` computes the C02 model's value -/
theorem handleFullCap_eq_dbl {j n : Nat} (hj : j ≤ 62) (hn : n ≤ 2 ^ 63) :
    handleFullCap (2 ^ j) n = some (Uspsc.dbl n (2 ^ j * 2) n) := by
  have hnw : (2 ^ j * 2) % 2 ^ 64 = 2 ^ (j + 1) := by
    rw [← Nat.pow_succ]; exact Nat.mod_eq_of_lt (Nat.pow_lt_pow_right (by decide) (by omega))
  simp only [handleFullCap, hnw]
  rw [← Nat.pow_succ]
  exact hfLoop_eq_dbl n hn 130 n (j + 1) (by omega) (by omega) (by omega)

/-- a record above `2^63` bytes makes the loop spin for ever (`capacity` wraps to 0 and stays there) -/
theorem hfLoop_hangs (n : Nat) (hn : 2 ^ 63 < n) :
    ∀ (fuel j : Nat), j ≤ 63 → hfLoop fuel (2 ^ j) n = none := by
  intro fuel
  induction fuel with
  | zero => intro j _; rfl
  | succ f ih =>
    intro j hj
    have hlt : 2 ^ j < n := Nat.lt_of_le_of_lt (Nat.pow_le_pow_right (by decide) hj) hn
    simp only [hfLoop, hlt, if_true]
    by_cases h63 : j = 63
    · subst h63
      have : (2 ^ 63 * 2) % 2 ^ 64 = 0 := by decide
      rw [this]; exact hfLoop_zero n (by omega) f
    · have hnw : (2 ^ j * 2) % 2 ^ 64 = 2 ^ (j + 1) := by
        rw [← Nat.pow_succ]; exact Nat.mod_eq_of_lt (Nat.pow_lt_pow_right (by decide) (by omega))
      rw [hnw]; exact ih (j + 1) (by omega)

theorem handleFull_hangs_big_record {j n maxCap : Nat} (hj : j ≤ 63) (hn : 2 ^ 63 < n) :
    handleFull (2 ^ j) n maxCap = .hang := by
  have : handleFullCap (2 ^ j) n = none := by
    simp only [handleFullCap]
    by_cases h63 : j = 63
    · subst h63
      have : (2 ^ 63 * 2) % 2 ^ 64 = 0 := by decide
      rw [this]; exact hfLoop_zero n (by omega) _
    · have hnw : (2 ^ j * 2) % 2 ^ 64 = 2 ^ (j + 1) := by
        rw [← Nat.pow_succ]; exact Nat.mod_eq_of_lt (Nat.pow_lt_pow_right (by decide) (by omega))
      rw [hnw]; exact hfLoop_hangs n hn _ (j + 1) (by omega)
  simp only [handleFull, this]

/-- a node of capacity `2^63` (only obtainable through the wrapped allocation) hangs on any refusal -/
theorem handleFull_hangs_max_node {n maxCap : Nat} (hn : 0 < n) : handleFull (2 ^ 63) n maxCap = .hang := by
  have : handleFullCap (2 ^ 63) n = none := by
    simp only [handleFullCap]
    have : (2 ^ 63 * 2) % 2 ^ 64 = 0 := by decide
    rw [this]; exact hfLoop_zero n hn _
  simp only [handleFull, this]

/-- **the C02 capacity decision is the C++ one** for every node capacity `2^j ≤ 2^62` and record `≤ 2^63` -/
theorem handleFull_eq_growDecision {j n maxCap : Nat} (hj : j ≤ 62) (hn : n ≤ 2 ^ 63) :
    handleFull (2 ^ j) n maxCap =
      match Uspsc.growDecision (2 ^ j) n maxCap with
      | .alloc c => .alloc c
      | .null => .null
      | .throw => .throw := by
  simp only [handleFull, handleFullCap_eq_dbl hj hn, Uspsc.growDecision]
  split
  · split <;> rfl
  · -- allocated capacity is a power of two ≤ 2^63: the Node constructor keeps it
    rename_i hle
    have hpos : 0 < 2 ^ j * 2 := by have := Nat.two_pow_pos j; omega
    obtain ⟨k, hk⟩ := Uspsc.dbl_pow n (2 ^ j * 2) n
    have hmin := Uspsc.dbl_min n (2 ^ j * 2) n
    have hc : Uspsc.dbl n (2 ^ j * 2) n = 2 ^ (j + 1 + k) := by
      rw [hk, Nat.pow_add, Nat.pow_succ]
    have hle63 : Uspsc.dbl n (2 ^ j * 2) n ≤ 2 ^ 63 := by
      rcases hmin with h | h
      · rw [h, ← Nat.pow_succ]; exact Nat.pow_le_pow_right (by decide) (by omega)
      · rw [hc] at h ⊢
        by_cases hjk : j + 1 + k ≤ 63
        · exact Nat.pow_le_pow_right (by decide) hjk
        · have : 2 ^ 64 ≤ 2 ^ (j + 1 + k) := Nat.pow_le_pow_right (by decide) (by omega)
          omega
    have hnp : nextPow2W 64 (Uspsc.dbl n (2 ^ j * 2) n) = Uspsc.dbl n (2 ^ j * 2) n := by
      have h1 := nextPow2W_isNext (w := 64) (by decide) hle63
      have h2 : IsNextPow2 (Uspsc.dbl n (2 ^ j * 2) n) (Uspsc.dbl n (2 ^ j * 2) n) :=
        ⟨⟨_, hc⟩, Nat.le_refl _, fun _ h => h⟩
      exact isNextPow2_unique h1 h2
    rw [hnp]

/-! ### `shrink` -/

/-- `shrink(c)` on a node of capacity `2^j` (`1 ≤ j ≤ 63`): when it allocates, the new node's capacity is the C02
    model's `nextPow2 c`, a power of two, at least `c` and at most half the old capacity -/
theorem shrinkCap_spec {j c : Nat} (hj1 : 1 ≤ j) (hj : j ≤ 63) :
    shrinkCap (2 ^ j) c = (if Uspsc.shrinkAllocates (2 ^ j) c then some (Uspsc.nextPow2 c) else none) ∧
    ∀ c', shrinkCap (2 ^ j) c = some c' → c ≤ c' ∧ c' ≤ 2 ^ j / 2 ∧ ∃ k, c' = 2 ^ k := by
  have hhalf : 2 ^ j / 2 = 2 ^ (j - 1) := by
    obtain ⟨i, rfl⟩ : ∃ i, j = i + 1 := ⟨j - 1, by omega⟩
    rw [Nat.pow_succ]; simp
  have hsh : 2 ^ j >>> 1 = 2 ^ j / 2 := by rw [Nat.shiftRight_eq_div_pow, Nat.pow_one]
  have h63 : 2 ^ (j - 1) ≤ 2 ^ 63 := Nat.pow_le_pow_right (by decide) (by omega)
  constructor
  · simp only [shrinkCap, Uspsc.shrinkAllocates, hsh]
    by_cases h : c > 2 ^ j / 2
    · simp [h]
    · simp only [h, if_false, decide_false, Bool.not_false, if_true]
      rw [nextPow2W_eq_uspsc (by decide) (by omega)]
  · intro c' h
    simp only [shrinkCap, hsh] at h
    by_cases hc : c > 2 ^ j / 2
    · simp [hc] at h
    · simp only [hc, if_false, Option.some.injEq] at h
      subst h
      have hn := nextPow2W_isNext (w := 64) (n := c) (by decide) (by omega)
      refine ⟨hn.2.1, ?_, hn.1⟩
      rw [hhalf]; exact hn.2.2 (j - 1) (by omega)

/-! ### `TransitEventBuffer` constructor -/

theorem transitCtor_ok {w : Nat} (hw : 1 ≤ w) (req : Nat) :
    ∃ j, j ≤ w - 1 ∧ (transitCtor w req).capacity = 2 ^ j ∧ (transitCtor w req).initialCapacity = 2 ^ j ∧
      (transitCtor w req).mask = 2 ^ j - 1 ∧ 0 < (transitCtor w req).capacity := by
  obtain ⟨j, hj, hc⟩ := nextPow2W_pow2 hw req
  refine ⟨j, hj, hc, hc, ?_, ?_⟩
  · simp only [transitCtor, hc]; exact mask_of_pow2 (by omega)
  · simp only [transitCtor, hc]; exact Nat.two_pow_pos j

end MathUtil
