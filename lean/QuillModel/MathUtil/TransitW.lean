import QuillModel.MathUtil.Ctor
import QuillModel.Transit.Proofs
/-!
`TransitEventBuffer` as the C++ computes it — `size_t` positions that wrap at `2^w`, `pos & _mask`, `_capacity * 2`
and `_capacity - 1` in `w` bits — refines the free-running ring `Transit.TB` that `C03_transit_refines` is about,
from **any** well-formed state (positions arbitrarily large, so through any number of counter wraps), as long as the
doubled capacity is representable (`cap * 2 < 2^w`).
-/
namespace MathUtil
open Transit
variable {α : Type}

@[ext] structure WB (α : Type) where
  initCap : Nat
  cap : Nat
  mask : Nat
  store : Nat → α
  rpos : Nat
  wpos : Nat
  shrinkReq : Bool

/-- `_capacity - 1` in `w` bits -/
def maskOf (w c : Nat) : Nat := (c + 2 ^ w - 1) % 2 ^ w

def WB.size (w : Nat) (b : WB α) : Nat := sizeW w b.wpos b.rpos
def WB.isEmpty (b : WB α) : Bool := b.rpos == b.wpos
def WB.front (b : WB α) : Option α := if b.rpos = b.wpos then none else some (b.store (slot b.rpos b.mask))
def WB.pop (w : Nat) (b : WB α) : WB α := { b with rpos := incW w b.rpos }

def WB.expand (w : Nat) (b : WB α) : WB α :=
  { b with cap := dblW w b.cap, mask := maskOf w (dblW w b.cap),
           store := fun i => if i < b.size w then b.store (slot ((b.rpos + i) % 2 ^ w) b.mask) else b.store 0,
           wpos := b.size w, rpos := 0 }

def WB.push (w : Nat) (b : WB α) (x : α) : WB α :=
  let b1 := if b.cap = b.size w then b.expand w else b
  { b1 with store := fun i => if i = slot b1.wpos b1.mask then x else b1.store i, wpos := incW w b1.wpos }

def WB.tryShrink (w : Nat) (b : WB α) : WB α :=
  if b.shrinkReq && b.isEmpty then
    if b.initCap < b.cap then
      { b with cap := b.initCap, mask := maskOf w b.initCap, wpos := 0, rpos := 0, shrinkReq := false }
    else { b with shrinkReq := false }
  else b

def stepW (w : Nat) (b : WB α) : Op α → WB α
  | .push x => b.push w x
  | .pop => if b.isEmpty then b else b.pop w
  | .requestShrink => { b with shrinkReq := true }
  | .tryShrink => b.tryShrink w

/-- the image of a free-running ring in `w`-bit arithmetic -/
def toW (w : Nat) (b : TB α) : WB α :=
  { initCap := b.initCap, cap := b.cap, mask := b.cap - 1, store := b.store,
    rpos := b.rpos % 2 ^ w, wpos := b.wpos % 2 ^ w, shrinkReq := b.shrinkReq }

theorem maskOf_eq {w c : Nat} (h0 : 0 < c) (hlt : c < 2 ^ w) : maskOf w c = c - 1 := by
  have : c + 2 ^ w - 1 = (c - 1) + 2 ^ w := by omega
  rw [maskOf, this, Nat.add_mod_right]; exact Nat.mod_eq_of_lt (by omega)

/-- arithmetic side conditions: power-of-two capacities, doubled capacity representable -/
structure WOK (w : Nat) (b : TB α) : Prop where
  inv : TInv b
  capPow : ∃ j, b.cap = 2 ^ j
  dblFits : b.cap * 2 < 2 ^ w

section
variable {w : Nat} {b : TB α}

theorem WOK.capLt (h : WOK w b) : b.cap < 2 ^ w := by have := h.dblFits; omega
theorem WOK.sizeLt (h : WOK w b) : b.wpos - b.rpos < 2 ^ w := by have := h.inv.fits; have := h.capLt; omega

theorem toW_size (h : WOK w b) : (toW w b).size w = b.size := sizeW_eq w _ _ h.inv.le h.sizeLt

theorem toW_isEmpty (h : WOK w b) : (toW w b).isEmpty = b.isEmpty := by
  simp only [WB.isEmpty, TB.isEmpty, toW]
  have := empty_eq w b.wpos b.rpos h.inv.le h.sizeLt
  by_cases he : b.rpos = b.wpos
  · rw [he, beq_self_eq_true, beq_self_eq_true]
  · have : ¬ (b.rpos % 2 ^ w = b.wpos % 2 ^ w) := fun hc => he ((this.mp hc.symm).symm)
    rw [beq_eq_false_iff_ne.mpr this, beq_eq_false_iff_ne.mpr he]

theorem toW_slot (h : WOK w b) (x : Nat) : slot (x % 2 ^ w) (toW w b).mask = x % b.cap := by
  obtain ⟨j, hj⟩ := h.capPow
  have hjw : j ≤ w := by
    have := h.capLt; rw [hj] at this
    exact Nat.le_of_lt ((Nat.pow_lt_pow_iff_right (by decide : 1 < 2)).mp this)
  simp only [toW, hj]; exact slot_wrap x hjw

/-- what the backend observes is what the free-running ring shows -/
theorem toW_front (h : WOK w b) : (toW w b).front = b.front := by
  have he := empty_eq w b.wpos b.rpos h.inv.le h.sizeLt
  simp only [WB.front, TB.front]
  by_cases hc : b.rpos = b.wpos
  · simp [toW, hc]
  · have : ¬ ((toW w b).rpos = (toW w b).wpos) := fun h2 => hc ((he.mp h2.symm).symm)
    rw [if_neg this, if_neg hc]
    show some (b.store (slot (b.rpos % 2 ^ w) (toW w b).mask)) = _
    rw [toW_slot h]

theorem toW_expand (h : WOK w b) : (toW w b).expand w = toW w b.expand := by
  have hs := toW_size h
  have hcl := h.capLt
  have hd : dblW w b.cap = b.cap * 2 := Nat.mod_eq_of_lt h.dblFits
  have hfit := h.inv.fits
  apply WB.ext
  · rfl
  · exact hd
  · show maskOf w (dblW w b.cap) = b.cap * 2 - 1
    rw [hd]; exact maskOf_eq (by have := h.inv.capPos; omega) h.dblFits
  · funext i
    show (if i < (toW w b).size w then b.store (slot ((b.rpos % 2 ^ w + i) % 2 ^ w) (toW w b).mask) else b.store 0) = _
    rw [hs, Spsc.add_modM, toW_slot h]; rfl
  · rfl
  · show (toW w b).size w = b.size % 2 ^ w
    rw [hs]; exact (Nat.mod_eq_of_lt (by simp only [TB.size]; omega)).symm
  · rfl

theorem expand_wok (h : WOK w b) (h4 : b.cap * 4 < 2 ^ w) : WOK w b.expand where
  inv := expand_inv b h.inv
  capPow := by obtain ⟨j, hj⟩ := h.capPow; exact ⟨j + 1, by simp only [TB.expand, hj, Nat.pow_succ]⟩
  dblFits := by simp only [TB.expand]; omega

end

/-- **one step**: the `w`-bit buffer started from the image of a well-formed free-running ring ends in the image of
    the ring's next state — whatever the absolute values of the positions (counter wrap included) -/
theorem stepW_toW (w : Nat) (b : TB α) (op : Op α) (h : WOK w b) : stepW w (toW w b) op = toW w (step b op) := by
  cases op with
  | requestShrink => rfl
  | pop =>
    simp only [stepW, step, toW_isEmpty h]
    split
    · rfl
    · apply WB.ext <;> try rfl
      exact incW_eq w b.rpos
  | tryShrink =>
    simp only [stepW, step, WB.tryShrink, TB.tryShrink, toW_isEmpty h]
    show (if (b.shrinkReq && b.isEmpty) = true then (if b.initCap < b.cap then _ else _) else _) = _
    by_cases hc : (b.shrinkReq && b.isEmpty) = true
    · rw [if_pos hc, if_pos hc]
      by_cases hl : b.initCap < b.cap
      · rw [if_pos hl, if_pos hl]
        apply WB.ext <;> try rfl
        · show maskOf w b.initCap = b.initCap - 1
          exact maskOf_eq h.inv.initPos (Nat.lt_trans hl h.capLt)
      · rw [if_neg hl, if_neg hl]; rfl
    · rw [if_neg hc, if_neg hc]
  | push x =>
    simp only [stepW, step, WB.push, TB.push, toW_size h]
    by_cases hf : b.cap = b.size
    · have hcap : (toW w b).cap = b.cap := rfl
      rw [hcap, if_pos hf, if_pos hf, toW_expand h]
      -- after the expansion the positions are `size` and `0`; one more slot is written
      have hwpos : b.expand.wpos = b.size := rfl
      have hsz : b.size < 2 ^ w := by rw [← hf]; exact h.capLt
      obtain ⟨j, hj⟩ := h.capPow
      have hjw : j + 1 ≤ w := by
        have := h.dblFits; rw [hj, ← Nat.pow_succ] at this
        exact Nat.le_of_lt ((Nat.pow_lt_pow_iff_right (by decide : 1 < 2)).mp this)
      have hslot : slot (toW w b.expand).wpos (toW w b.expand).mask = b.expand.wpos % b.expand.cap := by
        show slot (b.size % 2 ^ w) (b.cap * 2 - 1) = b.size % (b.cap * 2)
        rw [hj, ← Nat.pow_succ]; exact slot_wrap _ hjw
      apply WB.ext <;> try rfl
      · funext i; show (if i = slot (toW w b.expand).wpos (toW w b.expand).mask then x else _) = _
        rw [hslot]; rfl
      · exact incW_eq w _
    · have hcap : (toW w b).cap = b.cap := rfl
      rw [hcap, if_neg hf, if_neg hf]
      apply WB.ext <;> try rfl
      · funext i; show (if i = slot (b.wpos % 2 ^ w) (toW w b).mask then x else _) = _
        rw [toW_slot h]; rfl
      · exact incW_eq w _

/-- the doubled capacity stays representable along a history -/
def CapsOK (w : Nat) : TB α → List (Op α) → Prop
  | b, [] => b.cap * 2 < 2 ^ w
  | b, op :: ops => b.cap * 2 < 2 ^ w ∧ CapsOK w (step b op) ops

theorem step_capPow (b : TB α) (op : Op α) (hi : ∃ j, b.initCap = 2 ^ j) (hc : ∃ j, b.cap = 2 ^ j) :
    (∃ j, (step b op).initCap = 2 ^ j) ∧ ∃ j, (step b op).cap = 2 ^ j := by
  obtain ⟨j, hj⟩ := hc
  cases op with
  | requestShrink => exact ⟨hi, j, hj⟩
  | pop => simp only [step]; split <;> exact ⟨hi, j, hj⟩
  | tryShrink =>
    simp only [step, TB.tryShrink]
    split
    · split
      · exact ⟨hi, hi⟩
      · exact ⟨hi, j, hj⟩
    · exact ⟨hi, j, hj⟩
  | push x =>
    simp only [step, TB.push]
    split
    · exact ⟨hi, j + 1, by simp only [TB.expand, hj, Nat.pow_succ]⟩
    · exact ⟨hi, j, hj⟩

/-- **any history, any number of counter wraps**: the `w`-bit machine run from the image of a well-formed ring ends in
    the image of the ring's run, and `front()`, `size()`, `empty()` agree at the end -/
theorem runW_toW (w : Nat) : ∀ (ops : List (Op α)) (b : TB α), TInv b → (∃ j, b.initCap = 2 ^ j) → (∃ j, b.cap = 2 ^ j) →
    CapsOK w b ops →
    ops.foldl (stepW w) (toW w b) = toW w (ops.foldl step b) ∧
    (toW w (ops.foldl step b)).front = (ops.foldl step b).front ∧
    (toW w (ops.foldl step b)).size w = (ops.foldl step b).size ∧
    (toW w (ops.foldl step b)).isEmpty = (ops.foldl step b).isEmpty
  | [], b, hi, _, hc, hk => by
    have h : WOK w b := ⟨hi, hc, hk⟩
    exact ⟨rfl, toW_front h, toW_size h, toW_isEmpty h⟩
  | op :: ops, b, hi, hi0, hc, hk => by
    have h : WOK w b := ⟨hi, hc, hk.1⟩
    have hp := step_capPow b op hi0 hc
    have ih := runW_toW w ops (step b op) (step_inv b op hi) hp.1 hp.2 hk.2
    simp only [List.foldl_cons, stepW_toW w b op h]
    exact ih

/-! ### what bounds the capacity: the buffer doubles only when it is full -/

/-- every state along the history holds at most `L` events (the backend stops reading a thread's queue at the hard limit) -/
def SizesLE (L : Nat) : TB α → List (Op α) → Prop
  | b, [] => b.size ≤ L
  | b, op :: ops => b.size ≤ L ∧ SizesLE L (step b op) ops

theorem step_initCap (b : TB α) (op : Op α) : (step b op).initCap = b.initCap := by
  cases op with
  | requestShrink => rfl
  | pop => simp only [step]; split <;> rfl
  | tryShrink => simp only [step, TB.tryShrink]; split <;> (try split) <;> rfl
  | push x => simp only [step, TB.push]; split <;> rfl

theorem step_cap_le (b : TB α) (op : Op α) (L : Nat) (hs : b.size ≤ L) (hc : b.cap ≤ max b.initCap (2 * L)) :
    (step b op).cap ≤ max b.initCap (2 * L) := by
  cases op with
  | requestShrink => exact hc
  | pop => simp only [step]; split <;> exact hc
  | tryShrink =>
    simp only [step, TB.tryShrink]
    split
    · split
      · exact Nat.le_max_left _ _
      · exact hc
    · exact hc
  | push x =>
    simp only [step, TB.push]
    split
    · rename_i hf
      show b.cap * 2 ≤ _
      have : b.cap * 2 ≤ 2 * L := by omega
      exact Nat.le_trans this (Nat.le_max_right _ _)
    · exact hc

/-- capacity after any history `≤ max(initial, 2·L)`: if that doubled fits `w` bits the refinement applies -/
theorem capsOK_of_sizes (w L : Nat) : ∀ (ops : List (Op α)) (b : TB α), b.cap ≤ max b.initCap (2 * L) →
    max b.initCap (2 * L) * 2 < 2 ^ w → SizesLE L b ops → CapsOK w b ops
  | [], b, hc, hm, _ => by show b.cap * 2 < 2 ^ w; omega
  | op :: ops, b, hc, hm, hs => by
    refine ⟨by omega, ?_⟩
    have h1 := step_cap_le b op L hs.1 hc
    have hi := step_initCap b op
    exact capsOK_of_sizes w L ops (step b op) (by rw [hi]; exact h1) (by rw [hi]; exact hm) hs.2

/-- `k` expansions multiply the capacity by `2^k` (`TInv.grown`), and an expansion happens only on a full buffer -/
theorem cap_is_init_times_pow (b : TB α) (h : TInv b) : ∃ k, b.cap = b.initCap * 2 ^ k := h.grown

end MathUtil
