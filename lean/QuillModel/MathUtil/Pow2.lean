import QuillModel.MathUtil.Model
/-!
Lemmas about `is_power_of_two` (the bit trick, both directions, by induction on the binary representation),
`max_power_of_two` and the `<<=` loop of `next_power_of_two`. Core Lean only.
-/
namespace MathUtil


theorem pow2_and_pred (k : Nat) : 2 ^ k &&& (2 ^ k - 1) = 0 := by
  rw [Nat.and_two_pow_sub_one_eq_mod]; exact Nat.mod_self _

theorem and_pred_zero_pow2 : ∀ n : Nat, n ≠ 0 → n &&& (n - 1) = 0 → ∃ k, n = 2 ^ k := by
  intro n
  induction n using Nat.strongRecOn with
  | _ n ih =>
    intro hn h
    have hd : (n / 2) &&& ((n - 1) / 2) = 0 := by rw [← Nat.and_div_two, h]
    rcases Nat.mod_two_eq_zero_or_one n with he | ho
    · -- even, non-zero: (n-1)/2 = n/2 - 1
      have h2 : (n - 1) / 2 = n / 2 - 1 := by omega
      rw [h2] at hd
      obtain ⟨k, hk⟩ := ih (n / 2) (by omega) (by omega) hd
      exact ⟨k + 1, by rw [Nat.pow_succ, ← hk]; omega⟩
    · -- odd: (n-1)/2 = n/2, so n/2 = 0
      have h2 : (n - 1) / 2 = n / 2 := by omega
      rw [h2, Nat.and_self] at hd
      exact ⟨0, by omega⟩

theorem isPow2_iff (n : Nat) : isPow2 n = true ↔ ∃ k, n = 2 ^ k := by
  constructor
  · intro h
    simp only [isPow2, Bool.and_eq_true, bne_iff_ne, ne_eq, beq_iff_eq] at h
    exact and_pred_zero_pow2 n h.1 h.2
  · rintro ⟨k, rfl⟩
    simp only [isPow2, Bool.and_eq_true, bne_iff_ne, ne_eq, beq_iff_eq]
    exact ⟨Nat.ne_of_gt (Nat.two_pow_pos k), pow2_and_pred k⟩

theorem maxPow2_eq (w : Nat) (hw : 1 ≤ w) : maxPow2 w = 2 ^ (w - 1) := by
  obtain ⟨k, rfl⟩ : ∃ k, w = k + 1 := ⟨w - 1, by omega⟩
  simp only [maxPow2, Nat.shiftRight_eq_div_pow, Nat.add_sub_cancel, Nat.pow_succ, Nat.pow_zero, Nat.one_mul]
  have := Nat.two_pow_pos k
  omega


/-- what "the next power of two of `n`" means -/
def IsNextPow2 (n r : Nat) : Prop := (∃ k, r = 2 ^ k) ∧ n ≤ r ∧ ∀ k, n ≤ 2 ^ k → r ≤ 2 ^ k

theorem isNextPow2_unique {n r r' : Nat} (h : IsNextPow2 n r) (h' : IsNextPow2 n r') : r = r' := by
  obtain ⟨⟨k, hk⟩, hn, hm⟩ := h
  obtain ⟨⟨k', hk'⟩, hn', hm'⟩ := h'
  have h1 := hm k' (hk' ▸ hn')
  have h2 := hm' k (hk ▸ hn)
  omega

/-- a power of two `2^k ≥ n` whose half is `< n` is the next power of two -/
theorem isNextPow2_of_bracket {n k : Nat} (hn : n ≤ 2 ^ k) (hl : k = 0 ∨ 2 ^ (k - 1) < n) : IsNextPow2 n (2 ^ k) := by
  refine ⟨⟨k, rfl⟩, hn, ?_⟩
  intro m hm
  rcases hl with rfl | hl
  · exact Nat.one_le_two_pow
  · have : 2 ^ (k - 1) < 2 ^ m := Nat.lt_of_lt_of_le hl hm
    have : k - 1 < m := (Nat.pow_lt_pow_iff_right (by decide)).mp this
    exact Nat.pow_le_pow_right (by decide) (by omega)

/-- the loop, started at `2^i` with everything below already `< n`, ends at the bracket; no shift wraps
    because `2^i < n ≤ 2^(w-1)`; `w-1-i` iterations at most -/
theorem npLoop_spec (w n : Nat) (hw : 1 ≤ w) (hn : n ≤ 2 ^ (w - 1)) :
    ∀ (fuel i : Nat), w - 1 ≤ i + fuel → (i = 0 ∨ 2 ^ (i - 1) < n) →
      ∃ k, npLoop w fuel (2 ^ i) n = 2 ^ k ∧ n ≤ 2 ^ k ∧ (k = 0 ∨ 2 ^ (k - 1) < n) ∧
           npIters w fuel (2 ^ i) n = k - i ∧ i ≤ k ∧ k ≤ w - 1 := by
  intro fuel
  induction fuel with
  | zero =>
    intro i hf hl
    have hi : i ≤ w - 1 := by
      rcases hl with rfl | hl
      · omega
      · have : 2 ^ (i - 1) < 2 ^ (w - 1) := Nat.lt_of_lt_of_le hl hn
        have := (Nat.pow_lt_pow_iff_right (by decide : 1 < 2)).mp this
        omega
    have : n ≤ 2 ^ i := Nat.le_trans hn (Nat.pow_le_pow_right (by decide) (by omega))
    exact ⟨i, rfl, this, hl, by simp [npIters], Nat.le_refl _, hi⟩
  | succ fuel ih =>
    intro i hf hl
    have hi : i ≤ w - 1 := by
      rcases hl with rfl | hl
      · omega
      · have : 2 ^ (i - 1) < 2 ^ (w - 1) := Nat.lt_of_lt_of_le hl hn
        have := (Nat.pow_lt_pow_iff_right (by decide : 1 < 2)).mp this
        omega
    by_cases hlt : 2 ^ i < n
    · have hiw : i < w - 1 := by
        have : 2 ^ i < 2 ^ (w - 1) := Nat.lt_of_lt_of_le hlt hn
        exact (Nat.pow_lt_pow_iff_right (by decide : 1 < 2)).mp this
      have hsh : (2 ^ i <<< 1) % 2 ^ w = 2 ^ (i + 1) := by
        rw [Nat.shiftLeft_eq, Nat.pow_one, ← Nat.pow_succ]
        exact Nat.mod_eq_of_lt (Nat.pow_lt_pow_right (by decide) (by omega))
      obtain ⟨k, h1, h2, h3, h4, h5, h6⟩ := ih (i + 1) (by omega) (Or.inr (by simpa using hlt))
      refine ⟨k, ?_, h2, h3, ?_, by omega, h6⟩
      · simp only [npLoop, hlt, if_true, hsh, h1]
      · simp only [npIters, hlt, if_true, hsh, h4]; omega
    · refine ⟨i, ?_, Nat.le_of_not_lt hlt, hl, ?_, Nat.le_refl _, hi⟩
      · simp only [npLoop, hlt, if_false]
      · simp only [npIters, hlt, if_false]; omega

end MathUtil
