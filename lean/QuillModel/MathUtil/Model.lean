/-!
# `quill/core/MathUtilities.h` and the constructors that consume it — fixed-width arithmetic model

Anchors: `is_power_of_two`, `max_power_of_two<T>`, `next_power_of_two<T>` (MathUtilities.h);
`BoundedSPSCQueueImpl` constructor (`_capacity`, `_mask`, `_bytes_per_batch`, the `2 * capacity` allocation);
`UnboundedSPSCQueue::_handle_full_queue` (the doubling loop) and `shrink`; `TransitEventBuffer` (constructor,
`_mask`, free-running `size_t` positions).

A `w`-bit unsigned value is a `Nat` below `2^w`; every C++ operation that can wrap is written with an explicit
`% 2^w`. No Mathlib, everything computable: `Drivers/MathUtil.lean` executes exactly these definitions.
-/
namespace MathUtil

/-- `is_power_of_two(uint64_t number)`: `(number != 0) && ((number & (number - 1)) == 0)` -/
def isPow2 (n : Nat) : Bool := (n != 0) && ((n &&& (n - 1)) == 0)

/-- `max_power_of_two<T>()`: `(numeric_limits<T>::max() >> 1) + 1` for a `w`-bit unsigned `T` -/
def maxPow2 (w : Nat) : Nat := ((2 ^ w - 1) >>> 1) + 1

/-- `T result = 1; while (result < n) result <<= 1;` in `w`-bit arithmetic; `fuel` bounds the iterations -/
def npLoop (w : Nat) : Nat → Nat → Nat → Nat
  | 0, r, _ => r
  | fuel + 1, r, n => if r < n then npLoop w fuel ((r <<< 1) % 2 ^ w) n else r

/-- number of iterations the loop makes (for the "terminates within `w` iterations" statement and the driver) -/
def npIters (w : Nat) : Nat → Nat → Nat → Nat
  | 0, _, _ => 0
  | fuel + 1, r, n => if r < n then npIters w fuel ((r <<< 1) % 2 ^ w) n + 1 else 0

/-- `next_power_of_two<T>(n)` for a `w`-bit unsigned `T`, `n < 2^w` -/
def nextPow2W (w n : Nat) : Nat :=
  if n ≥ maxPow2 w then maxPow2 w
  else if isPow2 n then n
  else npLoop w w 1 n

/-- the loop spelled `while (result <= n)` (`le = true`) or `while (result < n)` -/
def npLoopV (le : Bool) (w : Nat) : Nat → Nat → Nat → Nat
  | 0, r, _ => r
  | fuel + 1, r, n => if (if le then r ≤ n else r < n) then npLoopV le w fuel ((r <<< 1) % 2 ^ w) n else r

/-- `next_power_of_two` with the saturation test spelled `n > max` (`strict = true`) or `n >= max`, and either loop test;
    `NextPow2.nextPow2V_eq`: all four spellings are the same function -/
def nextPow2V (strict le : Bool) (w n : Nat) : Nat :=
  if (if strict then n > maxPow2 w else n ≥ maxPow2 w) then maxPow2 w
  else if isPow2 n then n
  else npLoopV le w w 1 n

/-- `next_power_of_two<T>(n)` for a `w`-bit *signed* `T` (`w ≤ 64`), `-2^(w-1) ≤ n < 2^(w-1)`:
    `numeric_limits<T>::max() = 2^(w-1) - 1`, the test `is_power_of_two(static_cast<uint64_t>(n))` sees the
    sign-extended value, the loop starts at `1` and is not entered for `n ≤ 1`. -/
def nextPow2S (w : Nat) (n : Int) : Int :=
  if n ≥ (maxPow2 (w - 1) : Nat) then (maxPow2 (w - 1) : Nat)
  else if isPow2 (n % (2 ^ 64 : Nat)).toNat then n
  else (npLoop (w - 1) (w - 1) 1 n.toNat : Nat)

/-! ### `BoundedSPSCQueueImpl<T>` constructor -/

structure BoundedCtor where
  capacity : Nat
  mask : Nat
  bytesPerBatch : Nat
  /-- `2ull * static_cast<uint64_t>(_capacity)`: the byte count handed to `_alloc_aligned` and `memset` -/
  allocBytes : Nat
  deriving Repr, DecidableEq

/-- the product `_capacity * reader_store_percent` is computed in `T` after integer promotion: `int` (no wrap possible
    for 8/16-bit operands) below 32 bits, `T` itself from 32 bits on -/
def prodWidth (w : Nat) : Nat := if w < 32 then 2 * w else w

def boundedCtor (w req pct : Nat) : BoundedCtor :=
  let cap := nextPow2W w req
  { capacity := cap,
    mask := (cap + 2 ^ w - 1) % 2 ^ w,                       -- `_capacity - 1` in `T`
    bytesPerBatch := ((cap * pct) % 2 ^ prodWidth w) / 100,  -- through `double`, exact below 2^53
    allocBytes := (2 * cap) % 2 ^ 64 }

/-- `_checked_capacity` (repair of F32): a capacity whose doubled byte count does not fit 64 bits —
    `static_cast<uint64_t>(c) > (numeric_limits<uint64_t>::max() >> 1)` — is rejected with a `QuillError` before any storage
    exists. `rejectsOversized` is extracted from the header (`false` = the pinned constructor, which never rejects). -/
def ctorRejects (rejectsOversized : Bool) (w req : Nat) : Bool :=
  rejectsOversized && decide (nextPow2W w req > (2 ^ 64 - 1) >>> 1)

/-- the constructor's outcome: `none` = throws before allocating, `some c` = the queue it builds -/
def boundedCtorR (rejectsOversized : Bool) (w req pct : Nat) : Option BoundedCtor :=
  if ctorRejects rejectsOversized w req then none else some (boundedCtor w req pct)

/-- the x86-only constructor guard `if (_capacity < 1024) throw` (compiled only with `QUILL_X86ARCH`) -/
def x86GuardThrows (cap : Nat) : Bool := decide (cap < 1024)

/-! ### `UnboundedSPSCQueue` -/

/-- `size_t capacity = cap * 2ull; while (capacity < nbytes) capacity = capacity * 2ull;` in 64-bit arithmetic.
    `none` = the loop did not finish within the fuel (it never does once `capacity` has wrapped to 0). -/
def hfLoop : Nat → Nat → Nat → Option Nat
  | 0, _, _ => none
  | fuel + 1, c, n => if c < n then hfLoop fuel ((c * 2) % 2 ^ 64) n else some c

def handleFullCap (cap nbytes : Nat) : Option Nat := hfLoop 130 ((cap * 2) % 2 ^ 64) nbytes

inductive HF | alloc (cap : Nat) | null | throw | hang
  deriving Repr, DecidableEq

/-- the capacity decision of `_handle_full_queue` on 64-bit values -/
def handleFull (cap nbytes maxCap : Nat) : HF :=
  match handleFullCap cap nbytes with
  | none => .hang
  | some c => if c > maxCap then (if nbytes > maxCap then .throw else .null) else .alloc (nextPow2W 64 c)

/-- with the repaired bounded constructor a growth to `2^63` throws (the node constructor rejects it) instead of building a node
    without storage -/
def handleFullR (rejectsOversized : Bool) (cap nbytes maxCap : Nat) : HF :=
  match handleFull cap nbytes maxCap with
  | .alloc c => if ctorRejects rejectsOversized 64 c then .throw else .alloc c
  | x => x

/-- `shrink(c)`: `if (c > (capacity >> 1)) return; new Node{c}` -/
def shrinkCap (cap c : Nat) : Option Nat := if c > cap >>> 1 then none else some (nextPow2W 64 c)

/-! ### `TransitEventBuffer`: the index arithmetic on `w`-bit free-running positions -/

structure TCtor where
  initialCapacity : Nat
  capacity : Nat
  mask : Nat
  deriving Repr, DecidableEq

def transitCtor (w req : Nat) : TCtor :=
  let c := nextPow2W w req
  { initialCapacity := c, capacity := c, mask := (c + 2 ^ w - 1) % 2 ^ w }

/-- `_storage[pos & _mask]` -/
def slot (pos mask : Nat) : Nat := pos &&& mask
/-- `size()`: `_writer_pos - _reader_pos` in `w` bits -/
def sizeW (w wpos rpos : Nat) : Nat := (wpos + 2 ^ w - rpos) % 2 ^ w
/-- `++pos` in `w` bits -/
def incW (w pos : Nat) : Nat := (pos + 1) % 2 ^ w
/-- `_capacity * 2` in `w` bits -/
def dblW (w cap : Nat) : Nat := (cap * 2) % 2 ^ w

end MathUtil
