/-!
# Backtrace ring and the backend's backtrace decisions (C18) — model

`quill::detail::BacktraceStorage` (include/quill/backend/BacktraceStorage.h) exactly as written: a vector
`_stored_events`, the next slot to overwrite `_index`, and `_capacity`, with `store` / `process` /
`set_capacity`; plus the part of `BackendWorker::_process_transit_event` that decides whether a statement is
written, stored, and whether the ring is replayed.

The model is parametric in structural facts read from the headers by `tools/extractors/backtrace.py`
(`Params`): two of them are the repairs of findings F1 (`resetsIndexOnFlush`) and F2 (`guardsZeroCapacity`).
`Obligations/Backtrace.lean` re-proves that the extracted values are the ones the theorems need.

An out-of-range `_stored_events[i]` (undefined behaviour in C++) is *not* totalised away: it sets the sticky
flag `ub`, and the theorems state `ub = false` on every history.

No Mathlib here (this file is linked into the driver executable).
-/
namespace Backtrace

/-- comparison operator found in `transit_event.log_level() ⋈ backtrace_flush_level` -/
inductive Cmp | ge | gt | le | lt | eq | ne
  deriving DecidableEq, Repr

def Cmp.holds : Cmp → Nat → Nat → Bool
  | .ge, a, b => decide (a ≥ b)
  | .gt, a, b => decide (a > b)
  | .le, a, b => decide (a ≤ b)
  | .lt, a, b => decide (a < b)
  | .eq, a, b => decide (a = b)
  | .ne, a, b => decide (a ≠ b)

/-- structural facts of the code, extracted on every run -/
structure Params where
  /-- `process()`: `_index = 0` after `_stored_events.clear()` (repair of F1, commit df24faa) -/
  resetsIndexOnFlush : Bool
  /-- `store()`: early `return` when `_capacity == 0` (repair of F2, commit 00ca2ca) -/
  guardsZeroCapacity : Bool
  /-- `process()`: the walk starts at `_index` (`uint32_t index = _index;`) -/
  startsAtIndex : Bool
  /-- `process()`: `_stored_events.clear()` after the walk -/
  clearsOnFlush : Bool
  /-- `store()`: the index advances while `_index < _capacity - wrapSlack`, else wraps to 0 (the code has 1) -/
  wrapSlack : Nat
  /-- `_process_transit_event`: operator between the statement's level and the logger's flush level -/
  flushCmp : Cmp
  deriving DecidableEq, Repr

/-- the values the theorems are proved for (what the repaired tree has) -/
def Params.good : Params :=
  { resetsIndexOnFlush := true, guardsZeroCapacity := true, startsAtIndex := true, clearsOnFlush := true,
    wrapSlack := 1, flushCmp := .ge }

/-- `BacktraceStorage` : `_capacity`, `_index`, `_stored_events` (+ the ghost flag `ub`) -/
structure Ring (α : Type) where
  cap : Nat := 0
  idx : Nat := 0
  ev : List α := []
  ub : Bool := false
  deriving Repr

/-- `BacktraceStorage::store`.
    `_capacity - 1` is a `uint32_t` subtraction; it is evaluated with `_capacity = 0` only after
    `_stored_events[_index]` on the empty vector, i.e. only once `ub` has been set. -/
def store {α : Type} (p : Params) (r : Ring α) (x : α) : Ring α :=
  if p.guardsZeroCapacity && r.cap == 0 then r
  else if r.ev.length < r.cap then { r with ev := r.ev ++ [x] }
  else
    { r with ev := r.ev.set r.idx x,
             idx := if r.idx < r.cap - p.wrapSlack then r.idx + 1 else 0,
             ub := r.ub || decide (r.ev.length ≤ r.idx) }

/-- the `for` loop of `process`: `n` iterations left, current `index`; returns the events handed to the
    callback and whether some `_stored_events[index]` was out of range -/
def walk {α : Type} (ev : List α) : Nat → Nat → List α × Bool
  | 0, _ => ([], false)
  | n + 1, index =>
    let r := walk ev n (if index < ev.length - 1 then index + 1 else 0)
    match ev[index]? with
    | some x => (x :: r.1, r.2)
    | none => (r.1, true)

/-- `BacktraceStorage::process` : new state and the events passed to the callback, in call order -/
def process {α : Type} (p : Params) (r : Ring α) : Ring α × List α :=
  let w := walk r.ev r.ev.length (if p.startsAtIndex then r.idx else 0)
  ({ r with ev := if p.clearsOnFlush then [] else r.ev,
            idx := if p.resetsIndexOnFlush then 0 else r.idx,
            ub := r.ub || w.2 }, w.1)

/-- `BacktraceStorage::set_capacity` -/
def setCapacity {α : Type} (r : Ring α) (c : Nat) : Ring α :=
  if r.cap = c then r else { r with cap := c, idx := 0, ev := [] }

inductive Op (α : Type)
  | store (x : α)
  | process
  | setCapacity (c : Nat)
  deriving Repr

/-- one call; the second component is what the callback received (`[]` for `store` / `set_capacity`) -/
def step {α : Type} (p : Params) (r : Ring α) : Op α → Ring α × List α
  | .store x => (store p r x, [])
  | .process => process p r
  | .setCapacity c => (setCapacity r c, [])

def run {α : Type} (p : Params) : Ring α → List (Op α) → Ring α
  | r, [] => r
  | r, op :: ops => run p (step p r op).1 ops

/-- what the callback received during each call of the history, in order -/
def trace {α : Type} (p : Params) : Ring α → List (Op α) → List (List α)
  | _, [] => []
  | r, op :: ops => (step p r op).2 :: trace p (step p r op).1 ops

/-! ### the obvious specification: remember everything since the last flush-or-resize, replay the last `cap` -/

/-- the last `n` elements of `l`, in order (all of `l` if it is shorter) -/
def lastN {α : Type} (n : Nat) (l : List α) : List α := l.drop (l.length - n)

structure Spec (α : Type) where
  cap : Nat := 0
  pend : List α := []
  deriving Repr

def Spec.step {α : Type} (s : Spec α) : Op α → Spec α × List α
  | .store x => ({ s with pend := s.pend ++ [x] }, [])
  | .process => ({ s with pend := [] }, lastN s.cap s.pend)
  | .setCapacity c => (if s.cap = c then s else { cap := c, pend := [] }, [])

def Spec.run {α : Type} : Spec α → List (Op α) → Spec α
  | s, [] => s
  | s, op :: ops => Spec.run (s.step op).1 ops

def Spec.trace {α : Type} : Spec α → List (Op α) → List (List α)
  | _, [] => []
  | s, op :: ops => (s.step op).2 :: Spec.trace (s.step op).1 ops

/-! ### `_process_transit_event`: the backtrace decisions -/

/-- an event as `_process_transit_event` sees it, plus the frontend's relaxed store of the flush level
    (`init_backtrace` does it on the caller's thread, the backend reads it when it processes a statement).
    Levels are ranks in `enum class LogLevel`. -/
inductive Ev
  | log (lg lvl id : Nat)        -- `Event::Log`, `transit_event.log_level() = lvl`
  | initBt (lg cap : Nat)        -- `Event::InitBacktrace`
  | flushBt (lg : Nat)           -- `Event::FlushBacktrace`
  | setFlushLvl (lg lvl : Nat)   -- `backtrace_flush_level.store(lvl)`
  deriving Repr, DecidableEq

/-- one `write_log` on the sinks of logger `lg` -/
structure Write where
  lg : Nat
  lvl : Nat
  id : Nat
  deriving Repr, DecidableEq

/-- what `_process_transit_event` decides for an event, before looking at the storage -/
structure Action where
  /-- the statement itself is dispatched to the sinks (first) -/
  write : Bool
  /-- the statement is copied into the logger's ring -/
  store : Bool
  /-- the logger's ring is replayed (after the write) -/
  flush : Bool
  deriving Repr, DecidableEq

/-- `bt` = rank of `LogLevel::Backtrace`, `fl` = the logger's current `backtrace_flush_level` -/
def action (cmp : Cmp) (bt fl : Nat) : Ev → Action
  | .log _ lvl _ =>
    if lvl ≠ bt then { write := true, store := false, flush := cmp.holds lvl fl }
    else { write := false, store := true, flush := false }
  | .flushBt _ => { write := false, store := false, flush := true }
  | .initBt _ _ => { write := false, store := false, flush := false }
  | .setFlushLvl _ _ => { write := false, store := false, flush := false }

def upd {β : Type} (f : Nat → β) (k : Nat) (v : β) : Nat → β := fun j => if j = k then v else f j

/-- backend-side state: per logger the lazily created `backtrace_storage` and the flush level -/
structure BSt where
  ring : Nat → Option (Ring Nat)
  flushLvl : Nat → Nat

/-- `none` rank = `LogLevel::None`, the default of `backtrace_flush_level` -/
def BSt.init (noneRank : Nat) : BSt := { ring := fun _ => none, flushLvl := fun _ => noneRank }

structure Out where
  writes : List Write := []
  /-- `QUILL_THROW("logger->init_backtrace(...) needs to be called first …")` reached the error notifier -/
  err : Bool := false
  deriving Repr, DecidableEq

/-- the logger an event belongs to -/
def Ev.logger : Ev → Nat
  | .log lg _ _ => lg | .initBt lg _ => lg | .flushBt lg => lg | .setFlushLvl lg _ => lg

/-- carry out a decision for logger `lg`; `stmt` is the statement itself (used when `write`/`store`) -/
def applyAction (p : Params) (bt lg : Nat) (a : Action) (stmt : Write) (s : BSt) : BSt × Out :=
  let own : List Write := if a.write then [stmt] else []
  match s.ring lg with
  | none => (s, { writes := own, err := a.store })
  | some r =>
    let r1 := if a.store then store p r stmt.id else r
    if a.flush then
      let pr := process p r1
      ({ s with ring := upd s.ring lg (some pr.1) },
       { writes := own ++ pr.2.map (fun id => ⟨lg, bt, id⟩) })
    else ({ s with ring := upd s.ring lg (some r1) }, { writes := own })

/-- one event through `_process_transit_event` -/
def stepEv (p : Params) (bt : Nat) (s : BSt) (e : Ev) : BSt × Out :=
  match e with
  | .setFlushLvl lg lvl => ({ s with flushLvl := upd s.flushLvl lg lvl }, {})
  | .initBt lg cap =>
    ({ s with ring := upd s.ring lg (some (setCapacity ((s.ring lg).getD {}) cap)) }, {})
  | .flushBt lg => applyAction p bt lg (action p.flushCmp bt (s.flushLvl lg) e) ⟨lg, 0, 0⟩ s
  | .log lg lvl id => applyAction p bt lg (action p.flushCmp bt (s.flushLvl lg) e) ⟨lg, lvl, id⟩ s

def runEv (p : Params) (bt : Nat) : BSt → List Ev → List Out
  | _, [] => []
  | s, e :: es => (stepEv p bt s e).2 :: runEv p bt (stepEv p bt s e).1 es

def finalEv (p : Params) (bt : Nat) : BSt → List Ev → BSt
  | s, [] => s
  | s, e :: es => finalEv p bt (stepEv p bt s e).1 es

/-! the same with the specification ring and the documented rule (`≥`) -/

structure SSt where
  ring : Nat → Option (Spec Nat)
  flushLvl : Nat → Nat

def SSt.init (noneRank : Nat) : SSt := { ring := fun _ => none, flushLvl := fun _ => noneRank }

def specStepEv (bt : Nat) (s : SSt) (e : Ev) : SSt × Out :=
  match e with
  | .setFlushLvl lg lvl => ({ s with flushLvl := upd s.flushLvl lg lvl }, {})
  | .initBt lg cap =>
    ({ s with ring := upd s.ring lg (some (((s.ring lg).getD {}).step (.setCapacity cap)).1) }, {})
  | .flushBt lg =>
    match s.ring lg with
    | none => (s, {})
    | some r => ({ s with ring := upd s.ring lg (some { r with pend := [] }) },
                 { writes := (lastN r.cap r.pend).map (fun id => ⟨lg, bt, id⟩) })
  | .log lg lvl id =>
    if lvl = bt then
      -- a backtrace statement: held back, never written when logged
      match s.ring lg with
      | none => (s, { err := true })
      | some r => ({ s with ring := upd s.ring lg (some { r with pend := r.pend ++ [id] }) }, {})
    else if lvl ≥ s.flushLvl lg then
      -- written, then the replay follows immediately
      match s.ring lg with
      | none => (s, { writes := [⟨lg, lvl, id⟩] })
      | some r => ({ s with ring := upd s.ring lg (some { r with pend := [] }) },
                   { writes := ⟨lg, lvl, id⟩ :: (lastN r.cap r.pend).map (fun id => ⟨lg, bt, id⟩) })
    else (s, { writes := [⟨lg, lvl, id⟩] })

def specRunEv (bt : Nat) : SSt → List Ev → List Out
  | _, [] => []
  | s, e :: es => (specStepEv bt s e).2 :: specRunEv bt (specStepEv bt s e).1 es

/-! ### level names -/

/-- the documented severity order of statements a user can log -/
def severityOrder : List String :=
  ["TraceL3", "TraceL2", "TraceL1", "Debug", "Info", "Notice", "Warning", "Error", "Critical"]

/-- rank of a level name in the enum as extracted -/
def rank (table : List String) (name : String) : Option Nat :=
  let i := table.idxOf name
  if i < table.length then some i else none

/-- what the C18 statements need of `enum class LogLevel`:
    * "at or above" between two severities in the enum is "at or above" in the documented order,
    * `Backtrace` is a level of its own (so stored ⇔ backtrace statement is well defined),
    * `None`, the default flush level, is above every severity (by default only `flush_backtrace()` flushes). -/
def LevelsOK (table : List String) : Bool :=
  severityOrder.all (fun a => severityOrder.all (fun b =>
    match rank table a, rank table b with
    | some i, some j => decide (i ≤ j ↔ severityOrder.idxOf a ≤ severityOrder.idxOf b)
    | _, _ => false))
  && (match rank table "Backtrace" with
      | some b => severityOrder.all (fun a => rank table a != some b)
      | none => false)
  && (match rank table "None" with
      | some n => severityOrder.all (fun a => match rank table a with | some i => decide (i < n) | none => false)
      | none => false)

end Backtrace
