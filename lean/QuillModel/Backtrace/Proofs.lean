import QuillModel.Backtrace.Model
namespace Backtrace
variable {α : Type}

theorem lastN_length (n : Nat) (l : List α) : (lastN n l).length = min n l.length := by
  simp only [lastN, List.length_drop]; omega

theorem lastN_of_le {n : Nat} {l : List α} (h : l.length ≤ n) : lastN n l = l := by
  have : l.length - n = 0 := by omega
  simp [lastN, this]

theorem lastN_zero (l : List α) : lastN 0 l = [] := by simp [lastN]

theorem lastN_suffix (n : Nat) (l : List α) : lastN n l <:+ l := List.drop_suffix _ _

theorem lastN_snoc_lt {n : Nat} {l : List α} (x : α) (h : l.length < n) :
    lastN n (l ++ [x]) = lastN n l ++ [x] := by
  rw [lastN_of_le (by simp; omega), lastN_of_le (by omega)]

theorem lastN_snoc_ge {n : Nat} {l : List α} (x : α) (hn : 0 < n) (h : n ≤ l.length) :
    lastN n (l ++ [x]) = (lastN n l).tail ++ [x] := by
  simp only [lastN, List.length_append, List.length_cons, List.length_nil, List.tail_drop]
  have e : l.length + (0 + 1) - n = l.length - n + 1 := by omega
  rw [e, List.drop_append_of_le_length (by omega)]

/-- the vector read cyclically from position `k` -/
def rot (ev : List α) (k : Nat) : List α := ev.drop k ++ ev.take k

theorem rot_zero (ev : List α) : rot ev 0 = ev := by simp [rot]

theorem rot_length (ev : List α) (k : Nat) : (rot ev k).length = ev.length := by
  simp only [rot, List.length_append, List.length_drop, List.length_take]; omega

theorem walk_rot (ev : List α) : ∀ (n index : Nat), index < ev.length → n ≤ ev.length →
    walk ev n index = ((rot ev index).take n, false) := by
  intro n
  induction n with
  | zero => intro index _ _; simp [walk]
  | succ n ih =>
    intro index hi hn
    have hnext : (if index < ev.length - 1 then index + 1 else 0) < ev.length := by split <;> omega
    simp only [walk, ih _ hnext (by omega), List.getElem?_eq_getElem hi]
    congr 1
    have hd : ev.drop index = ev[index] :: ev.drop (index + 1) := List.drop_eq_getElem_cons hi
    simp only [rot, hd, List.cons_append, List.take_succ_cons]
    congr 1
    by_cases hw : index < ev.length - 1
    · simp only [hw, if_true]
      have ht : ev.take (index + 1) = ev.take index ++ [ev[index]] := by
        rw [List.take_succ_eq_append_getElem hi]
      rw [ht, ← List.append_assoc, List.take_append_of_le_length]
      simp only [List.length_append, List.length_drop, List.length_take]; omega
    · simp only [hw, if_false]
      have h1 : ev.drop (index + 1) = [] := List.drop_eq_nil_of_le (by omega)
      simp only [h1, List.nil_append, List.drop_zero, List.take_zero, List.append_nil, List.take_take]
      congr 1; omega

/-- `process` on a ring whose index is in range (or 0 on an empty vector): the rotation, no out-of-range read -/
theorem walk_full (ev : List α) (idx : Nat) (h : idx < ev.length ∨ idx = 0) :
    walk ev ev.length idx = (rot ev idx, false) := by
  by_cases he : ev.length = 0
  · have : ev = [] := List.eq_nil_of_length_eq_zero he
    subst this
    simp [walk, rot]
  · have hi : idx < ev.length := by omega
    rw [walk_rot ev _ _ hi (Nat.le_refl _)]
    congr 1
    exact List.take_of_length_le (by rw [rot_length]; exact Nat.le_refl _)

/-! ### the refinement relation -/

/-- `r` (vector, index, capacity) represents the specification state `s`:
    the vector read cyclically from the index is the last `cap` pending events -/
structure Rel (r : Ring α) (s : Spec α) : Prop where
  cap : r.cap = s.cap
  ub : r.ub = false
  len : r.ev.length ≤ r.cap
  /-- while no more than `cap` events are pending the ring has not wrapped: the index is 0 -/
  idx0 : s.pend.length ≤ s.cap → r.idx = 0
  idxB : r.idx < r.ev.length ∨ r.idx = 0
  eqn : lastN s.cap s.pend = rot r.ev r.idx

theorem Rel.init : Rel ({} : Ring α) ({} : Spec α) :=
  ⟨rfl, rfl, Nat.le_refl _, fun h => rfl, Or.inr rfl, by simp [lastN, rot]⟩

/-- the vector holds `min cap n` events -/
theorem Rel.size {r : Ring α} {s : Spec α} (h : Rel r s) : r.ev.length = min s.cap s.pend.length := by
  have := congrArg List.length h.eqn
  rw [lastN_length, rot_length] at this
  exact this.symm

theorem Rel.setCapacity {r : Ring α} {s : Spec α} (h : Rel r s) (c : Nat) :
    Rel (setCapacity r c) (s.step (.setCapacity c)).1 := by
  simp only [Backtrace.setCapacity, Spec.step, ← h.cap]
  split
  · exact h
  · exact ⟨rfl, h.ub, Nat.zero_le _, fun _ => rfl, Or.inr rfl, by simp [lastN, rot]⟩

theorem split_at (ev : List α) (i : Nat) (hi : i < ev.length) :
    ∃ A y B, ev = A ++ y :: B ∧ A.length = i :=
  ⟨ev.take i, ev[i], ev.drop (i + 1), by
    rw [← List.drop_eq_getElem_cons hi, List.take_append_drop], by simp; omega⟩

theorem rot_mid (A B : List α) (y : α) : rot (A ++ y :: B) A.length = y :: B ++ A := by
  simp [rot]

theorem rot_mid_succ (A B : List α) (x : α) : rot (A ++ x :: B) (A.length + 1) = B ++ A ++ [x] := by
  have h1 : List.drop (A.length + 1) A = [] := List.drop_eq_nil_of_le (by omega)
  have h2 : List.take (A.length + 1) A = A := List.take_of_length_le (by omega)
  simp [rot, List.take_append, List.drop_append, h1, h2]

theorem set_mid (A B : List α) (x y : α) : (A ++ y :: B).set A.length x = A ++ x :: B := by
  simp

/-- `store` preserves the relation -/
theorem Rel.store {p : Params} {r : Ring α} (hg : p.guardsZeroCapacity = true ∨ r.cap ≠ 0) (hs : p.wrapSlack = 1)
    {s : Spec α} (h : Rel r s) (x : α) :
    Rel (store p r x) (s.step (.store x)).1 := by
  have hsz := h.size
  have hcap := h.cap
  simp only [Backtrace.store, Spec.step, hs]
  by_cases hc0 : r.cap = 0
  · -- capacity 0: nothing is retained (needs the guard)
    have hg' : p.guardsZeroCapacity = true := by cases hg with | inl h => exact h | inr h => exact absurd hc0 h
    simp only [hc0, hg', Bool.true_and, beq_self_eq_true, if_true]
    refine ⟨h.cap, h.ub, h.len, fun hh => absurd hh (by simp; omega), h.idxB, ?_⟩
    have : s.cap = 0 := by omega
    rw [this, lastN_zero]
    have hl := h.len
    have : r.ev = [] := List.eq_nil_of_length_eq_zero (by omega)
    simp [this, rot]
  · have hgc : (p.guardsZeroCapacity && r.cap == 0) = false := by simp [hc0]
    simp only [hgc, Bool.false_eq_true, if_false]
    by_cases hlt : r.ev.length < r.cap
    · -- still growing
      simp only [hlt, if_true]
      have hpl : s.pend.length < s.cap := by omega
      have hi0 := h.idx0 (by omega)
      refine ⟨h.cap, h.ub, by simp; omega, fun _ => hi0, Or.inr hi0, ?_⟩
      have hr := h.eqn
      rw [hi0, rot_zero] at hr
      show lastN s.cap (s.pend ++ [x]) = rot (r.ev ++ [x]) r.idx
      rw [hi0, rot_zero, lastN_snoc_lt x hpl, hr]
    · -- full: overwrite the oldest
      simp only [hlt, if_false]
      have hfull : r.ev.length = r.cap := by have := h.len; omega
      have hi : r.idx < r.ev.length := by have := h.idxB; omega
      have hpl : s.cap ≤ s.pend.length := by omega
      have hr := h.eqn
      obtain ⟨A, y, B, hev, hA⟩ := split_at r.ev r.idx hi
      have hlen : A.length + B.length + 1 = r.cap := by
        rw [← hfull, hev]; simp; omega
      have hspec : lastN s.cap (s.pend ++ [x]) = B ++ A ++ [x] := by
        rw [lastN_snoc_ge x (by omega) hpl, hr, hev, ← hA, rot_mid]; simp
      have hset : r.ev.set r.idx x = A ++ x :: B := by rw [hev, ← hA]; exact set_mid A B x _
      have hub : (r.ub || decide (r.ev.length ≤ r.idx)) = false := by
        simp [h.ub]; omega
      by_cases hw : r.idx < r.cap - 1
      · simp only [hw, if_true]
        refine ⟨h.cap, hub, by simp; omega, fun hh => by simp at hh; omega, Or.inl (by simp; omega), ?_⟩
        show lastN s.cap (s.pend ++ [x]) = rot (r.ev.set r.idx x) (r.idx + 1)
        rw [hspec, hset, ← hA, rot_mid_succ]
      · simp only [hw, if_false]
        refine ⟨h.cap, hub, by simp; omega, fun _ => rfl, Or.inr rfl, ?_⟩
        show lastN s.cap (s.pend ++ [x]) = rot (r.ev.set r.idx x) 0
        have hB : B = [] := List.eq_nil_of_length_eq_zero (by omega)
        rw [hspec, hset, rot_zero, hB]; simp


/-- `process` hands the callback exactly the last `cap` pending events, oldest first, and re-establishes the
    relation with the emptied specification state -/
theorem Rel.process_out {p : Params} (hst : p.startsAtIndex = true) {r : Ring α} {s : Spec α} (h : Rel r s) :
    (process p r).2 = lastN s.cap s.pend := by
  simp only [Backtrace.process, hst, if_true]
  rw [walk_full r.ev r.idx h.idxB, h.eqn]

theorem Rel.process_ub {p : Params} (hst : p.startsAtIndex = true) {r : Ring α} {s : Spec α} (h : Rel r s) :
    (process p r).1.ub = false := by
  simp only [Backtrace.process, hst, if_true]
  rw [walk_full r.ev r.idx h.idxB, h.ub]; rfl

theorem Rel.process {p : Params} (hst : p.startsAtIndex = true) (hcl : p.clearsOnFlush = true)
    {r : Ring α} (hre : p.resetsIndexOnFlush = true ∨ r.idx = 0) {s : Spec α} (h : Rel r s) :
    Rel (process p r).1 (s.step .process).1 := by
  have hub := h.process_ub hst
  have hidx : (Backtrace.process p r).1.idx = 0 := by
    simp only [Backtrace.process]
    cases hre with
    | inl h1 => simp [h1]
    | inr h1 => simp [h1]
  have hev : (Backtrace.process p r).1.ev = [] := by simp [Backtrace.process, hcl]
  have hcap : (Backtrace.process p r).1.cap = r.cap := rfl
  refine ⟨by rw [hcap]; exact h.cap, hub, by rw [hev]; exact Nat.zero_le _, fun _ => hidx, Or.inr hidx, ?_⟩
  rw [hev, hidx]
  simp [Spec.step, lastN, rot]

/-- the store is left empty: a second `process` hands out nothing -/
theorem process_twice {p : Params} (hcl : p.clearsOnFlush = true) (r : Ring α) :
    (process p r).1.ev = [] ∧ (process p (process p r).1).2 = [] := by
  simp [process, hcl, walk]

end Backtrace
