import QuillModel.Backtrace.Proofs
/-!
History-level consequences of the ring relation (`Rel`) and the backend-level relation (`BRel`) between
`stepEv` (real ring, extracted comparison) and `specStepEv` (specification ring, `≥`). Helper lemmas only;
the property theorems are in `Props/C18.lean`.
-/
namespace Backtrace
variable {α : Type}

/-- the ring-level side conditions on the extracted structure -/
def Params.RingOK (p : Params) : Prop :=
  p.resetsIndexOnFlush = true ∧ p.guardsZeroCapacity = true ∧ p.startsAtIndex = true ∧
  p.clearsOnFlush = true ∧ p.wrapSlack = 1

instance (p : Params) : Decidable p.RingOK := by unfold Params.RingOK; infer_instance

theorem Rel.step {p : Params} (hp : p.RingOK) {r : Ring α} {s : Spec α} (h : Rel r s) (op : Op α) :
    Rel (step p r op).1 (s.step op).1 ∧ (step p r op).2 = (s.step op).2 := by
  obtain ⟨h1, h2, h3, h4, h5⟩ := hp
  cases op with
  | store x => exact ⟨h.store (Or.inl h2) h5 x, rfl⟩
  | process => exact ⟨h.process h3 h4 (Or.inl h1), h.process_out h3⟩
  | setCapacity c => exact ⟨h.setCapacity c, rfl⟩

theorem Rel.run {p : Params} (hp : p.RingOK) : ∀ (ops : List (Op α)) {r : Ring α} {s : Spec α}, Rel r s →
    trace p r ops = Spec.trace s ops ∧ Rel (run p r ops) (Spec.run s ops) := by
  intro ops
  induction ops with
  | nil => intro r s h; exact ⟨rfl, h⟩
  | cons op ops ih =>
    intro r s h
    have hs := h.step hp op
    have := ih hs.1
    simp only [trace, Spec.trace, Backtrace.run, Spec.run]
    exact ⟨by rw [hs.2, this.1], this.2⟩

/-! ### the two defect classes of the unrepaired ring, as decidable conditions on a history -/

/-- every `store` of the history happens with a capacity ≠ 0 (excludes the class of F2) -/
def storesAvoidCapZero : Spec α → List (Op α) → Bool
  | _, [] => true
  | s, op :: ops =>
    (match op with | .store _ => s.cap != 0 | _ => true) && storesAvoidCapZero (s.step op).1 ops

/-- every `process` of the history happens on a ring that has not wrapped: at most `cap` events pending
    (excludes the class of F1) -/
def flushesUnwrapped : Spec α → List (Op α) → Bool
  | _, [] => true
  | s, op :: ops =>
    (match op with | .process => decide (s.pend.length ≤ s.cap) | _ => true) && flushesUnwrapped (s.step op).1 ops

/-- refinement for a ring without the capacity-0 guard and/or without the index reset, on the histories that
    avoid the corresponding class -/
theorem Rel.run_partial {p : Params} (h3 : p.startsAtIndex = true) (h4 : p.clearsOnFlush = true)
    (h5 : p.wrapSlack = 1) : ∀ (ops : List (Op α)) {r : Ring α} {s : Spec α}, Rel r s →
    (p.guardsZeroCapacity = true ∨ storesAvoidCapZero s ops = true) →
    (p.resetsIndexOnFlush = true ∨ flushesUnwrapped s ops = true) →
    trace p r ops = Spec.trace s ops ∧ Rel (Backtrace.run p r ops) (Spec.run s ops) := by
  intro ops
  induction ops with
  | nil => intro r s h _ _; exact ⟨rfl, h⟩
  | cons op ops ih =>
    intro r s h hg hr
    have hg' : p.guardsZeroCapacity = true ∨ storesAvoidCapZero (s.step op).1 ops = true := by
      cases hg with
      | inl h => exact Or.inl h
      | inr h => simp only [storesAvoidCapZero, Bool.and_eq_true] at h; exact Or.inr h.2
    have hr' : p.resetsIndexOnFlush = true ∨ flushesUnwrapped (s.step op).1 ops = true := by
      cases hr with
      | inl h => exact Or.inl h
      | inr h => simp only [flushesUnwrapped, Bool.and_eq_true] at h; exact Or.inr h.2
    have hs : Rel (Backtrace.step p r op).1 (s.step op).1 ∧ (Backtrace.step p r op).2 = (s.step op).2 := by
      cases op with
      | store x =>
        refine ⟨h.store ?_ h5 x, rfl⟩
        cases hg with
        | inl h => exact Or.inl h
        | inr hh =>
          simp only [storesAvoidCapZero, Bool.and_eq_true, bne_iff_ne, ne_eq] at hh
          exact Or.inr (by rw [h.cap]; exact hh.1)
      | process =>
        refine ⟨h.process h3 h4 ?_, h.process_out h3⟩
        cases hr with
        | inl h => exact Or.inl h
        | inr hh =>
          simp only [flushesUnwrapped, Bool.and_eq_true, decide_eq_true_eq] at hh
          exact Or.inr (h.idx0 hh.1)
      | setCapacity c => exact ⟨h.setCapacity c, rfl⟩
    have := ih hs.1 hg' hr'
    simp only [trace, Spec.trace, Backtrace.run, Spec.run]
    exact ⟨by rw [hs.2, this.1], this.2⟩

theorem run_append (p : Params) : ∀ (a b : List (Op α)) (r : Ring α), run p r (a ++ b) = run p (run p r a) b := by
  intro a
  induction a with
  | nil => intro b r; rfl
  | cons op a ih => intro b r; simp only [List.cons_append, run, ih]

theorem Spec.run_append : ∀ (a b : List (Op α)) (s : Spec α), Spec.run s (a ++ b) = Spec.run (Spec.run s a) b := by
  intro a
  induction a with
  | nil => intro b r; rfl
  | cons op a ih => intro b r; simp only [List.cons_append, Spec.run, ih]

theorem Spec.run_stores (xs : List α) : ∀ (s : Spec α),
    Spec.run s (xs.map Op.store) = { s with pend := s.pend ++ xs } := by
  induction xs with
  | nil => intro s; simp [Spec.run]
  | cons x xs ih => intro s; simp [Spec.run, Spec.step, ih]

/-- capacity in force after a history: the argument of the last `set_capacity` (`k` if there is none) -/
def capFrom (k : Nat) (ops : List (Op α)) : Nat :=
  ops.foldl (fun k op => match op with | .setCapacity c => c | _ => k) k

theorem Spec.run_cap : ∀ (ops : List (Op α)) (s : Spec α), (Spec.run s ops).cap = capFrom s.cap ops := by
  intro ops
  induction ops with
  | nil => intro s; rfl
  | cons op ops ih =>
    intro s
    simp only [Spec.run, capFrom, List.foldl_cons]
    rw [ih]
    cases op with
    | store x => rfl
    | process => rfl
    | setCapacity c =>
      simp only [Spec.step, capFrom]
      split
      · next h => rw [h]
      · rfl

/-! ### across cycles: everything ever replayed is a subsequence of everything stored -/

/-- the events passed to `store` during a history, in call order -/
def storedOf : List (Op α) → List α
  | [] => []
  | .store x :: ops => x :: storedOf ops
  | _ :: ops => storedOf ops

theorem Spec.trace_sublist : ∀ (ops : List (Op α)) (s : Spec α),
    (Spec.trace s ops).flatten.Sublist (s.pend ++ storedOf ops) := by
  intro ops
  induction ops with
  | nil => intro s; simp [Spec.trace]
  | cons op ops ih =>
    intro s
    cases op with
    | store x =>
      have := ih (s.step (.store x)).1
      simp only [Spec.trace, Spec.step, List.flatten_cons, List.nil_append, storedOf] at this ⊢
      simpa using this
    | process =>
      have := ih (s.step .process).1
      simp only [Spec.trace, Spec.step, List.flatten_cons, storedOf, List.nil_append] at this ⊢
      exact List.Sublist.append (lastN_suffix _ _).sublist this
    | setCapacity c =>
      simp only [Spec.trace, Spec.step, List.flatten_cons, List.nil_append, storedOf]
      by_cases hc : s.cap = c
      · simp only [hc, if_true]
        exact ih s
      · simp only [hc, if_false]
        have := ih ({ cap := c, pend := [] } : Spec α)
        exact List.Sublist.trans this (List.sublist_append_right _ _)

/-! ### backend level -/

theorem applyAction_frame (p : Params) (bt lg : Nat) (a : Action) (w : Write) (s : BSt) (lg' : Nat) (h : lg' ≠ lg)
    (hw : w.lg = lg) :
    (applyAction p bt lg a w s).1.ring lg' = s.ring lg' ∧ (applyAction p bt lg a w s).1.flushLvl = s.flushLvl ∧
    ∀ x ∈ (applyAction p bt lg a w s).2.writes, x.lg = lg := by
  simp only [applyAction]
  cases s.ring lg with
  | none =>
    refine ⟨rfl, rfl, ?_⟩
    intro x hx
    by_cases ha : a.write = true <;> simp [ha] at hx
    rw [hx]; exact hw
  | some r =>
    by_cases hf : a.flush = true
    · simp only [hf, if_true, upd, h, if_false]
      refine ⟨trivial, trivial, ?_⟩
      intro x hx
      by_cases ha : a.write = true <;> simp [ha] at hx
      · rcases hx with hx | ⟨i, _, hx⟩
        · rw [hx]; exact hw
        · rw [← hx]
      · rcases hx with ⟨i, _, hx⟩
        rw [← hx]
    · simp only [hf, if_false, upd, h, Bool.false_eq_true]
      refine ⟨trivial, trivial, ?_⟩
      intro x hx
      by_cases ha : a.write = true <;> simp [ha] at hx
      rw [hx]; exact hw

/-- per logger: both have no storage, or the ring represents the specification state -/
def BRel (s : BSt) (t : SSt) : Prop :=
  s.flushLvl = t.flushLvl ∧
  ∀ lg, match s.ring lg, t.ring lg with
    | none, none => True
    | some r, some sp => Rel r sp
    | _, _ => False

theorem BRel.init (n : Nat) : BRel (BSt.init n) (SSt.init n) := ⟨rfl, fun _ => trivial⟩

theorem BRel.upd {s : BSt} {t : SSt} (h : BRel s t) (lg : Nat) {r : Ring Nat} {sp : Spec Nat} (hr : Rel r sp) :
    BRel { s with ring := upd s.ring lg (some r) } { t with ring := upd t.ring lg (some sp) } := by
  refine ⟨h.1, fun j => ?_⟩
  simp only [Backtrace.upd]
  by_cases hj : j = lg
  · simp only [hj, if_true]; exact hr
  · simp only [hj, if_false]; exact h.2 j

/-- the backend side conditions: the ring is the repaired one and the trigger compares with `>=` -/
def Params.OK (p : Params) : Prop := p.RingOK ∧ p.flushCmp = .ge

instance (p : Params) : Decidable p.OK := by unfold Params.OK; infer_instance

theorem good_ok : Params.good.OK := by decide

theorem BRel.upd_left {s : BSt} {t : SSt} (h : BRel s t) (lg : Nat) {r : Ring Nat} {sp : Spec Nat}
    (ht : t.ring lg = some sp) (hr : Rel r sp) : BRel { s with ring := Backtrace.upd s.ring lg (some r) } t := by
  refine ⟨h.1, fun j => ?_⟩
  simp only [Backtrace.upd]
  by_cases hj : j = lg
  · simp only [hj, if_true, ht]; exact hr
  · simp only [hj, if_false]; exact h.2 j

theorem BRel.cases {s : BSt} {t : SSt} (h : BRel s t) (lg : Nat) :
    (s.ring lg = none ∧ t.ring lg = none) ∨ (∃ r sp, s.ring lg = some r ∧ t.ring lg = some sp ∧ Rel r sp) := by
  have hl := h.2 lg
  cases hs : s.ring lg with
  | none =>
    cases ht : t.ring lg with
    | none => exact Or.inl ⟨rfl, rfl⟩
    | some sp => rw [hs, ht] at hl; exact hl.elim
  | some r =>
    cases ht : t.ring lg with
    | none => rw [hs, ht] at hl; exact hl.elim
    | some sp => rw [hs, ht] at hl; exact Or.inr ⟨r, sp, rfl, rfl, hl⟩

theorem BRel.step {p : Params} (hp : p.OK) (bt : Nat) {s : BSt} {t : SSt} (h : BRel s t) (e : Ev) :
    BRel (stepEv p bt s e).1 (specStepEv bt t e).1 ∧ (stepEv p bt s e).2 = (specStepEv bt t e).2 := by
  obtain ⟨hr, hc⟩ := hp
  obtain ⟨h1, h2, h3, h4, h5⟩ := hr
  have hfl := h.1
  cases e with
  | setFlushLvl lg lvl =>
    refine ⟨⟨?_, h.2⟩, rfl⟩
    show Backtrace.upd s.flushLvl lg lvl = Backtrace.upd t.flushLvl lg lvl
    rw [hfl]
  | initBt lg cap =>
    refine ⟨?_, rfl⟩
    rcases h.cases lg with ⟨hs, ht⟩ | ⟨r, sp, hs, ht, hl⟩
    · simp only [stepEv, specStepEv, hs, ht, Option.getD_none]
      exact h.upd lg (Rel.init.setCapacity cap)
    · simp only [stepEv, specStepEv, hs, ht, Option.getD_some]
      exact h.upd lg (hl.setCapacity cap)
  | flushBt lg =>
    rcases h.cases lg with ⟨hs, ht⟩ | ⟨r, sp, hs, ht, hl⟩
    · simp only [stepEv, specStepEv, action, applyAction, hs, ht]
      exact ⟨h, rfl⟩
    · simp only [stepEv, specStepEv, action, applyAction, hs, ht, Bool.false_eq_true, if_false, if_true,
        List.nil_append, hl.process_out h3]
      exact ⟨h.upd lg (hl.process h3 h4 (Or.inl h1)), trivial⟩
  | log lg lvl id =>
    have hfl' : s.flushLvl lg = t.flushLvl lg := by rw [hfl]
    rcases h.cases lg with ⟨hs, ht⟩ | ⟨r, sp, hs, ht, hl⟩
    · simp only [stepEv, specStepEv, action, applyAction, hs, ht, hc, Cmp.holds, hfl']
      by_cases hb : lvl = bt
      · simp only [hb, ne_eq, not_true_eq_false, if_false, if_true, Bool.false_eq_true]
        exact ⟨h, trivial⟩
      · simp only [hb, ne_eq, not_false_eq_true, if_true, if_false]
        by_cases hf : lvl ≥ t.flushLvl lg <;> simp only [hf, if_true, if_false] <;> exact ⟨h, trivial⟩
    · simp only [stepEv, specStepEv, action, applyAction, hs, ht, hc, Cmp.holds, hfl']
      by_cases hb : lvl = bt
      · simp only [hb, ne_eq, not_true_eq_false, if_false, if_true, Bool.false_eq_true]
        exact ⟨h.upd lg (hl.store (Or.inl h2) h5 id), trivial⟩
      · simp only [hb, ne_eq, not_false_eq_true, if_true, if_false, Bool.false_eq_true, decide_eq_true_eq]
        by_cases hf : lvl ≥ t.flushLvl lg
        · simp only [hf, if_true, hl.process_out h3]
          exact ⟨h.upd lg (hl.process h3 h4 (Or.inl h1)), rfl⟩
        · simp only [hf, if_false]
          exact ⟨h.upd_left lg ht hl, trivial⟩

theorem BRel.run {p : Params} (hp : p.OK) (bt : Nat) : ∀ (es : List Ev) {s : BSt} {t : SSt}, BRel s t →
    runEv p bt s es = specRunEv bt t es := by
  intro es
  induction es with
  | nil => intro s t _; rfl
  | cons e es ih =>
    intro s t h
    have hs := h.step hp bt e
    simp only [runEv, specRunEv]
    rw [hs.2, ih hs.1]

end Backtrace
