import QuillModel.Transit.Model
/-! The ring refines the FIFO list through every operation, including expansion and shrinking. -/
namespace Transit
variable {α : Type}

theorem mod_ne_of_lt (cap r i n : Nat) (hc : 0 < cap) (hi : i < n) (hn : n < cap) :
    (r + i) % cap ≠ (r + n) % cap := by
  intro h
  have h1 := Nat.div_add_mod (r + i) cap
  have h2 := Nat.div_add_mod (r + n) cap
  have hlt1 := Nat.mod_lt (r + i) hc
  have hle : (r + i) / cap ≤ (r + n) / cap := Nat.div_le_div_right (by omega)
  have hup : (r + n) / cap ≤ (r + i) / cap + 1 := by
    have : (r + n) / cap ≤ (r + i + cap) / cap := Nat.div_le_div_right (by omega)
    rwa [Nat.add_div_right (r + i) hc] at this
  rcases Nat.lt_or_ge ((r + i) / cap) ((r + n) / cap) with hq | hq
  · have : (r + n) / cap = (r + i) / cap + 1 := by omega
    rw [this, Nat.mul_succ] at h2
    omega
  · have : (r + n) / cap = (r + i) / cap := by omega
    rw [this] at h2
    omega

theorem abs_length (b : TB α) : b.abs.length = b.size := by simp [TB.abs]

theorem init_inv (c : Nat) (d : α) (hc : 0 < c) : TInv (TB.init c d) :=
  { capPos := hc, initPos := hc, le := Nat.le_refl _, fits := by simp [TB.init], grown := ⟨0, by simp [TB.init]⟩ }

theorem init_abs (c : Nat) (d : α) : (TB.init c d).abs = [] := by simp [TB.abs, TB.init, TB.size]

/-- `_expand` keeps the content and its order -/
theorem expand_abs (b : TB α) (h : TInv b) : b.expand.abs = b.abs := by
  have hc := h.capPos
  simp only [TB.abs, TB.expand, TB.size, Nat.sub_zero, Nat.zero_add]
  apply List.map_congr_left
  intro i hi
  have hi' : i < b.wpos - b.rpos := List.mem_range.mp hi
  have hlt : i < b.cap * 2 := by have := h.fits; omega
  rw [Nat.mod_eq_of_lt hlt]
  simp [hi']

theorem expand_inv (b : TB α) (h : TInv b) : TInv b.expand := by
  obtain ⟨k, hk⟩ := h.grown
  refine { capPos := ?_, initPos := h.initPos, le := ?_, fits := ?_, grown := ⟨k + 1, ?_⟩ }
  · simp only [TB.expand]; have := h.capPos; omega
  · simp [TB.expand]
  · simp only [TB.expand, TB.size, Nat.sub_zero]; have := h.fits; omega
  · simp only [TB.expand]; rw [hk, Nat.pow_succ, Nat.mul_assoc]

/-- pushing onto a buffer that has room appends to the content -/
theorem push_room_abs (b : TB α) (x : α) (h : TInv b) (hroom : b.size < b.cap) :
    ({ b with store := fun i => if i = b.wpos % b.cap then x else b.store i, wpos := b.wpos + 1 } : TB α).abs =
      b.abs ++ [x] := by
  have hc := h.capPos
  have hle := h.le
  simp only [TB.abs, TB.size] at *
  have hsz : b.wpos + 1 - b.rpos = (b.wpos - b.rpos) + 1 := by omega
  rw [hsz, List.range_succ, List.map_append]
  congr 1
  · apply List.map_congr_left
    intro i hi
    have hi' : i < b.wpos - b.rpos := List.mem_range.mp hi
    have hw : b.wpos = b.rpos + (b.wpos - b.rpos) := by omega
    have hne : (b.rpos + i) % b.cap ≠ b.wpos % b.cap := by
      rw [hw]; exact mod_ne_of_lt b.cap b.rpos i _ hc (by omega) hroom
    simp [hne]
  · have hw : b.rpos + (b.wpos - b.rpos) = b.wpos := by omega
    simp [hw]

theorem push_abs (b : TB α) (x : α) (h : TInv b) : (b.push x).abs = b.abs ++ [x] := by
  unfold TB.push
  by_cases hfull : b.cap = b.size
  · simp only [hfull, if_true]
    have he := expand_inv b h
    have hroom : b.expand.size < b.expand.cap := by
      simp only [TB.expand, TB.size, Nat.sub_zero] at *; have := h.capPos; omega
    have := push_room_abs b.expand x he hroom
    rw [expand_abs b h] at this
    simpa [hfull] using this
  · simp only [hfull, if_false]
    have hroom : b.size < b.cap := by
      have := h.fits; simp only [TB.size] at *; omega
    exact push_room_abs b x h hroom

theorem push_inv (b : TB α) (x : α) (h : TInv b) : TInv (b.push x) := by
  unfold TB.push
  by_cases hfull : b.cap = b.size
  · simp only [hfull, if_true]
    have he := expand_inv b h
    obtain ⟨k, hk⟩ := he.grown
    have hcap : b.expand.cap = b.cap * 2 := rfl
    have hw : b.expand.wpos = b.size := rfl
    have hr : b.expand.rpos = 0 := rfl
    refine { capPos := he.capPos, initPos := he.initPos, le := ?_, fits := ?_, grown := ⟨k, hk⟩ }
    · simp only []; rw [hr]; omega
    · simp only []; rw [hr, hw, hcap, ← hfull]; have := h.capPos; omega
  · simp only [hfull, if_false]
    refine { capPos := h.capPos, initPos := h.initPos, le := ?_, fits := ?_, grown := h.grown }
    · simp only []; have := h.le; omega
    · simp only []; have := h.fits; have := h.le; simp only [TB.size] at hfull; omega

theorem front_abs (b : TB α) (h : TInv b) : b.front = b.abs.head? := by
  unfold TB.front TB.abs TB.size
  by_cases he : b.rpos = b.wpos
  · simp [he]
  · have hle := h.le
    have hpos : 0 < b.wpos - b.rpos := by omega
    obtain ⟨n, hn⟩ : ∃ n, b.wpos - b.rpos = n + 1 := ⟨b.wpos - b.rpos - 1, by omega⟩
    simp [he, hn, List.range_succ_eq_map]

theorem pop_abs (b : TB α) (h : TInv b) (hne : b.rpos ≠ b.wpos) : b.pop.abs = b.abs.tail := by
  have hle := h.le
  unfold TB.pop TB.abs TB.size
  simp only []
  obtain ⟨n, hn⟩ : ∃ n, b.wpos - b.rpos = n + 1 := ⟨b.wpos - b.rpos - 1, by omega⟩
  have hn' : b.wpos - (b.rpos + 1) = n := by omega
  rw [hn, hn', List.range_succ_eq_map, List.map_cons, List.tail_cons, List.map_map]
  apply List.map_congr_left
  intro i _
  simp only [Function.comp]
  congr 2; omega

theorem pop_inv (b : TB α) (h : TInv b) (hne : b.rpos ≠ b.wpos) : TInv b.pop :=
  { capPos := h.capPos, initPos := h.initPos, le := by simp only [TB.pop]; have := h.le; omega,
    fits := by simp only [TB.pop]; have := h.fits; omega, grown := h.grown }

theorem tryShrink_abs (b : TB α) : b.tryShrink.abs = b.abs := by
  unfold TB.tryShrink
  split
  · rename_i hc
    have he : b.rpos = b.wpos := by
      simp only [Bool.and_eq_true, TB.isEmpty, beq_iff_eq] at hc; exact hc.2
    split <;> simp [TB.abs, TB.size, he]
  · rfl

theorem tryShrink_inv (b : TB α) (h : TInv b) : TInv b.tryShrink := by
  unfold TB.tryShrink
  split
  · split
    · exact { capPos := h.initPos, initPos := h.initPos, le := Nat.le_refl _, fits := by simp,
              grown := ⟨0, by simp⟩ }
    · exact { h with }
  · exact h

theorem step_inv (b : TB α) (op : Op α) (h : TInv b) : TInv (step b op) := by
  cases op with
  | push x => exact push_inv b x h
  | pop =>
    simp only [step]
    split
    · exact h
    · rename_i hne
      exact pop_inv b h (by simpa [TB.isEmpty] using hne)
  | requestShrink => exact { h with }
  | tryShrink => exact tryShrink_inv b h

theorem step_abs (b : TB α) (op : Op α) (h : TInv b) : (step b op).abs = specStep b.abs op := by
  cases op with
  | push x => exact push_abs b x h
  | pop =>
    simp only [step, specStep]
    split
    · rename_i he
      have : b.rpos = b.wpos := by simpa [TB.isEmpty] using he
      simp [TB.abs, TB.size, this]
    · rename_i hne
      exact pop_abs b h (by simpa [TB.isEmpty] using hne)
  | requestShrink => rfl
  | tryShrink => exact tryShrink_abs b

end Transit
