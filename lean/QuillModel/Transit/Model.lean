/-!
# `quill::detail::TransitEventBuffer` — the backend's per-thread ring of transit events

Anchors: `include/quill/backend/TransitEventBuffer.h` — `front`, `pop_front`, `back` (expands when full), `push_back`,
`size`, `empty`, `request_shrink`, `try_shrink`, `_expand`.

Slots are reused (a popped slot keeps its stale event until it is overwritten); the buffer doubles by moving the
events starting at the reader position, in order, to the front of the new storage; it shrinks back to its initial
capacity only when empty and asked to. `pos & mask` is `pos % cap` for the power-of-two capacities the C++ uses
(`Spsc.mask_eq_mod`). The model is the ring exactly as the C++; `abs` is the FIFO list it represents.
-/
namespace Transit

structure TB (α : Type) where
  initCap : Nat
  cap : Nat
  store : Nat → α          -- slot contents, meaningful below `cap`
  rpos : Nat
  wpos : Nat
  shrinkReq : Bool := false

variable {α : Type}

def TB.size (b : TB α) : Nat := b.wpos - b.rpos
def TB.isEmpty (b : TB α) : Bool := b.rpos == b.wpos

/-- `front()` -/
def TB.front (b : TB α) : Option α := if b.rpos = b.wpos then none else some (b.store (b.rpos % b.cap))

/-- `pop_front()` -/
def TB.pop (b : TB α) : TB α := { b with rpos := b.rpos + 1 }

/-- `_expand()` -/
def TB.expand (b : TB α) : TB α :=
  { b with cap := b.cap * 2,
           store := fun i => if i < b.size then b.store ((b.rpos + i) % b.cap) else b.store 0,
           wpos := b.size, rpos := 0 }

/-- `back()` (expanding when full), the caller filling the slot, `push_back()` -/
def TB.push (b : TB α) (x : α) : TB α :=
  let b1 := if b.cap = b.size then b.expand else b
  { b1 with store := fun i => if i = b1.wpos % b1.cap then x else b1.store i, wpos := b1.wpos + 1 }

def TB.requestShrink (b : TB α) : TB α := { b with shrinkReq := true }

/-- `try_shrink()` -/
def TB.tryShrink (b : TB α) : TB α :=
  if b.shrinkReq && b.isEmpty then
    if b.initCap < b.cap then { b with cap := b.initCap, wpos := 0, rpos := 0, shrinkReq := false }
    else { b with shrinkReq := false }
  else b

def TB.init (c : Nat) (d : α) : TB α := { initCap := c, cap := c, store := fun _ => d, rpos := 0, wpos := 0 }

/-- the FIFO content: the events from the reader position to the writer position, oldest first -/
def TB.abs (b : TB α) : List α := (List.range b.size).map (fun i => b.store ((b.rpos + i) % b.cap))

structure TInv (b : TB α) : Prop where
  capPos : 0 < b.cap
  initPos : 0 < b.initCap
  le : b.rpos ≤ b.wpos
  fits : b.wpos - b.rpos ≤ b.cap
  grown : ∃ k, b.cap = b.initCap * 2 ^ k

inductive Op (α : Type)
  | push (x : α) | pop | requestShrink | tryShrink

def step (b : TB α) : Op α → TB α
  | .push x => b.push x
  | .pop => if b.isEmpty then b else b.pop      -- the backend pops only after `front()` returned an event
  | .requestShrink => b.requestShrink
  | .tryShrink => b.tryShrink

/-- the obvious specification: a list -/
def specStep (l : List α) : Op α → List α
  | .push x => l ++ [x]
  | .pop => l.tail
  | _ => l

end Transit
