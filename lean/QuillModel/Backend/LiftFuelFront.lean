import QuillModel.Backend.LiftFuel
import QuillModel.Backend.PcSkeleton
/-!
Loop fuel of `readQueue`, part 2: a frontend operation commits at most one record to a context's queue and does not
touch the hook-site visit counters (`QB`); hence the operations injected at one visit of a site add at most as many
records as there are operations, and the budget of site-3 operations still to come (`budget`) pays for them.
-/
namespace Backend.PA
open Backend Spsc

/-- `s'` has the visit counters of `s`, and every context's queue holds at most `n` records more -/
structure QB (n : Nat) (s s' : BSt) : Prop where
  sc : s'.siteCnt = s.siteCnt
  q : ∀ i, ((s'.th i).qStmts.length ≤ (s.th i).qStmts.length + n)

theorem QB.refl (s : BSt) : QB 0 s s := ⟨rfl, fun _ => Nat.le_refl _⟩

theorem QB.trans {n m : Nat} {a b c : BSt} (h1 : QB n a b) (h2 : QB m b c) : QB (n + m) a c :=
  ⟨h2.sc.trans h1.sc, fun i => by have := h1.q i; have := h2.q i; omega⟩

theorem QB.mono {n m : Nat} {a b : BSt} (h : QB n a b) (hnm : n ≤ m) : QB m a b :=
  ⟨h.sc, fun i => by have := h.q i; omega⟩

theorem QB.of_ths {s s' : BSt} (h1 : s'.siteCnt = s.siteCnt) (h2 : s'.ths = s.ths) : QB 0 s s' :=
  ⟨h1, fun i => by simp [BSt.th, h2]⟩

theorem QB.one_of_ths {s s' : BSt} (h1 : s'.siteCnt = s.siteCnt) (h2 : s'.ths = s.ths) : QB 1 s s' :=
  (QB.of_ths h1 h2).mono (by omega)

theorem QB.one_refl (s : BSt) : QB 1 s s := (QB.refl s).mono (by omega)

theorem QB.setTh (n : Nat) (s : BSt) (j : Nat) (f : Th → Th)
    (hf : ∀ t, (f t).qStmts.length ≤ t.qStmts.length + n) : QB n s (s.setTh j f) :=
  ⟨rfl, fun i => by
    rw [th_setTh]
    split
    · exact hf _
    · omega⟩

theorem QB.zero_trans {n : Nat} {a b c : BSt} (h1 : QB 0 a b) (h2 : QB n b c) : QB n a c := by
  have := h1.trans h2; simpa using this

theorem QB.trans_zero {n : Nat} {a b c : BSt} (h1 : QB n a b) (h2 : QB 0 b c) : QB n a c := h1.trans h2

theorem ensureCtx_qb (s : BSt) (a : Nat) : QB 0 s (ensureCtx s a).1 := by
  unfold ensureCtx
  split
  · exact QB.refl s
  · refine ⟨rfl, fun i => ?_⟩
    show (((s.ths ++ [mkTh s.cfg a]).getD i default).qStmts.length ≤ _)
    simp only [List.getD_eq_getElem?_getD, BSt.th]
    by_cases h1 : i < s.ths.length
    · rw [List.getElem?_append_left h1]; omega
    · rw [List.getElem?_append_right (by omega)]
      by_cases h2 : i - s.ths.length = 0
      · simp [h2, mkTh]
      · have : ([mkTh s.cfg a] : List Th)[i - s.ths.length]? = none := by
          simp; omega
        rw [this]
        have : s.ths[i]? = none := by simp; omega
        simp [this]

theorem tryEnq_qb (s : BSt) (ci : Nat) (st : Stmt) : QB 1 s (tryEnq s ci st).1 := by
  unfold tryEnq
  dsimp only
  split
  · exact QB.setTh 1 s ci _ (fun t => by simp)
  · exact (QB.setTh 0 s ci _ (fun t => by simp)).mono (by omega)

theorem afterEnq_qb (s : BSt) (a : Nat) (st : Stmt) (cont : Nat) : QB 0 s (afterEnq s a st cont).1 := by
  unfold afterEnq
  split <;> exact QB.of_ths rfl rfl

theorem enqFlow_qb (s : BSt) (a : Nat) (st : Stmt) (cont : Nat) (first initial : Bool) :
    QB 1 s (enqFlow s a st cont first initial).1 := by
  unfold enqFlow
  have h1 := ensureCtx_qb s a
  generalize ensureCtx s a = e at h1 ⊢
  obtain ⟨s1, ci⟩ := e
  dsimp only at h1 ⊢
  have h2 := h1.zero_trans (tryEnq_qb s1 ci st)
  generalize tryEnq s1 ci st = e2 at h2 ⊢
  obtain ⟨s2, ok⟩ := e2
  dsimp only at h2 ⊢
  have hset : ∀ (s3 : BSt) (f : Actor → Actor), QB 1 s s3 → QB 1 s (s3.setActor a f) :=
    fun s3 f h3 => h3.trans_zero (QB.of_ths rfl rfl)
  have hbump : ∀ (f : Th → Th), (∀ t, (f t).qStmts = t.qStmts) →
      QB 1 s (if isLogKind st.kind = true then s2.setTh ci f else s2) := by
    intro f hf
    split
    · exact h2.trans_zero (QB.setTh 0 s2 ci f (fun t => by rw [hf]; omega))
    · exact h2
  split
  · exact (hset s2 _ h2).trans_zero (afterEnq_qb _ a st cont)
  · split
    · split
      · exact hset _ _ (hbump _ (fun _ => rfl))
      · exact hset _ _ (hbump _ (fun _ => rfl))
    · apply hset
      split
      · exact hbump _ (fun _ => rfl)
      · exact h2

theorem frontCall_qb (s : BSt) (a lgi : Nat) (kind : Kind) (lvl len cont : Nat) (dyn : Bool) (id : Nat)
    (named : Bool) : QB 1 s (frontCall s a lgi kind lvl len cont dyn id named).1 := by
  unfold frontCall
  dsimp only
  split
  · exact QB.one_of_ths rfl rfl
  · exact enqFlow_qb ..

theorem resume_qb (s : BSt) (a : Nat) : QB 1 s (resume s a).1 := by
  unfold resume
  split
  · exact enqFlow_qb ..
  · split <;> exact enqFlow_qb ..
  · split
    · exact QB.one_of_ths rfl rfl
    · exact QB.one_refl s
  · exact QB.one_refl s

theorem withLogger_qb (s : BSt) (a gid : Nat) (k : Nat → BSt × String) (hk : ∀ lgi, QB 1 s (k lgi).1) :
    QB 1 s (withLogger s a gid k).1 := by
  unfold withLogger
  split
  · exact (hk _).trans_zero (QB.of_ths rfl rfl)
  · exact QB.one_refl s

theorem reapSinks_qb (sids : List Nat) : ∀ (s : BSt), QB 0 s (reapSinks s sids) := by
  unfold reapSinks
  induction sids with
  | nil => intro s; exact QB.refl s
  | cons x xs ih =>
    intro s
    simp only [List.foldl_cons]
    refine QB.zero_trans ?_ (ih _)
    split
    · exact QB.of_ths rfl rfl
    · exact QB.refl s

/-- a frontend operation commits at most one record to any context's queue and leaves the visit counters alone -/
theorem applyFront_qb (s : BSt) (f : FOp) : QB 1 s (applyFront s f).1 := by
  have hsame : ∀ s' : BSt, s'.siteCnt = s.siteCnt → s'.ths = s.ths → QB 1 s s' :=
    fun _ h1 h2 => (QB.of_ths h1 h2).mono (by omega)
  have hrefl : QB 1 s s := (QB.refl s).mono (by omega)
  cases f with
  | tick dt => exact hsame _ rfl rfl
  | tstart a => simp only [applyFront]; split <;> exact hsame _ rfl rfl
  | texit a =>
    simp only [applyFront]
    split
    · exact hrefl
    · split
      · next i _ =>
        have h1 : QB 0 s (s.setActor a (fun x => { x with alive := false })) := QB.of_ths rfl rfl
        have h2 := h1.trans_zero (QB.setTh 0 _ i (fun t => { t with valid := false }) (fun t => by simp))
        have h3 := h2.trans_zero (QB.of_ths (s' := { (s.setActor a (fun x => { x with alive := false })).setTh i (fun t => { t with valid := false }) with invalidCnt := counterMod s.cfg (s.invalidCnt + 1) }) rfl rfl)
        exact QB.mono h3 (by omega)
      · exact hsame _ rfl rfl
  | resume a =>
    simp only [applyFront]
    have h1 := resume_qb s a
    split
    · exact h1
    · split
      · exact h1
      · exact h1.trans_zero (QB.of_ths rfl rfl)
  | armStall a => simp only [applyFront]; split <;> exact hsame _ rfl rfl
  | log a g lvl len dyn =>
    simp only [applyFront]
    apply withLogger_qb
    intro lgi
    have h1 : QB 0 s ({ s with nextId := s.nextId + 1 } : BSt) := QB.of_ths rfl rfl
    split
    · exact h1.zero_trans (frontCall_qb ..)
    · exact h1.mono (by omega)
  | logNamed a g len =>
    simp only [applyFront]
    apply withLogger_qb
    intro lgi
    have h1 : QB 0 s ({ s with nextId := s.nextId + 1 } : BSt) := QB.of_ths rfl rfl
    split
    · exact h1.zero_trans (frontCall_qb ..)
    · exact h1.mono (by omega)
  | logBt a g len =>
    simp only [applyFront]
    apply withLogger_qb
    intro lgi
    have h1 : QB 0 s ({ s with nextId := s.nextId + 1 } : BSt) := QB.of_ths rfl rfl
    split
    · exact h1.zero_trans (frontCall_qb ..)
    · exact h1.mono (by omega)
  | initBt a g cap fl => simp only [applyFront]; exact withLogger_qb _ _ _ _ (fun lgi => frontCall_qb ..)
  | flushBt a g => simp only [applyFront]; exact withLogger_qb _ _ _ _ (fun lgi => frontCall_qb ..)
  | flush a g =>
    simp only [applyFront]
    apply withLogger_qb
    intro lgi
    have h1 : QB 0 s ({ s with nextFlag := s.nextFlag + 1 } : BSt) := QB.of_ths rfl rfl
    exact h1.zero_trans (frontCall_qb ..)
  | removeBlocking a g =>
    simp only [applyFront]
    split
    · exact hrefl
    · apply withLogger_qb
      intro lgi
      have h1 : QB 0 s (dropName { s with nextFlag := s.nextFlag + 1 } g) := QB.of_ths rfl rfl
      exact h1.zero_trans (frontCall_qb ..)
  | remove a g =>
    simp only [applyFront]
    split
    · exact hrefl
    · split
      · exact hsame _ rfl rfl
      · exact hrefl
  | create a g sl =>
    simp only [applyFront]
    split
    · exact hrefl
    · split
      · split
        · exact hrefl
        · exact hsame _ rfl rfl
      · exact hsame _ rfl rfl
  | setLevel g lvl => simp only [applyFront]; split <;> first | exact hrefl | exact hsame _ rfl rfl
  | setSinkLevel sid lvl => simp only [applyFront]; split <;> first | exact hrefl | exact hsame _ rfl rfl
  | dropSink sid =>
    simp only [applyFront]
    have h1 : QB 0 s (s.setSink sid (fun k => { k with userRef := false })) := QB.of_ths rfl rfl
    exact (h1.trans_zero (reapSinks_qb [sid] _)).mono (by omega)
  | query => exact hrefl

theorem injStep_qb (site k : Nat) (s : BSt) (f : FOp) : QB 1 s (PC.injStep site k s f) := by
  unfold PC.injStep PC.injRes
  split
  · exact QB.one_of_ths rfl rfl
  · exact (applyFront_qb s f).trans_zero (QB.of_ths rfl rfl)

theorem injFold_qb (site k : Nat) : ∀ (ops : List FOp) (s : BSt), QB ops.length s (ops.foldl (PC.injStep site k) s)
  | [], s => QB.refl s
  | f :: fs, s => by
    simp only [List.foldl_cons, List.length_cons]
    have := (injStep_qb site k s f).trans (injFold_qb site k fs _)
    rw [Nat.add_comm] at this
    exact this

/-! ### the budget of site-3 operations still to come -/

/-- operations the table schedules at visits `K`, `K+1`, … of site 3 (an upper bound: of several entries for the same
    visit only the first is ever run) -/
def budget : List (Nat × Nat × List FOp) → Nat → Nat
  | [], _ => 0
  | e :: t, K => (if e.1 = 3 ∧ K ≤ e.2.1 then e.2.2.length else 0) + budget t K

/-- all operations the table schedules at site 3 -/
def site3Ops (table : List (Nat × Nat × List FOp)) : Nat :=
  ((table.filter (·.1 = 3)).map (·.2.2.length)).sum

theorem budget_succ_le : ∀ (t : List (Nat × Nat × List FOp)) (K : Nat), budget t (K + 1) ≤ budget t K
  | [], _ => Nat.le_refl _
  | e :: t, K => by
    simp only [budget]
    have := budget_succ_le t K
    by_cases h1 : e.1 = 3 ∧ K + 1 ≤ e.2.1
    · rw [if_pos h1, if_pos ⟨h1.1, by omega⟩]; omega
    · rw [if_neg h1]; omega

theorem budget_le_site3Ops : ∀ (t : List (Nat × Nat × List FOp)) (K : Nat), budget t K ≤ site3Ops t
  | [], _ => Nat.le_refl _
  | e :: t, K => by
    have ih := budget_le_site3Ops t K
    unfold site3Ops at ih ⊢
    simp only [budget, List.filter_cons]
    by_cases h : e.1 = 3
    · simp only [h, decide_true, if_true, List.map_cons, List.sum_cons, true_and]
      split <;> omega
    · simp only [h, decide_false, false_and, if_false]
      simpa using ih

theorem budget_find : ∀ (t : List (Nat × Nat × List FOp)) (K : Nat) (e : Nat × Nat × List FOp),
    t.find? (fun x => x.1 = 3 ∧ x.2.1 = K) = some e → e.2.2.length + budget t (K + 1) ≤ budget t K
  | [], _, _, h => by cases h
  | x :: t, K, e, h => by
    simp only [List.find?_cons] at h
    simp only [budget]
    by_cases hx : x.1 = 3 ∧ x.2.1 = K
    · simp only [hx, and_self, decide_true] at h
      cases h
      have := budget_succ_le t K
      have e1 : x.1 = 3 ∧ K ≤ x.2.1 := ⟨hx.1, by omega⟩
      have e2 : ¬ (x.1 = 3 ∧ K + 1 ≤ x.2.1) := by omega
      rw [if_pos e1, if_neg e2]
      omega
    · simp only [hx, decide_false] at h
      have := budget_find t K e h
      by_cases h1 : x.1 = 3 ∧ K + 1 ≤ x.2.1
      · rw [if_pos h1, if_pos ⟨h1.1, by omega⟩]; omega
      · rw [if_neg h1]; omega

theorem budget_eq_zero_of_no3 (t : List (Nat × Nat × List FOp)) (h : ∀ e ∈ t, e.1 ≠ 3) (K : Nat) : budget t K = 0 := by
  induction t with
  | nil => rfl
  | cons e t ih =>
    simp only [budget]
    rw [if_neg (fun hc => h e (List.mem_cons_self ..) hc.1), ih (fun x hx => h x (List.mem_cons_of_mem _ hx))]

/-- one visit of site 3: the visit counter advances, and the records the injected operations commit are paid for by the
    budget -/
theorem runInj3_budget (table : List (Nat × Nat × List FOp)) (s : BSt) (i : Nat) :
    ((runInj table s 3).th i).qStmts.length + budget table (PC.siteK (runInj table s 3) 3)
      ≤ (s.th i).qStmts.length + budget table (PC.siteK s 3) := by
  rw [PC.runInj_eq]
  have hK : ∀ x : BSt, x.siteCnt = (3, PC.siteK s 3) :: s.siteCnt.filter (·.1 ≠ 3) → PC.siteK x 3 = PC.siteK s 3 + 1 := by
    intro x hx
    simp [PC.siteK, hx]
  split
  · rw [hK { s with siteCnt := (3, PC.siteK s 3) :: s.siteCnt.filter (·.1 ≠ 3) } rfl]
    have := budget_succ_le table (PC.siteK s 3)
    show (s.th i).qStmts.length + _ ≤ _
    omega
  · next a b ops hf =>
    have hb := budget_find table (PC.siteK s 3) _ hf
    have hq := injFold_qb 3 (PC.siteK s 3) ops
      { s with siteCnt := (3, PC.siteK s 3) :: s.siteCnt.filter (·.1 ≠ 3) }
    rw [hK _ hq.sc]
    have := hq.q i
    have e : (({ s with siteCnt := (3, PC.siteK s 3) :: s.siteCnt.filter (·.1 ≠ 3) } : BSt).th i) = s.th i := rfl
    rw [e] at this
    simp only at hb
    omega

/-- the measure that pays for the read loop of context `i` under `runInj table` -/
def readMeasure (table : List (Nat × Nat × List FOp)) (i : Nat) (s : BSt) : Nat :=
  (s.th i).qStmts.length + budget table (PC.siteK s 3)

theorem readMeasure_step (table : List (Nat × Nat × List FOp)) (i : Nat) (s : BSt) (st : Stmt) (rest : List Stmt)
    (hq : (s.th i).qStmts = st :: rest) :
    readMeasure table i (runInj table (readOneF s i st rest) 3) < readMeasure table i s := by
  have h1 := runInj3_budget table (readOneF s i st rest) i
  have hF := readOneF_eq s i st rest
  have h2 : PC.siteK (readOneF s i st rest) 3 = PC.siteK s 3 := by
    unfold PC.siteK; rw [hF.1, readOne_siteCnt]
  have h3 : ((readOneF s i st rest).th i).qStmts = rest := by
    have : (readOneF s i st rest).th i = (readOne s i st rest).th i := by simp only [BSt.th, hF.2.1]
    rw [this, readOne_qStmts s i st rest (lt_of_qStmts_cons hq)]
  rw [h2, h3] at h1
  unfold readMeasure
  rw [hq, List.length_cons]
  omega

/-- B2 (general): under `runInj table`, any fuel above queue length + remaining site-3 budget reaches a real exit -/
theorem readExits_runInj (table : List (Nat × Nat × List FOp)) (tsNow : Option Nat) (i f total : Nat) (s : BSt)
    (h : (s.th i).qStmts.length + budget table (PC.siteK s 3) < f) :
    readExits (runInj table) tsNow i f total s = true :=
  readExits_of_measure (runInj table) tsNow i (readMeasure table i) (readMeasure_step table i) f total s h

end Backend.PA
