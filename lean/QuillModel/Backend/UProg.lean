import QuillModel.Backend.UPubInv
/-!
Progress facts of the read pass of the U machine (first step of the port of `Backend/ConcRead.lean`): with the F25
retry a read of a chain that holds a statement always offers one (`uRead_complete`), and the do-while of
`_read_and_decode_frontend_queue` moves at least one eligible record into the transit buffer before it looks at the
byte budget or the hard limit, whatever is injected at site 3 (`readQueueU_reads_one`).
-/
namespace Backend.US
open Backend Spsc Backend.PA Backend.UQ

theorem uPrepareRead_shape (c : Cfg) (t : Th) :
    ((uPrepareRead c t).2.2 = [] ∧ ((uPrepareRead c t).2.1 = false → (uPrepareRead c t).1.more = [])) ∨
    ((uPrepareRead c t).2.2 ≠ [] ∧ (uPrepareRead c t).1.more.length + 1 = t.more.length) := by
  unfold uPrepareRead
  dsimp only
  split
  · left; exact ⟨rfl, fun h => by simp at h⟩
  · split
    · next hm => left; exact ⟨rfl, fun _ => hm⟩
    · next nx rest hm =>
      split
      · left; exact ⟨rfl, fun h => by simp at h⟩
      · right; exact ⟨by simp, by simp [hm]⟩

/-- with the F25 retry, a read that offers nothing has followed the chain to its last buffer -/
theorem uRead_none_last (c : Cfg) : ∀ (fuel : Nat) (t : Th), t.more.length < fuel →
    (uRead c true fuel t).2.1 = false → (uRead c true fuel t).1.more = []
  | 0, _, hf, _ => by omega
  | fuel + 1, t, hf, hn => by
    unfold uRead at hn ⊢
    dsimp only at hn ⊢
    rcases uPrepareRead_shape c t with ⟨h1, h2⟩ | ⟨h1, h2⟩
    · have hc : (true && !(uPrepareRead c t).2.1 && !(uPrepareRead c t).2.2.isEmpty) = false := by simp [h1]
      simp only [hc, Bool.false_eq_true, ↓reduceIte] at hn ⊢
      exact h2 hn
    · by_cases ho : (uPrepareRead c t).2.1 = true
      · have hc : (true && !(uPrepareRead c t).2.1 && !(uPrepareRead c t).2.2.isEmpty) = false := by simp [ho]
        simp only [hc, Bool.false_eq_true, ↓reduceIte] at hn; rw [ho] at hn; cases hn
      · have hc : (true && !(uPrepareRead c t).2.1 && !(uPrepareRead c t).2.2.isEmpty) = true := by
          have : (uPrepareRead c t).2.2.isEmpty = false := by
            cases hl : (uPrepareRead c t).2.2 with
            | nil => exact absurd hl h1
            | cons _ _ => rfl
          simp [ho, this]
        simp only [hc, ↓reduceIte] at hn ⊢
        exact uRead_none_last c fuel _ (by omega) hn

/-- **the read is complete** (F25 repair on): a chain that holds a statement offers one -/
theorem uRead_complete (c : Cfg) (t : Th) (h : TI t) (hq : t.qStmts ≠ []) :
    (uRead c true (t.more.length + 1) t).2.1 = true := by
  cases ho : (uRead c true (t.more.length + 1) t).2.1 with
  | true => rfl
  | false =>
    have r := uRead_spec c true (t.more.length + 1) t h (by omega)
    rw [ho] at r
    exact absurd (r.none rfl (uRead_none_last c _ t (by omega) ho)) hq

end Backend.US
