import QuillModel.Backend.FlushProgress
/-!
# Reading the queues while the frontend keeps running (helper lemmas for C06 / C09 progress under concurrency)

`Grow s s'`: a stretch of execution that pops nothing — frontend operations (threads logging, registering, exiting,
resuming …) and the backend's reading steps. Per context the transit buffer and the pending list `buffer ++ queue` are
only *extended* (prefix order), the registry only grows, the clock does not go back. Every frontend operation is such a
stretch (`grow_applyFront`), hence every injection (`grow_runInj`), hence — for an arbitrary injection runner with this
property — the whole pass `populate` (`grow_populate`). Consequence (`populate_conc`): a context whose oldest pending
record is past its grace period has a **non-empty transit buffer after the pass, whatever the other threads do
meanwhile** (the do-while of `_read_and_decode_frontend_queue` reads at least one record whatever the limits are).
-/
namespace Backend.PB
open Backend

structure Grow (s s' : BSt) : Prop where
  cfg : s'.cfg = s.cfg
  now : s.now ≤ s'.now
  reg : ∀ i ∈ s.registry, i ∈ s'.registry
  buf : ∀ j, (s.th j).buf <+: (s'.th j).buf
  chain : ∀ j, chain (s.th j) <+: chain (s'.th j)
  acc : ∀ j, (s.th j).accepted <+: (s'.th j).accepted
  /-- whatever is accepted goes to the pending list: the popped part keeps its length -/
  bal : ∀ j, (s'.th j).accepted.length + (PB.chain (s.th j)).length = (s.th j).accepted.length + (PB.chain (s'.th j)).length

theorem Grow.refl (s : BSt) : Grow s s :=
  ⟨rfl, Nat.le_refl _, fun _ h => h, fun _ => List.prefix_refl _, fun _ => List.prefix_refl _, fun _ => List.prefix_refl _,
   fun _ => rfl⟩

theorem Grow.trans {a b c : BSt} (h1 : Grow a b) (h2 : Grow b c) : Grow a c :=
  ⟨h2.cfg.trans h1.cfg, Nat.le_trans h1.now h2.now, fun i hi => h2.reg i (h1.reg i hi),
   fun j => (h1.buf j).trans (h2.buf j), fun j => (h1.chain j).trans (h2.chain j), fun j => (h1.acc j).trans (h2.acc j),
   fun j => by have := h1.bal j; have := h2.bal j; omega⟩

theorem Grow.ofEq {s s' : BSt} (h1 : s'.ths = s.ths) (h2 : s'.cfg = s.cfg) (h3 : s'.now = s.now)
    (h4 : s'.registry = s.registry) : Grow s s' := by
  have : ∀ j, s'.th j = s.th j := fun j => by simp only [BSt.th, h1]
  exact ⟨h2, Nat.le_of_eq h3.symm, fun i hi => by rw [h4]; exact hi, fun j => by rw [this]; exact List.prefix_refl _,
    fun j => by rw [this]; exact List.prefix_refl _, fun j => by rw [this]; exact List.prefix_refl _,
    fun j => by rw [this]⟩

theorem Fr.grow {s s' : BSt} (h : Fr s s') : Grow s s' :=
  ⟨h.cfg, Nat.le_of_eq h.now.symm, fun i hi => by rw [h.reg]; exact hi,
   fun j => by obtain ⟨l, e⟩ := (h.th j).buf; rw [e]; exact List.prefix_append _ _,
   fun j => by rw [(h.th j).chain]; exact List.prefix_refl _,
   fun j => by rw [(h.th j).acc]; exact List.prefix_refl _,
   fun j => by rw [(h.th j).acc, (h.th j).chain]⟩

theorem Grow.setTh (s : BSt) (i : Nat) (f : Th → Th) (hb : (s.th i).buf <+: (f (s.th i)).buf)
    (hc : PB.chain (s.th i) <+: PB.chain (f (s.th i))) (ha : (s.th i).accepted <+: (f (s.th i)).accepted)
    (hbal : (f (s.th i)).accepted.length + (PB.chain (s.th i)).length = (s.th i).accepted.length + (PB.chain (f (s.th i))).length) :
    Grow s (s.setTh i f) := by
  refine ⟨rfl, Nat.le_refl _, fun _ h => h, fun j => ?_, fun j => ?_, fun j => ?_, fun j => ?_⟩
  · rcases th_setTh_cases s i j f with h1 | ⟨rfl, _, h1⟩
    · rw [h1]; exact List.prefix_refl _
    · rw [h1]; exact hb
  · rcases th_setTh_cases s i j f with h1 | ⟨rfl, _, h1⟩
    · rw [h1]; exact List.prefix_refl _
    · rw [h1]; exact hc
  · rcases th_setTh_cases s i j f with h1 | ⟨rfl, _, h1⟩
    · rw [h1]; exact List.prefix_refl _
    · rw [h1]; exact ha
  · rcases th_setTh_cases s i j f with h1 | ⟨rfl, _, h1⟩
    · rw [h1]
    · rw [h1]; exact hbal

theorem Grow.setTh_same (s : BSt) (i : Nat) (f : Th → Th) (hb : ∀ t, (f t).buf = t.buf) (hq : ∀ t, (f t).qStmts = t.qStmts)
    (ha : ∀ t, (f t).accepted = t.accepted) : Grow s (s.setTh i f) :=
  Grow.setTh s i f (by rw [hb]; exact List.prefix_refl _) (by simp only [PB.chain, hb, hq]; exact List.prefix_refl _)
    (by rw [ha]; exact List.prefix_refl _) (by simp only [PB.chain, hb, hq, ha])

theorem Grow.buf_ne {s s' : BSt} (h : Grow s s') {j : Nat} (hb : (s.th j).buf ≠ []) : (s'.th j).buf ≠ [] := by
  obtain ⟨l, e⟩ := h.buf j
  rw [← e]; intro he; exact hb (List.append_eq_nil_iff.mp he).1

theorem head_of_prefix {α} {l l' : List α} {a : α} (h : l <+: l') (ha : l.head? = some a) : l'.head? = some a := by
  obtain ⟨t, e⟩ := h
  rw [← e]
  cases l with
  | nil => cases ha
  | cons x xs => simpa using ha

theorem Grow.head {s s' : BSt} (h : Grow s s') {j : Nat} {a : Stmt} (ha : (PB.chain (s.th j)).head? = some a) :
    (PB.chain (s'.th j)).head? = some a := head_of_prefix (h.chain j) ha

theorem Grow.setActor (s : BSt) (a : Nat) (f : Actor → Actor) : Grow s (s.setActor a f) := Grow.ofEq rfl rfl rfl rfl

/-! ### every frontend operation is a `Grow` stretch -/

theorem grow_ensureCtx (s : BSt) (a : Nat) : Grow s (Backend.ensureCtx s a).1 := by
  unfold Backend.ensureCtx
  split
  · exact Grow.refl _
  · simp only
    have hth : ∀ j, ((({ s with ths := s.ths ++ [mkTh s.cfg a], registry := s.registry ++ [s.ths.length], newFlag := true } : BSt).setActor a
        (fun x => { x with ctx := some s.ths.length })).th j) = if j = s.ths.length then mkTh s.cfg a else s.th j :=
      fun j => th_append s _ j
    refine ⟨rfl, Nat.le_refl _, fun i hi => List.mem_append_left _ hi, fun j => ?_, fun j => ?_, fun j => ?_, fun j => ?_⟩
    · rw [hth]; split
      · rename_i hj; rw [hj, th_lt_or_default s _ (Nat.le_refl _)]; exact List.prefix_refl _
      · exact List.prefix_refl _
    · rw [hth]; split
      · rename_i hj; rw [hj, th_lt_or_default s _ (Nat.le_refl _)]; exact List.prefix_refl _
      · exact List.prefix_refl _
    · rw [hth]; split
      · rename_i hj; rw [hj, th_lt_or_default s _ (Nat.le_refl _)]; exact List.prefix_refl _
      · exact List.prefix_refl _
    · rw [hth]; split
      · rename_i hj; rw [hj, th_lt_or_default s _ (Nat.le_refl _)]; rfl
      · rfl

theorem grow_tryEnq (s : BSt) (ci : Nat) (st : Stmt) : Grow s (Backend.tryEnq s ci st).1 := by
  unfold Backend.tryEnq
  simp only
  split
  · refine Grow.setTh s ci _ (List.prefix_refl _) ?_ (List.prefix_append _ _) ?_
    · show (s.th ci).buf ++ (s.th ci).qStmts <+: (s.th ci).buf ++ ((s.th ci).qStmts ++ [{ st with enqAt := s.now }])
      rw [← List.append_assoc]; exact List.prefix_append _ _
    · show ((s.th ci).accepted ++ [{ st with enqAt := s.now }]).length + ((s.th ci).buf ++ (s.th ci).qStmts).length =
        (s.th ci).accepted.length + ((s.th ci).buf ++ ((s.th ci).qStmts ++ [{ st with enqAt := s.now }])).length
      simp only [List.length_append, List.length_cons, List.length_nil]; omega
  · exact Grow.setTh_same s ci _ (fun _ => rfl) (fun _ => rfl) (fun _ => rfl)

theorem grow_afterEnq (s : BSt) (a : Nat) (st : Stmt) (cont : Nat) : Grow s (Backend.afterEnq s a st cont).1 := by
  unfold Backend.afterEnq
  split <;> exact Grow.ofEq rfl rfl rfl rfl

theorem grow_enqFlow (s : BSt) (a : Nat) (st : Stmt) (cont : Nat) (first initial : Bool) :
    Grow s (Backend.enqFlow s a st cont first initial).1 := by
  have h1 := grow_ensureCtx s a
  rcases he : Backend.ensureCtx s a with ⟨s1, ci⟩
  rw [he] at h1
  have h2 := grow_tryEnq s1 ci st
  rcases ht : Backend.tryEnq s1 ci st with ⟨s2, ok⟩
  rw [ht] at h2
  simp only at h1 h2
  have h12 := h1.trans h2
  unfold Backend.enqFlow
  simp only [he, ht]
  have hb : ∀ (y : BSt) (g : Th → Th), (∀ t, (g t).buf = t.buf) → (∀ t, (g t).qStmts = t.qStmts) →
      (∀ t, (g t).accepted = t.accepted) → Grow y (if isLogKind st.kind = true then y.setTh ci g else y) := by
    intro y g hg1 hg2 hg3; split
    · exact Grow.setTh_same y ci g hg1 hg2 hg3
    · exact Grow.refl _
  split
  · refine Grow.trans ?_ (grow_afterEnq _ a st cont)
    exact h12.trans (Grow.setActor _ _ _)
  · split
    · split
      · show Grow s (BSt.setActor _ _ _)
        refine Grow.trans ?_ (Grow.setActor _ _ _)
        exact h12.trans (hb s2 _ (fun _ => rfl) (fun _ => rfl) (fun _ => rfl))
      · show Grow s (BSt.setActor _ _ _)
        refine Grow.trans ?_ (Grow.setActor _ _ _)
        exact h12.trans (hb s2 _ (fun _ => rfl) (fun _ => rfl) (fun _ => rfl))
    · show Grow s (BSt.setActor _ _ _)
      refine Grow.trans ?_ (Grow.setActor _ _ _)
      split
      · exact h12.trans (hb s2 _ (fun _ => rfl) (fun _ => rfl) (fun _ => rfl))
      · exact h12

theorem grow_frontCall (s : BSt) (a lgi : Nat) (kind : Kind) (lvl len cont : Nat) (dyn : Bool) (id : Nat) (named : Bool) :
    Grow s (Backend.frontCall s a lgi kind lvl len cont dyn id named).1 := by
  unfold Backend.frontCall
  simp only
  split
  · exact Grow.ofEq rfl rfl rfl rfl
  · exact grow_enqFlow _ _ _ _ _ _

theorem grow_resume (s : BSt) (a : Nat) : Grow s (Backend.resume s a).1 := by
  unfold Backend.resume
  split
  · exact grow_enqFlow _ _ _ _ _ _
  · split <;> exact grow_enqFlow _ _ _ _ _ _
  · split
    · exact Grow.ofEq rfl rfl rfl rfl
    · exact Grow.refl _
  · exact Grow.refl _

theorem grow_withLogger (s : BSt) (a g : Nat) (k : Nat → BSt × String) (hk : ∀ lgi, Grow s (k lgi).1) :
    Grow s (Backend.withLogger s a g k).1 := by
  unfold Backend.withLogger
  split
  · unfold noteCall; exact (hk _).trans (Grow.ofEq rfl rfl rfl rfl)
  · exact Grow.refl _

theorem reapSinks_core (s : BSt) (l : List Nat) :
    (reapSinks s l).ths = s.ths ∧ (reapSinks s l).cfg = s.cfg ∧ (reapSinks s l).now = s.now ∧
    (reapSinks s l).registry = s.registry := by
  unfold reapSinks
  induction l generalizing s with
  | nil => exact ⟨rfl, rfl, rfl, rfl⟩
  | cons x xs ih =>
    rw [List.foldl_cons]
    obtain ⟨a, b, c, d⟩ := ih (if ((s.sinkOf x).alive && decide (sinkRefs s x = 0)) = true then
      (s.setSink x (fun k => { k with alive := false })).emit (.sinkDtor x) else s)
    rw [a, b, c, d]
    split <;> exact ⟨rfl, rfl, rfl, rfl⟩

theorem grow_applyFront (s : BSt) (f : FOp) : Grow s (Backend.applyFront s f).1 := by
  cases f with
  | tick dt => exact ⟨rfl, Nat.le_add_right _ _, fun _ h => h, fun _ => List.prefix_refl _, fun _ => List.prefix_refl _,
      fun _ => List.prefix_refl _, fun _ => rfl⟩
  | tstart a => simp only [Backend.applyFront]; split <;> exact Grow.ofEq rfl rfl rfl rfl
  | texit a =>
    simp only [Backend.applyFront]
    split
    · exact Grow.refl _
    · split
      · rename_i i _
        have h1 : Grow s (s.setActor a (fun x => { x with alive := false })) := Grow.ofEq rfl rfl rfl rfl
        have h2 := h1.trans (Grow.setTh_same (s.setActor a (fun x => { x with alive := false })) i
          (fun t => { t with valid := false }) (fun _ => rfl) (fun _ => rfl) (fun _ => rfl))
        exact h2.trans (Grow.ofEq rfl rfl rfl rfl)
      · exact Grow.ofEq rfl rfl rfl rfl
  | resume a =>
    simp only [Backend.applyFront]
    have := grow_resume s a
    split
    · exact this
    · split
      · exact this
      · exact this.trans (Grow.ofEq rfl rfl rfl rfl)
  | armStall a => simp only [Backend.applyFront]; split <;> exact Grow.ofEq rfl rfl rfl rfl
  | log a g lvl len dyn =>
    simp only [Backend.applyFront]
    refine grow_withLogger s a g _ (fun lgi => ?_)
    split
    · exact (Grow.ofEq (s := s) (s' := { s with nextId := s.nextId + 1 }) rfl rfl rfl rfl).trans (grow_frontCall _ _ _ _ _ _ _ _ _ _)
    · exact Grow.ofEq rfl rfl rfl rfl
  | logNamed a g len =>
    simp only [Backend.applyFront]
    refine grow_withLogger s a g _ (fun lgi => ?_)
    split
    · exact (Grow.ofEq (s := s) (s' := { s with nextId := s.nextId + 1 }) rfl rfl rfl rfl).trans (grow_frontCall _ _ _ _ _ _ _ _ _ _)
    · exact Grow.ofEq rfl rfl rfl rfl
  | logBt a g len =>
    simp only [Backend.applyFront]
    refine grow_withLogger s a g _ (fun lgi => ?_)
    split
    · exact (Grow.ofEq (s := s) (s' := { s with nextId := s.nextId + 1 }) rfl rfl rfl rfl).trans (grow_frontCall _ _ _ _ _ _ _ _ _ _)
    · exact Grow.ofEq rfl rfl rfl rfl
  | initBt a g cap fl' =>
    simp only [Backend.applyFront]
    exact grow_withLogger s a g _ (fun lgi => grow_frontCall _ _ _ _ _ _ _ _ _ _)
  | flushBt a g =>
    simp only [Backend.applyFront]
    exact grow_withLogger s a g _ (fun lgi => grow_frontCall _ _ _ _ _ _ _ _ _ _)
  | flush a g =>
    simp only [Backend.applyFront]
    exact grow_withLogger s a g _ (fun lgi =>
      (Grow.ofEq (s := s) (s' := { s with nextFlag := s.nextFlag + 1 }) rfl rfl rfl rfl).trans (grow_frontCall _ _ _ _ _ _ _ _ _ _))
  | removeBlocking a g =>
    simp only [Backend.applyFront]
    split
    · exact Grow.refl _
    · exact grow_withLogger s a g _ (fun lgi =>
        (Grow.ofEq (s := s) (s' := dropName { s with nextFlag := s.nextFlag + 1 } g) rfl rfl rfl rfl).trans
          (grow_frontCall _ _ _ _ _ _ _ _ _ _))
  | remove a g =>
    simp only [Backend.applyFront]
    split
    · exact Grow.refl _
    · split
      · exact Grow.ofEq rfl rfl rfl rfl
      · exact Grow.refl _
  | create a g sl =>
    simp only [Backend.applyFront]
    split
    · exact Grow.refl _
    · split
      · split
        · exact Grow.refl _
        · exact Grow.ofEq rfl rfl rfl rfl
      · exact Grow.ofEq rfl rfl rfl rfl
  | setLevel g lvl =>
    simp only [Backend.applyFront]
    split
    · exact Grow.ofEq rfl rfl rfl rfl
    · exact Grow.refl _
  | setSinkLevel sid lvl =>
    simp only [Backend.applyFront]
    split
    · exact Grow.ofEq rfl rfl rfl rfl
    · exact Grow.refl _
  | dropSink sid =>
    simp only [Backend.applyFront]
    obtain ⟨a, b, c, d⟩ := reapSinks_core (s.setSink sid (fun k => { k with userRef := false })) [sid]
    exact Grow.ofEq (by rw [a]; rfl) (by rw [b]; rfl) (by rw [c]; rfl) (by rw [d]; rfl)
  | query => exact Grow.refl _

theorem grow_foldFront (ops : List FOp) (skip : FOp → Bool) (e : BSt → FOp → Ev)
    (s1 : BSt) : Grow s1 (ops.foldl (fun s f => (if skip f then (s, "noop") else Backend.applyFront s f).1.emit (e s f)) s1) := by
  induction ops generalizing s1 with
  | nil => exact Grow.refl _
  | cons f fs ih =>
    rw [List.foldl_cons]
    refine Grow.trans ?_ (ih _)
    split
    · exact Grow.ofEq rfl rfl rfl rfl
    · exact (grow_applyFront s1 f).trans (Grow.ofEq rfl rfl rfl rfl)

/-- whatever is injected at a hook site pops nothing and only extends queues, registry and clock -/
theorem grow_runInj (table : List (Nat × Nat × List FOp)) (s : BSt) (site : Nat) :
    Grow s (Backend.runInj table s site) := by
  unfold Backend.runInj
  simp only
  generalize ((s.siteCnt.find? (·.1 = site)).map (·.2)).getD 0 + 1 = k
  split
  · exact Grow.ofEq rfl rfl rfl rfl
  · refine Grow.trans (b := { s with siteCnt := (site, k) :: s.siteCnt.filter (·.1 ≠ site) }) (Grow.ofEq rfl rfl rfl rfl) ?_
    exact grow_foldFront _ (fun f => decide (site = 9) && f.needsManagerLock)
        (fun s f => Ev.inj site k f.show (if (decide (site = 9) && f.needsManagerLock) = true then (s, "noop")
          else Backend.applyFront s f).2) _

/-- an injection runner whose injections are `Grow` stretches -/
def InjGrow (inj : BSt → Nat → BSt) : Prop := ∀ s k, Grow s (inj s k)

theorem injGrow_runInj (table : List (Nat × Nat × List FOp)) : InjGrow (runInj table) := fun s k => grow_runInj table s k

/-! ### reading a queue while the frontend keeps running -/

variable {inj : BSt → Nat → BSt}

theorem grow_readQueue (hg : InjGrow inj) (tsNow : Option Nat) (i : Nat) (fuel : Nat) :
    ∀ (total : Nat) (s : BSt), Grow s (Backend.readQueue inj tsNow i fuel total s) := by
  induction fuel with
  | zero => intro total s; rw [readQueue_zero]; exact (fr_rqFin s i total).grow
  | succ n ih =>
    intro total s
    rw [readQueue_succ]
    have hfin := fun tot => ((fr_rqPrep s i).trans (fr_rqFin (rqPrep s i) i tot)).grow
    split
    · exact hfin total
    · split
      · exact hfin total
      · rename_i st rest hqs
        split
        · exact hfin total
        · have h3 := (fr_rqMove s i st rest hqs).1.grow.trans (hg _ 3)
          split
          · exact h3.trans (ih _ _)
          · exact h3.trans (fr_rqCommit _ i).grow

/-- the do-while rule under concurrency: a context whose oldest pending record is eligible has a non-empty buffer
    after its read, whatever is injected while it is being read -/
theorem readQueue_nonempty_conc (hg : InjGrow inj) (tsNow : Option Nat) (i fuel total : Nat) (s : BSt)
    (hqc : QC (s.th i)) (h0 : Stmt) (hd : (chain (s.th i)).head? = some h0) (hel : rqLate tsNow h0 = false) :
    ((Backend.readQueue inj tsNow i (fuel + 1) total s).th i).buf ≠ [] := by
  by_cases hb : (s.th i).buf = []
  · have hch : chain (s.th i) = (s.th i).qStmts := by simp [chain, hb]
    rw [hch] at hd
    rw [readQueue_succ]
    cases hqq : (s.th i).qStmts with
    | nil => rw [hqq] at hd; cases hd
    | cons st rest =>
      rw [hqq] at hd
      have hst : st = h0 := by simpa using hd
      have hrd : (qPrepareRead s.cfg (s.th i).q).2 = true := by
        cases hr : (qPrepareRead s.cfg (s.th i).q).2 with
        | true => rfl
        | false =>
          exfalso
          have e1 := qPrepareRead_false _ _ hr
          have e2 := hqc.sum
          rw [e1] at e2
          have := hqc.pos st (by rw [hqq]; exact List.mem_cons_self ..)
          rw [hqq] at e2; simp at e2; omega
      rw [if_neg (by simp [hrd])]
      simp only
      rw [if_neg (by rw [hst]; simp [hel])]
      have h3 := (fr_rqMove s i st rest hqq)
      have h4 : ((inj (rqMove s i st rest) 3).th i).buf ≠ [] := (hg _ 3).buf_ne h3.2
      split
      · exact (grow_readQueue hg tsNow i fuel _ _).buf_ne h4
      · exact (fr_rqCommit _ i).grow.buf_ne h4
  · exact (grow_readQueue hg tsNow i (fuel + 1) total s).buf_ne hb

variable {c : Cfg} {fl : Nat} {T : Nat → Prop} {C : List Nat} {s : BSt}

theorem pop_fold_conc (hi : InjOK inj) (hg : InjGrow inj) (tsNow : Option Nat)
    (htn : c.grace ≠ 0 → c.refreshAfterSample = true → tsNow = some fl) (i0 : Nat) (h0 : Stmt)
    (hel : rqLate tsNow h0 = false) (l : List Nat) :
    ∀ (acc : BSt × Nat) (T : Nat → Prop), (∀ i ∈ l, i ∈ C) → PI c none fl T C acc.1 →
      (chain (acc.1.th i0)).head? = some h0 →
      Grow acc.1 (l.foldl (popStep inj tsNow) acc).1 ∧ acc.2 ≤ (l.foldl (popStep inj tsNow) acc).2 ∧
      (i0 ∈ l → ((l.foldl (popStep inj tsNow) acc).1.th i0).buf ≠ [] ∧ acc.2 < (l.foldl (popStep inj tsNow) acc).2) := by
  induction l with
  | nil =>
    intro acc T _ _ _
    exact ⟨Grow.refl _, Nat.le_refl _, fun h => by cases h⟩
  | cons x xs ih =>
    intro acc T hl h hd
    rw [List.foldl_cons]
    have h1 := hi _ _ _ _ _ 2 h
    have gA : Grow acc.1 (inj acc.1 2) := hg _ 2
    have hstep : popStep inj tsNow acc x =
        (Backend.readQueue inj tsNow x ((((inj acc.1 2).th x).qStmts.length + 63) + 1) 0 (inj acc.1 2),
         acc.2 + ((Backend.readQueue inj tsNow x ((((inj acc.1 2).th x).qStmts.length + 63) + 1) 0 (inj acc.1 2)).th x).buf.length) := rfl
    rw [hstep]
    have hne : x = i0 → ((Backend.readQueue inj tsNow x ((((inj acc.1 2).th x).qStmts.length + 63) + 1) 0 (inj acc.1 2)).th i0).buf ≠ [] := by
      intro hx; subst hx
      exact readQueue_nonempty_conc hg tsNow x _ 0 _ (h1.qc x) h0 (gA.head hd) hel
    generalize hsB : Backend.readQueue inj tsNow x ((((inj acc.1 2).th x).qStmts.length + 63) + 1) 0 (inj acc.1 2) = sB at hne
    have h2 : PI c none fl (fun j => T j ∧ j ≠ x) C sB := by
      rw [← hsB]; exact h1.readQueue_first hi tsNow htn x (hl x (List.mem_cons_self ..)) _ _ _
    have gB : Grow (inj acc.1 2) sB := by rw [← hsB]; exact grow_readQueue hg tsNow x _ _ _
    have gAB := gA.trans gB
    obtain ⟨i1, i2, i3⟩ := ih (sB, acc.2 + (sB.th x).buf.length) _ (fun i hi' => hl i (List.mem_cons_of_mem _ hi')) h2
      (gAB.head hd)
    simp only at i1 i2 i3
    refine ⟨gAB.trans i1, by omega, fun hmem => ?_⟩
    by_cases hx : x = i0
    · have hb := hne hx
      have hpos : 0 < (sB.th x).buf.length := by rw [hx]; exact List.length_pos_iff.mpr hb
      exact ⟨i1.buf_ne hb, by omega⟩
    · rcases List.mem_cons.mp hmem with e | hmem'
      · exact absurd e.symm hx
      · obtain ⟨j1, j2⟩ := i3 hmem'
        exact ⟨j1, by omega⟩

/-- **The pass under concurrency.** Arbitrary injections (every one a `Grow` stretch keeping the ordering invariant): the
    pass pops nothing and loses nothing, and a context `i0` whose oldest pending record `h0` is past its grace period when
    the pass starts ends with a non-empty transit buffer, is in the backend's cache, and the pass reports a non-zero
    count. -/
theorem populate_conc (hi : InjOK inj) (hg : InjGrow inj) (h : PIo c fl s) (i0 : Nat) (h0 : Stmt)
    (hd : (chain (s.th i0)).head? = some h0) (hripe : h0.ts + c.grace ≤ s.now) :
    Grow s (populate inj s).1 ∧ ((populate inj s).1.th i0).buf ≠ [] ∧ i0 ∈ (populate inj s).1.cache ∧
    (populate inj s).2 ≠ 0 := by
  obtain ⟨flp, Cp, hpp⟩ := PIo.populate hi h
  have hne0 : chain (s.th i0) ≠ [] := by intro he; rw [he] at hd; cases hd
  have hreg0 : i0 ∈ s.registry := h.reg i0 hne0
  suffices hmain : Grow s (populate inj s).1 ∧ ((populate inj s).1.th i0).buf ≠ [] ∧ (populate inj s).2 ≠ 0 by
    obtain ⟨g, hb, hc⟩ := hmain
    exact ⟨g, hb, hpp.bufCache i0 (g.reg i0 hreg0) hb, hc⟩
  rw [populate_eq]
  unfold popC
  have ga : Grow s (popA s) := by
    unfold popA; split
    · exact Grow.refl _
    · exact (fr_refresh s).grow
  have ha : PIo c fl (popA s) := by
    unfold popA; split
    · exact h
    · exact h.refresh
  have hca : s.cfg.refreshAfterSample = false → i0 ∈ (popA s).cache := by
    intro hras
    unfold popA; rw [if_neg (by simp [hras])]
    exact refresh_fresh h i0 (by rw [(fr_refresh s).reg]; exact hreg0)
  have gb : Grow (popA s) (popB inj s) := by
    unfold popB; split
    · exact Grow.refl _
    · exact hg _ 7
  have hb : PIo c fl (popB inj s) := by
    unfold popB; split
    · exact ha
    · exact hi.pio ha 7
  have hcb : s.cfg.refreshAfterSample = false → i0 ∈ (popB inj s).cache := by
    intro hras
    have e : (popB inj s).cache = (popA s).cache := by
      unfold popB; split
      · rfl
      · exact (hi _ _ _ _ _ 7 ha).cacheEq
    rw [e]; exact hca hras
  have gab := ga.trans gb
  have hcfgb : (popB inj s).cfg = s.cfg := gab.cfg
  have hdb := gab.head hd
  have hnowb := gab.now
  generalize popB inj s = sb at hb gab hcb hcfgb hdb hnowb ⊢
  have hcfg : sb.cfg = c := hb.cfgEq
  let fl' := sb.now - sb.cfg.grace
  have hb' : PI c none fl' (fun _ => True) sb.cache sb := hb.newFloor fl' hb.floorNow (Nat.le_refl _)
  have htn : c.grace ≠ 0 → c.refreshAfterSample = true → tsNowOf sb = some fl' := by
    intro hg0 _
    unfold tsNowOf
    rw [if_neg (by rw [hcfg]; exact hg0)]
  have hel : rqLate (tsNowOf sb) h0 = false := rqLate_of_ripe sb h0 (by rw [hcfg]; omega)
  have h1 := hi _ _ _ _ _ 1 hb'
  have g1 : Grow sb (inj sb 1) := hg _ 1
  have h2 : PI c none fl' (fun i => i ∈ (if sb.cfg.refreshAfterSample = true then refreshCache (inj sb 1) else inj sb 1).cache)
      (if sb.cfg.refreshAfterSample = true then refreshCache (inj sb 1) else inj sb 1).cache
      (if sb.cfg.refreshAfterSample = true then refreshCache (inj sb 1) else inj sb 1) := by
    by_cases good : c.grace ≠ 0 ∧ c.refreshAfterSample = true
    · rw [if_pos (by rw [hcfg]; exact good.2)]
      exact h1.refresh.weakenT (fun i hi' => hi'.2)
    · split
      · exact h1.refresh.anyT good
      · exact h1.toPIo.anyT good
  have g2 : Grow sb (if sb.cfg.refreshAfterSample = true then refreshCache (inj sb 1) else inj sb 1) := by
    split
    · exact g1.trans (fr_refresh _).grow
    · exact g1
  have hc2 : i0 ∈ (if sb.cfg.refreshAfterSample = true then refreshCache (inj sb 1) else inj sb 1).cache := by
    split
    · refine refresh_fresh h1 i0 ?_
      rw [(fr_refresh _).reg]
      exact g1.reg i0 (gab.reg i0 hreg0)
    · rename_i hras
      rw [h1.cacheEq]
      exact hcb (by rw [← hcfgb]; simpa using hras)
  generalize (if sb.cfg.refreshAfterSample = true then refreshCache (inj sb 1) else inj sb 1) = s2 at h2 g2 hc2 ⊢
  obtain ⟨k1, k2, k3⟩ := pop_fold_conc hi hg (tsNowOf sb) htn i0 h0 hel s2.cache (s2, 0) _ (fun i hi' => hi') h2 (g2.head hdb)
  obtain ⟨k4, k5⟩ := k3 hc2
  simp only at k1 k2 k4 k5
  exact ⟨(gab.trans g2).trans k1, k4, by omega⟩

end Backend.PB
