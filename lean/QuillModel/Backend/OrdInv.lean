import QuillModel.Backend.OrdBasic
/-!
# The ordering invariant of the backend model (C05; reused by C06)

`PI c ex fl T C s`:
* `fl` — the cut-off (`ts_now`) sampled by the current / most recent pass of the backend;
* `T`  — the contexts the current pass has *not yet* read (`fun _ => True` outside a pass);
* `C`  — the context cache (`s.cache = C`; frontend operations never touch it);
* `ex` — an actor whose parked statement is momentarily exempt from the `pend` clause (inside `enqFlow`).

The ordering clauses (`Ord`) hold under the property's premise `PremI` (every accepted record was committed
within the grace period of its timestamp); the structural clauses hold unconditionally.
-/
namespace Backend.PB
open Backend

def chain (t : Th) : List Stmt := t.buf ++ t.qStmts

/-- coupling of the byte-level queue with the abstract record list -/
structure QC (t : Th) : Prop where
  wpos : t.q.wpos = t.q.wHist.headD 0
  sum : t.q.wHist.headD 0 = t.q.rpos + (t.qStmts.map (·.size)).sum
  pos : ∀ st ∈ t.qStmts, 0 < st.size
  /-- the reader's cached writer position is a record boundary ahead of (or at) the reader position -/
  wc : ∃ k, k ≤ t.qStmts.length ∧ t.q.wcache = t.q.rpos + ((t.qStmts.take k).map (·.size)).sum

/-- the premise of C05, per context index -/
def PremI (s : BSt) : Prop := ∀ i, ∀ st ∈ (s.th i).accepted, st.enqAt ≤ st.ts + s.cfg.grace

def isPendOf (p : Pend) (st : Stmt) : Prop := ∃ cont, p = .stall st cont ∨ p = .retry st cont

structure Ord (fl : Nat) (T : Nat → Prop) (s : BSt) : Prop where
  popSorted : s.popLog.Pairwise (fun a b => b.ts ≤ a.ts)
  above : ∀ p ∈ s.popLog, ∀ i ∈ s.registry, ∀ st ∈ chain (s.th i), p.ts ≤ st.ts
  popFloor : ∀ p ∈ s.popLog, p.ts ≤ fl
  bufFloor : ∀ i, ∀ st ∈ (s.th i).buf, st.ts ≤ fl
  late : ∀ i ∈ s.registry, ¬ T i → (s.th i).buf = [] → ∀ st ∈ (s.th i).qStmts, fl ≤ st.ts

structure PI (c : Cfg) (ex : Option Nat) (fl : Nat) (T : Nat → Prop) (C : List Nat) (s : BSt) : Prop where
  cfgEq : s.cfg = c
  hdr : 0 < s.cfg.hdr
  floorNow : fl ≤ s.now - s.cfg.grace
  cacheEq : s.cache = C
  sorted : ∀ i, (chain (s.th i)).Pairwise (fun a b => a.ts ≤ b.ts)
  leNow : ∀ i, ∀ st ∈ chain (s.th i), st.ts ≤ s.now
  qc : ∀ i, QC (s.th i)
  reg : ∀ i, chain (s.th i) ≠ [] → i ∈ s.registry
  bufCache : ∀ i ∈ s.registry, (s.th i).buf ≠ [] → i ∈ s.cache
  cacheReg : ∀ i ∈ s.cache, i ∈ s.registry
  fresh : s.newFlag = false → ∀ i ∈ s.registry, i ∈ s.cache
  ctxLt : ∀ a x i, s.actor a = some x → x.ctx = some i → i < s.ths.length
  ctxReg : ∀ a x i, s.actor a = some x → x.ctx = some i → i ∈ s.registry ∧ (s.th i).valid = true
  ctxInj : ∀ a b x y i, s.actor a = some x → s.actor b = some y → x.ctx = some i → y.ctx = some i → a = b
  pend : ∀ a x st, s.actor a = some x → some a ≠ ex → isPendOf x.pend st →
           st.ts ≤ s.now ∧ 0 < st.size ∧ ∀ i, x.ctx = some i → ∀ r ∈ chain (s.th i), r.ts ≤ st.ts
  /-- every context's queue has the configured capacity -/
  capOK : ∀ i, i < s.ths.length → (s.th i).q.cap = s.cfg.qcap
  ord : c.grace ≠ 0 → c.refreshAfterSample = true → PremI s → Ord fl T s

theorem Ord.cast {fl T} {s s' : BSt} (o : Ord fl T s) (h1 : s'.popLog = s.popLog) (h2 : ∀ i, s'.th i = s.th i)
    (h3 : s'.registry = s.registry) : Ord fl T s' where
  popSorted := by rw [h1]; exact o.popSorted
  above := by rw [h1, h3]; intro p hp i hi; rw [h2]; exact o.above p hp i hi
  popFloor := by rw [h1]; exact o.popFloor
  bufFloor := by intro i; rw [h2]; exact o.bufFloor i
  late := by rw [h3]; intro i; rw [h2]; exact o.late i

/-- what the invariant sees of a context -/
structure ThEq (t t' : Th) : Prop where
  buf : t'.buf = t.buf
  q : t'.qStmts = t.qStmts
  acc : t'.accepted = t.accepted
  wpos : t'.q.wpos = t.q.wpos
  wh : t'.q.wHist.headD 0 = t.q.wHist.headD 0
  rpos : t'.q.rpos = t.q.rpos
  valid : t'.valid = t.valid
  wc : t'.q.wcache = t.q.wcache ∨ t'.q.wcache = t'.q.wHist.headD 0
  cap : t'.q.cap = t.q.cap

theorem ThEq.refl (t : Th) : ThEq t t := ⟨rfl, rfl, rfl, rfl, rfl, rfl, rfl, .inl rfl, rfl⟩

theorem ThEq.chain {t t' : Th} (h : ThEq t t') : chain t' = chain t := by
  simp only [PB.chain, h.buf, h.q]

theorem ThEq.qc {t t' : Th} (h : ThEq t t') (hq : QC t) : QC t' := by
  refine ⟨by rw [h.wpos, h.wh]; exact hq.wpos, by rw [h.wh, h.rpos, h.q]; exact hq.sum, by rw [h.q]; exact hq.pos, ?_⟩
  rcases h.wc with e | e
  · obtain ⟨k, hk, hw⟩ := hq.wc
    exact ⟨k, by rw [h.q]; exact hk, by rw [e, h.rpos, h.q]; exact hw⟩
  · refine ⟨t'.qStmts.length, Nat.le_refl _, ?_⟩
    rw [e, List.take_length, h.wh, h.rpos, h.q]; exact hq.sum

/-- the invariant depends only on the fields listed here -/
theorem PI.congr {ex fl T C} {s s' : BSt} (h : PI c ex fl T C s) (hcfg : s'.cfg = s.cfg) (hnow : s'.now = s.now)
    (hth : ∀ i, ThEq (s.th i) (s'.th i)) (hlen : s'.ths.length = s.ths.length) (hreg : s'.registry = s.registry)
    (hcache : s'.cache = s.cache) (hnf : s'.newFlag = s.newFlag) (hact : ∀ a, s'.actor a = s.actor a)
    (hpop : s'.popLog = s.popLog) : PI c ex fl T C s' where
  cfgEq := by rw [hcfg]; exact h.cfgEq
  hdr := by rw [hcfg]; exact h.hdr
  floorNow := by rw [hcfg, hnow]; exact h.floorNow
  cacheEq := by rw [hcache]; exact h.cacheEq
  sorted := fun i => by rw [(hth i).chain]; exact h.sorted i
  leNow := fun i => by rw [(hth i).chain, hnow]; exact h.leNow i
  qc := fun i => (hth i).qc (h.qc i)
  reg := fun i => by rw [(hth i).chain, hreg]; exact h.reg i
  bufCache := fun i => by rw [(hth i).buf, hcache, hreg]; exact h.bufCache i
  cacheReg := by rw [hcache, hreg]; exact h.cacheReg
  fresh := by rw [hcache, hreg, hnf]; exact h.fresh
  ctxLt := fun a x i => by rw [hact, hlen]; exact h.ctxLt a x i
  ctxReg := fun a x i => by rw [hact, hreg, (hth i).valid]; exact h.ctxReg a x i
  ctxInj := fun a b x y i => by rw [hact, hact]; exact h.ctxInj a b x y i
  pend := fun a x st hx hex hp => by
    rw [hact] at hx
    obtain ⟨h1, h2, h3⟩ := h.pend a x st hx hex hp
    refine ⟨by rw [hnow]; exact h1, h2, fun i hi r hr => ?_⟩
    rw [(hth i).chain] at hr; exact h3 i hi r hr
  capOK := fun i hi => by rw [(hth i).cap, hcfg]; exact h.capOK i (by rw [← hlen]; exact hi)
  ord := fun hg0 hr0 hp => by
    have hp0 : PremI s := fun i st hst => by
      have := hp i st (by rw [(hth i).acc]; exact hst)
      rwa [hcfg] at this
    have ho := h.ord hg0 hr0 hp0
    exact {
      popSorted := by rw [hpop]; exact ho.popSorted
      above := fun p hp i hi => by rw [(hth i).chain]; rw [hpop] at hp; rw [hreg] at hi; exact ho.above p hp i hi
      popFloor := by rw [hpop]; exact ho.popFloor
      bufFloor := fun i => by rw [(hth i).buf]; exact ho.bufFloor i
      late := fun i hi => by rw [(hth i).buf, (hth i).q]; rw [hreg] at hi; exact ho.late i hi }

/-- the part of the state the invariant can see (whole lists) -/
structure Core where
  cfg : Cfg
  now : Nat
  ths : List Th
  registry : List Nat
  cache : List Nat
  newFlag : Bool
  actors : List Actor
  popLog : List Stmt

def core (s : BSt) : Core := ⟨s.cfg, s.now, s.ths, s.registry, s.cache, s.newFlag, s.actors, s.popLog⟩

theorem PI.frame {ex fl T C} {s s' : BSt} (h : PI c ex fl T C s) (hc : core s' = core s) : PI c ex fl T C s' := by
  have h1 : s'.cfg = s.cfg := congrArg Core.cfg hc
  have h2 : s'.now = s.now := congrArg Core.now hc
  have h3 : s'.ths = s.ths := congrArg Core.ths hc
  have h4 : s'.registry = s.registry := congrArg Core.registry hc
  have h5 : s'.cache = s.cache := congrArg Core.cache hc
  have h6 : s'.newFlag = s.newFlag := congrArg Core.newFlag hc
  have h7 : s'.actors = s.actors := congrArg Core.actors hc
  have h8 : s'.popLog = s.popLog := congrArg Core.popLog hc
  refine h.congr h1 h2 (fun i => ?_) (by rw [h3]) h4 h5 h6 (fun a => ?_) h8
  · have : s'.th i = s.th i := by simp only [BSt.th, h3]
    rw [this]; exact ThEq.refl _
  · simp only [BSt.actor, h7]

@[simp] theorem core_setLg (s : BSt) (i : Nat) (f : Lg → Lg) : core (s.setLg i f) = core s := rfl
@[simp] theorem core_setSink (s : BSt) (i : Nat) (f : Sink → Sink) : core (s.setSink i f) = core s := rfl
@[simp] theorem core_emit (s : BSt) (e : Ev) : core (s.emit e) = core s := rfl

/-- a context update invisible to the invariant -/
theorem PI.setTh_frame {ex fl T C} {s : BSt} (h : PI c ex fl T C s) (i : Nat) (f : Th → Th)
    (hf : ThEq (s.th i) (f (s.th i))) : PI c ex fl T C (s.setTh i f) := by
  refine h.congr rfl rfl (fun j => ?_) (length_setTh s i f) rfl rfl rfl (fun a => rfl) rfl
  rcases th_setTh_cases s i j f with h1 | ⟨rfl, _, h1⟩
  · rw [h1]; exact ThEq.refl _
  · rw [h1]; exact hf

theorem chain_setTh_frame (s : BSt) (i : Nat) (f : Th → Th) (hf : ThEq (s.th i) (f (s.th i))) (j : Nat) :
    chain ((s.setTh i f).th j) = chain (s.th j) := by
  rcases th_setTh_cases s i j f with h1 | ⟨rfl, _, h1⟩
  · rw [h1]
  · rw [h1]; exact hf.chain

theorem PI.weakenT {ex fl T T' C} {s : BSt} (h : PI c ex fl T C s) (hT : ∀ i, T i → T' i) : PI c ex fl T' C s :=
  { h with ord := fun hg0 hr0 hp => { h.ord hg0 hr0 hp with late := fun i hr hi => (h.ord hg0 hr0 hp).late i hr (fun ht => hi (hT i ht)) } }

theorem PI.newFloor {ex fl T C} {s : BSt} (h : PI c ex fl T C s) (fl' : Nat) (h1 : fl ≤ fl')
    (h2 : fl' ≤ s.now - s.cfg.grace) : PI c ex fl' (fun _ => True) C s :=
  { h with
    floorNow := h2
    ord := fun hg0 hr0 hp => { h.ord hg0 hr0 hp with
      popFloor := fun p hpp => Nat.le_trans ((h.ord hg0 hr0 hp).popFloor p hpp) h1
      bufFloor := fun i st hst => Nat.le_trans ((h.ord hg0 hr0 hp).bufFloor i st hst) h1
      late := fun _ _ hi => absurd trivial hi } }

theorem PI.unex {fl T C} {s : BSt} {a : Nat} (h : PI c none fl T C s) : PI c (some a) fl T C s :=
  { h with pend := fun b x st hx _ hp => h.pend b x st hx (by simp) hp }

/-! ### what the queue calls do to the fields the coupling mentions -/

theorem qPrepareWrite_fields (c : Cfg) (q : Spsc.St) (n : Nat) :
    (qPrepareWrite c q n).1.wpos = q.wpos ∧ (qPrepareWrite c q n).1.wHist = q.wHist ∧
    (qPrepareWrite c q n).1.rpos = q.rpos ∧ (qPrepareWrite c q n).1.wcache = q.wcache ∧
    (qPrepareWrite c q n).1.cap = q.cap := by
  simp only [qPrepareWrite, Spsc.absApi, Spsc.apiOps]
  split <;> simp [Spsc.run, Spsc.step]

theorem qFinishCommit_fields (c : Cfg) (q : Spsc.St) (n : Nat) :
    (qFinishCommit c q n).wpos = q.wpos + n ∧ (qFinishCommit c q n).wHist = (q.wpos + n) :: q.wHist ∧
    (qFinishCommit c q n).rpos = q.rpos ∧ (qFinishCommit c q n).wcache = q.wcache ∧
    (qFinishCommit c q n).cap = q.cap := by
  simp [qFinishCommit, Spsc.absApi, Spsc.apiOps, Spsc.run, Spsc.step]

theorem qPrepareRead_fields (c : Cfg) (q : Spsc.St) :
    (qPrepareRead c q).1.wpos = q.wpos ∧ (qPrepareRead c q).1.wHist = q.wHist ∧
    (qPrepareRead c q).1.rpos = q.rpos ∧
    ((qPrepareRead c q).1.wcache = q.wcache ∨ (qPrepareRead c q).1.wcache = (qPrepareRead c q).1.wHist.headD 0) ∧
    (qPrepareRead c q).1.cap = q.cap := by
  simp only [qPrepareRead, Spsc.absApi, Spsc.apiOps]
  split <;> simp [Spsc.run, Spsc.step]

theorem qPrepareRead_true (c : Cfg) (q : Spsc.St) (h : (qPrepareRead c q).2 = true) :
    (qPrepareRead c q).1.wcache ≠ (qPrepareRead c q).1.rpos := by
  simp only [qPrepareRead, Spsc.absApi, Spsc.apiOps, Spsc.apiObs] at h ⊢
  by_cases hw : q.wcache = q.rpos
  · simp only [if_pos hw, Spsc.run, Spsc.step] at h ⊢
    intro he
    have he' : q.wHist.head?.getD 0 = q.rpos := by simpa using he
    simp [he'] at h
  · simp only [if_neg hw, Spsc.run] at h ⊢
    exact hw

theorem qPrepareRead_false (c : Cfg) (q : Spsc.St) (h : (qPrepareRead c q).2 = false) : q.wHist.headD 0 = q.rpos := by
  simp only [qPrepareRead, Spsc.absApi, Spsc.apiOps, Spsc.apiObs] at h
  by_cases hw : q.wcache = q.rpos
  · simp only [if_pos hw, Spsc.run, Spsc.step] at h
    by_cases h2 : q.wHist.head?.getD 0 = q.rpos
    · simpa using h2
    · simp [h2] at h
  · simp [if_neg hw, Spsc.run] at h
    try exact absurd h hw

theorem qEmpty_fields (c : Cfg) (q : Spsc.St) :
    (qEmpty c q).1.wpos = q.wpos ∧ (qEmpty c q).1.wHist = q.wHist ∧ (qEmpty c q).1.rpos = q.rpos ∧
    ((qEmpty c q).1.wcache = q.wcache ∨ (qEmpty c q).1.wcache = (qEmpty c q).1.wHist.headD 0) ∧
    (qEmpty c q).1.cap = q.cap := by
  simp only [qEmpty, Spsc.absApi, Spsc.apiOps]
  split <;> simp [Spsc.run, Spsc.step]

/-- the converse of `qEmpty_true`: with a coherent cached writer position, an empty queue is reported empty -/
theorem qEmpty_of_eq (c : Cfg) (q : Spsc.St) (h1 : q.wHist.headD 0 = q.rpos) (h2 : q.wcache = q.rpos) :
    (qEmpty c q).2 = true := by
  have h1' : q.wHist.head?.getD 0 = q.rpos := by simpa using h1
  simp only [qEmpty, Spsc.absApi, Spsc.apiOps, Spsc.apiObs, if_pos h2, Spsc.run, Spsc.step]
  simp [h1']

theorem qEmpty_true (c : Cfg) (q : Spsc.St) (h : (qEmpty c q).2 = true) : q.wHist.headD 0 = q.rpos := by
  simp only [qEmpty, Spsc.absApi, Spsc.apiOps, Spsc.apiObs] at h
  by_cases hw : q.wcache = q.rpos
  · simp only [if_pos hw, Spsc.run, Spsc.step] at h
    by_cases h2 : q.wHist.head?.getD 0 = q.rpos
    · simpa using h2
    · simp [h2] at h
  · simp [if_neg hw, Spsc.run] at h
    try exact absurd h hw

theorem qFinishRead_fields (c : Cfg) (q : Spsc.St) (n : Nat) :
    (qFinishRead c q n).wpos = q.wpos ∧ (qFinishRead c q n).wHist = q.wHist ∧ (qFinishRead c q n).rpos = q.rpos + n ∧
    (qFinishRead c q n).wcache = q.wcache ∧ (qFinishRead c q n).cap = q.cap := by
  simp [qFinishRead, Spsc.absApi, Spsc.apiOps, Spsc.run, Spsc.step]

theorem qCommitRead_fields (c : Cfg) (q : Spsc.St) :
    (qCommitRead c q).wpos = q.wpos ∧ (qCommitRead c q).wHist = q.wHist ∧ (qCommitRead c q).rpos = q.rpos ∧
    (qCommitRead c q).wcache = q.wcache ∧ (qCommitRead c q).cap = q.cap := by
  simp only [qCommitRead, Spsc.absApi, Spsc.apiOps, Spsc.run, Spsc.step]
  split <;> simp

theorem ThEq.ofQ (t : Th) (q' : Spsc.St) (h : q'.wpos = t.q.wpos ∧ q'.wHist = t.q.wHist ∧ q'.rpos = t.q.rpos ∧
    (q'.wcache = t.q.wcache ∨ q'.wcache = q'.wHist.headD 0) ∧ q'.cap = t.q.cap) : ThEq t { t with q := q' } :=
  ⟨rfl, rfl, rfl, h.1, by simp [h.2.1], h.2.2.1, rfl, h.2.2.2.1, h.2.2.2.2⟩

theorem ThEq.ofQ' (t : Th) (q' : Spsc.St) (h : q'.wpos = t.q.wpos ∧ q'.wHist = t.q.wHist ∧ q'.rpos = t.q.rpos ∧
    q'.wcache = t.q.wcache ∧ q'.cap = t.q.cap) : ThEq t { t with q := q' } :=
  ThEq.ofQ t q' ⟨h.1, h.2.1, h.2.2.1, .inl h.2.2.2.1, h.2.2.2.2⟩

/-- an empty queue is reported empty -/
theorem QC.empty_true {t : Th} (h : QC t) (c : Cfg) (he : t.qStmts = []) : (qEmpty c t.q).2 = true := by
  obtain ⟨k, _, hw⟩ := h.wc
  have hs := h.sum
  rw [he] at hs hw
  simp only [List.map_nil, List.sum_nil, Nat.add_zero, List.take_nil] at hs hw
  exact qEmpty_of_eq c t.q hs hw

end Backend.PB
