import QuillModel.Backend.LiftObsRun
/-!
Runs without static-macro log operations: no actor is ever parked with continuation 5 (`N5`), so no step has the outcome
`Out.drop5`; and the counting invariant of `LiftObsRun.lean` relative to a set of allowed frontend operations (`PdI`).
Helper lemmas only.
-/
namespace Backend.PC
open Backend Backend.PA Spsc

def pendCont : Pend → Option Nat
  | .stall _ c => some c
  | .retry _ c => some c
  | _ => none

/-- no actor is parked in a static-macro log call -/
def N5 (s : BSt) : Prop := ∀ x ∈ s.actors, pendCont x.pend ≠ some 5

/-- `LOG_<LEVEL>` (static level), `LOG_INFO` with a named placeholder, `LOG_BACKTRACE` -/
def isStaticOp : FOp → Bool
  | .log _ _ _ _ dyn => !dyn
  | .logNamed .. => true
  | .logBt .. => true
  | _ => false

theorem N5.of_actors {s s' : BSt} (h : N5 s) (e : s'.actors = s.actors) : N5 s' := by
  intro x hx; rw [e] at hx; exact h x hx

theorem N5.setActor {s : BSt} (h : N5 s) (a : Nat) (f : Actor → Actor)
    (hf : ∀ x, pendCont x.pend ≠ some 5 → pendCont (f x).pend ≠ some 5) : N5 (s.setActor a f) := by
  intro y hy
  obtain ⟨x, hx, rfl⟩ := PA.mem_setActor hy
  split
  · exact hf x (h x hx)
  · exact h x hx

theorem ensureCtx_n5 {s : BSt} (h : N5 s) (a : Nat) : N5 (ensureCtx s a).1 := by
  unfold Backend.ensureCtx
  split
  · exact h
  · exact N5.setActor (s := { s with ths := s.ths ++ [mkTh s.cfg a], registry := s.registry ++ [s.ths.length], newFlag := true })
      (h.of_actors rfl) a _ (fun _ hx => hx)

theorem tryEnq_actors (s : BSt) (ci : Nat) (st : Stmt) : (tryEnq s ci st).1.actors = s.actors := by
  unfold Backend.tryEnq; dsimp only; split <;> rfl

theorem afterEnq_n5 {s : BSt} (h : N5 s) (a : Nat) (st : Stmt) (cont : Nat) : N5 (afterEnq s a st cont).1 := by
  unfold Backend.afterEnq
  split
  · exact h.setActor a _ (fun _ _ => by simp [pendCont])
  · exact h.of_actors rfl
  · exact h
  · exact N5.setActor (s := { s.setLg st.lg (fun l => { l with valid := false }) with hasInvalidLoggers := true })
      (h.of_actors rfl) a _ (fun _ _ => by simp [pendCont])
  · exact h

theorem enqFlow_n5 {s : BSt} (h : N5 s) (a : Nat) (st : Stmt) (cont : Nat) (first initial : Bool) (hc : cont ≠ 5) :
    N5 (enqFlow s a st cont first initial).1 := by
  have h2 : N5 (tryEnq (ensureCtx s a).1 (ensureCtx s a).2 st).1 := (ensureCtx_n5 h a).of_actors (tryEnq_actors ..)
  have hb : ∀ y : BSt, y.actors = (tryEnq (ensureCtx s a).1 (ensureCtx s a).2 st).1.actors → N5 y :=
    fun y e => h2.of_actors e
  have hnone : ∀ x : Actor, pendCont x.pend ≠ some 5 → pendCont ({ x with pend := Pend.none } : Actor).pend ≠ some 5 :=
    fun _ _ => by simp [pendCont]
  have hretry : ∀ x : Actor, pendCont x.pend ≠ some 5 → pendCont ({ x with pend := Pend.retry st cont } : Actor).pend ≠ some 5 :=
    fun _ _ => by simp [pendCont, hc]
  unfold Backend.enqFlow
  simp only []
  split
  · exact afterEnq_n5 (h2.setActor a _ hnone) a st cont
  · split
    · split
      · exact N5.setActor (hb _ (by split <;> rfl)) a _ hnone
      · exact N5.setActor (hb _ (by split <;> rfl)) a _ hretry
    · exact N5.setActor (hb _ (by split <;> (try split) <;> rfl)) a _ hretry

theorem frontCall_n5 {s : BSt} (h : N5 s) (a lgi : Nat) (kind : Kind) (lvl len cont : Nat) (dyn : Bool) (id : Nat)
    (named : Bool) (hc : cont ≠ 5) : N5 (frontCall s a lgi kind lvl len cont dyn id named).1 := by
  unfold Backend.frontCall
  simp only []
  split
  · exact h.setActor a _ (fun _ _ => by simp [pendCont, hc])
  · exact enqFlow_n5 h a _ cont true true hc

theorem resume_n5 {s : BSt} (h : N5 s) (a : Nat) : N5 (resume s a).1 := by
  cases hx : s.actor a with
  | none =>
    have hr : resume s a = (s, "noop") := by unfold Backend.resume; simp [hx]
    rw [hr]; exact h
  | some x =>
    have hw := h x (List.mem_of_find?_eq_some hx)
    cases hp : x.pend with
    | none =>
      have hr : resume s a = (s, "noop") := by unfold Backend.resume; simp [hx, hp]
      rw [hr]; exact h
    | stall st c =>
      have hr : resume s a = enqFlow s a st c true false := by unfold Backend.resume; simp [hx, hp]
      rw [hr]
      exact enqFlow_n5 h a st c true false (by rw [hp] at hw; simpa [pendCont] using hw)
    | retry st c =>
      have hc : c ≠ 5 := by rw [hp] at hw; simpa [pendCont] using hw
      unfold Backend.resume
      simp only [hx, Option.map_some, hp]
      split
      · exact enqFlow_n5 h a _ c true false hc
      · exact enqFlow_n5 h a _ c false false hc
    | flag f =>
      have hr : resume s a = if s.flags.contains f then (s.setActor a (fun x => { x with pend := .none }), "done")
          else (s, "parked:sleep") := by unfold Backend.resume; simp [hx, hp]
      rw [hr]
      split
      · exact h.setActor a _ (fun _ _ => by simp [pendCont])
      · exact h

theorem withLogger_n5 {s : BSt} (h : N5 s) (a g : Nat) (k : Nat → BSt × String) (hk : ∀ lgi, N5 (k lgi).1) :
    N5 (withLogger s a g k).1 := by
  unfold Backend.withLogger
  split
  · exact (hk _).setActor a _ (fun _ hx => hx)
  · exact h

theorem reapSinks_actors (sids : List Nat) (s : BSt) : (reapSinks s sids).actors = s.actors :=
  congrArg (·.2.2.1) (vw_reapSinks sids s)

theorem front_n5 {s : BSt} (h : N5 s) (f : FOp) (hf : isStaticOp f = false) : N5 (applyFront s f).1 := by
  cases f <;> simp only [applyFront]
  case tick => exact h.of_actors rfl
  case tstart a =>
    split
    · exact h
    · intro x hx
      rcases List.mem_append.mp hx with hx | hx
      · exact h x hx
      · simp only [List.mem_singleton] at hx
        subst hx; simp [pendCont]
  case texit a =>
    split
    · exact h
    · have h1 : N5 (s.setActor a (fun x => { x with alive := false })) := h.setActor a _ (fun _ hx => hx)
      split
      · exact h1.of_actors rfl
      · exact h1
  case resume a =>
    have hr := resume_n5 h a
    split
    · exact hr
    · split
      · exact hr
      · exact hr.setActor a _ (fun _ hx => hx)
  case armStall a =>
    split
    · exact h.setActor a _ (fun _ hx => hx)
    · exact h
  case log a g lvl len dyn =>
    cases dyn
    · cases hf
    · apply withLogger_n5 h
      intro lgi
      split
      · exact frontCall_n5 (s := { s with nextId := s.nextId + 1 }) (h.of_actors rfl) a lgi .log lvl len 0 true s.nextId false
          (by decide)
      · exact h.of_actors rfl
  case logNamed => cases hf
  case logBt => cases hf
  case initBt a g cap fl =>
    apply withLogger_n5 h; intro lgi
    exact frontCall_n5 h a lgi _ 8 0 2 false 0 false (by decide)
  case flushBt a g =>
    apply withLogger_n5 h; intro lgi
    exact frontCall_n5 h a lgi _ 8 0 3 false 0 false (by decide)
  case flush a g =>
    apply withLogger_n5 h; intro lgi
    exact frontCall_n5 (s := { s with nextFlag := s.nextFlag + 1 }) (h.of_actors rfl) a lgi _ 8 0 1 false 0 false (by decide)
  case removeBlocking a g =>
    split
    · exact h
    · apply withLogger_n5 h; intro lgi
      exact frontCall_n5 (s := dropName { s with nextFlag := s.nextFlag + 1 } g) (h.of_actors rfl) a lgi _ 8 0 4 false 0 false
        (by decide)
  case remove a g =>
    split
    · exact h
    · split
      · exact h.of_actors rfl
      · exact h
  case create a g sl =>
    split
    · exact h
    · split
      · split
        · exact h
        · exact h.of_actors rfl
      · exact h.of_actors rfl
  case setLevel g lvl =>
    split
    · exact h.of_actors rfl
    · exact h
  case setSinkLevel sid lvl =>
    split
    · exact h.of_actors rfl
    · exact h
  case dropSink sid => exact h.of_actors (reapSinks_actors _ _)
  case query => exact h

/-- a non-static operation in a state where nobody is parked in a static call does not run with continuation 5 -/
theorem contOf_ne5 {s : BSt} (h : N5 s) (f : FOp) (hf : isStaticOp f = false) : contOf s f ≠ 5 := by
  cases f <;> simp only [contOf] <;> try decide
  case resume a =>
    cases hx : s.actor a with
    | none => simp
    | some x =>
      have hw := h x (List.mem_of_find?_eq_some hx)
      simp only [Option.map_some]
      cases hp : x.pend <;> rw [hp] at hw <;> simp [pendCont] at hw ⊢ <;> exact hw
  case log a g lvl len dyn =>
    cases dyn
    · cases hf
    · decide
  case logNamed => cases hf
  case logBt => cases hf

/-- no static-macro log operation, neither at top level nor in an injection table -/
def opOK : Op → Bool
  | .front f => !isStaticOp f
  | .poll table => table.all (fun e => e.2.2.all (fun f => !isStaticOp f))
  | .exit => true

/-- the `ret=0` count invariant together with `N5` -/
def P0 (c : Nat) (s : BSt) : Prop := Pd (fun d _ => d) isRet0Obs c s ∧ N5 s

theorem out_ret0 {c d a d' a' : Nat} {t : String} (h : Out c d a d' a' t) (h5 : c ≠ 5) : d' = d + wt isRet0Obs t := by
  cases h with
  | quiet hd _ hq => rw [wt_false (quiet_cls hq).2.1, hd]; rfl
  | acc hd _ hc ht =>
    obtain ⟨st, hsz, rfl⟩ := ht
    rw [wt_false (acc_cls st c hc hsz).2.1, hd]; rfl
  | drop0 hd _ _ ht => obtain ⟨n, rfl⟩ := ht; rw [wt_true (drop0_cls n).2.1, hd]
  | drop5 _ _ hc _ => exact absurd hc h5

theorem P0.congr {c : Nat} {s s' : BSt} (hv : vw s' = vw s) (h : P0 c s) : P0 c s' :=
  ⟨Pd.congr hv h.1, h.2.of_actors (congrArg (·.2.2.1) hv)⟩

theorem P0.closedC (c : Nat) : ClosedC (P0 c) :=
  ClosedC.of_iff (P := fun s => (fun v => ∃ x, vw x = v ∧ P0 c x) (vw s))
    (fun s => ⟨fun ⟨_, hx, hp⟩ => P0.congr hx.symm hp, fun hp => ⟨s, rfl, hp⟩⟩)
    (closedC_of_vw (fun v => ∃ x, vw x = v ∧ P0 c x))

theorem P0.step {c : Nat} {s : BSt} (h : P0 c s) (f : FOp) (hf : isStaticOp f = false) :
    P0 (c + wt isRet0Obs (applyFront s f).2) (applyFront s f).1 := by
  have st := front_step s f h.1.1 h.1.2.1
  refine ⟨⟨st.drp.trans h.1.1, st.aok, ?_⟩, front_n5 h.2 f hf⟩
  have e := out_ret0 st.out (contOf_ne5 h.2 f hf)
  have e0 : dsum s = cntT isRet0Obs (injT s.log) + c := h.1.2.2
  show dsum (applyFront s f).1 = cntT isRet0Obs (injT (applyFront s f).1.log) + (c + wt isRet0Obs (applyFront s f).2)
  rw [e, st.log, e0]; omega

theorem P0.injStep {c : Nat} {s : BSt} (h : P0 c s) (site k : Nat) (f : FOp) (hf : isStaticOp f = false) :
    P0 c (injStep site k s f) := by
  have h1 : P0 (c + wt isRet0Obs (injRes site s f).2) (injRes site s f).1 := by
    unfold injRes
    split
    · rw [wt_false (by decide : isRet0Obs "noop" = false)]; exact h
    · exact h.step f hf
  refine ⟨⟨h1.1.1, h1.1.2.1.of_eq rfl (Nat.le_refl _), ?_⟩, h1.2.of_actors rfl⟩
  have e : dsum (injRes site s f).1 =
      cntT isRet0Obs (injT (injRes site s f).1.log) + (c + wt isRet0Obs (injRes site s f).2) := h1.1.2.2
  show dsum (injRes site s f).1 = cntT isRet0Obs ((injRes site s f).2 :: injT (injRes site s f).1.log) + c
  rw [e]; simp only [cntT]; omega

theorem P0.injOK {c : Nat} (table : List (Nat × Nat × List FOp))
    (ht : table.all (fun e => e.2.2.all (fun f => !isStaticOp f)) = true) : InjOK (P0 c) (runInj table) := by
  intro s site h
  refine ⟨?_, runInj_popLog table s site, fun h9 => by rw [h9]; exact runInj_lgMono9 table s⟩
  rw [runInj_eq]
  have h1 : P0 c ({ s with siteCnt := (site, siteK s site) :: s.siteCnt.filter (·.1 ≠ site) } : BSt) := P0.congr rfl h
  split
  · exact h1
  · rename_i a b ops hfind
    have hm := List.mem_of_find?_eq_some hfind
    have hops : ∀ f ∈ ops, isStaticOp f = false := by
      intro f hf
      have := List.all_eq_true.mp ht _ hm
      have := List.all_eq_true.mp this f hf
      simpa using this
    have : ∀ (l : List FOp) (x : BSt), (∀ f ∈ l, isStaticOp f = false) → P0 c x →
        P0 c (l.foldl (PC.injStep site (siteK s site)) x) := by
      intro l
      induction l with
      | nil => intro x _ hx; exact hx
      | cons f fs ih =>
        intro x hl hx
        exact ih _ (fun g hg => hl g (List.mem_cons_of_mem _ hg)) (hx.injStep site _ f (hl f List.mem_cons_self))
    exact this ops _ hops h1

theorem P0.applyOp {c : Nat} {s : BSt} (h : P0 c s) (o : Op) (ho : opOK o = true) :
    P0 (c + wt isRet0Obs (applyOp s o).2) (applyOp s o).1 := by
  have hev : wt isRet0Obs "ev" = 0 := wt_false (by decide)
  have hno : wt isRet0Obs "noop" = 0 := wt_false (by decide)
  cases o with
  | front f => exact h.step f (by simpa [opOK] using ho)
  | poll table =>
    simp only [Backend.applyOp]
    split
    · rw [hno]; exact h
    · rw [hev]
      exact poll_okC (P0.closedC c) (P0.injOK table ho) _ (P0.congr (s := s) rfl h)
  | exit =>
    simp only [Backend.applyOp]
    split
    · rw [hno]; exact h
    · rw [hev]
      exact (P0.closedC c).gone _ (exitLoop_okC (P0.closedC c) (P0.injOK [] rfl) _ _ _ (P0.congr (s := s) rfl h))

theorem P0.run : ∀ (ops : List Op) (c : Nat) (s : BSt), (∀ o ∈ ops, opOK o = true) → P0 c s →
    P0 (c + cntT isRet0Obs (runObs s ops).2) (runOps s ops)
  | [], _, _, _, h => h
  | o :: os, c, s, hall, h => by
    have h1 := P0.run os _ _ (fun o' ho' => hall o' (List.mem_cons_of_mem _ ho')) (h.applyOp o (hall o List.mem_cons_self))
    show P0 (c + (wt isRet0Obs (Backend.applyOp s o).2 + cntT isRet0Obs (runObs (Backend.applyOp s o).1 os).2))
      (runOps (Backend.applyOp s o).1 os)
    rw [← Nat.add_assoc]; exact h1

end Backend.PC
