import QuillModel.Backend.ConsProofsBasics
/-!
What the bounded-queue calls of the backend model do to the fields the conservation invariant reads
(`wpos`, `rpos`, newest published writer position, `recs`, `nread`), and the coherence predicate `QCoh`
between a context's abstract record list `qStmts` and the byte-exact queue state `q`.
-/
namespace Backend.PA
open Backend Spsc

/-- the fields of the queue state that the coherence invariant reads -/
structure QSame (q q' : St) : Prop where
  wpos : q'.wpos = q.wpos
  rpos : q'.rpos = q.rpos
  wh : q'.wHist = q.wHist
  recs : q'.recs = q.recs
  nread : q'.nread = q.nread

theorem QSame.refl (q : St) : QSame q q := ⟨rfl, rfl, rfl, rfl, rfl⟩

theorem qPrepareWrite_same (c : Cfg) (q : St) (n : Nat) : QSame q (qPrepareWrite c q n).1 := by
  simp only [qPrepareWrite, absApi, apiOps]
  split <;> constructor <;> rfl

theorem qPrepareRead_same (c : Cfg) (q : St) : QSame q (qPrepareRead c q).1 := by
  simp only [qPrepareRead, absApi, apiOps]
  split <;> constructor <;> rfl

theorem qEmpty_same (c : Cfg) (q : St) : QSame q (qEmpty c q).1 := by
  simp only [qEmpty, absApi, apiOps]
  split <;> constructor <;> rfl

theorem qCommitRead_same (c : Cfg) (q : St) : QSame q (qCommitRead c q) := by
  simp only [qCommitRead, absApi, apiOps, run, step]
  split <;> constructor <;> rfl

/-- `empty()` answers `true` only when the newest published writer position equals the reader position -/
theorem qEmpty_true (c : Cfg) (q : St) (h : (qEmpty c q).2 = true) : q.wHist.headD 0 = q.rpos := by
  simp only [qEmpty, absApi, apiOps, apiObs] at h
  split at h
  · next hw => simpa [run, step] using h
  · next hw => simp [run] at h; exact absurd (of_decide_eq_true h) hw

theorem qFinishCommit_fields (c : Cfg) (q : St) (n : Nat) :
    (qFinishCommit c q n).wpos = q.wpos + n ∧ (qFinishCommit c q n).rpos = q.rpos ∧
    (qFinishCommit c q n).wHist = (q.wpos + n) :: q.wHist ∧ (qFinishCommit c q n).recs = q.recs ++ [n] ∧
    (qFinishCommit c q n).nread = q.nread := by
  simp [qFinishCommit, absApi, apiOps, run, step]

theorem qFinishRead_fields (c : Cfg) (q : St) (n : Nat) :
    (qFinishRead c q n).wpos = q.wpos ∧ (qFinishRead c q n).rpos = q.rpos + n ∧
    (qFinishRead c q n).wHist = q.wHist ∧ (qFinishRead c q n).recs = q.recs ∧
    (qFinishRead c q n).nread = q.nread + 1 := by
  simp [qFinishRead, absApi, apiOps, run, step]

/-- coherence between the abstract record list and the byte-exact queue state: the newest published
    writer position is the writer position (records are committed as soon as they are finished), the
    distance writer − reader is the total size of the pending records, the records written but not yet
    finished by the reader are exactly the pending ones (by size), and no record is empty -/
structure QCoh (q : St) (pending : List Stmt) : Prop where
  pub : q.wHist.headD 0 = q.wpos
  dist : q.wpos = q.rpos + (pending.map (·.size)).sum
  nle : q.nread ≤ q.recs.length
  recs : q.recs.drop q.nread = pending.map (·.size)
  pos : ∀ st ∈ pending, 0 < st.size

theorem QCoh.of_same {q q' : St} {l : List Stmt} (h : QCoh q l) (e : QSame q q') : QCoh q' l :=
  ⟨by rw [e.wh, e.wpos]; exact h.pub, by rw [e.wpos, e.rpos]; exact h.dist,
   by rw [e.recs, e.nread]; exact h.nle, by rw [e.recs, e.nread]; exact h.recs, h.pos⟩

theorem sum_pos_of_mem {l : List Stmt} (hp : ∀ st ∈ l, 0 < st.size) (hs : (l.map (·.size)).sum = 0) : l = [] := by
  cases l with
  | nil => rfl
  | cons x xs =>
    have := hp x (by simp)
    simp at hs; omega

/-- the queue reports empty ⇒ nothing is pending -/
theorem QCoh.empty {c : Cfg} {q : St} {l : List Stmt} (h : QCoh q l) (he : (qEmpty c q).2 = true) : l = [] := by
  have h1 := qEmpty_true c q he
  have h2 := h.pub
  have h3 := h.dist
  exact sum_pos_of_mem h.pos (by omega)

theorem QCoh.init (cap batch : Nat) : QCoh (Spsc.init cap batch) [] :=
  ⟨rfl, rfl, Nat.le_refl _, rfl, by simp⟩

theorem QCoh.enq {c : Cfg} {q : St} {l : List Stmt} (h : QCoh q l) (st : Stmt) (hp : 0 < st.size) :
    QCoh (qFinishCommit c q st.size) (l ++ [st]) := by
  obtain ⟨e1, e2, e3, e4, e5⟩ := qFinishCommit_fields c q st.size
  refine ⟨by rw [e3, e1]; rfl, ?_, ?_, ?_, ?_⟩
  · rw [e1, e2, h.dist]; simp; omega
  · rw [e4, e5]; have := h.nle; simp; omega
  · rw [e4, e5, List.drop_append_of_le_length h.nle, h.recs]; simp
  · intro x hx
    rcases List.mem_append.mp hx with hx | hx
    · exact h.pos x hx
    · simp at hx; rw [hx]; exact hp

theorem QCoh.read {c : Cfg} {q : St} {st : Stmt} {rest : List Stmt} (h : QCoh q (st :: rest)) :
    QCoh (qFinishRead c q st.size) rest := by
  obtain ⟨e1, e2, e3, e4, e5⟩ := qFinishRead_fields c q st.size
  have hr := h.recs
  have hlt : q.nread < q.recs.length := by
    by_cases hh : q.nread < q.recs.length
    · exact hh
    · rw [List.drop_eq_nil_of_le (by omega)] at hr; simp at hr
  refine ⟨by rw [e3, e1]; exact h.pub, ?_, by rw [e4, e5]; omega, ?_, fun x hx => h.pos x (by simp [hx])⟩
  · rw [e1, e2, h.dist]; simp; omega
  · rw [e4, e5, ← List.drop_drop, hr]; simp

end Backend.PA
