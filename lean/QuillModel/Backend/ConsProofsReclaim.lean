import QuillModel.Backend.ConsProofsIdle
/-!
`InvR`: a reclaimed context has a zero failure counter (all its refused calls were reported). This file: the parts
that do not depend on how the clean-up establishes it — preservation by every frontend operation (a refused call
bumps only the counter of a live thread's context, which is valid, hence not reclaimed) and by the backend
primitives other than the removal itself.
-/
namespace Backend.PA
open Backend Spsc

structure InvR (s : BSt) : Prop where
  zero : ∀ i, (s.th i).removed = true → (s.th i).fail = 0

theorem InvR.of_ths {s s' : BSt} (h : InvR s) (e : s'.ths = s.ths) : InvR s' :=
  ⟨fun i => by rw [th_of_ths_eq e]; exact h.zero i⟩

/-- an update of one context that keeps `removed` and does not raise `fail` of a removed context -/
theorem InvR.setTh {s : BSt} (h : InvR s) (i : Nat) (f : Th → Th)
    (hf : (f (s.th i)).removed = true → (s.th i).removed = true ∧ (f (s.th i)).fail ≤ (s.th i).fail) :
    InvR (s.setTh i f) := by
  refine ⟨fun j hj => ?_⟩
  rw [th_setTh] at hj ⊢
  split at hj
  · next hc =>
    rw [if_pos hc]
    rw [hc.1] at hj ⊢
    obtain ⟨a, b⟩ := hf hj
    have := h.zero i a; omega
  · next hc => rw [if_neg hc]; exact h.zero j hj

theorem InvR.setTh_same {s : BSt} (h : InvR s) (i : Nat) (f : Th → Th)
    (hf : ∀ t, (f t).removed = t.removed ∧ (f t).fail = t.fail) : InvR (s.setTh i f) :=
  h.setTh i f (fun hr => ⟨(hf _).1 ▸ hr, by rw [(hf _).2]; exact Nat.le_refl _⟩)

theorem InvR.ensureCtx {s : BSt} (h : InvR s) (a : Nat) : InvR (ensureCtx s a).1 := by
  unfold Backend.ensureCtx
  split
  · exact h
  · refine ⟨fun j hj => ?_⟩
    rw [setActor_th, th_append] at hj ⊢
    split at hj
    · simp [mkTh] at hj
    · next hc => rw [if_neg hc]; exact h.zero j hj

theorem InvR.tryEnq {s : BSt} (h : InvR s) (ci : Nat) (st : Stmt) : InvR (tryEnq s ci st).1 := by
  unfold Backend.tryEnq
  dsimp only
  split <;> exact h.setTh_same ci _ (fun _ => ⟨rfl, rfl⟩)

theorem tryEnq_removed (s : BSt) (ci : Nat) (st : Stmt) (j : Nat) :
    ((tryEnq s ci st).1.th j).removed = (s.th j).removed := by
  unfold Backend.tryEnq
  dsimp only
  split <;> (rw [th_setTh]; split <;> simp_all)

theorem afterEnq_ths (s : BSt) (a : Nat) (st : Stmt) (cont : Nat) : (afterEnq s a st cont).1.ths = s.ths := by
  unfold Backend.afterEnq
  split <;> rfl

theorem InvR.enqFlow {s : BSt} (hA : InvA s) (h : InvR s) (a : Nat) (st : Stmt) (cont : Nat) (first initial : Bool) :
    InvR (enqFlow s a st cont first initial).1 := by
  unfold Backend.enqFlow
  obtain ⟨hA1, hv⟩ := hA.ensureCtx a
  have h1 := h.ensureCtx a
  generalize Backend.ensureCtx s a = e at hA1 hv h1 ⊢
  obtain ⟨s1, ci⟩ := e
  dsimp only at hA1 hv h1 ⊢
  have hnr : (s1.th ci).removed = false := by
    cases hr : (s1.th ci).removed with
    | false => rfl
    | true => have := ((hA1.th ci).rem hr).1; rw [hv] at this; cases this
  have h2 := h1.tryEnq ci st
  have hnr2 : ((Backend.tryEnq s1 ci st).1.th ci).removed = false := by rw [tryEnq_removed]; exact hnr
  generalize Backend.tryEnq s1 ci st = e2 at h2 hnr2 ⊢
  obtain ⟨s2, ok⟩ := e2
  dsimp only at h2 hnr2 ⊢
  have hset : ∀ (s3 : BSt) (f : Actor → Actor), InvR s3 → InvR (s3.setActor a f) := fun s3 f h3 => h3.of_ths rfl
  have hbump : ∀ (f : Th → Th), (∀ t, (f t).removed = t.removed) → InvR (if isLogKind st.kind = true then s2.setTh ci f else s2) := by
    intro f hf
    split
    · exact h2.setTh ci f (fun hr => by rw [hf, hnr2] at hr; cases hr)
    · exact h2
  split
  · exact InvR.of_ths (hset s2 _ h2) (afterEnq_ths _ a st cont)
  · split
    · split
      · exact hset _ _ (hbump _ (fun _ => rfl))
      · exact hset _ _ (hbump _ (fun _ => rfl))
    · apply hset
      split
      · exact hbump _ (fun _ => rfl)
      · exact h2

/-- the two invariants together (the second needs the first: the context a call enqueues to is valid) -/
structure InvAR (s : BSt) : Prop where
  a : InvA s
  r : InvR s

theorem InvAR.frontCall {s : BSt} (h : InvAR s) (a lgi : Nat) (kind : Kind) (lvl len cont : Nat) (dyn : Bool) (id : Nat)
    (named : Bool) : InvAR (frontCall s a lgi kind lvl len cont dyn id named).1 := by
  refine ⟨h.a.frontCall .., ?_⟩
  unfold Backend.frontCall
  dsimp only
  split
  · exact h.r.of_ths rfl
  · exact h.r.enqFlow h.a ..

theorem InvAR.resume {s : BSt} (h : InvAR s) (a : Nat) : InvAR (resume s a).1 := by
  refine ⟨h.a.resume a, ?_⟩
  unfold Backend.resume
  split
  · exact h.r.enqFlow h.a ..
  · split <;> exact h.r.enqFlow h.a ..
  · split
    · exact h.r.of_ths rfl
    · exact h.r
  · exact h.r

theorem InvR.withLogger {s : BSt} (h : InvR s) (a gid : Nat) (k : Nat → BSt × String)
    (hk : ∀ lgi, InvR (k lgi).1) : InvR (withLogger s a gid k).1 := by
  unfold Backend.withLogger
  split
  · exact (hk _).of_ths rfl
  · exact h

theorem InvAR.front {s : BSt} (h : InvAR s) (f : FOp) : InvAR (applyFront s f).1 := by
  refine ⟨h.a.front f, ?_⟩
  have hr := h.r
  have hmk : ∀ s' : BSt, s'.cfg = s.cfg → s'.ths = s.ths → s'.actors = s.actors → s'.registry = s.registry → InvAR s' :=
    fun s' h1 h2 h3 h4 => ⟨h.a.of_eq h1 h2 h3 (fun _ hi => h4 ▸ hi), hr.of_ths h2⟩
  cases f with
  | tick dt => exact hr.of_ths rfl
  | tstart a => simp only [applyFront]; split <;> first | exact hr | exact hr.of_ths rfl
  | texit a =>
    simp only [applyFront]
    split
    · exact hr
    · split
      · next i _ =>
        have h1 : InvR (s.setActor a (fun x => { x with alive := false })) := hr.of_ths rfl
        exact InvR.of_ths (h1.setTh_same i (fun t => { t with valid := false }) (fun _ => ⟨rfl, rfl⟩)) rfl
      · exact hr.of_ths rfl
  | resume a =>
    simp only [applyFront]
    have h1 := (h.resume a).r
    split
    · exact h1
    · split
      · exact h1
      · exact h1.of_ths rfl
  | armStall a => simp only [applyFront]; split <;> first | exact hr | exact hr.of_ths rfl
  | log a g lvl len dyn =>
    simp only [applyFront]
    apply hr.withLogger
    intro lgi
    have h1 : InvAR ({ s with nextId := s.nextId + 1 } : BSt) := hmk _ rfl rfl rfl rfl
    split
    · exact (h1.frontCall ..).r
    · exact h1.r
  | logNamed a g len =>
    simp only [applyFront]
    apply hr.withLogger
    intro lgi
    have h1 : InvAR ({ s with nextId := s.nextId + 1 } : BSt) := hmk _ rfl rfl rfl rfl
    split
    · exact (h1.frontCall ..).r
    · exact h1.r
  | logBt a g len =>
    simp only [applyFront]
    apply hr.withLogger
    intro lgi
    have h1 : InvAR ({ s with nextId := s.nextId + 1 } : BSt) := hmk _ rfl rfl rfl rfl
    split
    · exact (h1.frontCall ..).r
    · exact h1.r
  | initBt a g cap fl => simp only [applyFront]; exact hr.withLogger _ _ _ (fun lgi => (h.frontCall ..).r)
  | flushBt a g => simp only [applyFront]; exact hr.withLogger _ _ _ (fun lgi => (h.frontCall ..).r)
  | flush a g =>
    simp only [applyFront]
    apply hr.withLogger
    intro lgi
    have h1 : InvAR ({ s with nextFlag := s.nextFlag + 1 } : BSt) := hmk _ rfl rfl rfl rfl
    exact (h1.frontCall ..).r
  | removeBlocking a g =>
    simp only [applyFront]
    split
    · exact hr
    · apply hr.withLogger
      intro lgi
      have h1 : InvAR (dropName { s with nextFlag := s.nextFlag + 1 } g) := hmk _ rfl rfl rfl rfl
      exact (h1.frontCall ..).r
  | remove a g =>
    simp only [applyFront]
    split
    · exact hr
    · split
      · exact hr.of_ths rfl
      · exact hr
  | create a g sl =>
    simp only [applyFront]
    split
    · exact hr
    · split
      · split
        · exact hr
        · exact hr.of_ths rfl
      · exact hr.of_ths rfl
  | setLevel g lvl => simp only [applyFront]; split <;> first | exact hr | exact hr.of_ths rfl
  | setSinkLevel sid lvl => simp only [applyFront]; split <;> first | exact hr | exact hr.of_ths rfl
  | dropSink sid =>
    simp only [applyFront]
    exact InvR.of_ths hr (reapSinks_frame (s.setSink sid (fun k => { k with userRef := false })) [sid]).ths
  | query => exact hr

end Backend.PA

namespace Backend.PA
open Backend Spsc

theorem InvR.of_th {s s' : BSt} (h : InvR s)
    (e : ∀ j, (s'.th j).removed = (s.th j).removed ∧ (s'.th j).fail = (s.th j).fail) : InvR s' :=
  ⟨fun j hj => by rw [(e j).2]; exact h.zero j ((e j).1 ▸ hj)⟩

theorem readOne_rf (s : BSt) (i : Nat) (st : Stmt) (rest : List Stmt) (j : Nat) :
    ((readOne s i st rest).th j).removed = (s.th j).removed ∧ ((readOne s i st rest).th j).fail = (s.th j).fail := by
  have e1 : ∀ j, ((s.setTh i (fun t => { t with q := (qPrepareRead s.cfg (s.th i).q).1 })).th j).removed = (s.th j).removed ∧
      ((s.setTh i (fun t => { t with q := (qPrepareRead s.cfg (s.th i).q).1 })).th j).fail = (s.th j).fail := by
    intro j; rw [th_setTh]; split <;> exact ⟨rfl, rfl⟩
  have key : ∀ s2 : BSt, (∀ j, (s2.th j).removed = (s.th j).removed ∧ (s2.th j).fail = (s.th j).fail) →
      ((s2.setTh i (fun t => { t with q := qFinishRead s2.cfg t.q st.size, qStmts := rest, buf := t.buf ++ [st] })).th j).removed =
        (s.th j).removed ∧
      ((s2.setTh i (fun t => { t with q := qFinishRead s2.cfg t.q st.size, qStmts := rest, buf := t.buf ++ [st] })).th j).fail =
        (s.th j).fail := by
    intro s2 h2
    rw [th_setTh]; split
    · exact h2 j
    · exact h2 j
  unfold PA.readOne
  dsimp only
  split
  · exact key _ (fun j => e1 j)
  · exact key _ e1

theorem popStep_rf (s : BSt) (i : Nat) (st : Stmt) (rest : List Stmt) (j : Nat) :
    ((popStep s i st rest).th j).removed = (s.th j).removed ∧ ((popStep s i st rest).th j).fail = (s.th j).fail := by
  have c := processEvent_core s st
  have key : ∀ s2 : BSt, s2.ths = s.ths →
      (({ s2.setTh i (fun t => { t with buf := rest, popped := t.popped ++ [st] }) with popLog := st :: s2.popLog } : BSt).th j).removed =
        (s.th j).removed ∧
      (({ s2.setTh i (fun t => { t with buf := rest, popped := t.popped ++ [st] }) with popLog := st :: s2.popLog } : BSt).th j).fail =
        (s.th j).fail := by
    intro s2 h2
    show ((s2.setTh i _).th j).removed = _ ∧ ((s2.setTh i _).th j).fail = _
    rw [th_setTh, th_of_ths_eq h2]; split <;> exact ⟨rfl, rfl⟩
  unfold popStep
  dsimp only
  split
  · exact key _ c.ths
  · exact key _ c.ths

/-- the repaired clean-up (`cleanupKeepsUnreported`) together with the two invariants -/
structure InvK (s : BSt) : Prop where
  flag : s.cfg.cleanupKeepsUnreported = true
  a : InvA s
  r : InvR s

theorem InvK.closed : Closed InvK where
  frame := fun s s' h f => ⟨f.cfg ▸ h.flag, h.a.frame f, h.r.of_ths f.ths⟩
  refresh := fun s h => by
    refine ⟨?_, h.a.refresh, ?_⟩
    · unfold refreshCache; split <;> exact h.flag
    · unfold refreshCache; split
      · exact h.r.of_ths rfl
      · exact h.r
  ctxEmpty := fun s i h => ⟨h.flag, h.a.ctxEmpty i, by
    rw [ctxEmpty_fst]; exact h.r.setTh_same i _ (fun _ => ⟨rfl, rfl⟩)⟩
  dropCtx := fun s i h hv he hz => by
    refine ⟨h.flag, h.a.dropCtx i hv he, ?_⟩
    unfold PA.dropCtx
    have h1 : InvR (ctxEmpty s i).1 := by
      rw [ctxEmpty_fst]; exact h.r.setTh_same i _ (fun _ => ⟨rfl, rfl⟩)
    have hf1 : ((ctxEmpty s i).1.th i).fail = 0 := by
      rw [ctxEmpty_fst, th_setTh]; split <;> exact hz h.flag
    refine ⟨fun j hj => ?_⟩
    rw [th_setTh] at hj ⊢
    split
    · next hc => rw [hc.1]; exact hf1
    · next hc => rw [if_neg hc] at hj; exact h1.zero j hj
  prepRead := fun s i h => ⟨h.flag, InvA.closed.prepRead s i h.a, h.r.setTh_same i _ (fun _ => ⟨rfl, rfl⟩)⟩
  commitRead := fun s i h => ⟨h.flag, InvA.closed.commitRead s i h.a, h.r.setTh_same i _ (fun _ => ⟨rfl, rfl⟩)⟩
  readOne := fun s i st rest h hq hr => by
    refine ⟨?_, h.a.readOne i st rest hq, h.r.of_th (readOne_rf s i st rest)⟩
    unfold PA.readOne; dsimp only; split <;> exact h.flag
  pop := fun s i st rest h hb => by
    have c := processEvent_core s st
    refine ⟨?_, h.a.pop i st rest hb, h.r.of_th (popStep_rf s i st rest)⟩
    unfold popStep; dsimp only; split <;> exact c.cfg ▸ h.flag
  failReset := fun s i h _ => by
    refine ⟨h.flag, h.a.failReset i, ?_⟩
    unfold PA.failReset
    exact InvR.of_ths (h.r.setTh i (fun t => { t with fail := 0 }) (fun hr => ⟨hr, Nat.zero_le _⟩)) rfl
  front := fun s f h => by
    have := InvAR.front ⟨h.a, h.r⟩ f
    exact ⟨(applyFront_ffr s f).cfg ▸ h.flag, this.a, this.r⟩

end Backend.PA
