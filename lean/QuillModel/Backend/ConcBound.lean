import QuillModel.Backend.ConcProgress
import QuillModel.Backend.FlushStep
import QuillModel.Backend.OrdTop
import QuillModel.Backend.ConsProofsPop
/-!
# How many events can be popped before a given pending record (helper lemmas for C06 / C09 progress under concurrency)

Under the hypotheses of C05 (ordering enabled, repaired refresh order, the grace premise) nothing overtakes a pending record:
while `st` is pending, every event in the pop history has a timestamp `≤ st.ts` (`pending_not_overtaken`). Hence the length
of the pop history is bounded by the number of records with a timestamp `≤ st.ts` that were ever accepted, over all contexts
(`accLE`, `pops_bounded`).
-/
namespace Backend.PB
open Backend

/-- records with a timestamp `≤ T` ever accepted by any queue -/
def accLE (s : BSt) (T : Nat) : Nat := (s.ths.map (fun t => t.accepted.countP (fun r => decide (r.ts ≤ T)))).sum

theorem sum_map_le {α} (l : List α) (f g : α → Nat) (h : ∀ x ∈ l, f x ≤ g x) : (l.map f).sum ≤ (l.map g).sum := by
  induction l with
  | nil => simp
  | cons x xs ih =>
    have h1 := h x (List.mem_cons_self ..)
    have h2 := ih (fun y hy => h y (List.mem_cons_of_mem _ hy))
    simp only [List.map_cons, List.sum_cons]; omega

/-- **nothing overtakes a pending record** (C05 hypotheses) -/
theorem pending_not_overtaken {s : BSt} (hG : GI s) (hg : s.cfg.grace ≠ 0) (hr : s.cfg.refreshAfterSample = true)
    (hp : GracePremise s) {i : Nat} {st : Stmt} (hst : st ∈ chain (s.th i)) : ∀ p ∈ s.popLog, p.ts ≤ st.ts := by
  obtain ⟨fl, hI, o⟩ := hG.ord hg hr hp
  intro p hp'
  exact o.above p hp' i (hI.reg i (by intro he; rw [he] at hst; cases hst)) st hst

theorem sum_map_lt {α} (l : List α) (f g : α → Nat) (h : ∀ x ∈ l, f x ≤ g x) (x0 : α) (hx0 : x0 ∈ l) (hlt : f x0 < g x0) :
    (l.map f).sum < (l.map g).sum := by
  induction l with
  | nil => cases hx0
  | cons x xs ih =>
    have h1 := h x (List.mem_cons_self ..)
    have h2 := sum_map_le xs f g (fun y hy => h y (List.mem_cons_of_mem _ hy))
    simp only [List.map_cons, List.sum_cons]
    rcases List.mem_cons.mp hx0 with e | hmem
    · subst e; omega
    · have := ih (fun y hy => h y (List.mem_cons_of_mem _ hy)) hmem; omega

/-- while `st` is pending, fewer events have been popped than records with a timestamp `≤ st.ts` were ever accepted -/
theorem pops_bounded {s : BSt} (hA : PA.Inv s) (hF : FI none [] s) (hG : GI s) (hg : s.cfg.grace ≠ 0)
    (hr : s.cfg.refreshAfterSample = true) (hp : GracePremise s) {i : Nat} {st : Stmt} (hst : st ∈ chain (s.th i)) :
    s.popLog.length < accLE s st.ts := by
  have hall := pending_not_overtaken hG hg hr hp hst
  have e1 : s.popLog.countP (fun r => decide (r.ts ≤ st.ts)) = s.popLog.length :=
    List.countP_eq_length.mpr (fun p hp' => by simpa using hall p hp')
  rw [← e1, hA.p]
  unfold PA.cntP accLE
  have hlt : i < s.ths.length := by
    apply Classical.byContradiction; intro hn
    rw [th_lt_or_default s i (by omega)] at hst; cases hst
  apply sum_map_lt _ _ _ _ (s.th i) (th_mem s hlt)
  · rw [hF.cons i, List.append_assoc, List.countP_append]
    have : 0 < ((s.th i).buf ++ (s.th i).qStmts).countP (fun r => decide (r.ts ≤ st.ts)) :=
      List.countP_pos_iff.mpr ⟨st, hst, by simp⟩
    omega
  · intro t ht
    obtain ⟨j, _, hj⟩ := mem_ths s ht
    have := hF.cons j
    rw [hj] at this
    rw [this, List.countP_append, List.countP_append]
    omega


/-- records ever accepted by any queue -/
def accTotal (s : BSt) : Nat := (s.ths.map (fun t => t.accepted.length)).sum

/-- while anything is pending, fewer events have been popped than records were accepted (no hypothesis on the configuration) -/
theorem pops_lt_total {s : BSt} (hA : PA.Inv s) (hF : FI none [] s) {i : Nat} {st : Stmt} (hst : st ∈ chain (s.th i)) :
    s.popLog.length < accTotal s := by
  have e1 : s.popLog.length = (s.ths.map (fun t => t.popped.countP (fun _ => true))).sum := by
    have := hA.p (fun _ => true)
    rw [List.countP_eq_length.mpr (fun _ _ => rfl)] at this
    exact this
  rw [e1]
  unfold accTotal
  have hlt : i < s.ths.length := by
    apply Classical.byContradiction; intro hn
    rw [th_lt_or_default s i (by omega)] at hst; cases hst
  apply sum_map_lt _ _ _ _ (s.th i) (th_mem s hlt)
  · rw [hF.cons i, List.append_assoc, List.length_append, List.countP_eq_length.mpr (fun _ _ => rfl)]
    have : 0 < ((s.th i).buf ++ (s.th i).qStmts).length := List.length_pos_iff.mpr (by intro he; unfold chain at hst; rw [he] at hst; cases hst)
    omega
  · intro t ht
    obtain ⟨j, _, hj⟩ := mem_ths s ht
    have := hF.cons j
    rw [hj] at this
    rw [this, List.countP_eq_length.mpr (fun _ _ => rfl)]
    simp only [List.length_append]; omega

end Backend.PB
