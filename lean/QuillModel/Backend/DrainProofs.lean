import QuillModel.Backend.ThreadProofs
/-!
The drain at exit: frames of "what is still waiting" (`bq`) through the reporting / flushing / clean-up functions,
`allEmpty_drained` (a yes of the emptiness check means nothing is waiting in any context, registered or not), the
exit loop cut into iterations (`exitLoop_succ`, `exitBody`, `exitFinal`, `exitEnds`), and the event frames of the
clean-up functions. Helper lemmas for C07 (drain part).
-/
namespace Backend.PC
open Backend Spsc

/-- what is still waiting in each context: transit buffer and queue -/
def bq (s : BSt) : List (List Stmt × List Stmt) := s.ths.map (fun t => (t.buf, t.qStmts))

/-- nothing is waiting anywhere -/
def AllDrained (s : BSt) : Prop := ∀ i, i < s.ths.length → (s.th i).buf = [] ∧ (s.th i).qStmts = []

theorem th_of_bq {s s' : BSt} (h : bq s' = bq s) (i : Nat) :
    (s'.th i).buf = (s.th i).buf ∧ (s'.th i).qStmts = (s.th i).qStmts := by
  have := congrArg (fun l => l[i]?) h
  simp only [bq, List.getElem?_map] at this
  simp only [BSt.th, List.getD_eq_getElem?_getD]
  cases h1 : s'.ths[i]? <;> cases h2 : s.ths[i]? <;> rw [h1, h2] at this <;> simp at this
  · exact ⟨rfl, rfl⟩
  · exact this

theorem AllDrained_of_bq {s s' : BSt} (h : bq s' = bq s) (hs : AllDrained s) : AllDrained s' := by
  intro i hi
  have hl : s'.ths.length = s.ths.length := by
    have := congrArg List.length h; simpa [bq] using this
  obtain ⟨h1, h2⟩ := th_of_bq h i
  rw [h1, h2]; exact hs i (by rw [← hl]; exact hi)

theorem bq_setTh (s : BSt) (i : Nat) (f : Th → Th) (h1 : ∀ t, (f t).buf = t.buf) (h2 : ∀ t, (f t).qStmts = t.qStmts) :
    bq (s.setTh i f) = bq s := by
  simp only [bq, BSt.setTh]
  exact map_updAt s.ths i f _ (fun t => by simp only [h1 t, h2 t])

theorem bq_of_stripOut {s s' : BSt} (h : stripOut s' = stripOut s) : bq s' = bq s := by
  have h1 : bq (stripOut s') = bq s' := rfl
  have h2 : bq (stripOut s) = bq s := rfl
  rw [← h1, h, h2]

theorem bq_ctxEmpty (s : BSt) (i : Nat) : bq (ctxEmpty s i).1 = bq s := by
  unfold ctxEmpty; exact bq_setTh _ _ _ (fun _ => rfl) (fun _ => rfl)

theorem bq_refresh (s : BSt) : bq (refreshCache s) = bq s := by
  unfold refreshCache; split <;> rfl

theorem bq_allEmpty (s : BSt) : bq (allEmpty s).1 = bq s := by
  unfold allEmpty
  simp only []
  have : ∀ (l : List Nat) (acc : BSt × Bool),
      bq (l.foldl (fun (acc : BSt × Bool) i => ((ctxEmpty acc.1 i).1, acc.2 && (ctxEmpty acc.1 i).2)) acc).1 = bq acc.1 := by
    intro l
    induction l with
    | nil => intro acc; rfl
    | cons i rest ih => intro acc; simp only [List.foldl_cons]; rw [ih]; exact bq_ctxEmpty _ _
  rw [this]; exact bq_refresh s

theorem bq_findFirst : ∀ (l : List Nat) (s : BSt), bq (cleanupContexts.go.findFirst s l).1 = bq s
  | [], _ => rfl
  | i :: rest, s => by
    rw [findFirst_cons]
    split
    · exact bq_findFirst rest s
    · split
      · exact bq_ctxEmpty s i
      · rw [bq_findFirst rest]; exact bq_ctxEmpty s i

theorem bq_removeSt (s : BSt) (i : Nat) : bq (removeSt s i) = bq s := by
  unfold removeSt; exact (bq_setTh _ i (fun t => { t with removed := true }) (fun _ => rfl) (fun _ => rfl)).trans rfl

theorem bq_go : ∀ (fuel : Nat) (s : BSt), bq (cleanupContexts.go fuel s) = bq s
  | 0, _ => rfl
  | n + 1, s => by
    rw [go_succ]
    have h1 := bq_findFirst s.cache s
    split
    · rename_i s1 heq; rw [heq] at h1; exact h1
    · rename_i s1 i heq; rw [heq] at h1; rw [bq_go n, bq_removeSt]; exact h1

theorem bq_cleanupContexts (s : BSt) : bq (cleanupContexts s) = bq s := by
  rw [cleanupContexts_eq]; split
  · rfl
  · exact bq_go _ _

theorem bq_cleanupLoggers (inj : BSt → Nat → BSt) (hq : Quiet9 inj) (s : BSt) : bq (cleanupLoggers inj s) = bq s := by
  apply cleanupLoggers_presL (fun x => bq x = bq s) inj hq
  · intro x hx; rw [bq_allEmpty]; exact hx
  · intro x y hx h
    have h1 : bq (stripL y) = bq y := rfl
    have h2 : bq (stripL x) = bq x := rfl
    rw [← h1, h, h2]; exact hx
  · rfl

theorem bq_flushSinks (s : BSt) : bq (flushSinks s) = bq s := bq_of_stripOut (flushSinks_strip s)
theorem bq_preEraseFlush (s : BSt) : bq (preEraseFlush s) = bq s := bq_of_stripOut (preEraseFlush_strip s)

theorem runInj_nil (s : BSt) (site : Nat) :
    runInj [] s site = { s with siteCnt := (site, siteK s site) :: s.siteCnt.filter (·.1 ≠ site) } := by
  rw [runInj_eq]; rfl

theorem bq_reportSt (s : BSt) (i : Nat) : bq (reportSt s i) = bq s := by
  have : bq (reportSt s i) = bq (s.setTh i (fun t => { t with fail := 0 })) := rfl
  rw [this]; exact bq_setTh _ _ _ (fun _ => rfl) (fun _ => rfl)

theorem bq_checkFailures_nil (s : BSt) : bq (checkFailures (runInj []) s) = bq s := by
  rw [checkFailures_eq]
  have : ∀ (l : List Nat) (x : BSt),
      bq (l.foldl (fun s i => if (s.th i).fail > 0 then runInj [] (reportSt s i) 8 else s) x) = bq x := by
    intro l
    induction l with
    | nil => intro x; rfl
    | cons i rest ih =>
      intro x
      simp only [List.foldl_cons]
      rw [ih]
      split
      · rw [runInj_nil]; exact bq_reportSt x i
      · rfl
  exact this _ _

/-- once a pass has found everything empty, nothing is waiting in any context, registered or not -/
theorem allEmpty_drained (s : BSt) (hs : TCInv s) (he : (allEmpty s).2 = true) : AllDrained (allEmpty s).1 := by
  have hc : CInv (allEmpty s).1 := CInv_allEmpty s hs.1
  have ht : TInv (allEmpty s).1 := TInv_allEmpty hs.2
  have hnf : (allEmpty s).1.newFlag = false := by
    have := congrArg Core.newFlag (core_allEmpty s)
    simp only [Core.refresh] at this
    have e : (core (allEmpty s).1).newFlag = (allEmpty s).1.newFlag := rfl
    rw [e] at this; rw [this]
    cases hh : (core s).newFlag <;> simp [hh]
  have hcr : (allEmpty s).1.cache = (allEmpty s).1.registry := hc.fresh hnf
  intro i hi
  by_cases hr : i ∈ (allEmpty s).1.registry
  · exact emptyTh_nil ht i (allEmpty_true s he i (by rw [hcr]; exact hr))
  · exact ht.unreg i hi hr

/-! ### the exit loop -/

/-- one iteration of the exit loop that did not find everything empty -/
def exitBody (inj : BSt → Nat → BSt) (tick : Nat) (s : BSt) : BSt :=
  let p := populate inj { (allEmpty s).1 with now := (allEmpty s).1.now + tick }
  if p.2 > 0 then batchLoop inj (totalBuffered p.1 + 64) p.1 else p.1

/-- what the loop does when it finds everything empty: report, flush, reclaim -/
def exitFinal (inj : BSt → Nat → BSt) (s : BSt) : BSt :=
  cleanupLoggers inj (preEraseFlush (cleanupContexts (flushSinks (checkFailures inj (allEmpty s).1))))

theorem exitLoop_zero (inj : BSt → Nat → BSt) (tick : Nat) (s : BSt) : exitLoop inj tick 0 s = s := rfl

theorem exitLoop_succ (inj : BSt → Nat → BSt) (tick fuel : Nat) (s : BSt) :
    exitLoop inj tick (fuel + 1) s =
      if (allEmpty s).2 then exitFinal inj s else exitLoop inj tick fuel (exitBody inj tick s) := by
  rw [exitLoop]
  simp only [exitFinal, exitBody]

/-- the loop reaches its "everything is empty" branch within `fuel` iterations -/
def exitEnds (inj : BSt → Nat → BSt) (tick : Nat) : Nat → BSt → Prop
  | 0, _ => False
  | fuel + 1, s => (allEmpty s).2 = true ∨ ((allEmpty s).2 = false ∧ exitEnds inj tick fuel (exitBody inj tick s))

instance (inj : BSt → Nat → BSt) (tick : Nat) : ∀ (fuel : Nat) (s : BSt), Decidable (exitEnds inj tick fuel s)
  | 0, _ => isFalse (fun h => h)
  | fuel + 1, s =>
    if h : (allEmpty s).2 = true then isTrue (Or.inl h)
    else
      match instDecidableExitEnds inj tick fuel (exitBody inj tick s) with
      | isTrue h2 => isTrue (Or.inr ⟨by simpa using h, h2⟩)
      | isFalse h2 => isFalse (fun hh => by
          rcases hh with hh | hh
          · exact h hh
          · exact h2 hh.2)


theorem TCInv_exitBody {inj : BSt → Nat → BSt} (hi : InjOK TCInv inj) (tick : Nat) (s : BSt) (hs : TCInv s) :
    TCInv (exitBody inj tick s) := by
  unfold exitBody
  simp only []
  have h2 := populate_ok TCInv_closed.toClosedB hi _ (TCInv_closed.clock _ ((allEmpty s).1.now + tick) (TCInv_closed.allEmpty s hs))
  split
  · exact batchLoop_ok TCInv_closed.toClosedB hi _ _ h2
  · exact h2

theorem exitFinal_drained (s : BSt) (hs : TCInv s) (he : (allEmpty s).2 = true) :
    AllDrained (exitFinal (runInj []) s) := by
  unfold exitFinal
  apply AllDrained_of_bq _ (allEmpty_drained s hs he)
  rw [bq_cleanupLoggers _ runInj_nil_quiet9, bq_preEraseFlush, bq_cleanupContexts, bq_flushSinks, bq_checkFailures_nil]

/-- if the exit loop reaches its "everything is empty" branch, it ends in `exitFinal` of a reachable state in
    which the emptiness check answered yes -/
theorem exitLoop_ends_form {inj : BSt → Nat → BSt} (hi : InjOK TCInv inj) (tick : Nat) :
    ∀ (fuel : Nat) (s : BSt), TCInv s → exitEnds inj tick fuel s →
      ∃ sK, TCInv sK ∧ (allEmpty sK).2 = true ∧ exitLoop inj tick fuel s = exitFinal inj sK
  | 0, _, _, he => by cases he
  | fuel + 1, s, hs, he => by
    rw [exitLoop_succ]
    rcases he with he | ⟨he, hrest⟩
    · exact ⟨s, hs, he, by simp only [he, if_true]⟩
    · simp only [he, Bool.false_eq_true, if_false]
      exact exitLoop_ends_form hi tick fuel _ (TCInv_exitBody hi tick s hs) hrest

theorem cleanupContexts_log (s : BSt) : (cleanupContexts s).log = s.log := by
  have hff : ∀ (l : List Nat) (s : BSt), (cleanupContexts.go.findFirst s l).1.log = s.log := by
    intro l
    induction l with
    | nil => intro s; rfl
    | cons i rest ih =>
      intro s
      rw [findFirst_cons]
      split
      · exact ih s
      · split
        · rfl
        · rw [ih]; rfl
  have hgo : ∀ (fuel : Nat) (s : BSt), (cleanupContexts.go fuel s).log = s.log := by
    intro fuel
    induction fuel with
    | zero => intro s; rfl
    | succ n ih =>
      intro s
      rw [go_succ]
      have h1 := hff s.cache s
      split
      · rename_i s1 heq; rw [heq] at h1; exact h1
      · rename_i s1 i heq; rw [heq] at h1; rw [ih]; exact h1
  rw [cleanupContexts_eq]; split
  · rfl
  · exact hgo _ _

/-- the events a state gained over another one are all sink destructions -/
def OnlyDtors (s s' : BSt) : Prop := ∃ d, s'.log = d ++ s.log ∧ ∀ e ∈ d, ∃ k, e = Ev.sinkDtor k

theorem OnlyDtors.refl (s : BSt) : OnlyDtors s s := ⟨[], rfl, fun _ h => by cases h⟩

theorem OnlyDtors.trans {a b c : BSt} (h1 : OnlyDtors a b) (h2 : OnlyDtors b c) : OnlyDtors a c := by
  obtain ⟨d1, e1, f1⟩ := h1
  obtain ⟨d2, e2, f2⟩ := h2
  refine ⟨d2 ++ d1, by rw [e2, e1, List.append_assoc], ?_⟩
  intro e he
  rcases List.mem_append.mp he with he | he
  · exact f2 e he
  · exact f1 e he

theorem OnlyDtors.of_log {a b : BSt} (h : b.log = a.log) : OnlyDtors a b := ⟨[], by rw [h]; rfl, fun _ h => by cases h⟩

theorem reapSinks_dtors (sids : List Nat) : ∀ (s : BSt), OnlyDtors s (reapSinks s sids) := by
  unfold reapSinks
  induction sids with
  | nil => intro s; exact OnlyDtors.refl s
  | cons x xs ih =>
    intro s
    simp only [List.foldl_cons]
    refine OnlyDtors.trans ?_ (ih _)
    split
    · exact ⟨[.sinkDtor x], rfl, fun e he => ⟨x, by simpa using he⟩⟩
    · exact OnlyDtors.refl s

theorem allEmpty_log (s : BSt) : (allEmpty s).1.log = s.log := by
  unfold allEmpty
  simp only []
  have : ∀ (l : List Nat) (acc : BSt × Bool),
      (l.foldl (fun (acc : BSt × Bool) i => ((ctxEmpty acc.1 i).1, acc.2 && (ctxEmpty acc.1 i).2)) acc).1.log = acc.1.log := by
    intro l
    induction l with
    | nil => intro acc; rfl
    | cons i rest ih => intro acc; simp only [List.foldl_cons]; rw [ih]; rfl
  rw [this]; unfold refreshCache; split <;> rfl

/-- the logger clean-up emits nothing but sink destructions (nothing injected at hook site 9) -/
theorem cleanupLoggers_dtors (inj : BSt → Nat → BSt) (hq : Quiet9 inj) (s : BSt) :
    OnlyDtors s (cleanupLoggers inj s) := by
  apply cleanupLoggers_steps (OnlyDtors s) inj _ _ _ _ _ _ s (OnlyDtors.refl s)
  · intro x hx
    obtain ⟨sc, h⟩ := hq x
    rw [h]; exact hx.trans (OnlyDtors.of_log rfl)
  · intro x b hx; exact hx.trans (OnlyDtors.of_log rfl)
  · intro x hx; exact hx.trans (OnlyDtors.of_log (allEmpty_log x))
  · intro x i hx _ _
    exact hx.trans (OnlyDtors.of_log (b := (allEmpty x).1.setLg i (fun l => { l with erased := true })) (allEmpty_log x))
  · intro x sid hx _ _
    exact hx.trans ⟨[.sinkDtor sid], rfl, fun e he => ⟨sid, by simpa using he⟩⟩
  · intro x f g hx; exact hx.trans (OnlyDtors.of_log rfl)

end Backend.PC
