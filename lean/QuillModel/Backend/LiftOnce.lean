import QuillModel.Backend.ConsProofsOrder
/-!
C03, whole-run equality. `dispatchCount s st sid`: the number of ordinary writes at sink `sid` a dispatch of `st` in
state `s` produces — computed by a recursion that mirrors `writeToSinks` (acceptance and fault decisions in the states
the C++ takes them in). `writeToSinks_wcount_eq`: the dispatch adds exactly that many. `WInv`: in every reachable state,
for every popped ordinary statement, the whole history holds exactly the count decided in the state of its pop — an
invariant of every schedule (`WInv.closed`), with no ghost record of the decision.
-/
namespace Backend.PA
open Backend Spsc

/-- mirrors `writeToSinks`: writes of `st` at sink `sid` over the sink list `l`, starting in state `s` -/
def dispatchCountAux (st : Stmt) (sid : Nat) : BSt → List Nat → Nat
  | _, [] => 0
  | s, k :: rest =>
    if sinkAccepts (s.sinkOf k) st then
      if throwsAt (s.sinkOf k).wthrow ((s.sinkOf k).wcalls + 1) then 0
      else (if k = sid then 1 else 0) +
        dispatchCountAux st sid
          ((s.setSink k (fun _ => { s.sinkOf k with wcalls := (s.sinkOf k).wcalls + 1 })).emit
            (.write k st.id st.lvl st.ts st.named)) rest
    else dispatchCountAux st sid s rest

/-- what a dispatch of `st` in state `s` writes at sink `sid` -/
def dispatchCount (s : BSt) (st : Stmt) (sid : Nat) : Nat := dispatchCountAux st sid s (s.lgOf st.lg).sinks

theorem writeToSinks_wcount_eq (st : Stmt) (ho : st.lvl ≠ 9) (sid : Nat) : ∀ (sids : List Nat) (s : BSt),
    wcount (writeToSinks s st sids).1.log sid st.id = wcount s.log sid st.id + dispatchCountAux st sid s sids
  | [], s => by simp [writeToSinks, dispatchCountAux]
  | x :: rest, s => by
    unfold writeToSinks dispatchCountAux
    dsimp only
    split
    · split
      · rw [wcount_emit_nowrite _ _ rfl]
        rfl
      · rw [writeToSinks_wcount_eq st ho sid rest]
        have h1 : wcount ((s.setSink x (fun _ => { s.sinkOf x with wcalls := (s.sinkOf x).wcalls + 1 })).emit
            (.write x st.id st.lvl st.ts st.named)).log sid st.id =
            wcount s.log sid st.id + (if x = sid then 1 else 0) := by
          simp only [wcount, emit_log, setSink_log, List.countP_cons, ordWrite]
          congr 1
          by_cases h1 : x = sid <;> simp [h1, ho]
        rw [h1]; omega
    · exact writeToSinks_wcount_eq st ho sid rest s

theorem isOrd_lvl {st : Stmt} (ho : isOrd st = true) : st.lvl ≠ 9 := by
  simp only [isOrd, Bool.and_eq_true, bne_iff_ne, ne_eq] at ho; exact ho.2

/-- the pop of an ordinary statement leaves, in the whole history, exactly the count decided in the state of the pop -/
theorem popStep_wcount_eq {s : BSt} (h : Inv s) (i : Nat) (st : Stmt) (rest : List Stmt) (hb : (s.th i).buf = st :: rest)
    (ho : isOrd st = true) (sid : Nat) :
    wcount (popStep s i st rest).log sid st.id = dispatchCount s st sid := by
  have h0 : wcount s.log sid st.id = 0 := h.unpopped_unwritten (i := i) (by rw [hb]; simp) ho sid
  obtain ⟨evs, he, hz⟩ := popStep_ord_log h.w.ring i st rest ho
  rw [he, wcount_append, hz, dispatch, writeToSinks_wcount_eq st (isOrd_lvl ho), h0]
  unfold dispatchCount
  omega

/-- every popped ordinary statement has, in the whole history, exactly the writes decided in the state of its pop -/
structure WInv (s : BSt) : Prop where
  inv : Inv s
  dec : ∀ (i : Nat) (st : Stmt), st ∈ (s.th i).popped → isOrd st = true →
    ∃ s', Inv s' ∧ (s'.th i).buf.head? = some st ∧ ∀ sid, wcount s.log sid st.id = dispatchCount s' st sid

theorem WInv.quiet {s s' : BSt} (h : WInv s) (hi : Inv s') (hp : PSame s s')
    (hl : ∃ evs, s'.log = evs ++ s.log ∧ ∀ e ∈ evs, isWriteEv e = false) : WInv s' := by
  obtain ⟨evs, he, hn⟩ := hl
  refine ⟨hi, fun i st hm ho => ?_⟩
  rw [hp.eq i] at hm
  obtain ⟨x, hx1, hx2, hx3⟩ := h.dec i st hm ho
  refine ⟨x, hx1, hx2, fun sid => ?_⟩
  rw [he, wcount_nowrite hn]
  exact hx3 sid

theorem WInv.closed : Closed WInv where
  frame := fun s s' h f => h.quiet (Inv.closed.frame s s' h.inv f) (PSame.of_ths f.ths) f.log
  refresh := fun s h => h.quiet (Inv.closed.refresh s h.inv) (by unfold refreshCache; split <;> exact PSame.of_ths rfl)
    (by unfold refreshCache; split <;> exact ⟨[], rfl, by simp⟩)
  ctxEmpty := fun s i h => h.quiet (Inv.closed.ctxEmpty s i h.inv) (by rw [ctxEmpty_fst]; exact PSame.setTh _ _ _ (fun _ => rfl))
    ⟨[], rfl, by simp⟩
  dropCtx := fun s i h hv he hz => h.quiet (Inv.closed.dropCtx s i h.inv hv he hz)
    ((by rw [ctxEmpty_fst]; exact PSame.setTh _ _ _ (fun _ => rfl) : PSame s (ctxEmpty s i).1).trans (dropCtx_ps _ i))
    ⟨[], rfl, by simp⟩
  prepRead := fun s i h => h.quiet (Inv.closed.prepRead s i h.inv) (PSame.setTh _ _ _ (fun _ => rfl)) ⟨[], rfl, by simp⟩
  commitRead := fun s i h => h.quiet (Inv.closed.commitRead s i h.inv) (PSame.setTh _ _ _ (fun _ => rfl)) ⟨[], rfl, by simp⟩
  readOne := fun s i st rest h hq hr => h.quiet (Inv.closed.readOne s i st rest h.inv hq hr) (readOne_ps s i st rest)
    (by unfold PA.readOne; dsimp only; split <;> exact ⟨[], rfl, by simp⟩)
  pop := fun s j st rest h hb => by
    have hI := Inv.closed.pop s j st rest h.inv hb
    obtain ⟨hbuf, hpop, _, hoth⟩ := popStep_pops s j st rest hb
    have hstm : st ∈ (s.th j).buf ++ (s.th j).qStmts := by rw [hb]; simp
    refine ⟨hI, fun i x hx hox => ?_⟩
    -- either `x` was popped before this step, or it is the statement popped now
    have hcase : x ∈ (s.th i).popped ∨ (i = j ∧ x = st) := by
      by_cases hij : i = j
      · subst hij
        rw [hpop] at hx
        rcases List.mem_append.mp hx with h1 | h1
        · exact Or.inl h1
        · exact Or.inr ⟨rfl, by simpa using h1⟩
      · rw [hoth i hij] at hx; exact Or.inl hx
    rcases hcase with hold | ⟨hij, hxs⟩
    · obtain ⟨y, hy1, hy2, hy3⟩ := h.dec i x hold hox
      refine ⟨y, hy1, hy2, fun sid => ?_⟩
      obtain ⟨evs, he, hev⟩ := popStep_log_ext h.inv j st rest sid
      have h0 : wcount evs sid x.id = 0 := by
        apply hev
        intro hc
        exact h.inv.popped_ne_unpopped hold hox hstm hc.1 hc.2
      rw [he, wcount_append, h0, Nat.zero_add]
      exact hy3 sid
    · subst hij; subst hxs
      refine ⟨s, h.inv, by rw [hb]; rfl, fun sid => ?_⟩
      exact popStep_wcount_eq h.inv i x rest hb hox sid
  failReset := fun s i h hf => h.quiet (Inv.closed.failReset s i h.inv hf)
    (by unfold PA.failReset
        exact (PSame.setTh s i (fun t => { t with fail := 0 }) (fun _ => rfl)).trans (PSame.of_ths rfl))
    (by unfold PA.failReset; exact ⟨[_], rfl, by simp [isWriteEv]⟩)
  front := fun s f h => h.quiet (Inv.closed.front s f h.inv) (applyFront_ps s f) (applyFront_ffr s f).log

theorem WInv.run {s : BSt} (h : WInv s) (ops : List Op) : WInv (runOps s ops) :=
  runOps_closed WInv.closed ops s h

theorem WInv.of_start {s : BSt} (h : Inv s) (hp : ∀ i, (s.th i).popped = []) : WInv s :=
  ⟨h, fun i st hm _ => by rw [hp i] at hm; cases hm⟩

end Backend.PA
