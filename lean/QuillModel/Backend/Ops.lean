import QuillModel.Backend.Sched
/-!
The operations of the end-to-end model as a typed language: what a frontend thread, the user's configuration
code and the backend thread can do, at the granularity at which the scheduler harness `h2_backend.cpp`
executes them. `applyOp` is the transition function; theorems quantify over `List Op` (every schedule).
A poll carries the frontend operations to run at its hook sites (`inj`): `(site, k, ops)` = at the k-th
visit of `site` inside this poll run `ops` — this is how interleavings *inside* a backend pass are expressed.
-/
namespace Backend

inductive FOp
  | tick (dt : Nat)
  | tstart (a : Nat) | texit (a : Nat)
  | resume (a : Nat)
  | armStall (a : Nat)                       -- the next log call of `a` parks after reading its timestamp
  | log (a g lvl len : Nat) (dyn : Bool)      -- LOG_DYNAMIC (returns the bool) / LOG_<LEVEL> macro
  | logNamed (a g len : Nat)                  -- LOG_INFO with a named placeholder
  | logBt (a g len : Nat)                     -- LOG_BACKTRACE
  | initBt (a g cap fl : Nat)
  | flushBt (a g : Nat)
  | flush (a g : Nat)                         -- flush_log
  | removeBlocking (a g : Nat)
  | remove (a g : Nat)
  | create (a g : Nat) (sinks : List Nat)     -- create_or_get_logger
  | setLevel (g lvl : Nat)
  | setSinkLevel (sid lvl : Nat)
  | dropSink (sid : Nat)                      -- the user drops its own reference to a sink
  | query
  deriving Repr, Inhabited

inductive Op
  | front (f : FOp)
  | poll (inj : List (Nat × Nat × List FOp))
  | exit
  deriving Repr, Inhabited

def FOp.needsManagerLock : FOp → Bool
  | .create .. => true
  | _ => false

def FOp.show : FOp → String
  | .tick dt => s!"K_{dt}"
  | .tstart a => s!"T_{a}_start"
  | .texit a => s!"T_{a}_exit"
  | .resume a => s!"R_{a}"
  | .armStall a => s!"ST_{a}"
  | .log a g lvl len dyn => s!"{if dyn then "L" else "LS"}_{a}_{g}_{lvl}_{len}"
  | .logNamed a g len => s!"LN_{a}_{g}_{len}"
  | .logBt a g len => s!"LB_{a}_{g}_{len}"
  | .initBt a g cap fl => s!"IB_{a}_{g}_{cap}_{fl}"
  | .flushBt a g => s!"FB_{a}_{g}"
  | .flush a g => s!"F_{a}_{g}"
  | .removeBlocking a g => s!"RB_{a}_{g}"
  | .remove a g => s!"RL_{a}_{g}"
  | .create a g sinks => s!"CL_{a}_{g}_{",".intercalate (sinks.map toString)}"
  | .setLevel g lvl => s!"SL_{g}_{lvl}"
  | .setSinkLevel sid lvl => s!"SS_{sid}_{lvl}"
  | .dropSink sid => s!"DS_{sid}"
  | .query => "Q"

def isParked (x : Actor) : Bool := match x.pend with | .none => false | _ => true

def idleActor (s : BSt) (a : Nat) : Bool :=
  match s.actor a with
  | some x => !isParked x
  | none => false

/-- current usable logger object of `gid` -/
def loggerOf (s : BSt) (gid : Nat) : Option Nat :=
  match s.names.find? (·.1 = gid) with
  | some (_, i) => if (s.lgOf i).valid ∧ !(s.lgOf i).erased then some i else none
  | none => none

def dropName (s : BSt) (gid : Nat) : BSt := { s with names := s.names.filter (·.1 ≠ gid) }

/-- is some live actor parked inside a public call through logger `gid`? (`remove_logger` and a re-creation of
    the name are then outside their contract) -/
def loggerBusy (s : BSt) (gid : Nat) : Bool :=
  s.actors.any (fun x => x.alive && x.inCall == some gid && isParked x)

/-- remember the logger while a call of `a` through it is parked -/
def noteCall (r : BSt × String) (a gid : Nat) : BSt × String :=
  let parked := ((r.1.actor a).map isParked).getD false
  (r.1.setActor a (fun x => { x with inCall := if parked then some gid else none }), r.2)

/-- a public call that goes through a logger: needs an idle live actor and a valid handle -/
def withLogger (s : BSt) (a gid : Nat) (k : Nat → BSt × String) : BSt × String :=
  match loggerOf s gid, idleActor s a with
  | some lgi, true => noteCall (k lgi) a gid
  | _, _ => (s, "noop")

/-- frontend operations -/
def applyFront (s : BSt) : FOp → BSt × String
  | .tick dt => ({ s with now := s.now + dt }, "ok")
  | .tstart a =>
    if (s.actor a).isSome then (s, "noop") else ({ s with actors := s.actors ++ [{ id := a }] }, "ok")
  | .texit a =>
    if !idleActor s a then (s, "noop") else
    let ctx := (s.actor a).bind (·.ctx)
    let s1 := s.setActor a (fun x => { x with alive := false })
    match ctx with
    | some i => ({ s1.setTh i (fun t => { t with valid := false }) with
                   invalidCnt := counterMod s.cfg (s.invalidCnt + 1) }, "ok")
    | none => (s1, "ok")
  | .resume a =>
    let r := resume s a
    if r.2 == "noop" then r else
    let parked := ((r.1.actor a).map isParked).getD false
    if parked then r else (r.1.setActor a (fun x => { x with inCall := none }), r.2)
  | .armStall a =>
    if idleActor s a then (s.setActor a (fun x => { x with stallArmed := true }), "ok") else (s, "noop")
  | .log a g lvl len dyn =>
    withLogger s a g (fun lgi =>
      let id := s.nextId
      let s1 := { s with nextId := id + 1 }
      if shouldLog lvl (s1.lgOf lgi).level then frontCall s1 a lgi .log lvl len (if dyn then 0 else 5) dyn id
      else (s1, if dyn then s!"id={id} skip ev=0 bytes=0" else s!"id={id} ev=0 bytes=0"))
  | .logNamed a g len =>
    withLogger s a g (fun lgi =>
      let id := s.nextId
      let s1 := { s with nextId := id + 1 }
      if shouldLog 4 (s1.lgOf lgi).level then frontCall s1 a lgi .log 4 len 5 false id true
      else (s1, s!"id={id} ev=0 bytes=0"))
  | .logBt a g len =>
    withLogger s a g (fun lgi =>
      let id := s.nextId
      let s1 := { s with nextId := id + 1 }
      if shouldLog 9 (s1.lgOf lgi).level then frontCall s1 a lgi .log 9 len 5 false id
      else (s1, s!"id={id} ev=0 bytes=0"))
  | .initBt a g cap fl => withLogger s a g (fun lgi => frontCall s a lgi (.initBt cap fl) 8 0 2 false 0)
  | .flushBt a g => withLogger s a g (fun lgi => frontCall s a lgi .flushBt 8 0 3 false 0)
  | .flush a g =>
    withLogger s a g (fun lgi =>
      let f := s.nextFlag
      frontCall { s with nextFlag := f + 1 } a lgi (.flush f) 8 0 1 false 0)
  | .removeBlocking a g =>
    if loggerBusy s g then (s, "noop") else
    withLogger s a g (fun lgi =>
      let f := s.nextFlag
      frontCall (dropName { s with nextFlag := f + 1 } g) a lgi (.removal f) 8 0 4 false 0)
  | .remove a g =>
    if loggerBusy s g then (s, "noop") else
    match loggerOf s g, idleActor s a with
    | some lgi, true =>
      let s1 := (dropName s g).setLg lgi (fun l => { l with valid := false })
      ({ s1 with hasInvalidLoggers := true }, "done")
    | _, _ => (s, "noop")
  | .create a g sl =>
    if !idleActor s a ∨ loggerBusy s g ∨ sl.any (fun sid => !(s.sinks.any (fun k => k.sid = sid ∧ k.alive))) then (s, "noop") else
    let existing := (List.range s.lgs.length).find? (fun i => (s.lgOf i).gid = g ∧ !(s.lgOf i).erased)
    match existing with
    | some i =>
      let l := s.lgOf i
      if !l.valid then (s, "noop") else   -- outside the contract until the backend has erased the old logger
      ({ dropName s g with names := (dropName s g).names ++ [(g, i)] }, s!"ok valid=1 nsinks={l.sinks.length}")
    | none =>
      let i := s.lgs.length
      ({ dropName s g with lgs := s.lgs ++ [{ gid := g, sinks := sl }], names := (dropName s g).names ++ [(g, i)] },
       s!"ok valid=1 nsinks={sl.length}")
  | .setLevel g lvl =>
    match loggerOf s g with
    | some lgi => (s.setLg lgi (fun l => { l with level := lvl }), "ok")
    | none => (s, "noop")
  | .setSinkLevel sid lvl =>
    if (s.sinks.any (fun k => k.sid = sid ∧ k.alive)) then (s.setSink sid (fun k => { k with lvl := lvl }), "ok") else (s, "noop")
  | .dropSink sid => (reapSinks (s.setSink sid (fun k => { k with userRef := false })) [sid], "ok")
  | .query => (s, s!"contexts={s.registry.length} loggers={(s.lgs.filter (fun l => !l.erased)).length}")

/-- the injection runner handed to `poll`: at the k-th visit of `site`, run the operations scheduled there -/
def runInj (table : List (Nat × Nat × List FOp)) (s : BSt) (site : Nat) : BSt :=
  let k := ((s.siteCnt.find? (·.1 = site)).map (·.2)).getD 0 + 1
  let s1 := { s with siteCnt := (site, k) :: s.siteCnt.filter (·.1 ≠ site) }
  match table.find? (fun x => x.1 = site ∧ x.2.1 = k) with
  | none => s1
  | some (_, _, ops) =>
    ops.foldl (fun s f =>
      -- site 9 is inside `LoggerManager::cleanup_invalidated_loggers`, which holds the manager's lock: a frontend call
      -- that needs that lock (`create_or_get_logger`) cannot run there — it would spin until the clean-up is over
      let r := if site = 9 && f.needsManagerLock then (s, "noop") else applyFront s f
      r.1.emit (.inj site k f.show r.2)) s1

def applyOp (s : BSt) : Op → BSt × String
  | .front f => applyFront s f
  | .poll table =>
    if s.backendGone then (s, "noop") else (poll (runInj table) { s with siteCnt := [] }, "ev")
  | .exit =>
    if s.backendGone then (s, "noop") else
    ({ exitLoop (runInj []) 1000 100000 { s with siteCnt := [] } with backendGone := true }, "ev")

/-- run a whole schedule (observations dropped) -/
def runOps (s : BSt) (ops : List Op) : BSt := ops.foldl (fun s o => (applyOp s o).1) s

end Backend
