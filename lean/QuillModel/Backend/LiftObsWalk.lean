import QuillModel.Backend.PcSkeleton
/-!
The walk of `Backend/PcSkeleton.lean` through `poll` / `exitLoop`, for state properties that COUNT the `Ev.inj` events of
the history: such a property is not stable under a bare `emit (.inj ..)` (field `ClosedB.emitInj`) nor under a bare
`applyFront` — only under the two together (`PC.injStep`). `ClosedC` is `ClosedB` without the fields `emitInj` and
`siteCnt` (which the walk itself never uses: they only serve `runInj_ok`); the injection runner is handled by the
caller through `InjOK`. The proofs are those of `PcSkeleton.lean`, verbatim. Helper lemmas only.
-/
namespace Backend.PC
open Backend Spsc

/-- what a state property must be stable under to survive a poll, given an injection runner that keeps it -/
structure ClosedC (P : BSt → Prop) : Prop where
  note : ∀ s, P s → P (s.emit (.notify "n:fmterr"))
  clock : ∀ s n, P s → P { s with now := n }
  gone : ∀ s, P s → P { s with backendGone := true }
  lastFlush : ∀ s n, P s → P { s with lastFlush := n }
  refresh : ∀ s, P s → P (refreshCache s)
  allEmpty : ∀ s, P s → P (allEmpty s).1
  hasPending : ∀ s, P s → P (hasPending s).1
  cleanupContexts : ∀ s, P s → P (cleanupContexts s)
  invFlag : ∀ s b, P s → P { s with hasInvalidLoggers := b }
  erase : ∀ s i, P s → (s.lgOf i).valid = false → (Backend.allEmpty s).2 = true →
            P ((Backend.allEmpty s).1.setLg i (fun l => { l with erased := true }))
  reap : ∀ s sid, P s → (s.sinkOf sid).alive = true → sinkRefs s sid = 0 →
            P ((s.setSink sid (fun k => { k with alive := false })).emit (.sinkDtor sid))
  flagRemoval : ∀ s0 s f g, P s0 → P s → ErasedNow s0 s g →
            (∃ g', s.removalFlags.find? (·.1 = g) = some (g', f)) →
            P { s with flags := f :: s.flags, flagLog := (f, s.log.length) :: s.flagLog,
                       removalFlags := s.removalFlags.filter (·.1 ≠ g) }
  flushSinks : ∀ s, P s → P (flushSinks s)
  readPrep : ∀ s i, P s → P (readPrepSt s i)
  commit : ∀ s i, P s → P (commitSt s i)
  readOne : ∀ s i st rest, P s → (qPrepareRead s.cfg (s.th i).q).2 = true → (s.th i).qStmts = st :: rest →
              P (readOneSt s i st rest)
  report : ∀ s i, P s → (s.th i).fail > 0 → P (reportSt s i)
  pop : ∀ s i st rest, P s → lowest s = some i → (s.th i).buf = st :: rest → P (popSt s i st rest)
  raise : ∀ s f, P s → (∃ st, s.popLog.head? = some st ∧ st.kind = .flush f) → P (raiseSt s f)

section
variable {P : BSt → Prop} (hc : ClosedC P)
include hc

theorem readQueue_okC {inj : BSt → Nat → BSt} (hi : InjOK P inj) (tsNow : Option Nat) (i : Nat) :
    ∀ (fuel total : Nat) (s : BSt), P s → P (readQueue inj tsNow i fuel total s)
  | 0, total, s, hs => by
    rw [readQueue_zero]
    split
    · exact hc.commit _ _ hs
    · exact hs
  | fuel + 1, total, s, hs => by
    rw [readQueue_succ]
    have hfin : P (if total ≠ 0 then commitSt (readPrepSt s i) i else readPrepSt s i) := by
      split
      · exact hc.commit _ _ (hc.readPrep s i hs)
      · exact hc.readPrep s i hs
    simp only []
    split
    · exact hfin
    · rename_i hr
      split
      · exact hfin
      · rename_i st rest hq
        split
        · exact hfin
        · have h3 : P (inj (fmtNote (readOneSt s i st rest) st) 3) :=
            (hi _ 3 (by
              unfold fmtNote
              split
              · exact hc.note _ (hc.readOne s i st rest hs (by simpa using hr) hq)
              · exact hc.readOne s i st rest hs (by simpa using hr) hq)).1
          split
          · exact readQueue_okC hi tsNow i fuel _ _ h3
          · exact hc.commit _ _ h3

theorem checkFailures_okC {inj : BSt → Nat → BSt} (hi : InjOK P inj) (s : BSt) (hs : P s) :
    P (checkFailures inj s) := by
  rw [checkFailures_eq]
  apply foldl_pres P _ _ _ _ hs
  intro x i hx
  split
  · rename_i hf; exact (hi _ 8 (hc.report x i hx hf)).1
  · exact hx

theorem checkFailures_popLogC {inj : BSt → Nat → BSt} (hi : InjOK P inj) (s : BSt) (hs : P s) :
    (checkFailures inj s).popLog = s.popLog := by
  rw [checkFailures_eq]
  have : ∀ (l : List Nat) (x : BSt), P x →
      (l.foldl (fun s i => if (s.th i).fail > 0 then inj (reportSt s i) 8 else s) x).popLog = x.popLog := by
    intro l
    induction l with
    | nil => intro x _; rfl
    | cons i rest ih =>
      intro x hx
      simp only [List.foldl_cons]
      split
      · rename_i hf
        have h := hi _ 8 (hc.report x i hx hf)
        rw [ih _ h.1, h.2.1]; rfl
      · exact ih x hx
  exact this _ _ hs

theorem processLowest_okC {inj : BSt → Nat → BSt} (hi : InjOK P inj) (s : BSt) (hs : P s) :
    P (processLowest inj s).1 := by
  rw [processLowest_eq]
  split
  · exact hs
  · rename_i i hl
    split
    · exact hs
    · rename_i st rest hb
      have hp := hc.pop s i st rest hs hl hb
      split
      · rename_i f hf
        have hk := processEvent_flag s st f hf
        have hpl : (popSt s i st rest).popLog.head? = some st := rfl
        apply hc.raise
        · apply hc.cleanupContexts
          split
          · exact checkFailures_okC hc hi _ hp
          · exact hp
        · refine ⟨st, ?_, hk⟩
          rw [cleanupContexts_popLog]
          split
          · rw [checkFailures_popLogC hc hi _ hp]; exact hpl
          · exact hpl
      · exact hp

theorem populate_okC {inj : BSt → Nat → BSt} (hi : InjOK P inj) (s : BSt) (hs : P s) :
    P (populate inj s).1 := by
  rw [populate_eq]
  apply foldl_pres_pair P
  · intro acc i hacc
    exact readQueue_okC hc hi _ _ _ _ _ (hi _ 2 hacc).1
  · have h0 : P (popS0 s) := by
      unfold popS0; split
      · exact hs
      · exact hc.refresh s hs
    have h1 : P (popS1 inj s) := by
      unfold popS1; split
      · exact h0
      · exact (hi _ 7 h0).1
    have h2 := (hi _ 1 h1).1
    show P (popS2 inj s)
    unfold popS2; split
    · exact hc.refresh _ h2
    · exact h2

theorem batchLoop_okC {inj : BSt → Nat → BSt} (hi : InjOK P inj) :
    ∀ (fuel : Nat) (s : BSt), P s → P (batchLoop inj fuel s)
  | 0, _, hs => hs
  | fuel + 1, s, hs => by
    unfold batchLoop
    simp only []
    have hp := hc.hasPending s hs
    split
    · exact hp
    · have hl := processLowest_okC hc hi _ hp
      split
      · exact hl
      · exact batchLoop_okC hi fuel _ (hi _ 4 hl).1

/-- the sinks of an erased logger are destroyed one by one, hook site 9 after each destruction -/
theorem reapSinksInj_okC {inj : BSt → Nat → BSt} (hi : InjOK P inj) (sids : List Nat) :
    ∀ (s : BSt), P s → P (reapSinksInj inj s sids) := by
  unfold reapSinksInj
  induction sids with
  | nil => intro s hs; exact hs
  | cons x xs ih =>
    intro s hs
    simp only [List.foldl_cons]
    apply ih
    split
    · rename_i hcnd
      simp only [Bool.and_eq_true, decide_eq_true_eq] at hcnd
      exact (hi _ 9 (hc.reap s x hs hcnd.1 hcnd.2)).1
    · exact hs

/-- the sinks of an erased logger are destroyed: the property is kept, and so are the logger objects -/
theorem reapSinksInj_okC2 {inj : BSt → Nat → BSt} (hi : InjOK P inj) (sids : List Nat) :
    ∀ (s : BSt), P s → P (reapSinksInj inj s sids) ∧ LgMono s (reapSinksInj inj s sids) := by
  unfold reapSinksInj
  induction sids with
  | nil => intro s hs; exact ⟨hs, LgMono.refl s⟩
  | cons x xs ih =>
    intro s hs
    simp only [List.foldl_cons]
    split
    · rename_i hcnd
      simp only [Bool.and_eq_true, decide_eq_true_eq] at hcnd
      have h1 := hi _ 9 (hc.reap s x hs hcnd.1 hcnd.2)
      obtain ⟨a1, a2⟩ := ih _ h1.1
      refine ⟨a1, LgMono.trans ?_ a2⟩
      exact (LgMono.of_lgs (s := s) (s' := (s.setSink x (fun k => { k with alive := false })).emit (.sinkDtor x)) rfl).trans
        (h1.2.2 rfl)
    · exact ih s hs

theorem lgStep_okC {inj : BSt → Nat → BSt} (hi : InjOK P inj) (s0 : BSt) (acc : BSt × List Nat) (i : Nat)
    (hi0 : i < s0.lgs.length ∧ (s0.lgOf i).erased = false) (h : LgAcc P s0 acc) : LgAcc P s0 (lgStep inj acc i) := by
  obtain ⟨hp, hm, hr⟩ := h
  unfold lgStep
  split
  · exact ⟨hp, hm, hr⟩
  · rename_i hv
    have hae : LgMono acc.1 (allEmpty acc.1).1 := LgMono.of_lgs (allEmpty_lgs' acc.1)
    split
    · rename_i he
      have her : LgMono (allEmpty acc.1).1 ((allEmpty acc.1).1.setLg i (fun l => { l with erased := true })) := by
        refine ⟨lgs_length_setLg _ _ _, fun j => ?_⟩
        rw [lgOf_setLg]; split
        · exact ⟨rfl, fun _ => rfl⟩
        · exact ⟨rfl, id⟩
      obtain ⟨a1, a2⟩ := reapSinksInj_okC2 hc hi (acc.1.lgOf i).sinks _ (hc.erase acc.1 i hp (by simpa using hv) he)
      have hall : LgMono acc.1 (reapSinksInj inj ((allEmpty acc.1).1.setLg i (fun l => { l with erased := true }))
          (acc.1.lgOf i).sinks) := (hae.trans her).trans a2
      refine ⟨a1, hm.trans hall, fun g hg => ?_⟩
      rcases List.mem_append.mp hg with hg | hg
      · exact (hr g hg).mono hall
      · simp only [List.mem_singleton] at hg
        refine ⟨hm.trans hall, i, hi0.1, hi0.2, by rw [hg, (hm.2 i).1], ?_⟩
        apply (a2.2 i).2
        rw [lgOf_setLg]
        have : i < (allEmpty acc.1).1.lgs.length := by rw [allEmpty_lgs', hm.1]; exact hi0.1
        simp only [this, and_self, if_true]
    · have hfin : LgMono acc.1 ({ (allEmpty acc.1).1 with hasInvalidLoggers := true } : BSt) :=
        hae.trans (LgMono.of_lgs rfl)
      exact ⟨hc.invFlag _ true (hc.allEmpty _ hp), hm.trans hfin, fun g hg => (hr g hg).mono hfin⟩

theorem cleanupLoggers_okC {inj : BSt → Nat → BSt} (hi : InjOK P inj) (s : BSt) (hs : P s) :
    P (cleanupLoggers inj s) := by
  rw [cleanupLoggers_eq]
  split
  · exact hs
  · -- first loop
    have hord : ∀ i ∈ lgOrder { s with hasInvalidLoggers := false }, i < s.lgs.length ∧ (s.lgOf i).erased = false := by
      intro i hi'
      unfold lgOrder at hi'
      rw [mem_insSorted, List.mem_filter, List.mem_range] at hi'
      have h2 : (s.lgOf i).erased = false := by
        have := hi'.2
        simp only [Bool.not_eq_true'] at this
        exact this
      exact ⟨hi'.1, h2⟩
    have h1 : ∀ (l : List Nat) (acc : BSt × List Nat), (∀ i ∈ l, i < s.lgs.length ∧ (s.lgOf i).erased = false) →
        LgAcc P s acc → LgAcc P s (l.foldl (lgStep inj) acc) := by
      intro l
      induction l with
      | nil => intro acc _ h; exact h
      | cons i rest ih =>
        intro acc hl h
        simp only [List.foldl_cons]
        exact ih _ (fun j hj => hl j (List.mem_cons_of_mem _ hj)) (lgStep_okC hc hi s acc i (hl i List.mem_cons_self) h)
    have h2 := h1 _ ({ s with hasInvalidLoggers := false }, []) hord
      ⟨hc.invFlag s false hs, LgMono.of_lgs rfl, fun g hg => by cases hg⟩
    revert h2
    generalize (lgOrder { s with hasInvalidLoggers := false }).foldl (lgStep inj)
      ({ s with hasInvalidLoggers := false }, ([] : List Nat)) = res
    intro h2
    obtain ⟨s1, removed⟩ := res
    obtain ⟨q1, q2, q3⟩ := h2
    -- second loop: the logger objects do not change any more
    have h3 : ∀ (l : List Nat) (x : BSt), (∀ g ∈ l, g ∈ removed) → P x → x.lgs = s1.lgs → P (l.foldl flagStep x) := by
      intro l
      induction l with
      | nil => intro x _ hx _; exact hx
      | cons g rest ih =>
        intro x hl hx hlg
        simp only [List.foldl_cons]
        have hmono : LgMono s1 x := LgMono.of_lgs hlg
        have hstep : P (flagStep x g) ∧ (flagStep x g).lgs = s1.lgs := by
          unfold flagStep
          split
          · rename_i g' f hfind
            exact ⟨hc.flagRemoval s x f g hs hx ((q3 g (hl g List.mem_cons_self)).mono hmono) ⟨g', hfind⟩, hlg⟩
          · exact ⟨hx, hlg⟩
        exact ih _ (fun g' hg' => hl g' (List.mem_cons_of_mem _ hg')) hstep.1 hstep.2
    exact h3 removed s1 (fun _ h => h) q1 rfl

theorem flushGate_okC {inj : BSt → Nat → BSt} (hi : InjOK P inj) (s : BSt) (n : Nat) (hs : P s) : P (flushGate inj s n) := by
  unfold flushGate
  split
  · exact hc.flushSinks _ hs
  · simp only []
    split
    · exact hc.flushSinks _ (hc.lastFlush _ _ (hi _ 7 hs).1)
    · exact (hi _ 7 hs).1

theorem preEraseFlush_okC (s : BSt) (hs : P s) : P (preEraseFlush s) := by
  unfold preEraseFlush
  split
  · exact hc.flushSinks _ hs
  · exact hs

theorem poll_okC {inj : BSt → Nat → BSt} (hi : InjOK P inj) (s : BSt) (hs : P s) : P (poll inj s) := by
  unfold poll
  have hp := populate_okC hc hi s hs
  rcases hpe : populate inj s with ⟨s1, count⟩
  rw [hpe] at hp
  simp only []
  split
  · split
    · exact processLowest_okC hc hi _ hp
    · exact batchLoop_okC hc hi _ _ hp
  · have h3 := checkFailures_okC hc hi _ (flushGate_okC hc hi (inj s1 5) (inj s1 5).cfg.flushInterval (hi _ 5 hp).1)
    have h4 := hc.allEmpty _ h3
    split
    · exact cleanupLoggers_okC hc hi _ (preEraseFlush_okC hc _ (hc.cleanupContexts _ h4))
    · exact h4

theorem exitLoop_okC {inj : BSt → Nat → BSt} (hi : InjOK P inj) (tick : Nat) :
    ∀ (fuel : Nat) (s : BSt), P s → P (exitLoop inj tick fuel s)
  | 0, _, hs => hs
  | fuel + 1, s, hs => by
    unfold exitLoop
    simp only []
    have h1 := hc.allEmpty s hs
    split
    · exact cleanupLoggers_okC hc hi _ (preEraseFlush_okC hc _ (hc.cleanupContexts _ (hc.flushSinks _ (checkFailures_okC hc hi _ h1))))
    · have h2 := populate_okC hc hi _ (hc.clock _ ((allEmpty s).1.now + tick) h1)
      rcases hpe : populate inj { (allEmpty s).1 with now := (allEmpty s).1.now + tick } with ⟨s1, count⟩
      rw [hpe] at h2
      simp only []
      apply exitLoop_okC hi tick fuel
      split
      · exact batchLoop_okC hc hi _ _ h2
      · exact h2

end

end Backend.PC
