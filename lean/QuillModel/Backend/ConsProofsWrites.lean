import QuillModel.Backend.ConsProofsDispatch
/-!
What `_write_log_statement` (`writeToSinks`) emits, for every sink list: one `write` per accepting sink, in
sink order, cut at the first sink that throws; and the bound on the number of ordinary `write` events in the
whole history by the statements popped so far (`InvW`).
-/
namespace Backend.PA
open Backend Spsc

theorem sinkAccepts_same {k k' : Sink} (h : SinkSame k k') (st : Stmt) : sinkAccepts k' st = sinkAccepts k st := by
  simp only [sinkAccepts, h.lvl, h.filtM, h.filtR]

/-- does sink `sid` (in state `s`) take the statement -/
def acc (s : BSt) (st : Stmt) (sid : Nat) : Bool := sinkAccepts (s.sinkOf sid) st

/-- the event a successful `write_log` leaves -/
def W (st : Stmt) (sid : Nat) : Ev := .write sid st.id st.lvl st.ts st.named

theorem acc_core {s s' : BSt} (c : Core s s') (st : Stmt) (sid : Nat) : acc s' st sid = acc s st sid :=
  sinkAccepts_same (c.sinks sid) st

/-- **`writeToSinks`, all sink lists.** Either no exception escapes and the events appended to the history
    are exactly one `write` per accepting sink of the list, in list order; or the list splits at the first
    accepting sink whose `write_log` throws: the accepting sinks before it were written, it left a `wthrow`,
    the sinks after it were not visited. (`log` is newest first, hence the `reverse`.) -/
theorem writeToSinks_spec (st : Stmt) : ∀ (sids : List Nat) (s : BSt),
    ((writeToSinks s st sids).2 = false ∧
      (writeToSinks s st sids).1.log = ((sids.filter (acc s st)).map (W st)).reverse ++ s.log) ∨
    (∃ pre sid post, sids = pre ++ sid :: post ∧ (writeToSinks s st sids).2 = true ∧ acc s st sid = true ∧
      (writeToSinks s st sids).1.log = Ev.wthrow sid st.id :: ((pre.filter (acc s st)).map (W st)).reverse ++ s.log)
  | [], s => Or.inl ⟨rfl, rfl⟩
  | sid :: rest, s => by
    unfold writeToSinks
    dsimp only
    have hcopy := (Frame.setSinkCopy s sid { s.sinkOf sid with wcalls := (s.sinkOf sid).wcalls + 1 }
      ⟨rfl, rfl, rfl, rfl, rfl, rfl⟩).core
    by_cases ha : sinkAccepts (s.sinkOf sid) st = true
    · rw [if_pos ha]
      split
      · exact Or.inr ⟨[], sid, rest, rfl, rfl, ha, rfl⟩
      · have hc := hcopy.trans (Core.emit _ (.write sid st.id st.lvl st.ts st.named))
        have hacc : acc _ st = acc s st := funext (fun x => acc_core hc st x)
        rcases writeToSinks_spec st rest _ with ⟨h1, h2⟩ | ⟨pre, sid', post, h1, h2, h3, h4⟩
        · left
          refine ⟨h1, ?_⟩
          rw [h2, hacc, List.filter_cons_of_pos (by exact ha)]
          simp [W]
        · right
          refine ⟨sid :: pre, sid', post, by rw [h1]; rfl, h2, by rw [← hacc]; exact h3, ?_⟩
          rw [h4, hacc, List.filter_cons_of_pos (by exact ha)]
          simp [W]
    · rw [if_neg ha]
      rcases writeToSinks_spec st rest s with ⟨h1, h2⟩ | ⟨pre, sid', post, h1, h2, h3, h4⟩
      · left
        refine ⟨h1, ?_⟩
        rw [h2, List.filter_cons_of_neg (by exact ha)]
      · right
        refine ⟨sid :: pre, sid', post, by rw [h1]; rfl, h2, h3, ?_⟩
        rw [h4, List.filter_cons_of_neg (by exact ha)]

/-- no sink is scheduled to throw on `write_log` -/
def NoWriteFault (s : BSt) : Prop := ∀ sid, (s.sinkOf sid).wthrow = []

theorem NoWriteFault.of_core {s s' : BSt} (h : NoWriteFault s) (c : Core s s') : NoWriteFault s' :=
  fun sid => (c.sinks sid).wthrow.trans (h sid)

theorem writeToSinks_nofault (st : Stmt) : ∀ (sids : List Nat) (s : BSt), NoWriteFault s →
    (writeToSinks s st sids).2 = false
  | [], _, _ => rfl
  | sid :: rest, s, h => by
    unfold writeToSinks
    dsimp only
    have hcopy := (Frame.setSinkCopy s sid { s.sinkOf sid with wcalls := (s.sinkOf sid).wcalls + 1 }
      ⟨rfl, rfl, rfl, rfl, rfl, rfl⟩).core
    split
    · rw [if_neg (by simp [throwsAt, h sid])]
      exact writeToSinks_nofault st rest _ (h.of_core (hcopy.trans (Core.emit _ _)))
    · exact writeToSinks_nofault st rest s h

/-! ### counting ordinary `write` events -/

/-- a `write` of statement `id` to sink `sid` that is not a backtrace replay -/
def ordWrite (sid id : Nat) : Ev → Bool
  | .write s i l _ _ => s == sid && i == id && l != 9
  | _ => false

def wcount (log : List Ev) (sid id : Nat) : Nat := log.countP (ordWrite sid id)

theorem ordWrite_of_not_write {e : Ev} (h : isWriteEv e = false) (sid id : Nat) : ordWrite sid id e = false := by
  cases e <;> simp_all [isWriteEv, ordWrite]

theorem wcount_nowrite {evs l : List Ev} (h : ∀ e ∈ evs, isWriteEv e = false) (sid id : Nat) :
    wcount (evs ++ l) sid id = wcount l sid id := by
  unfold wcount
  rw [List.countP_append]
  have : evs.countP (ordWrite sid id) = 0 := by
    rw [List.countP_eq_zero]
    intro e he
    simp [ordWrite_of_not_write (h e he)]
  omega

theorem wcount_emit_nowrite (s : BSt) (e : Ev) (h : isWriteEv e = false) (sid id : Nat) :
    wcount (s.emit e).log sid id = wcount s.log sid id :=
  wcount_nowrite (evs := [e]) (by simpa using h) sid id

/-- `writeToSinks` adds at most `count sid sids` ordinary writes of this statement to sink `sid`, and none
    for any other statement id or for a backtrace-level statement -/
theorem writeToSinks_wcount (st : Stmt) (sid id : Nat) : ∀ (sids : List Nat) (s : BSt),
    wcount (writeToSinks s st sids).1.log sid id ≤
      wcount s.log sid id + (if st.lvl ≠ 9 ∧ st.id = id then sids.count sid else 0)
  | [], s => by simp [writeToSinks]
  | x :: rest, s => by
    unfold writeToSinks
    dsimp only
    split
    · split
      · rw [wcount_emit_nowrite _ _ rfl]
        show wcount s.log sid id ≤ _
        omega
      · have ih := writeToSinks_wcount st sid id rest
          ((s.setSink x (fun _ => { s.sinkOf x with wcalls := (s.sinkOf x).wcalls + 1 })).emit
            (.write x st.id st.lvl st.ts st.named))
        have h1 : wcount ((s.setSink x (fun _ => { s.sinkOf x with wcalls := (s.sinkOf x).wcalls + 1 })).emit
            (.write x st.id st.lvl st.ts st.named)).log sid id =
            wcount s.log sid id + (if x = sid ∧ st.id = id ∧ st.lvl ≠ 9 then 1 else 0) := by
          simp only [wcount, emit_log, setSink_log, List.countP_cons, ordWrite]
          congr 1
          by_cases h1 : x = sid <;> by_cases h2 : st.id = id <;> by_cases h3 : st.lvl = 9 <;> simp [h1, h2, h3]
        rw [List.count_cons]
        by_cases h1' : x = sid <;> by_cases h2 : st.id = id <;> by_cases h3 : st.lvl = 9 <;>
          simp_all <;> omega
    · have ih := writeToSinks_wcount st sid id rest s
      rw [List.count_cons]
      split at ih <;> simp_all <;> omega

end Backend.PA
