import QuillModel.Backend.LiftRingPop
/-!
# The ring potential (part 3): start states, every schedule, and the bound by statement id

`InvRg` holds in every freshly started system running the repaired replay callback, `InvRg.closed` carries it through every
schedule, and with the invariants of bundle A (`Inv`: conservation, unique ids, pop-history merge) the grants of one
statement id collapse to the multiplicity of the sink in that statement's logger.
-/
namespace Backend.PA
open Backend Spsc

theorem sumR_zero (f : Nat → Nat) (n : Nat) (h : ∀ j, j < n → f j = 0) : sumR f n = 0 :=
  sumR_extend f 0 n (Nat.zero_le _) (fun j _ hj => h j hj)

theorem Fresh.invRg {s : BSt} (h : Fresh s) (hc : s.cfg.replayCatchesPerEvent = true) : InvRg s := by
  refine ⟨hc, fun i r hr => ?_, fun sid id => ?_⟩
  · rw [h.rings i] at hr; cases hr
  · have h1 : bwcount s.log sid id = 0 := by rw [h.log]; rfl
    have h2 : ringPot s sid id = 0 := sumR_zero _ _ (fun j _ => by simp [lgCnt, h.rings j])
    omega

theorem InvRg.run {s : BSt} (h : InvRg s) (ops : List Op) : InvRg (runOps s ops) := runOps_closed InvRg.closed ops s h

/-- **at most once, every level.** An `Event::Log` statement (ordinary or backtrace) accepted by some queue is handed to
    sink `sid` at most as often as `sid` occurs in its logger's sink list — over the whole history, replays included. -/
theorem InvRg.at_most_once {s : BSt} (h : Inv s) (hr : InvRg s) (i : Nat) (st : Stmt) (hm : st ∈ (s.th i).accepted)
    (hk : isLogKind st.kind = true) (sid : Nat) : bwcount s.log sid st.id ≤ (s.lgOf st.lg).sinks.count sid := by
  refine Nat.le_trans (Nat.le_trans (Nat.le_add_right _ _) (hr.bound sid st.id)) ?_
  unfold btBound
  have hlog : logq st.id st = true := by simp [logq, hk]
  have huniq : cA s (logq st.id) ≤ 1 := by rw [← cntA_eq_cA]; have := h.b.uniq st.id; unfold tot at this; omega
  -- every popped `Event::Log` statement carrying this id is logged through the same logger
  have hlg : ∀ x ∈ s.popLog.filter (logq st.id), x.lg = st.lg := by
    intro x hx
    obtain ⟨hxm, hxq⟩ := List.mem_filter.mp hx
    by_cases hne : x.lg = st.lg
    · exact hne
    exfalso
    have hq'x : (fun y : Stmt => logq st.id y && !(y.lg == st.lg)) x = true := by simp [hxq, hne]
    have h1 : 1 ≤ s.popLog.countP (fun y : Stmt => logq st.id y && !(y.lg == st.lg)) :=
      List.countP_pos_iff.mpr ⟨x, hxm, hq'x⟩
    have h2 : 1 ≤ cA s (fun y : Stmt => logq st.id y && !(y.lg == st.lg)) := by
      have := h.p (fun y : Stmt => logq st.id y && !(y.lg == st.lg))
      have := cntP_le_cA h.a (fun y : Stmt => logq st.id y && !(y.lg == st.lg))
      omega
    have h3 : 1 ≤ cA s (fun y => logq st.id y && (y.lg == st.lg)) := cA_pos hm _ (by simp [hlog])
    have h4 := cA_split s (logq st.id) (fun y => y.lg == st.lg)
    omega
  rw [sum_map_const _ _ ((s.lgOf st.lg).sinks.count sid) (fun x hx => by rw [hlg x hx])]
  have hlen : (s.popLog.filter (logq st.id)).length ≤ 1 := by
    rw [← List.countP_eq_length_filter]
    have h1 := h.p (logq st.id)
    have h2 := cntP_le_cA h.a (logq st.id)
    omega
  generalize (s.popLog.filter (logq st.id)).length = n at hlen
  match n, hlen with
  | 0, _ => simp
  | 1, _ => simp

/-- nothing is handed to a sink before the pop: an `Event::Log` statement still in a transit buffer or in a queue has no
    `write` event of any level in the whole history -/
theorem InvRg.unpopped_unwritten {s : BSt} (h : Inv s) (hr : InvRg s) (i : Nat) (st : Stmt)
    (hm : st ∈ (s.th i).buf ++ (s.th i).qStmts) (hk : isLogKind st.kind = true) (sid : Nat) :
    bwcount s.log sid st.id = 0 := by
  have hb := hr.bound sid st.id
  suffices hz : btBound s sid st.id = 0 by omega
  unfold btBound
  have hlog : logq st.id st = true := by simp [logq, hk]
  have huniq : cA s (logq st.id) ≤ 1 := by rw [← cntA_eq_cA]; have := h.b.uniq st.id; unfold tot at this; omega
  have hi : i < s.ths.length := by
    by_cases hi : i < s.ths.length
    · exact hi
    · rw [th_default_of_ge s i (by omega)] at hm; cases hm
  -- the statement is accepted but not popped, so (ids being unique) no popped statement carries its id
  have hP : cntP s (logq st.id) = 0 := by
    have hacc : (s.th i).accepted.countP (logq st.id) = (s.th i).popped.countP (logq st.id) +
        ((s.th i).buf ++ (s.th i).qStmts).countP (logq st.id) := by
      rw [(h.a.th i).cons, List.append_assoc, List.countP_append]
    have h1 : 1 ≤ ((s.th i).buf ++ (s.th i).qStmts).countP (logq st.id) := List.countP_pos_iff.mpr ⟨st, hm, hlog⟩
    have hle : ∀ t ∈ s.ths, t.popped.countP (logq st.id) ≤ t.accepted.countP (logq st.id) := by
      intro t ht
      obtain ⟨j, rfl⟩ := mem_ths_th ht
      rw [(h.a.th j).cons, List.countP_append, List.countP_append]; omega
    -- Σ popped + (accepted_i − popped_i) ≤ Σ accepted
    have key : ∀ (l : List Th) (k : Nat) (hk : k < l.length),
        (∀ t ∈ l, t.popped.countP (logq st.id) ≤ t.accepted.countP (logq st.id)) →
        (l.map (fun t => t.popped.countP (logq st.id))).sum + l[k].accepted.countP (logq st.id) ≤
        (l.map (fun t => t.accepted.countP (logq st.id))).sum + l[k].popped.countP (logq st.id) := by
      intro l
      induction l with
      | nil => intro k hk; cases hk
      | cons t ts ih =>
        intro k hk hall
        cases k with
        | zero =>
          simp only [List.map_cons, List.sum_cons, List.getElem_cons_zero]
          have := sum_map_le ts (fun t => t.popped.countP (logq st.id)) (fun t => t.accepted.countP (logq st.id))
            (fun y hy => hall y (by simp [hy]))
          omega
        | succ k =>
          simp only [List.map_cons, List.sum_cons, List.getElem_cons_succ]
          have := ih k (by simpa using hk) (fun y hy => hall y (by simp [hy]))
          have := hall t (by simp)
          omega
    have hk2 := key s.ths i hi hle
    rw [← th_eq_getElem s i hi] at hk2
    unfold cA at huniq
    unfold cntP
    omega
  have hlen : (s.popLog.filter (logq st.id)).length = 0 := by
    rw [← List.countP_eq_length_filter, h.p (logq st.id)]; exact hP
  have : s.popLog.filter (logq st.id) = [] := List.eq_nil_of_length_eq_zero hlen
  rw [this]; rfl

end Backend.PA
