import QuillModel.Backend.LiftObsDefs
/-!
Character-level facts on the observation texts: which formats the classifiers `isDropObs`, `isRet0Obs`,
`isAttemptObs` accept. Helper lemmas only.
-/
namespace Backend.PC
open Backend

/-- reversed digits of a number -/
def rd (n : Nat) : List Char := (Nat.toDigits 10 n).reverse

theorem rd_digit (n : Nat) : ∀ c ∈ rd n, c.isDigit = true := by
  intro c hc
  have hc' : c ∈ Nat.toDigits 10 n := by simpa [rd] using hc
  exact Nat.isDigit_of_mem_toDigits (by decide) (by decide) hc'

theorem rd_ne_nil (n : Nat) : rd n ≠ [] := by
  simp [rd, Nat.toDigits_ne_nil]

theorem rd_ne_zero {n : Nat} (h : 0 < n) : rd n ≠ ['0'] := by
  intro e
  have e1 : Nat.toDigits 10 n = ['0'] := by
    have := congrArg List.reverse e
    simpa [rd] using this
  have e2 : Nat.ofDigitChars 10 (Nat.toDigits 10 n) 0 = n := Nat.ofDigitChars_ten_toDigits
  rw [e1] at e2
  have e3 : Nat.ofDigitChars 10 ['0'] 0 = 0 := by decide
  omega

theorem tw_digits (l r : List Char) (c : Char) (h : ∀ x ∈ l, x.isDigit = true) (hc : c.isDigit = false) :
    (l ++ c :: r).takeWhile Char.isDigit = l := by
  induction l with
  | nil => simp [hc]
  | cons x xs ih =>
    have hx := h x (by simp)
    simp only [List.cons_append, List.takeWhile_cons, hx, ↓reduceIte]
    rw [ih (fun y hy => h y (by simp [hy]))]

theorem dw_digits (l r : List Char) (c : Char) (h : ∀ x ∈ l, x.isDigit = true) (hc : c.isDigit = false) :
    (l ++ c :: r).dropWhile Char.isDigit = c :: r := by
  induction l with
  | nil => simp [hc]
  | cons x xs ih =>
    have hx := h x (by simp)
    simp only [List.cons_append, List.dropWhile_cons, hx, ↓reduceIte]
    rw [ih (fun y hy => h y (by simp [hy]))]

/-- a pattern `0=…` read backwards from the end of a text that ends with `=<digits>` -/
theorem pre0 (D P T : List Char) (hd : ∀ x ∈ D, x.isDigit = true)
    (h : ('0' :: '=' :: P).isPrefixOf (D ++ '=' :: T) = true) : D = ['0'] ∧ P.isPrefixOf T = true := by
  match D, hd, h with
  | [], _, h => simp at h
  | [d], _, h =>
    simp at h
    exact ⟨by rw [← h.1], by simpa using h.2⟩
  | d :: d2 :: D', hd, h =>
    have h2 : d2.isDigit = true := hd d2 (by simp)
    have : d2 ≠ '=' := by
      intro e; rw [e] at h2; exact absurd h2 (by decide)
    simp at h
    exact absurd h.2.1.symm this

theorem isDropObs_rev (t : String) : isDropObs t = " ev=1 bytes=0".toList.reverse.isPrefixOf t.toList.reverse := rfl
theorem isRet0Obs_rev (t : String) : isRet0Obs t = " ret=0 ev=1 bytes=0".toList.reverse.isPrefixOf t.toList.reverse := rfl

/-- 1. a refused LOG_DYNAMIC line is in particular a refused line -/
theorem ret0_drop (t : String) : isRet0Obs t = true → isDropObs t = true := by
  unfold isRet0Obs isDropObs
  rw [List.isSuffixOf_iff_suffix, List.isSuffixOf_iff_suffix]
  intro h
  exact List.IsSuffix.trans ⟨" ret=0".toList, by decide⟩ h

theorem not_drop_not_ret0 {t : String} (h : isDropObs t = false) : isRet0Obs t = false := by
  cases e : isRet0Obs t
  · rfl
  · rw [ret0_drop t e] at h; exact h

/-- a text that ends with `=<digits>`: it is a refused line only if the digits are `0` and the text before them fits -/
theorem digEnd_drop (t : String) (D T : List Char) (hd : ∀ x ∈ D, x.isDigit = true)
    (e : t.toList.reverse = D ++ '=' :: T)
    (hT : "setyb 1=ve ".toList.isPrefixOf T = false ∨ D ≠ ['0']) : isDropObs t = false := by
  rw [Bool.eq_false_iff]
  intro h
  rw [isDropObs_rev, e] at h
  have e2 : " ev=1 bytes=0".toList.reverse = '0' :: '=' :: "setyb 1=ve ".toList := by decide
  rw [e2] at h
  have h2 := pre0 _ _ _ hd h
  cases hT with
  | inl hT => rw [hT] at h2; exact absurd h2.2 (by decide)
  | inr hT => exact hT h2.1

/-- a text that ends with `=<digits>`: it is an attempted line exactly when the text before the digits fits -/
theorem digEnd_attempt (t : String) (D T : List Char) (hd : ∀ x ∈ D, x.isDigit = true) (hne : D ≠ [])
    (e : t.toList.reverse = D ++ '=' :: T) : isAttemptObs t = "setyb 1=ve ".toList.isPrefixOf T := by
  unfold isAttemptObs
  rw [e, tw_digits _ _ _ hd (by decide), dw_digits _ _ _ hd (by decide)]
  have e2 : " ev=1 bytes=".toList.reverse = '=' :: "setyb 1=ve ".toList := by decide
  rw [e2]
  cases D with
  | nil => exact absurd rfl hne
  | cons d D' => simp [List.isPrefixOf]

/-- 2. the quiet formats are neither refused nor attempted log lines -/
theorem quiet_cls {t : String} (h : Quiet t) :
    isDropObs t = false ∧ isRet0Obs t = false ∧ isAttemptObs t = false := by
  cases h with
  | ok => decide
  | noop => decide
  | done => decide
  | ev => decide
  | sleep => decide
  | stall => decide
  | idStall n =>
    refine ⟨?_, ?_, ?_⟩
    · rw [isDropObs_rev]; simp [String.toList_append, toString, Nat.toList_repr, List.isPrefixOf]
    · rw [isRet0Obs_rev]; simp [String.toList_append, toString, Nat.toList_repr, List.isPrefixOf]
    · unfold isAttemptObs; simp [String.toList_append, toString, Nat.toList_repr, List.isPrefixOf]
  | idSleep n =>
    refine ⟨?_, ?_, ?_⟩
    · rw [isDropObs_rev]; simp [String.toList_append, toString, Nat.toList_repr, List.isPrefixOf]
    · rw [isRet0Obs_rev]; simp [String.toList_append, toString, Nat.toList_repr, List.isPrefixOf]
    · unfold isAttemptObs; simp [String.toList_append, toString, Nat.toList_repr, List.isPrefixOf]
  | skip n =>
    refine ⟨?_, ?_, ?_⟩
    · rw [isDropObs_rev]; simp [String.toList_append, toString, Nat.toList_repr, List.isPrefixOf]
    · rw [isRet0Obs_rev]; simp [String.toList_append, toString, Nat.toList_repr, List.isPrefixOf]
    · unfold isAttemptObs
      simp [String.toList_append, toString, Nat.toList_repr, List.isPrefixOf, List.takeWhile, List.dropWhile]
  | ev0 n =>
    refine ⟨?_, ?_, ?_⟩
    · rw [isDropObs_rev]; simp [String.toList_append, toString, Nat.toList_repr, List.isPrefixOf]
    · rw [isRet0Obs_rev]; simp [String.toList_append, toString, Nat.toList_repr, List.isPrefixOf]
    · unfold isAttemptObs
      simp [String.toList_append, toString, Nat.toList_repr, List.isPrefixOf, List.takeWhile, List.dropWhile]
  | created k =>
    have e : (s!"ok valid=1 nsinks={k}").toList.reverse = rd k ++ '=' :: "sknisn 1=dilav ko".toList := by
      simp [String.toList_append, toString, Nat.toList_repr, rd]
    have hd := digEnd_drop _ _ _ (rd_digit k) e (Or.inl (by decide))
    refine ⟨hd, not_drop_not_ret0 hd, ?_⟩
    rw [digEnd_attempt _ _ _ (rd_digit k) (rd_ne_nil k) e]
    decide
  | query a b =>
    have e : (s!"contexts={a} loggers={b}").toList.reverse =
        rd b ++ '=' :: ("sreggol ".toList ++ rd a ++ "=stxetnoc".toList) := by
      simp [String.toList_append, toString, Nat.toList_repr, rd]
    have hp : "setyb 1=ve ".toList.isPrefixOf ("sreggol ".toList ++ rd a ++ "=stxetnoc".toList) = false := by
      simp [List.isPrefixOf]
    have hd := digEnd_drop _ _ _ (rd_digit b) e (Or.inl hp)
    refine ⟨hd, not_drop_not_ret0 hd, ?_⟩
    rw [digEnd_attempt _ _ _ (rd_digit b) (rd_ne_nil b) e]
    exact hp

/-- 3. the line of a refused LOG_DYNAMIC call -/
theorem drop0_cls (n : Nat) :
    isDropObs s!"id={n} ret=0 ev=1 bytes=0" = true ∧ isRet0Obs s!"id={n} ret=0 ev=1 bytes=0" = true ∧
      isAttemptObs s!"id={n} ret=0 ev=1 bytes=0" = true := by
  have h2 : isRet0Obs s!"id={n} ret=0 ev=1 bytes=0" = true := by
    rw [isRet0Obs_rev]; simp [String.toList_append, toString, Nat.toList_repr, List.isPrefixOf]
  refine ⟨ret0_drop _ h2, h2, ?_⟩
  unfold isAttemptObs
  simp [String.toList_append, toString, Nat.toList_repr, List.isPrefixOf, List.takeWhile, List.dropWhile]

/-- 4. the line of a refused ordinary log call -/
theorem drop5_cls (n : Nat) :
    isDropObs s!"id={n} ev=1 bytes=0" = true ∧ isRet0Obs s!"id={n} ev=1 bytes=0" = false ∧
      isAttemptObs s!"id={n} ev=1 bytes=0" = true := by
  refine ⟨?_, ?_, ?_⟩
  · rw [isDropObs_rev]; simp [String.toList_append, toString, Nat.toList_repr, List.isPrefixOf]
  · rw [Bool.eq_false_iff]
    intro h
    rw [isRet0Obs_rev] at h
    have e : (s!"id={n} ev=1 bytes=0").toList.reverse = "0=setyb 1=ve ".toList ++ (rd n ++ '=' :: "di".toList) := by
      simp [String.toList_append, toString, Nat.toList_repr, rd]
    have e2 : " ret=0 ev=1 bytes=0".toList.reverse = "0=setyb 1=ve ".toList ++ ('0' :: '=' :: "ter ".toList) := by decide
    rw [e, e2] at h
    have h3 : ('0' :: '=' :: "ter ".toList).isPrefixOf (rd n ++ '=' :: "di".toList) = true := by
      simpa [List.isPrefixOf] using h
    exact absurd (pre0 _ _ _ (rd_digit n) h3).2 (by decide)
  · unfold isAttemptObs
    simp [String.toList_append, toString, Nat.toList_repr, List.isPrefixOf, List.takeWhile, List.dropWhile]

/-- the line of an accepted log call, general form -/
theorem acc_cls' (id sz : Nat) (r : String) (hsz : 0 < sz) :
    isDropObs s!"id={id}{r} ev=1 bytes={sz}" = false ∧ isRet0Obs s!"id={id}{r} ev=1 bytes={sz}" = false ∧
      isAttemptObs s!"id={id}{r} ev=1 bytes={sz}" = true := by
  have e : (s!"id={id}{r} ev=1 bytes={sz}").toList.reverse =
      rd sz ++ '=' :: ("setyb 1=ve ".toList ++ (r.toList.reverse ++ (rd id ++ "=di".toList))) := by
    simp [String.toList_append, toString, Nat.toList_repr, rd]
  have hd := digEnd_drop _ _ _ (rd_digit sz) e (Or.inr (rd_ne_zero hsz))
  refine ⟨hd, not_drop_not_ret0 hd, ?_⟩
  rw [digEnd_attempt _ _ _ (rd_digit sz) (rd_ne_nil sz) e]
  simp [List.isPrefixOf]

/-- 5. the line of an accepted log call -/
theorem acc_cls (st : Stmt) (c : Nat) (hc : c = 0 ∨ c = 5) (hsz : 0 < st.size) :
    isDropObs (obsLog st c (some true) st.size) = false ∧ isRet0Obs (obsLog st c (some true) st.size) = false ∧
      isAttemptObs (obsLog st c (some true) st.size) = true := by
  cases hc with
  | inl h => subst h; exact acc_cls' st.id st.size " ret=1" hsz
  | inr h => subst h; exact acc_cls' st.id st.size "" hsz

end Backend.PC
