import QuillModel.Backend.Model
/-!
Frontend calls and the backend poll of the model (`Backend/Model.lean`), written to mirror the control flow of
the C++ one-to-one. Loops carry explicit fuel (always larger than the number of iterations possible).
-/
namespace Backend
open Spsc

/-! ### frontend -/

def mkTh (c : Cfg) (a : Nat) : Th := { actor := a, q := init c.qcap c.batch }

/-- `get_local_thread_context`: create and register the context on first use -/
def ensureCtx (s : BSt) (a : Nat) : BSt × Nat :=
  match (s.actor a).bind (·.ctx) with
  | some i => (s, i)
  | none =>
    let i := s.ths.length
    let s1 := { s with ths := s.ths ++ [mkTh s.cfg a], registry := s.registry ++ [i], newFlag := true }
    (s1.setActor a (fun x => { x with ctx := some i }), i)

/-- one reservation attempt; on success the record is written and committed -/
def tryEnq (s : BSt) (ci : Nat) (st : Stmt) : BSt × Bool :=
  let th := s.th ci
  let r := qPrepareWrite s.cfg th.q st.size
  if r.2 then
    let st := { st with enqAt := s.now }
    (s.setTh ci (fun t => { t with q := qFinishCommit s.cfg r.1 st.size, qStmts := t.qStmts ++ [st],
                                   accepted := t.accepted ++ [st] }), true)
  else (s.setTh ci (fun t => { t with q := r.1 }), false)

def isLogKind : Kind → Bool | .log => true | _ => false

def obsLog (st : Stmt) (cont : Nat) (ret : Option Bool) (bytes : Nat) : String :=
  let r := match cont, ret with
    | 0, some true => " ret=1" | 0, some false => " ret=0" | _, _ => ""
  s!"id={st.id}{r} ev=1 bytes={bytes}"

/-- what follows a successful enqueue, depending on which public call made it -/
def afterEnq (s : BSt) (a : Nat) (st : Stmt) (cont : Nat) : BSt × String :=
  match cont, st.kind with
  | 1, .flush f => (s.setActor a (fun x => { x with pend := .flag f }), "parked:sleep")
  | 2, .initBt _ fl => (s.setLg st.lg (fun l => { l with btFlush := fl }), "done")
  | 3, _ => (s, "done")
  | 4, .removal f =>
      let s1 := s.setLg st.lg (fun l => { l with valid := false })
      ({ s1 with hasInvalidLoggers := true }.setActor a (fun x => { x with pend := .flag f }), "parked:sleep")
  | c, _ => (s, obsLog st c (some true) st.size)

/-- the body of `log_statement` after the timestamp was taken: register, reserve, write or drop/block.
    `first`: this is the first attempt of the call (the failure counter is bumped once per blocked call);
    `initial`: the observation belongs to the line that started the call (it then carries the statement id). -/
def enqFlow (s : BSt) (a : Nat) (st : Stmt) (cont : Nat) (first : Bool) (initial : Bool := first) : BSt × String :=
  let (s1, ci) := ensureCtx s a
  let (s2, ok) := tryEnq s1 ci st
  if ok then afterEnq (s2.setActor a (fun x => { x with pend := .none })) a st cont
  else
    let bump (x : BSt) : BSt :=
      if isLogKind st.kind then
        x.setTh ci (fun t => { t with fail := t.fail + 1,
                                      discarded := t.discarded + (if s.cfg.dropping then 1 else 0),
                                      blockedCalls := t.blockedCalls + (if s.cfg.dropping then 0 else 1) })
      else x
    if s.cfg.dropping then
      let s3 := bump s2
      if cont = 0 ∨ cont = 5 then
        (s3.setActor a (fun x => { x with pend := .none }),
         if cont = 0 then s!"id={st.id} ret=0 ev=1 bytes=0" else s!"id={st.id} ev=1 bytes=0")
      else (s3.setActor a (fun x => { x with pend := .retry st cont }), "parked:sleep")
    else
      let s3 := if first then bump s2 else s2
      (s3.setActor a (fun x => { x with pend := .retry st cont }),
       if initial ∧ (cont = 0 ∨ cont = 5) then s!"id={st.id} parked:sleep" else "parked:sleep")

def stmtSize (c : Cfg) (k : Kind) (id len : Nat) (dyn : Bool) (gid : Nat) : Nat :=
  match k with
  | .log => c.hdr + c.strOverhead + payloadLen id len + (if dyn then 1 else 0)
  | .initBt _ _ => c.hdr + 4
  | .flushBt => c.hdr
  | .flush _ => c.hdr + 8
  | .removal _ => c.hdr + 8 + c.strOverhead + (1 + digits gid)

/-- a statement-producing public call by actor `a` through logger object `lg`.
    `cont` as in `Pend`; `dyn`: dynamic-level macro; `lvl`: statement level. -/
def frontCall (s : BSt) (a : Nat) (lgi : Nat) (kind : Kind) (lvl len cont : Nat) (dyn : Bool) (id : Nat)
    (named : Bool := false) : BSt × String :=
  let lg := s.lgOf lgi
  let st : Stmt := { id := id, kind := kind, lg := lgi, lvl := lvl, ts := s.now,
                     size := stmtSize s.cfg kind id len dyn lg.gid, actor := a, named := named }
  let stalled := ((s.actor a).map (·.stallArmed)).getD false
  if stalled then
    (s.setActor a (fun x => { x with stallArmed := false, pend := .stall st cont }),
     if cont = 0 ∨ cont = 5 then s!"id={id} parked:stall" else "parked:stall")
  else enqFlow s a st cont true

/-- `R a` -/
def resume (s : BSt) (a : Nat) : BSt × String :=
  match ((s.actor a).map (·.pend) : Option Pend) with
  | some (Pend.stall st cont) => enqFlow s a st cont true false
  | some (Pend.retry st cont) =>
      if s.cfg.dropping then enqFlow s a { st with ts := s.now } cont true false  -- a fresh `log_statement` call
      else enqFlow s a st cont false
  | some (Pend.flag f) =>
      if s.flags.contains f then (s.setActor a (fun x => { x with pend := .none }), "done")
      else (s, "parked:sleep")
  | _ => (s, "noop")

/-! ### backend: dispatch -/

def throwsAt (l : List Nat) (k : Nat) : Bool := l.contains k

/-- `_write_log_statement`: every sink of the logger in order; a throwing `write_log` aborts the rest.
    Returns the state and whether an exception escaped. -/
def writeToSinks (s : BSt) (st : Stmt) : List Nat → BSt × Bool
  | [] => (s, false)
  | sid :: rest =>
    let k := s.sinkOf sid
    if sinkAccepts k st then
      let k' := { k with wcalls := k.wcalls + 1 }
      let s1 := s.setSink sid (fun _ => k')
      if throwsAt k.wthrow k'.wcalls then (s1.emit (.wthrow sid st.id), true)
      else writeToSinks (s1.emit (.write sid st.id st.lvl st.ts st.named)) st rest
    else writeToSinks s st rest

def dispatch (s : BSt) (st : Stmt) : BSt × Bool := writeToSinks s st (s.lgOf st.lg).sinks

/-- `BacktraceStorage::process`: replay in ring order; the ring is cleared only if no exception escaped the callback.
    F26: with the callback `_replay_backtrace_event` (`replayCatchesPerEvent`, extracted) a sink exception is caught per
    stored event, reported through the notifier, and the replay goes on — so no exception escapes and the ring is always
    cleared; with the pinned callback (plain dispatch) the exception aborts the replay and the ring keeps everything. -/
def replayRing (s : BSt) (lgi : Nat) : BSt × Bool :=
  match (s.lgOf lgi).bt with
  | none => (s, false)
  | some r =>
    let rec go (s : BSt) : List Stmt → BSt × Bool
      | [] => (s, false)
      | x :: xs =>
        let r := dispatch s x
        if r.2 then (if r.1.cfg.replayCatchesPerEvent then go (r.1.emit (.notify "n:wfail")) xs else r) else go r.1 xs
    let res := go s r.replay
    if res.2 then res else (res.1.setLg lgi (fun l => { l with bt := some r.cleared }), false)

/-- stable insertion sort (structurally recursive, so that concrete schedules evaluate in the kernel) -/
def insSorted {α} (le : α → α → Bool) : List α → List α
  | [] => []
  | x :: xs =>
    let rec ins (x : α) : List α → List α
      | [] => [x]
      | y :: ys => if le x y then x :: y :: ys else y :: ins x ys
    ins x (insSorted le xs)

/-- unique sinks of the valid loggers, in `LoggerManager` order (sorted by name = by gid for gid < 10) -/
def activeSinks (s : BSt) : List Nat :=
  let live := (s.lgs.filter (fun l => !l.erased && (l.valid || s.cfg.flushInvalidatedLoggers)))
  let sorted := insSorted (fun a b => decide (a.gid ≤ b.gid)) live
  (sorted.flatMap (·.sinks)).eraseDups

/-- `_flush_and_run_active_sinks` with "always flush": per-sink try/catch -/
def flushSinks (s : BSt) : BSt :=
  (activeSinks s).foldl (fun s sid =>
    let k := s.sinkOf sid
    let k' := { k with fcalls := k.fcalls + 1 }
    let s1 := s.setSink sid (fun _ => k')
    if throwsAt k.fthrow k'.fcalls then (s1.emit (.fthrow sid)).emit (.notify "n:ffail")
    else s1.emit (.flushed sid)) s

/-- `_flush_and_run_active_sinks(_, interval)`: interval 0 = always flush (no clock read); otherwise the steady clock is
    read (site 7: a clock read of the backend) and the sinks are flushed only if more than `interval` has passed since
    `_last_sink_flush_time`, which is then updated. Call sites: the idle branch of `_poll` passes the option
    (`cfg.flushInterval`); the Flush event and `_exit` pass the literal 0 (`flushSinks` directly). -/
def flushGate (inj : BSt → Nat → BSt) (s : BSt) (interval : Nat) : BSt :=
  if interval = 0 then flushSinks s
  else
    let s1 := inj s 7
    if interval < s1.now - s1.lastFlush then flushSinks { s1 with lastFlush := s1.now } else s1

/-- F33 repair, head of `_cleanup_invalidated_loggers`: `if (has_invalidated_loggers()) _flush_and_run_active_sinks(false, 0)` -/
def preEraseFlush (s : BSt) : BSt :=
  if s.cfg.flushBeforeLoggerErase && s.hasInvalidLoggers then flushSinks s else s

/-! ### backend: context and logger clean-up -/

def ctxEmpty (s : BSt) (i : Nat) : BSt × Bool :=
  let th := s.th i
  let r := qEmpty s.cfg th.q
  (s.setTh i (fun t => { t with q := r.1 }), r.2 && th.buf.isEmpty)

def refreshCache (s : BSt) : BSt :=
  if s.newFlag then { s with cache := s.registry, newFlag := false } else s

/-- `_check_frontend_queues_and_cached_transit_events_empty` (refreshes the cache first; no early exit) -/
def allEmpty (s : BSt) : BSt × Bool :=
  let s0 := refreshCache s
  s0.cache.foldl (fun (acc : BSt × Bool) i => let r := ctxEmpty acc.1 i; (r.1, acc.2 && r.2)) (s0, true)

def counterMod (c : Cfg) (n : Nat) : Nat := n % 2 ^ c.invalidBits

/-- `_cleanup_invalidated_thread_contexts` -/
def cleanupContexts (s : BSt) : BSt :=
  if s.invalidCnt = 0 then s else
  let rec go : Nat → BSt → BSt
    | 0, s => s
    | fuel + 1, s =>
      let rec findFirst (s : BSt) : List Nat → BSt × Option Nat
        | [] => (s, none)
        | i :: rest =>
          if (s.th i).valid then findFirst s rest
          else let r := ctxEmpty s i
               -- F24: an unreported failure counter keeps the context (the next `checkFailures` reports it)
               if r.2 && (!s.cfg.cleanupKeepsUnreported || (s.th i).fail == 0) then (r.1, some i) else findFirst r.1 rest
      match findFirst s s.cache with
      | (s1, none) => s1
      | (s1, some i) =>
        let s2 := { s1 with registry := s1.registry.filter (· ≠ i), cache := s1.cache.filter (· ≠ i),
                             invalidCnt := counterMod s1.cfg (s1.invalidCnt + 2 ^ s1.cfg.invalidBits - 1) }
        go fuel (s2.setTh i (fun t => { t with removed := true }))
  go (s.cache.length + 1) s

/-- reference count of a sink: the user's own reference plus one per live logger object holding it -/
def sinkRefs (s : BSt) (sid : Nat) : Nat :=
  (if (s.sinkOf sid).userRef then 1 else 0) + (s.lgs.filter (fun l => !l.erased && l.sinks.contains sid)).length

def reapSinks (s : BSt) (sids : List Nat) : BSt :=
  sids.foldl (fun s sid =>
    if (s.sinkOf sid).alive && sinkRefs s sid = 0 then (s.setSink sid (fun k => { k with alive := false })).emit (.sinkDtor sid)
    else s) s

/-- the sinks released by a logger that `_cleanup_invalidated_loggers` erases: like `reapSinks`, and the frontend keeps
    running while a sink destructor runs (site 9; the `LoggerManager` lock is held, see `runInj`) -/
def reapSinksInj (inj : BSt → Nat → BSt) (s : BSt) (sids : List Nat) : BSt :=
  sids.foldl (fun s sid =>
    if (s.sinkOf sid).alive && sinkRefs s sid = 0 then
      inj ((s.setSink sid (fun k => { k with alive := false })).emit (.sinkDtor sid)) 9
    else s) s

/-- `_cleanup_invalidated_loggers`: erase invalid loggers while everything is empty; raise removal flags -/
def cleanupLoggers (inj : BSt → Nat → BSt) (s : BSt) : BSt :=
  if !s.hasInvalidLoggers then s else
  let s0 := { s with hasInvalidLoggers := false }
  let order := insSorted (fun a b => decide ((s0.lgOf a).gid ≤ (s0.lgOf b).gid))
                 ((List.range s0.lgs.length).filter (fun i => !(s0.lgOf i).erased))
  let step (acc : BSt × List Nat) (i : Nat) : BSt × List Nat :=
    let s := acc.1
    if (s.lgOf i).valid then acc else
    let r := allEmpty s
    if r.2 then
      let s1 := r.1.setLg i (fun l => { l with erased := true })
      (reapSinksInj inj s1 (s.lgOf i).sinks, acc.2 ++ [(s.lgOf i).gid])
    else ({ r.1 with hasInvalidLoggers := true }, acc.2)
  let (s1, removed) := order.foldl step (s0, [])
  removed.foldl (fun s gid =>
    match s.removalFlags.find? (·.1 = gid) with
    | some (_, f) => { s with flags := f :: s.flags, flagLog := (f, s.log.length) :: s.flagLog,
                              removalFlags := s.removalFlags.filter (·.1 ≠ gid) }
    | none => s) s1

/-! ### backend: reading a queue, processing an event -/

def tsNowOf (s : BSt) : Option Nat := if s.cfg.grace = 0 then none else some (s.now - s.cfg.grace)

/-- `_populate_formatted_log_message` while a record is decoded: a formatter exception is caught, the error text replaces
    the message and the error notifier is called once (`n:fmterr`); only `Event::Log` records are formatted. This is the
    repaired catch (`catchAllFormat = true`: `catch (...)` too); the pinned F4 behaviour (a non-`std` exception escapes the
    whole poll before `finish_read`) is not modelled here -/
def fmtNote (s : BSt) (st : Stmt) : BSt :=
  if isLogKind st.kind && s.cfg.fmtFault st.id != 0 then s.emit (.notify "n:fmterr") else s

/-- `_read_and_decode_frontend_queue` for context `i`; `inj` runs the operations injected at site 3.
    Every exit ends like the C++ (`if (total_bytes_read != 0) commit_read()`), also the one that only exists in the
    model (loop fuel exhausted: unreachable unless more than 63 eligible records are injected into one single read). -/
def readQueue (inj : BSt → Nat → BSt) (tsNow : Option Nat) (i : Nat) : Nat → Nat → BSt → BSt
  | 0, total, s => if total ≠ 0 then s.setTh i (fun t => { t with q := qCommitRead s.cfg t.q }) else s
  | fuel + 1, total, s =>
    let th := s.th i
    let r := qPrepareRead s.cfg th.q
    let s1 := s.setTh i (fun t => { t with q := r.1 })
    let fin (s : BSt) : BSt := if total ≠ 0 then s.setTh i (fun t => { t with q := qCommitRead s.cfg t.q }) else s
    if !r.2 then fin s1 else
    match th.qStmts with
    | [] => fin s1
    | st :: rest =>
      if (match tsNow with | some t => decide (t < st.ts) | none => false) then fin s1 else
      -- decode: a removal request records its flag now
      let s2 := match st.kind with
        | .removal f => { s1 with removalFlags := s1.removalFlags ++ [((s1.lgOf st.lg).gid, f)] }
        | _ => s1
      let s3 := s2.setTh i (fun t => { t with q := qFinishRead s2.cfg t.q st.size, qStmts := rest, buf := t.buf ++ [st] })
      let s4 := inj (fmtNote s3 st) 3
      let total' := total + st.size
      if total' < s4.cfg.qcap ∧ (s4.th i).buf.length < s4.cfg.hard then readQueue inj tsNow i fuel total' s4
      else s4.setTh i (fun t => { t with q := qCommitRead s4.cfg t.q })

/-- index (in cache order) of the context whose front event has the minimum timestamp; first wins ties -/
def lowest (s : BSt) : Option Nat :=
  (s.cache.foldl (fun (acc : Option (Nat × Nat)) i =>
    match (s.th i).buf.head? with
    | none => acc
    | some st => match acc with
      | none => some (i, st.ts)
      | some (_, m) => if st.ts < m then some (i, st.ts) else acc) none).map (·.1)

/-- `_process_transit_event`; returns (state, exception escaped?, flush flag) -/
def processEvent (s : BSt) (st : Stmt) : BSt × Option String × Option Nat :=
  match st.kind with
  | .log =>
    if st.lvl ≠ 9 then
      let r := dispatch s st
      if r.2 then (r.1, some "n:wfail", none) else
      let lg := r.1.lgOf st.lg
      if lg.btFlush ≤ st.lvl ∧ lg.bt.isSome then
        let r2 := replayRing r.1 st.lg
        (r2.1, if r2.2 then some "n:wfail" else none, none)
      else (r.1, none, none)
    else
      match (s.lgOf st.lg).bt with
      | some ring => (s.setLg st.lg (fun l => { l with bt := some (ring.store st) }), none, none)
      | none => (s, some "n:nobt", none)
  | .initBt cap _ =>
    let ring := ((s.lgOf st.lg).bt.getD {}).setCapacity cap
    (s.setLg st.lg (fun l => { l with bt := some ring }), none, none)
  | .flushBt =>
    let r := replayRing s st.lg
    (r.1, if r.2 then some "n:wfail" else none, none)
  | .flush f => (flushSinks s, none, some f)
  | .removal _ => (s, none, none)

/-- `_check_failure_counter` -/
def checkFailures (inj : BSt → Nat → BSt) (s : BSt) : BSt :=
  s.cache.foldl (fun s i =>
    let th := s.th i
    if th.fail > 0 then
      -- get-and-reset first, then the report; site 8: the frontend keeps running while the notifier is called
      inj ({ (s.setTh i (fun t => { t with fail := 0 })).emit
        (.notify (if s.cfg.dropping then s!"n:dropped:{th.fail}:a{th.actor}" else s!"n:blocked:{th.fail}:a{th.actor}"))
             with reported := s.reported + th.fail }) 8
    else s) s

/-- `_process_lowest_timestamp_transit_event` -/
def processLowest (inj : BSt → Nat → BSt) (s : BSt) : BSt × Bool :=
  match lowest s with
  | none => (s, false)
  | some i =>
    match (s.th i).buf with
    | [] => (s, false)
    | st :: rest =>
      let (s1, exc, flag) := processEvent s st
      let s2 := match exc with | some m => s1.emit (.notify m) | none => s1
      let s3 := { s2.setTh i (fun t => { t with buf := rest, popped := t.popped ++ [st] }) with popLog := st :: s2.popLog }
      match flag with
      | some f =>
        let s3' := if s3.cfg.reportBeforeFlushCleanup then checkFailures inj s3 else s3
        let s4 := cleanupContexts s3'
        ({ s4 with flags := f :: s4.flags, flagLog := (f, s4.log.length) :: s4.flagLog }, true)
      | none => (s3, true)

/-- `has_pending_events_for_caching_when_transit_event_buffer_empty` -/
def hasPending (s : BSt) : BSt × Bool :=
  let s0 := refreshCache s
  s0.cache.foldl (fun (acc : BSt × Bool) i =>
    if acc.2 then acc else
    if (acc.1.th i).buf.isEmpty then
      let r := qEmpty acc.1.cfg (acc.1.th i).q
      (acc.1.setTh i (fun t => { t with q := r.1 }), !r.2)
    else acc) (s0, false)

/-- total transit events after reading every cached context (site 2 before each context) -/
def populate (inj : BSt → Nat → BSt) (s : BSt) : BSt × Nat :=
  let s := if s.cfg.refreshAfterSample then s else refreshCache s      -- pinned order: refreshed in `_poll`, before the clock read
  let s := if s.cfg.grace = 0 then s else inj s 7                      -- site 7: the backend reads the clock (only with ordering enabled)
  let tsNow := tsNowOf s
  let s1 := inj s 1
  let s2 := if s.cfg.refreshAfterSample then refreshCache s1 else s1   -- repaired order: refreshed after `ts_now` is taken
  s2.cache.foldl (fun (acc : BSt × Nat) i =>
    let sA := inj acc.1 2
    let sB := readQueue inj tsNow i ((sA.th i).qStmts.length + 64) 0 sA
    (sB, acc.2 + (sB.th i).buf.length)) (s2, 0)

def batchLoop (inj : BSt → Nat → BSt) : Nat → BSt → BSt
  | 0, s => s
  | fuel + 1, s =>
    let r := hasPending s
    if r.2 then r.1 else
    let p := processLowest inj r.1
    if !p.2 then p.1 else batchLoop inj fuel (inj p.1 4)

def totalBuffered (s : BSt) : Nat := (s.ths.map (·.buf.length)).sum

/-- `_poll` -/
def poll (inj : BSt → Nat → BSt) (s : BSt) : BSt :=
  let (s1, count) := populate inj s
  if count ≠ 0 then
    if count < s1.cfg.soft then (processLowest inj s1).1
    else batchLoop inj (totalBuffered s1 + 64) s1
  else
    let s2 := inj s1 5
    let s3 := checkFailures inj (flushGate inj s2 s2.cfg.flushInterval)
    let r := allEmpty s3
    if r.2 then cleanupLoggers inj (preEraseFlush (cleanupContexts r.1)) else r.1

/-- `_exit` with `wait_for_queues_to_empty_before_exit`: the clock advances by `tick` at every sampling -/
def exitLoop (inj : BSt → Nat → BSt) (tick : Nat) : Nat → BSt → BSt
  | 0, s => s
  | fuel + 1, s =>
    let r := allEmpty s
    if r.2 then
      let s1 := flushSinks (checkFailures inj r.1)
      cleanupLoggers inj (preEraseFlush (cleanupContexts s1))
    else
      let s0 := { r.1 with now := r.1.now + tick }
      let (s1, count) := populate inj s0
      let s2 := if count > 0 then batchLoop inj (totalBuffered s1 + 64) s1 else s1
      exitLoop inj tick fuel s2

end Backend
