import QuillModel.Backend.CtxProofs
/-!
What the clean-up achieves once a pass has found every queue and transit buffer empty: the clean-up loop removes
every invalid context (`drained_all_valid`), the registry is then a permutation of the contexts of the live actors
(`CI.registry_perm`), the counter is exact below `2 ^ bits` registered contexts. Helper lemmas for C20 / C07.
-/
namespace Backend.PC
open Backend Spsc

/-- asking an empty queue again gives the same answer and changes nothing more -/
theorem qEmpty_idem (c : Cfg) (q : St) (h : (qEmpty c q).2 = true) :
    (qEmpty c (qEmpty c q).1).2 = true := by
  unfold qEmpty at h ⊢
  simp only [absApi, apiOps, apiObs] at h ⊢
  by_cases hw : q.wcache = q.rpos
  · simp only [hw, if_true, run, step] at h ⊢
    simp only [decide_eq_true_eq] at h
    rw [if_pos h]
    simp only [run, step, decide_eq_true_eq]
    exact h
  · simp only [hw, if_false, run] at h
    simp at h

/-- what `ctxEmpty` tests, as a function of the context alone -/
def emptyTh (c : Cfg) (t : Th) : Bool := (qEmpty c t.q).2 && t.buf.isEmpty

theorem ctxEmpty_snd (s : BSt) (i : Nat) : (ctxEmpty s i).2 = emptyTh s.cfg (s.th i) := rfl

theorem ctxEmpty_th (s : BSt) (i j : Nat) :
    (ctxEmpty s i).1.th j =
      if j = i ∧ j < s.ths.length then { s.th j with q := (qEmpty s.cfg (s.th i).q).1 } else s.th j := by
  unfold ctxEmpty; simp only []; rw [th_setTh]

theorem ctxEmpty_cfg (s : BSt) (i : Nat) : (ctxEmpty s i).1.cfg = s.cfg := rfl

/-- a context found empty stays empty through further emptiness checks -/
theorem emptyTh_ctxEmpty (s : BSt) (i j : Nat) (h : emptyTh s.cfg (s.th j) = true) :
    emptyTh (ctxEmpty s i).1.cfg ((ctxEmpty s i).1.th j) = true := by
  rw [ctxEmpty_cfg, ctxEmpty_th]
  split
  · rename_i hji
    obtain ⟨rfl, _⟩ := hji
    unfold emptyTh at h ⊢
    simp only [Bool.and_eq_true] at h ⊢
    exact ⟨qEmpty_idem _ _ h.1, h.2⟩
  · exact h

theorem allEmpty_fold_spec : ∀ (l : List Nat) (acc : BSt × Bool) (done : List Nat),
    (acc.2 = true → ∀ i ∈ done, emptyTh acc.1.cfg (acc.1.th i) = true) →
    let r := l.foldl (fun (acc : BSt × Bool) i => ((ctxEmpty acc.1 i).1, acc.2 && (ctxEmpty acc.1 i).2)) acc
    r.2 = true → ∀ i, (i ∈ done ∨ i ∈ l) → emptyTh r.1.cfg (r.1.th i) = true
  | [], acc, done, h => by
    intro r hr i hi
    rcases hi with hi | hi
    · exact h hr i hi
    · cases hi
  | j :: rest, acc, done, h => by
    intro r hr i hi
    have := allEmpty_fold_spec rest ((ctxEmpty acc.1 j).1, acc.2 && (ctxEmpty acc.1 j).2) (j :: done) (by
      intro h2 k hk
      simp only [Bool.and_eq_true] at h2
      rcases List.mem_cons.mp hk with rfl | hk
      · apply emptyTh_ctxEmpty
        rw [← ctxEmpty_snd]; exact h2.2
      · exact emptyTh_ctxEmpty _ _ _ (h h2.1 k hk)) hr i (by
      rcases hi with hi | hi
      · exact Or.inl (List.mem_cons_of_mem _ hi)
      · rcases List.mem_cons.mp hi with rfl | hi
        · exact Or.inl List.mem_cons_self
        · exact Or.inr hi)
    exact this

/-- after `allEmpty` answered yes, every cached context is (and stays) empty -/
theorem allEmpty_true (s : BSt) (h : (allEmpty s).2 = true) :
    ∀ i ∈ (allEmpty s).1.cache, emptyTh (allEmpty s).1.cfg ((allEmpty s).1.th i) = true := by
  intro i hi
  have hc : (allEmpty s).1.cache = (refreshCache s).cache := by
    have := congrArg Core.cache (core_allEmpty s)
    rw [← core_refresh] at this; exact this
  rw [hc] at hi
  unfold allEmpty at h ⊢
  simp only [] at h ⊢
  exact allEmpty_fold_spec (refreshCache s).cache (refreshCache s, true) [] (fun _ _ hk => by cases hk) h i (Or.inr hi)


theorem length_filter_ne_lt (l : List Nat) (i : Nat) (h : i ∈ l) : (l.filter (· ≠ i)).length < l.length := by
  induction l with
  | nil => cases h
  | cons x xs ih =>
    by_cases hx : x = i
    · subst hx
      rw [List.filter_cons_of_neg (by simp)]
      have := List.length_filter_le (· ≠ x) xs
      simp only [List.length_cons]; omega
    · rw [List.filter_cons_of_pos (by simpa using hx)]
      have hi : i ∈ xs := by
        rcases List.mem_cons.mp h with h | h
        · exact absurd h.symm hx
        · exact h
      have := ih hi
      simp only [List.length_cons]; omega

/-- a context the repaired clean-up keeps although its thread is gone: its failure counter is not yet reported -/
def Unreported (s : BSt) (i : Nat) : Prop := s.cfg.cleanupKeepsUnreported = true ∧ (s.th i).fail ≠ 0

/-- what the search changes: nothing the clean-up decisions read, and emptiness is kept -/
def Chk (s s' : BSt) : Prop :=
  s'.cache = s.cache ∧ s'.cfg = s.cfg ∧
  ∀ k, (s'.th k).valid = (s.th k).valid ∧ (s'.th k).fail = (s.th k).fail ∧
    (emptyTh s.cfg (s.th k) = true → emptyTh s'.cfg (s'.th k) = true)

theorem Chk.refl (s : BSt) : Chk s s := ⟨rfl, rfl, fun _ => ⟨rfl, rfl, id⟩⟩
theorem Chk.trans {a b c : BSt} (h1 : Chk a b) (h2 : Chk b c) : Chk a c :=
  ⟨h2.1.trans h1.1, h2.2.1.trans h1.2.1, fun k =>
    ⟨(h2.2.2 k).1.trans (h1.2.2 k).1, (h2.2.2 k).2.1.trans (h1.2.2 k).2.1, fun h => (h2.2.2 k).2.2 ((h1.2.2 k).2.2 h)⟩⟩

theorem Chk_ctxEmpty (s : BSt) (j : Nat) : Chk s (ctxEmpty s j).1 := by
  refine ⟨rfl, rfl, fun k => ⟨?_, ?_, fun h => emptyTh_ctxEmpty s j k h⟩⟩
  · rw [ctxEmpty_th]; split <;> rfl
  · rw [ctxEmpty_th]; split <;> rfl

theorem Chk.unreported {s s' : BSt} (h : Chk s s') {i : Nat} (hu : Unreported s i) : Unreported s' i := by
  unfold Unreported at hu ⊢
  rw [h.2.1, (h.2.2 i).2.1]; exact hu

/-- with every listed invalid context empty, the search returns an invalid one, or every listed context is valid
    or has an unreported failure counter -/
theorem findFirst_allE : ∀ (l : List Nat) (s : BSt),
    (∀ i ∈ l, (s.th i).valid = false → emptyTh s.cfg (s.th i) = true) →
    Chk s (cleanupContexts.go.findFirst s l).1 ∧
    (((cleanupContexts.go.findFirst s l).2 = none ∧ ∀ i ∈ l, (s.th i).valid = true ∨ Unreported s i) ∨
     (∃ i ∈ l, (cleanupContexts.go.findFirst s l).2 = some i ∧ (s.th i).valid = false))
  | [], s, _ => ⟨Chk.refl s, Or.inl ⟨rfl, fun i h => by cases h⟩⟩
  | j :: rest, s, h => by
    rw [findFirst_cons]
    by_cases hv : (s.th j).valid = true
    · simp only [hv, if_true]
      obtain ⟨hc, hr⟩ := findFirst_allE rest s (fun i hi => h i (List.mem_cons_of_mem _ hi))
      refine ⟨hc, ?_⟩
      rcases hr with ⟨h1, h2⟩ | ⟨i, hi, h1, h2⟩
      · left; refine ⟨h1, fun i hi => ?_⟩
        rcases List.mem_cons.mp hi with rfl | hi
        · exact Or.inl hv
        · exact h2 i hi
      · right; exact ⟨i, List.mem_cons_of_mem _ hi, h1, h2⟩
    · have hv' : (s.th j).valid = false := by simpa using hv
      simp only [hv, if_false, Bool.false_eq_true]
      have he : (ctxEmpty s j).2 = true := by rw [ctxEmpty_snd]; exact h j List.mem_cons_self hv'
      by_cases hcnd : (!s.cfg.cleanupKeepsUnreported || (s.th j).fail == 0) = true
      · simp only [he, hcnd, Bool.and_self, if_true]
        exact ⟨Chk_ctxEmpty s j, Or.inr ⟨j, List.mem_cons_self, rfl, hv'⟩⟩
      · simp only [he, hcnd, Bool.true_and, Bool.false_eq_true, if_false]
        have hck := Chk_ctxEmpty s j
        obtain ⟨hc, hr⟩ := findFirst_allE rest (ctxEmpty s j).1 (fun i hi hvi => by
          rw [(hck.2.2 i).1] at hvi
          exact (hck.2.2 i).2.2 (h i (List.mem_cons_of_mem _ hi) hvi))
        refine ⟨hck.trans hc, ?_⟩
        have hunr : Unreported s j := by
          simp only [Bool.or_eq_true, Bool.not_eq_true', beq_iff_eq, not_or] at hcnd
          exact ⟨by simpa using hcnd.1, hcnd.2⟩
        rcases hr with ⟨h1, h2⟩ | ⟨i, hi, h1, h2⟩
        · left; refine ⟨h1, fun i hi => ?_⟩
          rcases List.mem_cons.mp hi with rfl | hi
          · exact Or.inr hunr
          · rcases h2 i hi with hh | hh
            · left; rw [← (hck.2.2 i).1]; exact hh
            · right
              unfold Unreported at hh ⊢
              rw [hck.2.1, (hck.2.2 i).2.1] at hh; exact hh
        · right; exact ⟨i, List.mem_cons_of_mem _ hi, h1, by rw [← (hck.2.2 i).1]; exact h2⟩

theorem CInv_removeSt {s : BSt} (hs : CInv s) (i : Nat) (hi : i ∈ s.cache) (hv : (s.th i).valid = false) :
    CInv (removeSt s i) := by
  unfold CInv; rw [core_removeSt]
  exact CI.remove hs i hi (by rw [valid_core]; exact hv)

theorem removeSt_th (s : BSt) (i j : Nat) (h : j ≠ i) : (removeSt s i).th j = s.th j := by
  unfold removeSt; rw [th_setTh_ne _ _ _ _ h]; rfl

/-- the clean-up loop, started with every cached invalid context empty, leaves in the cache only valid contexts
    and contexts whose failure counter is not yet reported -/
theorem go_all_valid : ∀ (fuel : Nat) (s : BSt), CInv s →
    (∀ i ∈ s.cache, (s.th i).valid = false → emptyTh s.cfg (s.th i) = true) → s.cache.length < fuel →
    ∀ i ∈ (cleanupContexts.go fuel s).cache,
      ((cleanupContexts.go fuel s).th i).valid = true ∨ Unreported (cleanupContexts.go fuel s) i
  | 0, _, _, _, hf => by omega
  | n + 1, s, hs, hE, hf => by
    rw [go_succ]
    obtain ⟨hck, hr⟩ := findFirst_allE s.cache s hE
    have hcore := (findFirst_spec s.cache s).1
    rcases hr with ⟨h1, h2⟩ | ⟨i, hi, h1, h2⟩
    · rcases hfe : cleanupContexts.go.findFirst s s.cache with ⟨s1, o⟩
      rw [hfe] at h1 hck
      simp only [] at h1
      subst h1
      simp only []
      intro k hk
      rw [hck.1] at hk
      rcases h2 k hk with hh | hh
      · left; rw [(hck.2.2 k).1]; exact hh
      · right; exact hck.unreported hh
    · rcases hfe : cleanupContexts.go.findFirst s s.cache with ⟨s1, o⟩
      rw [hfe] at h1 hck hcore
      simp only [] at h1
      subst h1
      simp only []
      have hs1 : CInv s1 := CInv_of_core hcore hs
      have hv1 : (s1.th i).valid = false := by rw [(hck.2.2 i).1]; exact h2
      apply go_all_valid n
      · exact CInv_removeSt hs1 i (by rw [hck.1]; exact hi) hv1
      · intro k hk hvk
        have hk' : k ∈ s.cache ∧ k ≠ i := by
          have : k ∈ s1.cache.filter (· ≠ i) := hk
          rw [hck.1] at this
          simpa using this
        rw [removeSt_th _ _ _ hk'.2] at hvk ⊢
        have hcfg : (removeSt s1 i).cfg = s1.cfg := rfl
        rw [hcfg]
        rw [(hck.2.2 k).1] at hvk
        exact (hck.2.2 k).2.2 (hE k hk'.1 hvk)
      · have : (removeSt s1 i).cache = s1.cache.filter (· ≠ i) := rfl
        rw [this, hck.1]
        have := length_filter_ne_lt s.cache i hi
        omega

/-! ### retained contexts = live threads that logged -/

def Core.liveCtxs (c : Core) : List Nat :=
  (c.actors.filter (fun x => x.alive && x.ctx.isSome)).map (fun x => x.ctx.getD 0)

theorem CI.liveCtxs_nodup {c : Core} (h : CI c) : c.liveCtxs.Nodup := by
  unfold Core.liveCtxs
  show List.Pairwise (· ≠ ·) _
  rw [List.pairwise_map, List.pairwise_filter]
  apply List.Pairwise.imp_of_mem _ h.ids
  intro x y hx hy hxy px py
  simp only [Bool.and_eq_true] at px py
  obtain ⟨i, hi⟩ := Option.isSome_iff_exists.mp px.2
  obtain ⟨j, hj⟩ := Option.isSome_iff_exists.mp py.2
  rw [hi, hj]
  simp only [Option.getD_some]
  intro e
  subst e
  have h1 := (h.own x hx px.1 i hi).1
  have h2 := (h.own y hy py.1 i hj).1
  rw [h1] at h2
  have : x.id = y.id := congrArg TC.owner (Option.some.inj h2)
  exact hxy px.1 py.1 this

theorem CI.mem_liveCtxs {c : Core} (i : Nat) :
    i ∈ c.liveCtxs ↔ ∃ x ∈ c.actors, x.alive = true ∧ x.ctx = some i := by
  unfold Core.liveCtxs
  simp only [List.mem_map, List.mem_filter, Bool.and_eq_true]
  constructor
  · rintro ⟨x, ⟨hx, hal, hsome⟩, hg⟩
    obtain ⟨j, hj⟩ := Option.isSome_iff_exists.mp hsome
    rw [hj] at hg; simp only [Option.getD_some] at hg
    exact ⟨x, hx, hal, by rw [hj, hg]⟩
  · rintro ⟨x, hx, hal, hc⟩
    exact ⟨x, ⟨hx, hal, by rw [hc]; rfl⟩, by rw [hc]; rfl⟩

/-- when no registered context is invalid, the registry is a permutation of the contexts of the live actors -/
theorem CI.registry_perm {c : Core} (h : CI c) (hv : ∀ i ∈ c.registry, c.valid i = true) :
    c.registry.Perm c.liveCtxs := by
  rw [List.perm_ext_iff_of_nodup h.regNodup h.liveCtxs_nodup]
  intro i
  rw [CI.mem_liveCtxs]
  constructor
  · intro hi
    exact h.owned i (h.regLt i hi) (hv i hi)
  · rintro ⟨x, hx, hal, hc⟩
    exact (h.own x hx hal i hc).2

theorem nInvalid_core (s : BSt) :
    (core s).nInvalid = (s.registry.filter (fun i => !(s.th i).valid)).length := by
  unfold Core.nInvalid
  congr 1
  apply List.filter_congr
  intro i _
  rw [valid_core]

theorem nInvalid_zero {c : Core} (h : c.nInvalid = 0) : ∀ i ∈ c.registry, c.valid i = true := by
  intro i hi
  unfold Core.nInvalid at h
  have := List.length_eq_zero_iff.mp h
  have hn : i ∉ c.registry.filter (fun i => !c.valid i) := by rw [this]; simp
  rw [List.mem_filter] at hn
  cases hv : c.valid i
  · exact absurd ⟨hi, by simp [hv]⟩ hn
  · rfl

/-- the counter is exact while fewer than `2 ^ bits` contexts are registered -/
theorem CI.cnt_exact {c : Core} (h : CI c) (hnw : c.registry.length < 2 ^ c.bits) : c.cnt = c.nInvalid := by
  rw [h.cnt]
  apply Nat.mod_eq_of_lt
  have : c.nInvalid ≤ c.registry.length := List.length_filter_le _ _
  omega

theorem findFirst_newFlag : ∀ (l : List Nat) (s : BSt), (cleanupContexts.go.findFirst s l).1.newFlag = s.newFlag
  | [], _ => rfl
  | i :: rest, s => by
    rw [findFirst_cons]
    split
    · exact findFirst_newFlag rest s
    · split
      · rfl
      · rw [findFirst_newFlag rest]; rfl

theorem go_newFlag : ∀ (fuel : Nat) (s : BSt), (cleanupContexts.go fuel s).newFlag = s.newFlag
  | 0, _ => rfl
  | n + 1, s => by
    rw [go_succ]
    have h1 := findFirst_newFlag s.cache s
    split
    · rename_i s1 heq; rw [heq] at h1; exact h1
    · rename_i s1 i heq; rw [heq] at h1; rw [go_newFlag n]; exact h1

/-- **after a pass that found everything empty, the clean-up leaves registered only valid contexts and contexts
    whose failure counter is not yet reported** (the latter go with the next report, F24) -/
theorem drained_all_valid (s : BSt) (hs : CInv s) (hnw : s.registry.length < 2 ^ s.cfg.invalidBits)
    (h : (allEmpty s).2 = true) :
    ∀ i ∈ (cleanupContexts (allEmpty s).1).registry,
      ((cleanupContexts (allEmpty s).1).th i).valid = true ∨ Unreported (cleanupContexts (allEmpty s).1) i := by
  have ha : CInv (allEmpty s).1 := CInv_allEmpty s hs
  have hcore := core_allEmpty s
  have hnf : (allEmpty s).1.newFlag = false := by
    have := congrArg Core.newFlag hcore
    simp only [Core.refresh] at this
    have e : (core (allEmpty s).1).newFlag = (allEmpty s).1.newFlag := rfl
    rw [e] at this; rw [this]
    cases hh : (core s).newFlag <;> simp [hh]
  have hreg : (allEmpty s).1.registry = s.registry := by
    have := congrArg Core.registry hcore
    simp only [Core.refresh] at this
    have e : (core (allEmpty s).1).registry = (allEmpty s).1.registry := rfl
    rw [e] at this; rw [this]
    split <;> rfl
  have hbits : (allEmpty s).1.cfg.invalidBits = s.cfg.invalidBits := by
    have := congrArg Core.bits hcore
    simp only [Core.refresh] at this
    have e : (core (allEmpty s).1).bits = (allEmpty s).1.cfg.invalidBits := rfl
    rw [e] at this; rw [this]
    split <;> rfl
  have hcr : (allEmpty s).1.cache = (allEmpty s).1.registry := ha.fresh hnf
  rw [cleanupContexts_eq]
  split
  · rename_i h0
    have hex := CI.cnt_exact ha (by show (allEmpty s).1.registry.length < 2 ^ (allEmpty s).1.cfg.invalidBits; rw [hreg, hbits]; exact hnw)
    have hz : (core (allEmpty s).1).nInvalid = 0 := by rw [← hex]; exact h0
    intro i hi
    left
    rw [← valid_core]; exact nInvalid_zero hz i hi
  · have hgo := go_all_valid ((allEmpty s).1.cache.length + 1) (allEmpty s).1 ha
      (fun i hi _ => allEmpty_true s h i hi) (by omega)
    have hfin : CInv (cleanupContexts.go ((allEmpty s).1.cache.length + 1) (allEmpty s).1) := CInv_go _ _ ha
    have hnf2 : (cleanupContexts.go ((allEmpty s).1.cache.length + 1) (allEmpty s).1).newFlag = false := by
      rw [go_newFlag]; exact hnf
    have hcr2 := hfin.fresh hnf2
    intro i hi
    apply hgo
    have e : (core (cleanupContexts.go ((allEmpty s).1.cache.length + 1) (allEmpty s).1)).cache =
        (cleanupContexts.go ((allEmpty s).1.cache.length + 1) (allEmpty s).1).cache := rfl
    rw [← e, hcr2]; exact hi

/-- the logger clean-up leaves the registry, the contexts' validity and the actors alone -/
theorem cleanupLoggers_frame (inj : BSt → Nat → BSt) (hq : Quiet9 inj) (s : BSt) :
    (cleanupLoggers inj s).registry = s.registry ∧ (core (cleanupLoggers inj s)).ths = (core s).ths ∧
    (core (cleanupLoggers inj s)).actors = (core s).actors := by
  apply cleanupLoggers_pres (fun x => x.registry = s.registry ∧ (core x).ths = (core s).ths ∧
    (core x).actors = (core s).actors) inj hq
  · intro x hx
    have hc := core_allEmpty x
    have h1 : (core (allEmpty x).1).registry = (core x).registry := by rw [hc]; unfold Core.refresh; split <;> rfl
    have h2 : (core (allEmpty x).1).ths = (core x).ths := by rw [hc]; unfold Core.refresh; split <;> rfl
    have h3 : (core (allEmpty x).1).actors = (core x).actors := by rw [hc]; unfold Core.refresh; split <;> rfl
    exact ⟨h1.trans hx.1, h2.trans hx.2.1, h3.trans hx.2.2⟩
  · intro x y hx hxy
    have h1 : y.registry = x.registry := congrArg Core.registry hxy
    exact ⟨h1.trans hx.1, by rw [hxy]; exact hx.2.1, by rw [hxy]; exact hx.2.2⟩
  · exact ⟨rfl, rfl, rfl⟩

/-- the state in which the idle branch of a poll asks whether everything is empty -/
def idleState (inj : BSt → Nat → BSt) (s : BSt) : BSt :=
  checkFailures inj (flushGate inj (inj (populate inj s).1 5) (inj (populate inj s).1 5).cfg.flushInterval)

theorem poll_idle_eq (inj : BSt → Nat → BSt) (s : BSt) (h0 : (populate inj s).2 = 0)
    (he : (allEmpty (idleState inj s)).2 = true) :
    poll inj s = cleanupLoggers inj (preEraseFlush (cleanupContexts (allEmpty (idleState inj s)).1)) := by
  unfold poll
  rcases hpe : populate inj s with ⟨s1, count⟩
  rw [hpe] at h0
  simp only [] at h0
  subst h0
  have : idleState inj s = checkFailures inj (flushGate inj (inj s1 5) (inj s1 5).cfg.flushInterval) := by
    unfold idleState; rw [hpe]
  rw [this] at he
  simp only [ne_eq, not_true_eq_false, if_false, he, if_true, this]

theorem CInv_idleState {inj : BSt → Nat → BSt} (hi : InjOK CInv inj) (s : BSt) (hs : CInv s) :
    CInv (idleState inj s) :=
  checkFailures_ok CInv_closed.toClosedB hi _ (flushGate_ok CInv_closed.toClosedB hi _ _ (hi _ 5 (populate_ok CInv_closed.toClosedB hi s hs)).1)

theorem CInv_fresh (s : BSt) (h1 : s.ths = []) (h2 : s.registry = []) (h3 : s.cache = []) (h4 : s.newFlag = false)
    (h5 : s.invalidCnt = 0) (h6 : s.actors = []) : CInv s := by
  unfold CInv
  refine ⟨?_, ?_, ?_, ?_, ?_, ?_, ?_, ?_⟩ <;> simp [core, h1, h2, h3, h4, h5, h6, Core.nInvalid]

end Backend.PC
