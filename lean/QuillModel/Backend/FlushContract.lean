import QuillModel.Backend.FlushGate
import QuillModel.Backend.FlushStep
import QuillModel.Backend.ConsProofsStep
import QuillModel.Backend.SinkBack
/-!
# The flush contract over positions of the event log (C06)

`CI fz s` relates the event history `log` (newest first) to the loggers and to `flagLog`:
* a sink whose newest event is a `write` (an *unflushed* sink, `unfl`) belongs to a logger that is not erased — so the
  next `_flush_and_run_active_sinks` flushes it (with the F12 repair: loggers marked invalid are still covered);
* `fz` — no sink at all is unflushed (after `flushSinks`, until the next dispatch): a logger is only erased then;
* for every entry `(f, n)` of `flagLog`: in the history as it was when the flag was raised (the oldest `n` events) no
  sink is unflushed, and no ordinary write of a statement popped before the Flush statement of `f` comes later.
It uses the invariants of the other proof bundles at the pop: every buffered record refers to a live logger
(`PC.FInv`), backtrace rings hold backtrace statements and ordinary statement ids are unique in the pop history
(`PA.Inv`), flag numbers are unique (`FI`).
-/
namespace Backend.PB
open Backend

def isWr (sid : Nat) : Ev → Bool
  | .write s _ _ _ _ => s == sid
  | _ => false

def isFl (sid : Nat) : Ev → Bool
  | .flushed s => s == sid
  | .fthrow s => s == sid
  | _ => false

/-- an event that is neither a write nor a flush (attempt) of any sink -/
def neutral : Ev → Bool
  | .write .. => false
  | .flushed _ => false
  | .fthrow _ => false
  | _ => true

/-- the newest event of sink `sid` in the log is a write: the sink holds unflushed output -/
def unfl (sid : Nat) : List Ev → Bool
  | [] => false
  | e :: l => if isWr sid e then true else if isFl sid e then false else unfl sid l

theorem neutral_isWr {e : Ev} (h : neutral e = true) (sid : Nat) : isWr sid e = false := by
  cases e <;> simp_all [neutral, isWr]
theorem neutral_isFl {e : Ev} (h : neutral e = true) (sid : Nat) : isFl sid e = false := by
  cases e <;> simp_all [neutral, isFl]
theorem neutral_ordWrite {e : Ev} (h : neutral e = true) (sid id : Nat) : PA.ordWrite sid id e = false := by
  cases e <;> simp_all [neutral, PA.ordWrite]

theorem unfl_append_plain (sid : Nat) (new l : List Ev) (h : ∀ e ∈ new, isWr sid e = false ∧ isFl sid e = false) :
    unfl sid (new ++ l) = unfl sid l := by
  induction new with
  | nil => rfl
  | cons e es ih =>
    have := h e (List.mem_cons_self ..)
    simp only [List.cons_append, unfl, this.1, this.2, Bool.false_eq_true, if_false]
    exact ih (fun x hx => h x (List.mem_cons_of_mem _ hx))

theorem unfl_append_flushed (sid : Nat) (new l : List Ev) (hw : ∀ e ∈ new, isWr sid e = false)
    (hf : ∃ e ∈ new, isFl sid e = true) : unfl sid (new ++ l) = false := by
  induction new with
  | nil => obtain ⟨e, he, _⟩ := hf; cases he
  | cons e es ih =>
    have h1 := hw e (List.mem_cons_self ..)
    simp only [List.cons_append, unfl, h1, Bool.false_eq_true, if_false]
    by_cases h2 : isFl sid e = true
    · simp [h2]
    · simp only [h2, if_false]
      obtain ⟨x, hx, hxf⟩ := hf
      rcases List.mem_cons.mp hx with rfl | hx
      · exact absurd hxf h2
      · exact ih (fun y hy => hw y (List.mem_cons_of_mem _ hy)) ⟨x, hx, hxf⟩

theorem unfl_append_true (sid : Nat) (new l : List Ev) (h : unfl sid (new ++ l) = true) :
    unfl sid l = true ∨ ∃ e ∈ new, isWr sid e = true := by
  induction new with
  | nil => exact Or.inl h
  | cons e es ih =>
    simp only [List.cons_append, unfl] at h
    by_cases h1 : isWr sid e = true
    · exact Or.inr ⟨e, List.mem_cons_self .., h1⟩
    · simp only [h1, if_false] at h
      by_cases h2 : isFl sid e = true
      · simp [h2] at h
      · simp only [h2, if_false] at h
        rcases ih h with h3 | ⟨x, hx, hxw⟩
        · exact Or.inl h3
        · exact Or.inr ⟨x, List.mem_cons_of_mem _ hx, hxw⟩

/-- reading `unfl … = false`: every write of the sink is followed (towards the newer end) by a flush of that sink -/
theorem unfl_false_split (sid : Nat) (a b : List Ev) (e : Ev) (h : unfl sid (a ++ e :: b) = false)
    (he : isWr sid e = true) : ∃ x ∈ a, isFl sid x = true := by
  induction a with
  | nil => simp [unfl, he] at h
  | cons x xs ih =>
    simp only [List.cons_append, unfl] at h
    by_cases h1 : isWr sid x = true
    · simp [h1] at h
    · simp only [h1, if_false] at h
      by_cases h2 : isFl sid x = true
      · exact ⟨x, List.mem_cons_self .., h2⟩
      · simp only [h2, if_false] at h
        obtain ⟨y, hy, hyf⟩ := ih h
        exact ⟨y, List.mem_cons_of_mem _ hy, hyf⟩

structure CI (fz : Bool) (s : BSt) : Prop where
  cfgF : s.cfg.flushInvalidatedLoggers = true
  cfgE : s.cfg.flushInterval = 0 ∨ s.cfg.flushBeforeLoggerErase = true
  act : ∀ sid, unfl sid s.log = true → ∃ i, (s.lgOf i).erased = false ∧ sid ∈ (s.lgOf i).sinks
  fzc : fz = true → ∀ sid, unfl sid s.log = false
  fl1 : ∀ fn ∈ s.flagLog, fn.2 ≤ s.log.length ∧ ∀ sid, unfl sid (s.log.drop (s.log.length - fn.2)) = false
  fl2 : ∀ fn ∈ s.flagLog, fn.1 ∈ s.flags
  fl3 : ∀ f ∈ s.flags, ∃ n, (f, n) ∈ s.flagLog
  wr : ∀ fn ∈ s.flagLog, ∀ i pre st more, (s.th i).popped = pre ++ st :: more → st.kind = .flush fn.1 →
        ∀ r ∈ pre, PA.isOrd r = true → ∀ sid, PA.wcount (s.log.take (s.log.length - fn.2)) sid r.id = 0

theorem CI.weaken {fz : Bool} {s : BSt} (h : CI fz s) : CI false s :=
  { h with fzc := fun hf => by cases hf }

/-- what happens to the positional clauses when the log grows by `new` and nothing else they mention changes -/
theorem CI.grow {fz fz' : Bool} {s s' : BSt} (h : CI fz s) (hcfg : s'.cfg = s.cfg) (new : List Ev) (hlog : s'.log = new ++ s.log)
    (hfl : s'.flagLog = s.flagLog) (hflags : s'.flags = s.flags)
    (hpop : ∀ i, (s'.th i).popped = (s.th i).popped)
    (hact : ∀ sid, unfl sid s'.log = true → ∃ i, (s'.lgOf i).erased = false ∧ sid ∈ (s'.lgOf i).sinks)
    (hfz : fz' = true → ∀ sid, unfl sid s'.log = false)
    (hw : ∀ fn ∈ s.flagLog, ∀ i pre st more, (s.th i).popped = pre ++ st :: more → st.kind = .flush fn.1 →
        ∀ r ∈ pre, PA.isOrd r = true → ∀ sid, PA.wcount new sid r.id = 0) : CI fz' s' := by
  have hlen : s'.log.length = new.length + s.log.length := by rw [hlog, List.length_append]
  refine ⟨by rw [hcfg]; exact h.cfgF, by rw [hcfg]; exact h.cfgE, hact, hfz, ?_, ?_, ?_, ?_⟩
  · intro fn hfn
    rw [hfl] at hfn
    obtain ⟨h1, h2⟩ := h.fl1 fn hfn
    refine ⟨by omega, fun sid => ?_⟩
    have : s'.log.length - fn.2 = new.length + (s.log.length - fn.2) := by omega
    have e1 : List.drop (new.length + (s.log.length - fn.2)) new = [] := List.drop_of_length_le (by omega)
    have e2 : new.length + (s.log.length - fn.2) - new.length = s.log.length - fn.2 := by omega
    rw [this, hlog, List.drop_append, e1, e2, List.nil_append]; exact h2 sid
  · intro fn hfn; rw [hfl] at hfn; rw [hflags]; exact h.fl2 fn hfn
  · intro f hf; rw [hflags] at hf; rw [hfl]; exact h.fl3 f hf
  · intro fn hfn i pre st more hp hk r hr ho sid
    rw [hfl] at hfn
    rw [hpop] at hp
    obtain ⟨h1, _⟩ := h.fl1 fn hfn
    have : s'.log.length - fn.2 = new.length + (s.log.length - fn.2) := by omega
    have e1 : List.take (new.length + (s.log.length - fn.2)) new = new := List.take_of_length_le (by omega)
    have e2 : new.length + (s.log.length - fn.2) - new.length = s.log.length - fn.2 := by omega
    rw [this, hlog, List.take_append, e1, e2, PA.wcount_append, h.wr fn hfn i pre st more hp hk r hr ho sid,
      hw fn hfn i pre st more hp hk r hr ho sid]

/-- a step that emits only neutral events, keeps the sink lists of the loggers that are not erased (erasing none),
    the flag log and the pop histories -/
theorem CI.plain {fz : Bool} {s s' : BSt} (h : CI fz s) (hcfg : s'.cfg = s.cfg) (new : List Ev) (hlog : s'.log = new ++ s.log)
    (hn : ∀ e ∈ new, neutral e = true)
    (hlg : ∀ i sid, (s.lgOf i).erased = false → sid ∈ (s.lgOf i).sinks →
      (s'.lgOf i).erased = false ∧ sid ∈ (s'.lgOf i).sinks)
    (hfl : s'.flagLog = s.flagLog) (hflags : s'.flags = s.flags)
    (hpop : ∀ i, (s'.th i).popped = (s.th i).popped) : CI fz s' := by
  have hun : ∀ sid, unfl sid s'.log = unfl sid s.log := fun sid => by
    rw [hlog]; exact unfl_append_plain sid new _ (fun e he => ⟨neutral_isWr (hn e he) sid, neutral_isFl (hn e he) sid⟩)
  refine h.grow hcfg new hlog hfl hflags hpop ?_ ?_ ?_
  · intro sid hs
    rw [hun] at hs
    obtain ⟨i, h1, h2⟩ := h.act sid hs
    exact ⟨i, (hlg i sid h1 h2).1, (hlg i sid h1 h2).2⟩
  · intro hf sid; rw [hun]; exact h.fzc hf sid
  · intro fn _ i pre st more _ _ r _ _ sid
    unfold PA.wcount
    rw [List.countP_eq_zero]
    intro e he; simp [neutral_ordWrite (hn e he)]

/-- nothing the invariant mentions changes -/
theorem CI.same {fz : Bool} {s s' : BSt} (h : CI fz s) (hcfg : s'.cfg = s.cfg) (hlog : s'.log = s.log) (hlgs : s'.lgs = s.lgs)
    (hfl : s'.flagLog = s.flagLog) (hflags : s'.flags = s.flags) (hths : s'.ths = s.ths) : CI fz s' :=
  h.plain hcfg [] (by simp [hlog]) (fun _ h => by cases h)
    (fun i sid he hs => by
      have : s'.lgOf i = s.lgOf i := by simp only [BSt.lgOf, hlgs]
      rw [this]; exact ⟨he, hs⟩) hfl hflags
    (fun i => by simp only [BSt.th, hths])

/-! ### frontend operations -/

/-- what a frontend operation may do to the things `CI` mentions -/
structure FRel (s s' : BSt) : Prop where
  cfg : s'.cfg = s.cfg
  log : ∃ new, s'.log = new ++ s.log ∧ ∀ e ∈ new, neutral e = true
  lg : ∀ i sid, (s.lgOf i).erased = false → sid ∈ (s.lgOf i).sinks → (s'.lgOf i).erased = false ∧ sid ∈ (s'.lgOf i).sinks
  fl : s'.flagLog = s.flagLog
  flags : s'.flags = s.flags
  pop : ∀ i, (s'.th i).popped = (s.th i).popped

theorem FRel.refl (s : BSt) : FRel s s :=
  ⟨rfl, ⟨[], rfl, fun _ h => by cases h⟩, fun _ _ h1 h2 => ⟨h1, h2⟩, rfl, rfl, fun _ => rfl⟩

theorem FRel.trans {a b c : BSt} (h1 : FRel a b) (h2 : FRel b c) : FRel a c := by
  obtain ⟨n1, e1, m1⟩ := h1.log
  obtain ⟨n2, e2, m2⟩ := h2.log
  refine ⟨h2.cfg.trans h1.cfg, ⟨n2 ++ n1, by rw [e2, e1, List.append_assoc], ?_⟩, ?_, h2.fl.trans h1.fl, h2.flags.trans h1.flags,
    fun i => (h2.pop i).trans (h1.pop i)⟩
  · intro e he
    rcases List.mem_append.mp he with h | h
    · exact m2 e h
    · exact m1 e h
  · intro i sid he hs
    obtain ⟨x1, x2⟩ := h1.lg i sid he hs
    exact h2.lg i sid x1 x2

theorem CI.frel {fz : Bool} {s s' : BSt} (h : CI fz s) (r : FRel s s') : CI fz s' := by
  obtain ⟨new, e, m⟩ := r.log
  exact h.plain r.cfg new e m r.lg r.fl r.flags r.pop

/-- changes of fields `CI` does not mention, stated through equalities -/
theorem FRel.ofEq {s s' : BSt} (h0 : s'.cfg = s.cfg) (h1 : s'.log = s.log) (h2 : s'.lgs = s.lgs) (h3 : s'.flagLog = s.flagLog)
    (h4 : s'.flags = s.flags) (h5 : s'.ths = s.ths) : FRel s s' :=
  ⟨h0, ⟨[], by simp [h1], fun _ h => by cases h⟩, fun i sid he hs => by
      have : s'.lgOf i = s.lgOf i := by simp only [BSt.lgOf, h2]
      rw [this]; exact ⟨he, hs⟩, h3, h4, fun i => by simp only [BSt.th, h5]⟩

theorem FRel.setTh (s : BSt) (i : Nat) (f : Th → Th) (hf : ∀ t, (f t).popped = t.popped) : FRel s (s.setTh i f) :=
  ⟨rfl, ⟨[], rfl, fun _ h => by cases h⟩, fun _ _ h1 h2 => ⟨h1, h2⟩, rfl, rfl, fun j => by
    rcases th_setTh_cases s i j f with h | ⟨rfl, _, h⟩
    · rw [h]
    · rw [h, hf]⟩

theorem FRel.setLg (s : BSt) (i : Nat) (f : Lg → Lg) (hf : ∀ l, (f l).erased = l.erased ∧ (f l).sinks = l.sinks) :
    FRel s (s.setLg i f) := by
  refine ⟨rfl, ⟨[], rfl, fun _ h => by cases h⟩, ?_, rfl, rfl, fun _ => rfl⟩
  intro j sid he hs
  have key : (s.setLg i f).lgOf j = s.lgOf j ∨ (s.setLg i f).lgOf j = f (s.lgOf j) := by
    simp only [BSt.lgOf, BSt.setLg, getD_updAt]
    split
    · exact Or.inr rfl
    · exact Or.inl rfl
  rcases key with k | k
  · rw [k]; exact ⟨he, hs⟩
  · rw [k, (hf _).1, (hf _).2]; exact ⟨he, hs⟩

theorem FRel.emit (s : BSt) (e : Ev) (he : neutral e = true) : FRel s (s.emit e) :=
  ⟨rfl, ⟨[e], rfl, fun x hx => by rw [List.mem_singleton.mp hx]; exact he⟩, fun _ _ h1 h2 => ⟨h1, h2⟩, rfl, rfl, fun _ => rfl⟩

theorem frel_setActor (s : BSt) (a : Nat) (g : Actor → Actor) : FRel s (s.setActor a g) := FRel.ofEq rfl rfl rfl rfl rfl rfl

theorem frel_ensureCtx (s : BSt) (a : Nat) : FRel s (Backend.ensureCtx s a).1 := by
  unfold Backend.ensureCtx
  split
  · exact FRel.refl _
  · simp only
    refine ⟨rfl, ⟨[], rfl, fun _ h => by cases h⟩, fun _ _ h1 h2 => ⟨h1, h2⟩, rfl, rfl, fun j => ?_⟩
    have : ((({ s with ths := s.ths ++ [mkTh s.cfg a], registry := s.registry ++ [s.ths.length], newFlag := true } : BSt).setActor a
        (fun x => { x with ctx := some s.ths.length })).th j) = if j = s.ths.length then mkTh s.cfg a else s.th j :=
      th_append s _ j
    rw [this]
    split
    · rename_i hj; rw [th_lt_or_default s j (by omega)]; rfl
    · rfl

theorem frel_tryEnq (s : BSt) (ci : Nat) (st : Stmt) : FRel s (Backend.tryEnq s ci st).1 := by
  unfold Backend.tryEnq
  simp only
  split
  · exact FRel.setTh s ci _ (fun _ => rfl)
  · exact FRel.setTh s ci _ (fun _ => rfl)

theorem frel_afterEnq (s : BSt) (a : Nat) (st : Stmt) (cont : Nat) : FRel s (Backend.afterEnq s a st cont).1 := by
  unfold Backend.afterEnq
  split
  · exact FRel.ofEq rfl rfl rfl rfl rfl rfl
  · exact FRel.setLg s _ _ (fun _ => ⟨rfl, rfl⟩)
  · exact FRel.refl _
  · dsimp only
    refine FRel.trans (FRel.setLg s st.lg (fun l => { l with valid := false }) (fun _ => ⟨rfl, rfl⟩)) ?_
    exact FRel.ofEq rfl rfl rfl rfl rfl rfl
  · exact FRel.refl _

theorem frel_enqFlow (s : BSt) (a : Nat) (st : Stmt) (cont : Nat) (first initial : Bool) :
    FRel s (Backend.enqFlow s a st cont first initial).1 := by
  have h1 := frel_ensureCtx s a
  rcases he : Backend.ensureCtx s a with ⟨s1, ci⟩
  rw [he] at h1
  have h2 := frel_tryEnq s1 ci st
  rcases ht : Backend.tryEnq s1 ci st with ⟨s2, ok⟩
  rw [ht] at h2
  simp only at h1 h2
  have h12 := h1.trans h2
  unfold Backend.enqFlow
  simp only [he, ht]
  have hb : ∀ (y : BSt) (g : Th → Th), (∀ t, (g t).popped = t.popped) →
      FRel y (if isLogKind st.kind = true then y.setTh ci g else y) := by
    intro y g hg; split
    · exact FRel.setTh y ci g hg
    · exact FRel.refl _
  split
  · refine FRel.trans ?_ (frel_afterEnq _ a st cont)
    exact h12.trans (frel_setActor _ _ _)
  · split
    · split
      · show FRel s (BSt.setActor _ _ _)
        refine FRel.trans ?_ (frel_setActor _ _ _)
        exact h12.trans (hb s2 _ (fun _ => rfl))
      · show FRel s (BSt.setActor _ _ _)
        refine FRel.trans ?_ (frel_setActor _ _ _)
        exact h12.trans (hb s2 _ (fun _ => rfl))
    · show FRel s (BSt.setActor _ _ _)
      refine FRel.trans ?_ (frel_setActor _ _ _)
      split
      · exact h12.trans (hb s2 _ (fun _ => rfl))
      · exact h12

theorem frel_frontCall (s : BSt) (a lgi : Nat) (kind : Kind) (lvl len cont : Nat) (dyn : Bool) (id : Nat) (named : Bool) :
    FRel s (Backend.frontCall s a lgi kind lvl len cont dyn id named).1 := by
  unfold Backend.frontCall
  simp only
  split
  · exact FRel.ofEq rfl rfl rfl rfl rfl rfl
  · exact frel_enqFlow _ _ _ _ _ _

theorem frel_resume (s : BSt) (a : Nat) : FRel s (Backend.resume s a).1 := by
  unfold Backend.resume
  split
  · exact frel_enqFlow _ _ _ _ _ _
  · split <;> exact frel_enqFlow _ _ _ _ _ _
  · split
    · exact FRel.ofEq rfl rfl rfl rfl rfl rfl
    · exact FRel.refl _
  · exact FRel.refl _

theorem frel_withLogger (s : BSt) (a g : Nat) (k : Nat → BSt × String) (hk : ∀ lgi, FRel s (k lgi).1) :
    FRel s (Backend.withLogger s a g k).1 := by
  unfold Backend.withLogger
  split
  · unfold noteCall; exact (hk _).trans (FRel.ofEq rfl rfl rfl rfl rfl rfl)
  · exact FRel.refl _

theorem frel_reapSinks (s : BSt) (l : List Nat) : FRel s (reapSinks s l) := by
  unfold reapSinks
  induction l generalizing s with
  | nil => exact FRel.refl _
  | cons x xs ih =>
    rw [List.foldl_cons]
    refine FRel.trans ?_ (ih _)
    split
    · refine FRel.trans (b := s.setSink x (fun k => { k with alive := false })) (FRel.ofEq rfl rfl rfl rfl rfl rfl) ?_
      exact FRel.emit _ _ rfl
    · exact FRel.refl _

theorem lgOf_append_lt (s : BSt) (x : Lg) (i : Nat) (hi : i < s.lgs.length) :
    (s.lgs ++ [x]).getD i default = s.lgOf i := by
  simp only [BSt.lgOf, List.getD_eq_getElem?_getD, List.getElem?_append_left hi]

theorem frel_applyFront (s : BSt) (f : FOp) : FRel s (Backend.applyFront s f).1 := by
  cases f with
  | tick dt => exact FRel.ofEq rfl rfl rfl rfl rfl rfl
  | tstart a => simp only [Backend.applyFront]; split <;> exact FRel.ofEq rfl rfl rfl rfl rfl rfl
  | texit a =>
    simp only [Backend.applyFront]
    split
    · exact FRel.refl _
    · split
      · rename_i i _
        have h1 : FRel s (s.setActor a (fun x => { x with alive := false })) := frel_setActor _ _ _
        have h2 := h1.trans (FRel.setTh (s.setActor a (fun x => { x with alive := false })) i
          (fun t => { t with valid := false }) (fun _ => rfl))
        exact h2.trans (FRel.ofEq rfl rfl rfl rfl rfl rfl)
      · exact FRel.ofEq rfl rfl rfl rfl rfl rfl
  | resume a =>
    simp only [Backend.applyFront]
    have := frel_resume s a
    split
    · exact this
    · split
      · exact this
      · exact this.trans (FRel.ofEq rfl rfl rfl rfl rfl rfl)
  | armStall a => simp only [Backend.applyFront]; split <;> exact FRel.ofEq rfl rfl rfl rfl rfl rfl
  | log a g lvl len dyn =>
    simp only [Backend.applyFront]
    refine frel_withLogger s a g _ (fun lgi => ?_)
    split
    · exact (FRel.ofEq (s := s) (s' := { s with nextId := s.nextId + 1 }) rfl rfl rfl rfl rfl rfl).trans (frel_frontCall _ _ _ _ _ _ _ _ _ _)
    · exact FRel.ofEq rfl rfl rfl rfl rfl rfl
  | logNamed a g len =>
    simp only [Backend.applyFront]
    refine frel_withLogger s a g _ (fun lgi => ?_)
    split
    · exact (FRel.ofEq (s := s) (s' := { s with nextId := s.nextId + 1 }) rfl rfl rfl rfl rfl rfl).trans (frel_frontCall _ _ _ _ _ _ _ _ _ _)
    · exact FRel.ofEq rfl rfl rfl rfl rfl rfl
  | logBt a g len =>
    simp only [Backend.applyFront]
    refine frel_withLogger s a g _ (fun lgi => ?_)
    split
    · exact (FRel.ofEq (s := s) (s' := { s with nextId := s.nextId + 1 }) rfl rfl rfl rfl rfl rfl).trans (frel_frontCall _ _ _ _ _ _ _ _ _ _)
    · exact FRel.ofEq rfl rfl rfl rfl rfl rfl
  | initBt a g cap fl' =>
    simp only [Backend.applyFront]
    exact frel_withLogger s a g _ (fun lgi => frel_frontCall _ _ _ _ _ _ _ _ _ _)
  | flushBt a g =>
    simp only [Backend.applyFront]
    exact frel_withLogger s a g _ (fun lgi => frel_frontCall _ _ _ _ _ _ _ _ _ _)
  | flush a g =>
    simp only [Backend.applyFront]
    exact frel_withLogger s a g _ (fun lgi =>
      (FRel.ofEq (s := s) (s' := { s with nextFlag := s.nextFlag + 1 }) rfl rfl rfl rfl rfl rfl).trans (frel_frontCall _ _ _ _ _ _ _ _ _ _))
  | removeBlocking a g =>
    simp only [Backend.applyFront]
    split
    · exact FRel.refl _
    · exact frel_withLogger s a g _ (fun lgi =>
        (FRel.ofEq (s := s) (s' := dropName { s with nextFlag := s.nextFlag + 1 } g) rfl rfl rfl rfl rfl rfl).trans
          (frel_frontCall _ _ _ _ _ _ _ _ _ _))
  | remove a g =>
    simp only [Backend.applyFront]
    split
    · exact FRel.refl _
    · split
      · rename_i lgi _ _
        have h1 : FRel s (dropName s g) := FRel.ofEq rfl rfl rfl rfl rfl rfl
        have h2 := h1.trans (FRel.setLg (dropName s g) lgi (fun l => { l with valid := false }) (fun _ => ⟨rfl, rfl⟩))
        exact h2.trans (FRel.ofEq rfl rfl rfl rfl rfl rfl)
      · exact FRel.refl _
  | create a g sl =>
    simp only [Backend.applyFront]
    split
    · exact FRel.refl _
    · split
      · split
        · exact FRel.refl _
        · exact FRel.ofEq rfl rfl rfl rfl rfl rfl
      · refine ⟨rfl, ⟨[], rfl, fun _ h => by cases h⟩, ?_, rfl, rfl, fun _ => rfl⟩
        intro i sid he hs
        have hi : i < s.lgs.length := by
          apply Classical.byContradiction; intro hn
          have : s.lgOf i = default := by
            simp only [BSt.lgOf, List.getD_eq_getElem?_getD, List.getElem?_eq_none (by omega : s.lgs.length ≤ i)]; rfl
          rw [this] at hs; cases hs
        have : BSt.lgOf { dropName s g with lgs := s.lgs ++ [{ gid := g, sinks := sl }], names := (dropName s g).names ++ [(g, s.lgs.length)] } i = s.lgOf i :=
          lgOf_append_lt s _ i hi
        rw [this]; exact ⟨he, hs⟩
  | setLevel g lvl =>
    simp only [Backend.applyFront]
    split
    · exact FRel.setLg _ _ _ (fun _ => ⟨rfl, rfl⟩)
    · exact FRel.refl _
  | setSinkLevel sid lvl =>
    simp only [Backend.applyFront]
    split
    · exact FRel.ofEq rfl rfl rfl rfl rfl rfl
    · exact FRel.refl _
  | dropSink sid =>
    simp only [Backend.applyFront]
    have h1 : FRel s (s.setSink sid (fun k => { k with userRef := false })) := FRel.ofEq rfl rfl rfl rfl rfl rfl
    exact h1.trans (frel_reapSinks _ _)
  | query => exact FRel.refl _

theorem frel_foldFront (ops : List FOp) (skip : FOp → Bool) (e : BSt → FOp → Ev) (he : ∀ s f, neutral (e s f) = true)
    (s1 : BSt) : FRel s1 (ops.foldl (fun s f => (if skip f then (s, "noop") else Backend.applyFront s f).1.emit (e s f)) s1) := by
  induction ops generalizing s1 with
  | nil => exact FRel.refl _
  | cons f fs ih =>
    rw [List.foldl_cons]
    refine FRel.trans ?_ (ih _)
    split
    · exact FRel.emit _ _ (he _ _)
    · exact (frel_applyFront s1 f).trans (FRel.emit _ _ (he _ _))

theorem frel_runInj (table : List (Nat × Nat × List FOp)) (s : BSt) (site : Nat) :
    FRel s (Backend.runInj table s site) := by
  unfold Backend.runInj
  simp only
  generalize ((s.siteCnt.find? (·.1 = site)).map (·.2)).getD 0 + 1 = k
  split
  · exact FRel.ofEq rfl rfl rfl rfl rfl rfl
  · refine FRel.trans (b := { s with siteCnt := (site, k) :: s.siteCnt.filter (·.1 ≠ site) }) (FRel.ofEq rfl rfl rfl rfl rfl rfl) ?_
    exact frel_foldFront _ (fun f => decide (site = 9) && f.needsManagerLock)
        (fun s f => Ev.inj site k f.show (if (decide (site = 9) && f.needsManagerLock) = true then (s, "noop")
          else Backend.applyFront s f).2) (fun _ _ => rfl) _

/-! ### the backend -/

theorem isWr_uses {sid : Nat} {e : Ev} (h : isWr sid e = true) : PC.usesSink sid e = true := by
  cases e <;> simp_all [isWr, PC.usesSink]

/-- the events of one processed event other than a Flush: writes go to sinks of the statement's logger only -/
theorem processEvent_writes (s : BSt) (st : Stmt)
    (hring : ∀ r, (s.lgOf st.lg).bt = some r → ∀ x ∈ r.items, x.lg = st.lg) (hk : ∀ f, st.kind ≠ .flush f) :
    ∃ evs, (processEvent s st).1.log = evs ++ s.log ∧
      ∀ e ∈ evs, ∀ sid, isWr sid e = true → sid ∈ (s.lgOf st.lg).sinks := by
  have hdis : ∃ evs, (dispatch s st).1.log = evs ++ s.log ∧
      ∀ e ∈ evs, ∀ sid, isWr sid e = true → sid ∈ (s.lgOf st.lg).sinks := by
    obtain ⟨e1, o1, on1⟩ := PC.dispatch_out s st
    exact ⟨e1, o1.log, fun e he sid hw => (on1 e he).1 sid (isWr_uses hw)⟩
  have hrep : ∀ X : BSt, X.lgs = s.lgs → ∃ evs, (replayRing X st.lg).1.log = evs ++ X.log ∧
      ∀ e ∈ evs, ∀ sid, isWr sid e = true → sid ∈ (s.lgOf st.lg).sinks := by
    intro X hX
    have hlg : X.lgOf st.lg = s.lgOf st.lg := PA.lgOf_of_lgs hX st.lg
    obtain ⟨e2, o2, on2⟩ := PC.replayRing_out X st.lg (by rw [hlg]; exact hring)
    exact ⟨e2, o2.log, fun e he sid hw => by rw [← hlg]; exact (on2 e he).1 sid (isWr_uses hw)⟩
  unfold processEvent
  split
  · split
    · simp only
      obtain ⟨e1, l1, w1⟩ := hdis
      split
      · exact ⟨e1, l1, w1⟩
      · split
        · obtain ⟨e2, l2, w2⟩ := hrep (dispatch s st).1 (PA.writeToSinks_lgs st _ s)
          refine ⟨e2 ++ e1, by rw [l2, l1, List.append_assoc], fun e he => ?_⟩
          rcases List.mem_append.mp he with h | h
          · exact w2 e h
          · exact w1 e h
        · exact ⟨e1, l1, w1⟩
    · split
      · exact ⟨[], rfl, fun _ h => by cases h⟩
      · exact ⟨[], rfl, fun _ h => by cases h⟩
  · exact ⟨[], rfl, fun _ h => by cases h⟩
  · exact hrep s rfl
  · rename_i f hf; exact absurd hf (hk f)
  · exact ⟨[], rfl, fun _ h => by cases h⟩

variable {inj : BSt → Nat → BSt}

/-! ### backend functions that emit nothing but neutral events and pop nothing -/

theorem frel_fold {α} (F : BSt → α → BSt) (l : List α) (s : BSt) (hF : ∀ s x, FRel s (F s x)) : FRel s (l.foldl F s) := by
  induction l generalizing s with
  | nil => exact FRel.refl _
  | cons x xs ih => rw [List.foldl_cons]; exact (hF s x).trans (ih _)

theorem frel_fold_pair {α β} (F : BSt × β → α → BSt × β) (l : List α) (acc : BSt × β)
    (hF : ∀ acc x, FRel acc.1 (F acc x).1) : FRel acc.1 (l.foldl F acc).1 := by
  induction l generalizing acc with
  | nil => exact FRel.refl _
  | cons x xs ih => rw [List.foldl_cons]; exact (hF acc x).trans (ih _)

theorem frel_refresh (s : BSt) : FRel s (refreshCache s) := by
  unfold refreshCache; split
  · exact FRel.ofEq rfl rfl rfl rfl rfl rfl
  · exact FRel.refl _

theorem frel_ctxEmpty (s : BSt) (i : Nat) : FRel s (ctxEmpty s i).1 := by
  unfold ctxEmpty; exact FRel.setTh s i _ (fun _ => rfl)

theorem frel_allEmpty (s : BSt) : FRel s (Backend.allEmpty s).1 := by
  unfold Backend.allEmpty
  exact (frel_refresh s).trans (frel_fold_pair _ _ (refreshCache s, true) (fun acc x => frel_ctxEmpty acc.1 x))

theorem frel_hpStep (acc : BSt × Bool) (i : Nat) : FRel acc.1 (hpStep acc i).1 := by
  unfold hpStep
  split
  · exact FRel.refl _
  · split
    · exact FRel.setTh _ _ _ (fun _ => rfl)
    · exact FRel.refl _

theorem frel_hasPending (s : BSt) : FRel s (Backend.hasPending s).1 := by
  rw [hasPending_eq]
  exact (frel_refresh s).trans (frel_fold_pair _ _ (refreshCache s, false) frel_hpStep)

theorem frel_findFirst (s : BSt) (l : List Nat) : FRel s (cleanupContexts.go.findFirst s l).1 := by
  induction l generalizing s with
  | nil => exact FRel.refl _
  | cons x xs ih =>
    unfold cleanupContexts.go.findFirst
    split
    · exact ih s
    · simp only
      split
      · exact frel_ctxEmpty s x
      · exact (frel_ctxEmpty s x).trans (ih _)

theorem frel_setTh_of (s S : BSt) (i : Nat) (g : Th → Th) (h0 : S.cfg = s.cfg) (h1 : S.log = s.log) (h2 : S.lgs = s.lgs)
    (h3 : S.flagLog = s.flagLog) (h4 : S.flags = s.flags) (h5 : S.ths = s.ths) (hg : ∀ t, (g t).popped = t.popped) :
    FRel s (S.setTh i g) := (FRel.ofEq h0 h1 h2 h3 h4 h5).trans (FRel.setTh S i g hg)

theorem frel_cleanupGo (fuel : Nat) (s : BSt) : FRel s (cleanupContexts.go fuel s) := by
  induction fuel generalizing s with
  | zero => exact FRel.refl _
  | succ n ih =>
    unfold cleanupContexts.go
    have f1 := frel_findFirst s s.cache
    split
    · rename_i s1 heq; rw [heq] at f1; exact f1
    · rename_i s1 i heq; rw [heq] at f1
      refine f1.trans (FRel.trans ?_ (ih _))
      apply frel_setTh_of
      · rfl
      · rfl
      · rfl
      · rfl
      · rfl
      · rfl
      · intro t; rfl

theorem frel_cleanupContexts (s : BSt) : FRel s (Backend.cleanupContexts s) := by
  unfold Backend.cleanupContexts
  split
  · exact FRel.refl _
  · exact frel_cleanupGo _ _

theorem frel_checkFailures (hrel : ∀ s k, FRel s (inj s k)) (s : BSt) : FRel s (Backend.checkFailures inj s) := by
  unfold Backend.checkFailures
  apply frel_fold
  intro b i
  simp only
  split
  · refine FRel.trans ?_ (hrel _ 8)
    refine (FRel.setTh b i (fun t => { t with fail := 0 }) (fun _ => rfl)).trans ?_
    refine FRel.trans (b := (b.setTh i (fun t => { t with fail := 0 })).emit (.notify
      (if b.cfg.dropping then s!"n:dropped:{(b.th i).fail}:a{(b.th i).actor}" else s!"n:blocked:{(b.th i).fail}:a{(b.th i).actor}")))
      (FRel.emit _ _ rfl) ?_
    exact FRel.ofEq rfl rfl rfl rfl rfl rfl
  · exact FRel.refl _

theorem frel_rqPrep (s : BSt) (i : Nat) : FRel s (rqPrep s i) := FRel.setTh s i _ (fun _ => rfl)
theorem frel_rqCommit (s : BSt) (i : Nat) : FRel s (rqCommit s i) := FRel.setTh s i _ (fun _ => rfl)
theorem frel_rqFin (s : BSt) (i total : Nat) : FRel s (rqFin s i total) := by
  unfold rqFin; split
  · exact frel_rqCommit s i
  · exact FRel.refl _
theorem frel_rqDecode (s : BSt) (st : Stmt) : FRel s (rqDecode s st) := by
  unfold rqDecode; split
  · exact FRel.ofEq rfl rfl rfl rfl rfl rfl
  · exact FRel.refl _
theorem frel_rqMove (s : BSt) (i : Nat) (st : Stmt) (rest : List Stmt) : FRel s (rqMove s i st rest) := by
  have h0 : FRel s (rqMove0 s i st rest) := by
    unfold PB.rqMove0
    exact ((frel_rqPrep s i).trans (frel_rqDecode _ st)).trans (FRel.setTh _ i _ (fun _ => rfl))
  unfold PB.rqMove fmtNote
  split
  · exact h0.trans (FRel.emit _ _ rfl)
  · exact h0

theorem frel_readQueue (hrel : ∀ s k, FRel s (inj s k)) (tsNow : Option Nat) (i : Nat) (fuel : Nat) :
    ∀ (total : Nat) (s : BSt), FRel s (Backend.readQueue inj tsNow i fuel total s) := by
  induction fuel with
  | zero => intro total s; rw [readQueue_zero]; exact frel_rqFin s i total
  | succ n ih =>
    intro total s
    rw [readQueue_succ]
    have hfin := fun tot => (frel_rqPrep s i).trans (frel_rqFin (rqPrep s i) i tot)
    split
    · exact hfin total
    · split
      · exact hfin total
      · rename_i st rest _
        split
        · exact hfin total
        · have h3 := (frel_rqMove s i st rest).trans (hrel _ 3)
          split
          · exact h3.trans (ih _ _)
          · exact h3.trans (frel_rqCommit _ i)

theorem frel_populate (hrel : ∀ s k, FRel s (inj s k)) (s : BSt) : FRel s (Backend.populate inj s).1 := by
  rw [populate_eq]
  have fa : FRel s (popA s) := by
    unfold popA; split
    · exact FRel.refl _
    · exact frel_refresh s
  have fb : FRel (popA s) (popB inj s) := by
    unfold popB; split
    · exact FRel.refl _
    · exact hrel _ 7
  have fc : FRel (popB inj s) (popC inj s) := by
    unfold popC; split
    · exact (hrel _ 1).trans (frel_refresh _)
    · exact hrel _ 1
  refine ((fa.trans fb).trans fc).trans ?_
  refine frel_fold_pair _ _ (popC inj s, 0) ?_
  intro acc x
  unfold popStep
  exact (hrel _ 2).trans (frel_readQueue hrel _ x _ _ _)

theorem frel_reapSinksInj (hrel : ∀ s k, FRel s (inj s k)) (l : List Nat) (s : BSt) : FRel s (reapSinksInj inj s l) := by
  unfold Backend.reapSinksInj
  apply frel_fold
  intro b sid
  split
  · refine FRel.trans ?_ (hrel _ 9)
    refine FRel.trans (b := b.setSink sid (fun k => { k with alive := false })) (FRel.ofEq rfl rfl rfl rfl rfl rfl) ?_
    exact FRel.emit _ _ rfl
  · exact FRel.refl _

/-! ### flushing -/

/-- only sinks, the event lists change -/
def SOL (s s' : BSt) : Prop := ∃ a c d, s' = { s with sinks := a, out := c, log := d }
theorem SOL.refl (s : BSt) : SOL s s := ⟨s.sinks, s.out, s.log, rfl⟩
theorem SOL.trans {a b c : BSt} (h1 : SOL a b) (h2 : SOL b c) : SOL a c := by
  obtain ⟨x1, x3, x4, rfl⟩ := h1
  obtain ⟨y1, y3, y4, rfl⟩ := h2
  exact ⟨y1, y3, y4, rfl⟩
theorem SOL.emit (s : BSt) (e : Ev) : SOL s (s.emit e) := ⟨s.sinks, e :: s.out, e :: s.log, rfl⟩
theorem SOL.setSink (s : BSt) (i : Nat) (f : Sink → Sink) : SOL s (s.setSink i f) := ⟨_, s.out, s.log, rfl⟩

theorem sol_flushSinks (s : BSt) : SOL s (flushSinks s) := by
  unfold flushSinks
  generalize activeSinks s = l
  induction l generalizing s with
  | nil => exact SOL.refl _
  | cons x xs ih =>
    rw [List.foldl_cons]
    refine SOL.trans ?_ (ih _)
    simp only
    split
    · exact ((SOL.setSink _ _ _).trans (SOL.emit _ _)).trans (SOL.emit _ _)
    · exact (SOL.setSink _ _ _).trans (SOL.emit _ _)

theorem mem_activeSinks_of {s : BSt} (hF : s.cfg.flushInvalidatedLoggers = true) {i sid : Nat}
    (he : (s.lgOf i).erased = false) (hs : sid ∈ (s.lgOf i).sinks) : sid ∈ activeSinks s := by
  have hi : i < s.lgs.length := by
    apply Classical.byContradiction; intro hn
    have : s.lgOf i = default := by
      simp only [BSt.lgOf, List.getD_eq_getElem?_getD, List.getElem?_eq_none (by omega : s.lgs.length ≤ i)]; rfl
    rw [this] at hs; cases hs
  have hlg : s.lgOf i = s.lgs[i] := by
    simp only [BSt.lgOf, List.getD_eq_getElem?_getD, List.getElem?_eq_getElem hi, Option.getD_some]
  unfold activeSinks
  simp only
  rw [List.mem_eraseDups, List.mem_flatMap]
  refine ⟨s.lgs[i], ?_, by rw [← hlg]; exact hs⟩
  rw [PC.mem_insSorted, List.mem_filter]
  refine ⟨List.getElem_mem hi, ?_⟩
  rw [← hlg, he, hF]; simp

theorem CI.flushSinks {fz : Bool} {s : BSt} (h : CI fz s) : CI true (Backend.flushSinks s) := by
  obtain ⟨blk, e1, e2, e3⟩ := flushSinks_log s
  obtain ⟨a, c, d, hsh⟩ := sol_flushSinks s
  have hcfg : (Backend.flushSinks s).cfg = s.cfg := by rw [hsh]
  have hlgs : (Backend.flushSinks s).lgs = s.lgs := by rw [hsh]
  have hlgOf : ∀ i, (Backend.flushSinks s).lgOf i = s.lgOf i := fun i => by simp only [BSt.lgOf, hlgs]
  have hnw : ∀ e ∈ blk, ∀ sid, isWr sid e = false := by
    intro e he sid
    rcases e3 e he with ⟨k, rfl | rfl⟩ | rfl <;> rfl
  have hall : ∀ sid, unfl sid (Backend.flushSinks s).log = false := by
    intro sid
    rw [e1]
    by_cases hu : unfl sid s.log = true
    · obtain ⟨i, he, hs⟩ := h.act sid hu
      have hact := mem_activeSinks_of h.cfgF he hs
      apply unfl_append_flushed sid blk _ (fun e he' => hnw e he' sid)
      rcases e2 sid hact with hm | hm
      · exact ⟨_, hm, by simp [isFl]⟩
      · exact ⟨_, hm, by simp [isFl]⟩
    · cases hx : unfl sid (blk ++ s.log) with
      | false => rfl
      | true =>
        rcases unfl_append_true sid blk _ hx with h1 | ⟨e, he, hw⟩
        · exact absurd h1 hu
        · rw [hnw e he sid] at hw; cases hw
  refine h.grow hcfg blk e1 (by rw [hsh]) (by rw [hsh]) (fun i => by rw [hsh]; rfl)
    (fun sid hs => by rw [hall sid] at hs; cases hs) (fun _ sid => hall sid) ?_
  intro fn _ i pre st more _ _ r _ _ sid
  unfold PA.wcount
  rw [List.countP_eq_zero]
  intro e he
  have := hnw e he sid
  cases e <;> simp_all [PA.ordWrite, isWr]

/-- a logger is erased while no sink is unflushed -/
theorem CI.erase {s : BSt} (h : CI true s) (i : Nat) : CI true (s.setLg i (fun l => { l with erased := true })) :=
  h.grow rfl [] rfl rfl rfl (fun _ => rfl)
    (fun sid hs => by have := h.fzc rfl sid; rw [show (s.setLg i _).log = s.log from rfl, this] at hs; cases hs)
    (fun _ sid => h.fzc rfl sid)
    (fun _ _ _ _ _ _ _ _ _ _ _ _ => rfl)

/-- a flag is raised while no sink is unflushed -/
theorem CI.raise {s : BSt} (h : CI true s) (f : Nat) (rf : List (Nat × Nat)) :
    CI true { s with flags := f :: s.flags, flagLog := (f, s.log.length) :: s.flagLog, removalFlags := rf } := by
  refine ⟨h.cfgF, h.cfgE, h.act, h.fzc, ?_, ?_, ?_, ?_⟩
  · intro fn hfn
    rcases List.mem_cons.mp hfn with rfl | hfn
    · refine ⟨Nat.le_refl _, fun sid => ?_⟩
      show unfl sid (s.log.drop (s.log.length - s.log.length)) = false
      rw [Nat.sub_self, List.drop_zero]; exact h.fzc rfl sid
    · exact h.fl1 fn hfn
  · intro fn hfn
    rcases List.mem_cons.mp hfn with rfl | hfn
    · exact List.mem_cons_self ..
    · exact List.mem_cons_of_mem _ (h.fl2 fn hfn)
  · intro g hg
    rcases List.mem_cons.mp hg with rfl | hg
    · exact ⟨s.log.length, List.mem_cons_self ..⟩
    · obtain ⟨n, hn⟩ := h.fl3 g hg; exact ⟨n, List.mem_cons_of_mem _ hn⟩
  · intro fn hfn i pre st more hp hk r hr ho sid
    rcases List.mem_cons.mp hfn with rfl | hfn
    · show PA.wcount (s.log.take (s.log.length - s.log.length)) sid r.id = 0
      rw [Nat.sub_self, List.take_zero]; rfl
    · exact h.wr fn hfn i pre st more hp hk r hr ho sid

theorem ci_fold {α β} (P : β → Prop) (F : β → α → β) (l : List α) (s : β) (h0 : P s) (hF : ∀ s x, P s → P (F s x)) :
    P (l.foldl F s) := by
  induction l generalizing s with
  | nil => exact h0
  | cons x xs ih => rw [List.foldl_cons]; exact ih _ (hF s x h0)

theorem CI.cleanupLoggers (hrel : ∀ s k, FRel s (inj s k)) {s : BSt} (h : CI true s) :
    CI true (Backend.cleanupLoggers inj s) := by
  unfold Backend.cleanupLoggers
  split
  · exact h
  · simp only
    apply ci_fold (fun x => CI true x)
    · have h0 : CI true { s with hasInvalidLoggers := false } := h.frel (FRel.ofEq rfl rfl rfl rfl rfl rfl)
      refine ci_fold (fun acc : BSt × List Nat => CI true acc.1) _ _ ({ s with hasInvalidLoggers := false }, []) h0 ?_
      intro acc i hacc
      split
      · exact hacc
      · split
        · have h1 : CI true (Backend.allEmpty acc.1).1 := hacc.frel (frel_allEmpty _)
          exact (h1.erase i).frel (frel_reapSinksInj hrel _ _)
        · exact (hacc.frel (frel_allEmpty _)).frel (FRel.ofEq rfl rfl rfl rfl rfl rfl)
    · intro b a hb
      split
      · exact hb.raise _ _
      · exact hb

/-- the configuration is untouched by the gated idle flush -/
theorem flushGate_cfg (hrel : ∀ s k, FRel s (inj s k)) (s : BSt) (n : Nat) : (Backend.flushGate inj s n).cfg = s.cfg := by
  rcases flushGate_cases inj s n with ⟨_, e⟩ | ⟨_, e⟩ | ⟨_, e⟩ <;> rw [e]
  · obtain ⟨a, c, d, hsh⟩ := sol_flushSinks s; rw [hsh]
  · exact (hrel s 7).cfg
  · obtain ⟨a, c, d, hsh⟩ := sol_flushSinks { inj s 7 with lastFlush := (inj s 7).now }; rw [hsh]; exact (hrel s 7).cfg

/-- the idle flush behind `sink_min_flush_interval`: with interval 0 nothing is left unflushed; otherwise the invariant is
    merely kept (whether or not the gate opened) -/
theorem CI.flushGate (hrel : ∀ s k, FRel s (inj s k)) {fz : Bool} {s : BSt} (h : CI fz s) :
    ∃ fz', CI fz' (Backend.flushGate inj s s.cfg.flushInterval) ∧
      ((Backend.flushGate inj s s.cfg.flushInterval).cfg.flushInterval = 0 → fz' = true) := by
  by_cases h0 : s.cfg.flushInterval = 0
  · rw [h0, flushGate_zero]; exact ⟨true, h.flushSinks, fun _ => rfl⟩
  · refine ⟨false, ?_, fun hc => absurd (by rw [flushGate_cfg hrel] at hc; exact hc) h0⟩
    rcases flushGate_cases inj s s.cfg.flushInterval with ⟨e0, _⟩ | ⟨_, e⟩ | ⟨_, e⟩
    · exact absurd e0 h0
    · rw [e]; exact (h.frel (hrel s 7)).weaken
    · rw [e]
      have h1 : CI fz { inj s 7 with lastFlush := (inj s 7).now } :=
        (h.frel (hrel s 7)).frel (FRel.ofEq rfl rfl rfl rfl rfl rfl)
      exact h1.flushSinks.weaken

/-- **the erase is preceded by a flush** (`_cleanup_invalidated_loggers` with its head flush, F33): either nothing was
    unflushed on entry (interval 0: the idle pass has just flushed; `_exit`: the final flush), or the head of the clean-up
    flushes every sink still reachable before any logger is erased -/
theorem CI.eraseTail (hrel : ∀ s k, FRel s (inj s k)) {fz : Bool} {s : BSt} (h : CI fz s)
    (hz : s.cfg.flushInterval = 0 → fz = true) :
    CI false (Backend.cleanupLoggers inj (Backend.preEraseFlush s)) := by
  unfold Backend.preEraseFlush
  by_cases hE : s.cfg.flushBeforeLoggerErase = true
  · by_cases hI : s.hasInvalidLoggers = true
    · rw [hE, hI]
      simp only [Bool.and_self, if_true]
      exact (h.flushSinks.cleanupLoggers hrel).weaken
    · have hI' : s.hasInvalidLoggers = false := by simpa using hI
      rw [hI']
      simp only [Bool.and_false, Bool.false_eq_true, if_false]
      unfold Backend.cleanupLoggers
      rw [hI']
      simp only [Bool.not_false, if_true]
      exact h.weaken
  · have h0 := h.cfgE.resolve_right hE
    have hfz := hz h0
    subst hfz
    have hE' : s.cfg.flushBeforeLoggerErase = false := by simpa using hE
    rw [hE']
    simp only [Bool.false_and, Bool.false_eq_true, if_false]
    exact (h.cleanupLoggers hrel).weaken

/-! ### popping -/

/-- the flag of a Flush statement still in a transit buffer has not been raised -/
theorem FI.buf_flag_not_raised {pf : List Nat} {s : BSt} (h : FI none pf s) {j : Nat} {x : Stmt} {f : Nat}
    (hx : x ∈ (s.th j).buf) (hk : x.kind = .flush f) : f ∉ s.flags := by
  intro hf
  have hfo : flagOf x = some f := by simp [flagOf, hk, flagOfK]
  have hxa : x ∈ (s.th j).accepted := by
    rw [h.cons j]; exact List.mem_append_left _ (List.mem_append_right _ hx)
  rcases h.flg f hf with ⟨i, st', hp, hk'⟩ | ⟨i, st', ha, hk'⟩
  · have hfo' : flagOf st' = some f := by simp [flagOf, hk', flagOfK]
    by_cases hij : i = j
    · subst hij
      have hn := h.accNodup i
      rw [h.cons i, List.append_assoc, flagsIn_append] at hn
      have hd := (List.nodup_append.mp hn).2.2
      refine hd f (mem_flagsIn.mpr ⟨st', hp, hfo'⟩) f ?_ rfl
      rw [flagsIn_append]
      exact List.mem_append_left _ (mem_flagsIn.mpr ⟨x, hx, hfo⟩)
    · have hst'a : st' ∈ (s.th i).accepted := by
        rw [h.cons i]; exact List.mem_append_left _ (List.mem_append_left _ hp)
      exact h.accDisj i j hij f (mem_flagsIn.mpr ⟨st', hst'a, hfo'⟩) (mem_flagsIn.mpr ⟨x, hxa, hfo⟩)
  · have hfo' : flagOf st' = some f := by simp [flagOf, hk', flagOfK]
    by_cases hij : i = j
    · subst hij
      have := filterMap_nodup_inj flagOf _ (h.accNodup i) st' x f ha hxa hfo' hfo
      rw [this, hk] at hk'; cases hk'
    · exact h.accDisj i j hij f (mem_flagsIn.mpr ⟨st', ha, hfo'⟩) (mem_flagsIn.mpr ⟨x, hxa, hfo⟩)

theorem append_singleton_split {α} {l pre more : List α} {x st : α} (h : l ++ [x] = pre ++ st :: more) :
    (∃ more', l = pre ++ st :: more' ∧ more = more' ++ [x]) ∨ (l = pre ∧ st = x ∧ more = []) := by
  rcases List.append_eq_append_iff.mp h with ⟨a', h1, h2⟩ | ⟨c', h1, h2⟩
  · -- pre = l ++ a', [x] = a' ++ st :: more
    cases a' with
    | nil =>
      simp only [List.nil_append, List.cons.injEq] at h2
      right; exact ⟨by simpa using h1.symm, h2.1.symm, h2.2.symm⟩
    | cons a as =>
      simp only [List.cons_append, List.cons.injEq] at h2
      have := h2.2
      cases as <;> simp at this
  · -- l = pre ++ c', st :: more = c' ++ [x]
    cases c' with
    | nil =>
      simp only [List.nil_append, List.cons.injEq] at h2
      right; exact ⟨by simpa using h1, h2.1, h2.2⟩
    | cons c cs =>
      simp only [List.cons_append, List.cons.injEq] at h2
      left; exact ⟨cs, by rw [h1, h2.1], h2.2⟩

/-- the pop itself (the event's output is already in the log) -/
theorem CI.popTh {fz : Bool} {s : BSt} (h : CI fz s) (j : Nat) (x : Stmt) (rest : List Stmt)
    (hx : ∀ fn ∈ s.flagLog, x.kind ≠ .flush fn.1) : CI fz (plPop s j x rest) := by
  unfold plPop
  refine ⟨h.cfgF, h.cfgE, h.act, h.fzc, h.fl1, h.fl2, h.fl3, ?_⟩
  intro fn hfn i pre st more hp hk r hr ho sid
  have hth : ({ s.setTh j (fun t => { t with buf := rest, popped := t.popped ++ [x] }) with popLog := x :: s.popLog } : BSt).th i =
      (s.setTh j (fun t => { t with buf := rest, popped := t.popped ++ [x] })).th i := rfl
  rw [hth] at hp
  rcases th_setTh_cases s j i (fun t => { t with buf := rest, popped := t.popped ++ [x] }) with h1 | ⟨rfl, _, h1⟩
  · rw [h1] at hp; exact h.wr fn hfn i pre st more hp hk r hr ho sid
  · rw [h1] at hp
    rcases append_singleton_split hp with ⟨more', e1, _⟩ | ⟨_, e2, _⟩
    · exact h.wr fn hfn i pre st more' e1 hk r hr ho sid
    · rw [e2] at hk; exact absurd hk (hx fn hfn)

/-- the output of a processed event other than a Flush -/
theorem CI.processEvent {fz : Bool} {s : BSt} (h : CI fz s) (x : Stmt) (hk : ∀ f, x.kind ≠ .flush f)
    (hlive : (s.lgOf x.lg).erased = false)
    (hring : ∀ r, (s.lgOf x.lg).bt = some r → ∀ y ∈ r.items, y.lg = x.lg) (hro : PA.RingOK s)
    (hpu : PA.isOrd x = true → ∀ fn ∈ s.flagLog, ∀ i pre st more, (s.th i).popped = pre ++ st :: more →
      st.kind = .flush fn.1 → ∀ r ∈ pre, PA.isOrd r = true → r.id ≠ x.id) :
    CI false (Backend.processEvent s x).1 := by
  obtain ⟨evs, e1, e2⟩ := processEvent_writes s x hring hk
  obtain ⟨a, b, c, d, hsh⟩ := slol_processEvent s x
  have hkeep := PC.processEvent_lgKeep s x
  refine h.grow (by rw [hsh]) evs e1 (by rw [hsh]) (by rw [hsh]) (fun i => by rw [hsh]; rfl) ?_
    (fun hf => by cases hf) ?_
  · intro sid hs
    rw [e1] at hs
    rcases unfl_append_true sid evs _ hs with h1 | ⟨e, he, hw⟩
    · obtain ⟨i, he', hs'⟩ := h.act sid h1
      exact ⟨i, by rw [(hkeep.2.2.2.2 i).2.2.1]; exact he', by rw [(hkeep.2.2.2.2 i).2.2.2]; exact hs'⟩
    · exact ⟨x.lg, by rw [(hkeep.2.2.2.2 x.lg).2.2.1]; exact hlive,
        by rw [(hkeep.2.2.2.2 x.lg).2.2.2]; exact e2 e he sid hw⟩
  · intro fn hfn i pre st more hp hkf r hr ho sid
    have hb := (PA.processEvent_w hro x sid r.id).1
    rw [e1, PA.wcount_append] at hb
    have hne : ¬ (PA.isOrd x = true ∧ x.id = r.id) := by
      rintro ⟨h1, h2⟩
      exact hpu h1 fn hfn i pre st more hp hkf r hr ho h2.symm
    rw [if_neg hne] at hb
    omega

/-- what the pop needs from the invariants of the other bundles, in the state it starts from -/
structure Ext (s : BSt) : Prop where
  live : ∀ j x rest, (s.th j).buf = x :: rest → (s.lgOf x.lg).erased = false
  ring : ∀ i r, (s.lgOf i).bt = some r → ∀ y ∈ r.items, y.lg = i
  ringOK : PA.RingOK s
  puniq : ∀ j x rest, (s.th j).buf = x :: rest → PA.isOrd x = true → ∀ r ∈ s.popLog, PA.isOrd r = true → r.id ≠ x.id
  fi : ∃ pf, FI none pf s

theorem CI.processLowest (hrel : ∀ s k, FRel s (inj s k)) {fz : Bool} {s : BSt} (h : CI fz s) (hx : Ext s) :
    CI false (Backend.processLowest inj s).1 := by
  rw [processLowest_eq]
  split
  · exact h.weaken
  · rename_i j _
    split
    · exact h.weaken
    · rename_i x rest hb
      obtain ⟨pf, hfi⟩ := hx.fi
      split
      · rename_i f hfl
        have hk := processEvent_flag s x f hfl
        have hpe := processEvent_flush s x f hk
        have hnote : plNote (Backend.processEvent s x) = Backend.flushSinks s := by rw [hpe]; rfl
        rw [hnote]
        have h1 : CI true (Backend.flushSinks s) := h.flushSinks
        obtain ⟨a, c, d, hsh⟩ := sol_flushSinks s
        have hnot : ∀ fn ∈ (Backend.flushSinks s).flagLog, x.kind ≠ .flush fn.1 := by
          intro fn hfn hkk
          rw [hk] at hkk
          simp only [Kind.flush.injEq] at hkk
          have hfl2 : fn.1 ∈ (Backend.flushSinks s).flags := h1.fl2 fn hfn
          rw [hsh] at hfl2
          exact FI.buf_flag_not_raised hfi (by rw [hb]; exact List.mem_cons_self ..) hk (by rw [hkk]; exact hfl2)
        have h2 : CI true (plPop (Backend.flushSinks s) j x rest) := h1.popTh j x rest hnot
        unfold plFlag plPre
        have h3 : CI true (Backend.cleanupContexts (if (plPop (Backend.flushSinks s) j x rest).cfg.reportBeforeFlushCleanup = true then
            Backend.checkFailures inj (plPop (Backend.flushSinks s) j x rest) else plPop (Backend.flushSinks s) j x rest)) := by
          refine CI.frel ?_ (frel_cleanupContexts _)
          split
          · exact h2.frel (frel_checkFailures hrel _)
          · exact h2
        exact (h3.raise f _).weaken
      · rename_i hnone
        have hk : ∀ f, x.kind ≠ .flush f := by
          intro f hf
          rw [processEvent_flush s x f hf] at hnone; cases hnone
        have h1 : CI false (Backend.processEvent s x).1 := by
          refine h.processEvent x hk (hx.live j x rest hb) (hx.ring x.lg) hx.ringOK ?_
          intro ho fn hfn i pre st more hp hkf r hr hor
          refine hx.puniq j x rest hb ho r ?_ hor
          exact hfi.plog i r (by rw [hp]; exact List.mem_append_left _ hr)
        have h2 : CI false (plNote (Backend.processEvent s x)) := by
          unfold plNote; split
          · exact h1.frel (FRel.emit _ _ rfl)
          · exact h1
        exact h2.popTh j x rest (fun fn _ => hk fn.1)

/-! ### the invariants of the other bundles, along a poll -/

/-- prover bundle A: conservation / queue coupling, unique ids, bounded writes, pop-history merge -/
def PAI (s : BSt) : Prop := (PA.InvA s ∧ PA.InvB s) ∧ (PA.InvW s ∧ PA.InvP s)

theorem PAI.closed : PA.Closed PAI := (PA.InvA.closed.and PA.InvB.closed).and (PA.InvW.closed.and PA.InvP.closed)

theorem PAI.inv {s : BSt} (h : PAI s) : PA.Inv s := ⟨h.1.1, h.1.2, h.2.1, h.2.2⟩

/-- ordinary statement ids are unique in the pop history -/
theorem PA_popLog_uniq {s : BSt} (h : PA.Inv s) (id : Nat) :
    (s.popLog.filter (fun x => PA.isOrd x && x.id == id)).length ≤ 1 := by
  rw [← List.countP_eq_length_filter]
  have h1 := h.p (fun x => PA.isOrd x && x.id == id)
  have h2 := PA.cntP_le_cA h.a (fun x => PA.isOrd x && x.id == id)
  have h3 := PA.cA_mono s (fun x => PA.isOrd x && x.id == id) (PA.logq id) (fun x hx => by
    simp only [PA.isOrd, Bool.and_eq_true, beq_iff_eq] at hx
    simp [PA.logq, hx.1.1, hx.2])
  have h4 : PA.cA s (PA.logq id) ≤ 1 := by
    rw [← PA.cntA_eq_cA]; have := h.b.uniq id; unfold PA.tot at this; omega
  omega

/-- everything the pop needs, bundled: the invariants of bundles A and C and the flush invariant -/
structure XS (s : BSt) : Prop where
  a : PAI s
  c : PC.FInv s
  f : ∃ pf, FI none pf s

theorem XS.ext {s : BSt} (h : XS s) : Ext s where
  live := fun j x rest hb =>
    h.c.1.2.1.live j (PC.buf_head_lt hb) x (Or.inr (by rw [hb]; exact List.mem_cons_self ..))
  ring := fun i r hbt => by
    by_cases hi : i < s.lgs.length
    · exact h.c.2.ring i hi r hbt
    · simp only [BSt.lgOf, List.getD_eq_getElem?_getD, List.getElem?_eq_none (by omega : s.lgs.length ≤ i)] at hbt
      cases hbt
  ringOK := h.a.2.1.ring
  puniq := fun j x rest hb ho r hr hor hid => by
    have hpost : PA.Inv (PA.popStep s j x rest) :=
      (PAI.closed.pop s j x rest h.a hb).inv
    have hlen := PA_popLog_uniq hpost x.id
    have hpl : (PA.popStep s j x rest).popLog = x :: s.popLog := by
      unfold PA.popStep
      simp only
      obtain ⟨a, b, c, d, hsh⟩ := slol_processEvent s x
      split <;> simp [hsh, BSt.emit]
    rw [hpl, List.filter_cons] at hlen
    have hx : (PA.isOrd x && x.id == x.id) = true := by simp [ho]
    rw [if_pos hx, List.length_cons] at hlen
    have : 0 < (s.popLog.filter (fun y => PA.isOrd y && y.id == x.id)).length :=
      List.length_pos_iff.mpr (by
        intro he
        have : r ∈ s.popLog.filter (fun y => PA.isOrd y && y.id == x.id) :=
          List.mem_filter.mpr ⟨hr, by simp [hor, hid]⟩
        rw [he] at this; cases this)
    omega
  fi := h.f

/-- what is assumed of the injection runner (true of every `runInj table`) -/
structure InjX (inj : BSt → Nat → BSt) : Prop where
  a : ∀ s k, PAI s → PAI (inj s k)
  c : PC.InjOK PC.FInv inj
  f : InjOK2 inj
  r : ∀ s k, FRel s (inj s k)

theorem injX_runInj (table : List (Nat × Nat × List FOp)) : InjX (runInj table) :=
  ⟨fun s k h => PA.runInj_closed PAI.closed table s k h, PC.runInj_ok PC.FInv_closed table, injOK2_runInj table,
   fun s k => frel_runInj table s k⟩

theorem XS.injStep (hj : InjX inj) {s : BSt} (h : XS s) (k : Nat) : XS (inj s k) :=
  ⟨hj.a s k h.a, (hj.c s k h.c).1, by obtain ⟨pf, hf⟩ := h.f; exact ⟨pf, hj.f pf s k hf⟩⟩

theorem XS.populate (hj : InjX inj) {s : BSt} (h : XS s) : XS (Backend.populate inj s).1 :=
  ⟨PA.populate_closed PAI.closed inj hj.a s h.a, PC.populate_ok PC.FInv_closed.toClosedB hj.c s h.c,
   by obtain ⟨pf, hf⟩ := h.f; exact ⟨pf, hf.populate hj.f⟩⟩

theorem XS.processLowest (hj : InjX inj) {s : BSt} (h : XS s) : XS (Backend.processLowest inj s).1 :=
  ⟨PA.processLowest_closed PAI.closed inj hj.a s h.a, PC.processLowest_ok PC.FInv_closed.toClosedB hj.c s h.c,
   by obtain ⟨pf, hf⟩ := h.f; exact ⟨pf, hf.processLowest hj.f⟩⟩

theorem XS.hasPending {s : BSt} (h : XS s) : XS (Backend.hasPending s).1 :=
  ⟨PA.hasPending_closed PAI.closed.toClosedH s h.a, PC.FInv_closed.hasPending s h.c,
   by obtain ⟨pf, hf⟩ := h.f; exact ⟨pf, hf.same (same2_hasPending s)⟩⟩

theorem XS.allEmpty {s : BSt} (h : XS s) : XS (Backend.allEmpty s).1 :=
  ⟨PA.allEmpty_closed PAI.closed.toClosedH s h.a, PC.FInv_closed.allEmpty s h.c,
   by obtain ⟨pf, hf⟩ := h.f; exact ⟨pf, hf.same (same2_allEmpty s)⟩⟩

theorem XS.flushSinks {s : BSt} (h : XS s) : XS (Backend.flushSinks s) :=
  ⟨PAI.closed.frame s _ h.a (PA.flushSinks_frame s), PC.FInv_closed.flushSinks s h.c,
   by obtain ⟨pf, hf⟩ := h.f; exact ⟨pf, hf.frame (slol_flushSinks s).core2⟩⟩

theorem XS.checkFailures (hj : InjX inj) {s : BSt} (h : XS s) : XS (Backend.checkFailures inj s) :=
  ⟨PA.checkFailures_closed PAI.closed inj hj.a s h.a, PC.checkFailures_ok PC.FInv_closed.toClosedB hj.c s h.c,
   by obtain ⟨pf, hf⟩ := h.f; exact ⟨pf, hf.checkFailures hj.f⟩⟩

theorem XS.cleanupContexts {s : BSt} (h : XS s) : XS (Backend.cleanupContexts s) :=
  ⟨PA.cleanupContexts_closed PAI.closed.toClosedH s h.a, PC.FInv_closed.cleanupContexts s h.c,
   by obtain ⟨pf, hf⟩ := h.f; exact ⟨pf, hf.cleanupContexts⟩⟩

theorem XS.cleanupLoggers (hj : InjX inj) {s : BSt} (h : XS s) : XS (Backend.cleanupLoggers inj s) :=
  ⟨PA.cleanupLoggers_closed PAI.closed.toClosedH inj hj.a s h.a, PC.cleanupLoggers_ok PC.FInv_closed.toClosedB hj.c s h.c,
   by obtain ⟨pf, hf⟩ := h.f; exact ⟨pf, hf.cleanupLoggers hj.f⟩⟩

theorem XS.batchLoop (hj : InjX inj) (fuel : Nat) {s : BSt} (h : XS s) : XS (Backend.batchLoop inj fuel s) :=
  ⟨PA.batchLoop_closed PAI.closed inj hj.a fuel s h.a, PC.batchLoop_ok PC.FInv_closed.toClosedB hj.c fuel s h.c,
   by obtain ⟨pf, hf⟩ := h.f; exact ⟨pf, FI.batchLoop hj.f fuel s hf⟩⟩

/-! ### a poll, the exit loop, every schedule -/

theorem CI.batchLoop (hj : InjX inj) (fuel : Nat) : ∀ (s : BSt) (fz : Bool), CI fz s → XS s →
    CI false (Backend.batchLoop inj fuel s) := by
  induction fuel with
  | zero => intro s fz h _; exact h.weaken
  | succ n ih =>
    intro s fz h hx
    unfold Backend.batchLoop
    simp only
    have h1 : CI fz (Backend.hasPending s).1 := h.frel (frel_hasPending s)
    have x1 := hx.hasPending
    split
    · exact h1.weaken
    · have h2 := h1.processLowest hj.r x1.ext
      have x2 := x1.processLowest hj
      split
      · exact h2
      · exact ih _ _ (h2.frel (hj.r _ 4)) (x2.injStep hj 4)

theorem CI.poll (hj : InjX inj) {fz : Bool} {s : BSt} (h : CI fz s) (hx : XS s) : CI false (Backend.poll inj s) := by
  have h1 : CI fz (Backend.populate inj s).1 := h.frel (frel_populate hj.r s)
  have x1 := hx.populate hj
  unfold Backend.poll
  rcases hpop : Backend.populate inj s with ⟨s1, count⟩
  rw [hpop] at h1 x1
  simp only at h1 x1 ⊢
  split
  · split
    · exact h1.processLowest hj.r x1.ext
    · exact CI.batchLoop hj _ _ _ h1 x1
  · have h5 : CI fz (inj s1 5) := h1.frel (hj.r _ 5)
    obtain ⟨fz6, h6, hz6⟩ := h5.flushGate hj.r
    have h7 := h6.frel (frel_checkFailures hj.r _)
    have h8 := h7.frel (frel_allEmpty _)
    split
    · refine (h8.frel (frel_cleanupContexts _)).eraseTail hj.r (fun h0 => hz6 ?_)
      rw [← ((frel_checkFailures hj.r _).trans ((frel_allEmpty _).trans (frel_cleanupContexts _))).cfg]
      exact h0
    · exact h8.weaken

theorem XS.poll (hj : InjX inj) {s : BSt} (h : XS s) : XS (Backend.poll inj s) :=
  ⟨PA.poll_closed PAI.closed inj hj.a s h.a, PC.poll_ok PC.FInv_closed.toClosedB hj.c s h.c,
   by obtain ⟨pf, hf⟩ := h.f; exact ⟨pf, hf.poll hj.f⟩⟩

theorem XS.exitLoop (hj : InjX inj) (tick fuel : Nat) {s : BSt} (h : XS s) : XS (Backend.exitLoop inj tick fuel s) :=
  ⟨PA.exitLoop_closed PAI.closed inj hj.a tick fuel s h.a, PC.exitLoop_ok PC.FInv_closed.toClosedB hj.c tick fuel s h.c,
   by obtain ⟨pf, hf⟩ := h.f; exact ⟨pf, FI.exitLoop hj.f tick fuel s hf⟩⟩

theorem XS.clock {s : BSt} (h : XS s) (n : Nat) : XS { s with now := n } :=
  ⟨PAI.closed.frame s _ h.a (PA.Frame.of_eq rfl rfl rfl rfl rfl rfl rfl rfl rfl rfl rfl rfl rfl (fun _ hf => hf)),
   PC.FInv_closed.clock s n h.c, by obtain ⟨pf, hf⟩ := h.f; exact ⟨pf, hf.frame rfl⟩⟩

theorem CI.exitLoop (hj : InjX inj) (tick fuel : Nat) : ∀ (s : BSt) (fz : Bool), CI fz s → XS s →
    CI false (Backend.exitLoop inj tick fuel s) := by
  induction fuel with
  | zero => intro s fz h _; exact h.weaken
  | succ n ih =>
    intro s fz h hx
    unfold Backend.exitLoop
    simp only
    have h1 : CI fz (Backend.allEmpty s).1 := h.frel (frel_allEmpty s)
    have x1 := hx.allEmpty
    split
    · have h2 : CI true (Backend.flushSinks (Backend.checkFailures inj (Backend.allEmpty s).1)) :=
        (h1.frel (frel_checkFailures hj.r _)).flushSinks
      exact (h2.frel (frel_cleanupContexts _)).eraseTail hj.r (fun _ => rfl)
    · have h2 : CI fz { (Backend.allEmpty s).1 with now := (Backend.allEmpty s).1.now + tick } :=
        h1.frel (FRel.ofEq rfl rfl rfl rfl rfl rfl)
      have x2 := x1.clock ((Backend.allEmpty s).1.now + tick)
      have h3 := h2.frel (frel_populate hj.r _)
      have x3 := x2.populate hj
      rcases hpop : Backend.populate inj { (Backend.allEmpty s).1 with now := (Backend.allEmpty s).1.now + tick } with ⟨s1, count⟩
      rw [hpop] at h3 x3
      simp only at h3 x3 ⊢
      split
      · exact ih _ _ (CI.batchLoop hj _ _ _ h3 x3) (x3.batchLoop hj _)
      · exact ih _ _ h3 x3

/-- the invariant along a schedule -/
structure TI (s : BSt) : Prop where
  x : XS s
  c : CI false s

theorem XS.front {s : BSt} (h : XS s) (f : FOp) : XS (Backend.applyFront s f).1 :=
  ⟨PAI.closed.front s f h.a, PC.FInv_closed.front s f h.c, by obtain ⟨pf, hf⟩ := h.f; exact ⟨pf, hf.applyFront f⟩⟩

theorem TI.applyOp {s : BSt} (h : TI s) (o : Op) : TI (Backend.applyOp s o).1 := by
  cases o with
  | front f => exact ⟨h.x.front f, h.c.frel (frel_applyFront s f)⟩
  | poll table =>
    simp only [Backend.applyOp]
    split
    · exact h
    · have hx0 : XS { s with siteCnt := [] } :=
        ⟨PAI.closed.frame s _ h.x.a (PA.Frame.of_eq rfl rfl rfl rfl rfl rfl rfl rfl rfl rfl rfl rfl rfl (fun _ hf => hf)),
         PC.FInv_closed.siteCnt s [] h.x.c, by obtain ⟨pf, hf⟩ := h.x.f; exact ⟨pf, hf.frame rfl⟩⟩
      have hc0 : CI false { s with siteCnt := [] } := h.c.frel (FRel.ofEq rfl rfl rfl rfl rfl rfl)
      exact ⟨hx0.poll (injX_runInj table), hc0.poll (injX_runInj table) hx0⟩
  | exit =>
    simp only [Backend.applyOp]
    split
    · exact h
    · have hx0 : XS { s with siteCnt := [] } :=
        ⟨PAI.closed.frame s _ h.x.a (PA.Frame.of_eq rfl rfl rfl rfl rfl rfl rfl rfl rfl rfl rfl rfl rfl (fun _ hf => hf)),
         PC.FInv_closed.siteCnt s [] h.x.c, by obtain ⟨pf, hf⟩ := h.x.f; exact ⟨pf, hf.frame rfl⟩⟩
      have hc0 : CI false { s with siteCnt := [] } := h.c.frel (FRel.ofEq rfl rfl rfl rfl rfl rfl)
      have x1 := hx0.exitLoop (injX_runInj []) 1000 100000
      have c1 := CI.exitLoop (injX_runInj []) 1000 100000 _ _ hc0 hx0
      exact ⟨⟨PAI.closed.frame _ _ x1.a (PA.Frame.of_eq rfl rfl rfl rfl rfl rfl rfl rfl rfl rfl rfl rfl rfl (fun _ hf => hf)),
         PC.FInv_closed.gone _ x1.c, by obtain ⟨pf, hf⟩ := x1.f; exact ⟨pf, hf.frame rfl⟩⟩,
        c1.frel (FRel.ofEq rfl rfl rfl rfl rfl rfl)⟩

theorem TI.runOps {s : BSt} (h : TI s) (ops : List Op) : TI (Backend.runOps s ops) := by
  unfold Backend.runOps
  induction ops generalizing s with
  | nil => exact h
  | cons o os ih => rw [List.foldl_cons]; exact ih (h.applyOp o)

end Backend.PB

namespace Backend
open Backend.PB

/-- a freshly started system, for the flush contract: the initial states of the other bundles (no thread, no event,
    `PC.FInv`: names resolve, sinks alive and distinct, no backtrace storage — every `LoggerFresh` state), no flag raised or logged yet, and the F12 repair in
    force (the flush covers loggers marked invalid), and — F33 — either `sink_min_flush_interval = 0` (the idle pass that
    erases a logger has just flushed) or the clean-up flushes before it erases (`flushBeforeLoggerErase`, the repair) -/
structure StartC (s : BSt) : Prop where
  a : PA.Fresh s
  c : PC.FInv s
  f : StartF s
  flagLog : s.flagLog = []
  f12 : s.cfg.flushInvalidatedLoggers = true
  f33 : s.cfg.flushInterval = 0 ∨ s.cfg.flushBeforeLoggerErase = true

namespace PB

theorem start_TI {s : BSt} (h : StartC s) : TI s := by
  have hinv := h.a.inv
  refine ⟨⟨⟨⟨hinv.a, hinv.b⟩, ⟨hinv.w, hinv.p⟩⟩, h.c, ⟨[], start_FI h.f⟩⟩, ?_⟩
  have hlog : s.log = [] := h.a.log
  refine ⟨h.f12, h.f33, ?_, (fun hf => by cases hf), ?_, ?_, ?_, ?_⟩
  · intro sid hs; rw [hlog] at hs; cases hs
  · intro fn hfn; rw [h.flagLog] at hfn; cases hfn
  · intro fn hfn; rw [h.flagLog] at hfn; cases hfn
  · intro f hf; rw [h.f.flags] at hf; cases hf
  · intro fn hfn; rw [h.flagLog] at hfn; cases hfn

end PB
end Backend
