import QuillModel.Backend.FlushStep
import QuillModel.Backend.ConsProofsStep
import QuillModel.Backend.SinkBack
/-!
# The flush contract over positions of the event log (C06)

`CI fz s` relates the event history `log` (newest first) to the loggers and to `flagLog`:
* a sink whose newest event is a `write` (an *unflushed* sink, `unfl`) belongs to a logger that is not erased — so the
  next `_flush_and_run_active_sinks` flushes it (with the F12 repair: loggers marked invalid are still covered);
* `fz` — no sink at all is unflushed (after `flushSinks`, until the next dispatch): a logger is only erased then;
* for every entry `(f, n)` of `flagLog`: in the history as it was when the flag was raised (the oldest `n` events) no
  sink is unflushed, and no ordinary write of a statement popped before the Flush statement of `f` comes later.
It uses the invariants of the other proof bundles at the pop: every buffered record refers to a live logger
(`PC.FInv`), backtrace rings hold backtrace statements and ordinary statement ids are unique in the pop history
(`PA.Inv`), flag numbers are unique (`FI`).
-/
namespace Backend.PB
open Backend

def isWr (sid : Nat) : Ev → Bool
  | .write s _ _ _ _ => s == sid
  | _ => false

def isFl (sid : Nat) : Ev → Bool
  | .flushed s => s == sid
  | .fthrow s => s == sid
  | _ => false

/-- an event that is neither a write nor a flush (attempt) of any sink -/
def neutral : Ev → Bool
  | .write .. => false
  | .flushed _ => false
  | .fthrow _ => false
  | _ => true

/-- the newest event of sink `sid` in the log is a write: the sink holds unflushed output -/
def unfl (sid : Nat) : List Ev → Bool
  | [] => false
  | e :: l => if isWr sid e then true else if isFl sid e then false else unfl sid l

theorem neutral_isWr {e : Ev} (h : neutral e = true) (sid : Nat) : isWr sid e = false := by
  cases e <;> simp_all [neutral, isWr]
theorem neutral_isFl {e : Ev} (h : neutral e = true) (sid : Nat) : isFl sid e = false := by
  cases e <;> simp_all [neutral, isFl]
theorem neutral_ordWrite {e : Ev} (h : neutral e = true) (sid id : Nat) : PA.ordWrite sid id e = false := by
  cases e <;> simp_all [neutral, PA.ordWrite]

theorem unfl_append_plain (sid : Nat) (new l : List Ev) (h : ∀ e ∈ new, isWr sid e = false ∧ isFl sid e = false) :
    unfl sid (new ++ l) = unfl sid l := by
  induction new with
  | nil => rfl
  | cons e es ih =>
    have := h e (List.mem_cons_self ..)
    simp only [List.cons_append, unfl, this.1, this.2, Bool.false_eq_true, if_false]
    exact ih (fun x hx => h x (List.mem_cons_of_mem _ hx))

theorem unfl_append_flushed (sid : Nat) (new l : List Ev) (hw : ∀ e ∈ new, isWr sid e = false)
    (hf : ∃ e ∈ new, isFl sid e = true) : unfl sid (new ++ l) = false := by
  induction new with
  | nil => obtain ⟨e, he, _⟩ := hf; cases he
  | cons e es ih =>
    have h1 := hw e (List.mem_cons_self ..)
    simp only [List.cons_append, unfl, h1, Bool.false_eq_true, if_false]
    by_cases h2 : isFl sid e = true
    · simp [h2]
    · simp only [h2, if_false]
      obtain ⟨x, hx, hxf⟩ := hf
      rcases List.mem_cons.mp hx with rfl | hx
      · exact absurd hxf h2
      · exact ih (fun y hy => hw y (List.mem_cons_of_mem _ hy)) ⟨x, hx, hxf⟩

theorem unfl_append_true (sid : Nat) (new l : List Ev) (h : unfl sid (new ++ l) = true) :
    unfl sid l = true ∨ ∃ e ∈ new, isWr sid e = true := by
  induction new with
  | nil => exact Or.inl h
  | cons e es ih =>
    simp only [List.cons_append, unfl] at h
    by_cases h1 : isWr sid e = true
    · exact Or.inr ⟨e, List.mem_cons_self .., h1⟩
    · simp only [h1, if_false] at h
      by_cases h2 : isFl sid e = true
      · simp [h2] at h
      · simp only [h2, if_false] at h
        rcases ih h with h3 | ⟨x, hx, hxw⟩
        · exact Or.inl h3
        · exact Or.inr ⟨x, List.mem_cons_of_mem _ hx, hxw⟩

/-- reading `unfl … = false`: every write of the sink is followed (towards the newer end) by a flush of that sink -/
theorem unfl_false_split (sid : Nat) (a b : List Ev) (e : Ev) (h : unfl sid (a ++ e :: b) = false)
    (he : isWr sid e = true) : ∃ x ∈ a, isFl sid x = true := by
  induction a with
  | nil => simp [unfl, he] at h
  | cons x xs ih =>
    simp only [List.cons_append, unfl] at h
    by_cases h1 : isWr sid x = true
    · simp [h1] at h
    · simp only [h1, if_false] at h
      by_cases h2 : isFl sid x = true
      · exact ⟨x, List.mem_cons_self .., h2⟩
      · simp only [h2, if_false] at h
        obtain ⟨y, hy, hyf⟩ := ih h
        exact ⟨y, List.mem_cons_of_mem _ hy, hyf⟩

structure CI (fz : Bool) (s : BSt) : Prop where
  act : ∀ sid, unfl sid s.log = true → ∃ i, (s.lgOf i).erased = false ∧ sid ∈ (s.lgOf i).sinks
  fzc : fz = true → ∀ sid, unfl sid s.log = false
  fl1 : ∀ fn ∈ s.flagLog, fn.2 ≤ s.log.length ∧ ∀ sid, unfl sid (s.log.drop (s.log.length - fn.2)) = false
  fl2 : ∀ fn ∈ s.flagLog, fn.1 ∈ s.flags
  wr : ∀ fn ∈ s.flagLog, ∀ i pre st more, (s.th i).popped = pre ++ st :: more → st.kind = .flush fn.1 →
        ∀ r ∈ pre, PA.isOrd r = true → ∀ sid, PA.wcount (s.log.take (s.log.length - fn.2)) sid r.id = 0

theorem CI.weaken {fz : Bool} {s : BSt} (h : CI fz s) : CI false s :=
  { h with fzc := fun hf => by cases hf }

/-- what happens to the positional clauses when the log grows by `new` and nothing else they mention changes -/
theorem CI.grow {fz fz' : Bool} {s s' : BSt} (h : CI fz s) (new : List Ev) (hlog : s'.log = new ++ s.log)
    (hfl : s'.flagLog = s.flagLog) (hflags : ∀ f ∈ s.flags, f ∈ s'.flags)
    (hpop : ∀ i, (s'.th i).popped = (s.th i).popped)
    (hact : ∀ sid, unfl sid s'.log = true → ∃ i, (s'.lgOf i).erased = false ∧ sid ∈ (s'.lgOf i).sinks)
    (hfz : fz' = true → ∀ sid, unfl sid s'.log = false)
    (hw : ∀ fn ∈ s.flagLog, ∀ i pre st more, (s.th i).popped = pre ++ st :: more → st.kind = .flush fn.1 →
        ∀ r ∈ pre, PA.isOrd r = true → ∀ sid, PA.wcount new sid r.id = 0) : CI fz' s' := by
  have hlen : s'.log.length = new.length + s.log.length := by rw [hlog, List.length_append]
  refine ⟨hact, hfz, ?_, ?_, ?_⟩
  · intro fn hfn
    rw [hfl] at hfn
    obtain ⟨h1, h2⟩ := h.fl1 fn hfn
    refine ⟨by omega, fun sid => ?_⟩
    have : s'.log.length - fn.2 = new.length + (s.log.length - fn.2) := by omega
    have e1 : List.drop (new.length + (s.log.length - fn.2)) new = [] := List.drop_of_length_le (by omega)
    have e2 : new.length + (s.log.length - fn.2) - new.length = s.log.length - fn.2 := by omega
    rw [this, hlog, List.drop_append, e1, e2, List.nil_append]; exact h2 sid
  · intro fn hfn; rw [hfl] at hfn; exact hflags _ (h.fl2 fn hfn)
  · intro fn hfn i pre st more hp hk r hr ho sid
    rw [hfl] at hfn
    rw [hpop] at hp
    obtain ⟨h1, _⟩ := h.fl1 fn hfn
    have : s'.log.length - fn.2 = new.length + (s.log.length - fn.2) := by omega
    have e1 : List.take (new.length + (s.log.length - fn.2)) new = new := List.take_of_length_le (by omega)
    have e2 : new.length + (s.log.length - fn.2) - new.length = s.log.length - fn.2 := by omega
    rw [this, hlog, List.take_append, e1, e2, PA.wcount_append, h.wr fn hfn i pre st more hp hk r hr ho sid,
      hw fn hfn i pre st more hp hk r hr ho sid]

/-- a step that emits only neutral events, keeps the sink lists of the loggers that are not erased (erasing none),
    the flag log and the pop histories -/
theorem CI.plain {fz : Bool} {s s' : BSt} (h : CI fz s) (new : List Ev) (hlog : s'.log = new ++ s.log)
    (hn : ∀ e ∈ new, neutral e = true)
    (hlg : ∀ i sid, (s.lgOf i).erased = false → sid ∈ (s.lgOf i).sinks →
      (s'.lgOf i).erased = false ∧ sid ∈ (s'.lgOf i).sinks)
    (hfl : s'.flagLog = s.flagLog) (hflags : ∀ f ∈ s.flags, f ∈ s'.flags)
    (hpop : ∀ i, (s'.th i).popped = (s.th i).popped) : CI fz s' := by
  have hun : ∀ sid, unfl sid s'.log = unfl sid s.log := fun sid => by
    rw [hlog]; exact unfl_append_plain sid new _ (fun e he => ⟨neutral_isWr (hn e he) sid, neutral_isFl (hn e he) sid⟩)
  refine h.grow new hlog hfl hflags hpop ?_ ?_ ?_
  · intro sid hs
    rw [hun] at hs
    obtain ⟨i, h1, h2⟩ := h.act sid hs
    exact ⟨i, (hlg i sid h1 h2).1, (hlg i sid h1 h2).2⟩
  · intro hf sid; rw [hun]; exact h.fzc hf sid
  · intro fn _ i pre st more _ _ r _ _ sid
    unfold PA.wcount
    rw [List.countP_eq_zero]
    intro e he; simp [neutral_ordWrite (hn e he)]

/-- nothing the invariant mentions changes -/
theorem CI.same {fz : Bool} {s s' : BSt} (h : CI fz s) (hlog : s'.log = s.log) (hlgs : s'.lgs = s.lgs)
    (hfl : s'.flagLog = s.flagLog) (hflags : s'.flags = s.flags) (hths : s'.ths = s.ths) : CI fz s' :=
  h.plain [] (by simp [hlog]) (fun _ h => by cases h)
    (fun i sid he hs => by
      have : s'.lgOf i = s.lgOf i := by simp only [BSt.lgOf, hlgs]
      rw [this]; exact ⟨he, hs⟩) hfl (fun f hf => by rw [hflags]; exact hf)
    (fun i => by simp only [BSt.th, hths])

/-! ### frontend operations -/

/-- what a frontend operation may do to the things `CI` mentions -/
structure FRel (s s' : BSt) : Prop where
  log : ∃ new, s'.log = new ++ s.log ∧ ∀ e ∈ new, neutral e = true
  lg : ∀ i sid, (s.lgOf i).erased = false → sid ∈ (s.lgOf i).sinks → (s'.lgOf i).erased = false ∧ sid ∈ (s'.lgOf i).sinks
  fl : s'.flagLog = s.flagLog
  flags : ∀ f ∈ s.flags, f ∈ s'.flags
  pop : ∀ i, (s'.th i).popped = (s.th i).popped

theorem FRel.refl (s : BSt) : FRel s s :=
  ⟨⟨[], rfl, fun _ h => by cases h⟩, fun _ _ h1 h2 => ⟨h1, h2⟩, rfl, fun _ h => h, fun _ => rfl⟩

theorem FRel.trans {a b c : BSt} (h1 : FRel a b) (h2 : FRel b c) : FRel a c := by
  obtain ⟨n1, e1, m1⟩ := h1.log
  obtain ⟨n2, e2, m2⟩ := h2.log
  refine ⟨⟨n2 ++ n1, by rw [e2, e1, List.append_assoc], ?_⟩, ?_, h2.fl.trans h1.fl, fun f hf => h2.flags f (h1.flags f hf),
    fun i => (h2.pop i).trans (h1.pop i)⟩
  · intro e he
    rcases List.mem_append.mp he with h | h
    · exact m2 e h
    · exact m1 e h
  · intro i sid he hs
    obtain ⟨x1, x2⟩ := h1.lg i sid he hs
    exact h2.lg i sid x1 x2

theorem CI.frel {fz : Bool} {s s' : BSt} (h : CI fz s) (r : FRel s s') : CI fz s' := by
  obtain ⟨new, e, m⟩ := r.log
  exact h.plain new e m r.lg r.fl r.flags r.pop

/-- changes of fields `CI` does not mention, stated through equalities -/
theorem FRel.ofEq {s s' : BSt} (h1 : s'.log = s.log) (h2 : s'.lgs = s.lgs) (h3 : s'.flagLog = s.flagLog)
    (h4 : s'.flags = s.flags) (h5 : s'.ths = s.ths) : FRel s s' :=
  ⟨⟨[], by simp [h1], fun _ h => by cases h⟩, fun i sid he hs => by
      have : s'.lgOf i = s.lgOf i := by simp only [BSt.lgOf, h2]
      rw [this]; exact ⟨he, hs⟩, h3, fun f hf => by rw [h4]; exact hf, fun i => by simp only [BSt.th, h5]⟩

theorem FRel.setTh (s : BSt) (i : Nat) (f : Th → Th) (hf : ∀ t, (f t).popped = t.popped) : FRel s (s.setTh i f) :=
  ⟨⟨[], rfl, fun _ h => by cases h⟩, fun _ _ h1 h2 => ⟨h1, h2⟩, rfl, fun _ h => h, fun j => by
    rcases th_setTh_cases s i j f with h | ⟨rfl, _, h⟩
    · rw [h]
    · rw [h, hf]⟩

theorem FRel.setLg (s : BSt) (i : Nat) (f : Lg → Lg) (hf : ∀ l, (f l).erased = l.erased ∧ (f l).sinks = l.sinks) :
    FRel s (s.setLg i f) := by
  refine ⟨⟨[], rfl, fun _ h => by cases h⟩, ?_, rfl, fun _ h => h, fun _ => rfl⟩
  intro j sid he hs
  have key : (s.setLg i f).lgOf j = s.lgOf j ∨ (s.setLg i f).lgOf j = f (s.lgOf j) := by
    simp only [BSt.lgOf, BSt.setLg, getD_updAt]
    split
    · exact Or.inr rfl
    · exact Or.inl rfl
  rcases key with k | k
  · rw [k]; exact ⟨he, hs⟩
  · rw [k, (hf _).1, (hf _).2]; exact ⟨he, hs⟩

theorem FRel.emit (s : BSt) (e : Ev) (he : neutral e = true) : FRel s (s.emit e) :=
  ⟨⟨[e], rfl, fun x hx => by rw [List.mem_singleton.mp hx]; exact he⟩, fun _ _ h1 h2 => ⟨h1, h2⟩, rfl, fun _ h => h, fun _ => rfl⟩

theorem frel_setActor (s : BSt) (a : Nat) (g : Actor → Actor) : FRel s (s.setActor a g) := FRel.ofEq rfl rfl rfl rfl rfl

theorem frel_ensureCtx (s : BSt) (a : Nat) : FRel s (Backend.ensureCtx s a).1 := by
  unfold Backend.ensureCtx
  split
  · exact FRel.refl _
  · simp only
    refine ⟨⟨[], rfl, fun _ h => by cases h⟩, fun _ _ h1 h2 => ⟨h1, h2⟩, rfl, fun _ h => h, fun j => ?_⟩
    have : ((({ s with ths := s.ths ++ [mkTh s.cfg a], registry := s.registry ++ [s.ths.length], newFlag := true } : BSt).setActor a
        (fun x => { x with ctx := some s.ths.length })).th j) = if j = s.ths.length then mkTh s.cfg a else s.th j :=
      th_append s _ j
    rw [this]
    split
    · rename_i hj; rw [th_lt_or_default s j (by omega)]; rfl
    · rfl

theorem frel_tryEnq (s : BSt) (ci : Nat) (st : Stmt) : FRel s (Backend.tryEnq s ci st).1 := by
  unfold Backend.tryEnq
  simp only
  split
  · exact FRel.setTh s ci _ (fun _ => rfl)
  · exact FRel.setTh s ci _ (fun _ => rfl)

theorem frel_afterEnq (s : BSt) (a : Nat) (st : Stmt) (cont : Nat) : FRel s (Backend.afterEnq s a st cont).1 := by
  unfold Backend.afterEnq
  split
  · exact FRel.ofEq rfl rfl rfl rfl rfl
  · exact FRel.setLg s _ _ (fun _ => ⟨rfl, rfl⟩)
  · exact FRel.refl _
  · dsimp only
    refine FRel.trans (FRel.setLg s st.lg (fun l => { l with valid := false }) (fun _ => ⟨rfl, rfl⟩)) ?_
    exact FRel.ofEq rfl rfl rfl rfl rfl
  · exact FRel.refl _

theorem frel_enqFlow (s : BSt) (a : Nat) (st : Stmt) (cont : Nat) (first initial : Bool) :
    FRel s (Backend.enqFlow s a st cont first initial).1 := by
  have h1 := frel_ensureCtx s a
  rcases he : Backend.ensureCtx s a with ⟨s1, ci⟩
  rw [he] at h1
  have h2 := frel_tryEnq s1 ci st
  rcases ht : Backend.tryEnq s1 ci st with ⟨s2, ok⟩
  rw [ht] at h2
  simp only at h1 h2
  have h12 := h1.trans h2
  unfold Backend.enqFlow
  simp only [he, ht]
  have hb : ∀ (y : BSt) (g : Th → Th), (∀ t, (g t).popped = t.popped) →
      FRel y (if isLogKind st.kind = true then y.setTh ci g else y) := by
    intro y g hg; split
    · exact FRel.setTh y ci g hg
    · exact FRel.refl _
  split
  · refine FRel.trans ?_ (frel_afterEnq _ a st cont)
    exact h12.trans (frel_setActor _ _ _)
  · split
    · split
      · show FRel s (BSt.setActor _ _ _)
        refine FRel.trans ?_ (frel_setActor _ _ _)
        exact h12.trans (hb s2 _ (fun _ => rfl))
      · show FRel s (BSt.setActor _ _ _)
        refine FRel.trans ?_ (frel_setActor _ _ _)
        exact h12.trans (hb s2 _ (fun _ => rfl))
    · show FRel s (BSt.setActor _ _ _)
      refine FRel.trans ?_ (frel_setActor _ _ _)
      split
      · exact h12.trans (hb s2 _ (fun _ => rfl))
      · exact h12

theorem frel_frontCall (s : BSt) (a lgi : Nat) (kind : Kind) (lvl len cont : Nat) (dyn : Bool) (id : Nat) (named : Bool) :
    FRel s (Backend.frontCall s a lgi kind lvl len cont dyn id named).1 := by
  unfold Backend.frontCall
  simp only
  split
  · exact FRel.ofEq rfl rfl rfl rfl rfl
  · exact frel_enqFlow _ _ _ _ _ _

theorem frel_resume (s : BSt) (a : Nat) : FRel s (Backend.resume s a).1 := by
  unfold Backend.resume
  split
  · exact frel_enqFlow _ _ _ _ _ _
  · split <;> exact frel_enqFlow _ _ _ _ _ _
  · split
    · exact FRel.ofEq rfl rfl rfl rfl rfl
    · exact FRel.refl _
  · exact FRel.refl _

theorem frel_withLogger (s : BSt) (a g : Nat) (k : Nat → BSt × String) (hk : ∀ lgi, FRel s (k lgi).1) :
    FRel s (Backend.withLogger s a g k).1 := by
  unfold Backend.withLogger
  split
  · unfold noteCall; exact (hk _).trans (FRel.ofEq rfl rfl rfl rfl rfl)
  · exact FRel.refl _

theorem frel_reapSinks (s : BSt) (l : List Nat) : FRel s (reapSinks s l) := by
  unfold reapSinks
  induction l generalizing s with
  | nil => exact FRel.refl _
  | cons x xs ih =>
    rw [List.foldl_cons]
    refine FRel.trans ?_ (ih _)
    split
    · refine FRel.trans (b := s.setSink x (fun k => { k with alive := false })) (FRel.ofEq rfl rfl rfl rfl rfl) ?_
      exact FRel.emit _ _ rfl
    · exact FRel.refl _

theorem lgOf_append_lt (s : BSt) (x : Lg) (i : Nat) (hi : i < s.lgs.length) :
    (s.lgs ++ [x]).getD i default = s.lgOf i := by
  simp only [BSt.lgOf, List.getD_eq_getElem?_getD, List.getElem?_append_left hi]

theorem frel_applyFront (s : BSt) (f : FOp) : FRel s (Backend.applyFront s f).1 := by
  cases f with
  | tick dt => exact FRel.ofEq rfl rfl rfl rfl rfl
  | tstart a => simp only [Backend.applyFront]; split <;> exact FRel.ofEq rfl rfl rfl rfl rfl
  | texit a =>
    simp only [Backend.applyFront]
    split
    · exact FRel.refl _
    · split
      · rename_i i _
        have h1 : FRel s (s.setActor a (fun x => { x with alive := false })) := frel_setActor _ _ _
        have h2 := h1.trans (FRel.setTh (s.setActor a (fun x => { x with alive := false })) i
          (fun t => { t with valid := false }) (fun _ => rfl))
        exact h2.trans (FRel.ofEq rfl rfl rfl rfl rfl)
      · exact FRel.ofEq rfl rfl rfl rfl rfl
  | resume a =>
    simp only [Backend.applyFront]
    have := frel_resume s a
    split
    · exact this
    · split
      · exact this
      · exact this.trans (FRel.ofEq rfl rfl rfl rfl rfl)
  | armStall a => simp only [Backend.applyFront]; split <;> exact FRel.ofEq rfl rfl rfl rfl rfl
  | log a g lvl len dyn =>
    simp only [Backend.applyFront]
    refine frel_withLogger s a g _ (fun lgi => ?_)
    split
    · exact (FRel.ofEq (s := s) (s' := { s with nextId := s.nextId + 1 }) rfl rfl rfl rfl rfl).trans (frel_frontCall _ _ _ _ _ _ _ _ _ _)
    · exact FRel.ofEq rfl rfl rfl rfl rfl
  | logNamed a g len =>
    simp only [Backend.applyFront]
    refine frel_withLogger s a g _ (fun lgi => ?_)
    split
    · exact (FRel.ofEq (s := s) (s' := { s with nextId := s.nextId + 1 }) rfl rfl rfl rfl rfl).trans (frel_frontCall _ _ _ _ _ _ _ _ _ _)
    · exact FRel.ofEq rfl rfl rfl rfl rfl
  | logBt a g len =>
    simp only [Backend.applyFront]
    refine frel_withLogger s a g _ (fun lgi => ?_)
    split
    · exact (FRel.ofEq (s := s) (s' := { s with nextId := s.nextId + 1 }) rfl rfl rfl rfl rfl).trans (frel_frontCall _ _ _ _ _ _ _ _ _ _)
    · exact FRel.ofEq rfl rfl rfl rfl rfl
  | initBt a g cap fl' =>
    simp only [Backend.applyFront]
    exact frel_withLogger s a g _ (fun lgi => frel_frontCall _ _ _ _ _ _ _ _ _ _)
  | flushBt a g =>
    simp only [Backend.applyFront]
    exact frel_withLogger s a g _ (fun lgi => frel_frontCall _ _ _ _ _ _ _ _ _ _)
  | flush a g =>
    simp only [Backend.applyFront]
    exact frel_withLogger s a g _ (fun lgi =>
      (FRel.ofEq (s := s) (s' := { s with nextFlag := s.nextFlag + 1 }) rfl rfl rfl rfl rfl).trans (frel_frontCall _ _ _ _ _ _ _ _ _ _))
  | removeBlocking a g =>
    simp only [Backend.applyFront]
    split
    · exact FRel.refl _
    · exact frel_withLogger s a g _ (fun lgi =>
        (FRel.ofEq (s := s) (s' := dropName { s with nextFlag := s.nextFlag + 1 } g) rfl rfl rfl rfl rfl).trans
          (frel_frontCall _ _ _ _ _ _ _ _ _ _))
  | remove a g =>
    simp only [Backend.applyFront]
    split
    · exact FRel.refl _
    · split
      · rename_i lgi _ _
        have h1 : FRel s (dropName s g) := FRel.ofEq rfl rfl rfl rfl rfl
        have h2 := h1.trans (FRel.setLg (dropName s g) lgi (fun l => { l with valid := false }) (fun _ => ⟨rfl, rfl⟩))
        exact h2.trans (FRel.ofEq rfl rfl rfl rfl rfl)
      · exact FRel.refl _
  | create a g sl =>
    simp only [Backend.applyFront]
    split
    · exact FRel.refl _
    · split
      · split
        · exact FRel.refl _
        · exact FRel.ofEq rfl rfl rfl rfl rfl
      · refine ⟨⟨[], rfl, fun _ h => by cases h⟩, ?_, rfl, fun _ h => h, fun _ => rfl⟩
        intro i sid he hs
        have hi : i < s.lgs.length := by
          apply Classical.byContradiction; intro hn
          have : s.lgOf i = default := by
            simp only [BSt.lgOf, List.getD_eq_getElem?_getD, List.getElem?_eq_none (by omega : s.lgs.length ≤ i)]; rfl
          rw [this] at hs; cases hs
        have : BSt.lgOf { dropName s g with lgs := s.lgs ++ [{ gid := g, sinks := sl }], names := (dropName s g).names ++ [(g, s.lgs.length)] } i = s.lgOf i :=
          lgOf_append_lt s _ i hi
        rw [this]; exact ⟨he, hs⟩
  | setLevel g lvl =>
    simp only [Backend.applyFront]
    split
    · exact FRel.setLg _ _ _ (fun _ => ⟨rfl, rfl⟩)
    · exact FRel.refl _
  | setSinkLevel sid lvl =>
    simp only [Backend.applyFront]
    split
    · exact FRel.ofEq rfl rfl rfl rfl rfl
    · exact FRel.refl _
  | dropSink sid =>
    simp only [Backend.applyFront]
    have h1 : FRel s (s.setSink sid (fun k => { k with userRef := false })) := FRel.ofEq rfl rfl rfl rfl rfl
    exact h1.trans (frel_reapSinks _ _)
  | query => exact FRel.refl _

theorem frel_foldFront (ops : List FOp) (skip : FOp → Bool) (e : BSt → FOp → Ev) (he : ∀ s f, neutral (e s f) = true)
    (s1 : BSt) : FRel s1 (ops.foldl (fun s f => (if skip f then (s, "noop") else Backend.applyFront s f).1.emit (e s f)) s1) := by
  induction ops generalizing s1 with
  | nil => exact FRel.refl _
  | cons f fs ih =>
    rw [List.foldl_cons]
    refine FRel.trans ?_ (ih _)
    split
    · exact FRel.emit _ _ (he _ _)
    · exact (frel_applyFront s1 f).trans (FRel.emit _ _ (he _ _))

theorem frel_runInj (table : List (Nat × Nat × List FOp)) (s : BSt) (site : Nat) :
    FRel s (Backend.runInj table s site) := by
  unfold Backend.runInj
  simp only
  generalize ((s.siteCnt.find? (·.1 = site)).map (·.2)).getD 0 + 1 = k
  split
  · exact FRel.ofEq rfl rfl rfl rfl rfl
  · refine FRel.trans (b := { s with siteCnt := (site, k) :: s.siteCnt.filter (·.1 ≠ site) }) (FRel.ofEq rfl rfl rfl rfl rfl) ?_
    exact frel_foldFront _ (fun f => decide (site = 9) && f.needsManagerLock)
        (fun s f => Ev.inj site k f.show (if (decide (site = 9) && f.needsManagerLock) = true then (s, "noop")
          else Backend.applyFront s f).2) (fun _ _ => rfl) _

end Backend.PB
