import QuillModel.Backend.Ops
/-!
# Several frontends with different queue types in one process (`Backend.Mix`)

Anchors: `ThreadContextManager.h` (`ThreadContext::has_bounded_queue_type`, `has_unbounded_queue_type`,
`has_dropping_queue`, `has_blocking_queue` — the queue type is a field of the *thread context*, set from the
`FrontendOptions` of the logger the thread used first), `BackendWorker.h` (`_check_failure_counter`: the loop visits every
cached context and tests `has_bounded_queue_type()` per context; `_cleanup_invalidated_thread_contexts`: the "unreported
counter keeps the context" test sits in the bounded branch only).

A process may instantiate `FrontendImpl<Options>` several times (the default `quill::Frontend` with an unbounded queue
next to a custom bounded dropping frontend; `CsvWriter<T, TFrontendOptions>` does exactly that). The run-wide `Cfg` of the
backend model describes the *bounded* frontend B; `Mix.uActors` lists the threads that log through the second frontend U,
whose contexts carry an **unbounded** queue. What the backend does with a context then depends on the kind of *that*
context:

* `checkFailuresM` — `_check_failure_counter`: every cached context, in cache order; a context of an unbounded queue is
  skipped (its counter is neither read nor reset), a bounded one is reported exactly as in `checkFailures`.
  `Mix.early` is the seeded variant "look at the first cached context only" (`if (cache.empty() ||
  !cache.front()->has_bounded_queue_type()) return;`), kept as a flag for the negative witness; the extraction proves the
  header has no such return (`Obligations/Mixed.lean`).
* `cleanupContextsM` — the F24 rule (an unreported counter keeps an exited thread's context one more pass) applies to
  bounded contexts only; an unbounded context is reclaimed as soon as it is invalid and empty.

**Limitation (stated, not hidden).** The unbounded queue itself (a chain of bounded nodes that grows) is not part of this
model (it is C02's model; its integration is another bundle). A context of frontend U is *approximated by one bounded node
of the same capacity as B's queue, never counted by `checkFailuresM`*: the approximation is exact as long as the first node
never refuses a reservation — the real queue grows at exactly that moment. `uRefused` is the decidable scope test ("some U
context was refused"); the correspondence driver stops comparing a run when it becomes true, and the theorems that speak
about the bounded contexts alone carry it as their explicit hypothesis. Everything else of the machine (frontend calls,
read pass, dispatch, flush, logger clean-up) is the unchanged backend model.
-/
namespace Backend

structure Mix where
  uActors : List Nat := []     -- threads of the second frontend (unbounded queue)
  early : Bool := false        -- seeded variant: `_check_failure_counter` decides by the first cached context
  deriving Repr

/-- `!thread_context->has_bounded_queue_type()` -/
def isU (m : Mix) (t : Th) : Bool := m.uActors.contains t.actor

/-- the test of the seeded early return: `cache.empty() || !cache.front()->has_bounded_queue_type()` -/
def firstCachedUnbounded (m : Mix) (s : BSt) : Bool :=
  match s.cache with
  | [] => true
  | i :: _ => isU m (s.th i)

/-- `_check_failure_counter`, per context kind -/
def checkFailuresM (m : Mix) (inj : BSt → Nat → BSt) (s : BSt) : BSt :=
  if m.early && firstCachedUnbounded m s then s else
  s.cache.foldl (fun s i =>
    let th := s.th i
    if !isU m th && th.fail > 0 then
      inj ({ (s.setTh i (fun t => { t with fail := 0 })).emit
        (.notify (if s.cfg.dropping then s!"n:dropped:{th.fail}:a{th.actor}" else s!"n:blocked:{th.fail}:a{th.actor}"))
             with reported := s.reported + th.fail }) 8
    else s) s

/-- `_cleanup_invalidated_thread_contexts`, per context kind: the F24 rule is in the bounded branch only -/
def cleanupContextsM (m : Mix) (s : BSt) : BSt :=
  if s.invalidCnt = 0 then s else
  let rec go : Nat → BSt → BSt
    | 0, s => s
    | fuel + 1, s =>
      let rec findFirst (s : BSt) : List Nat → BSt × Option Nat
        | [] => (s, none)
        | i :: rest =>
          if (s.th i).valid then findFirst s rest
          else let r := ctxEmpty s i
               if r.2 && (isU m (s.th i) || !s.cfg.cleanupKeepsUnreported || (s.th i).fail == 0) then (r.1, some i)
               else findFirst r.1 rest
      match findFirst s s.cache with
      | (s1, none) => s1
      | (s1, some i) =>
        let s2 := { s1 with registry := s1.registry.filter (· ≠ i), cache := s1.cache.filter (· ≠ i),
                             invalidCnt := counterMod s1.cfg (s1.invalidCnt + 2 ^ s1.cfg.invalidBits - 1) }
        go fuel (s2.setTh i (fun t => { t with removed := true }))
  go (s.cache.length + 1) s

/-- `_process_lowest_timestamp_transit_event` (the Flush path checks the counters and cleans up) -/
def processLowestM (m : Mix) (inj : BSt → Nat → BSt) (s : BSt) : BSt × Bool :=
  match lowest s with
  | none => (s, false)
  | some i =>
    match (s.th i).buf with
    | [] => (s, false)
    | st :: rest =>
      let (s1, exc, flag) := processEvent s st
      let s2 := match exc with | some m => s1.emit (.notify m) | none => s1
      let s3 := { s2.setTh i (fun t => { t with buf := rest, popped := t.popped ++ [st] }) with popLog := st :: s2.popLog }
      match flag with
      | some f =>
        let s3' := if s3.cfg.reportBeforeFlushCleanup then checkFailuresM m inj s3 else s3
        let s4 := cleanupContextsM m s3'
        ({ s4 with flags := f :: s4.flags, flagLog := (f, s4.log.length) :: s4.flagLog }, true)
      | none => (s3, true)

def batchLoopM (m : Mix) (inj : BSt → Nat → BSt) : Nat → BSt → BSt
  | 0, s => s
  | fuel + 1, s =>
    let r := hasPending s
    if r.2 then r.1 else
    let p := processLowestM m inj r.1
    if !p.2 then p.1 else batchLoopM m inj fuel (inj p.1 4)

/-- `_poll` -/
def pollM (m : Mix) (inj : BSt → Nat → BSt) (s : BSt) : BSt :=
  let (s1, count) := populate inj s
  if count ≠ 0 then
    if count < s1.cfg.soft then (processLowestM m inj s1).1
    else batchLoopM m inj (totalBuffered s1 + 64) s1
  else
    let s2 := inj s1 5
    let s3 := checkFailuresM m inj (flushGate inj s2 s2.cfg.flushInterval)
    let r := allEmpty s3
    if r.2 then cleanupLoggers inj (preEraseFlush (cleanupContextsM m r.1)) else r.1

/-- `_exit` -/
def exitLoopM (m : Mix) (inj : BSt → Nat → BSt) (tick : Nat) : Nat → BSt → BSt
  | 0, s => s
  | fuel + 1, s =>
    let r := allEmpty s
    if r.2 then
      let s1 := flushSinks (checkFailuresM m inj r.1)
      cleanupLoggers inj (preEraseFlush (cleanupContextsM m s1))
    else
      let s0 := { r.1 with now := r.1.now + tick }
      let (s1, count) := populate inj s0
      let s2 := if count > 0 then batchLoopM m inj (totalBuffered s1 + 64) s1 else s1
      exitLoopM m inj tick fuel s2

def applyOpM (m : Mix) (s : BSt) : Op → BSt × String
  | .front f => applyFront s f
  | .poll table =>
    if s.backendGone then (s, "noop") else (pollM m (runInj table) { s with siteCnt := [] }, "ev")
  | .exit =>
    if s.backendGone then (s, "noop") else
    ({ exitLoopM m (runInj []) 1000 100000 { s with siteCnt := [] } with backendGone := true }, "ev")

/-- a whole schedule of a process with two frontends -/
def runOpsM (m : Mix) (s : BSt) (ops : List Op) : BSt := ops.foldl (fun s o => (applyOpM m s o).1) s

/-- scope test of the approximation: some context of the unbounded frontend was refused a reservation
    (the real queue would have grown instead) -/
def uRefused (m : Mix) (s : BSt) : Bool :=
  s.ths.any (fun t => isU m t && (t.fail != 0 || t.discarded != 0 || t.blockedCalls != 0)) ||
  -- a control request (flush, backtrace, removal) of an unbounded-frontend thread waiting for room: not counted, but refused
  s.actors.any (fun x => m.uActors.contains x.id && (match x.pend with | .retry _ _ => true | _ => false))

end Backend
