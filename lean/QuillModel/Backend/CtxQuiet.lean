import QuillModel.Backend.SinkBack
import QuillModel.Backend.FlushGate
/-!
An idle poll with nothing injected: the cache is up to date after reading (`populate_nil_newFlag`), every cached
failure counter is 0 after the report (`checkFailures_nil_fail`), and neither changes until the contexts are
reclaimed. Helper lemmas for C20 (the "second idle poll" theorem).
-/
namespace Backend.PC
open Backend Spsc

/-- "the cache is up to date" is stable under everything the backend does -/
theorem newFlagFalse_closedB : ClosedB (fun x => x.newFlag = false) where
  siteCnt := fun _ _ h => h
  emitInj := fun _ _ _ _ _ h => h
  note := fun _ h => h
  clock := fun _ _ h => h
  lastFlush := fun _ _ h => h
  gone := fun _ h => h
  refresh := fun s h => by unfold refreshCache; split <;> first | rfl | exact h
  allEmpty := fun s h => by
    have := congrArg Core.newFlag (core_allEmpty s)
    have e : (core (allEmpty s).1).newFlag = (allEmpty s).1.newFlag := rfl
    rw [e] at this; rw [this]
    unfold Core.refresh; split
    · rfl
    · exact h
  hasPending := fun s h => by
    have := congrArg Core.newFlag (core_hasPending s)
    have e : (core (hasPending s).1).newFlag = (hasPending s).1.newFlag := rfl
    rw [e] at this; rw [this]
    unfold Core.refresh; split
    · rfl
    · exact h
  cleanupContexts := fun s h => cleanupContexts_pres (fun x => x.newFlag = false) (fun _ _ hx => hx) (fun _ _ hx => hx) s h
  invFlag := fun _ _ h => h
  erase := fun s i h _ _ => by
    have := congrArg Core.newFlag (core_allEmpty s)
    have e : (core (allEmpty s).1).newFlag = (allEmpty s).1.newFlag := rfl
    rw [e] at this
    show (allEmpty s).1.newFlag = false
    rw [this]
    unfold Core.refresh; split
    · rfl
    · exact h
  reap := fun _ _ h _ _ => h
  flagRemoval := fun _ _ _ _ _ h _ _ => h
  flushSinks := fun s h => by
    have := congrArg Core.newFlag (core_of_stripOut (flushSinks_strip s))
    exact this.trans h
  readPrep := fun _ _ h => h
  commit := fun _ _ h => h
  readOne := fun s i st rest h _ _ => by
    unfold readOneSt moveSt decodeSt readPrepSt
    split <;> exact h
  report := fun _ _ h _ => h
  pop := fun s i st rest h _ _ => by
    have := congrArg Core.newFlag (core_popSt s i st rest)
    exact this.trans h
  raise := fun _ _ h _ => h

/-- after reading with nothing injected, the cache is up to date -/
theorem populate_nil_newFlag (s : BSt) : (populate (runInj []) s).1.newFlag = false := by
  have hi := runInj_nil_ok newFlagFalse_closedB
  have hq : ∀ x k, (runInj [] x k).newFlag = x.newFlag := fun x k => by rw [runInj_nil]
  have hr : ∀ x, (refreshCache x).newFlag = false := by
    intro x; unfold refreshCache; split
    · rfl
    · rename_i h; simpa using h
  rw [populate_eq]
  apply foldl_pres_pair (fun x => x.newFlag = false)
  · intro acc i h
    exact readQueue_ok newFlagFalse_closedB hi _ _ _ _ _ (by rw [hq]; exact h)
  · show (popS2 (runInj []) s).newFlag = false
    unfold popS2
    split
    · exact hr _
    · rename_i hf
      rw [hq]
      unfold popS1
      have h0 : (popS0 s).newFlag = false := by
        unfold popS0
        split
        · rename_i hf2
          -- popS1's cfg is that of popS0 = s here: the two flags agree
          exfalso
          apply hf
          unfold popS1
          have hc : ∀ x k, (runInj [] x k).cfg = x.cfg := fun x k => by rw [runInj_nil]
          split
          · unfold popS0; rw [if_pos hf2]; exact hf2
          · rw [hc]; unfold popS0; rw [if_pos hf2]; exact hf2
        · exact hr _
      split
      · exact h0
      · rw [hq]; exact h0

/-- the failure counters never grow while they are reported with nothing injected, and every cached one ends at 0 -/
theorem checkFailures_nil_fail (s : BSt) :
    (∀ k, ((checkFailures (runInj []) s).th k).fail ≤ (s.th k).fail) ∧
    ∀ i ∈ s.cache, ((checkFailures (runInj []) s).th i).fail = 0 := by
  rw [checkFailures_eq]
  have hstep : ∀ (x : BSt) (j k : Nat),
      ((if (x.th j).fail > 0 then runInj [] (reportSt x j) 8 else x).th k).fail ≤ (x.th k).fail ∧
      ((if (x.th j).fail > 0 then runInj [] (reportSt x j) 8 else x).th j).fail = 0 := by
    intro x j k
    have hth : ∀ m, (runInj [] (reportSt x j) 8).th m = (x.setTh j (fun t => { t with fail := 0 })).th m := by
      intro m; rw [runInj_nil]; rfl
    split
    · rw [hth, hth, th_setTh, th_setTh]
      refine ⟨?_, ?_⟩
      · split
        · exact Nat.zero_le _
        · exact Nat.le_refl _
      · split
        · rfl
        · rename_i hn
          have : ¬ j < x.ths.length := fun h => hn ⟨rfl, h⟩
          simp only [BSt.th, List.getD_eq_getElem?_getD, List.getElem?_eq_none (by omega : x.ths.length ≤ j)]
          rfl
    · rename_i hz
      exact ⟨Nat.le_refl _, by omega⟩
  have hfold : ∀ (l : List Nat) (x : BSt),
      (∀ k, ((l.foldl (fun s j => if (s.th j).fail > 0 then runInj [] (reportSt s j) 8 else s) x).th k).fail ≤ (x.th k).fail) ∧
      ∀ i ∈ l, ((l.foldl (fun s j => if (s.th j).fail > 0 then runInj [] (reportSt s j) 8 else s) x).th i).fail = 0 := by
    intro l
    induction l with
    | nil => intro x; exact ⟨fun _ => Nat.le_refl _, fun _ h => by cases h⟩
    | cons j rest ih =>
      intro x
      simp only [List.foldl_cons]
      obtain ⟨h1, h2⟩ := ih (if (x.th j).fail > 0 then runInj [] (reportSt x j) 8 else x)
      refine ⟨fun k => Nat.le_trans (h1 k) (hstep x j k).1, fun i hi => ?_⟩
      rcases List.mem_cons.mp hi with rfl | hi
      · have := h1 i
        have h0 := (hstep x i i).2
        omega
      · exact h2 i hi
  exact hfold s.cache s


theorem core_checkFailures_nil (s : BSt) : core (checkFailures (runInj []) s) = core s := by
  rw [checkFailures_eq]
  have : ∀ (l : List Nat) (x : BSt),
      core (l.foldl (fun s j => if (s.th j).fail > 0 then runInj [] (reportSt s j) 8 else s) x) = core x := by
    intro l
    induction l with
    | nil => intro x; rfl
    | cons j rest ih =>
      intro x
      simp only [List.foldl_cons]
      rw [ih]
      split
      · rw [runInj_nil]; exact core_reportSt x j
      · rfl
  exact this _ _

theorem allEmpty_fail (s : BSt) (k : Nat) : ((allEmpty s).1.th k).fail = (s.th k).fail := by
  unfold allEmpty
  simp only []
  have : ∀ (l : List Nat) (acc : BSt × Bool),
      ((l.foldl (fun (acc : BSt × Bool) i => ((ctxEmpty acc.1 i).1, acc.2 && (ctxEmpty acc.1 i).2)) acc).1.th k).fail
        = (acc.1.th k).fail := by
    intro l
    induction l with
    | nil => intro acc; rfl
    | cons i rest ih =>
      intro acc
      simp only [List.foldl_cons]
      rw [ih]
      show ((ctxEmpty acc.1 i).1.th k).fail = _
      rw [ctxEmpty_th]; split <;> rfl
  rw [this]
  unfold refreshCache; split <;> rfl

theorem cleanupContexts_fail_reg (s : BSt) :
    (∀ k, ((cleanupContexts s).th k).fail = (s.th k).fail) ∧ ∀ i ∈ (cleanupContexts s).registry, i ∈ s.registry := by
  apply cleanupContexts_pres (fun x => (∀ k, (x.th k).fail = (s.th k).fail) ∧ ∀ i ∈ x.registry, i ∈ s.registry)
  · intro x i hx
    refine ⟨fun k => ?_, hx.2⟩
    rw [ctxEmpty_th]; split
    · exact hx.1 k
    · exact hx.1 k
  · intro x i hx
    refine ⟨fun k => ?_, fun j hj => ?_⟩
    · unfold removeSt; rw [th_setTh]; split
      · exact hx.1 k
      · exact hx.1 k
    · have : j ∈ x.registry.filter (· ≠ i) := hj
      exact hx.2 j (List.mem_filter.mp this).1
  · exact ⟨fun _ => rfl, fun _ h => h⟩


/-- in the state an idle poll (nothing injected) asks the emptiness question in, every cached failure counter has
    just been reported, and the cache is up to date -/
theorem idleState_nil_facts (s : BSt) :
    (∀ j ∈ (idleState (runInj []) s).cache, ((idleState (runInj []) s).th j).fail = 0) ∧
    (idleState (runInj []) s).newFlag = false := by
  have hinjN := runInj_nil_ok newFlagFalse_closedB
  unfold idleState
  generalize hY : flushGate (runInj []) (runInj [] (populate (runInj []) s).1 5)
    (runInj [] (populate (runInj []) s).1 5).cfg.flushInterval = Y
  have hYN : Y.newFlag = false := by
    rw [← hY]
    apply flushGate_ok newFlagFalse_closedB hinjN
    exact (hinjN _ 5 (populate_nil_newFlag s)).1
  refine ⟨fun j hj => ?_, checkFailures_ok newFlagFalse_closedB hinjN Y hYN⟩
  have hcc : (checkFailures (runInj []) Y).cache = Y.cache := congrArg Core.cache (core_checkFailures_nil Y)
  rw [hcc] at hj
  exact (checkFailures_nil_fail Y).2 j hj


/-- if every cached failure counter is 0 and the cache is the registry, then after the emptiness check and the two
    clean-ups (nothing injected at site 9) every registered context still has a zero counter -/
theorem fail_zero_after_cleanups (inj : BSt → Nat → BSt) (hq : Quiet9 inj) (X : BSt)
    (hf : ∀ j ∈ X.cache, (X.th j).fail = 0) (hcr : X.cache = X.registry) :
    ∀ i ∈ (cleanupLoggers inj (preEraseFlush (cleanupContexts (allEmpty X).1))).registry,
      ((cleanupLoggers inj (preEraseFlush (cleanupContexts (allEmpty X).1))).th i).fail = 0 := by
  intro i hi
  obtain ⟨f1, _, _⟩ := cleanupLoggers_frame inj hq (preEraseFlush (cleanupContexts (allEmpty X).1))
  obtain ⟨_, g2⟩ := cleanupLoggers_fail inj hq (preEraseFlush (cleanupContexts (allEmpty X).1))
  obtain ⟨c1, c2⟩ := cleanupContexts_fail_reg (allEmpty X).1
  have hsol := preEraseFlush_sol (cleanupContexts (allEmpty X).1)
  rw [f1, hsol.registry] at hi
  have hi2 := c2 i hi
  have hreg : (allEmpty X).1.registry = X.registry := by
    have := congrArg Core.registry (core_allEmpty X)
    have e : (core (allEmpty X).1).registry = (allEmpty X).1.registry := rfl
    rw [e] at this; rw [this]
    unfold Core.refresh; split <;> rfl
  rw [hreg, ← hcr] at hi2
  rw [g2, hsol.th, c1, allEmpty_fail]
  exact hf i hi2

end Backend.PC
