import QuillModel.Backend.PcBasic
/-!
Skeleton of every "holds along every schedule" proof about the backend model: the backend functions are cut
into their pieces between hook sites (named here), `Closed P` lists what a state property must be stable under,
and `runOps_closed` concludes that it then holds after every schedule — including polls with arbitrary
frontend operations injected at the hook sites. Helper lemmas only.
-/
namespace Backend.PC
open Backend Spsc

/-! ### the pieces of the backend functions between hook sites, named -/

def readPrepSt (s : BSt) (i : Nat) : BSt :=
  s.setTh i (fun t => { t with q := (qPrepareRead s.cfg (s.th i).q).1 })

def commitSt (s : BSt) (i : Nat) : BSt := s.setTh i (fun t => { t with q := qCommitRead s.cfg t.q })

def decodeSt (s1 : BSt) (st : Stmt) : BSt :=
  match st.kind with
  | .removal f => { s1 with removalFlags := s1.removalFlags ++ [((s1.lgOf st.lg).gid, f)] }
  | _ => s1

def moveSt (s2 : BSt) (i : Nat) (st : Stmt) (rest : List Stmt) : BSt :=
  s2.setTh i (fun t => { t with q := qFinishRead s2.cfg t.q st.size, qStmts := rest, buf := t.buf ++ [st] })

/-- one record moved from the queue of context `i` to its transit buffer -/
def readOneSt (s : BSt) (i : Nat) (st : Stmt) (rest : List Stmt) : BSt :=
  moveSt (decodeSt (readPrepSt s i) st) i st rest

/-- `_populate_transit_event_from_frontend_queue` stops at a record whose timestamp is past `ts_now` -/
def tsStop (tsNow : Option Nat) (st : Stmt) : Bool :=
  match tsNow with | some t => decide (t < st.ts) | none => false

theorem readQueue_zero (inj : BSt → Nat → BSt) (tsNow : Option Nat) (i total : Nat) (s : BSt) :
    readQueue inj tsNow i 0 total s = (if total ≠ 0 then commitSt s i else s) := rfl

theorem readQueue_succ (inj : BSt → Nat → BSt) (tsNow : Option Nat) (i fuel total : Nat) (s : BSt) :
    readQueue inj tsNow i (fuel + 1) total s =
      (let fin (x : BSt) : BSt := if total ≠ 0 then commitSt x i else x
       if !(qPrepareRead s.cfg (s.th i).q).2 then fin (readPrepSt s i) else
       match (s.th i).qStmts with
       | [] => fin (readPrepSt s i)
       | st :: rest =>
         if tsStop tsNow st then fin (readPrepSt s i) else
         let s4 := inj (fmtNote (readOneSt s i st rest) st) 3
         if total + st.size < s4.cfg.qcap ∧ (s4.th i).buf.length < s4.cfg.hard
         then readQueue inj tsNow i fuel (total + st.size) s4 else commitSt s4 i) := by
  rw [readQueue]
  rfl


/-- `_check_failure_counter`: the report of context `i` (before the notifier's hook site) -/
def reportSt (s : BSt) (i : Nat) : BSt :=
  { (s.setTh i (fun t => { t with fail := 0 })).emit
      (.notify (if s.cfg.dropping then s!"n:dropped:{(s.th i).fail}:a{(s.th i).actor}" else s!"n:blocked:{(s.th i).fail}:a{(s.th i).actor}"))
    with reported := s.reported + (s.th i).fail }

theorem checkFailures_eq (inj : BSt → Nat → BSt) (s : BSt) :
    checkFailures inj s = s.cache.foldl (fun s i => if (s.th i).fail > 0 then inj (reportSt s i) 8 else s) s := rfl

/-- the event at the front of context `i` processed, reported if it failed, and popped -/
def popSt (s : BSt) (i : Nat) (st : Stmt) (rest : List Stmt) : BSt :=
  let r := processEvent s st
  let s2 := match r.2.1 with | some m => r.1.emit (.notify m) | none => r.1
  { s2.setTh i (fun t => { t with buf := rest, popped := t.popped ++ [st] }) with popLog := st :: s2.popLog }

def raiseSt (s : BSt) (f : Nat) : BSt :=
  { s with flags := f :: s.flags, flagLog := (f, s.log.length) :: s.flagLog }

theorem processLowest_eq (inj : BSt → Nat → BSt) (s : BSt) :
    processLowest inj s =
      match lowest s with
      | none => (s, false)
      | some i =>
        match (s.th i).buf with
        | [] => (s, false)
        | st :: rest =>
          match (processEvent s st).2.2 with
          | some f =>
            (raiseSt (cleanupContexts (if (popSt s i st rest).cfg.reportBeforeFlushCleanup
                then checkFailures inj (popSt s i st rest) else popSt s i st rest)) f, true)
          | none => (popSt s i st rest, true) := by
  unfold processLowest
  cases hl : lowest s with
  | none => rfl
  | some i =>
    simp only []
    cases hb : (s.th i).buf with
    | nil => rfl
    | cons st rest =>
      simp only []
      rcases hpe : processEvent s st with ⟨s1, exc, flag⟩
      cases flag <;> simp only [popSt, raiseSt, hpe] <;> rfl

/-- the logger objects keep their number and names, and what is erased stays erased -/
def LgMono (s s' : BSt) : Prop :=
  s'.lgs.length = s.lgs.length ∧
  ∀ j, (s'.lgOf j).gid = (s.lgOf j).gid ∧ ((s.lgOf j).erased = true → (s'.lgOf j).erased = true)

theorem LgMono.refl (s : BSt) : LgMono s s := ⟨rfl, fun _ => ⟨rfl, id⟩⟩
theorem LgMono.trans {a b c : BSt} (h1 : LgMono a b) (h2 : LgMono b c) : LgMono a c :=
  ⟨h2.1.trans h1.1, fun j => ⟨(h2.2 j).1.trans (h1.2 j).1, fun h => (h2.2 j).2 ((h1.2 j).2 h)⟩⟩
theorem LgMono.of_lgs {s s' : BSt} (h : s'.lgs = s.lgs) : LgMono s s' := by
  have : ∀ j, s'.lgOf j = s.lgOf j := fun j => by simp only [BSt.lgOf, h]
  exact ⟨by rw [h], fun j => by rw [this]; exact ⟨rfl, id⟩⟩

/-- since the state `s0` the logger clean-up started from, a logger object of name `g` that was not erased then has
    been erased (and no object was added or renamed) -/
def ErasedNow (s0 s : BSt) (g : Nat) : Prop :=
  LgMono s0 s ∧ ∃ j, j < s0.lgs.length ∧ (s0.lgOf j).erased = false ∧ (s0.lgOf j).gid = g ∧ (s.lgOf j).erased = true

theorem allEmpty_lgs' (s : BSt) : (allEmpty s).1.lgs = s.lgs := by
  unfold allEmpty
  simp only []
  have : ∀ (l : List Nat) (acc : BSt × Bool),
      (l.foldl (fun (acc : BSt × Bool) i => ((ctxEmpty acc.1 i).1, acc.2 && (ctxEmpty acc.1 i).2)) acc).1.lgs = acc.1.lgs := by
    intro l
    induction l with
    | nil => intro acc; rfl
    | cons i rest ih => intro acc; simp only [List.foldl_cons]; rw [ih]; rfl
  rw [this]; unfold refreshCache; split <;> rfl

/-- what the clean-up loop knows after some loggers: the property, the logger objects only got erased, and every
    name in the `removed` list belongs to an object erased since the start -/
def LgAcc (P : BSt → Prop) (s0 : BSt) (acc : BSt × List Nat) : Prop :=
  P acc.1 ∧ LgMono s0 acc.1 ∧ ∀ g ∈ acc.2, ErasedNow s0 acc.1 g

theorem ErasedNow.mono {s0 a b : BSt} {g : Nat} (h : ErasedNow s0 a g) (hab : LgMono a b) : ErasedNow s0 b g := by
  obtain ⟨h1, j, j1, j2, j3, j4⟩ := h
  exact ⟨h1.trans hab, j, j1, j2, j3, (hab.2 j).2 j4⟩

/-- what a property must be stable under to hold along every schedule -/
structure ClosedB (P : BSt → Prop) : Prop where
  siteCnt : ∀ s x, P s → P { s with siteCnt := x }
  emitInj : ∀ s a b c d, P s → P (s.emit (.inj a b c d))
  note : ∀ s, P s → P (s.emit (.notify "n:fmterr"))
  clock : ∀ s n, P s → P { s with now := n }
  lastFlush : ∀ s n, P s → P { s with lastFlush := n }
  gone : ∀ s, P s → P { s with backendGone := true }
  refresh : ∀ s, P s → P (refreshCache s)
  allEmpty : ∀ s, P s → P (allEmpty s).1
  hasPending : ∀ s, P s → P (hasPending s).1
  cleanupContexts : ∀ s, P s → P (cleanupContexts s)
  invFlag : ∀ s b, P s → P { s with hasInvalidLoggers := b }
  erase : ∀ s i, P s → (s.lgOf i).valid = false → (Backend.allEmpty s).2 = true →
            P ((Backend.allEmpty s).1.setLg i (fun l => { l with erased := true }))
  reap : ∀ s sid, P s → (s.sinkOf sid).alive = true → sinkRefs s sid = 0 →
            P ((s.setSink sid (fun k => { k with alive := false })).emit (.sinkDtor sid))
  flagRemoval : ∀ s0 s f g, P s0 → P s → ErasedNow s0 s g →
            (∃ g', s.removalFlags.find? (·.1 = g) = some (g', f)) →
            P { s with flags := f :: s.flags, flagLog := (f, s.log.length) :: s.flagLog,
                       removalFlags := s.removalFlags.filter (·.1 ≠ g) }
  flushSinks : ∀ s, P s → P (flushSinks s)
  readPrep : ∀ s i, P s → P (readPrepSt s i)
  commit : ∀ s i, P s → P (commitSt s i)
  readOne : ∀ s i st rest, P s → (qPrepareRead s.cfg (s.th i).q).2 = true → (s.th i).qStmts = st :: rest →
              P (readOneSt s i st rest)
  report : ∀ s i, P s → (s.th i).fail > 0 → P (reportSt s i)
  pop : ∀ s i st rest, P s → lowest s = some i → (s.th i).buf = st :: rest → P (popSt s i st rest)
  raise : ∀ s f, P s → (∃ st, s.popLog.head? = some st ∧ st.kind = .flush f) → P (raiseSt s f)

theorem ClosedB.fmtNote {P : BSt → Prop} (hc : ClosedB P) (s : BSt) (st : Stmt) (h : P s) : P (fmtNote s st) := by
  unfold Backend.fmtNote
  split
  · exact hc.note s h
  · exact h

/-- … and, for schedules with frontend operations, under every frontend operation -/
structure Closed (P : BSt → Prop) : Prop extends ClosedB P where
  front : ∀ s f, P s → P (applyFront s f).1

/-- the injection runner keeps the property (and does not touch the backend's pop history) -/
def InjOK (P : BSt → Prop) (inj : BSt → Nat → BSt) : Prop :=
  ∀ s k, P s → P (inj s k) ∧ (inj s k).popLog = s.popLog ∧ (k = 9 → LgMono s (inj s k))

theorem foldl_pres {α} (P : BSt → Prop) (step : BSt → α → BSt) (h : ∀ s x, P s → P (step s x)) :
    ∀ (l : List α) (s : BSt), P s → P (l.foldl step s)
  | [], _, hs => hs
  | x :: xs, s, hs => foldl_pres P step h xs _ (h s x hs)

theorem foldl_pres_pair {α β} (P : BSt → Prop) (step : BSt × β → α → BSt × β)
    (h : ∀ acc x, P acc.1 → P (step acc x).1) :
    ∀ (l : List α) (acc : BSt × β), P acc.1 → P (l.foldl step acc).1
  | [], _, hs => hs
  | x :: xs, acc, hs => foldl_pres_pair P step h xs _ (h acc x hs)

theorem ensureCtx_popLog (s : BSt) (a : Nat) : (ensureCtx s a).1.popLog = s.popLog := by
  unfold ensureCtx; split <;> rfl

theorem tryEnq_popLog (s : BSt) (ci : Nat) (st : Stmt) : (tryEnq s ci st).1.popLog = s.popLog := by
  unfold tryEnq; simp only []; split <;> rfl

theorem afterEnq_popLog (s : BSt) (a : Nat) (st : Stmt) (cont : Nat) : (afterEnq s a st cont).1.popLog = s.popLog := by
  unfold afterEnq; split <;> rfl

theorem enqFlow_popLog (s : BSt) (a : Nat) (st : Stmt) (cont : Nat) (first initial : Bool) :
    (enqFlow s a st cont first initial).1.popLog = s.popLog := by
  unfold enqFlow
  simp only []
  split
  · rw [afterEnq_popLog]; show (tryEnq _ _ _).1.popLog = _; rw [tryEnq_popLog, ensureCtx_popLog]
  · have h0 : (tryEnq (ensureCtx s a).1 (ensureCtx s a).2 st).1.popLog = s.popLog := by
      rw [tryEnq_popLog, ensureCtx_popLog]
    split
    · split <;> split <;> exact h0
    · split <;> split <;> exact h0


theorem frontCall_popLog (s : BSt) (a lgi : Nat) (kind : Kind) (lvl len cont : Nat) (dyn : Bool) (id : Nat) (named : Bool) :
    (frontCall s a lgi kind lvl len cont dyn id named).1.popLog = s.popLog := by
  unfold frontCall; simp only []; split
  · rfl
  · exact enqFlow_popLog ..

theorem resume_popLog (s : BSt) (a : Nat) : (resume s a).1.popLog = s.popLog := by
  unfold resume; split
  · exact enqFlow_popLog ..
  · split <;> exact enqFlow_popLog ..
  · split <;> rfl
  · rfl

theorem noteCall_popLog (r : BSt × String) (a g : Nat) : (noteCall r a g).1.popLog = r.1.popLog := rfl

theorem withLogger_popLog (s : BSt) (a g : Nat) (k : Nat → BSt × String)
    (hk : ∀ lgi, (k lgi).1.popLog = s.popLog) : (withLogger s a g k).1.popLog = s.popLog := by
  unfold withLogger; split
  · rw [noteCall_popLog]; exact hk _
  · rfl

theorem reapSinks_popLog (sids : List Nat) : ∀ (s : BSt), (reapSinks s sids).popLog = s.popLog := by
  unfold reapSinks
  induction sids with
  | nil => intro s; rfl
  | cons x xs ih =>
    intro s
    simp only [List.foldl_cons]
    rw [ih]; split <;> rfl

theorem applyFront_popLog (s : BSt) (f : FOp) : (applyFront s f).1.popLog = s.popLog := by
  cases f <;> simp only [applyFront]
  case tstart => split <;> rfl
  case texit => split; rfl; split <;> rfl
  case resume a =>
    split
    · exact resume_popLog s a
    · split
      · exact resume_popLog s a
      · exact resume_popLog s a
  case armStall => split <;> rfl
  case log a g lvl len dyn =>
    apply withLogger_popLog; intro lgi; split
    · exact frontCall_popLog ..
    · rfl
  case logNamed a g len =>
    apply withLogger_popLog; intro lgi; split
    · exact frontCall_popLog ..
    · rfl
  case logBt a g len =>
    apply withLogger_popLog; intro lgi; split
    · exact frontCall_popLog ..
    · rfl
  case initBt => apply withLogger_popLog; intro lgi; exact frontCall_popLog ..
  case flushBt => apply withLogger_popLog; intro lgi; exact frontCall_popLog ..
  case flush => apply withLogger_popLog; intro lgi; exact frontCall_popLog ..
  case removeBlocking a g =>
    split
    · rfl
    · apply withLogger_popLog; intro lgi; exact frontCall_popLog ..
  case remove a g =>
    split
    · rfl
    · split <;> rfl
  case create a g sl =>
    split
    · rfl
    · split
      · split <;> rfl
      · rfl
  case setLevel => split <;> rfl
  case setSinkLevel => split <;> rfl
  case dropSink sid => exact reapSinks_popLog _ _


/-! ### the pop history is the backend's own -/

theorem ctxEmpty_popLog (s : BSt) (i : Nat) : (ctxEmpty s i).1.popLog = s.popLog := rfl

theorem findFirst_nil (s : BSt) : cleanupContexts.go.findFirst s [] = (s, none) := rfl

theorem findFirst_cons (s : BSt) (i : Nat) (rest : List Nat) :
    cleanupContexts.go.findFirst s (i :: rest) =
      if (s.th i).valid then cleanupContexts.go.findFirst s rest
      else if (ctxEmpty s i).2 && (!s.cfg.cleanupKeepsUnreported || (s.th i).fail == 0) then ((ctxEmpty s i).1, some i)
      else cleanupContexts.go.findFirst (ctxEmpty s i).1 rest := rfl

/-- a registered context dropped by the clean-up -/
def removeSt (s1 : BSt) (i : Nat) : BSt :=
  ({ s1 with registry := s1.registry.filter (· ≠ i), cache := s1.cache.filter (· ≠ i),
             invalidCnt := counterMod s1.cfg (s1.invalidCnt + 2 ^ s1.cfg.invalidBits - 1) } : BSt).setTh i
    (fun t => { t with removed := true })

theorem go_zero (s : BSt) : cleanupContexts.go 0 s = s := rfl

theorem go_succ (fuel : Nat) (s : BSt) :
    cleanupContexts.go (fuel + 1) s =
      match cleanupContexts.go.findFirst s s.cache with
      | (s1, none) => s1
      | (s1, some i) => cleanupContexts.go fuel (removeSt s1 i) := rfl

theorem cleanupContexts_eq (s : BSt) :
    cleanupContexts s = if s.invalidCnt = 0 then s else cleanupContexts.go (s.cache.length + 1) s := rfl

theorem findFirst_popLog : ∀ (l : List Nat) (s : BSt), (cleanupContexts.go.findFirst s l).1.popLog = s.popLog
  | [], _ => rfl
  | i :: rest, s => by
    rw [findFirst_cons]
    split
    · exact findFirst_popLog rest s
    · split
      · rfl
      · rw [findFirst_popLog rest]; rfl

theorem go_popLog : ∀ (fuel : Nat) (s : BSt), (cleanupContexts.go fuel s).popLog = s.popLog
  | 0, _ => rfl
  | n + 1, s => by
    rw [go_succ]
    have h1 := findFirst_popLog s.cache s
    split
    · rename_i s1 heq; rw [heq] at h1; exact h1
    · rename_i s1 i heq; rw [heq] at h1; rw [go_popLog n]; exact h1

theorem cleanupContexts_popLog (s : BSt) : (cleanupContexts s).popLog = s.popLog := by
  rw [cleanupContexts_eq]; split
  · rfl
  · exact go_popLog _ _

/-- the frontend operation an injection runs: at site 9 (inside the logger clean-up, which holds the manager's lock) a
    call that needs that lock does nothing -/
def injRes (site : Nat) (s : BSt) (f : FOp) : BSt × String :=
  if site = 9 && f.needsManagerLock then (s, "noop") else applyFront s f

def injStep (site k : Nat) (s : BSt) (f : FOp) : BSt :=
  (injRes site s f).1.emit (.inj site k f.show (injRes site s f).2)

def siteK (s : BSt) (site : Nat) : Nat := ((s.siteCnt.find? (·.1 = site)).map (·.2)).getD 0 + 1

theorem runInj_eq (table : List (Nat × Nat × List FOp)) (s : BSt) (site : Nat) :
    runInj table s site =
      match table.find? (fun x => x.1 = site ∧ x.2.1 = siteK s site) with
      | none => { s with siteCnt := (site, siteK s site) :: s.siteCnt.filter (·.1 ≠ site) }
      | some (_, _, ops) =>
        ops.foldl (injStep site (siteK s site)) { s with siteCnt := (site, siteK s site) :: s.siteCnt.filter (·.1 ≠ site) } := by
  unfold runInj; rfl

theorem runInj_popLog (table : List (Nat × Nat × List FOp)) (s : BSt) (site : Nat) :
    (runInj table s site).popLog = s.popLog := by
  rw [runInj_eq]
  split
  · rfl
  · rename_i ops _
    have : ∀ (l : List FOp) (x : BSt), (l.foldl (injStep site (siteK s site)) x).popLog = x.popLog := by
      intro l
      induction l with
      | nil => intro x; rfl
      | cons f fs ih =>
        intro x; simp only [List.foldl_cons]; rw [ih]
        show (injRes site x f).1.popLog = _
        unfold injRes; split
        · rfl
        · exact applyFront_popLog x f
    rw [this]

/-! ### a closed property holds along every schedule -/

def popS0 (s : BSt) : BSt := if s.cfg.refreshAfterSample then s else refreshCache s
def popS1 (inj : BSt → Nat → BSt) (s : BSt) : BSt := if (popS0 s).cfg.grace = 0 then popS0 s else inj (popS0 s) 7
def popS2 (inj : BSt → Nat → BSt) (s : BSt) : BSt :=
  if (popS1 inj s).cfg.refreshAfterSample then refreshCache (inj (popS1 inj s) 1) else inj (popS1 inj s) 1

/-- one context read during `populate`: hook site 2, then the read loop -/
def popStep (inj : BSt → Nat → BSt) (tsNow : Option Nat) (acc : BSt × Nat) (i : Nat) : BSt × Nat :=
  (readQueue inj tsNow i (((inj acc.1 2).th i).qStmts.length + 64) 0 (inj acc.1 2),
   acc.2 + ((readQueue inj tsNow i (((inj acc.1 2).th i).qStmts.length + 64) 0 (inj acc.1 2)).th i).buf.length)

theorem populate_eq (inj : BSt → Nat → BSt) (s : BSt) :
    populate inj s = (popS2 inj s).cache.foldl (popStep inj (tsNowOf (popS1 inj s))) (popS2 inj s, 0) := rfl

theorem processEvent_flag (s : BSt) (st : Stmt) (f : Nat) (h : (processEvent s st).2.2 = some f) :
    st.kind = .flush f := by
  unfold processEvent at h
  split at h
  · split at h
    · simp only [] at h; split at h
      · cases h
      · split at h <;> cases h
    · split at h <;> cases h
  · cases h
  · cases h
  · rename_i f' hk; simp only [Option.some.injEq] at h; rw [hk, h]
  · cases h


/-! ### what the frontend does to the logger objects: only `create` adds one, nobody renames or un-erases -/

/-- names and erasure flags of the logger objects -/
def gev (s : BSt) : List (Nat × Bool) := s.lgs.map (fun l => (l.gid, l.erased))

theorem LgMono.of_gev {s s' : BSt} (h : gev s' = gev s) : LgMono s s' := by
  have hlen : s'.lgs.length = s.lgs.length := by
    have := congrArg List.length h; simpa [gev] using this
  refine ⟨hlen, fun j => ?_⟩
  have := congrArg (fun l => l[j]?) h
  simp only [gev, List.getElem?_map] at this
  simp only [BSt.lgOf, List.getD_eq_getElem?_getD]
  cases h1 : s'.lgs[j]? <;> cases h2 : s.lgs[j]? <;> rw [h1, h2] at this <;> simp at this
  · exact ⟨rfl, id⟩
  · exact ⟨this.1, fun h => by simp only [Option.getD_some] at h ⊢; rw [this.2]; exact h⟩

theorem gev_setLg (s : BSt) (i : Nat) (f : Lg → Lg) (hf : ∀ l, (f l).gid = l.gid ∧ (f l).erased = l.erased) :
    gev (s.setLg i f) = gev s := by
  simp only [gev, BSt.setLg]
  exact map_updAt s.lgs i f _ (fun l => by simp only [(hf l).1, (hf l).2])

theorem ensureCtx_gev (s : BSt) (a : Nat) : gev (ensureCtx s a).1 = gev s := by
  unfold ensureCtx; split <;> rfl

theorem tryEnq_gev (s : BSt) (ci : Nat) (st : Stmt) : gev (tryEnq s ci st).1 = gev s := by
  unfold tryEnq; simp only []; split <;> rfl

theorem afterEnq_gev (s : BSt) (a : Nat) (st : Stmt) (cont : Nat) : gev (afterEnq s a st cont).1 = gev s := by
  unfold afterEnq
  split
  · rfl
  · exact gev_setLg s _ _ (fun _ => ⟨rfl, rfl⟩)
  · rfl
  · exact gev_setLg s st.lg (fun l => { l with valid := false }) (fun _ => ⟨rfl, rfl⟩)
  · rfl

theorem enqFlow_gev (s : BSt) (a : Nat) (st : Stmt) (cont : Nat) (first initial : Bool) :
    gev (enqFlow s a st cont first initial).1 = gev s := by
  have h0 : gev (tryEnq (ensureCtx s a).1 (ensureCtx s a).2 st).1 = gev s := by
    rw [tryEnq_gev, ensureCtx_gev]
  unfold enqFlow
  simp only []
  split
  · rw [afterEnq_gev]; exact h0
  · repeat' split
    all_goals exact h0

theorem frontCall_gev (s : BSt) (a lgi : Nat) (kind : Kind) (lvl len cont : Nat) (dyn : Bool) (id : Nat) (named : Bool) :
    gev (frontCall s a lgi kind lvl len cont dyn id named).1 = gev s := by
  unfold frontCall; simp only []; split
  · rfl
  · exact enqFlow_gev ..

theorem resume_gev (s : BSt) (a : Nat) : gev (resume s a).1 = gev s := by
  unfold resume; split
  · exact enqFlow_gev ..
  · split <;> exact enqFlow_gev ..
  · split <;> rfl
  · rfl

theorem withLogger_gev (s : BSt) (a g : Nat) (k : Nat → BSt × String)
    (hk : ∀ lgi, gev (k lgi).1 = gev s) : gev (withLogger s a g k).1 = gev s := by
  unfold withLogger; split
  · exact hk _
  · rfl

theorem reapSinks_gev (sids : List Nat) : ∀ (s : BSt), gev (reapSinks s sids) = gev s := by
  unfold reapSinks
  induction sids with
  | nil => intro s; rfl
  | cons x xs ih =>
    intro s
    simp only [List.foldl_cons]
    rw [ih]; split <;> rfl

/-- every frontend operation but `create_or_get_logger` leaves the logger objects' names and erasure alone -/
theorem front_gev (s : BSt) (f : FOp) (hf : f.needsManagerLock = false) : gev (applyFront s f).1 = gev s := by
  cases f <;> simp only [applyFront]
  case tick => rfl
  case tstart => split <;> rfl
  case texit => split; rfl; split <;> rfl
  case resume a =>
    split
    · exact resume_gev s a
    · split
      · exact resume_gev s a
      · exact resume_gev s a
  case armStall => split <;> rfl
  case log a g lvl len dyn =>
    apply withLogger_gev; intro lgi; split
    · exact frontCall_gev ..
    · rfl
  case logNamed a g len =>
    apply withLogger_gev; intro lgi; split
    · exact frontCall_gev ..
    · rfl
  case logBt a g len =>
    apply withLogger_gev; intro lgi; split
    · exact frontCall_gev ..
    · rfl
  case initBt => apply withLogger_gev; intro lgi; exact frontCall_gev ..
  case flushBt => apply withLogger_gev; intro lgi; exact frontCall_gev ..
  case flush => apply withLogger_gev; intro lgi; exact frontCall_gev ..
  case removeBlocking a g =>
    split
    · rfl
    · apply withLogger_gev; intro lgi; exact frontCall_gev ..
  case remove a g =>
    split
    · rfl
    · split
      · rename_i lgi _ _
        exact gev_setLg (dropName s g) lgi (fun l => { l with valid := false }) (fun _ => ⟨rfl, rfl⟩)
      · rfl
  case create => cases hf
  case setLevel => split <;> first | rfl | exact gev_setLg s _ _ (fun _ => ⟨rfl, rfl⟩)
  case setSinkLevel => split <;> rfl
  case dropSink sid => exact reapSinks_gev _ _

theorem runInj_lgMono9 (table : List (Nat × Nat × List FOp)) (s : BSt) : LgMono s (runInj table s 9) := by
  rw [runInj_eq]
  have h1 : LgMono s { s with siteCnt := (9, siteK s 9) :: s.siteCnt.filter (·.1 ≠ 9) } := LgMono.of_lgs rfl
  split
  · exact h1
  · apply foldl_pres (LgMono s) _ _ _ _ h1
    intro x f hx
    refine hx.trans (LgMono.of_gev ?_)
    show gev (injRes 9 x f).1 = gev x
    unfold injRes
    cases hn : f.needsManagerLock
    · simp only [Bool.and_false, Bool.false_eq_true, if_false]
      exact front_gev x f hn
    · simp only [decide_true, Bool.and_self, if_true]

theorem runInj_ok {P : BSt → Prop} (hc : Closed P) (table : List (Nat × Nat × List FOp)) : InjOK P (runInj table) := by
  intro s site hs
  refine ⟨?_, runInj_popLog table s site, fun h9 => by rw [h9]; exact runInj_lgMono9 table s⟩
  rw [runInj_eq]
  have h1 := hc.siteCnt s ((site, siteK s site) :: s.siteCnt.filter (·.1 ≠ site)) hs
  split
  · exact h1
  · refine foldl_pres P _ (fun x f hx => hc.emitInj _ _ _ _ _ ?_) _ _ h1
    show P (injRes site x f).1
    unfold injRes; split
    · exact hx
    · exact hc.front x f hx

/-- with nothing scheduled at the hook sites only the visit counters change: no frontend closure needed -/
theorem runInj_nil_ok {P : BSt → Prop} (hc : ClosedB P) : InjOK P (runInj []) := by
  intro s site hs
  refine ⟨?_, runInj_popLog [] s site, fun h9 => by rw [h9]; exact runInj_lgMono9 [] s⟩
  rw [runInj_eq]
  exact hc.siteCnt s _ hs

/-- one logger of the clean-up loop -/
def lgStep (inj : BSt → Nat → BSt) (acc : BSt × List Nat) (i : Nat) : BSt × List Nat :=
  if (acc.1.lgOf i).valid then acc else
  if (allEmpty acc.1).2 then
    (reapSinksInj inj ((allEmpty acc.1).1.setLg i (fun l => { l with erased := true })) (acc.1.lgOf i).sinks,
      acc.2 ++ [(acc.1.lgOf i).gid])
  else ({ (allEmpty acc.1).1 with hasInvalidLoggers := true }, acc.2)

/-- raising the removal flag recorded for a name -/
def flagStep (s : BSt) (gid : Nat) : BSt :=
  match s.removalFlags.find? (·.1 = gid) with
  | some (_, f) => { s with flags := f :: s.flags, flagLog := (f, s.log.length) :: s.flagLog,
                            removalFlags := s.removalFlags.filter (·.1 ≠ gid) }
  | none => s

/-- the loggers the clean-up visits: those not yet erased, by name -/
def lgOrder (s : BSt) : List Nat :=
  insSorted (fun a b => decide ((s.lgOf a).gid ≤ (s.lgOf b).gid))
    ((List.range s.lgs.length).filter (fun i => !(s.lgOf i).erased))

theorem cleanupLoggers_eq (inj : BSt → Nat → BSt) (s : BSt) :
    cleanupLoggers inj s =
      if !s.hasInvalidLoggers then s else
      (((lgOrder { s with hasInvalidLoggers := false }).foldl (lgStep inj) ({ s with hasInvalidLoggers := false }, [])).2).foldl
        flagStep ((lgOrder { s with hasInvalidLoggers := false }).foldl (lgStep inj) ({ s with hasInvalidLoggers := false }, [])).1 := by
  unfold cleanupLoggers
  split
  · rfl
  · rfl

/-- nothing but the visit counter changes at hook site 9 (inside the logger clean-up) -/
def Quiet9 (inj : BSt → Nat → BSt) : Prop := ∀ s, ∃ sc, inj s 9 = { s with siteCnt := sc }

theorem runInj_quiet9 (table : List (Nat × Nat × List FOp)) (h : ∀ e ∈ table, e.1 ≠ 9) : Quiet9 (runInj table) := by
  intro s
  rw [runInj_eq]
  split
  · exact ⟨_, rfl⟩
  · rename_i a b ops hf
    have hm := List.mem_of_find?_eq_some hf
    have hp := List.find?_some hf
    simp only [decide_eq_true_eq] at hp
    exact absurd hp.1 (h _ hm)

theorem runInj_nil_quiet9 : Quiet9 (runInj []) := runInj_quiet9 [] (fun _ h => by cases h)

/-- the logger clean-up, step by step: what a property must be stable under to survive it -/
theorem cleanupLoggers_steps (P : BSt → Prop) (inj : BSt → Nat → BSt) (h9 : ∀ x, P x → P (inj x 9))
    (hInv : ∀ x b, P x → P { x with hasInvalidLoggers := b })
    (hAll : ∀ x, P x → P (allEmpty x).1)
    (hEr : ∀ x i, P x → (x.lgOf i).valid = false → (allEmpty x).2 = true →
      P ((allEmpty x).1.setLg i (fun l => { l with erased := true })))
    (hReap : ∀ x sid, P x → (x.sinkOf sid).alive = true → sinkRefs x sid = 0 →
      P ((x.setSink sid (fun k => { k with alive := false })).emit (.sinkDtor sid)))
    (hFlag : ∀ x f g, P x → P { x with flags := f :: x.flags, flagLog := (f, x.log.length) :: x.flagLog,
                                        removalFlags := x.removalFlags.filter (·.1 ≠ g) })
    (s : BSt) (hs : P s) : P (cleanupLoggers inj s) := by
  have hreap : ∀ (sids : List Nat) (x : BSt), P x → P (reapSinksInj inj x sids) := by
    intro sids
    unfold reapSinksInj
    induction sids with
    | nil => intro x hx; exact hx
    | cons y ys ih =>
      intro x hx
      simp only [List.foldl_cons]
      apply ih
      split
      · rename_i hcnd
        simp only [Bool.and_eq_true, decide_eq_true_eq] at hcnd
        exact h9 _ (hReap x y hx hcnd.1 hcnd.2)
      · exact hx
  rw [cleanupLoggers_eq]
  split
  · exact hs
  · apply foldl_pres P
    · intro x g hx
      unfold flagStep
      split
      · rename_i f _; exact hFlag x f g hx
      · exact hx
    · apply foldl_pres_pair P
      · intro acc i h
        unfold lgStep
        split
        · exact h
        · rename_i hv
          split
          · rename_i he
            exact hreap _ _ (hEr acc.1 i h (by simpa using hv) he)
          · exact hInv _ true (hAll _ h)
      · exact hInv s false hs

section
variable {P : BSt → Prop} (hc : ClosedB P)
include hc

theorem readQueue_ok {inj : BSt → Nat → BSt} (hi : InjOK P inj) (tsNow : Option Nat) (i : Nat) :
    ∀ (fuel total : Nat) (s : BSt), P s → P (readQueue inj tsNow i fuel total s)
  | 0, total, s, hs => by
    rw [readQueue_zero]
    split
    · exact hc.commit _ _ hs
    · exact hs
  | fuel + 1, total, s, hs => by
    rw [readQueue_succ]
    have hfin : P (if total ≠ 0 then commitSt (readPrepSt s i) i else readPrepSt s i) := by
      split
      · exact hc.commit _ _ (hc.readPrep s i hs)
      · exact hc.readPrep s i hs
    simp only []
    split
    · exact hfin
    · rename_i hr
      split
      · exact hfin
      · rename_i st rest hq
        split
        · exact hfin
        · have h3 : P (inj (fmtNote (readOneSt s i st rest) st) 3) :=
            (hi _ 3 (hc.fmtNote _ st (hc.readOne s i st rest hs (by simpa using hr) hq))).1
          split
          · exact readQueue_ok hi tsNow i fuel _ _ h3
          · exact hc.commit _ _ h3

theorem checkFailures_ok {inj : BSt → Nat → BSt} (hi : InjOK P inj) (s : BSt) (hs : P s) :
    P (checkFailures inj s) := by
  rw [checkFailures_eq]
  apply foldl_pres P _ _ _ _ hs
  intro x i hx
  split
  · rename_i hf; exact (hi _ 8 (hc.report x i hx hf)).1
  · exact hx

theorem checkFailures_popLog {inj : BSt → Nat → BSt} (hi : InjOK P inj) (s : BSt) (hs : P s) :
    (checkFailures inj s).popLog = s.popLog := by
  rw [checkFailures_eq]
  have : ∀ (l : List Nat) (x : BSt), P x →
      (l.foldl (fun s i => if (s.th i).fail > 0 then inj (reportSt s i) 8 else s) x).popLog = x.popLog := by
    intro l
    induction l with
    | nil => intro x _; rfl
    | cons i rest ih =>
      intro x hx
      simp only [List.foldl_cons]
      split
      · rename_i hf
        have h := hi _ 8 (hc.report x i hx hf)
        rw [ih _ h.1, h.2.1]; rfl
      · exact ih x hx
  exact this _ _ hs

theorem processLowest_ok {inj : BSt → Nat → BSt} (hi : InjOK P inj) (s : BSt) (hs : P s) :
    P (processLowest inj s).1 := by
  rw [processLowest_eq]
  split
  · exact hs
  · rename_i i hl
    split
    · exact hs
    · rename_i st rest hb
      have hp := hc.pop s i st rest hs hl hb
      split
      · rename_i f hf
        have hk := processEvent_flag s st f hf
        have hpl : (popSt s i st rest).popLog.head? = some st := rfl
        apply hc.raise
        · apply hc.cleanupContexts
          split
          · exact checkFailures_ok hc hi _ hp
          · exact hp
        · refine ⟨st, ?_, hk⟩
          rw [cleanupContexts_popLog]
          split
          · rw [checkFailures_popLog hc hi _ hp]; exact hpl
          · exact hpl
      · exact hp

theorem populate_ok {inj : BSt → Nat → BSt} (hi : InjOK P inj) (s : BSt) (hs : P s) :
    P (populate inj s).1 := by
  rw [populate_eq]
  apply foldl_pres_pair P
  · intro acc i hacc
    exact readQueue_ok hc hi _ _ _ _ _ (hi _ 2 hacc).1
  · have h0 : P (popS0 s) := by
      unfold popS0; split
      · exact hs
      · exact hc.refresh s hs
    have h1 : P (popS1 inj s) := by
      unfold popS1; split
      · exact h0
      · exact (hi _ 7 h0).1
    have h2 := (hi _ 1 h1).1
    show P (popS2 inj s)
    unfold popS2; split
    · exact hc.refresh _ h2
    · exact h2

theorem batchLoop_ok {inj : BSt → Nat → BSt} (hi : InjOK P inj) :
    ∀ (fuel : Nat) (s : BSt), P s → P (batchLoop inj fuel s)
  | 0, _, hs => hs
  | fuel + 1, s, hs => by
    unfold batchLoop
    simp only []
    have hp := hc.hasPending s hs
    split
    · exact hp
    · have hl := processLowest_ok hc hi _ hp
      split
      · exact hl
      · exact batchLoop_ok hi fuel _ (hi _ 4 hl).1

/-- the sinks of an erased logger are destroyed one by one, hook site 9 after each destruction -/
theorem reapSinksInj_ok {inj : BSt → Nat → BSt} (hi : InjOK P inj) (sids : List Nat) :
    ∀ (s : BSt), P s → P (reapSinksInj inj s sids) := by
  unfold reapSinksInj
  induction sids with
  | nil => intro s hs; exact hs
  | cons x xs ih =>
    intro s hs
    simp only [List.foldl_cons]
    apply ih
    split
    · rename_i hcnd
      simp only [Bool.and_eq_true, decide_eq_true_eq] at hcnd
      exact (hi _ 9 (hc.reap s x hs hcnd.1 hcnd.2)).1
    · exact hs

/-- the sinks of an erased logger are destroyed: the property is kept, and so are the logger objects -/
theorem reapSinksInj_ok2 {inj : BSt → Nat → BSt} (hi : InjOK P inj) (sids : List Nat) :
    ∀ (s : BSt), P s → P (reapSinksInj inj s sids) ∧ LgMono s (reapSinksInj inj s sids) := by
  unfold reapSinksInj
  induction sids with
  | nil => intro s hs; exact ⟨hs, LgMono.refl s⟩
  | cons x xs ih =>
    intro s hs
    simp only [List.foldl_cons]
    split
    · rename_i hcnd
      simp only [Bool.and_eq_true, decide_eq_true_eq] at hcnd
      have h1 := hi _ 9 (hc.reap s x hs hcnd.1 hcnd.2)
      obtain ⟨a1, a2⟩ := ih _ h1.1
      refine ⟨a1, LgMono.trans ?_ a2⟩
      exact (LgMono.of_lgs (s := s) (s' := (s.setSink x (fun k => { k with alive := false })).emit (.sinkDtor x)) rfl).trans
        (h1.2.2 rfl)
    · exact ih s hs

theorem lgStep_ok {inj : BSt → Nat → BSt} (hi : InjOK P inj) (s0 : BSt) (acc : BSt × List Nat) (i : Nat)
    (hi0 : i < s0.lgs.length ∧ (s0.lgOf i).erased = false) (h : LgAcc P s0 acc) : LgAcc P s0 (lgStep inj acc i) := by
  obtain ⟨hp, hm, hr⟩ := h
  unfold lgStep
  split
  · exact ⟨hp, hm, hr⟩
  · rename_i hv
    have hae : LgMono acc.1 (allEmpty acc.1).1 := LgMono.of_lgs (allEmpty_lgs' acc.1)
    split
    · rename_i he
      have her : LgMono (allEmpty acc.1).1 ((allEmpty acc.1).1.setLg i (fun l => { l with erased := true })) := by
        refine ⟨lgs_length_setLg _ _ _, fun j => ?_⟩
        rw [lgOf_setLg]; split
        · exact ⟨rfl, fun _ => rfl⟩
        · exact ⟨rfl, id⟩
      obtain ⟨a1, a2⟩ := reapSinksInj_ok2 hc hi (acc.1.lgOf i).sinks _ (hc.erase acc.1 i hp (by simpa using hv) he)
      have hall : LgMono acc.1 (reapSinksInj inj ((allEmpty acc.1).1.setLg i (fun l => { l with erased := true }))
          (acc.1.lgOf i).sinks) := (hae.trans her).trans a2
      refine ⟨a1, hm.trans hall, fun g hg => ?_⟩
      rcases List.mem_append.mp hg with hg | hg
      · exact (hr g hg).mono hall
      · simp only [List.mem_singleton] at hg
        refine ⟨hm.trans hall, i, hi0.1, hi0.2, by rw [hg, (hm.2 i).1], ?_⟩
        apply (a2.2 i).2
        rw [lgOf_setLg]
        have : i < (allEmpty acc.1).1.lgs.length := by rw [allEmpty_lgs', hm.1]; exact hi0.1
        simp only [this, and_self, if_true]
    · have hfin : LgMono acc.1 ({ (allEmpty acc.1).1 with hasInvalidLoggers := true } : BSt) :=
        hae.trans (LgMono.of_lgs rfl)
      exact ⟨hc.invFlag _ true (hc.allEmpty _ hp), hm.trans hfin, fun g hg => (hr g hg).mono hfin⟩

theorem cleanupLoggers_ok {inj : BSt → Nat → BSt} (hi : InjOK P inj) (s : BSt) (hs : P s) :
    P (cleanupLoggers inj s) := by
  rw [cleanupLoggers_eq]
  split
  · exact hs
  · -- first loop
    have hord : ∀ i ∈ lgOrder { s with hasInvalidLoggers := false }, i < s.lgs.length ∧ (s.lgOf i).erased = false := by
      intro i hi'
      unfold lgOrder at hi'
      rw [mem_insSorted, List.mem_filter, List.mem_range] at hi'
      have h2 : (s.lgOf i).erased = false := by
        have := hi'.2
        simp only [Bool.not_eq_true'] at this
        exact this
      exact ⟨hi'.1, h2⟩
    have h1 : ∀ (l : List Nat) (acc : BSt × List Nat), (∀ i ∈ l, i < s.lgs.length ∧ (s.lgOf i).erased = false) →
        LgAcc P s acc → LgAcc P s (l.foldl (lgStep inj) acc) := by
      intro l
      induction l with
      | nil => intro acc _ h; exact h
      | cons i rest ih =>
        intro acc hl h
        simp only [List.foldl_cons]
        exact ih _ (fun j hj => hl j (List.mem_cons_of_mem _ hj)) (lgStep_ok hc hi s acc i (hl i List.mem_cons_self) h)
    have h2 := h1 _ ({ s with hasInvalidLoggers := false }, []) hord
      ⟨hc.invFlag s false hs, LgMono.of_lgs rfl, fun g hg => by cases hg⟩
    revert h2
    generalize (lgOrder { s with hasInvalidLoggers := false }).foldl (lgStep inj)
      ({ s with hasInvalidLoggers := false }, ([] : List Nat)) = res
    intro h2
    obtain ⟨s1, removed⟩ := res
    obtain ⟨q1, q2, q3⟩ := h2
    -- second loop: the logger objects do not change any more
    have h3 : ∀ (l : List Nat) (x : BSt), (∀ g ∈ l, g ∈ removed) → P x → x.lgs = s1.lgs → P (l.foldl flagStep x) := by
      intro l
      induction l with
      | nil => intro x _ hx _; exact hx
      | cons g rest ih =>
        intro x hl hx hlg
        simp only [List.foldl_cons]
        have hmono : LgMono s1 x := LgMono.of_lgs hlg
        have hstep : P (flagStep x g) ∧ (flagStep x g).lgs = s1.lgs := by
          unfold flagStep
          split
          · rename_i g' f hfind
            exact ⟨hc.flagRemoval s x f g hs hx ((q3 g (hl g List.mem_cons_self)).mono hmono) ⟨g', hfind⟩, hlg⟩
          · exact ⟨hx, hlg⟩
        exact ih _ (fun g' hg' => hl g' (List.mem_cons_of_mem _ hg')) hstep.1 hstep.2
    exact h3 removed s1 (fun _ h => h) q1 rfl

theorem flushGate_ok {inj : BSt → Nat → BSt} (hi : InjOK P inj) (s : BSt) (n : Nat) (hs : P s) : P (flushGate inj s n) := by
  unfold flushGate
  split
  · exact hc.flushSinks _ hs
  · simp only []
    split
    · exact hc.flushSinks _ (hc.lastFlush _ _ (hi _ 7 hs).1)
    · exact (hi _ 7 hs).1

theorem preEraseFlush_ok (s : BSt) (hs : P s) : P (preEraseFlush s) := by
  unfold preEraseFlush
  split
  · exact hc.flushSinks _ hs
  · exact hs

theorem poll_ok {inj : BSt → Nat → BSt} (hi : InjOK P inj) (s : BSt) (hs : P s) : P (poll inj s) := by
  unfold poll
  have hp := populate_ok hc hi s hs
  rcases hpe : populate inj s with ⟨s1, count⟩
  rw [hpe] at hp
  simp only []
  split
  · split
    · exact processLowest_ok hc hi _ hp
    · exact batchLoop_ok hc hi _ _ hp
  · have h3 := checkFailures_ok hc hi _ (flushGate_ok hc hi _ (inj s1 5).cfg.flushInterval (hi _ 5 hp).1)
    have h4 := hc.allEmpty _ h3
    split
    · exact cleanupLoggers_ok hc hi _ (preEraseFlush_ok hc _ (hc.cleanupContexts _ h4))
    · exact h4

theorem exitLoop_ok {inj : BSt → Nat → BSt} (hi : InjOK P inj) (tick : Nat) :
    ∀ (fuel : Nat) (s : BSt), P s → P (exitLoop inj tick fuel s)
  | 0, _, hs => hs
  | fuel + 1, s, hs => by
    unfold exitLoop
    simp only []
    have h1 := hc.allEmpty s hs
    split
    · exact cleanupLoggers_ok hc hi _ (preEraseFlush_ok hc _ (hc.cleanupContexts _ (hc.flushSinks _ (checkFailures_ok hc hi _ h1))))
    · have h2 := populate_ok hc hi _ (hc.clock _ ((allEmpty s).1.now + tick) h1)
      rcases hpe : populate inj { (allEmpty s).1 with now := (allEmpty s).1.now + tick } with ⟨s1, count⟩
      rw [hpe] at h2
      simp only []
      apply exitLoop_ok hi tick fuel
      split
      · exact batchLoop_ok hc hi _ _ h2
      · exact h2

end

theorem applyOp_closed {P : BSt → Prop} (hc : Closed P) (s : BSt) (op : Op) (hs : P s) : P (applyOp s op).1 := by
  cases op with
  | front f => exact hc.front s f hs
  | poll table =>
    simp only [applyOp]; split
    · exact hs
    · exact poll_ok hc.toClosedB (runInj_ok hc table) _ (hc.siteCnt s [] hs)
  | exit =>
    simp only [applyOp]; split
    · exact hs
    · exact hc.gone _ (exitLoop_ok hc.toClosedB (runInj_ok hc []) _ _ _ (hc.siteCnt s [] hs))

/-- **every schedule**: a closed property of the initial state holds after any list of operations -/
theorem runOps_closed {P : BSt → Prop} (hc : Closed P) : ∀ (ops : List Op) (s : BSt), P s → P (runOps s ops)
  | [], _, hs => hs
  | o :: os, s, hs => by
    show P (runOps (applyOp s o).1 os)
    exact runOps_closed hc os _ (applyOp_closed hc s o hs)


end Backend.PC
