import QuillModel.Backend.CtxCore
/-!
The thread-context invariant `CInv` (= `CI` on the core of a model state) holds along every schedule:
effect of every primitive of the model on the core, the `Closed CInv` instance, `CInv_runOps`.
Helper lemmas for C20 / C07.
-/
namespace Backend.PC
open Backend Spsc

/-- the state without what the dispatch side writes (sinks, event lists, logger objects) -/
def stripOut (s : BSt) : BSt := { s with sinks := [], out := [], log := [], lgs := [] }

theorem core_stripOut (s : BSt) : core (stripOut s) = core s := rfl

theorem core_of_stripOut {s s' : BSt} (h : stripOut s' = stripOut s) : core s' = core s := by
  rw [← core_stripOut s', h, core_stripOut]

@[simp] theorem stripOut_setSink (s : BSt) (sid : Nat) (f : Sink → Sink) : stripOut (s.setSink sid f) = stripOut s := rfl
@[simp] theorem stripOut_setLg (s : BSt) (i : Nat) (f : Lg → Lg) : stripOut (s.setLg i f) = stripOut s := rfl
@[simp] theorem stripOut_emit (s : BSt) (e : Ev) : stripOut (s.emit e) = stripOut s := rfl

theorem writeToSinks_strip (st : Stmt) : ∀ (sids : List Nat) (s : BSt), stripOut (writeToSinks s st sids).1 = stripOut s
  | [], _ => rfl
  | sid :: rest, s => by
    simp only [writeToSinks]
    split
    · split
      · rfl
      · rw [writeToSinks_strip st rest]; rfl
    · exact writeToSinks_strip st rest s

theorem dispatch_strip (s : BSt) (st : Stmt) : stripOut (dispatch s st).1 = stripOut s := writeToSinks_strip st _ s

theorem replayGo_strip : ∀ (l : List Stmt) (s : BSt), stripOut (replayRing.go s l).1 = stripOut s
  | [], _ => rfl
  | x :: xs, s => by
    unfold replayRing.go
    simp only []
    split
    · split
      · rw [replayGo_strip xs, stripOut_emit]; exact dispatch_strip s x
      · exact dispatch_strip s x
    · rw [replayGo_strip xs]; exact dispatch_strip s x

theorem replayRing_strip (s : BSt) (lgi : Nat) : stripOut (replayRing s lgi).1 = stripOut s := by
  unfold replayRing
  split
  · rfl
  · simp only []
    split
    · exact replayGo_strip _ s
    · show stripOut ((replayRing.go s _).1.setLg _ _) = _
      rw [stripOut_setLg]; exact replayGo_strip _ s

theorem flushSinks_strip (s : BSt) : stripOut (flushSinks s) = stripOut s := by
  unfold flushSinks
  generalize activeSinks s = l
  induction l generalizing s with
  | nil => rfl
  | cons x xs ih =>
    simp only [List.foldl_cons]
    rw [ih]
    split <;> rfl

theorem preEraseFlush_strip (s : BSt) : stripOut (preEraseFlush s) = stripOut s := by
  unfold preEraseFlush
  split
  · exact flushSinks_strip s
  · rfl

theorem reapSinks_strip (sids : List Nat) : ∀ (s : BSt), stripOut (reapSinks s sids) = stripOut s := by
  unfold reapSinks
  induction sids with
  | nil => intro s; rfl
  | cons x xs ih =>
    intro s
    simp only [List.foldl_cons]
    rw [ih]; split <;> rfl

theorem processEvent_strip (s : BSt) (st : Stmt) : stripOut (processEvent s st).1 = stripOut s := by
  unfold processEvent
  split
  · split
    · simp only []
      split
      · exact dispatch_strip s st
      · split
        · rw [replayRing_strip]; exact dispatch_strip s st
        · exact dispatch_strip s st
    · split <;> rfl
  · rfl
  · exact replayRing_strip s _
  · exact flushSinks_strip s
  · rfl


/-! ### effect of the model's primitives on the core -/

theorem core_setTh (s : BSt) (i : Nat) (f : Th → Th) (h1 : ∀ t, (f t).valid = t.valid) (h2 : ∀ t, (f t).actor = t.actor) :
    core (s.setTh i f) = core s := by
  have := map_updAt s.ths i f (fun t => (⟨t.valid, t.actor⟩ : TC)) (fun t => by simp only [h1 t, h2 t])
  simp only [core, BSt.setTh, this]

theorem core_setActor (s : BSt) (a : Nat) (f : Actor → Actor)
    (h1 : ∀ x, (f x).id = x.id) (h2 : ∀ x, (f x).alive = x.alive) (h3 : ∀ x, (f x).ctx = x.ctx) :
    core (s.setActor a f) = core s := by
  have : (s.actors.map (fun x => if x.id = a ∧ x.alive then f x else x)).map (fun x => (⟨x.id, x.alive, x.ctx⟩ : AC)) =
      s.actors.map (fun x => ⟨x.id, x.alive, x.ctx⟩) := by
    rw [List.map_map]
    apply List.map_congr_left
    intro x _
    simp only [Function.comp]
    split
    · simp only [h1 x, h2 x, h3 x]
    · rfl
  simp only [core, BSt.setActor, this]

@[simp] theorem core_setLg (s : BSt) (i : Nat) (f : Lg → Lg) : core (s.setLg i f) = core s := rfl
@[simp] theorem core_setSink (s : BSt) (sid : Nat) (f : Sink → Sink) : core (s.setSink sid f) = core s := rfl
@[simp] theorem core_emit (s : BSt) (e : Ev) : core (s.emit e) = core s := rfl

theorem live_core (s : BSt) (a : Nat) :
    (core s).live a = (s.actor a).map (fun x => ⟨x.id, x.alive, x.ctx⟩) := by
  simp only [Core.live, core, BSt.actor, List.find?_map]
  rfl

theorem core_refresh (s : BSt) : core (refreshCache s) = (core s).refresh := by
  unfold refreshCache Core.refresh
  show core (if s.newFlag = true then _ else _) = if s.newFlag = true then _ else _
  split <;> rfl

theorem core_removeSt (s : BSt) (i : Nat) : core (removeSt s i) = (core s).remove i := by
  unfold removeSt
  rw [core_setTh _ i (fun t => { t with removed := true }) (fun _ => rfl) (fun _ => rfl)]
  rfl

theorem core_ensureCtx (s : BSt) (a : Nat) :
    core (ensureCtx s a).1 = if ((s.actor a).bind (·.ctx)).isSome then core s else (core s).register a := by
  unfold ensureCtx
  cases h : (s.actor a).bind (·.ctx) with
  | some i => rfl
  | none =>
    simp only [Option.isSome_none, Bool.false_eq_true, if_false]
    simp only [core, BSt.setActor, Core.register, List.map_append, List.map_cons, List.map_nil, mkTh,
      List.length_map, List.map_map]
    congr 1
    apply List.map_congr_left
    intro x _
    simp only [Function.comp]
    split <;> rfl

theorem core_texit (s : BSt) (a : Nat) (hi : idleActor s a = true) :
    core (applyFront s (.texit a)).1 = (core s).exit a := by
  simp only [applyFront, hi, Bool.not_true, Bool.false_eq_true, if_false]
  have hact : ∀ (X : BSt), X.actors = s.actors →
      (X.setActor a (fun x => { x with alive := false })).actors.map (fun x => (⟨x.id, x.alive, x.ctx⟩ : AC)) =
      ((core s).actors.map (fun x => if x.id = a ∧ x.alive = true then { x with alive := false } else x)) := by
    intro X hX
    simp only [BSt.setActor, core, hX, List.map_map]
    apply List.map_congr_left
    intro x _
    simp only [Function.comp]
    split <;> rfl
  unfold Core.exit
  rw [live_core]
  cases hc : (s.actor a).bind (·.ctx) with
  | none =>
    have : ((s.actor a).map (fun x => (⟨x.id, x.alive, x.ctx⟩ : AC))).bind (·.ctx) = none := by
      cases hx : s.actor a with
      | none => rfl
      | some x => simp [hx] at hc ⊢; exact hc
    simp only [this]
    simp only [core, hact s rfl]
    rfl
  | some i =>
    have : ((s.actor a).map (fun x => (⟨x.id, x.alive, x.ctx⟩ : AC))).bind (·.ctx) = some i := by
      cases hx : s.actor a with
      | none => simp [hx] at hc
      | some x => simp [hx] at hc ⊢; exact hc
    simp only [this]
    simp only [core, BSt.setTh, counterMod]
    rw [hact s rfl]
    congr 1
    simp only [updAt, ths_setActor]
    apply List.ext_getElem?
    intro j
    simp only [List.getElem?_mapIdx, List.getElem?_map]
    cases s.ths[j]? with
    | none => rfl
    | some t => simp only [Option.map_some]; split <;> rfl


/-! ### the invariant on model states -/

def CInv (s : BSt) : Prop := CI (core s)

theorem CInv_of_core {s s' : BSt} (h : core s' = core s) (hs : CInv s) : CInv s' := by
  unfold CInv; rw [h]; exact hs

theorem core_tryEnq (s : BSt) (ci : Nat) (st : Stmt) : core (tryEnq s ci st).1 = core s := by
  unfold tryEnq; simp only []
  split <;> simp only [core_setTh, implies_true]

theorem core_afterEnq (s : BSt) (a : Nat) (st : Stmt) (cont : Nat) : core (afterEnq s a st cont).1 = core s := by
  unfold afterEnq
  split <;> simp only [core_setActor, core_setLg, implies_true]
  rfl

theorem core_enqFlow (s : BSt) (a : Nat) (st : Stmt) (cont : Nat) (first initial : Bool) :
    core (enqFlow s a st cont first initial).1 = core (ensureCtx s a).1 := by
  unfold enqFlow
  simp only []
  split
  · rw [core_afterEnq]; simp only [core_setActor, core_tryEnq, implies_true]
  · have h0 := core_tryEnq (ensureCtx s a).1 (ensureCtx s a).2 st
    split
    · split <;> split <;> simp only [core_setActor, core_setTh, h0, implies_true]
    · split <;> split <;> simp only [core_setActor, core_setTh, h0, implies_true]


theorem CInv_ensureCtx {s : BSt} (hs : CInv s) (a : Nat) (ha : (s.actor a).isSome = true) : CInv (ensureCtx s a).1 := by
  unfold CInv
  rw [core_ensureCtx]
  split
  · exact hs
  · rename_i hc
    obtain ⟨y, hy⟩ := Option.isSome_iff_exists.mp ha
    have hyc : y.ctx = none := by
      rw [hy] at hc; simp only [Option.bind_some] at hc
      cases h : y.ctx with
      | none => rfl
      | some i => rw [h] at hc; simp at hc
    exact CI.register hs a ⟨y.id, y.alive, y.ctx⟩ (by rw [live_core, hy]; rfl) hyc

theorem CInv_enqFlow {s : BSt} (hs : CInv s) (a : Nat) (ha : (s.actor a).isSome = true) (st : Stmt) (cont : Nat)
    (first initial : Bool) : CInv (enqFlow s a st cont first initial).1 :=
  CInv_of_core (core_enqFlow s a st cont first initial) (CInv_ensureCtx hs a ha)

theorem CInv_frontCall {s : BSt} (hs : CInv s) (a : Nat) (ha : (s.actor a).isSome = true) (lgi : Nat) (kind : Kind)
    (lvl len cont : Nat) (dyn : Bool) (id : Nat) (named : Bool) :
    CInv (frontCall s a lgi kind lvl len cont dyn id named).1 := by
  unfold frontCall; simp only []; split
  · exact CInv_of_core (by simp only [core_setActor, implies_true]) hs
  · exact CInv_enqFlow hs a ha ..

theorem CInv_resume {s : BSt} (hs : CInv s) (a : Nat) : CInv (resume s a).1 := by
  unfold resume
  split
  · rename_i st cont h
    have ha : (s.actor a).isSome = true := by
      cases hx : s.actor a with
      | none => rw [hx] at h; cases h
      | some _ => rfl
    exact CInv_enqFlow hs a ha ..
  · rename_i st cont h
    have ha : (s.actor a).isSome = true := by
      cases hx : s.actor a with
      | none => rw [hx] at h; cases h
      | some _ => rfl
    split <;> exact CInv_enqFlow hs a ha ..
  · split
    · exact CInv_of_core (by simp only [core_setActor, implies_true]) hs
    · exact hs
  · exact hs

theorem idle_isSome {s : BSt} {a : Nat} (h : idleActor s a = true) : (s.actor a).isSome = true := by
  unfold idleActor at h
  cases hx : s.actor a with
  | none => rw [hx] at h; cases h
  | some _ => rfl

theorem CInv_withLogger {s : BSt} (a g : Nat) (k : Nat → BSt × String)
    (hk : ∀ lgi, (s.actor a).isSome = true → CInv (k lgi).1) (hs : CInv s) : CInv (withLogger s a g k).1 := by
  unfold withLogger; split
  · rename_i lgi _ hi
    exact CInv_of_core (by simp only [noteCall, core_setActor, implies_true]) (hk lgi (idle_isSome hi))
  · exact hs

theorem reapSinks_core (sids : List Nat) (s : BSt) : core (reapSinks s sids) = core s :=
  core_of_stripOut (reapSinks_strip sids s)

theorem CInv_front (s : BSt) (f : FOp) (hs : CInv s) : CInv (applyFront s f).1 := by
  cases f <;> simp only [applyFront]
  case tick => exact hs
  case tstart a =>
    split
    · exact hs
    · rename_i hn
      have hl : (core s).live a = none := by
        rw [live_core]; cases hx : s.actor a with
        | none => rfl
        | some _ => rw [hx] at hn; simp at hn
      have hcore : core ({ s with actors := s.actors ++ [{ id := a }] } : BSt) = (core s).tstart a := by
        simp only [core, Core.tstart, List.map_append, List.map_cons, List.map_nil]
      show CI (core _)
      rw [hcore]; exact CI.tstart hs a hl
  case texit a =>
    split
    · exact hs
    · rename_i hi
      have hi' : idleActor s a = true := by simpa using hi
      have := core_texit s a hi'
      simp only [applyFront, hi', Bool.not_true, Bool.false_eq_true, if_false] at this
      unfold CInv; rw [this]; exact CI.exit hs a
  case resume a =>
    split
    · exact CInv_resume hs a
    · split
      · exact CInv_resume hs a
      · exact CInv_of_core (by simp only [core_setActor, implies_true]) (CInv_resume hs a)
  case armStall a =>
    split
    · exact CInv_of_core (by simp only [core_setActor, implies_true]) hs
    · exact hs
  case log a g lvl len dyn =>
    apply CInv_withLogger _ _ _ _ hs; intro lgi ha; split
    · exact CInv_frontCall (s := { s with nextId := s.nextId + 1 }) hs a ha ..
    · exact hs
  case logNamed a g len =>
    apply CInv_withLogger _ _ _ _ hs; intro lgi ha; split
    · exact CInv_frontCall (s := { s with nextId := s.nextId + 1 }) hs a ha ..
    · exact hs
  case logBt a g len =>
    apply CInv_withLogger _ _ _ _ hs; intro lgi ha; split
    · exact CInv_frontCall (s := { s with nextId := s.nextId + 1 }) hs a ha ..
    · exact hs
  case initBt a g cap fl => apply CInv_withLogger _ _ _ _ hs; intro lgi ha; exact CInv_frontCall hs a ha ..
  case flushBt a g => apply CInv_withLogger _ _ _ _ hs; intro lgi ha; exact CInv_frontCall hs a ha ..
  case flush a g =>
    apply CInv_withLogger _ _ _ _ hs; intro lgi ha
    exact CInv_frontCall (s := { s with nextFlag := s.nextFlag + 1 }) hs a ha ..
  case removeBlocking a g =>
    split
    · exact hs
    · apply CInv_withLogger _ _ _ _ hs; intro lgi ha
      exact CInv_frontCall (s := dropName { s with nextFlag := s.nextFlag + 1 } g) hs a ha ..
  case remove a g =>
    split
    · exact hs
    · split
      · exact hs
      · exact hs
  case create a g sl =>
    split
    · exact hs
    · split
      · split <;> exact hs
      · exact hs
  case setLevel => split <;> exact hs
  case setSinkLevel => split <;> exact hs
  case dropSink sid => exact CInv_of_core (reapSinks_core _ _) hs
  case query => exact hs


/-! ### the backend's leaf pieces -/

theorem core_ctxEmpty (s : BSt) (i : Nat) : core (ctxEmpty s i).1 = core s := by
  unfold ctxEmpty; simp only [core_setTh, implies_true]

theorem allEmpty_fold_core : ∀ (l : List Nat) (acc : BSt × Bool),
    core (l.foldl (fun (acc : BSt × Bool) i => ((ctxEmpty acc.1 i).1, acc.2 && (ctxEmpty acc.1 i).2)) acc).1 = core acc.1
  | [], _ => rfl
  | i :: rest, acc => by
    simp only [List.foldl_cons]
    rw [allEmpty_fold_core rest]; exact core_ctxEmpty acc.1 i

theorem core_allEmpty (s : BSt) : core (allEmpty s).1 = (core s).refresh := by
  unfold allEmpty
  simp only []
  rw [allEmpty_fold_core, core_refresh]

theorem hasPending_fold_core : ∀ (l : List Nat) (acc : BSt × Bool),
    core (l.foldl (fun (acc : BSt × Bool) i =>
      if acc.2 then acc else
      if (acc.1.th i).buf.isEmpty then
        (acc.1.setTh i (fun t => { t with q := (qEmpty acc.1.cfg (acc.1.th i).q).1 }), !(qEmpty acc.1.cfg (acc.1.th i).q).2)
      else acc) acc).1 = core acc.1
  | [], _ => rfl
  | i :: rest, acc => by
    simp only [List.foldl_cons]
    rw [hasPending_fold_core rest]
    split
    · rfl
    · split
      · simp only [core_setTh, implies_true]
      · rfl

theorem core_hasPending (s : BSt) : core (hasPending s).1 = (core s).refresh := by
  unfold hasPending
  simp only []
  rw [hasPending_fold_core, core_refresh]

theorem valid_core (s : BSt) (i : Nat) : (core s).valid i = (s.th i).valid := by
  simp only [Core.valid, core, BSt.th, List.getD_eq_getElem?_getD, List.getElem?_map]
  cases s.ths[i]? <;> rfl

theorem findFirst_spec : ∀ (l : List Nat) (s : BSt),
    core (cleanupContexts.go.findFirst s l).1 = core s ∧
    ∀ i, (cleanupContexts.go.findFirst s l).2 = some i → i ∈ l ∧ (core s).valid i = false
  | [], s => ⟨rfl, fun i h => by cases h⟩
  | j :: rest, s => by
    rw [findFirst_cons]
    split
    · obtain ⟨h1, h2⟩ := findFirst_spec rest s
      exact ⟨h1, fun i h => ⟨List.mem_cons_of_mem _ (h2 i h).1, (h2 i h).2⟩⟩
    · rename_i hv
      split
      · refine ⟨core_ctxEmpty s j, fun i h => ?_⟩
        simp only [Option.some.injEq] at h
        subst h
        exact ⟨List.mem_cons_self, by rw [valid_core]; simpa using hv⟩
      · obtain ⟨h1, h2⟩ := findFirst_spec rest (ctxEmpty s j).1
        refine ⟨h1.trans (core_ctxEmpty s j), fun i h => ?_⟩
        have := h2 i h
        rw [core_ctxEmpty] at this
        exact ⟨List.mem_cons_of_mem _ this.1, this.2⟩

theorem CInv_go : ∀ (fuel : Nat) (s : BSt), CInv s → CInv (cleanupContexts.go fuel s)
  | 0, _, hs => hs
  | n + 1, s, hs => by
    rw [go_succ]
    obtain ⟨h1, h2⟩ := findFirst_spec s.cache s
    split
    · rename_i s1 heq
      rw [heq] at h1; exact CInv_of_core h1 hs
    · rename_i s1 i heq
      rw [heq] at h1 h2
      have hs1 : CInv s1 := CInv_of_core h1 hs
      apply CInv_go n
      unfold CInv
      rw [core_removeSt]
      obtain ⟨hm, hv⟩ := h2 i rfl
      apply CI.remove hs1
      · rw [h1]; exact hm
      · rw [h1]; exact hv

theorem CInv_cleanupContexts (s : BSt) (hs : CInv s) : CInv (cleanupContexts s) := by
  rw [cleanupContexts_eq]; split
  · exact hs
  · exact CInv_go _ _ hs

theorem CInv_allEmpty (s : BSt) (hs : CInv s) : CInv (allEmpty s).1 := by
  unfold CInv; rw [core_allEmpty]; exact CI.refresh hs

/-- the state without what the logger clean-up writes besides the cache refresh -/
def stripL (s : BSt) : BSt :=
  { s with sinks := [], out := [], log := [], lgs := [], hasInvalidLoggers := false, flags := [], flagLog := [],
           removalFlags := [], siteCnt := [] }

/-- with nothing injected at hook site 9, `cleanupLoggers` touches the rest of the state only through the
    emptiness checks -/
theorem cleanupLoggers_presL (P : BSt → Prop) (inj : BSt → Nat → BSt) (hq : Quiet9 inj)
    (hAll : ∀ x, P x → P (allEmpty x).1) (hfr : ∀ x y, P x → stripL y = stripL x → P y) (s : BSt) (hs : P s) :
    P (cleanupLoggers inj s) := by
  apply cleanupLoggers_steps P inj _ _ hAll _ _ _ s hs
  · intro x hx
    obtain ⟨sc, h⟩ := hq x
    rw [h]; exact hfr x _ hx rfl
  · intro x b hx; exact hfr x _ hx rfl
  · intro x i hx _ _; exact hfr _ _ (hAll x hx) rfl
  · intro x sid hx _ _; exact hfr x _ hx rfl
  · intro x f g hx; exact hfr x _ hx rfl

/-- the same, for properties that read only the core -/
theorem cleanupLoggers_pres (P : BSt → Prop) (inj : BSt → Nat → BSt) (hq : Quiet9 inj)
    (hAll : ∀ x, P x → P (allEmpty x).1) (hcore : ∀ x y, P x → core y = core x → P y) (s : BSt) (hs : P s) :
    P (cleanupLoggers inj s) :=
  cleanupLoggers_presL P inj hq hAll (fun x y hx h => hcore x y hx (by
    have h1 : core (stripL y) = core y := rfl
    have h2 : core (stripL x) = core x := rfl
    rw [← h1, h, h2])) s hs

theorem core_readPrepSt (s : BSt) (i : Nat) : core (readPrepSt s i) = core s := by
  unfold readPrepSt; simp only [core_setTh, implies_true]
theorem core_commitSt (s : BSt) (i : Nat) : core (commitSt s i) = core s := by
  unfold commitSt; simp only [core_setTh, implies_true]
theorem core_decodeSt (s : BSt) (st : Stmt) : core (decodeSt s st) = core s := by
  unfold decodeSt; split <;> rfl
theorem core_moveSt (s : BSt) (i : Nat) (st : Stmt) (rest : List Stmt) : core (moveSt s i st rest) = core s := by
  unfold moveSt; simp only [core_setTh, implies_true]
theorem core_readOneSt (s : BSt) (i : Nat) (st : Stmt) (rest : List Stmt) : core (readOneSt s i st rest) = core s := by
  unfold readOneSt; rw [core_moveSt, core_decodeSt, core_readPrepSt]
theorem core_reportSt (s : BSt) (i : Nat) : core (reportSt s i) = core s := by
  have : core (reportSt s i) = core (s.setTh i (fun t => { t with fail := 0 })) := rfl
  rw [this]; simp only [core_setTh, implies_true]
theorem core_popSt (s : BSt) (i : Nat) (st : Stmt) (rest : List Stmt) : core (popSt s i st rest) = core s := by
  have h1 : ∀ X : BSt, core ({ X.setTh i (fun t => { t with buf := rest, popped := t.popped ++ [st] }) with
      popLog := st :: X.popLog } : BSt) = core X := by
    intro X
    have : core ({ X.setTh i (fun t => { t with buf := rest, popped := t.popped ++ [st] }) with
      popLog := st :: X.popLog } : BSt) = core (X.setTh i (fun t => { t with buf := rest, popped := t.popped ++ [st] })) := rfl
    rw [this]; simp only [core_setTh, implies_true]
  unfold popSt
  simp only []
  rw [h1]
  split
  · exact core_of_stripOut (processEvent_strip s st)
  · exact core_of_stripOut (processEvent_strip s st)

theorem CInv_closed : Closed CInv where
  front := CInv_front
  siteCnt := fun _ _ h => h
  emitInj := fun _ _ _ _ _ h => h
  note := fun _ h => h
  clock := fun _ _ h => h
  lastFlush := fun _ _ h => h
  gone := fun _ h => h
  refresh := fun s h => by unfold CInv; rw [core_refresh]; exact CI.refresh h
  allEmpty := CInv_allEmpty
  hasPending := fun s h => by unfold CInv; rw [core_hasPending]; exact CI.refresh h
  cleanupContexts := CInv_cleanupContexts
  invFlag := fun _ _ h => h
  erase := fun s i h _ _ => CInv_of_core rfl (CInv_allEmpty s h)
  reap := fun _ _ h _ _ => h
  flagRemoval := fun _ _ _ _ _ h _ _ => h
  flushSinks := fun s h => CInv_of_core (core_of_stripOut (flushSinks_strip s)) h
  readPrep := fun s i h => CInv_of_core (core_readPrepSt s i) h
  commit := fun s i h => CInv_of_core (core_commitSt s i) h
  readOne := fun s i st rest h _ _ => CInv_of_core (core_readOneSt s i st rest) h
  report := fun s i h _ => CInv_of_core (core_reportSt s i) h
  pop := fun s i st rest h _ _ => CInv_of_core (core_popSt s i st rest) h
  raise := fun _ _ h _ => h

/-- the invariant of the thread-context bookkeeping holds after every schedule -/
theorem CInv_runOps (s0 : BSt) (h0 : CInv s0) (ops : List Op) : CInv (runOps s0 ops) :=
  runOps_closed CInv_closed ops s0 h0

end Backend.PC
