import QuillModel.Backend.Sched
import QuillModel.Uspsc.Api
/-!
# The unbounded queue inside the backend model: a chain of bounded nodes, sequentially consistent

Anchors: `UnboundedSPSCQueue.h` (`prepare_write` / `_handle_full_queue`, `shrink`, `prepare_read` / `_read_next_queue`,
`empty`, `capacity`, `producer_capacity`), `BackendWorker.h` (`_read_unbounded_frontend_queue`).

A context's queue is `t.q :: t.more` (`Th`): `t.q` is the consumer's node, the last element the producer's node, every
node is the bounded model `Spsc.St` operated through `Spsc.absApi` with newest-value loads — exactly as the bounded
backend machine does (`qPrepareWrite`, `qFinishCommit`, `qPrepareRead`, `qFinishRead`, `qCommitRead`, `qEmpty` of
`Backend/Model.lean`). The capacity decisions are the definitions the C02 theorems are about (`Uspsc.growDecision`,
`Uspsc.shrinkAllocates`, `Uspsc.nextPow2`); the control flow of each call mirrors `Uspsc.apiPrepareWrite`, `apiShrink`,
`apiPrepareRead`, `apiRead`, `apiEmpty` with every stale choice `0` (sequential consistency at hook-site granularity, the
scheduler of H2). `next` of a node is non-null iff a later node exists in the list; a deleted node is dropped from it.
-/
namespace Backend
open Spsc

/-- the producer's node -/
def lastOf : St → List St → St
  | q, [] => q
  | _, p :: rest => lastOf p rest

/-- apply `f` to the producer's node -/
def updLast (f : St → St) : St → List St → St × List St
  | q, [] => (f q, [])
  | q, p :: rest => let r := updLast f p rest; (q, r.1 :: r.2)

def Th.prod (t : Th) : St := lastOf t.q t.more
def Th.setProd (t : Th) (f : St → St) : Th :=
  let r := updLast f t.q t.more
  { t with q := r.1, more := r.2 }

/-- a fresh node: `BoundedSPSCQueue(capacity)` with `_bytes_per_batch = capacity * percent / 100` -/
def newNode (c : Cfg) (cap : Nat) : St := init cap (cap * c.batchPct / 100)

inductive UGrant | grant | null | throw
  deriving DecidableEq, Repr, Inhabited

/-- `prepare_write(n)` + `_handle_full_queue(n)`: try the producer's node (reload if needed); otherwise the capacity
    decision: allocate the doubled node (after `commit_write` on the old one), answer `nullptr`, or throw -/
def uPrepareWrite (c : Cfg) (qmax : Nat) (t : Th) (n : Nat) : Th × UGrant :=
  let r := qPrepareWrite c t.prod n
  let t0 := t.setProd (fun p => (qPrepareWrite c p n).1)      -- the reservation attempt on the producer's node
  if r.2 then (t0, .grant)
  else
    match Uspsc.growDecision r.1.cap n qmax with
    | .throw => (t0, .throw)
    | .null => (t0, .null)
    | .alloc cap' =>
      let t1 := t0.setProd (fun p => (absApi c.qp p .commitWrite).1)
      -- (the reservation on the fresh node finds `n ≤ cap'` free bytes without a reload: it changes nothing)
      ({ t1 with more := t1.more ++ [newNode c cap'] }, .grant)

/-- `finish_and_commit_write(n)` on the producer's node -/
def uFinishCommit (c : Cfg) (t : Th) (n : Nat) : Th := t.setProd (fun p => qFinishCommit c p n)

/-- `shrink(want)`: a new node of capacity `next_power_of_two(want)` iff `want ≤ capacity / 2` -/
def uShrink (c : Cfg) (t : Th) (want : Nat) : Th :=
  if Uspsc.shrinkAllocates t.prod.cap want then { t with more := t.more ++ [newNode c (Uspsc.nextPow2 want)] } else t

/-- `producer_capacity()` -/
def uProducerCap (t : Th) : Nat := t.prod.cap

/-- `prepare_read()` + `_read_next_queue()`: (state, a record is offered, switches made as (previous, new) capacity) -/
def uPrepareRead (c : Cfg) (t : Th) : Th × Bool × List (Nat × Nat) :=
  let r := qPrepareRead c t.q
  if r.2 then ({ t with q := r.1 }, true, [])
  else
    match t.more with
    | [] => ({ t with q := r.1 }, false, [])
    | nx :: rest =>
      let r2 := qPrepareRead c r.1            -- "try the existing buffer once more"
      if r2.2 then ({ t with q := r2.1 }, true, [])
      else
        let old := qCommitRead c r2.1         -- "commit the previous reads before deleting the queue"
        let r3 := qPrepareRead c nx
        ({ t with q := r3.1, more := rest }, r3.2, [(old.cap, nx.cap)])

/-- `_read_unbounded_frontend_queue`: `prepare_read()`, and — F25 repair, `follow` — once more while a switch found the
    next buffer empty -/
def uRead (c : Cfg) (follow : Bool) : Nat → Th → Th × Bool × List (Nat × Nat)
  | 0, t => (t, false, [])
  | fuel + 1, t =>
    let r := uPrepareRead c t
    if follow && !r.2.1 && !r.2.2.isEmpty then
      let r' := uRead c follow fuel r.1
      (r'.1, r'.2.1, r.2.2 ++ r'.2.2)
    else r

def uFinishRead (c : Cfg) (t : Th) (n : Nat) : Th := { t with q := qFinishRead c t.q n }
def uCommitRead (c : Cfg) (t : Th) : Th := { t with q := qCommitRead c t.q }

/-- `empty()`: `bounded_queue.empty() && next == nullptr` -/
def uEmpty (c : Cfg) (t : Th) : Th × Bool :=
  let r := qEmpty c t.q
  ({ t with q := r.1 }, r.2 && t.more.isEmpty)

/-- `capacity()` (consumer side) -/
def uCap (t : Th) : Nat := t.q.cap

end Backend
