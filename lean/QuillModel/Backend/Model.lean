import QuillModel.Spsc.Api
/-!
# Executable model of quill's frontend calls and backend worker (bounded queue variants)

Anchors: `Logger.h` (`log_statement`, `flush_log`, `init_backtrace`, `flush_backtrace`), `Frontend.h`
(`remove_logger`, `remove_logger_blocking`, `create_or_get_logger`), `ThreadContextManager.h`,
`BackendWorker.h` (`_poll`, `_populate_transit_events_from_frontend_queues`,
`_read_and_decode_frontend_queue`, `_process_lowest_timestamp_transit_event`, `_process_transit_event`,
`_write_log_statement`, `_flush_and_run_active_sinks`, `_check_failure_counter`,
`_cleanup_invalidated_thread_contexts`, `_cleanup_invalidated_loggers`, `_exit`), `LoggerManager.h`,
`BacktraceStorage.h`, `Sink.h`.

One deterministic state machine. The per-thread queue is the bounded SPSC model of `Spsc/` run
sequentially consistently (every load returns the newest store), so byte accounting, the batched
publication of the reader position and refusals are exact. Statements are abstract records; the transit
buffer is a FIFO list; sinks record what they are handed. The backend poll is split at the hook sites
(`QUILL_VERIF_YIELD`) so that frontend operations can be injected exactly where the harness injects them.
-/
namespace Backend
open Spsc

inductive Kind
  | log | initBt (cap flushLvl : Nat) | flushBt | flush (flag : Nat) | removal (flag : Nat)
  deriving Repr, DecidableEq, Inhabited

structure Stmt where
  id : Nat
  kind : Kind
  lg : Nat            -- logger *object* (index into `BSt.lgs`)
  lvl : Nat           -- 0 TraceL3 … 8 Critical, 9 Backtrace
  ts : Nat
  size : Nat
  actor : Nat
  named : Bool := false   -- the format string has named placeholders (the sink is handed key/value pairs)
  enqAt : Nat := 0        -- ghost: the clock value at which the record was committed to the queue
  deriving Repr, Inhabited

inductive Ev
  | write (sink id lvl ts : Nat) (named : Bool)
  | wthrow (sink id : Nat)
  | flushed (sink : Nat)
  | fthrow (sink : Nat)
  | notify (what : String)
  | sinkDtor (sink : Nat)
  | inj (site k : Nat) (op res : String)
  deriving Repr

structure Sink where
  sid : Nat
  lvl : Nat := 0
  filtM : Nat := 0
  filtR : Nat := 0
  wthrow : List Nat := []
  fthrow : List Nat := []
  wcalls : Nat := 0
  fcalls : Nat := 0
  userRef : Bool := true
  alive : Bool := true
  -- fault kinds (w2_faults): (call number, kind) for the throwing `write_log` / `flush_sink` calls listed in `wthrow` /
  -- `fthrow`; kind 0 = std::exception with text (default), 1 = std::exception whose what() is empty, 2 = not a std::exception
  wkind : List (Nat × Nat) := []
  fkind : List (Nat × Nat) := []
  patFails : Bool := false     -- the sink's override pattern cannot be built: `PatternFormatter(...)` throws at first use
  deriving Repr, Inhabited

/-- `BacktraceStorage`: vector + index + capacity -/
structure Ring where
  cap : Nat := 0
  index : Nat := 0
  items : List Stmt := []
  deriving Repr, Inhabited

structure Lg where
  gid : Nat
  valid : Bool := true
  level : Nat := 4
  sinks : List Nat := []
  bt : Option Ring := none
  btFlush : Nat := 10       -- LogLevel::None
  erased : Bool := false    -- removed from the LoggerManager (object destroyed)
  deriving Repr, Inhabited

structure Th where
  actor : Nat
  q : St
  qStmts : List Stmt := []   -- finished-and-committed records not yet read by the backend, oldest first
  buf : List Stmt := []      -- transit event buffer
  valid : Bool := true
  fail : Nat := 0
  removed : Bool := false    -- dropped from the registry
  -- ghost history (never read by the machine)
  accepted : List Stmt := []  -- every record ever committed to this thread's queue, in order
  popped : List Stmt := []    -- every event ever popped from this thread's transit buffer, in order
  discarded : Nat := 0        -- ordinary log statements refused by a dropping queue (the call returned false)
  blockedCalls : Nat := 0     -- ordinary log calls that had to wait on a blocking queue
  -- unbounded-queue variants only (`Backend/UQueue.lean`): `q` is the consumer's node, `more` the nodes allocated after
  -- it in allocation order (the last one is the producer's node); always `[]` in the bounded machine
  more : List St := []

instance : Inhabited Th := ⟨{ actor := 0, q := init 1 0 }⟩

/-- what a parked frontend call will do when resumed -/
inductive Pend
  | none
  | stall (s : Stmt) (cont : Nat)            -- parked after reading its timestamp (site 6)
  | retry (s : Stmt) (cont : Nat)            -- blocking retry loop / control-event retry on a dropping queue
  | flag (flag : Nat)                        -- waiting for a flush / removal flag
  deriving Repr, Inhabited
/- `cont`: 0 = plain log (report ret=1), 1 = flush_log (then wait for the flag), 2 = init_backtrace (then set the
   flush level `lvl` of the statement's logger), 3 = flush_backtrace, 4 = remove_logger_blocking (then mark
   invalid and wait for the flag), 5 = static/backtrace macro (no return value reported) -/

structure Actor where
  id : Nat
  alive : Bool := true
  ctx : Option Nat := none       -- index into `BSt.ths`
  pend : Pend := .none
  stallArmed : Bool := false
  lastBytes : Nat := 0
  inCall : Option Nat := none    -- gid of the logger whose public call this actor is parked in
  deriving Inhabited

structure Cfg where
  dropping : Bool
  qcap : Nat
  grace : Nat            -- ns; 0 disables ordering
  soft : Nat
  hard : Nat
  hdr : Nat              -- bytes of timestamp + 3 pointers
  strOverhead : Nat      -- bytes added to the payload length for a string argument
  batchPct : Nat
  qp : Params            -- bounded-queue parameters (orders are irrelevant under SC; `drainPublish` matters)
  invalidBits : Nat      -- width of the invalid-context counter
  refreshAfterSample : Bool   -- the context cache is refreshed after `ts_now` is taken (repaired order)
  catchAllFormat : Bool
  reportBeforeFlushCleanup : Bool   -- the Flush path reports the failure counters before removing contexts (repaired)
  flushInvalidatedLoggers : Bool := true   -- sinks of loggers marked for removal (not erased yet) are still flushed (repaired, F12)
  cleanupKeepsUnreported : Bool := true   -- the clean-up leaves a context whose failure counter is not reported yet (repaired, F24)
  replayCatchesPerEvent : Bool := true   -- a backtrace replay catches a sink exception per stored event, reports it and goes on (repaired, F26)
  flushInterval : Nat := 0               -- `sink_min_flush_interval` in ns; 0 = the idle pass always flushes
  flushBeforeLoggerErase : Bool := true  -- `_cleanup_invalidated_loggers` flushes the sinks before it erases loggers (repaired, F33)
  fmtFaults : List (Nat × Nat) := []     -- fault assignment (statement id, kind): formatting that statement throws; kind 1 = a std::exception, 2 = anything else
  deriving Repr

structure BSt where
  cfg : Cfg
  now : Nat
  ths : List Th := []                 -- every context ever registered (index = context id)
  registry : List Nat := []           -- ids of registered contexts, registration order
  cache : List Nat := []              -- backend's `_active_thread_contexts_cache`
  newFlag : Bool := false
  invalidCnt : Nat := 0
  lgs : List Lg := []                 -- every logger object ever created
  names : List (Nat × Nat) := []      -- gid ↦ current logger object
  hasInvalidLoggers : Bool := false
  sinks : List Sink := []
  actors : List Actor := []
  removalFlags : List (Nat × Nat) := []   -- (gid, flag) recorded when a removal request is decoded
  flags : List Nat := []              -- flags that have been raised
  nextFlag : Nat := 0
  nextId : Nat := 0
  out : List Ev := []                 -- events of the current operation (newest first)
  backendGone : Bool := false
  siteCnt : List (Nat × Nat) := []    -- hook-site visit counters of the current poll
  -- ghost history (never read by the machine)
  log : List Ev := []                 -- every event ever emitted, newest first
  reported : Nat := 0                 -- sum of the counts reported through "dropped"/"blocked" notifications
  popLog : List Stmt := []            -- every event popped by the backend, newest first (global processing order)
  flagLog : List (Nat × Nat) := []    -- (flag, length of `log` when it was raised), newest first
  lastFlush : Nat := 0                -- `_last_sink_flush_time` (read only when `cfg.flushInterval ≠ 0`)
  -- faults of the read pass (w2_faults; read only by `Backend/Fault.lean`): ids of the statements whose argument is the
  -- user-defined type with a throwing codec, the decode calls (1-based, of that type) that throw, decode calls so far
  udt : List Nat := []
  dthrow : List Nat := []
  dcalls : Nat := 0

/-! ### small helpers -/

def updAt {α} (l : List α) (i : Nat) (f : α → α) : List α :=
  l.mapIdx (fun j x => if j = i then f x else x)

def BSt.th (s : BSt) (i : Nat) : Th := s.ths.getD i default
def BSt.lgOf (s : BSt) (i : Nat) : Lg := s.lgs.getD i default
def BSt.sinkOf (s : BSt) (sid : Nat) : Sink := (s.sinks.find? (·.sid = sid)).getD default
def BSt.actor (s : BSt) (a : Nat) : Option Actor := s.actors.find? (fun x => x.id = a ∧ x.alive)

def BSt.setTh (s : BSt) (i : Nat) (f : Th → Th) : BSt := { s with ths := updAt s.ths i f }
def BSt.setLg (s : BSt) (i : Nat) (f : Lg → Lg) : BSt := { s with lgs := updAt s.lgs i f }
def BSt.setSink (s : BSt) (sid : Nat) (f : Sink → Sink) : BSt :=
  { s with sinks := s.sinks.map (fun x => if x.sid = sid then f x else x) }
def BSt.setActor (s : BSt) (a : Nat) (f : Actor → Actor) : BSt :=
  { s with actors := s.actors.map (fun x => if x.id = a ∧ x.alive then f x else x) }
def BSt.emit (s : BSt) (e : Ev) : BSt := { s with out := e :: s.out, log := e :: s.log }

def digits (n : Nat) : Nat := (toString n).length

/-- length of the payload string `"m<id>|"` padded with `x` to `len` -/
def payloadLen (id len : Nat) : Nat := max len (2 + digits id)

def Cfg.batch (c : Cfg) : Nat := c.qcap * c.batchPct / 100

/-- how formatting statement `id` fails: 0 = it does not, 1 = `std::exception`, 2 = a non-`std` exception -/
def Cfg.fmtFault (c : Cfg) (id : Nat) : Nat := ((c.fmtFaults.find? (·.1 = id)).map (·.2)).getD 0

/-! ### queue access under sequential consistency -/

/-- `prepare_write(n)`: reload (newest value) if needed; `some q'` when granted -/
def qPrepareWrite (c : Cfg) (q : St) (n : Nat) : St × Bool :=
  let r := absApi c.qp q (.prepareWrite n (q.rHist.headD 0))
  (r.1, match r.2 with | .grant _ => true | _ => false)

def qFinishCommit (c : Cfg) (q : St) (n : Nat) : St :=
  let q1 := (absApi c.qp q (.finishWrite n)).1
  (absApi c.qp q1 .commitWrite).1

/-- `prepare_read()`: returns whether a record is offered -/
def qPrepareRead (c : Cfg) (q : St) : St × Bool :=
  let r := absApi c.qp q (.prepareRead (q.wHist.headD 0))
  (r.1, match r.2 with | .readAt _ => true | _ => false)

def qFinishRead (c : Cfg) (q : St) (n : Nat) : St := (absApi c.qp q (.finishRead n)).1
def qCommitRead (c : Cfg) (q : St) : St := (absApi c.qp q .commitRead).1

/-- `empty()` as the backend calls it -/
def qEmpty (c : Cfg) (q : St) : St × Bool :=
  let r := absApi c.qp q (.empty (q.wHist.headD 0))
  (r.1, match r.2 with | .isEmpty b => b | _ => true)

/-! ### decision logic (C16) -/

/-- frontend check: `log_statement_level >= get_log_level()` -/
def shouldLog (stmtLvl loggerLvl : Nat) : Bool := decide (loggerLvl ≤ stmtLvl)

/-- per-sink check: level threshold, then every filter (`Sink::apply_all_filters`) -/
def sinkAccepts (k : Sink) (st : Stmt) : Bool :=
  decide (k.lvl ≤ st.lvl) && !(decide (0 < k.filtM) && decide (st.id % k.filtM = k.filtR))

/-! ### backtrace ring (as repaired: index reset on flush, zero capacity retains nothing) -/

def Ring.store (r : Ring) (x : Stmt) : Ring :=
  if r.cap = 0 then r
  else if r.items.length < r.cap then { r with items := r.items ++ [x] }
  else { r with items := r.items.set r.index x,
                index := if r.index < r.cap - 1 then r.index + 1 else 0 }

/-- replay order: from `index` to the end, then from the start to `index` -/
def Ring.replay (r : Ring) : List Stmt := r.items.drop r.index ++ r.items.take r.index

def Ring.cleared (r : Ring) : Ring := { r with items := [], index := 0 }

def Ring.setCapacity (r : Ring) (c : Nat) : Ring :=
  if r.cap = c then r else { cap := c, index := 0, items := [] }

end Backend
